(* C15 proofs, part 4: the stream demultiplexer over all event sequences. *)
From Coq Require Import NArith ZArith List Bool Lia ZifyN ZifyBool ZifyNat.
From DV Require Import Base.Outcome C15.Gen C15.Model C15.Proofs C15.ProofsNet.
Import ListNotations.
Local Open Scope N_scope.
Ltac Zify.zify_post_hook ::= Z.div_mod_to_equations.

(* ----------------------------------------------- weighted slot counting *)
Fixpoint wsum {T} (f : T -> N) (l : list (option T)) : N :=
  match l with
  | [] => 0
  | Some x :: r => f x + wsum f r
  | None :: r => wsum f r
  end.
Definition wopt {T} (f : T -> N) (o : option T) : N := match o with Some x => f x | None => 0 end.

Lemma wsum_set {T} (f : T -> N) (l : list (option T)) n x l' old :
  set_nth l n x = Some l' -> nth_error l n = Some old ->
  wsum f l' + wopt f old = wsum f l + wopt f x.
Proof.
  revert n l'. induction l as [|a r IH]; intros [|n] l' H Ho; cbn in H, Ho; try discriminate.
  - inversion H; inversion Ho; subst. destruct old, x; cbn [wsum wopt]; lia.
  - destruct (set_nth r n x) as [l0|] eqn:E; try discriminate. inversion H; subst.
    specialize (IH n l0 E Ho). destruct a; cbn [wsum]; lia.
Qed.

Lemma wsum_app {T} (f : T -> N) (l1 l2 : list (option T)) : wsum f (l1 ++ l2) = wsum f l1 + wsum f l2.
Proof. induction l1 as [|[x|] r IH]; cbn [wsum app]; lia. Qed.

Lemma wsum_zero_count {T} (f : T -> N) (l : list (option T)) : count_some l = 0 -> wsum f l = 0.
Proof. induction l as [|[x|] r IH]; cbn [wsum count_some]; intros H; try lia; auto. Qed.

(* ------------------------------------------- shapes of the table updates *)
Lemma insert_shape {T} (q q' : queries T) r idx :
  q_insert q r = Ok (q', Some idx) ->
  (set_nth (q_vec q) (N.to_nat idx) (Some r) = Some (q_vec q') /\ slot_at (q_vec q) idx = Some None) \/
  (q_vec q' = q_vec q ++ [Some r] /\ idx = lenN (q_vec q)).
Proof.
  unfold q_insert. destruct (ins_full (q_count q)); [discriminate|].
  destruct (if ins_scan (lenN (q_vec q)) (q_count q)
            then if ins_scan_from_curr then scan_from (q_curr q) (q_vec q) else scan_from 0 (q_vec q)
            else None) as [i|] eqn:Ef.
  - assert (Hs : slot_at (q_vec q) i = Some None).
    { destruct (ins_scan _ _); [|discriminate]. destruct ins_scan_from_curr; apply scan_from_some in Ef; tauto. }
    destruct (set_nth (q_vec q) (N.to_nat i) (Some r)) as [v'|] eqn:Ev; [|discriminate].
    destruct (slot_at v' i) as [[x|]|]; try discriminate.
    destruct (i <? idx_limit); [|discriminate]. intros H. inversion H; subst. left. cbn [q_vec]. auto.
  - destruct (slot_at (q_vec q ++ [Some r]) (lenN (q_vec q))) as [[x|]|]; try discriminate.
    destruct (lenN (q_vec q) <? idx_limit); [|discriminate]. intros H. inversion H; subst. right. cbn [q_vec]. auto.
Qed.

Lemma insert_full_same {T} (q q' : queries T) r : q_insert q r = Ok (q', None) -> q' = q.
Proof.
  unfold q_insert. destruct (ins_full (q_count q)); [intros H; inversion H; reflexivity|].
  destruct (if ins_scan (lenN (q_vec q)) (q_count q) then _ else None) as [i|].
  - destruct (set_nth _ _ _); [|discriminate]. destruct (slot_at _ _) as [[x|]|]; try discriminate.
    destruct (_ <? _); discriminate.
  - destruct (slot_at _ _) as [[x|]|]; try discriminate. destruct (_ <? _); discriminate.
Qed.

Lemma remove_shape {T} (q : queries T) i :
  match q_try_remove q i with
  | (q', Some e) => set_nth (q_vec q) (N.to_nat i) None = Some (q_vec q') /\
                    slot_at (q_vec q) i = Some (Some e) /\ slot_at (q_vec q') i = Some None
  | (q', None) => q' = q
  end.
Proof.
  unfold q_try_remove. destruct (slot_at (q_vec q) i) as [[e|]|] eqn:Es; try reflexivity.
  destruct (set_nth (q_vec q) (N.to_nat i) None) as [v'|] eqn:Ev; [|reflexivity].
  cbn [q_vec]. split; [reflexivity|]. split; [reflexivity|]. eapply slot_at_set_eq; eauto.
Qed.

Lemma insert_at_shape {T} (q q' : queries T) i r :
  q_insert_at q i r = Ok q' -> set_nth (q_vec q) (N.to_nat i) (Some r) = Some (q_vec q').
Proof.
  unfold q_insert_at. destruct (set_nth _ _ _) as [v'|]; [|discriminate]. intros H; inversion H; reflexivity.
Qed.

(* ------------------------------------------------------------ counting *)
Definition callw (c : N) (e : entry) : N := if e_caller e =? c then 1 else 0.
Definition pending (c : N) (q : queries entry) : N := wsum (callw c) (q_vec q).

Fixpoint tcount (c : N) (log : list (N * bool * dlv)) : N :=
  match log with
  | [] => 0
  | (c', mu, d) :: r => (if (c' =? c) && terminal mu d then 1 else 0) + tcount c r
  end.

Lemma tcount_app c l1 l2 : tcount c (l1 ++ l2) = tcount c l1 + tcount c l2.
Proof. induction l1 as [|[[c' mu] d] r IH]; cbn [tcount app]; lia. Qed.

Lemma tcount_drained c err (v : list (option entry)) :
  tcount c (map (fun e => (e_caller e, e_multi e, DError err)) (flatten_opt v)) = wsum (callw c) v.
Proof.
  induction v as [|[e|] r IH]; cbn [flatten_opt map tcount wsum]; [reflexivity| |exact IH].
  rewrite IH. unfold callw. cbn [terminal]. rewrite andb_true_r. reflexivity.
Qed.

Definition inb (c : N) (S : list N) : N := if existsb (N.eqb c) S then 1 else 0.

Lemma inb_cons c c' S : inb c (c' :: S) = if c =? c' then 1 else inb c S.
Proof. unfold inb. cbn [existsb]. destruct (c =? c'); reflexivity. Qed.

Lemma inb_not_in c S : ~ In c S -> inb c S = 0.
Proof.
  intros H. unfold inb. destruct (existsb (N.eqb c) S) eqn:E; [|reflexivity].
  apply existsb_exists in E. destruct E as (x & Hx & Ex). apply N.eqb_eq in Ex. subst. contradiction.
Qed.

(* ------------------------------------------------------------ invariant *)
Definition sinv (s : sstate) (S : list N) : Prop :=
  q_inv (st_q s) /\
  (* every pending entry went onto the wire under the ID of its slot *)
  (forall i e, q_get (st_q s) i = Some e -> In (e_caller e, i, e_qs e) (st_sent s)) /\
  (* wire records belong to submitted callers, one per caller *)
  (forall c i qs, In (c, i, qs) (st_sent s) -> In c S) /\
  (forall c i qs i' qs', In (c, i, qs) (st_sent s) -> In (c, i', qs') (st_sent s) -> i = i' /\ qs = qs') /\
  (* an answer handed to a single-response caller answers that caller's request *)
  (forall c m, In (c, false, DAnswer m) (st_log s) ->
     exists qs, In (c, m_id m, qs) (st_sent s) /\ answers (mkReq (m_id m) qs) m) /\
  (* exactly once: pending + completed = submitted *)
  (forall c, pending c (st_q s) + tcount c (st_log s) = inb c S) /\
  (* a connection that is down or idle has no pending request *)
  (st_conn s <> COpen \/ st_idle s = true -> forall c, pending c (st_q s) = 0).

Lemma sinv_init iz : sinv (s_init iz) [].
Proof.
  unfold sinv, s_init. cbn [st_q st_conn st_sent st_log st_idle]. split; [apply q_inv_new|].
  split; [intros i e H; unfold q_get, slot_at, q_new in H; cbn in H; destruct (N.to_nat i); discriminate|].
  split; [intros c i qs []|]. split; [intros c i qs i' qs' []|]. split; [intros c m []|].
  split; [intros c; reflexivity|]. intros _ c. reflexivity.
Qed.

Definition ev_fresh (ev : sevent) (S : list N) : Prop :=
  match ev with ESubmit c _ _ _ _ => ~ In c S | _ => True end.
Definition ev_subs (ev : sevent) (S : list N) : list N :=
  match ev with ESubmit c _ _ _ _ => c :: S | _ => S end.

Lemma q_get_slot {T} (q : queries T) i e : q_get q i = Some e <-> slot_at (q_vec q) i = Some (Some e).
Proof.
  unfold q_get. destruct (slot_at (q_vec q) i) as [[x|]|]; split; intros H; try discriminate; congruence.
Qed.

Lemma pending_empty (q : queries entry) c : q_inv q -> q_is_empty q = true -> pending c q = 0.
Proof.
  intros (Hc & _) He. unfold q_is_empty in He. apply N.eqb_eq in He. unfold pending.
  apply wsum_zero_count. lia.
Qed.

Lemma in_app_single {A} (x y : A) l : In x (l ++ [y]) -> In x l \/ x = y.
Proof. intros H. apply in_app_or in H. destruct H as [H|[H|[]]]; auto. Qed.

Section Step.
Variable cs : entry -> msg -> bool * xfr * bool.
Lemma after_reply_inv iz (q : queries entry) : q_inv q ->
  after_reply iz q COpen <> COpen \/ q_is_empty q = true -> forall c, pending c q = 0.
Proof.
  intros Hq. unfold after_reply. destruct (q_is_empty q) eqn:E; cbn [andb].
  - intros _ c. apply pending_empty; assumption.
  - intros [H|H]; congruence.
Qed.

Lemma s_step_inv (s : sstate) (S : list N) (ev : sevent) :
  sinv s S -> ev_fresh ev S ->
  exists s', s_step cs s ev = Ok s' /\ sinv s' (ev_subs ev S).
Proof.
  intros (Hq & Hwire & Hsub & Huniq & Hsound & Hcount & Hdown) Hfresh.
  destruct ev as [c qs multi bad x0|m|err|]; cbn [s_step ev_subs ev_fresh] in *.
  - (* submit *)
    assert (Hsub' : forall c0 i qs0, In (c0, i, qs0) (st_sent s) -> In c0 (c :: S)) by (intros; right; eauto).
    assert (Hcnt_err : forall e0 c0, pending c0 (st_q s) + tcount c0 (st_log s ++ [(c, multi, DError e0)]) = inb c0 (c :: S)).
    { intros e0 c0. rewrite tcount_app, inb_cons. cbn [tcount terminal]. rewrite andb_true_r.
      specialize (Hcount c0). rewrite (N.eqb_sym c c0).
      destruct (N.eqb_spec c0 c) as [->|]; [rewrite (inb_not_in _ _ Hfresh) in Hcount|]; lia. }
    assert (Hsound_err : forall e0 c0 m0, In (c0, false, DAnswer m0) (st_log s ++ [(c, multi, DError e0)]) ->
              exists qs0, In (c0, m_id m0, qs0) (st_sent s) /\ answers (mkReq (m_id m0) qs0) m0).
    { intros e0 c0 m0 H. apply in_app_single in H. destruct H as [H|H]; [eauto|discriminate]. }
    destruct (st_conn s) eqn:Econn.
    + destruct (insert_spec (st_q s) (mkEntry c qs multi x0 (is_axfr_init x0)) Hq)
        as [(Hfull & E)|(Hroom & q' & idx & E & Hq' & Hidx & Hfree & Hget & _)]; rewrite E; cbn [bind].
      * eexists. split; [reflexivity|]. unfold sinv. cbn [st_q st_conn st_sent st_log st_idle].
        split; [exact Hq|]. split; [exact Hwire|]. split; [exact Hsub'|]. split; [exact Huniq|].
        split; [apply Hsound_err|]. split; [apply Hcnt_err|]. intros [H|H]; [congruence|discriminate].
      * pose proof (insert_shape _ _ _ _ E) as Hshape.
        assert (Hpend : forall c0, pending c0 q' = pending c0 (st_q s) + (if c =? c0 then 1 else 0)).
        { intros c0. unfold pending. destruct Hshape as [(Hset & Hs)|(Happ & _)].
          - pose proof (wsum_set (callw c0) _ _ _ _ _ Hset Hs) as W. cbn [wopt] in W.
            replace (callw c0 (mkEntry c qs multi x0 (is_axfr_init x0))) with (if c =? c0 then 1 else 0) in W by reflexivity. lia.
          - rewrite Happ, wsum_app. cbn [wsum].
            replace (callw c0 (mkEntry c qs multi x0 (is_axfr_init x0))) with (if c =? c0 then 1 else 0) by reflexivity. lia. }
        destruct bad.
        -- (* cannot be converted: taken out again *)
           pose proof (remove_shape q' idx) as Hrem.
           assert (Hg : q_get q' idx = Some (mkEntry c qs multi x0 (is_axfr_init x0))) by (rewrite Hget; unfold upd; rewrite N.eqb_refl; reflexivity).
           destruct (remove_spec q' idx Hq') as (q'' & Er & Hq'' & Hget'' & _). rewrite Er in Hrem. rewrite Hg in Hrem. rewrite Er.
           destruct Hrem as (Hset & Hs & _).
           eexists. split; [reflexivity|]. unfold sinv. cbn [st_q st_conn st_sent st_log st_idle].
           split; [exact Hq''|]. split.
           { intros i e He. rewrite Hget'' in He. unfold clr in He. destruct (i =? idx) eqn:Ei; [discriminate|].
             rewrite Hget in He. unfold upd in He. rewrite Ei in He. eauto. }
           split; [exact Hsub'|]. split; [exact Huniq|]. split; [apply Hsound_err|]. split; [|intros [H|H]; [congruence|discriminate]].
           intros c0. pose proof (wsum_set (callw c0) _ _ _ _ _ Hset Hs) as W. cbn [wopt] in W.
           replace (callw c0 (mkEntry c qs multi x0 (is_axfr_init x0))) with (if c =? c0 then 1 else 0) in W by reflexivity.
           specialize (Hpend c0). specialize (Hcnt_err 12 c0). unfold pending in *. lia.
        -- eexists. split; [reflexivity|]. unfold sinv. cbn [st_q st_conn st_sent st_log st_idle].
           split; [exact Hq'|]. split.
           { intros i e He. rewrite Hget in He. unfold upd in He. apply in_or_app. destruct (N.eqb_spec i idx) as [->|].
             - inversion He; subst. right. left. reflexivity.
             - left. eauto. }
           split.
           { intros c0 i qs0 H. apply in_app_single in H. destruct H as [H|H]; [right; eauto|inversion H; left; reflexivity]. }
           split.
           { intros c0 i qs0 i' qs' H H'. apply in_app_single in H. apply in_app_single in H'.
             destruct H as [H|H], H' as [H'|H'].
             - eauto.
             - inversion H'; subst. exfalso. apply Hfresh. eauto.
             - inversion H; subst. exfalso. apply Hfresh. eauto.
             - inversion H; inversion H'; subst. auto. }
           split.
           { intros c0 m0 H. destruct (Hsound _ _ H) as (qs0 & Hin & Ha). exists qs0. split; [apply in_or_app; left; exact Hin|exact Ha]. }
           split; [|intros [H|H]; [congruence|discriminate]].
           intros c0. rewrite Hpend, inb_cons. specialize (Hcount c0). rewrite (N.eqb_sym c c0).
           destruct (N.eqb_spec c0 c) as [->|]; [rewrite (inb_not_in _ _ Hfresh) in Hcount|]; lia.
    + eexists. split; [reflexivity|]. unfold sinv. cbn [st_q st_conn st_sent st_log st_idle].
      split; [exact Hq|]. split; [exact Hwire|]. split; [exact Hsub'|]. split; [exact Huniq|].
      split; [apply Hsound_err|]. split; [apply Hcnt_err|]. intros _. apply Hdown. left. congruence.
  - (* reply *)
    destruct (st_conn s) eqn:Econn.
    2:{ exists s. split; [reflexivity|]. unfold sinv. rewrite Econn. split; [exact Hq|]. split; [exact Hwire|]. split; [exact Hsub|]. split; [exact Huniq|].
        split; [exact Hsound|]. split; [exact Hcount|]. exact Hdown. }
    pose proof (remove_shape (st_q s) (m_id m)) as Hrem.
    destruct (remove_spec (st_q s) (m_id m) Hq) as (q' & Er & Hq' & Hget' & _). rewrite Er in Hrem |- *.
    destruct (q_get (st_q s) (m_id m)) as [e|] eqn:Eg.
    2:{ eexists. split; [reflexivity|]. unfold sinv. cbn [st_q st_conn st_sent st_log st_idle]. split; [exact Hq|]. split; [exact Hwire|]. split; [exact Hsub|]. split; [exact Huniq|].
        split; [exact Hsound|]. split; [exact Hcount|]. intros H. apply Hdown. right.
        destruct (st_idle s); [reflexivity|]. cbn [andb] in H. destruct H as [H|H]; congruence. }
    destruct Hrem as (Hset & Hs & Hnone).
    assert (Hpend' : forall c0, pending c0 q' + callw c0 e = pending c0 (st_q s)).
    { intros c0. pose proof (wsum_set (callw c0) _ _ _ _ _ Hset Hs) as W. cbn [wopt] in W. unfold pending. lia. }
    assert (Hwire' : forall i e0, q_get q' i = Some e0 -> In (e_caller e0, i, e_qs e0) (st_sent s)).
    { intros i e0 He. rewrite Hget' in He. unfold clr in He. destruct (i =? m_id m); [discriminate|]. eauto. }
    destruct (e_multi e) eqn:Emu.
    + destruct (cs e m) as [[eof x] isans].
      destruct eof.
      * eexists. split; [reflexivity|]. unfold sinv. cbn [st_q st_conn st_sent st_log st_idle].
        split; [exact Hq'|]. split; [exact Hwire'|]. split; [exact Hsub|]. split; [exact Huniq|]. split.
        { intros c0 m0 H. apply in_app_single in H. destruct H as [H|H]; [|discriminate].
          apply in_app_single in H. destruct H as [H|H]; [eauto|discriminate]. }
        split; [|eapply after_reply_inv; exact Hq'].
        intros c0. rewrite !tcount_app. cbn [tcount terminal]. specialize (Hcount c0). specialize (Hpend' c0).
        unfold callw in Hpend'. rewrite andb_true_r. destruct isans; cbn [negb andb]; rewrite andb_false_r; lia.
      * destruct (insert_at_spec q' (m_id m) (mkEntry (e_caller e) (e_qs e) true x (e_axfr e)) Hq' Hnone) as (q'' & Ei & Hq'' & Hget'' & _).
        rewrite Ei. cbn [bind]. pose proof (insert_at_shape _ _ _ _ Ei) as Hset2.
        eexists. split; [reflexivity|]. unfold sinv. cbn [st_q st_conn st_sent st_log st_idle].
        split; [exact Hq''|]. split.
        { intros i e0 He. rewrite Hget'' in He. unfold upd in He. destruct (N.eqb_spec i (m_id m)) as [->|]; [|eauto].
          inversion He; subst. cbn [e_caller e_qs]. eauto. }
        split; [exact Hsub|]. split; [exact Huniq|]. split.
        { intros c0 m0 H. apply in_app_single in H. destruct H as [H|H]; [eauto|discriminate]. }
        split; [|eapply after_reply_inv; exact Hq''].
        intros c0. rewrite tcount_app. cbn [tcount terminal].
        pose proof (wsum_set (callw c0) _ _ _ _ _ Hset2 Hnone) as W. cbn [wopt] in W.
        replace (callw c0 (mkEntry (e_caller e) (e_qs e) true x (e_axfr e))) with (if e_caller e =? c0 then 1 else 0) in W by reflexivity.
        specialize (Hcount c0). specialize (Hpend' c0). unfold callw in Hpend'. unfold pending in *.
        destruct isans; cbn [negb andb]; rewrite andb_false_r; lia.
    + eexists. split; [reflexivity|]. unfold sinv. cbn [st_q st_conn st_sent st_log st_idle].
      split; [exact Hq'|]. split; [exact Hwire'|]. split; [exact Hsub|]. split; [exact Huniq|]. split.
      { intros c0 m0 H. apply in_app_single in H. destruct H as [H|H]; [eauto|].
        destruct (is_answer (mkReq (m_id m) (e_qs e)) m) eqn:Ea; [|discriminate].
        inversion H; subst. exists (e_qs e). split; [apply Hwire; exact Eg|apply is_answer_sound; exact Ea]. }
      split; [|eapply after_reply_inv; exact Hq'].
      intros c0. rewrite tcount_app. specialize (Hcount c0). specialize (Hpend' c0). unfold callw in Hpend'.
      cbn [tcount]. destruct (is_answer _ _); cbn [terminal negb]; rewrite andb_true_r; lia.
  - (* the connection fails: every waiter gets the error *)
    destruct (st_conn s) eqn:Econn.
    2:{ exists s. split; [reflexivity|]. unfold sinv. rewrite Econn. split; [exact Hq|]. split; [exact Hwire|]. split; [exact Hsub|]. split; [exact Huniq|].
        split; [exact Hsound|]. split; [exact Hcount|]. exact Hdown. }
    unfold q_drain. eexists. split; [reflexivity|]. unfold sinv. cbn [st_q st_conn st_sent st_log st_idle].
    split; [apply q_inv_new|]. split.
    { intros i e He. unfold q_get, slot_at in He. cbn in He. destruct (N.to_nat i); discriminate. }
    split; [exact Hsub|]. split; [exact Huniq|]. split.
    { intros c0 m0 H. apply in_app_or in H. destruct H as [H|H]; [eauto|].
      apply in_map_iff in H. destruct H as (e & He & _). discriminate. }
    split; [|intros _ c0; reflexivity].
    intros c0. rewrite tcount_app, tcount_drained. specialize (Hcount c0). unfold pending in *. cbn [q_vec wsum]. lia.
  - (* the idle timeout expires *)
    destruct (st_conn s) eqn:Econn.
    2:{ exists s. split; [reflexivity|]. unfold sinv. rewrite Econn. split; [exact Hq|]. split; [exact Hwire|]. split; [exact Hsub|]. split; [exact Huniq|].
        split; [exact Hsound|]. split; [exact Hcount|]. exact Hdown. }
    destruct (st_idle s) eqn:Ei.
    + eexists. split; [reflexivity|]. unfold sinv. cbn [st_q st_conn st_sent st_log st_idle].
      split; [exact Hq|]. split; [exact Hwire|]. split; [exact Hsub|]. split; [exact Huniq|].
      split; [exact Hsound|]. split; [exact Hcount|]. intros _. apply Hdown. right. reflexivity.
    + exists s. split; [reflexivity|]. unfold sinv. rewrite Econn, Ei. split; [exact Hq|]. split; [exact Hwire|]. split; [exact Hsub|]. split; [exact Huniq|].
      split; [exact Hsound|]. split; [exact Hcount|]. exact Hdown.
Qed.
End Step.

(* --------------------------------------------------- all event sequences *)
Fixpoint subs_of (evs : list sevent) (S : list N) : list N :=
  match evs with [] => S | ev :: r => subs_of r (ev_subs ev S) end.
Fixpoint fresh_all (evs : list sevent) (S : list N) : Prop :=
  match evs with [] => True | ev :: r => ev_fresh ev S /\ fresh_all r (ev_subs ev S) end.

Lemma s_run_inv cs (evs : list sevent) : forall s S,
  sinv s S -> fresh_all evs S ->
  exists s', fold_left (fun acc ev => do s0 <- acc; s_step cs s0 ev) evs (Ok s) = Ok s' /\
             sinv s' (subs_of evs S).
Proof.
  induction evs as [|ev evs IH]; intros s S Hinv Hf; cbn [fold_left subs_of].
  - eauto.
  - destruct Hf as (Hf1 & Hf2). destruct (s_step_inv cs s S ev Hinv Hf1) as (s1 & E & Hinv1).
    cbn [bind]. rewrite E. apply IH; assumption.
Qed.

(* callers are distinct: each ESubmit names a caller not used before *)
Definition distinct_callers (evs : list sevent) : Prop := fresh_all evs [].
Definition submitted (evs : list sevent) : list N := subs_of evs [].

Theorem demux_all cs idle (evs : list sevent) :
  distinct_callers evs ->
  exists s, s_run cs idle evs = Ok s /\ sinv s (submitted evs).
Proof. intros H. unfold s_run. apply s_run_inv; [apply sinv_init|exact H]. Qed.

(* demux_sound + no_cross_delivery: an answer handed to a single-response
   caller has the ID under which THAT caller's request went onto the wire, QR
   set, and that request's questions (or is a header-only error); the caller
   has exactly one wire record, so it cannot be somebody else's *)
Theorem demux_sound cs idle (evs : list sevent) s c m :
  distinct_callers evs -> s_run cs idle evs = Ok s ->
  In (c, false, DAnswer m) (st_log s) ->
  exists qs, In (c, m_id m, qs) (st_sent s) /\ answers (mkReq (m_id m) qs) m /\
    (forall i' qs', In (c, i', qs') (st_sent s) -> i' = m_id m /\ qs' = qs).
Proof.
  intros Hd Hrun Hin. destruct (demux_all cs idle evs Hd) as (s' & E & Hinv). rewrite Hrun in E. inversion E; subst s'.
  destruct Hinv as (_ & _ & _ & Huniq & Hsound & _). destruct (Hsound _ _ Hin) as (qs & Hs & Ha).
  exists qs. split; [exact Hs|]. split; [exact Ha|]. intros i' qs' H'. destruct (Huniq _ _ _ _ _ Hs H'). auto.
Qed.

(* exactly_once: a submitted request is either still pending in exactly one
   slot or has been completed exactly once (answer, WrongReplyForQuery, error,
   or end of stream); nobody else is ever completed; no panic site is reached *)
Theorem exactly_once cs idle (evs : list sevent) :
  distinct_callers evs ->
  exists s, s_run cs idle evs = Ok s /\
    forall c, pending c (st_q s) + tcount c (st_log s) = inb c (submitted evs).
Proof.
  intros Hd. destruct (demux_all cs idle evs Hd) as (s & E & Hinv). exists s. split; [exact E|]. apply Hinv.
Qed.

(* once the connection is down (read error, read timeout, write error, idle
   close) nothing is pending: every submitted request has been completed once *)
Theorem down_completes_all cs idle (evs : list sevent) s :
  distinct_callers evs -> s_run cs idle evs = Ok s -> st_conn s <> COpen ->
  forall c, tcount c (st_log s) = inb c (submitted evs).
Proof.
  intros Hd Hrun Hc c. destruct (demux_all cs idle evs Hd) as (s' & E & Hinv). rewrite Hrun in E. inversion E; subst s'.
  destruct Hinv as (_ & _ & _ & _ & _ & Hcount & Hdown). specialize (Hcount c). rewrite (Hdown (or_introl Hc) c) in Hcount. lia.
Qed.

(* ------------------------------------------------------------ non-vacuity *)
Definition cs0 (e : entry) (m : msg) : bool * xfr * bool := (m_rcode m =? 1, XDone, true).
Definition good (id q : N) : msg := mkMsg id true false 0 1 0 0 0 (Some [q]) (Some []) None.

Example ex_demux :
  exists s, s_run cs0 false
    [ESubmit 1 [11] false false XDone; ESubmit 2 [22] false false XDone; EReply (good 1 22); EReply (good 0 22);
     ESubmit 3 [33] false false XDone; EReply (good 0 11); EReply (good 0 33); ESubmit 4 [44] false false XDone; EFail 7;
     ESubmit 5 [55] false false XDone] = Ok s /\
    st_log s = [(2, false, DAnswer (good 1 22)); (1, false, DWrong); (3, false, DWrong);
                (4, false, DError 7); (5, false, DError 7)] /\
    st_sent s = [(1, 0, [11]); (2, 1, [22]); (3, 0, [33]); (4, 0, [44])].
Proof. eexists. vm_compute. auto. Qed.

Example ex_distinct : distinct_callers [ESubmit 1 [11] false false XDone; EReply (good 0 11); ESubmit 2 [22] true false XDone].
Proof. cbn. intuition. Qed.
