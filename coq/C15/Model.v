(* C15 model, part 1: net/client/stream.rs  Queries<T>::{new, is_empty, insert,
   insert_at, try_remove, drain}  (the outstanding-query table whose slot index
   is the DNS message ID on a stream connection).

   usize values are N (the guards keep them far below 2^64, see q_inv), the
   vector is a list of option slots.  Panic sites:
     1  expect("no inserted item?")          (insert)
     2  expect("query vec too large")        (insert: index does not fit u16)
     3  self.vec[id] index out of bounds     (insert_at)
   The comparison operators, multipliers and increments come from Gen.v (T1). *)
From Coq Require Import NArith List Bool.
From DV Require Import Base.Outcome C15.Gen.
Import ListNotations.
Local Open Scope N_scope.

Record queries (T : Type) : Type := mkQ {
  q_count : N;                 (* number of elements in vec that are not None *)
  q_curr : N;                  (* where to look for a space for a new query *)
  q_vec : list (option T) }.
Arguments mkQ {T}.
Arguments q_count {T}.
Arguments q_curr {T}.
Arguments q_vec {T}.

Definition q_new {T} : queries T := mkQ 0 0 [].
Definition q_is_empty {T} (q : queries T) : bool := q_count q =? 0.

Definition lenN {A} (l : list A) : N := N.of_nat (length l).

(* the slot at index i: None = out of range, Some None = empty, Some (Some r) *)
Definition slot_at {T} (v : list (option T)) (i : N) : option (option T) :=
  nth_error v (N.to_nat i).

(* v[i] = x;  None when i is out of bounds (a Rust index panic) *)
Fixpoint set_nth {A} (l : list A) (n : nat) (x : A) : option (list A) :=
  match l, n with
  | [], _ => None
  | _ :: r, O => Some (x :: r)
  | a :: r, S m => match set_nth r m x with Some r' => Some (a :: r') | None => None end
  end.

(* for idx in start.. { if vec[idx].is_none() { found = Some(idx); break } } *)
Fixpoint find_none {T} (l : list (option T)) (i : N) : option N :=
  match l with
  | [] => None
  | None :: _ => Some i
  | Some _ :: r => find_none r (N.succ i)
  end.

Definition scan_from {T} (curr : N) (v : list (option T)) : option N :=
  find_none (skipn (N.to_nat curr) v) curr.

(* result of insert: the new table and Some index, or None when the table is
   full (Rust returns Err(req)) *)
Definition q_insert {T} (q : queries T) (req : T) : outcome (queries T * option N) :=
  if ins_full (q_count q) then Ok (q, None)
  else
    let len := lenN (q_vec q) in
    let found :=
      if ins_scan len (q_count q)
      then (if ins_scan_from_curr then scan_from (q_curr q) (q_vec q) else scan_from 0 (q_vec q))
      else None in
    let '(idx, ovec) :=
      match found with
      | Some idx => (idx, set_nth (q_vec q) (N.to_nat idx) (Some req))
      | None => (len, Some (q_vec q ++ [Some req]))
      end in
    match ovec with
    | None => Panic 3
    | Some vec' =>
        let count' := q_count q + ins_count_inc in
        let curr' := if ins_bump idx (q_curr q) then q_curr q + ins_curr_inc else q_curr q in
        match slot_at vec' idx with
        | Some (Some _) =>
            if idx <? idx_limit then Ok (mkQ count' curr' vec', Some idx) else Panic 2
        | _ => Panic 1
        end
    end.

Definition q_insert_at {T} (q : queries T) (id : N) (req : T) : outcome (queries T) :=
  match set_nth (q_vec q) (N.to_nat id) (Some req) with
  | None => Panic 3
  | Some vec' =>
      Ok (mkQ (q_count q + insat_count_inc)
              (if insat_bump id (q_curr q) then q_curr q + insat_curr_inc else q_curr q)
              vec')
  end.

(* self.vec.get_mut(index)?.take()?  -- N subtraction is saturating like
   usize::saturating_sub *)
Definition q_try_remove {T} (q : queries T) (index : N) : queries T * option T :=
  match slot_at (q_vec q) index with
  | Some (Some r) =>
      match set_nth (q_vec q) (N.to_nat index) None with
      | Some vec' => (mkQ (q_count q - rem_count_dec) (rem_curr (q_curr q) index) vec', Some r)
      | None => (q, None)   (* unreachable: the slot exists *)
      end
  | _ => (q, None)
  end.

Fixpoint flatten_opt {T} (l : list (option T)) : list T :=
  match l with
  | [] => []
  | Some x :: r => x :: flatten_opt r
  | None :: r => flatten_opt r
  end.

Definition q_drain {T} (q : queries T) : queries T * list T :=
  (mkQ drain_count drain_curr [], flatten_opt (q_vec q)).

(* ---- operation sequences ---- *)
Inductive qop (T : Type) : Type :=
| OIns (r : T)
| OInsAt (i : N) (r : T)
| ORem (i : N)
| ODrain.
Arguments OIns {T}. Arguments OInsAt {T}. Arguments ORem {T}. Arguments ODrain {T}.

Inductive qobs (T : Type) : Type :=
| RIns (idx : option N)        (* Some idx = Ok((idx, _)), None = Err(req) *)
| RInsAt
| RRem (r : option T)
| RDrain (l : list T).
Arguments RIns {T}. Arguments RInsAt {T}. Arguments RRem {T}. Arguments RDrain {T}.

Definition q_step {T} (q : queries T) (o : qop T) : outcome (queries T * qobs T) :=
  match o with
  | OIns r => do (q', i) <- q_insert q r; Ok (q', RIns i)
  | OInsAt i r => do q' <- q_insert_at q i r; Ok (q', RInsAt)
  | ORem i => let '(q', r) := q_try_remove q i in Ok (q', RRem r)
  | ODrain => let '(q', l) := q_drain q in Ok (q', RDrain l)
  end.

(* fold_left over the operations; the accumulator is the outcome of the prefix:
   the table and the observations so far (in order) *)
Definition q_acc {T} (acc : outcome (queries T * list (qobs T))) (o : qop T)
  : outcome (queries T * list (qobs T)) :=
  do (q, tr) <- acc; do (q', ob) <- q_step q o; Ok (q', tr ++ [ob]).

Definition q_run_from {T} (q : queries T) (ops : list (qop T)) : outcome (queries T * list (qobs T)) :=
  fold_left q_acc ops (Ok (q, [])).

Definition q_run {T} (ops : list (qop T)) : outcome (queries T * list (qobs T)) :=
  q_run_from q_new ops.

(* precondition of insert_at as documented in the source ("the slot has to be
   empty"): the slot exists and is empty *)
Definition q_pre {T} (q : queries T) (o : qop T) : Prop :=
  match o with
  | OInsAt i _ => slot_at (q_vec q) i = Some None
  | _ => True
  end.

(* every insert_at of the sequence is applied to an existing empty slot *)
Fixpoint q_legal_from {T} (q : queries T) (ops : list (qop T)) : Prop :=
  match ops with
  | [] => True
  | o :: rest =>
      q_pre q o /\
      match q_step q o with
      | Ok (q', _) => q_legal_from q' rest
      | _ => True
      end
  end.
Definition q_legal {T} (ops : list (qop T)) : Prop := q_legal_from (@q_new T) ops.

(* the table seen as a finite map ID -> request *)
Definition q_get {T} (q : queries T) (i : N) : option T :=
  match slot_at (q_vec q) i with Some (Some r) => Some r | _ => None end.

Fixpoint count_some {T} (l : list (option T)) : N :=
  match l with
  | [] => 0
  | Some _ :: r => N.succ (count_some r)
  | None :: r => count_some r
  end.

(* the representation invariant *)
Definition q_inv {T} (q : queries T) : Prop :=
  q_count q = count_some (q_vec q) /\
  q_curr q <= lenN (q_vec q) /\
  (forall i, i < q_curr q -> exists r, slot_at (q_vec q) i = Some (Some r)) /\
  lenN (q_vec q) <= 65534.

(* ---- executable entry point for the correspondence driver (T = N) ----
   per operation: observation, then count / curr / occupancy after it *)
Definition c15_occ (v : list (option N)) : list bool :=
  map (fun s => match s with Some _ => true | None => false end) v.

Fixpoint c15_trace (q : queries N) (ops : list (qop N))
  : list (outcome (qobs N * (N * N * list bool))) :=
  match ops with
  | [] => []
  | o :: rest =>
      match q_step q o with
      | Ok (q', ob) => Ok (ob, (q_count q', q_curr q', c15_occ (q_vec q'))) :: c15_trace q' rest
      | Err e => [Err e]
      | Panic s => [Panic s]
      | OutOfFuel => [OutOfFuel]
      end
  end.

(* long sequences: only the observations and the final shape *)
Fixpoint c15_run_obs (q : queries N) (ops : list (qop N)) (acc : list (qobs N))
  : outcome (list (qobs N) * (N * N * N)) :=
  match ops with
  | [] => Ok (rev acc, (q_count q, q_curr q, lenN (q_vec q)))
  | o :: rest =>
      match q_step q o with
      | Ok (q', ob) => c15_run_obs q' rest (ob :: acc)
      | Err e => Err e
      | Panic s => Panic s
      | OutOfFuel => OutOfFuel
      end
  end.

(* the table after inserting vals into the empty table (no removals): used by
   the driver to start capacity cases at 32768 live entries without paying the
   quadratic cost of the list model; ProofsSeq.fill_state proves it equal to
   running the inserts *)
Definition c15_prefill (vals : list N) : queries N :=
  mkQ (lenN vals) (lenN vals) (map (@Some N) vals).

(* ======================================================================
   Part 2: messages, RequestMessage::is_answer, the datagram receive loop,
   the TC rule of dgram_stream, the stream response-timeout configuration and
   the event-level stream demultiplexer.

   A message is its header fields and its question section: Some qs when all
   QDCOUNT questions parse (questions are abstract tokens: equal tokens = equal
   name (case-insensitively), type and class), None when one does not parse. *)

(* resource records as check_stream looks at them *)
Inductive rr : Type := RSoa (serial : N) | ROther.

(* m_ans: the answer section as check_stream iterates it: None when
   Message::answer() fails (the question section does not parse), otherwise the
   records in order, None standing for a record that does not parse *)
Record msg : Type := mkMsg {
  m_id : N; m_qr : bool; m_tc : bool; m_rcode : N;
  m_qd : N; m_an : N; m_ns : N; m_ar : N;
  m_qs : option (list N);
  m_ans : option (list (option rr));
  (* an edns-tcp-keepalive option reachable through Message::opt(): None = no such
     option, Some None = option without a timeout, Some (Some v) = timeout v in
     units of 100 ms *)
  m_ka : option (option N) }.

Record req : Type := mkReq { r_id : N; r_qs : list N }.

Fixpoint list_eqb (a b : list N) : bool :=
  match a, b with
  | [], [] => true
  | x :: a', y :: b' => (x =? y) && list_eqb a' b'
  | _, _ => false
  end.

(* net/client/request.rs RequestMessage::is_answer *)
Definition is_answer (r : req) (a : msg) : bool :=
  if isans_reject (m_qr a) (m_id a) (r_id r) then false
  else if isans_hdr_only (m_rcode a) (m_qd a) (m_an a) (m_ns a) (m_ar a) then true
  else if isans_qd_reject (m_qd a) (lenN (r_qs r)) then false
  else
    let e := match m_qs a with Some qs => list_eqb qs (r_qs r) | None => false end in
    if isans_q_equal then e else negb e.

(* what the property calls "answers that caller's own request" *)
Definition hdr_only_error (a : msg) : Prop :=
  m_rcode a <> 0 /\ m_qd a = 0 /\ m_an a = 0 /\ m_ns a = 0 /\ m_ar a = 0.
Definition answers (r : req) (a : msg) : Prop :=
  m_qr a = true /\ m_id a = r_id r /\ (hdr_only_error a \/ m_qs a = Some (r_qs r)).
(* QDCOUNT agrees with the questions that parse *)
Definition msg_wf (a : msg) : Prop := forall qs, m_qs a = Some qs -> m_qd a = lenN qs.

(* ---- net/client/dgram.rs handle_request_impl ----
   One attempt: a fresh socket, a fresh random ID, the datagrams that arrive on
   that socket with their arrival time in ms after the send (ascending). *)
Inductive pkt : Type := PGarbage | PRecvErr | PMsg (m : msg).
Inductive afault : Type := FNone | FConnect | FSend | FShortSend.
Record attempt : Type := mkAtt { a_fault : afault; a_id : N; a_pkts : list (N * pkt) }.
Definition silent_attempt : attempt := mkAtt FNone 0 [].

Inductive rres : Type := RAnswer (t : N) (m : msg) | RError (t : N) | RTimeout.

(* while deadline > now { match timeout_at(deadline, recv) ... } with the clock
   relative to the send: deadline = T *)
Fixpoint recv_loop (T : N) (r : req) (now : N) (pkts : list (N * pkt)) : rres :=
  if dgram_loop_cond T now then
    match pkts with
    | [] => RTimeout
    | (off, p) :: rest =>
        if off <=? T then
          let now' := N.max now off in
          match p with
          | PRecvErr => RError now'
          | PGarbage => recv_loop T r now' rest
          | PMsg m =>
              let skip := if dgram_skip_if_not_answer then negb (is_answer r m) else is_answer r m in
              if skip then recv_loop T r now' rest else RAnswer now' m
          end
        else RTimeout
    end
  else RTimeout.

(* error classes: 1 connect, 2 send, 3 receive, 4 timeout *)
Inductive dres : Type := DOk (k t : N) (m : msg) | DErr (e t : N).

(* n attempts left, k = index of this attempt, base = ms elapsed, sends so far *)
Fixpoint dgram_loop (T : N) (qs : list N) (n : nat) (k base sends : N) (atts : list attempt) : dres * N :=
  match n with
  | O => (DErr 4 base, sends)
  | S n' =>
      let a := hd silent_attempt atts in
      match a_fault a with
      | FConnect => (DErr 1 base, sends)
      | FSend => (DErr 2 base, sends)
      | FShortSend => (DErr 2 base, sends + 1)
      | FNone =>
          match recv_loop T (mkReq (a_id a) qs) 0 (a_pkts a) with
          | RAnswer t m => (DOk k (base + t) m, sends + 1)
          | RError t => (DErr 3 (base + t), sends + 1)
          | RTimeout => dgram_loop T qs n' (k + 1) (base + T) (sends + 1) (tl atts)
          end
      end
  end.

Definition dgram_run (max_retries T : N) (qs : list N) (atts : list attempt) : dres * N :=
  dgram_loop T qs (N.to_nat (dgram_attempts max_retries)) 0 0 0 atts.

(* ---- net/client/dgram_stream.rs: UDP first, stream when truncated ---- *)
Inductive tres : Type := TOk (m : msg) | TErr (e : N).
Definition ds_result (udp tcp : tres) : tres * bool :=
  match udp with
  | TErr e => (TErr e, false)
  | TOk m =>
      if (if tc_falls_back_when_set then m_tc m else negb (m_tc m)) then (tcp, true) else (TOk m, false)
  end.

(* ---- stream::Config response timeouts (ms) ---- *)
Record scfg : Type := mkCfg { c_resp : N; c_single : N; c_streaming : N }.
Definition scfg_default : scfg :=
  mkCfg stream_timeout_default_ms stream_timeout_default_ms stream_timeout_default_ms.
Definition stream_limit (t : N) : N := defminmax_limit stream_timeout_min_ms stream_timeout_max_ms t.
Definition set_response_timeout (c : scfg) (t : N) : scfg :=
  let v := stream_limit t in
  mkCfg v (if set_rt_assigns_single then v else c_single c)
          (if set_rt_assigns_streaming then v else c_streaming c).
Definition set_streaming_response_timeout (c : scfg) (t : N) : scfg :=
  mkCfg (c_resp c) (c_single c) (stream_limit t).
(* the timeout Transport::run puts in force when it takes a request *)
Definition effective_timeout (c : scfg) (is_stream : bool) : N :=
  if run_selects_timeout_by_kind then (if is_stream then c_streaming c else c_single c) else c_resp c.

(* ---- the stream demultiplexer at event level ----
   insert_req, demux_reply and error() of stream.rs over the query table.
   The ID of a request is the index insert returned (hdr.set_id(index)); the
   entry does not store it. *)
Inductive xfr : Type :=
| XAxfrInit | XAxfrFirstSoa (s : N)
| XIxfrInit | XIxfrFirstSoa (s : N) | XIxfrFirstDiffSoa (s : N) | XIxfrSecondDiffSoa (s : N)
| XDone | XError.

Record entry : Type := mkEntry { e_caller : N; e_qs : list N; e_multi : bool; e_xfr : xfr; e_axfr : bool }.
Definition is_axfr_init (x : xfr) : bool := match x with XAxfrInit => true | _ => false end.

Inductive dlv : Type :=
| DAnswer (m : msg)     (* Ok(answer) *)
| DWrong                (* Err(WrongReplyForQuery) *)
| DError (e : N)        (* any other error *)
| DEof.                 (* end of a multi-response stream *)

Inductive conn : Type := COpen | CDown (e : N).

Record sstate : Type := mkSt {
  st_q : queries entry;
  st_conn : conn;
  st_sent : list (N * N * list N);        (* caller, ID on the wire, questions *)
  st_log : list (N * bool * dlv);         (* caller, multi?, what it was handed *)
  st_idle_zero : bool;                    (* status.idle_timeout.is_zero() *)
  st_idle : bool }.                       (* status.state is ConnState::Idle(_) *)

Inductive sevent : Type :=
| ESubmit (caller : N) (qs : list N) (multi : bool) (unconvertible : bool) (x0 : xfr)
| EReply (m : msg)
| EFail (e : N)           (* read error, read timeout or write error *)
| ETick.                  (* the (non-zero) idle timeout of an Idle connection expires *)

(* error numbers: 10 StreamIdleTimeout, 11 StreamTooManyOutstandingQueries,
   12 StreamLongMessage; EFail carries its own *)
Definition terminal (multi : bool) (d : dlv) : bool :=
  match d with
  | DAnswer _ | DWrong => negb multi
  | DError _ | DEof => true
  end.

Section Demux.
(* check_stream of stream.rs (XFR end detection), left abstract:
   entry, reply -> (eof, new xfr state, is_answer) *)
Variable check_stream : entry -> msg -> bool * xfr * bool.
Variable idle_zero : bool.     (* config.idle_timeout.is_zero() at the start *)

Definition after_reply (iz : bool) (q : queries entry) (c : conn) : conn :=
  match c with
  | COpen => if q_is_empty q && iz then CDown 10 else COpen
  | d => d
  end.

(* handle_opts / handle_keepalive: a keepalive option with a timeout replaces
   status.idle_timeout (v * 100 ms); without a timeout it changes nothing *)
Definition keepalive_idle_zero (iz : bool) (ka : option (option N)) : bool :=
  match ka with
  | Some (Some v) => keepalive_units_ms * v =? 0
  | _ => iz
  end.

(* The loop head closes an Idle connection whose idle timeout is (has become)
   zero: elapsed >= 0 holds at once.  Non-zero idle timeouts expiring by time
   are not part of the event model (see run_tick). *)
Definition s_step (s : sstate) (ev : sevent) : outcome sstate :=
  match ev with
  | ESubmit c qs multi bad x0 =>
      match st_conn s with
      | CDown e => Ok (mkSt (st_q s) (st_conn s) (st_sent s) (st_log s ++ [(c, multi, DError e)]) (st_idle_zero s) (st_idle s))
      | COpen =>
          (* insert_req: Active or Idle -> Active(Some(now)) *)
          do (q', oi) <- q_insert (st_q s) (mkEntry c qs multi x0 (is_axfr_init x0));
          match oi with
          | None => Ok (mkSt q' COpen (st_sent s) (st_log s ++ [(c, multi, DError 11)]) (st_idle_zero s) false)
          | Some idx =>
              if bad then
                let '(q'', _) := q_try_remove q' idx in
                Ok (mkSt q'' COpen (st_sent s) (st_log s ++ [(c, multi, DError 12)]) (st_idle_zero s) false)
              else Ok (mkSt q' COpen (st_sent s ++ [(c, idx, qs)]) (st_log s) (st_idle_zero s) false)
          end
      end
  | EReply m =>
      match st_conn s with
      | CDown _ => Ok s            (* the run loop has ended *)
      | COpen =>
          (* the options are handled before the ID is looked up *)
          let iz := keepalive_idle_zero (st_idle_zero s) (m_ka m) in
          let id := m_id m in
          match q_try_remove (st_q s) id with
          | (_, None) =>
              (* nobody waits for this ID: only the options took effect *)
              Ok (mkSt (st_q s) (if st_idle s && iz then CDown 10 else COpen) (st_sent s) (st_log s) iz (st_idle s))
          | (q', Some e) =>
              if e_multi e then
                let '(eof, x, isans) := check_stream e m in
                let log' := st_log s ++ [(e_caller e, true, if isans then DAnswer m else DWrong)] in
                if eof then
                  Ok (mkSt q' (after_reply iz q' COpen) (st_sent s) (log' ++ [(e_caller e, true, DEof)]) iz (q_is_empty q'))
                else
                  do q'' <- q_insert_at q' id (mkEntry (e_caller e) (e_qs e) true x (e_axfr e));
                  Ok (mkSt q'' (after_reply iz q'' COpen) (st_sent s) log' iz (q_is_empty q''))
              else
                let d := if is_answer (mkReq id (e_qs e)) m then DAnswer m else DWrong in
                Ok (mkSt q' (after_reply iz q' COpen) (st_sent s) (st_log s ++ [(e_caller e, false, d)]) iz (q_is_empty q'))
          end
      end
  | EFail err =>
      match st_conn s with
      | CDown _ => Ok s
      | COpen =>
          let '(q', l) := q_drain (st_q s) in
          Ok (mkSt q' (CDown err) (st_sent s)
                   (st_log s ++ map (fun e => (e_caller e, e_multi e, DError err)) l) (st_idle_zero s) false)
      end
  | ETick =>
      (* the loop head: ConnState::Idle(since) with elapsed >= idle_timeout -> IdleTimeout, break;
         in every other state the idle timer is not running *)
      match st_conn s with
      | CDown _ => Ok s
      | COpen => if st_idle s
                 then Ok (mkSt (st_q s) (CDown 10) (st_sent s) (st_log s) (st_idle_zero s) (st_idle s))
                 else Ok s
      end
  end.

Definition s_init : sstate := mkSt q_new COpen [] [] idle_zero false.
Definition s_run (evs : list sevent) : outcome sstate :=
  fold_left (fun acc ev => do s <- acc; s_step s ev) evs (Ok s_init).
End Demux.

(* ---- net/client/request.rs RequestMessageMulti::is_answer ---- *)
Definition is_answer_multi (axfr : bool) (r : req) (a : msg) : bool :=
  if isans_reject (m_qr a) (m_id a) (r_id r) then false
  else if isans_hdr_only (m_rcode a) (m_qd a) (m_an a) (m_ns a) (m_ar a) then true
  else if (if multi_axfr_rule then axfr && (m_qd a =? 0) else false) then true
  else if isans_qd_reject (m_qd a) (lenN (r_qs r)) then false
  else
    let e := match m_qs a with Some qs => list_eqb qs (r_qs r) | None => false end in
    if isans_q_equal then e else negb e.

(* ---- net/client/stream.rs check_stream ----
   the record loop: inl eof = early return (eof, Error, false); inr st = the
   state after the last record.  (The arm for XFRState::Error inside the loop
   is panic!("should not be here"): check_stream returns before the loop in
   that state and the loop never continues with it.) *)
Fixpoint xfr_records (st : xfr) (rs : list (option rr)) : bool + xfr :=
  match rs with
  | [] => inr st
  | None :: _ => inl true
  | Some r :: rest =>
      match st, r with
      | XAxfrInit, RSoa s => xfr_records (XAxfrFirstSoa s) rest
      | XAxfrInit, ROther => inl false
      | XAxfrFirstSoa serial, RSoa s => if serial =? s then xfr_records XDone rest else inl false
      | XAxfrFirstSoa _, ROther => xfr_records st rest
      | XIxfrInit, RSoa s => xfr_records (XIxfrFirstSoa s) rest
      | XIxfrInit, ROther => inl false
      | XIxfrFirstSoa serial, RSoa s =>
          if serial =? s then xfr_records XDone rest else xfr_records (XIxfrFirstDiffSoa serial) rest
      | XIxfrFirstSoa serial, ROther => xfr_records (XAxfrFirstSoa serial) rest
      | XIxfrFirstDiffSoa serial, RSoa _ => xfr_records (XIxfrSecondDiffSoa serial) rest
      | XIxfrFirstDiffSoa _, ROther => xfr_records st rest
      | XIxfrSecondDiffSoa serial, RSoa s =>
          if serial =? s then xfr_records XDone rest else xfr_records (XIxfrFirstDiffSoa serial) rest
      | XIxfrSecondDiffSoa _, ROther => xfr_records st rest
      | XDone, _ => inl false
      | XError, _ => inl false
      end
  end.

(* (eof, new state, is_answer); the request's ID is the slot index = the ID of
   the reply that found the entry *)
Definition check_stream_m (e : entry) (a : msg) : bool * xfr * bool :=
  let isans := is_answer_multi (e_axfr e) (mkReq (m_id a) (e_qs e)) a in
  let body :=
    if negb (m_rcode a =? 0) then
      (if negb isans then (false, XError, false) else (true, e_xfr e, true))
    else
      match m_ans a with
      | None => (true, XError, false)
      | Some rs =>
          match xfr_records (e_xfr e) rs with
          | inl eof => (eof, XError, false)
          | inr st =>
              match st with
              | XAxfrInit | XIxfrInit => (false, XError, false)
              | XAxfrFirstSoa _ | XIxfrFirstDiffSoa _ | XIxfrSecondDiffSoa _ => (false, st, true)
              | XIxfrFirstSoa _ => (true, XDone, true)
              | XDone => (true, XDone, true)
              | XError => (false, XError, false)
              end
          end
      end in
  match e_xfr e with
  | XAxfrInit | XIxfrInit => if negb isans then (false, XError, false) else body
  | XDone | XError => (false, XError, false)
  | _ => body
  end.

(* ---- entry points for the driver ---- *)
Definition c15_is_answer (r : req) (a : msg) : bool := is_answer r a.
Definition c15_dgram (max_retries T : N) (qs : list N) (atts : list attempt) : dres * N :=
  dgram_run max_retries T qs atts.

(* ---- the response timer of Transport::run / demux_reply (ms) ----
   `start` is the instant in ConnState::Active(Some(start)); a reply arriving at
   time t either restarts the timer or leaves it alone, depending on where
   demux_reply resets it relative to the ID lookup (T1). *)
Definition timer_after_reply (known_id : bool) (start t : N) : N :=
  if timer_reset_requires_known_id then (if known_id then t else start) else t.

(* replies with IDs nobody waits for, arriving at the given times: the time at
   which the read timeout ends a request that is never answered, if it does
   within the observed horizon (the check happens when the loop wakes up: after
   each reply and when the sleep for the remaining time expires) *)
Fixpoint junk_deadline (timeout start : N) (arrivals : list N) : N :=
  match arrivals with
  | [] => start + timeout
  | t :: rest =>
      if run_timeout_fires (t - start) timeout then start + timeout   (* fired before this reply *)
      else junk_deadline timeout (timer_after_reply false start t) rest
  end.

(* insert_req and the response timer: `timer` is the Option in
   ConnState::Active(timer) (Idle counts as None: the Idle arm always arms it);
   a request taken at time t arms the timer only when none is running (T1). *)
Definition timer_after_request (timer : option N) (t : N) : option N :=
  if insreq_arms_timer_only_if_none
  then match timer with None => Some t | Some s => Some s end
  else Some t.

(* one request outstanding since `start`, a silent peer, further requests
   submitted at the given times: when does the read timeout end the first one *)
Fixpoint req_deadline (timeout start : N) (arrivals : list N) : N :=
  match arrivals with
  | [] => start + timeout
  | t :: rest =>
      if run_timeout_fires (t - start) timeout then start + timeout
      else match timer_after_request (Some start) t with
           | Some s => req_deadline timeout s rest
           | None => start + timeout
           end
  end.

(* the demultiplexer with the concrete check_stream *)
Definition c15_demux (idle_zero : bool) (evs : list sevent) : outcome sstate :=
  s_run check_stream_m idle_zero evs.
Definition c15_pending (c : N) (s : sstate) : bool :=
  existsb (fun e => e_caller e =? c) (flatten_opt (q_vec (st_q s))).

(* ---- the connection timers at the head of Transport::run's loop (ms) ---- *)
Inductive tstate : Type :=
| TActive (start : option N) | TIdle (since : N) | TIdleTimeout | TReadTimeout.

(* the match on status.state that opens every loop iteration *)
Definition run_tick (resp idle : N) (st : tstate) (now : N) : tstate :=
  match st with
  | TActive (Some start) => if run_timeout_fires (now - start) resp then TReadTimeout else st
  | TIdle since => if run_idle_fires (now - since) idle then TIdleTimeout else st
  | _ => st
  end.

(* how long the loop then sleeps when nothing else happens *)
Definition run_sleep (resp idle : N) (st : tstate) (now : N) : N :=
  match st with
  | TActive (Some start) => resp - (now - start)
  | TIdle since => idle - (now - since)
  | _ => resp
  end.

(* demux_reply once the last outstanding request is gone *)
Definition go_idle (idle now : N) : tstate := if idle =? 0 then TIdleTimeout else TIdle now.

(* handle_keepalive on status.idle_timeout *)
Definition keepalive_idle (idle : N) (ka : option (option N)) : N :=
  match ka with Some (Some v) => keepalive_units_ms * v | _ => idle end.

(* ======================================================================
   Part 3: connection management above the stream transport.

   ---- multi_stream::Transport::run, the NewConn command ----
   conn_state: no connection / a connection (an abstract handle) / the last
   connect failed (retries, the time of the failure, the back-off chosen);
   conn_id counts connections.  Times in ms. *)
Inductive mconn : Type := MNone | MSome (c : N) | MErr (retries timer timeout : N).
Record mstate : Type := mkMs { ms_conn : mconn; ms_id : N }.
Inductive mreply : Type :=
| MReplyOk (id c : N)     (* ChanResp::Ok { id, conn } *)
| MReplyErr               (* ChanResp::Err(error) *)
| MConnect.               (* a connect() is started; the reply follows in ms_connected *)

(* ReqCmd::NewConn(opt_id, chan): opt_id is the id of the connection the
   requester found unusable *)
Definition ms_newconn (s : mstate) (opt_id : option N) (now : N) : mstate * mreply :=
  match (match ms_conn s with
         | MErr _ timer timeout => ms_backoff_active (now - timer) timeout
         | _ => false
         end) with
  | true => (s, MReplyErr)
  | false =>
      let s1 := match opt_id with
                | Some id => if ms_stale id (ms_id s) then mkMs MNone (ms_id s + ms_id_inc) else s
                | None => s
                end in
      match ms_conn s1 with
      | MSome c => (s1, MReplyOk (ms_id s1) c)
      | _ => (s1, MConnect)
      end
  end.

(* the connect() started by MConnect finishes: Some c = a stream, None = error;
   backoff = the value retry_time drew *)
Definition ms_connected (s : mstate) (res : option N) (now backoff : N) : outcome (mstate * mreply) :=
  match res with
  | Some c => Ok (mkMs (MSome c) (ms_id s), MReplyOk (ms_id s) c)
  | None =>
      match ms_conn s with
      | MNone => Ok (mkMs (MErr 0 now backoff) (ms_id s), MReplyErr)
      | MErr retries _ _ => Ok (mkMs (MErr (retries + 1) now backoff) (ms_id s), MReplyErr)
      | MSome _ => Panic 4       (* panic!("Illegal Some state") *)
      end
  end.

(* ---- redundant::Query::get_response: which result is handed to the caller ----
   Upstreams are probed in order; the next one is started when the current one
   finishes with a deferrable result or its estimated response time passes.
   Results: a reply that is returned at once, a reply that is deferred (REFUSED
   / SERVFAIL when configured), a transport error. *)
Inductive ures : Type := UGood (m : N) | USkip (m : N) | UErr (e : N).
Inductive revent : Type := RFin (i : N) (r : ures) | RProbeTimeout.
Inductive rphase : Type := RProbe (ind : N) | RWait.
Record rstate : Type := mkR {
  r_phase : rphase;
  r_out : list N;            (* upstreams started and not finished *)
  r_dreply : option N;       (* deferred_reply *)
  r_derr : option N }.       (* deferred_transport_error *)
Inductive rfinal : Type := RReturnOk (m : N) | RReturnErr (e : N).

Definition first_some (a : option N) (b : N) : option N := match a with Some x => Some x | None => Some b end.
Fixpoint remove_n (i : N) (l : list N) : list N :=
  match l with [] => [] | x :: r => if x =? i then r else x :: remove_n i r end.

(* move on from upstream ind: start the next one, or wait for what is outstanding *)
Definition r_next (n ind : N) (out : list N) : rphase * list N :=
  if ind + 1 <? n then (RProbe (ind + 1), out ++ [ind + 1]) else (RWait, out).

(* the check at the head of the Wait loop *)
Definition r_settle (s : rstate) : outcome (rstate + rfinal) :=
  match r_phase s, r_out s with
  | RWait, [] =>
      match (if red_prefers_reply then r_dreply s else None), r_derr s, r_dreply s with
      | Some m, _, _ => Ok (inr (RReturnOk m))
      | None, Some e, _ => Ok (inr (RReturnErr e))
      | None, None, Some m => Ok (inr (RReturnOk m))
      | None, None, None => Panic 5   (* "either deferred_reply or deferred_error should be present" *)
      end
  | _, _ => Ok (inl s)
  end.

Definition r_step (defer_err : bool) (n : N) (s : rstate) (ev : revent) : outcome (rstate + rfinal) :=
  match ev with
  | RFin i r =>
      let out := remove_n i (r_out s) in
      match r with
      | UGood m => Ok (inr (RReturnOk m))
      | UErr e =>
          if defer_err then
            let d := first_some (r_derr s) e in
            match r_phase s with
            | RProbe ind =>
                if i =? ind then let '(ph, out') := r_next n ind out in r_settle (mkR ph out' (r_dreply s) d)
                else Ok (inl (mkR (RProbe ind) out (r_dreply s) d))
            | RWait => r_settle (mkR RWait out (r_dreply s) d)
            end
          else Ok (inr (RReturnErr e))
      | USkip m =>
          let d := first_some (r_dreply s) m in
          match r_phase s with
          | RProbe ind =>
              if i =? ind then let '(ph, out') := r_next n ind out in r_settle (mkR ph out' d (r_derr s))
              else Ok (inl (mkR (RProbe ind) out d (r_derr s)))
          | RWait => r_settle (mkR RWait out d (r_derr s))
          end
      end
  | RProbeTimeout =>
      match r_phase s with
      | RProbe ind => let '(ph, out') := r_next n ind (r_out s) in Ok (inl (mkR ph out' (r_dreply s) (r_derr s)))
      | RWait => Ok (inl s)
      end
  end.

Definition r_init : rstate := mkR (RProbe 0) [0] None None.

Fixpoint r_run (defer_err : bool) (n : N) (s : rstate) (evs : list revent) : outcome (rstate + rfinal) :=
  match evs with
  | [] => Ok (inl s)
  | ev :: rest =>
      match r_step defer_err n s ev with
      | Ok (inl s') => r_run defer_err n s' rest
      | other => other
      end
  end.

(* ---- multi_stream::Request::get_response with the clock (ms) ----
   The environment: each connection attempt either fails after d ms or yields a
   stream connection after d ms on which the request then meets one fate;
   delays = the values retry_time draws, in order. *)
Inductive sres : Type :=
| SReply (d : N)       (* the reply arrives d ms after the request was handed over *)
| SWrong (d : N)       (* Err(WrongReplyForQuery) after d ms *)
| SClosed (d : N)      (* Err(ConnectionClosed) after d ms *)
| SFail (d : N)        (* any other error after d ms *)
| SSilent.             (* nothing ever *)
Inductive catt : Type := CFail (d : N) | COk (d : N) (r : sres).
Inductive mres : Type := MOk (t : N) | MErrWrong (t : N) | MErrTimeout (t : N).
Definition mres_time (r : mres) : N := match r with MOk t | MErrWrong t | MErrTimeout t => t end.

(* QueryState::Delay(now, delay) and back to RequestConn; k continues there *)
Definition ms_delay (T start now : N) (delays : list N) (k : N -> list N -> mres) : mres :=
  if ms_budget_spent (now - start) T then MErrTimeout now
  else if now + hd 0 delays <=? start + T then k (now + hd 0 delays) (tl delays)
  else MErrTimeout (start + T).

(* every await is wrapped in timeout(remaining, ..) with remaining computed from
   `start` at the top of the turn, i.e. bounded by start + T; a connection or
   a reply that becomes ready exactly at the deadline still has to travel
   through the transport tasks and loses against the timer *)
Fixpoint ms_request (T start now count : N) (atts : list catt) (delays : list N) : mres :=
  if ms_budget_spent (now - start) T then MErrTimeout now else
  match atts with
  | [] => MErrTimeout (start + T)
  | CFail d :: rest =>
      if now + d <? start + T
      then ms_delay T start (now + d) delays (fun now' dl' => ms_request T start now' (count + 1) rest dl')
      else MErrTimeout (start + T)
  | COk d r :: rest =>
      if now + d <? start + T then
        let now1 := now + d in
        (* QueryState::StartQuery *)
        let start1 := if ms_start_fixed then start else now1 in
        if ms_budget_spent (now1 - start1) T then MErrTimeout now1 else
        let deadline := start1 + T in
        match r with
        | SReply d' => if now1 + d' <? deadline then MOk (now1 + d') else MErrTimeout deadline
        | SWrong d' => if now1 + d' <? deadline then MErrWrong (now1 + d') else MErrTimeout deadline
        | SSilent => MErrTimeout deadline
        | SClosed d' =>
            if now1 + d' <? deadline then
              if count + 1 =? ms_immediate_retry_at
              then ms_request T start1 (now1 + d') (count + 1) rest delays
              else ms_delay T start1 (now1 + d') delays (fun now' dl' => ms_request T start1 now' (count + 1) rest dl')
            else MErrTimeout deadline
        | SFail d' =>
            if now1 + d' <? deadline
            then ms_delay T start1 (now1 + d') delays (fun now' dl' => ms_request T start1 now' (count + 1) rest dl')
            else MErrTimeout deadline
        end
      else MErrTimeout (start + T)
  end.

(* ---- load_balancer: the answer made up locally, and the burst gate ---- *)
(* serve_fail(request): header from the request, RCODE SERVFAIL, the question
   section copied, an OPT record when the request had one *)
Definition lb_local (rid : N) (rqr : bool) (qs : list N) (has_opt : bool) : msg :=
  mkMsg (lb_local_id rid) (lb_local_qr rqr) false lb_local_rcode
        (if lb_local_copies_question then lenN qs else 0) 0 0 (if has_opt then 1 else 0)
        (Some (if lb_local_copies_question then qs else [])) (Some []) None.

(* an upstream: its burst limit and the requests it was given in the current
   burst interval *)
Definition lb_usable (u : option N * N) : bool :=
  match fst u with Some mb => negb (lb_over_burst (snd u) mb) | None => true end.

Fixpoint lb_bump (ups : list (option N * N)) (i : nat) : list (option N * N) :=
  match ups, i with
  | [], _ => []
  | (mb, b) :: r, O => (mb, b + lb_burst_inc) :: r
  | u :: r, S j => u :: lb_bump r j
  end.

(* one request inside a burst interval: None = answered locally, Some i = given
   to upstream i; `pick` chooses among the usable ones (the policy is not modelled) *)
Definition lb_step (ups : list (option N * N)) (pick : nat) : list (option N * N) * option nat :=
  let usable := filter (fun i => lb_usable (nth i ups (None, 0))) (seq 0 (length ups)) in
  match usable with
  | [] => (ups, None)
  | _ => let i := nth (Nat.modulo pick (length usable)) usable O in (lb_bump ups i, Some i)
  end.

Fixpoint lb_run (ups : list (option N * N)) (picks : list nat) : list (option nat) :=
  match picks with
  | [] => []
  | p :: rest => let '(ups', o) := lb_step ups p in o :: lb_run ups' rest
  end.

Definition c15_lb_local := lb_local.
Definition c15_lb_run := lb_run.
Definition c15_ms_request (T : N) (atts : list catt) (delays : list N) : mres := ms_request T 0 0 0 atts delays.

(* ---- multi_stream: a sequence of requests over one transport, with the peer
   killing the current connection in between (MK).  A request asks NewConn(None);
   a connection whose transport has ended answers ConnectionClosed, the first of
   which makes the request ask again at once, naming the id it was given.
   Result per request: did it get a reply, and how many connects were made so far. *)
Inductive mop : Type := MQ | MK.
Fixpoint msc_run (idle_zero : bool) (s : mstate) (alive : bool) (connects : N) (ops : list mop) : list (bool * N) :=
  match ops with
  | [] => []
  | MK :: rest => msc_run idle_zero s false connects rest
  | MQ :: rest =>
      let after := negb idle_zero in      (* idle_timeout zero: the connection closes itself after the reply *)
      let '(s1, rep) := ms_newconn s None 0 in
      let connect s' :=
        match ms_connected s' (Some (connects + 1)) 0 0 with
        | Ok (s'', MReplyOk _ _) => (true, connects + 1) :: msc_run idle_zero s'' after (connects + 1) rest
        | _ => (false, connects + 1) :: msc_run idle_zero s' false (connects + 1) rest
        end in
      match rep with
      | MReplyOk id _ =>
          if alive then (true, connects) :: msc_run idle_zero s1 after connects rest
          else
            let '(s2, rep2) := ms_newconn s1 (Some id) 0 in
            match rep2 with
            | MConnect => connect s2
            | _ => (false, connects) :: msc_run idle_zero s2 false connects rest
            end
      | MConnect => connect s1
      | MReplyErr => (false, connects) :: msc_run idle_zero s1 false connects rest
      end
  end.
Definition c15_msc (idle_zero : bool) (ops : list mop) : list (bool * N) :=
  msc_run idle_zero (mkMs MNone 0) false 0 ops.

(* redundant with n upstreams that all produce the same result: the outcome does
   not depend on the (randomised) probing order *)
Definition c15_red (defer_err : bool) (n : N) (r : ures) : outcome (rstate + rfinal) :=
  r_run defer_err n r_init (map (fun i => RFin (N.of_nat i) r) (seq 0 (N.to_nat n))).
Definition c15_red_skip := red_skip.
