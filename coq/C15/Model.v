(* C15 model, part 1: net/client/stream.rs  Queries<T>::{new, is_empty, insert,
   insert_at, try_remove, drain}  (the outstanding-query table whose slot index
   is the DNS message ID on a stream connection).

   usize values are N (the guards keep them far below 2^64, see q_inv), the
   vector is a list of option slots.  Panic sites:
     1  expect("no inserted item?")          (insert)
     2  expect("query vec too large")        (insert: index does not fit u16)
     3  self.vec[id] index out of bounds     (insert_at)
   The comparison operators, multipliers and increments come from Gen.v (T1). *)
From Coq Require Import NArith List Bool.
From DV Require Import Base.Outcome C15.Gen.
Import ListNotations.
Local Open Scope N_scope.

Record queries (T : Type) : Type := mkQ {
  q_count : N;                 (* number of elements in vec that are not None *)
  q_curr : N;                  (* where to look for a space for a new query *)
  q_vec : list (option T) }.
Arguments mkQ {T}.
Arguments q_count {T}.
Arguments q_curr {T}.
Arguments q_vec {T}.

Definition q_new {T} : queries T := mkQ 0 0 [].
Definition q_is_empty {T} (q : queries T) : bool := q_count q =? 0.

Definition lenN {A} (l : list A) : N := N.of_nat (length l).

(* the slot at index i: None = out of range, Some None = empty, Some (Some r) *)
Definition slot_at {T} (v : list (option T)) (i : N) : option (option T) :=
  nth_error v (N.to_nat i).

(* v[i] = x;  None when i is out of bounds (a Rust index panic) *)
Fixpoint set_nth {A} (l : list A) (n : nat) (x : A) : option (list A) :=
  match l, n with
  | [], _ => None
  | _ :: r, O => Some (x :: r)
  | a :: r, S m => match set_nth r m x with Some r' => Some (a :: r') | None => None end
  end.

(* for idx in start.. { if vec[idx].is_none() { found = Some(idx); break } } *)
Fixpoint find_none {T} (l : list (option T)) (i : N) : option N :=
  match l with
  | [] => None
  | None :: _ => Some i
  | Some _ :: r => find_none r (N.succ i)
  end.

Definition scan_from {T} (curr : N) (v : list (option T)) : option N :=
  find_none (skipn (N.to_nat curr) v) curr.

(* result of insert: the new table and Some index, or None when the table is
   full (Rust returns Err(req)) *)
Definition q_insert {T} (q : queries T) (req : T) : outcome (queries T * option N) :=
  if ins_full (q_count q) then Ok (q, None)
  else
    let len := lenN (q_vec q) in
    let found :=
      if ins_scan len (q_count q)
      then (if ins_scan_from_curr then scan_from (q_curr q) (q_vec q) else scan_from 0 (q_vec q))
      else None in
    let '(idx, ovec) :=
      match found with
      | Some idx => (idx, set_nth (q_vec q) (N.to_nat idx) (Some req))
      | None => (len, Some (q_vec q ++ [Some req]))
      end in
    match ovec with
    | None => Panic 3
    | Some vec' =>
        let count' := q_count q + ins_count_inc in
        let curr' := if ins_bump idx (q_curr q) then q_curr q + ins_curr_inc else q_curr q in
        match slot_at vec' idx with
        | Some (Some _) =>
            if idx <? idx_limit then Ok (mkQ count' curr' vec', Some idx) else Panic 2
        | _ => Panic 1
        end
    end.

Definition q_insert_at {T} (q : queries T) (id : N) (req : T) : outcome (queries T) :=
  match set_nth (q_vec q) (N.to_nat id) (Some req) with
  | None => Panic 3
  | Some vec' =>
      Ok (mkQ (q_count q + insat_count_inc)
              (if insat_bump id (q_curr q) then q_curr q + insat_curr_inc else q_curr q)
              vec')
  end.

(* self.vec.get_mut(index)?.take()?  -- N subtraction is saturating like
   usize::saturating_sub *)
Definition q_try_remove {T} (q : queries T) (index : N) : queries T * option T :=
  match slot_at (q_vec q) index with
  | Some (Some r) =>
      match set_nth (q_vec q) (N.to_nat index) None with
      | Some vec' => (mkQ (q_count q - rem_count_dec) (rem_curr (q_curr q) index) vec', Some r)
      | None => (q, None)   (* unreachable: the slot exists *)
      end
  | _ => (q, None)
  end.

Fixpoint flatten_opt {T} (l : list (option T)) : list T :=
  match l with
  | [] => []
  | Some x :: r => x :: flatten_opt r
  | None :: r => flatten_opt r
  end.

Definition q_drain {T} (q : queries T) : queries T * list T :=
  (mkQ drain_count drain_curr [], flatten_opt (q_vec q)).

(* ---- operation sequences ---- *)
Inductive qop (T : Type) : Type :=
| OIns (r : T)
| OInsAt (i : N) (r : T)
| ORem (i : N)
| ODrain.
Arguments OIns {T}. Arguments OInsAt {T}. Arguments ORem {T}. Arguments ODrain {T}.

Inductive qobs (T : Type) : Type :=
| RIns (idx : option N)        (* Some idx = Ok((idx, _)), None = Err(req) *)
| RInsAt
| RRem (r : option T)
| RDrain (l : list T).
Arguments RIns {T}. Arguments RInsAt {T}. Arguments RRem {T}. Arguments RDrain {T}.

Definition q_step {T} (q : queries T) (o : qop T) : outcome (queries T * qobs T) :=
  match o with
  | OIns r => do (q', i) <- q_insert q r; Ok (q', RIns i)
  | OInsAt i r => do q' <- q_insert_at q i r; Ok (q', RInsAt)
  | ORem i => let '(q', r) := q_try_remove q i in Ok (q', RRem r)
  | ODrain => let '(q', l) := q_drain q in Ok (q', RDrain l)
  end.

(* fold_left over the operations; the accumulator is the outcome of the prefix:
   the table and the observations so far (in order) *)
Definition q_acc {T} (acc : outcome (queries T * list (qobs T))) (o : qop T)
  : outcome (queries T * list (qobs T)) :=
  do (q, tr) <- acc; do (q', ob) <- q_step q o; Ok (q', tr ++ [ob]).

Definition q_run_from {T} (q : queries T) (ops : list (qop T)) : outcome (queries T * list (qobs T)) :=
  fold_left q_acc ops (Ok (q, [])).

Definition q_run {T} (ops : list (qop T)) : outcome (queries T * list (qobs T)) :=
  q_run_from q_new ops.

(* precondition of insert_at as documented in the source ("the slot has to be
   empty"): the slot exists and is empty *)
Definition q_pre {T} (q : queries T) (o : qop T) : Prop :=
  match o with
  | OInsAt i _ => slot_at (q_vec q) i = Some None
  | _ => True
  end.

(* every insert_at of the sequence is applied to an existing empty slot *)
Fixpoint q_legal_from {T} (q : queries T) (ops : list (qop T)) : Prop :=
  match ops with
  | [] => True
  | o :: rest =>
      q_pre q o /\
      match q_step q o with
      | Ok (q', _) => q_legal_from q' rest
      | _ => True
      end
  end.
Definition q_legal {T} (ops : list (qop T)) : Prop := q_legal_from (@q_new T) ops.

(* the table seen as a finite map ID -> request *)
Definition q_get {T} (q : queries T) (i : N) : option T :=
  match slot_at (q_vec q) i with Some (Some r) => Some r | _ => None end.

Fixpoint count_some {T} (l : list (option T)) : N :=
  match l with
  | [] => 0
  | Some _ :: r => N.succ (count_some r)
  | None :: r => count_some r
  end.

(* the representation invariant *)
Definition q_inv {T} (q : queries T) : Prop :=
  q_count q = count_some (q_vec q) /\
  q_curr q <= lenN (q_vec q) /\
  (forall i, i < q_curr q -> exists r, slot_at (q_vec q) i = Some (Some r)) /\
  lenN (q_vec q) <= 65534.

(* ---- executable entry point for the correspondence driver (T = N) ----
   per operation: observation, then count / curr / occupancy after it *)
Definition c15_occ (v : list (option N)) : list bool :=
  map (fun s => match s with Some _ => true | None => false end) v.

Fixpoint c15_trace (q : queries N) (ops : list (qop N))
  : list (outcome (qobs N * (N * N * list bool))) :=
  match ops with
  | [] => []
  | o :: rest =>
      match q_step q o with
      | Ok (q', ob) => Ok (ob, (q_count q', q_curr q', c15_occ (q_vec q'))) :: c15_trace q' rest
      | Err e => [Err e]
      | Panic s => [Panic s]
      | OutOfFuel => [OutOfFuel]
      end
  end.

(* long sequences: only the observations and the final shape *)
Fixpoint c15_run_obs (q : queries N) (ops : list (qop N)) (acc : list (qobs N))
  : outcome (list (qobs N) * (N * N * N)) :=
  match ops with
  | [] => Ok (rev acc, (q_count q, q_curr q, lenN (q_vec q)))
  | o :: rest =>
      match q_step q o with
      | Ok (q', ob) => c15_run_obs q' rest (ob :: acc)
      | Err e => Err e
      | Panic s => Panic s
      | OutOfFuel => OutOfFuel
      end
  end.
