(* C15 proofs, part 1: the outstanding-query table. *)
From Coq Require Import NArith ZArith List Bool Lia ZifyN ZifyBool ZifyNat Sorted.
From DV Require Import Base.Outcome C15.Gen C15.Model.
Import ListNotations.
Local Open Scope N_scope.
Ltac Zify.zify_post_hook ::= Z.div_mod_to_equations.

(* ------------------------------------------------------------------ lists *)
Lemma set_nth_length {A} (l : list A) n x l' :
  set_nth l n x = Some l' -> length l' = length l.
Proof.
  revert n l'. induction l as [|a r IH]; intros [|n] l' H; cbn in H; try discriminate.
  - inversion H; reflexivity.
  - destruct (set_nth r n x) eqn:E; try discriminate. inversion H; subst. cbn. f_equal. eauto.
Qed.

Lemma set_nth_some {A} (l : list A) n x :
  (n < length l)%nat -> exists l', set_nth l n x = Some l'.
Proof.
  revert n. induction l as [|a r IH]; intros [|n] H; cbn in *; try lia; eauto.
  destruct (IH n) as [l' E]; [lia|]. rewrite E. eauto.
Qed.

Lemma set_nth_none {A} (l : list A) n x :
  set_nth l n x = None -> (length l <= n)%nat.
Proof.
  revert n. induction l as [|a r IH]; intros [|n] H; cbn in *; try lia; try discriminate.
  destruct (set_nth r n x) eqn:E; try discriminate. apply IH in E. lia.
Qed.

Lemma set_nth_eq {A} (l : list A) n x l' :
  set_nth l n x = Some l' -> nth_error l' n = Some x.
Proof.
  revert n l'. induction l as [|a r IH]; intros [|n] l' H; cbn in H; try discriminate.
  - inversion H; reflexivity.
  - destruct (set_nth r n x) eqn:E; try discriminate. inversion H; subst. cbn. eauto.
Qed.

Lemma set_nth_neq {A} (l : list A) n x l' m :
  set_nth l n x = Some l' -> m <> n -> nth_error l' m = nth_error l m.
Proof.
  revert n l' m. induction l as [|a r IH]; intros [|n] l' m H Hm; cbn in H; try discriminate.
  - inversion H; subst. destruct m; [congruence|reflexivity].
  - destruct (set_nth r n x) eqn:E; try discriminate. inversion H; subst.
    destruct m; cbn; [reflexivity|]. eapply IH; eauto.
Qed.

Lemma count_some_le {T} (l : list (option T)) : count_some l <= lenN l.
Proof. unfold lenN. induction l as [|[x|] r IH]; cbn [count_some length]; lia. Qed.

Lemma count_some_app {T} (l1 l2 : list (option T)) :
  count_some (l1 ++ l2) = count_some l1 + count_some l2.
Proof. induction l1 as [|[x|] r IH]; cbn [count_some app]; lia. Qed.

Definition is_some {A} (o : option A) : N := match o with Some _ => 1 | None => 0 end.

Lemma count_some_set {T} (l : list (option T)) n x l' old :
  set_nth l n x = Some l' -> nth_error l n = Some old ->
  count_some l' + is_some old = count_some l + is_some x.
Proof.
  revert n l'. induction l as [|a r IH]; intros [|n] l' H Ho; cbn in H, Ho; try discriminate.
  - inversion H; inversion Ho; subst. destruct old, x; cbn [count_some is_some]; lia.
  - destruct (set_nth r n x) as [l0|] eqn:E; try discriminate. inversion H; subst.
    specialize (IH n l0 E Ho). destruct a; cbn [count_some]; lia.
Qed.

Lemma count_some_full {T} (l : list (option T)) :
  count_some l = lenN l -> forall n o, nth_error l n = Some o -> o <> None.
Proof.
  unfold lenN. induction l as [|a r IH]; intros H n o Hn.
  - destruct n; discriminate.
  - pose proof (count_some_le r) as Hle. unfold lenN in Hle.
    destruct a as [x|]; cbn [count_some length] in H.
    + destruct n; cbn in Hn; [inversion Hn; discriminate|]. eapply IH; eauto. lia.
    + lia.
Qed.

Lemma all_some_count {T} (l : list (option T)) :
  (forall n, (n < length l)%nat -> exists r, nth_error l n = Some (Some r)) ->
  count_some l = lenN l.
Proof.
  unfold lenN. induction l as [|a r IH]; intros H; [reflexivity|].
  destruct (H O) as [x Hx]; [cbn; lia|]. cbn in Hx. inversion Hx; subst.
  cbn [count_some length]. rewrite IH; [lia|]. intros n Hn. apply (H (S n)). cbn; lia.
Qed.

(* find_none *)
Lemma find_none_some {T} (l : list (option T)) i j :
  find_none l i = Some j ->
  i <= j /\ nth_error l (N.to_nat (j - i)) = Some None /\
  forall k, i <= k < j -> exists r, nth_error l (N.to_nat (k - i)) = Some (Some r).
Proof.
  revert i. induction l as [|a r IH]; intros i H; cbn in H; [discriminate|].
  destruct a as [x|].
  - apply IH in H. destruct H as (H1 & H2 & H3). split; [lia|]. split.
    + replace (N.to_nat (j - i)) with (S (N.to_nat (j - N.succ i))) by lia. exact H2.
    + intros k Hk. destruct (N.eq_dec k i) as [->|Hne].
      * replace (N.to_nat (i - i)) with O by lia. cbn. eauto.
      * destruct (H3 k) as [y Hy]; [lia|]. exists y.
        replace (N.to_nat (k - i)) with (S (N.to_nat (k - N.succ i))) by lia. exact Hy.
  - inversion H; subst. split; [lia|]. split.
    + replace (N.to_nat (j - j)) with O by lia. reflexivity.
    + intros k Hk. lia.
Qed.

Lemma find_none_none {T} (l : list (option T)) i :
  find_none l i = None -> forall n, (n < length l)%nat -> exists r, nth_error l n = Some (Some r).
Proof.
  revert i. induction l as [|a r IH]; intros i H n Hn; cbn in *; [lia|].
  destruct a as [x|]; [|discriminate]. destruct n; cbn; eauto. eapply IH; eauto. lia.
Qed.

Lemma nth_error_skipn {A} (l : list A) c n : nth_error (skipn c l) n = nth_error l (c + n).
Proof.
  revert l. induction c as [|c IH]; intros l; [reflexivity|].
  destruct l; cbn [skipn]; [destruct n; reflexivity|]. cbn. apply IH.
Qed.

Lemma scan_from_some {T} (v : list (option T)) curr j :
  scan_from curr v = Some j ->
  curr <= j /\ slot_at v j = Some None /\
  forall k, curr <= k < j -> exists r, slot_at v k = Some (Some r).
Proof.
  unfold scan_from, slot_at. intros H. apply find_none_some in H. destruct H as (H1 & H2 & H3).
  split; [exact H1|]. split.
  - rewrite nth_error_skipn in H2. replace (N.to_nat j) with (N.to_nat curr + N.to_nat (j - curr))%nat by lia. exact H2.
  - intros k Hk. destruct (H3 k Hk) as [r Hr]. exists r. rewrite nth_error_skipn in Hr.
    replace (N.to_nat k) with (N.to_nat curr + N.to_nat (k - curr))%nat by lia. exact Hr.
Qed.

Lemma scan_from_none {T} (v : list (option T)) curr :
  scan_from curr v = None ->
  forall k, curr <= k < lenN v -> exists r, slot_at v k = Some (Some r).
Proof.
  unfold scan_from, slot_at, lenN. intros H k Hk.
  destruct (find_none_none _ _ H (N.to_nat (k - curr))) as [r Hr].
  - rewrite skipn_length. lia.
  - exists r. rewrite nth_error_skipn in Hr.
    replace (N.to_nat k) with (N.to_nat curr + N.to_nat (k - curr))%nat by lia. exact Hr.
Qed.

Lemma slot_at_lt {T} (v : list (option T)) i s : slot_at v i = Some s -> i < lenN v.
Proof.
  unfold slot_at, lenN. intros H. assert (nth_error v (N.to_nat i) <> None) as Hn by congruence.
  apply nth_error_Some in Hn. lia.
Qed.

Lemma slot_at_app_last {T} (v : list (option T)) x : slot_at (v ++ [x]) (lenN v) = Some x.
Proof.
  unfold slot_at, lenN. rewrite Nat2N.id. rewrite nth_error_app2 by lia.
  replace (length v - length v)%nat with O by lia. reflexivity.
Qed.

Lemma slot_at_app_other {T} (v : list (option T)) x i :
  i <> lenN v -> slot_at (v ++ [x]) i = slot_at v i.
Proof.
  unfold slot_at, lenN. intros H.
  destruct (Nat.lt_ge_cases (N.to_nat i) (length v)) as [Hlt|Hge].
  - apply nth_error_app1; exact Hlt.
  - assert (length v < N.to_nat i)%nat as Hgt by lia.
    transitivity (@None (option T)).
    + apply nth_error_None. rewrite app_length. cbn. lia.
    + symmetry. apply nth_error_None. lia.
Qed.

Lemma slot_at_set_eq {T} (v : list (option T)) i x v' :
  set_nth v (N.to_nat i) x = Some v' -> slot_at v' i = Some x.
Proof. unfold slot_at. apply set_nth_eq. Qed.

Lemma slot_at_set_neq {T} (v : list (option T)) i x v' j :
  set_nth v (N.to_nat i) x = Some v' -> j <> i -> slot_at v' j = slot_at v j.
Proof. unfold slot_at. intros H Hne. eapply set_nth_neq; eauto. lia. Qed.

Lemma lenN_set {T} (v : list (option T)) n x v' : set_nth v n x = Some v' -> lenN v' = lenN v.
Proof. unfold lenN. intros H. apply set_nth_length in H. lia. Qed.

Lemma lenN_app1 {T} (v : list (option T)) x : lenN (v ++ [x]) = lenN v + 1.
Proof. unfold lenN. rewrite app_length. cbn. lia. Qed.

(* ----------------------------------------------------------- step lemmas *)

Definition upd {T} (m : N -> option T) (i : N) (r : T) : N -> option T :=
  fun j => if j =? i then Some r else m j.
Definition clr {T} (m : N -> option T) (i : N) : N -> option T :=
  fun j => if j =? i then None else m j.
Definition a_empty {T} : N -> option T := fun _ => None.

Lemma q_inv_new {T} : q_inv (@q_new T).
Proof.
  unfold q_inv, q_new, lenN. cbn. repeat split; try lia; intros i Hi; lia.
Qed.

(* insert: never panics under the invariant; full exactly at 32768 live
   requests; otherwise hands out an index below 65536 whose slot was empty,
   stores the request there and leaves every other slot alone *)
Lemma insert_spec {T} (q : queries T) (r : T) :
  q_inv q ->
  (32768 <= q_count q /\ q_insert q r = Ok (q, None)) \/
  (q_count q < 32768 /\ exists q' idx,
     q_insert q r = Ok (q', Some idx) /\ q_inv q' /\ idx < 65536 /\
     q_get q idx = None /\
     (forall j, q_get q' j = upd (q_get q) idx r j) /\
     q_count q' = q_count q + 1 /\
     (* an append happens only while the vector is shorter than 2*count <= 65534 *)
     (lenN (q_vec q') = lenN (q_vec q) \/
      (lenN (q_vec q') = lenN (q_vec q) + 1 /\ idx = lenN (q_vec q) /\
       (lenN (q_vec q) < 2 * q_count q \/ lenN (q_vec q) = 0)))).
Proof.
  intros (Hc & Hcl & Hbelow & Hlen).
  unfold q_insert. cbv [ins_full].
  destruct (N.ltb_spec 65535 (2 * q_count q)) as [Hfull|Hnf].
  { left. split; [lia|reflexivity]. }
  right. split; [lia|].
  cbv [ins_scan ins_scan_from_curr ins_count_inc ins_bump ins_curr_inc idx_limit].
  destruct (N.leb_spec (2 * q_count q) (lenN (q_vec q))) as [Hscan|Hnoscan].
  - destruct (scan_from (q_curr q) (q_vec q)) as [idx|] eqn:Escan.
    + (* reuse an empty slot *)
      apply scan_from_some in Escan. destruct Escan as (Hge & Hslot & Hbetween).
      pose proof (slot_at_lt _ _ _ Hslot) as Hidx.
      destruct (set_nth_some (q_vec q) (N.to_nat idx) (Some r)) as [v' Ev']; [unfold lenN in Hidx; lia|].
      rewrite Ev'. rewrite (slot_at_set_eq _ _ _ _ Ev').
      destruct (N.ltb_spec idx 65536) as [_|Hbad]; [|lia].
      eexists _, idx. split; [reflexivity|].
      assert (Hget : forall j, q_get (mkQ (q_count q + 1) (if idx =? q_curr q then q_curr q + 1 else q_curr q) v') j
                               = upd (q_get q) idx r j).
      { intros j. unfold q_get, upd. cbn [q_vec].
        destruct (N.eqb_spec j idx) as [->|Hne].
        - rewrite (slot_at_set_eq _ _ _ _ Ev'). reflexivity.
        - rewrite (slot_at_set_neq _ _ _ _ j Ev' Hne). reflexivity. }
      split; [|split; [lia|split; [|split; [exact Hget|split; [reflexivity|left; cbn [q_vec]; eapply lenN_set; eauto]]]]].
      * unfold q_inv. cbn [q_count q_curr q_vec]. rewrite (lenN_set _ _ _ _ Ev').
        pose proof (count_some_set _ _ _ _ _ Ev' Hslot) as Hcs. cbn [is_some] in Hcs.
        split; [lia|]. split; [destruct (N.eqb_spec idx (q_curr q)); lia|].
        split; [|lia].
        intros i Hi. destruct (N.eq_dec i idx) as [->|Hne].
        -- exists r. apply (slot_at_set_eq _ _ _ _ Ev').
        -- rewrite (slot_at_set_neq _ _ _ _ i Ev' Hne).
           destruct (N.eqb_spec idx (q_curr q)) as [He|He].
           ++ apply Hbelow. lia.
           ++ apply Hbelow. exact Hi.
      * unfold q_get. rewrite Hslot. reflexivity.
    + (* nothing free from curr on: the vector must be empty *)
      pose proof (scan_from_none _ _ Escan) as Hall.
      assert (Hfullv : count_some (q_vec q) = lenN (q_vec q)).
      { apply all_some_count. intros n Hn.
        destruct (N.lt_ge_cases (N.of_nat n) (q_curr q)) as [Hl|Hg].
        - destruct (Hbelow _ Hl) as [x Hx]. exists x. unfold slot_at in Hx. rewrite Nat2N.id in Hx. exact Hx.
        - destruct (Hall (N.of_nat n)) as [x Hx]; [unfold lenN; lia|]. exists x.
          unfold slot_at in Hx. rewrite Nat2N.id in Hx. exact Hx. }
      assert (Hlen0 : lenN (q_vec q) = 0) by lia.
      rewrite slot_at_app_last.
      destruct (N.ltb_spec (lenN (q_vec q)) 65536) as [_|Hbad]; [|lia].
      eexists _, (lenN (q_vec q)). split; [reflexivity|].
      assert (Hget : forall j, q_get (mkQ (q_count q + 1)
                 (if lenN (q_vec q) =? q_curr q then q_curr q + 1 else q_curr q) (q_vec q ++ [Some r])) j
                               = upd (q_get q) (lenN (q_vec q)) r j).
      { intros j. unfold q_get, upd. cbn [q_vec].
        destruct (N.eqb_spec j (lenN (q_vec q))) as [->|Hne].
        - rewrite slot_at_app_last. reflexivity.
        - rewrite (slot_at_app_other _ _ _ Hne). reflexivity. }
      split; [|split; [lia|split; [|split; [exact Hget|split; [reflexivity|right; cbn [q_vec]; rewrite lenN_app1; lia]]]]].
      * unfold q_inv. cbn [q_count q_curr q_vec]. rewrite lenN_app1, count_some_app. cbn [count_some].
        split; [lia|]. split; [destruct (N.eqb_spec (lenN (q_vec q)) (q_curr q)); lia|].
        split; [|lia].
        intros i Hi. destruct (N.eq_dec i (lenN (q_vec q))) as [->|Hne].
        -- exists r. apply slot_at_app_last.
        -- rewrite (slot_at_app_other _ _ _ Hne). apply Hbelow.
           destruct (N.eqb_spec (lenN (q_vec q)) (q_curr q)); lia.
      * unfold q_get. destruct (slot_at (q_vec q) (lenN (q_vec q))) as [s|] eqn:Es; [|reflexivity].
        apply slot_at_lt in Es. lia.
  - (* append: len < 2 * count <= 65534 *)
    rewrite slot_at_app_last.
    destruct (N.ltb_spec (lenN (q_vec q)) 65536) as [_|Hbad]; [|lia].
    eexists _, (lenN (q_vec q)). split; [reflexivity|].
    assert (Hget : forall j, q_get (mkQ (q_count q + 1)
               (if lenN (q_vec q) =? q_curr q then q_curr q + 1 else q_curr q) (q_vec q ++ [Some r])) j
                             = upd (q_get q) (lenN (q_vec q)) r j).
    { intros j. unfold q_get, upd. cbn [q_vec].
      destruct (N.eqb_spec j (lenN (q_vec q))) as [->|Hne].
      - rewrite slot_at_app_last. reflexivity.
      - rewrite (slot_at_app_other _ _ _ Hne). reflexivity. }
    split; [|split; [lia|split; [|split; [exact Hget|split; [reflexivity|right; cbn [q_vec]; rewrite lenN_app1; lia]]]]].
    + unfold q_inv. cbn [q_count q_curr q_vec]. rewrite lenN_app1, count_some_app. cbn [count_some].
      split; [lia|]. split; [destruct (N.eqb_spec (lenN (q_vec q)) (q_curr q)); lia|].
      split; [|lia].
      intros i Hi. destruct (N.eq_dec i (lenN (q_vec q))) as [->|Hne].
      * exists r. apply slot_at_app_last.
      * rewrite (slot_at_app_other _ _ _ Hne). apply Hbelow.
        destruct (N.eqb_spec (lenN (q_vec q)) (q_curr q)); lia.
    + unfold q_get. destruct (slot_at (q_vec q) (lenN (q_vec q))) as [s|] eqn:Es; [|reflexivity].
      apply slot_at_lt in Es. lia.
Qed.

Lemma remove_spec {T} (q : queries T) (i : N) :
  q_inv q ->
  exists q', q_try_remove q i = (q', q_get q i) /\ q_inv q' /\
    (forall j, q_get q' j = clr (q_get q) i j) /\
    q_count q' = q_count q - is_some (q_get q i).
Proof.
  intros (Hc & Hcl & Hbelow & Hlen).
  unfold q_try_remove, q_get at 1 4. cbv [rem_count_dec rem_curr].
  destruct (slot_at (q_vec q) i) as [[r|]|] eqn:Es.
  - pose proof (slot_at_lt _ _ _ Es) as Hi.
    destruct (set_nth_some (q_vec q) (N.to_nat i) (@None T)) as [v' Ev']; [unfold lenN in Hi; lia|].
    rewrite Ev'. eexists. split; [reflexivity|].
    pose proof (count_some_set _ _ _ _ _ Ev' Es) as Hcs. cbn [is_some] in Hcs.
    split; [|split].
    + unfold q_inv. cbn [q_count q_curr q_vec]. rewrite (lenN_set _ _ _ _ Ev').
      split; [lia|]. split; [lia|]. split; [|lia].
      intros j Hj. rewrite (slot_at_set_neq _ _ _ _ j Ev') by lia. apply Hbelow. lia.
    + intros j. unfold q_get, clr. cbn [q_vec]. destruct (N.eqb_spec j i) as [->|Hne].
      * rewrite (slot_at_set_eq _ _ _ _ Ev'). reflexivity.
      * rewrite (slot_at_set_neq _ _ _ _ j Ev' Hne). reflexivity.
    + cbn [q_count is_some]. reflexivity.
  - exists q. split; [reflexivity|]. split; [unfold q_inv; auto|]. split.
    + intros j. unfold clr, q_get. destruct (N.eqb_spec j i) as [->|]; [rewrite Es|]; reflexivity.
    + cbn [is_some]. lia.
  - exists q. split; [reflexivity|]. split; [unfold q_inv; auto|]. split.
    + intros j. unfold clr, q_get. destruct (N.eqb_spec j i) as [->|]; [rewrite Es|]; reflexivity.
    + cbn [is_some]. lia.
Qed.

Lemma insert_at_spec {T} (q : queries T) (i : N) (r : T) :
  q_inv q -> slot_at (q_vec q) i = Some None ->
  exists q', q_insert_at q i r = Ok q' /\ q_inv q' /\
    (forall j, q_get q' j = upd (q_get q) i r j) /\ q_count q' = q_count q + 1.
Proof.
  intros (Hc & Hcl & Hbelow & Hlen) Es.
  unfold q_insert_at. cbv [insat_count_inc insat_bump insat_curr_inc].
  pose proof (slot_at_lt _ _ _ Es) as Hi.
  destruct (set_nth_some (q_vec q) (N.to_nat i) (Some r)) as [v' Ev']; [unfold lenN in Hi; lia|].
  rewrite Ev'. eexists. split; [reflexivity|].
  pose proof (count_some_set _ _ _ _ _ Ev' Es) as Hcs. cbn [is_some] in Hcs.
  assert (Hcurr : q_curr q <= i).
  { destruct (N.le_gt_cases (q_curr q) i) as [|Hlt]; [assumption|].
    destruct (Hbelow _ Hlt) as [x Hx]. congruence. }
  split; [|split].
  - unfold q_inv. cbn [q_count q_curr q_vec]. rewrite (lenN_set _ _ _ _ Ev').
    split; [lia|]. split; [destruct (N.eqb_spec i (q_curr q)); lia|]. split; [|lia].
    intros j Hj. destruct (N.eq_dec j i) as [->|Hne].
    + exists r. apply (slot_at_set_eq _ _ _ _ Ev').
    + rewrite (slot_at_set_neq _ _ _ _ j Ev' Hne). apply Hbelow.
      destruct (N.eqb_spec i (q_curr q)); lia.
  - intros j. unfold q_get, upd. cbn [q_vec]. destruct (N.eqb_spec j i) as [->|Hne].
    + rewrite (slot_at_set_eq _ _ _ _ Ev'). reflexivity.
    + rewrite (slot_at_set_neq _ _ _ _ j Ev' Hne). reflexivity.
  - reflexivity.
Qed.
