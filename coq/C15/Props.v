(* C15 -- property theorems only.  Proofs live in C15/Proofs*.v. *)
From Coq Require Import NArith List.
From DV Require Import Base.Outcome C15.Gen C15.Model C15.Proofs C15.ProofsSeq C15.ProofsNet C15.ProofsDemux C15.ProofsXfr C15.ProofsConn C15.ProofsWide.
Import ListNotations.
Local Open Scope N_scope.

Theorem C15_queries_refine_map : forall (T : Type) (ops : list (qop T)),
  q_legal ops ->
  exists q tr, q_run ops = Ok (q, tr) /\ q_inv q /\
    a_trace_ok a_empty ops tr /\ (forall i, q_get q i = a_final a_empty ops tr i).
Proof. exact @queries_refine_map. Qed.
Print Assumptions C15_queries_refine_map.

Theorem C15_no_id_reuse_while_live : forall (T : Type) (ops1 ops2 ops3 : list (qop T)) tr1 tr2 tr3 r1 r2 idx q,
  q_legal (ops1 ++ OIns r1 :: ops2 ++ OIns r2 :: ops3) ->
  q_run (ops1 ++ OIns r1 :: ops2 ++ OIns r2 :: ops3) =
    Ok (q, tr1 ++ RIns (Some idx) :: tr2 ++ RIns (Some idx) :: tr3) ->
  length tr1 = length ops1 -> length tr2 = length ops2 ->
  (forall i r', In (OInsAt i r') ops2 -> i <> idx) ->
  exists o, In o ops2 /\ clears idx o.
Proof. exact @no_id_reuse_while_live. Qed.
Print Assumptions C15_no_id_reuse_while_live.

Theorem C15_remove_returns_inserted : forall (T : Type) (ops1 ops2 ops3 : list (qop T)) tr1 tr2 tr3 r idx res q,
  q_legal (ops1 ++ OIns r :: ops2 ++ ORem idx :: ops3) ->
  q_run (ops1 ++ OIns r :: ops2 ++ ORem idx :: ops3) =
    Ok (q, tr1 ++ RIns (Some idx) :: tr2 ++ RRem res :: tr3) ->
  length tr1 = length ops1 -> length tr2 = length ops2 ->
  (forall o, In o ops2 -> ~ clears idx o) ->
  (forall i r', In (OInsAt i r') ops2 -> i <> idx) ->
  res = Some r.
Proof. exact @remove_returns_inserted. Qed.
Print Assumptions C15_remove_returns_inserted.

Theorem C15_insert_full_iff : forall (T : Type) (q : queries T) r,
  q_inv q -> (exists q', q_insert q r = Ok (q', None)) <-> 32768 <= q_count q.
Proof. exact @insert_full_iff. Qed.
Print Assumptions C15_insert_full_iff.

Theorem C15_is_answer_sound : forall (r : req) (a : msg), is_answer r a = true -> answers r a.
Proof. exact is_answer_sound. Qed.
Print Assumptions C15_is_answer_sound.

Theorem C15_is_answer_complete : forall (r : req) (a : msg), msg_wf a -> answers r a -> is_answer r a = true.
Proof. exact is_answer_complete. Qed.
Print Assumptions C15_is_answer_complete.

Theorem C15_demux_sound : forall cs idle (evs : list sevent) s c m,
  distinct_callers evs -> s_run cs idle evs = Ok s ->
  In (c, false, DAnswer m) (st_log s) ->
  exists qs, In (c, m_id m, qs) (st_sent s) /\ answers (mkReq (m_id m) qs) m /\
    (forall i' qs', In (c, i', qs') (st_sent s) -> i' = m_id m /\ qs' = qs).
Proof. exact demux_sound. Qed.
Print Assumptions C15_demux_sound.

Theorem C15_exactly_once : forall cs idle (evs : list sevent),
  distinct_callers evs ->
  exists s, s_run cs idle evs = Ok s /\
    forall c, pending c (st_q s) + tcount c (st_log s) = inb c (submitted evs).
Proof. exact exactly_once. Qed.
Print Assumptions C15_exactly_once.

Theorem C15_down_completes_all : forall cs idle (evs : list sevent) s,
  distinct_callers evs -> s_run cs idle evs = Ok s -> st_conn s <> COpen ->
  forall c, tcount c (st_log s) = inb c (submitted evs).
Proof. exact down_completes_all. Qed.
Print Assumptions C15_down_completes_all.

Theorem C15_dgram_sound : forall (retries T : N) (qs : list N) (atts : list attempt) k t m s,
  dgram_run retries T qs atts = (DOk k t m, s) ->
  exists a, nth_error atts (N.to_nat k) = Some a /\
    answers (mkReq (a_id a) qs) m /\
    (exists off, In (off, PMsg m) (a_pkts a) /\ off <= T).
Proof. exact dgram_sound. Qed.
Print Assumptions C15_dgram_sound.

Theorem C15_dgram_terminates_within : forall (retries T : N) (qs : list N) (atts : list attempt) res s,
  dgram_run retries T qs atts = (res, s) ->
  s <= 1 + retries /\
  match res with
  | DOk _ t _ => t <= (1 + retries) * T
  | DErr e t => t <= (1 + retries) * T /\ (e = 4 -> t = (1 + retries) * T /\ s = 1 + retries)
  end.
Proof. exact dgram_terminates_within. Qed.
Print Assumptions C15_dgram_terminates_within.

Theorem C15_dgram_retries_on_timeout : forall (retries T : N) (qs : list N) a rest,
  a_fault a = FNone ->
  recv_loop T (mkReq (a_id a) qs) 0 (a_pkts a) = RTimeout ->
  dgram_run retries T qs (a :: rest) = dgram_loop T qs (N.to_nat retries) 1 T 1 rest.
Proof. exact dgram_retries_on_timeout. Qed.
Print Assumptions C15_dgram_retries_on_timeout.

Theorem C15_tc_falls_back : forall (m : msg) (tcp : tres),
  m_tc m = true -> ds_result (TOk m) tcp = (tcp, true).
Proof. exact tc_falls_back. Qed.
Print Assumptions C15_tc_falls_back.

Theorem C15_tc_never_from_datagram : forall (udp tcp : tres) (m : msg),
  ds_result udp tcp = (TOk m, false) -> udp = TOk m /\ m_tc m = false.
Proof. exact tc_never_from_datagram. Qed.
Print Assumptions C15_tc_never_from_datagram.

(* stream::Config::set_response_timeout: respected exactly when the setter
   assigns the field Transport::run reads for single-response requests (T1
   item set_rt_assigns_single); refuted for the code where it does not *)
Theorem C15_response_timeout_respected_if_assigned :
  set_rt_assigns_single = true -> response_timeout_respected.
Proof. exact response_timeout_respected_if_assigned. Qed.
Print Assumptions C15_response_timeout_respected_if_assigned.

Theorem C15_response_timeout_refuted :
  set_rt_assigns_single = false ->
  effective_timeout (set_response_timeout scfg_default 60) false = 19000 /\ ~ response_timeout_respected.
Proof. exact response_timeout_refuted. Qed.
Print Assumptions C15_response_timeout_refuted.

(* the table the driver starts capacity cases from is the one the inserts produce *)
Theorem C15_fill_state : forall (vals : list N),
  lenN vals <= 32768 -> exists tr, q_run (map OIns vals) = Ok (c15_prefill vals, tr).
Proof. exact fill_state_run. Qed.
Print Assumptions C15_fill_state.

(* unsolicited replies and the read timeout: respected exactly when demux_reply
   resets the timer only after the ID lookup succeeded (T1 item
   timer_reset_requires_known_id); refuted for the code where it does not *)
Theorem C15_junk_keeps_deadline_if_known_only :
  timer_reset_requires_known_id = true -> junk_keeps_deadline.
Proof. exact junk_keeps_deadline_if_known_only. Qed.
Print Assumptions C15_junk_keeps_deadline_if_known_only.

Theorem C15_junk_extends_deadline_refuted :
  timer_reset_requires_known_id = false ->
  junk_deadline 60 0 [20; 40; 60; 80; 100; 120; 140; 160; 180; 200] = 260 /\ ~ junk_keeps_deadline.
Proof. exact junk_extends_deadline_refuted. Qed.
Print Assumptions C15_junk_extends_deadline_refuted.

(* Transport::insert_req arms the response timer only when none is running: a
   stream of new requests cannot keep an older one waiting past its deadline *)
Theorem C15_new_requests_keep_deadline : forall timeout start arrivals,
  req_deadline timeout start arrivals = start + timeout.
Proof. exact new_requests_keep_deadline. Qed.
Print Assumptions C15_new_requests_keep_deadline.

Theorem C15_response_timeout_respected : response_timeout_respected.
Proof. exact response_timeout_respected_now. Qed.
Print Assumptions C15_response_timeout_respected.

Theorem C15_junk_keeps_deadline : junk_keeps_deadline.
Proof. exact junk_keeps_deadline_now. Qed.
Print Assumptions C15_junk_keeps_deadline.

(* ---- multi-response (XFR) streams ---- *)
Theorem C15_is_answer_multi_sound : forall axfr r a,
  is_answer_multi axfr r a = true -> answers_multi axfr r a.
Proof. exact is_answer_multi_sound. Qed.
Print Assumptions C15_is_answer_multi_sound.

Theorem C15_xfr_first_response_sound : forall e a eof x,
  e_xfr e = XAxfrInit \/ e_xfr e = XIxfrInit ->
  check_stream_m e a = (eof, x, true) ->
  answers_multi (e_axfr e) (mkReq (m_id a) (e_qs e)) a.
Proof. exact cs_first_response_sound. Qed.
Print Assumptions C15_xfr_first_response_sound.

Theorem C15_xfr_error_sticky : forall e a,
  e_xfr e = XError \/ e_xfr e = XDone -> check_stream_m e a = (false, XError, false).
Proof. exact cs_error_sticky. Qed.
Print Assumptions C15_xfr_error_sticky.

Theorem C15_axfr_single_message_complete : forall e a s others,
  e_xfr e = XAxfrInit -> m_rcode a = 0 ->
  is_answer_multi (e_axfr e) (mkReq (m_id a) (e_qs e)) a = true ->
  Forall (fun o => o = Some ROther) others ->
  m_ans a = Some (Some (RSoa s) :: others ++ [Some (RSoa s)]) ->
  check_stream_m e a = (true, XDone, true).
Proof. exact axfr_single_message_complete. Qed.
Print Assumptions C15_axfr_single_message_complete.

Theorem C15_multi_element_once : forall cs s m s' e,
  q_inv (st_q s) -> st_conn s = COpen ->
  q_get (st_q s) (m_id m) = Some e -> e_multi e = true ->
  s_step cs s (EReply m) = Ok s' ->
  (forall c, elems c (st_log s') = elems c (st_log s) + (if e_caller e =? c then 1 else 0)) /\
  (fst (fst (cs e m)) = false ->
     exists e', q_get (st_q s') (m_id m) = Some e' /\ e_caller e' = e_caller e /\ e_qs e' = e_qs e /\
                e_xfr e' = snd (fst (cs e m))) /\
  (fst (fst (cs e m)) = true -> q_get (st_q s') (m_id m) = None).
Proof. exact multi_element_once. Qed.
Print Assumptions C15_multi_element_once.

(* ---- idle timeout, edns-tcp-keepalive, pinned constants ---- *)
Theorem C15_idle_closes_iff : forall resp idle since now,
  run_tick resp idle (TIdle since) now = TIdleTimeout <-> idle <= now - since.
Proof. exact idle_closes_iff. Qed.
Print Assumptions C15_idle_closes_iff.

Theorem C15_idle_closes_after_sleep : forall resp idle since now,
  since <= now ->
  run_tick resp idle (TIdle since) (now + run_sleep resp idle (TIdle since) now) = TIdleTimeout.
Proof. exact idle_closes_after_sleep. Qed.
Print Assumptions C15_idle_closes_after_sleep.

Theorem C15_response_timeout_fires_iff : forall resp idle start now,
  run_tick resp idle (TActive (Some start)) now = TReadTimeout <-> resp < now - start.
Proof. exact response_timeout_fires_iff. Qed.
Print Assumptions C15_response_timeout_fires_iff.

Theorem C15_keepalive_spec : forall idle v now,
  keepalive_idle idle None = idle /\ keepalive_idle idle (Some None) = idle /\
  keepalive_idle idle (Some (Some v)) = 100 * v /\
  (go_idle (keepalive_idle idle (Some (Some v))) now = TIdleTimeout <-> v = 0).
Proof. exact keepalive_spec. Qed.
Print Assumptions C15_keepalive_spec.

Theorem C15_keepalive_idle_zero_consistent : forall iz idle ka,
  iz = (idle =? 0) -> keepalive_idle_zero iz ka = (keepalive_idle idle ka =? 0).
Proof. exact keepalive_idle_zero_consistent. Qed.
Print Assumptions C15_keepalive_idle_zero_consistent.

Theorem C15_recv_loop_at_deadline : forall T r pkts, recv_loop T r T pkts = RTimeout.
Proof. exact recv_loop_at_deadline. Qed.
Print Assumptions C15_recv_loop_at_deadline.

Theorem C15_constants_pinned :
  dgram_attempts dgram_retries_max <= 255 /\ dgram_retries_default <= dgram_retries_max /\
  dgram_attempts dgram_retries_default * dgram_timeout_default_ms = 30000 /\
  dgram_attempts dgram_retries_max * dgram_timeout_max_ms = 6060000 /\
  0 < dgram_timeout_min_ms /\
  (forall T, dgram_loop_cond T T = false /\ dgram_loop_cond (T + 1) T = true) /\
  stream_timeout_default_ms = 19000 /\ stream_limit 0 = 1 /\ stream_limit 1000000000 = 600000 /\
  (forall t, stream_timeout_min_ms <= stream_limit t <= stream_timeout_max_ms) /\
  idle_timeout_default_ms = 10000 /\ idle_timeout_max_ms = 3600000 /\
  idle_timeout_default_ms <= idle_timeout_max_ms /\ idx_limit = 65536.
Proof. exact constants_pinned. Qed.
Print Assumptions C15_constants_pinned.

Theorem C15_idle_keepalive_zero_closes : forall cs s m,
  q_inv (st_q s) -> st_conn s = COpen -> st_idle s = true ->
  q_get (st_q s) (m_id m) = None -> m_ka m = Some (Some 0) ->
  exists s', s_step cs s (EReply m) = Ok s' /\ st_conn s' = CDown 10 /\ st_log s' = st_log s.
Proof. exact idle_keepalive_zero_closes. Qed.
Print Assumptions C15_idle_keepalive_zero_closes.

(* ---- multi_stream connection management ---- *)
Theorem C15_ms_backoff_respected : forall s opt_id now retries timer timeout,
  ms_conn s = MErr retries timer timeout -> now - timer < timeout ->
  ms_newconn s opt_id now = (s, MReplyErr).
Proof. exact ms_backoff_respected. Qed.
Print Assumptions C15_ms_backoff_respected.

Theorem C15_ms_reuse : forall s c opt_id now,
  ms_conn s = MSome c -> (forall id, opt_id = Some id -> id < ms_id s) ->
  ms_newconn s opt_id now = (s, MReplyOk (ms_id s) c).
Proof. exact ms_reuse. Qed.
Print Assumptions C15_ms_reuse.

Theorem C15_ms_stale_reconnects : forall s c id now,
  ms_conn s = MSome c -> ms_id s <= id ->
  ms_newconn s (Some id) now = (mkMs MNone (ms_id s + 1), MConnect).
Proof. exact ms_stale_reconnects. Qed.
Print Assumptions C15_ms_stale_reconnects.

Theorem C15_ms_connect_no_panic : forall s opt_id now s1 res t backoff,
  ms_newconn s opt_id now = (s1, MConnect) ->
  exists s2 rep, ms_connected s1 res t backoff = Ok (s2, rep) /\
    match res with
    | Some c => rep = MReplyOk (ms_id s1) c /\ ms_conn s2 = MSome c
    | None => rep = MReplyErr /\ exists r, ms_conn s2 = MErr r t backoff
    end.
Proof. exact ms_connect_no_panic. Qed.
Print Assumptions C15_ms_connect_no_panic.

Theorem C15_ms_retry_cap_values :
  ms_retry_cap_ms 0 = 1000 /\ ms_retry_cap_ms 1 = 2000 /\ ms_retry_cap_ms 6 = 64000 /\
  ms_retry_cap_ms 7 = 60000 /\ (forall r, 6 < r -> ms_retry_cap_ms r = 60000).
Proof. exact ms_retry_cap_values. Qed.
Print Assumptions C15_ms_retry_cap_values.

(* ---- redundant: the result handed to the caller ---- *)
Theorem C15_red_step_ok : forall defer_err n s ev, r_ok n s ->
  match r_step defer_err n s ev with
  | Ok (inl s') => r_ok n s'
  | Ok (inr fin) => r_final_ok defer_err s ev fin
  | _ => False
  end.
Proof. exact r_step_ok. Qed.
Print Assumptions C15_red_step_ok.

Theorem C15_red_run_no_panic : forall defer_err n (evs : list revent), 0 < n ->
  match r_run defer_err n r_init evs with Ok _ => True | _ => False end.
Proof. exact red_run_no_panic. Qed.
Print Assumptions C15_red_run_no_panic.

(* ---- multi_stream: one response-timeout budget per request ---- *)
Theorem C15_ms_request_budget : forall T atts delays, mres_time (c15_ms_request T atts delays) <= T.
Proof. exact ms_request_budget. Qed.
Print Assumptions C15_ms_request_budget.

Theorem C15_ms_request_within_budget : forall T (atts : list catt) start now count delays,
  start <= now <= start + T ->
  mres_time (ms_request T start now count atts delays) <= start + T.
Proof. exact ms_request_within_budget. Qed.
Print Assumptions C15_ms_request_within_budget.

Theorem C15_ms_timeout_exact : forall T (atts : list catt) start now count delays t,
  start <= now <= start + T ->
  ms_request T start now count atts delays = MErrTimeout t -> t = start + T.
Proof. exact ms_timeout_exact. Qed.
Print Assumptions C15_ms_timeout_exact.

Theorem C15_ms_awaits_pinned : ms_all_awaits_bounded = true /\ ms_immediate_retry_at = 1.
Proof. exact ms_awaits_pinned. Qed.
Print Assumptions C15_ms_awaits_pinned.

(* ---- load_balancer: locally generated answers ---- *)
Theorem C15_lb_local_answers : forall rid rqr qs has_opt,
  m_id (lb_local rid rqr qs has_opt) = rid /\
  m_qs (lb_local rid rqr qs has_opt) = Some qs /\
  m_qd (lb_local rid rqr qs has_opt) = lenN qs /\
  m_rcode (lb_local rid rqr qs has_opt) = 2.
Proof. exact lb_local_answers. Qed.
Print Assumptions C15_lb_local_answers.

Theorem C15_lb_usable_spec : forall mb b, lb_usable (Some mb, b) = true <-> b <= mb.
Proof. exact lb_usable_spec. Qed.
Print Assumptions C15_lb_usable_spec.

(* ---- idle timeout by time inside the event machine; config setter coverage ---- *)
Theorem C15_idle_tick_closes : forall cs s,
  st_conn s = COpen -> st_idle s = true ->
  exists s', s_step cs s ETick = Ok s' /\ st_conn s' = CDown 10 /\ st_log s' = st_log s /\ st_q s' = st_q s.
Proof. exact idle_tick_closes. Qed.
Print Assumptions C15_idle_tick_closes.

Theorem C15_idle_tick_ignored_when_busy : forall cs s, st_idle s = false -> s_step cs s ETick = Ok s.
Proof. exact idle_tick_ignored_when_busy. Qed.
Print Assumptions C15_idle_tick_ignored_when_busy.

Theorem C15_config_setter_covers_run : set_rt_covers_run_reads = true /\ cfg_response_timeout_fields = 3.
Proof. exact config_setter_covers_run. Qed.
Print Assumptions C15_config_setter_covers_run.

Theorem C15_stream_frame_length_fits : stream_max_message_len < 65536 /\ stream_max_message_len = 65535.
Proof. exact stream_frame_length_fits. Qed.
Print Assumptions C15_stream_frame_length_fits.

(* ---- widening round: run-level redundant / load-balancer statements ---- *)
Theorem C15_red_result_from_upstream : forall defer_err n (evs : list revent) fin,
  r_run defer_err n r_init evs = Ok (inr fin) -> r_from_upstream evs fin.
Proof. exact red_result_from_upstream. Qed.
Print Assumptions C15_red_result_from_upstream.

Theorem C15_red_waiting_has_outstanding : forall defer_err n (evs : list revent) s',
  r_run defer_err n r_init evs = Ok (inl s') -> r_out s' <> [].
Proof. exact red_waiting_outstanding_init. Qed.
Print Assumptions C15_red_waiting_has_outstanding.

Theorem C15_lb_step_spec : forall ups pick ups' o, lb_step ups pick = (ups', o) ->
  match o with
  | Some i => (i < length ups)%nat /\ lb_usable (lb_at ups i) = true /\ ups' = lb_bump ups i
  | None => ups' = ups /\ forall i, (i < length ups)%nat -> lb_usable (lb_at ups i) = false
  end.
Proof. exact lb_step_spec. Qed.
Print Assumptions C15_lb_step_spec.

Theorem C15_lb_burst_bounded : forall (picks : list nat) ups i mb b,
  nth_error ups i = Some (Some mb, b) -> b <= mb + 1 ->
  lb_given i (lb_run ups picks) + b <= mb + 1.
Proof. exact lb_burst_bounded. Qed.
Print Assumptions C15_lb_burst_bounded.
