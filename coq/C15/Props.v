(* C15 -- property theorems only.  Proofs live in C15/Proofs*.v. *)
From Coq Require Import NArith List.
From DV Require Import Base.Outcome C15.Gen C15.Model C15.Proofs C15.ProofsSeq.
Import ListNotations.
Local Open Scope N_scope.

Theorem C15_queries_refine_map : forall (T : Type) (ops : list (qop T)),
  q_legal ops ->
  exists q tr, q_run ops = Ok (q, tr) /\ q_inv q /\
    a_trace_ok a_empty ops tr /\ (forall i, q_get q i = a_final a_empty ops tr i).
Proof. exact @queries_refine_map. Qed.
Print Assumptions C15_queries_refine_map.

Theorem C15_no_id_reuse_while_live : forall (T : Type) (ops1 ops2 ops3 : list (qop T)) tr1 tr2 tr3 r1 r2 idx q,
  q_legal (ops1 ++ OIns r1 :: ops2 ++ OIns r2 :: ops3) ->
  q_run (ops1 ++ OIns r1 :: ops2 ++ OIns r2 :: ops3) =
    Ok (q, tr1 ++ RIns (Some idx) :: tr2 ++ RIns (Some idx) :: tr3) ->
  length tr1 = length ops1 -> length tr2 = length ops2 ->
  (forall i r', In (OInsAt i r') ops2 -> i <> idx) ->
  exists o, In o ops2 /\ clears idx o.
Proof. exact @no_id_reuse_while_live. Qed.
Print Assumptions C15_no_id_reuse_while_live.

Theorem C15_remove_returns_inserted : forall (T : Type) (ops1 ops2 ops3 : list (qop T)) tr1 tr2 tr3 r idx res q,
  q_legal (ops1 ++ OIns r :: ops2 ++ ORem idx :: ops3) ->
  q_run (ops1 ++ OIns r :: ops2 ++ ORem idx :: ops3) =
    Ok (q, tr1 ++ RIns (Some idx) :: tr2 ++ RRem res :: tr3) ->
  length tr1 = length ops1 -> length tr2 = length ops2 ->
  (forall o, In o ops2 -> ~ clears idx o) ->
  (forall i r', In (OInsAt i r') ops2 -> i <> idx) ->
  res = Some r.
Proof. exact @remove_returns_inserted. Qed.
Print Assumptions C15_remove_returns_inserted.

Theorem C15_insert_full_iff : forall (T : Type) (q : queries T) r,
  q_inv q -> (exists q', q_insert q r = Ok (q', None)) <-> 32768 <= q_count q.
Proof. exact @insert_full_iff. Qed.
Print Assumptions C15_insert_full_iff.
