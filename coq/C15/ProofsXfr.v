(* C15 proofs, part 5: multi-response (XFR) streams: RequestMessageMulti::is_answer,
   check_stream, one delivered element per reply. *)
From Coq Require Import NArith ZArith List Bool Lia ZifyN ZifyBool ZifyNat.
From DV Require Import Base.Outcome C15.Gen C15.Model C15.Proofs C15.ProofsNet C15.ProofsDemux.
Import ListNotations.
Local Open Scope N_scope.

(* what "answers" means for a multi-response request: as for single requests,
   plus RFC 5936 2.2: later AXFR responses may leave the question section empty *)
Definition answers_multi (axfr : bool) (r : req) (a : msg) : Prop :=
  m_qr a = true /\ m_id a = r_id r /\
  (hdr_only_error a \/ (axfr = true /\ m_qd a = 0) \/ m_qs a = Some (r_qs r)).

Lemma is_answer_multi_sound axfr r a : is_answer_multi axfr r a = true -> answers_multi axfr r a.
Proof.
  unfold is_answer_multi, answers_multi, hdr_only_error.
  cbv [isans_reject isans_hdr_only isans_qd_reject isans_q_equal multi_axfr_rule].
  destruct (m_qr a); cbn [negb orb]; [|discriminate].
  destruct (N.eqb_spec (m_id a) (r_id r)) as [Hid|]; cbn [negb]; [|discriminate].
  destruct (negb (m_rcode a =? 0) && ((m_qd a =? 0) && ((m_an a =? 0) && ((m_ns a =? 0) && (m_ar a =? 0))))) eqn:Eh.
  - intros _. split; [reflexivity|]. split; [exact Hid|]. left.
    apply andb_true_iff in Eh. destruct Eh as (H1 & Eh). apply andb_true_iff in Eh. destruct Eh as (H2 & Eh).
    apply andb_true_iff in Eh. destruct Eh as (H3 & Eh). apply andb_true_iff in Eh. destruct Eh as (H4 & H5).
    apply negb_true_iff in H1. apply N.eqb_neq in H1.
    apply N.eqb_eq in H2. apply N.eqb_eq in H3. apply N.eqb_eq in H4. apply N.eqb_eq in H5. auto 6.
  - destruct (axfr && (m_qd a =? 0)) eqn:Ea.
    + intros _. apply andb_true_iff in Ea. destruct Ea as (-> & Eq). apply N.eqb_eq in Eq.
      split; [reflexivity|]. split; [exact Hid|]. right. left. split; [reflexivity|exact Eq].
    + destruct (N.eqb_spec (m_qd a) (lenN (r_qs r))); cbn [negb]; [|discriminate].
      destruct (m_qs a) as [qs|]; [|discriminate]. intros H. apply list_eqb_spec in H. subst.
      split; [reflexivity|]. split; [exact Hid|]. right. right. reflexivity.
Qed.

(* Error and Done are absorbing: nothing is accepted any more *)
Lemma cs_error_sticky e a :
  e_xfr e = XError \/ e_xfr e = XDone -> check_stream_m e a = (false, XError, false).
Proof. intros [H|H]; unfold check_stream_m; rewrite H; reflexivity. Qed.

(* the first response of a transfer is only accepted when it answers the request *)
Lemma cs_first_response_sound e a eof x :
  e_xfr e = XAxfrInit \/ e_xfr e = XIxfrInit ->
  check_stream_m e a = (eof, x, true) ->
  answers_multi (e_axfr e) (mkReq (m_id a) (e_qs e)) a.
Proof.
  intros Hinit H. apply is_answer_multi_sound.
  destruct (is_answer_multi (e_axfr e) (mkReq (m_id a) (e_qs e)) a) eqn:E; [reflexivity|].
  unfold check_stream_m in H. rewrite E in H. destruct Hinit as [Hi|Hi]; rewrite Hi in H; cbn [negb] in H; discriminate.
Qed.

(* a complete AXFR in one message: SOA, records that are not SOA, the same SOA *)
Lemma xfr_records_others s (others : list (option rr)) rest :
  Forall (fun o => o = Some ROther) others ->
  xfr_records (XAxfrFirstSoa s) (others ++ rest) = xfr_records (XAxfrFirstSoa s) rest.
Proof. induction 1 as [|o l Ho _ IH]; [reflexivity|]. subst o. cbn [app xfr_records]. exact IH. Qed.

Lemma axfr_single_message_complete e a s others :
  e_xfr e = XAxfrInit -> m_rcode a = 0 ->
  is_answer_multi (e_axfr e) (mkReq (m_id a) (e_qs e)) a = true ->
  Forall (fun o => o = Some ROther) others ->
  m_ans a = Some (Some (RSoa s) :: others ++ [Some (RSoa s)]) ->
  check_stream_m e a = (true, XDone, true).
Proof.
  intros Hx Hrc Ha Ho Hans. unfold check_stream_m. rewrite Hx, Ha, Hrc, Hans. cbn [negb N.eqb].
  cbn [xfr_records]. rewrite (xfr_records_others s others _ Ho). cbn [xfr_records]. rewrite N.eqb_refl. reflexivity.
Qed.

(* a record after the closing SOA, or a different closing serial, ends in Error
   without being handed on as an answer *)
Example ex_axfr_bad_serial :
  check_stream_m (mkEntry 0 [5] true XAxfrInit true)
    (mkMsg 3 true false 0 1 2 0 0 (Some [5]) (Some [Some (RSoa 1); Some (RSoa 2)]) None) = (false, XError, false).
Proof. vm_compute. reflexivity. Qed.

Example ex_ixfr :
  check_stream_m (mkEntry 0 [5] true XIxfrInit false)
    (mkMsg 3 true false 0 1 5 0 0 (Some [5])
       (Some [Some (RSoa 3); Some (RSoa 1); Some ROther; Some (RSoa 3); Some ROther]) None) = (false, XIxfrSecondDiffSoa 3, true) /\
  check_stream_m (mkEntry 0 [5] true (XIxfrSecondDiffSoa 3) false)
    (mkMsg 3 true false 0 1 1 0 0 (Some [5]) (Some [Some (RSoa 3)]) None) = (true, XDone, true).
Proof. vm_compute. auto. Qed.

(* ---- one stream element per reply ---- *)
Fixpoint elems (c : N) (log : list (N * bool * dlv)) : N :=
  match log with
  | [] => 0
  | (c', mu, d) :: r =>
      (if (c' =? c) && mu && (match d with DAnswer _ | DWrong => true | _ => false end) then 1 else 0) + elems c r
  end.

Lemma elems_app c l1 l2 : elems c (l1 ++ l2) = elems c l1 + elems c l2.
Proof. induction l1 as [|[[c' mu] d] r IH]; cbn [elems app]; lia. Qed.

(* a reply whose ID finds a pending multi-response request hands exactly one
   element (the message or WrongReplyForQuery) to that request's caller and
   nothing to anybody else; the entry stays under the same ID unless the
   stream ended *)
Theorem multi_element_once cs s m s' e :
  q_inv (st_q s) -> st_conn s = COpen ->
  q_get (st_q s) (m_id m) = Some e -> e_multi e = true ->
  s_step cs s (EReply m) = Ok s' ->
  (forall c, elems c (st_log s') = elems c (st_log s) + (if e_caller e =? c then 1 else 0)) /\
  (fst (fst (cs e m)) = false ->
     exists e', q_get (st_q s') (m_id m) = Some e' /\ e_caller e' = e_caller e /\ e_qs e' = e_qs e /\
                e_xfr e' = snd (fst (cs e m))) /\
  (fst (fst (cs e m)) = true -> q_get (st_q s') (m_id m) = None).
Proof.
  intros Hq Hc Hg Hmu H. cbn [s_step] in H. rewrite Hc in H.
  pose proof (remove_shape (st_q s) (m_id m)) as Hrem.
  destruct (remove_spec (st_q s) (m_id m) Hq) as (q' & Er & Hq' & Hget' & _). rewrite Er in Hrem, H. rewrite Hg in Hrem, H.
  destruct Hrem as (_ & _ & Hnone). rewrite Hmu in H.
  destruct (cs e m) as [[eof x] isans]. cbn [fst snd]. destruct eof.
  - inversion H; subst s'. cbn [st_log st_q]. split; [|split; [discriminate|]].
    + intros c. rewrite !elems_app. cbn [elems]. rewrite !andb_true_r, andb_false_r.
      destruct (e_caller e =? c); destruct isans; cbn; lia.
    + intros _. rewrite Hget'. unfold clr. rewrite N.eqb_refl. reflexivity.
  - destruct (insert_at_spec q' (m_id m) (mkEntry (e_caller e) (e_qs e) true x (e_axfr e)) Hq' Hnone) as (q'' & Ei & _ & Hget'' & _).
    rewrite Ei in H. cbn [bind] in H. inversion H; subst s'. cbn [st_log st_q]. split; [|split; [|discriminate]].
    + intros c. rewrite elems_app. cbn [elems]. rewrite !andb_true_r.
      destruct (e_caller e =? c); destruct isans; cbn; lia.
    + intros _. eexists. split; [rewrite Hget''; unfold upd; rewrite N.eqb_refl; reflexivity|]. auto.
Qed.

(* a reply nobody waits for still has its options handled: a keepalive timeout
   of zero closes a connection that is idle *)
Lemma idle_keepalive_zero_closes cs s m :
  q_inv (st_q s) -> st_conn s = COpen -> st_idle s = true ->
  q_get (st_q s) (m_id m) = None -> m_ka m = Some (Some 0) ->
  exists s', s_step cs s (EReply m) = Ok s' /\ st_conn s' = CDown 10 /\ st_log s' = st_log s.
Proof.
  intros Hq Hc Hi Hg Hk. cbn [s_step]. rewrite Hc.
  destruct (remove_spec (st_q s) (m_id m) Hq) as (q' & Er & _). rewrite Er, Hg, Hi, Hk.
  eexists. split; [reflexivity|]. cbn. auto.
Qed.

(* the idle timeout expiring closes an idle connection and nothing else; nobody
   is waiting then, so nothing is handed to anybody *)
Lemma idle_tick_closes cs s :
  st_conn s = COpen -> st_idle s = true ->
  exists s', s_step cs s ETick = Ok s' /\ st_conn s' = CDown 10 /\ st_log s' = st_log s /\ st_q s' = st_q s.
Proof. intros Hc Hi. cbn [s_step]. rewrite Hc, Hi. eexists. split; [reflexivity|]. cbn. auto. Qed.

Lemma idle_tick_ignored_when_busy cs s : st_idle s = false -> s_step cs s ETick = Ok s.
Proof. intros Hi. cbn [s_step]. rewrite Hi. destruct (st_conn s); reflexivity. Qed.
