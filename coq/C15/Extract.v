From Coq Require Import Extraction ExtrOcamlBasic NArith.
From DV Require Import Base.Outcome C15.Gen C15.Model.
Extraction Language OCaml.
Extraction "../build/ml/C15/model.ml" c15_trace c15_run_obs c15_prefill q_new c15_is_answer c15_dgram c15_demux c15_pending c15_lb_local c15_lb_run c15_ms_request c15_msc c15_red c15_red_skip.
