(* C15 proofs, widening round: run-level statements about the redundant
   transport's result choice (provenance of what the caller is handed, and that
   the query never sits with nothing outstanding) and about the load balancer's
   burst gate over whole request sequences. *)
From Coq Require Import NArith ZArith List Bool Lia ZifyN ZifyBool ZifyNat.
From DV Require Import Base.Outcome C15.Gen C15.Model C15.ProofsConn.
Import ListNotations.
Local Open Scope N_scope.

(* --------------------------------------------------------------- redundant *)
(* what the caller may be handed, in terms of the events of the whole run: a
   reply some upstream produced, or a transport error some upstream produced *)
Definition r_from_upstream (all : list revent) (fin : rfinal) : Prop :=
  match fin with
  | RReturnOk m => exists i, In (RFin i (UGood m)) all \/ In (RFin i (USkip m)) all
  | RReturnErr e => exists i, In (RFin i (UErr e)) all
  end.

Definition r_prov (all : list revent) (d1 d2 : option N) : Prop :=
  (forall m, d1 = Some m -> r_from_upstream all (RReturnOk m)) /\
  (forall e, d2 = Some e -> r_from_upstream all (RReturnErr e)).

Lemma settle_prov all ph out d1 d2 : r_prov all d1 d2 ->
  match r_settle (mkR ph out d1 d2) with
  | Ok (inl s') => s' = mkR ph out d1 d2
  | Ok (inr fin) => r_from_upstream all fin
  | _ => True
  end.
Proof.
  intros [H1 H2]. unfold r_settle. cbn [r_phase r_out r_dreply r_derr]. cbv [red_prefers_reply].
  destruct ph as [ind|]; [reflexivity|]. destruct out as [|x l]; [|reflexivity].
  destruct d1 as [m|]; [apply H1; reflexivity|]. destruct d2 as [e|]; [apply H2; reflexivity|exact I].
Qed.

Lemma prov_first_reply all d1 d2 m :
  r_prov all d1 d2 -> r_from_upstream all (RReturnOk m) -> r_prov all (first_some d1 m) d2.
Proof.
  intros [H1 H2] Hm. split; [|exact H2]. intros m' E. destruct d1 as [x|]; cbn [first_some] in E.
  - apply H1. exact E.
  - inversion E; subst. exact Hm.
Qed.

Lemma prov_first_err all d1 d2 e :
  r_prov all d1 d2 -> r_from_upstream all (RReturnErr e) -> r_prov all d1 (first_some d2 e).
Proof.
  intros [H1 H2] He. split; [exact H1|]. intros e' E. destruct d2 as [x|]; cbn [first_some] in E.
  - apply H2. exact E.
  - inversion E; subst. exact He.
Qed.

Lemma r_step_prov defer_err n all s ev :
  In ev all -> r_prov all (r_dreply s) (r_derr s) ->
  match r_step defer_err n s ev with
  | Ok (inl s') => r_prov all (r_dreply s') (r_derr s')
  | Ok (inr fin) => r_from_upstream all fin
  | _ => True
  end.
Proof.
  intros Hin Hp. destruct ev as [i [m|m|e]|]; cbn [r_step].
  - exists i. left. exact Hin.
  - assert (Hp' : r_prov all (first_some (r_dreply s) m) (r_derr s)).
    { apply prov_first_reply; [exact Hp|]. exists i. right. exact Hin. }
    destruct (r_phase s) as [ind|].
    + destruct (i =? ind).
      * unfold r_next. destruct (ind + 1 <? n).
        -- pose proof (settle_prov all (RProbe (ind + 1)) (remove_n i (r_out s) ++ [ind + 1]) _ _ Hp') as Hs.
           destruct (r_settle _) as [[s'|fin]| | |]; try exact I; [subst s'; exact Hp'|exact Hs].
        -- pose proof (settle_prov all RWait (remove_n i (r_out s)) _ _ Hp') as Hs.
           destruct (r_settle _) as [[s'|fin]| | |]; try exact I; [subst s'; exact Hp'|exact Hs].
      * exact Hp'.
    + pose proof (settle_prov all RWait (remove_n i (r_out s)) _ _ Hp') as Hs.
      destruct (r_settle _) as [[s'|fin]| | |]; try exact I; [subst s'; exact Hp'|exact Hs].
  - destruct defer_err; [|exists i; exact Hin].
    assert (Hp' : r_prov all (r_dreply s) (first_some (r_derr s) e)).
    { apply prov_first_err; [exact Hp|]. exists i. exact Hin. }
    destruct (r_phase s) as [ind|].
    + destruct (i =? ind).
      * unfold r_next. destruct (ind + 1 <? n).
        -- pose proof (settle_prov all (RProbe (ind + 1)) (remove_n i (r_out s) ++ [ind + 1]) _ _ Hp') as Hs.
           destruct (r_settle _) as [[s'|fin]| | |]; try exact I; [subst s'; exact Hp'|exact Hs].
        -- pose proof (settle_prov all RWait (remove_n i (r_out s)) _ _ Hp') as Hs.
           destruct (r_settle _) as [[s'|fin]| | |]; try exact I; [subst s'; exact Hp'|exact Hs].
      * exact Hp'.
    + pose proof (settle_prov all RWait (remove_n i (r_out s)) _ _ Hp') as Hs.
      destruct (r_settle _) as [[s'|fin]| | |]; try exact I; [subst s'; exact Hp'|exact Hs].
  - destruct (r_phase s) as [ind|]; [|exact Hp].
    unfold r_next. destruct (ind + 1 <? n); exact Hp.
Qed.

Lemma r_run_prov defer_err n all (evs : list revent) : forall s,
  (forall ev, In ev evs -> In ev all) -> r_prov all (r_dreply s) (r_derr s) ->
  match r_run defer_err n s evs with
  | Ok (inl s') => r_prov all (r_dreply s') (r_derr s')
  | Ok (inr fin) => r_from_upstream all fin
  | _ => True
  end.
Proof.
  induction evs as [|ev rest IH]; intros s Hsub Hp; cbn [r_run]; [exact Hp|].
  pose proof (r_step_prov defer_err n all s ev (Hsub ev (or_introl eq_refl)) Hp) as Hs.
  destruct (r_step defer_err n s ev) as [[s'|fin]| | |]; try exact I.
  - apply IH; [intros ev' H'; apply Hsub; right; exact H'|exact Hs].
  - exact Hs.
Qed.

(* Theorem: whatever the redundant query hands to its caller - over all orders
   of upstream completions and probe timeouts, both defer settings, any number of
   upstreams - is a reply or a transport error that one of the upstreams
   produced in this run; it never makes a result up. *)
Theorem red_result_from_upstream defer_err n (evs : list revent) fin :
  r_run defer_err n r_init evs = Ok (inr fin) -> r_from_upstream evs fin.
Proof.
  intros H. pose proof (r_run_prov defer_err n evs evs r_init (fun ev h => h)) as Hr.
  rewrite H in Hr. apply Hr. split; intros x E; discriminate E.
Qed.

(* the query is never left waiting with nothing outstanding *)
Definition r_live (s : rstate) : Prop :=
  match r_phase s with
  | RProbe ind => In ind (r_out s)
  | RWait => r_out s <> []
  end.

Lemma settle_live ph out d1 d2 :
  (forall ind, ph = RProbe ind -> In ind out) ->
  match r_settle (mkR ph out d1 d2) with
  | Ok (inl s') => r_live s'
  | _ => True
  end.
Proof.
  intros Hp. unfold r_settle. cbn [r_phase r_out r_dreply r_derr].
  destruct ph as [ind|].
  - unfold r_live. cbn [r_phase r_out]. apply Hp. reflexivity.
  - destruct out as [|x l].
    + destruct (if red_prefers_reply then d1 else None); [exact I|]. destruct d2; [exact I|]. destruct d1; exact I.
    + unfold r_live. cbn [r_phase r_out]. discriminate.
Qed.

Lemma next_settle_live n ind out d1 d2 :
  match (let '(ph, out') := r_next n ind out in r_settle (mkR ph out' d1 d2)) with
  | Ok (inl s') => r_live s'
  | _ => True
  end.
Proof.
  unfold r_next. destruct (ind + 1 <? n).
  - apply settle_live. intros j E. inversion E; subst. apply in_or_app. right. left. reflexivity.
  - apply settle_live. intros j E. discriminate E.
Qed.

Lemma r_step_live defer_err n s ev : r_live s ->
  match r_step defer_err n s ev with
  | Ok (inl s') => r_live s'
  | _ => True
  end.
Proof.
  intros Hl. unfold r_live in Hl. destruct ev as [i [m|m|e]|]; cbn [r_step]; [exact I| | |].
  - destruct (r_phase s) as [ind|] eqn:Eph.
    + destruct (N.eqb_spec i ind) as [->|Hne].
      * apply next_settle_live.
      * unfold r_live. cbn [r_phase r_out]. apply in_remove_other; [exact Hl|congruence].
    + apply settle_live. intros j E. discriminate E.
  - destruct defer_err; [|exact I].
    destruct (r_phase s) as [ind|] eqn:Eph.
    + destruct (N.eqb_spec i ind) as [->|Hne].
      * apply next_settle_live.
      * unfold r_live. cbn [r_phase r_out]. apply in_remove_other; [exact Hl|congruence].
    + apply settle_live. intros j E. discriminate E.
  - destruct (r_phase s) as [ind|] eqn:Eph.
    + unfold r_next. destruct (ind + 1 <? n); unfold r_live; cbn [r_phase r_out].
      * apply in_or_app. right. left. reflexivity.
      * intros E. rewrite E in Hl. destruct Hl.
    + unfold r_live. rewrite Eph. exact Hl.
Qed.

(* Theorem: as long as the redundant query has not returned, at least one
   started upstream is still outstanding (so its completion - every upstream
   request completes, by the per-transport theorems - drives the query on);
   with nothing outstanding it has returned.  Together with
   red_run_no_panic: the query returns exactly one result and only then. *)
Theorem red_waiting_has_outstanding defer_err n (evs : list revent) : forall s s',
  r_live s -> r_run defer_err n s evs = Ok (inl s') -> r_live s'.
Proof.
  induction evs as [|ev rest IH]; intros s s' Hl H; cbn [r_run] in H.
  - inversion H; subst. exact Hl.
  - pose proof (r_step_live defer_err n s ev Hl) as Hs.
    destruct (r_step defer_err n s ev) as [[s1|fin]| | |]; try discriminate H.
    apply (IH s1 s' Hs H).
Qed.

Corollary red_waiting_outstanding_init defer_err n (evs : list revent) s' :
  r_run defer_err n r_init evs = Ok (inl s') -> r_out s' <> [].
Proof.
  intros H. assert (Hl : r_live r_init) by (unfold r_live, r_init; cbn; left; reflexivity).
  pose proof (red_waiting_has_outstanding defer_err n evs r_init s' Hl H) as H'.
  unfold r_live in H'. destruct (r_phase s'); [|exact H'].
  intros E. rewrite E in H'. destruct H'.
Qed.

Example ex_red_prov :
  r_run true 3 r_init [RProbeTimeout; RFin 1 (USkip 7); RFin 0 (UErr 3); RFin 2 (UErr 4)] = Ok (inr (RReturnOk 7)) /\
  r_from_upstream [RProbeTimeout; RFin 1 (USkip 7); RFin 0 (UErr 3); RFin 2 (UErr 4)] (RReturnOk 7) /\
  (exists s', r_run true 3 r_init [RProbeTimeout; RFin 1 (USkip 7)] = Ok (inl s') /\ r_out s' = [0; 2]).
Proof.
  split; [vm_compute; reflexivity|]. split.
  - exists 1. right. right. left. reflexivity.
  - eexists. split; [vm_compute; reflexivity|reflexivity].
Qed.

(* ----------------------------------------------------------- load balancer *)
Definition lb_at (ups : list (option N * N)) (i : nat) : option N * N := nth i ups (None, 0).

(* one request: the upstream chosen exists and passes the burst gate, and only
   its burst counter moves; the request is answered locally only when every
   upstream is over its burst limit - whatever the selection policy picks *)
Lemma lb_step_spec ups pick ups' o : lb_step ups pick = (ups', o) ->
  match o with
  | Some i => (i < length ups)%nat /\ lb_usable (lb_at ups i) = true /\ ups' = lb_bump ups i
  | None => ups' = ups /\ forall i, (i < length ups)%nat -> lb_usable (lb_at ups i) = false
  end.
Proof.
  unfold lb_step, lb_at.
  set (f := fun i : nat => lb_usable (nth i ups (None, 0))).
  destruct (filter f (seq 0 (length ups))) as [|x l] eqn:Ef; intros H; injection H as <- <-.
  - split; [reflexivity|]. intros i Hi.
    destruct (f i) eqn:Efi; [|exact Efi].
    assert (Hin : In i (filter f (seq 0 (length ups)))).
    { apply filter_In. split; [apply in_seq; lia|exact Efi]. }
    rewrite Ef in Hin. destruct Hin.
  - assert (Hin : In (nth (Nat.modulo pick (length (x :: l))) (x :: l) O) (filter f (seq 0 (length ups)))).
    { rewrite Ef. apply nth_In. apply Nat.mod_upper_bound. cbn [length]. discriminate. }
    apply filter_In in Hin. destruct Hin as [Hs Hf].
    apply in_seq in Hs. destruct Hs as [_ Hs]. split; [exact Hs|]. split; [exact Hf|reflexivity].
Qed.

Lemma bump_nth_error (ups : list (option N * N)) : forall j i,
  nth_error (lb_bump ups j) i =
  match nth_error ups i with
  | Some (mb, b) => if Nat.eqb i j then Some (mb, b + lb_burst_inc) else Some (mb, b)
  | None => None
  end.
Proof.
  induction ups as [|[mb b] r IH]; intros j i.
  - destruct j; destruct i; reflexivity.
  - destruct j as [|j]; cbn [lb_bump].
    + destruct i; cbn [nth_error Nat.eqb]; [reflexivity|]. destruct (nth_error r i) as [[mb' b']|]; reflexivity.
    + destruct i; cbn [nth_error Nat.eqb]; [reflexivity|]. apply IH.
Qed.

Fixpoint lb_given (i : nat) (l : list (option nat)) : N :=
  match l with
  | [] => 0
  | Some j :: r => (if Nat.eqb j i then 1 else 0) + lb_given i r
  | None :: r => lb_given i r
  end.

(* Theorem (burst gate over whole request sequences): inside one burst interval
   an upstream with limit max_burst that has already been given b requests is
   given at most max_burst + 1 - b more, whatever the selection policy picks and
   however many requests arrive; the rest go elsewhere or are answered locally. *)
Theorem lb_burst_bounded (picks : list nat) : forall ups i mb b,
  nth_error ups i = Some (Some mb, b) -> b <= mb + 1 ->
  lb_given i (lb_run ups picks) + b <= mb + 1.
Proof.
  induction picks as [|p rest IH]; intros ups i mb b Hn Hb; cbn [lb_run lb_given]; [lia|].
  destruct (lb_step ups p) as [ups' o] eqn:Es. pose proof (lb_step_spec _ _ _ _ Es) as Hs.
  cbn [lb_given]. destruct o as [j|].
  - destruct Hs as (Hj & Hu & ->).
    pose proof (bump_nth_error ups j i) as Hbn. rewrite Hn in Hbn.
    destruct (Nat.eqb_spec j i) as [->|Hne].
    + rewrite Nat.eqb_refl in Hbn.
      unfold lb_at in Hu. rewrite (nth_error_nth _ _ _ Hn) in Hu.
      unfold lb_usable in Hu. cbn [fst snd] in Hu. cbv [lb_over_burst] in Hu.
      destruct (N.ltb_spec mb b) as [Hlt|Hge]; [discriminate Hu|].
      cbv [lb_burst_inc] in Hbn.
      pose proof (IH _ _ _ _ Hbn ltac:(lia)). lia.
    + destruct (Nat.eqb_spec i j) as [E|_]; [congruence|].
      pose proof (IH _ _ _ _ Hbn Hb). lia.
  - destruct Hs as (-> & _). apply (IH _ _ _ _ Hn Hb).
Qed.

(* every upstream a request is handed to passes the burst gate at that moment;
   a local SERVFAIL only when no upstream does *)
Theorem lb_run_head_spec ups p rest :
  match lb_run ups (p :: rest) with
  | Some i :: _ => (i < length ups)%nat /\ lb_usable (lb_at ups i) = true
  | None :: _ => forall i, (i < length ups)%nat -> lb_usable (lb_at ups i) = false
  | [] => False
  end.
Proof.
  cbn [lb_run]. destruct (lb_step ups p) as [ups' o] eqn:Es.
  pose proof (lb_step_spec _ _ _ _ Es) as Hs. destruct o as [i|].
  - destruct Hs as (H1 & H2 & _). split; assumption.
  - destruct Hs as (_ & H). exact H.
Qed.

Example ex_lb_burst :
  lb_run [(Some 1, 0); (None, 0)] [0; 0; 0; 0; 0; 0]%nat = [Some 0; Some 0; Some 1; Some 1; Some 1; Some 1]%nat /\
  lb_given 0 (lb_run [(Some 1, 0); (None, 0)] [0; 0; 0; 0; 0; 0]%nat) = 2.
Proof. vm_compute. split; reflexivity. Qed.
