(* C15 proofs, part 6: multi_stream connection reuse / back-off, and the result
   choice of the redundant transport. *)
From Coq Require Import NArith ZArith List Bool Lia ZifyN ZifyBool ZifyNat.
From DV Require Import Base.Outcome C15.Gen C15.Model.
Import ListNotations.
Local Open Scope N_scope.

(* ------------------------------------------------------------ multi_stream *)
(* inside the back-off window after a failed connect nothing is attempted: the
   requester gets the error at once and the state does not change *)
Lemma ms_backoff_respected s opt_id now retries timer timeout :
  ms_conn s = MErr retries timer timeout -> now - timer < timeout ->
  ms_newconn s opt_id now = (s, MReplyErr).
Proof.
  intros H Hlt. unfold ms_newconn. rewrite H. cbv [ms_backoff_active].
  destruct (N.ltb_spec (now - timer) timeout); [reflexivity|lia].
Qed.

(* once the window has passed a new connect is attempted *)
Lemma ms_backoff_over s now retries timer timeout :
  ms_conn s = MErr retries timer timeout -> timeout <= now - timer ->
  ms_newconn s None now = (s, MConnect).
Proof.
  intros H Hge. unfold ms_newconn. rewrite H. cbv [ms_backoff_active].
  destruct (N.ltb_spec (now - timer) timeout); [lia|]. reflexivity.
Qed.

(* an existing connection is handed out again, unless the requester reports it
   (or a later one) as unusable: then it is dropped, the id moves on and a new
   connection is made *)
Lemma ms_reuse s c opt_id now :
  ms_conn s = MSome c -> (forall id, opt_id = Some id -> id < ms_id s) ->
  ms_newconn s opt_id now = (s, MReplyOk (ms_id s) c).
Proof.
  intros H Hid. unfold ms_newconn. destruct opt_id as [id|]; [|rewrite H; reflexivity].
  cbv [ms_stale]. destruct (N.leb_spec (ms_id s) id) as [Hle|_]; [specialize (Hid id eq_refl); lia|].
  rewrite H. reflexivity.
Qed.

Lemma ms_stale_reconnects s c id now :
  ms_conn s = MSome c -> ms_id s <= id ->
  ms_newconn s (Some id) now = (mkMs MNone (ms_id s + 1), MConnect).
Proof.
  intros H Hid. unfold ms_newconn. rewrite H. cbv [ms_stale ms_id_inc].
  destruct (N.leb_spec (ms_id s) id); [reflexivity|lia].
Qed.

(* whenever ms_newconn starts a connect, completing it cannot hit the
   "Illegal Some state" panic, and a successful connect is announced under the
   current id *)
Lemma ms_connect_no_panic s opt_id now s1 res t backoff :
  ms_newconn s opt_id now = (s1, MConnect) ->
  exists s2 rep, ms_connected s1 res t backoff = Ok (s2, rep) /\
    match res with
    | Some c => rep = MReplyOk (ms_id s1) c /\ ms_conn s2 = MSome c
    | None => rep = MReplyErr /\ exists r, ms_conn s2 = MErr r t backoff
    end.
Proof.
  unfold ms_newconn. intros H.
  destruct (match ms_conn s with MErr _ timer timeout => ms_backoff_active (now - timer) timeout | _ => false end); [discriminate|].
  set (sx := match opt_id with Some id => if ms_stale id (ms_id s) then mkMs MNone (ms_id s + ms_id_inc) else s | None => s end) in *.
  destruct (ms_conn sx) as [|c|r tm to] eqn:Ec; inversion H; subst s1; unfold ms_connected; rewrite Ec;
    destruct res as [c'|]; eexists _, _; (split; [reflexivity|]); cbn; eauto.
Qed.

(* the back-off ceiling doubles per failed connect up to 64 s, then stays at 60 s *)
Lemma ms_retry_cap_values :
  ms_retry_cap_ms 0 = 1000 /\ ms_retry_cap_ms 1 = 2000 /\ ms_retry_cap_ms 6 = 64000 /\
  ms_retry_cap_ms 7 = 60000 /\ (forall r, 6 < r -> ms_retry_cap_ms r = 60000).
Proof.
  repeat split; try reflexivity. intros r Hr. cbv [ms_retry_cap_ms].
  destruct (N.ltb_spec 6 r); [reflexivity|lia].
Qed.

Example ex_ms :
  ms_newconn (mkMs MNone 0) None 5 = (mkMs MNone 0, MConnect) /\
  ms_connected (mkMs MNone 0) None 5 800 = Ok (mkMs (MErr 0 5 800) 0, MReplyErr) /\
  ms_newconn (mkMs (MErr 0 5 800) 0) None 700 = (mkMs (MErr 0 5 800) 0, MReplyErr) /\
  ms_newconn (mkMs (MErr 0 5 800) 0) None 805 = (mkMs (MErr 0 5 800) 0, MConnect) /\
  ms_connected (mkMs (MErr 0 5 800) 0) (Some 9) 806 0 = Ok (mkMs (MSome 9) 0, MReplyOk 0 9) /\
  ms_newconn (mkMs (MSome 9) 0) (Some 0) 900 = (mkMs MNone 1, MConnect).
Proof. vm_compute. repeat split. Qed.

(* --------------------------------------------------------------- redundant *)
(* well-formed states: the upstream being probed exists and is outstanding; in
   the Wait phase with nothing outstanding some deferred result exists *)
Definition r_ok (n : N) (s : rstate) : Prop :=
  match r_phase s with
  | RProbe ind => ind < n /\ In ind (r_out s)
  | RWait => r_out s <> [] \/ r_dreply s <> None \/ r_derr s <> None
  end.

Lemma first_some_not_none a b : first_some a b <> None.
Proof. destruct a; discriminate. Qed.

Lemma in_remove_other i j l : In j l -> j <> i -> In j (remove_n i l).
Proof.
  induction l as [|x r IH]; intros Hin Hne; [destruct Hin|]. cbn [remove_n].
  destruct (N.eqb_spec x i) as [->|Hx].
  - destruct Hin as [<-|Hin]; [congruence|exact Hin].
  - destruct Hin as [<-|Hin]; [left; reflexivity|right; auto].
Qed.

(* the head of the Wait loop: no panic; a deferred reply wins over a deferred error *)
Lemma r_settle_ok n ph out d1 d2 : r_ok n (mkR ph out d1 d2) ->
  match r_settle (mkR ph out d1 d2) with
  | Ok (inl s') => s' = mkR ph out d1 d2
  | Ok (inr (RReturnOk m)) => d1 = Some m
  | Ok (inr (RReturnErr e)) => d2 = Some e /\ d1 = None
  | _ => False
  end.
Proof.
  unfold r_settle, r_ok. cbn [r_phase r_out r_dreply r_derr]. cbv [red_prefers_reply].
  destruct ph as [ind|]; [reflexivity|]. destruct out as [|x l]; [|reflexivity].
  intros [H|[H|H]]; [congruence| |]; destruct d1 as [m|]; destruct d2 as [e|]; try congruence; auto.
Qed.

Lemma r_next_ok n ind out d1 d2 :
  d1 <> None \/ d2 <> None ->
  match r_next n ind out with (ph, out') => r_ok n (mkR ph out' d1 d2) end.
Proof.
  intros Hd. unfold r_next. destruct (N.ltb_spec (ind + 1) n) as [Hlt|Hge]; unfold r_ok; cbn [r_phase r_out r_dreply r_derr].
  - split; [exact Hlt|]. apply in_or_app. right. left. reflexivity.
  - right. exact Hd.
Qed.

(* what a step may hand to the caller *)
Definition r_final_ok (defer_err : bool) (s : rstate) (ev : revent) (fin : rfinal) : Prop :=
  match ev with
  | RFin _ (UGood m) => fin = RReturnOk m
  | RFin _ (UErr e) =>
      if defer_err then
        match fin with
        | RReturnOk m => r_dreply s = Some m
        | RReturnErr e' => r_dreply s = None /\ first_some (r_derr s) e = Some e'
        end
      else fin = RReturnErr e
  | RFin _ (USkip m) =>
      match fin with
      | RReturnOk m' => first_some (r_dreply s) m = Some m'
      | RReturnErr _ => False
      end
  | RProbeTimeout => False
  end.

Lemma r_step_ok defer_err n s ev : r_ok n s ->
  match r_step defer_err n s ev with
  | Ok (inl s') => r_ok n s'
  | Ok (inr fin) => r_final_ok defer_err s ev fin
  | _ => False
  end.
Proof.
  intros Hok. destruct ev as [i [m|m|e]|]; cbn [r_step r_final_ok].
  - reflexivity.
  - (* a deferrable reply *)
    destruct (r_phase s) as [ind|] eqn:Eph.
    + destruct (N.eqb_spec i ind) as [->|Hne].
      * pose proof (r_next_ok n ind (remove_n ind (r_out s)) (first_some (r_dreply s) m) (r_derr s)
                      (or_introl (first_some_not_none _ _))) as Hn.
        destruct (r_next n ind (remove_n ind (r_out s))) as [ph out'].
        pose proof (r_settle_ok n _ _ _ _ Hn) as Hs. destruct (r_settle _) as [[s'|[m'|e']]| | |]; try contradiction.
        -- subst s'. exact Hn.
        -- exact Hs.
        -- destruct Hs as (_ & Hs). exact (first_some_not_none _ _ Hs).
      * unfold r_ok in *. rewrite Eph in Hok. cbn [r_phase r_out]. destruct Hok as (Hlt & Hin).
        split; [exact Hlt|]. apply in_remove_other; auto.
    + assert (Hok' : r_ok n (mkR RWait (remove_n i (r_out s)) (first_some (r_dreply s) m) (r_derr s))).
      { unfold r_ok. cbn [r_phase r_dreply]. right. left. apply first_some_not_none. }
      pose proof (r_settle_ok n _ _ _ _ Hok') as Hs. destruct (r_settle _) as [[s'|[m'|e']]| | |]; try contradiction.
      * subst s'. exact Hok'.
      * exact Hs.
      * destruct Hs as (_ & Hs). exact (first_some_not_none _ _ Hs).
  - (* a transport error *)
    destruct defer_err; [|reflexivity].
    destruct (r_phase s) as [ind|] eqn:Eph.
    + destruct (N.eqb_spec i ind) as [->|Hne].
      * pose proof (r_next_ok n ind (remove_n ind (r_out s)) (r_dreply s) (first_some (r_derr s) e)
                      (or_intror (first_some_not_none _ _))) as Hn.
        destruct (r_next n ind (remove_n ind (r_out s))) as [ph out'].
        pose proof (r_settle_ok n _ _ _ _ Hn) as Hs. destruct (r_settle _) as [[s'|[m'|e']]| | |]; try contradiction.
        -- subst s'. exact Hn.
        -- exact Hs.
        -- destruct Hs as (H2 & H1). auto.
      * unfold r_ok in *. rewrite Eph in Hok. cbn [r_phase r_out]. destruct Hok as (Hlt & Hin).
        split; [exact Hlt|]. apply in_remove_other; auto.
    + assert (Hok' : r_ok n (mkR RWait (remove_n i (r_out s)) (r_dreply s) (first_some (r_derr s) e))).
      { unfold r_ok. cbn [r_phase r_derr]. right. right. apply first_some_not_none. }
      pose proof (r_settle_ok n _ _ _ _ Hok') as Hs. destruct (r_settle _) as [[s'|[m'|e']]| | |]; try contradiction.
      * subst s'. exact Hok'.
      * exact Hs.
      * destruct Hs as (H2 & H1). auto.
  - (* the estimated response time of the probed upstream passes *)
    destruct (r_phase s) as [ind|] eqn:Eph; [|exact Hok].
    unfold r_next. unfold r_ok in Hok. rewrite Eph in Hok. destruct Hok as (Hlt & Hin).
    destruct (N.ltb_spec (ind + 1) n) as [H1|H1]; unfold r_ok; cbn [r_phase r_out].
    + split; [exact H1|]. apply in_or_app. right. left. reflexivity.
    + left. intros E. rewrite E in Hin. destruct Hin.
Qed.

(* Theorem: over all event sequences (results of started upstreams and probe
   timeouts in any order) the query never reaches its panic, and it returns at
   the first event that yields a result, which is one of: a non-deferrable
   reply just received; the transport error just received when errors are not
   deferred; otherwise the first deferred reply, or the first deferred error
   when no reply was deferred. *)
Theorem red_run_ok defer_err n (evs : list revent) : forall s, r_ok n s ->
  match r_run defer_err n s evs with
  | Ok _ => True
  | _ => False
  end.
Proof.
  induction evs as [|ev rest IH]; intros s Hok; cbn [r_run]; [exact I|].
  pose proof (r_step_ok defer_err n s ev Hok) as Hs.
  destruct (r_step defer_err n s ev) as [[s'|fin]| | |]; try contradiction; [apply IH; exact Hs|exact I].
Qed.

Lemma r_init_ok n : 0 < n -> r_ok n r_init.
Proof. intros H. unfold r_ok, r_init. cbn. split; [exact H|left; reflexivity]. Qed.

Example ex_red :
  r_run true 2 r_init [RProbeTimeout; RFin 1 (USkip 7); RFin 0 (UErr 3)] = Ok (inr (RReturnOk 7)) /\
  r_run true 2 r_init [RFin 0 (UErr 3); RFin 1 (UErr 4)] = Ok (inr (RReturnErr 3)) /\
  r_run false 2 r_init [RFin 0 (UErr 3)] = Ok (inr (RReturnErr 3)) /\
  r_run true 2 r_init [RFin 0 (UErr 3); RFin 1 (UGood 9)] = Ok (inr (RReturnOk 9)).
Proof. vm_compute. repeat split. Qed.

Corollary red_run_no_panic defer_err n (evs : list revent) : 0 < n ->
  match r_run defer_err n r_init evs with Ok _ => True | _ => False end.
Proof. intros H. apply red_run_ok. apply r_init_ok. exact H. Qed.

(* ------------------------------------------- multi_stream request budget *)
Lemma ms_delay_bound T start now delays k :
  start <= now <= start + T ->
  (forall now' dl', start <= now' <= start + T -> mres_time (k now' dl') <= start + T) ->
  mres_time (ms_delay T start now delays k) <= start + T.
Proof.
  intros Hn Hk. unfold ms_delay. destruct (ms_budget_spent (now - start) T); [cbn; lia|].
  destruct (N.leb_spec (now + hd 0 delays) (start + T)); [apply Hk; lia|cbn; lia].
Qed.

(* Theorem: whatever the connections do (fail to come up, come up slowly, die
   with or without reading the request, stay silent) and whatever back-off
   delays are drawn, the request ends no later than response_timeout after it
   was created: the budget is per request, not per connection. *)
Theorem ms_request_within_budget T (atts : list catt) : forall start now count delays,
  start <= now <= start + T ->
  mres_time (ms_request T start now count atts delays) <= start + T.
Proof.
  induction atts as [|a rest IH]; intros start now count delays Hn; cbn [ms_request].
  - destruct (ms_budget_spent (now - start) T); cbn; lia.
  - destruct (ms_budget_spent (now - start) T); [cbn; lia|].
    destruct a as [d|d r].
    + destruct (N.ltb_spec (now + d) (start + T)); [|cbn; lia].
      apply ms_delay_bound; [lia|]. intros now' dl' H'. apply IH. exact H'.
    + destruct (N.ltb_spec (now + d) (start + T)) as [Hd|]; [|cbn; lia].
      cbv [ms_start_fixed]. destruct (ms_budget_spent (now + d - start) T); [cbn; lia|].
      destruct r as [d'|d'|d'|d'|].
      * destruct (N.ltb_spec (now + d + d') (start + T)); cbn; lia.
      * destruct (N.ltb_spec (now + d + d') (start + T)); cbn; lia.
      * destruct (N.ltb_spec (now + d + d') (start + T)); [|cbn; lia].
        destruct (count + 1 =? ms_immediate_retry_at).
        -- apply IH. lia.
        -- apply ms_delay_bound; [lia|]. intros now' dl' H'. apply IH. exact H'.
      * destruct (N.ltb_spec (now + d + d') (start + T)); [|cbn; lia].
        apply ms_delay_bound; [lia|]. intros now' dl' H'. apply IH. exact H'.
      * cbn; lia.
Qed.

Corollary ms_request_budget T atts delays : mres_time (c15_ms_request T atts delays) <= T.
Proof. unfold c15_ms_request. pose proof (ms_request_within_budget T atts 0 0 0 delays) as H. lia. Qed.

(* a timeout is reported exactly when the budget is used up, never earlier *)
Lemma ms_delay_timeout_exact T start now delays k t :
  start <= now <= start + T ->
  (forall now' dl' t', start <= now' <= start + T -> k now' dl' = MErrTimeout t' -> t' = start + T) ->
  ms_delay T start now delays k = MErrTimeout t -> t = start + T.
Proof.
  intros Hn Hk. unfold ms_delay. cbv [ms_budget_spent].
  destruct (N.leb_spec T (now - start)); [intros E0; inversion E0; lia|].
  destruct (N.leb_spec (now + hd 0 delays) (start + T)); [apply Hk; lia|intros E0; inversion E0; reflexivity].
Qed.

Theorem ms_timeout_exact T (atts : list catt) : forall start now count delays t,
  start <= now <= start + T ->
  ms_request T start now count atts delays = MErrTimeout t -> t = start + T.
Proof.
  induction atts as [|a rest IH]; intros start now count delays t Hn; cbn [ms_request]; cbv [ms_budget_spent ms_start_fixed].
  - destruct (N.leb_spec T (now - start)); intros E0; inversion E0; lia.
  - destruct (N.leb_spec T (now - start)); [intros E0; inversion E0; lia|].
    destruct a as [d|d r].
    + destruct (N.ltb_spec (now + d) (start + T)); [|intros E0; inversion E0; reflexivity].
      apply ms_delay_timeout_exact; [lia|]. intros now' dl' t' H'. apply IH. exact H'.
    + destruct (N.ltb_spec (now + d) (start + T)) as [Hd|]; [|intros E0; inversion E0; reflexivity].
      destruct (N.leb_spec T (now + d - start)); [intros E0; inversion E0; lia|].
      destruct r as [d'|d'|d'|d'|].
      * destruct (N.ltb_spec (now + d + d') (start + T)); intros E0; inversion E0; reflexivity.
      * destruct (N.ltb_spec (now + d + d') (start + T)); intros E0; inversion E0; reflexivity.
      * destruct (N.ltb_spec (now + d + d') (start + T)); [|intros E0; inversion E0; reflexivity].
        destruct (count + 1 =? ms_immediate_retry_at).
        -- apply IH. lia.
        -- apply ms_delay_timeout_exact; [lia|]. intros now' dl' t' H'. apply IH. exact H'.
      * destruct (N.ltb_spec (now + d + d') (start + T)); [|intros E0; inversion E0; reflexivity].
        apply ms_delay_timeout_exact; [lia|]. intros now' dl' t' H'. apply IH. exact H'.
      * intros E0; inversion E0; reflexivity.
Qed.

Lemma ms_awaits_pinned : ms_all_awaits_bounded = true /\ ms_immediate_retry_at = 1.
Proof. split; reflexivity. Qed.

Example ex_ms_request :
  (* slow accept (20 s) then silence, 30 s budget: fails at 30 s, not at 50 s *)
  c15_ms_request 30000 [COk 20000 SSilent] [] = MErrTimeout 30000 /\
  (* every connection is accepted and dies after the request was read *)
  c15_ms_request 30000 [COk 0 (SFail 0); COk 0 (SFail 0); COk 0 (SFail 0)] [1500; 3000; 40000] = MErrTimeout 30000 /\
  c15_ms_request 30000 [COk 10 (SClosed 5); COk 20 (SReply 7)] [] = MOk 42 /\
  c15_ms_request 3000 [COk 100 (SReply 2900)] [] = MErrTimeout 3000 /\ c15_ms_request 3000 [COk 100 (SReply 2899)] [] = MOk 2999.
Proof. vm_compute. repeat split. Qed.

(* ------------------------------------------------- load_balancer *)
(* the answer the load balancer makes up itself carries the request's ID and
   question (property text); RCODE SERVFAIL *)
Theorem lb_local_answers rid rqr qs has_opt :
  m_id (lb_local rid rqr qs has_opt) = rid /\
  m_qs (lb_local rid rqr qs has_opt) = Some qs /\
  m_qd (lb_local rid rqr qs has_opt) = lenN qs /\
  m_rcode (lb_local rid rqr qs has_opt) = 2.
Proof. cbv [lb_local lb_local_id lb_local_copies_question lb_local_rcode m_id m_qs m_qd m_rcode]. auto. Qed.

(* what it does with the QR bit: copied from the request, so a local answer to
   a query has QR clear and the library's own is_answer rejects it *)
Lemma lb_local_qr_as_in_code rid rqr qs has_opt :
  m_qr (lb_local rid rqr qs has_opt) = lb_local_qr rqr.
Proof. reflexivity. Qed.

Lemma lb_usable_spec mb b : lb_usable (Some mb, b) = true <-> b <= mb.
Proof.
  unfold lb_usable. cbn [fst snd]. cbv [lb_over_burst]. destruct (N.ltb_spec mb b); cbn; split; intros; try lia; try reflexivity; discriminate.
Qed.

Example ex_lb :
  lb_run [(Some 1, 0)] [0; 0; 0; 0]%nat = [Some O; Some O; None; None] /\
  lb_run [] [0]%nat = [None] /\
  lb_run [(Some 0, 0); (None, 0)] [0; 0; 0]%nat = [Some O; Some 1%nat; Some 1%nat].
Proof. vm_compute. repeat split. Qed.

Example ex_msc :
  c15_msc false [MQ; MQ; MK; MQ; MK; MK; MQ; MQ] = [(true, 1); (true, 1); (true, 2); (true, 3); (true, 3)] /\
  c15_msc true [MQ; MQ; MQ] = [(true, 1); (true, 2); (true, 3)].
Proof. vm_compute. split; reflexivity. Qed.

Example ex_red_same :
  c15_red true 2 (USkip 5) = Ok (inr (RReturnOk 5)) /\ c15_red false 2 (UErr 1) = Ok (inr (RReturnErr 1)) /\
  c15_red true 2 (UErr 1) = Ok (inr (RReturnErr 1)) /\ c15_red true 1 (UGood 0) = Ok (inr (RReturnOk 0)).
Proof. vm_compute. repeat split. Qed.
