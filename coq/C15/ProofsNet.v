(* C15 proofs, part 3: is_answer, the datagram receive loop, the TC rule and
   the stream response-timeout configuration. *)
From Coq Require Import NArith ZArith List Bool Lia ZifyN ZifyBool ZifyNat.
From DV Require Import Base.Outcome C15.Gen C15.Model C15.Proofs.
Import ListNotations.
Local Open Scope N_scope.
Ltac Zify.zify_post_hook ::= Z.div_mod_to_equations.

Lemma list_eqb_spec (a b : list N) : list_eqb a b = true <-> a = b.
Proof.
  revert b. induction a as [|x a IH]; intros [|y b]; cbn; split; intros H; try reflexivity; try discriminate.
  - apply andb_true_iff in H. destruct H as (Hx & Hr). apply N.eqb_eq in Hx. apply IH in Hr. congruence.
  - inversion H; subst. rewrite N.eqb_refl. cbn. apply IH. reflexivity.
Qed.

(* is_answer accepts only answers in the sense of the property ... *)
Lemma is_answer_sound (r : req) (a : msg) : is_answer r a = true -> answers r a.
Proof.
  unfold is_answer, answers, hdr_only_error.
  cbv [isans_reject isans_hdr_only isans_qd_reject isans_q_equal].
  destruct (m_qr a); cbn [negb orb]; [|discriminate].
  destruct (N.eqb_spec (m_id a) (r_id r)) as [Hid|]; cbn [negb]; [|discriminate].
  destruct (N.eqb_spec (m_rcode a) 0) as [Hrc|Hrc]; cbn [negb andb].
  - destruct (N.eqb_spec (m_qd a) (lenN (r_qs r))); cbn [negb]; [|discriminate].
    destruct (m_qs a) as [qs|]; [|discriminate]. intros H. apply list_eqb_spec in H. subst. auto.
  - destruct (N.eqb_spec (m_qd a) 0) as [Hqd|]; cbn [andb].
    + destruct (N.eqb_spec (m_an a) 0); cbn [andb].
      * destruct (N.eqb_spec (m_ns a) 0); cbn [andb].
        -- destruct (N.eqb_spec (m_ar a) 0); cbn [andb].
           ++ intros _. split; [reflexivity|]. split; [exact Hid|]. left. auto.
           ++ destruct (N.eqb_spec (m_qd a) (lenN (r_qs r))); cbn [negb]; [|discriminate].
              destruct (m_qs a) as [qs|]; [|discriminate]. intros H. apply list_eqb_spec in H. subst. auto.
        -- destruct (N.eqb_spec (m_qd a) (lenN (r_qs r))); cbn [negb]; [|discriminate].
           destruct (m_qs a) as [qs|]; [|discriminate]. intros H. apply list_eqb_spec in H. subst. auto.
      * destruct (N.eqb_spec (m_qd a) (lenN (r_qs r))); cbn [negb]; [|discriminate].
        destruct (m_qs a) as [qs|]; [|discriminate]. intros H. apply list_eqb_spec in H. subst. auto.
    + destruct (N.eqb_spec (m_qd a) (lenN (r_qs r))); cbn [negb]; [|discriminate].
      destruct (m_qs a) as [qs|]; [|discriminate]. intros H. apply list_eqb_spec in H. subst. auto.
Qed.

(* ... and every answer (whose QDCOUNT matches its question section) *)
Lemma is_answer_complete (r : req) (a : msg) : msg_wf a -> answers r a -> is_answer r a = true.
Proof.
  unfold is_answer, answers, hdr_only_error, msg_wf.
  cbv [isans_reject isans_hdr_only isans_qd_reject isans_q_equal].
  intros Hwf (Hqr & Hid & Hq). rewrite Hqr. cbn [negb orb].
  rewrite (proj2 (N.eqb_eq _ _) Hid). cbn [negb].
  destruct Hq as [(Hrc & Hqd & Han & Hns & Har)|Hqs].
  - rewrite Hqd, Han, Hns, Har. cbn. destruct (N.eqb_spec (m_rcode a) 0); [contradiction|reflexivity].
  - destruct (negb (m_rcode a =? 0) && ((m_qd a =? 0) && ((m_an a =? 0) && ((m_ns a =? 0) && (m_ar a =? 0))))); [reflexivity|].
    rewrite (Hwf _ Hqs), N.eqb_refl. cbn [negb]. rewrite Hqs. apply list_eqb_spec. reflexivity.
Qed.

Example ex_is_answer_hdr_only :
  is_answer (mkReq 7 [1]) (mkMsg 7 true false 2 0 0 0 0 (Some []) (Some []) None) = true /\
  is_answer (mkReq 7 [1]) (mkMsg 7 true false 0 0 0 0 0 (Some []) (Some []) None) = false /\
  is_answer (mkReq 7 [1]) (mkMsg 7 true false 0 1 0 0 0 (Some [1]) (Some []) None) = true /\
  is_answer (mkReq 7 [1]) (mkMsg 8 true false 0 1 0 0 0 (Some [1]) (Some []) None) = false /\
  is_answer (mkReq 7 [1]) (mkMsg 7 false false 0 1 0 0 0 (Some [1]) (Some []) None) = false /\
  is_answer (mkReq 7 [1]) (mkMsg 7 true false 0 1 0 0 0 (Some [2]) (Some []) None) = false.
Proof. vm_compute. repeat split. Qed.

(* ------------------------------------------------------- receive loop *)
Lemma recv_loop_spec (T : N) (r : req) (pkts : list (N * pkt)) : forall now,
  now <= T ->
  match recv_loop T r now pkts with
  | RAnswer t m => now <= t <= T /\ is_answer r m = true /\ exists off, In (off, PMsg m) pkts /\ off <= T
  | RError t => now <= t <= T /\ exists off, In (off, PRecvErr) pkts
  | RTimeout => True
  end.
Proof.
  induction pkts as [|[off p] rest IH]; intros now Hnow; cbn [recv_loop].
  - destruct (dgram_loop_cond T now); exact I.
  - destruct (dgram_loop_cond T now); [|exact I].
    destruct (N.leb_spec off T) as [Hoff|]; [|exact I].
    assert (Hmax : N.max now off <= T) by lia.
    destruct p as [| |m].
    + specialize (IH _ Hmax). destruct (recv_loop T r (N.max now off) rest) as [t m|t|]; [| |exact I].
      * destruct IH as (Ht & Ha & off' & Hin & Ho). split; [lia|]. split; [exact Ha|]. exists off'. split; [right; exact Hin|exact Ho].
      * destruct IH as (Ht & off' & Hin). split; [lia|]. exists off'. right; exact Hin.
    + split; [lia|]. exists off. left; reflexivity.
    + cbv [dgram_skip_if_not_answer]. destruct (is_answer r m) eqn:Ea; cbn [negb].
      * split; [lia|]. split; [exact Ea|]. exists off. split; [left; reflexivity|exact Hoff].
      * specialize (IH _ Hmax). destruct (recv_loop T r (N.max now off) rest) as [t m'|t|]; [| |exact I].
        -- destruct IH as (Ht & Ha & off' & Hin & Ho). split; [lia|]. split; [exact Ha|]. exists off'. split; [right; exact Hin|exact Ho].
        -- destruct IH as (Ht & off' & Hin). split; [lia|]. exists off'. right; exact Hin.
Qed.

(* a non-answer is never returned, whatever arrives *)
Lemma dgram_loop_spec (T : N) (qs : list N) (n : nat) : forall k base sends atts res s,
  dgram_loop T qs n k base sends atts = (res, s) ->
  sends <= s <= sends + N.of_nat n /\
  match res with
  | DOk k' t m =>
      k <= k' /\ base <= t <= base + N.of_nat n * T /\
      exists a, nth_error atts (N.to_nat (k' - k)) = Some a /\
        is_answer (mkReq (a_id a) qs) m = true /\
        (exists off, In (off, PMsg m) (a_pkts a) /\ off <= T)
  | DErr e t => base <= t <= base + N.of_nat n * T /\
                (e = 4 -> t = base + N.of_nat n * T /\ s = sends + N.of_nat n)
  end.
Proof.
  induction n as [|n IH]; intros k base sends atts res s H; cbn [dgram_loop] in H.
  - inversion H; subst. split; [lia|]. split; [lia|]. intros _. lia.
  - destruct atts as [|a rest]; cbn [hd tl] in H.
    + (* script exhausted: silent attempts *)
      cbn [silent_attempt a_fault a_id a_pkts] in H.
      assert (Hr : recv_loop T (mkReq 0 qs) 0 [] = RTimeout) by (cbn; destruct (dgram_loop_cond T 0); reflexivity).
      rewrite Hr in H. apply IH in H. destruct H as (Hs & Hres). split; [lia|].
      destruct res as [k' t m|e t].
      * destruct Hres as (_ & _ & a & Hn & _). destruct (N.to_nat (k' - (k + 1))); discriminate.
      * destruct Hres as (Ht & He). split; [lia|]. intros E. specialize (He E). lia.
    + destruct (a_fault a) eqn:Ef.
      * pose proof (recv_loop_spec T (mkReq (a_id a) qs) (a_pkts a) 0 ltac:(lia)) as Hrl.
        destruct (recv_loop T (mkReq (a_id a) qs) 0 (a_pkts a)) as [t m|t|] eqn:Er.
        -- inversion H; subst. destruct Hrl as (Ht & Ha & Hin). split; [lia|]. split; [lia|]. split; [lia|].
           exists a. replace (N.to_nat (k - k)) with O by lia. cbn. auto.
        -- inversion H; subst. split; [lia|]. split; [lia|]. intros E; discriminate.
        -- apply IH in H. destruct H as (Hs & Hres). split; [lia|].
           destruct res as [k' t m|e t].
           ++ destruct Hres as (Hk & Ht & a' & Hn & Hrest). split; [lia|]. split; [lia|].
              exists a'. split; [|exact Hrest].
              replace (N.to_nat (k' - k)) with (S (N.to_nat (k' - (k + 1)))) by lia. exact Hn.
           ++ destruct Hres as (Ht & He). split; [lia|]. intros E. specialize (He E). lia.
      * inversion H; subst. split; [lia|]. split; [lia|]. intros E; discriminate.
      * inversion H; subst. split; [lia|]. split; [lia|]. intros E; discriminate.
      * inversion H; subst. split; [lia|]. split; [lia|]. intros E; discriminate.
Qed.

Lemma dgram_attempts_eq r : N.of_nat (N.to_nat (dgram_attempts r)) = 1 + r.
Proof. cbv [dgram_attempts]. lia. Qed.

(* Theorem: soundness -- a datagram handed to the caller is an answer to the
   request as sent in that attempt (its ID, the caller's questions) and did
   arrive on that attempt's socket inside the read timeout. *)
Theorem dgram_sound (retries T : N) (qs : list N) (atts : list attempt) k t m s :
  dgram_run retries T qs atts = (DOk k t m, s) ->
  exists a, nth_error atts (N.to_nat k) = Some a /\
    answers (mkReq (a_id a) qs) m /\
    (exists off, In (off, PMsg m) (a_pkts a) /\ off <= T).
Proof.
  unfold dgram_run. intros H. apply dgram_loop_spec in H. destruct H as (_ & _ & _ & a & Hn & Ha & Hin).
  exists a. rewrite N.sub_0_r in Hn. split; [exact Hn|]. split; [apply is_answer_sound; exact Ha|exact Hin].
Qed.

(* Theorem: every request completes within (1 + max_retries) * read_timeout and
   sends at most 1 + max_retries datagrams; it ends in a timeout only after the
   whole budget was used. *)
Theorem dgram_terminates_within (retries T : N) (qs : list N) (atts : list attempt) res s :
  dgram_run retries T qs atts = (res, s) ->
  s <= 1 + retries /\
  match res with
  | DOk _ t _ => t <= (1 + retries) * T
  | DErr e t => t <= (1 + retries) * T /\ (e = 4 -> t = (1 + retries) * T /\ s = 1 + retries)
  end.
Proof.
  unfold dgram_run. intros H. apply dgram_loop_spec in H. rewrite dgram_attempts_eq in H.
  destruct H as (Hs & Hres). split; [lia|].
  destruct res as [k t m|e t]; [lia|].
  destruct Hres as (Ht & He). split; [lia|]. intros E. specialize (He E). lia.
Qed.

(* retry on timeout: when the first attempt brings nothing acceptable inside
   the window and a retry is allowed, the outcome is that of the remaining
   attempts, one read timeout later *)
Theorem dgram_retries_on_timeout (retries T : N) (qs : list N) a rest :
  a_fault a = FNone ->
  recv_loop T (mkReq (a_id a) qs) 0 (a_pkts a) = RTimeout ->
  dgram_run retries T qs (a :: rest) =
  dgram_loop T qs (N.to_nat retries) 1 T 1 rest.
Proof.
  intros Hf Hr. unfold dgram_run. cbv [dgram_attempts].
  replace (N.to_nat (1 + retries)) with (S (N.to_nat retries)) by lia.
  cbn [dgram_loop hd tl]. rewrite Hf, Hr. reflexivity.
Qed.

Example ex_dgram :
  dgram_run 2 50 [0]
    [mkAtt FNone 1000 [(10, PMsg (mkMsg 1001 true false 0 1 0 0 0 (Some [0]) (Some []) None)); (60, PMsg (mkMsg 1000 true false 0 1 0 0 0 (Some [0]) (Some []) None))];
     mkAtt FNone 1001 [(5, PGarbage); (7, PMsg (mkMsg 1000 true false 0 1 0 0 0 (Some [0]) (Some []) None)); (9, PMsg (mkMsg 1001 true true 0 1 0 0 0 (Some [0]) (Some []) None))]]
  = (DOk 1 59 (mkMsg 1001 true true 0 1 0 0 0 (Some [0]) (Some []) None), 2) /\
  dgram_run 2 50 [0] [] = (DErr 4 150, 3).
Proof. vm_compute. auto. Qed.

(* ------------------------------------------------------------ TC rule *)
Theorem tc_falls_back (m : msg) (tcp : tres) :
  m_tc m = true -> ds_result (TOk m) tcp = (tcp, true).
Proof. intros H. unfold ds_result. cbv [tc_falls_back_when_set]. rewrite H. reflexivity. Qed.

Theorem tc_never_from_datagram (udp tcp : tres) (m : msg) :
  ds_result udp tcp = (TOk m, false) -> udp = TOk m /\ m_tc m = false.
Proof.
  unfold ds_result. cbv [tc_falls_back_when_set]. destruct udp as [m'|e]; [|discriminate].
  destruct (m_tc m') eqn:E; intros H; inversion H; subst; auto.
Qed.

Example ex_tc : ds_result (TOk (mkMsg 1 true true 0 1 0 0 0 (Some [0]) (Some []) None)) (TErr 9) = (TErr 9, true).
Proof. reflexivity. Qed.

(* --------------------------------------- stream response-timeout config *)
(* what the documentation of set_response_timeout promises for a
   single-response request: the value set (clamped) is the one in force *)
Definition response_timeout_respected : Prop :=
  forall c t, effective_timeout (set_response_timeout c t) false = stream_limit t.

Lemma response_timeout_respected_if_assigned :
  set_rt_assigns_single = true -> response_timeout_respected.
Proof.
  intros H c t. unfold effective_timeout, set_response_timeout. cbv [run_selects_timeout_by_kind].
  rewrite H. reflexivity.
Qed.

(* the code as it is: set_response_timeout leaves single_response_timeout alone,
   and that is the field Transport::run uses for single-response requests *)
Lemma response_timeout_refuted :
  set_rt_assigns_single = false ->
  effective_timeout (set_response_timeout scfg_default 60) false = 19000 /\ ~ response_timeout_respected.
Proof.
  intros H. assert (E : effective_timeout (set_response_timeout scfg_default 60) false = 19000).
  { unfold effective_timeout, set_response_timeout. cbv [run_selects_timeout_by_kind]. rewrite H. reflexivity. }
  split; [exact E|]. intros Hr. specialize (Hr scfg_default 60). rewrite E in Hr. vm_compute in Hr. discriminate.
Qed.

Lemma streaming_timeout_respected c t :
  effective_timeout (set_streaming_response_timeout c t) true = stream_limit t.
Proof. reflexivity. Qed.

(* ------------------------------------------------ the response timer *)
(* unsolicited replies must not postpone the read timeout of the requests
   that are waiting *)
Definition junk_keeps_deadline : Prop :=
  forall timeout start arrivals, junk_deadline timeout start arrivals = start + timeout.

Lemma junk_keeps_deadline_if_known_only :
  timer_reset_requires_known_id = true -> junk_keeps_deadline.
Proof.
  intros H timeout start arrivals. induction arrivals as [|t rest IH]; cbn [junk_deadline]; [reflexivity|].
  destruct (run_timeout_fires (t - start) timeout); [reflexivity|].
  unfold timer_after_reply. rewrite H. exact IH.
Qed.

(* the code as it is: the timer is reset before the ID is looked up; a peer
   sending an unsolicited reply every 20 ms keeps a 60 ms timeout from firing *)
Lemma junk_extends_deadline_refuted :
  timer_reset_requires_known_id = false ->
  junk_deadline 60 0 [20; 40; 60; 80; 100; 120; 140; 160; 180; 200] = 260 /\ ~ junk_keeps_deadline.
Proof.
  intros H.
  assert (E : junk_deadline 60 0 [20; 40; 60; 80; 100; 120; 140; 160; 180; 200] = 260).
  { cbn [junk_deadline]. unfold timer_after_reply. rewrite H. vm_compute. reflexivity. }
  split; [exact E|]. intros Hk. rewrite (Hk 60 0 _) in E. discriminate.
Qed.

(* new requests on the connection do not move a deadline that is already armed *)
Lemma new_requests_keep_deadline timeout start arrivals :
  req_deadline timeout start arrivals = start + timeout.
Proof.
  induction arrivals as [|t rest IH]; cbn [req_deadline]; [reflexivity|].
  destruct (run_timeout_fires (t - start) timeout); [reflexivity|].
  unfold timer_after_request. cbv [insreq_arms_timer_only_if_none]. exact IH.
Qed.

Lemma first_request_arms_timer t : timer_after_request None t = Some t.
Proof. unfold timer_after_request. destruct insreq_arms_timer_only_if_none; reflexivity. Qed.

Example ex_req_deadline : req_deadline 200 0 [60; 120; 180; 240; 300] = 200.
Proof. vm_compute. reflexivity. Qed.

(* now that the two fixes are in /repo the conditional statements hold outright:
   reverting either fix flips the T1 boolean and breaks these proofs *)
Lemma response_timeout_respected_now : response_timeout_respected.
Proof. apply response_timeout_respected_if_assigned. reflexivity. Qed.

Lemma junk_keeps_deadline_now : junk_keeps_deadline.
Proof. apply junk_keeps_deadline_if_known_only. reflexivity. Qed.

(* -------------------------------------- idle timeout and edns-tcp-keepalive *)
(* an idle connection is closed exactly when the idle timeout has elapsed ... *)
Lemma idle_closes_iff resp idle since now :
  run_tick resp idle (TIdle since) now = TIdleTimeout <-> idle <= now - since.
Proof.
  cbn [run_tick]. cbv [run_idle_fires]. destruct (N.leb_spec idle (now - since)) as [Hl|Hl]; split; intros H0; try reflexivity; try lia; discriminate.
Qed.

(* ... which is what it finds when it wakes from the sleep it computed *)
Lemma idle_closes_after_sleep resp idle since now :
  since <= now ->
  run_tick resp idle (TIdle since) (now + run_sleep resp idle (TIdle since) now) = TIdleTimeout.
Proof. intros H. apply idle_closes_iff. cbn [run_sleep]. lia. Qed.

(* the response timeout needs the elapsed time to EXCEED it *)
Lemma response_timeout_fires_iff resp idle start now :
  run_tick resp idle (TActive (Some start)) now = TReadTimeout <-> resp < now - start.
Proof.
  cbn [run_tick]. cbv [run_timeout_fires]. destruct (N.ltb_spec resp (now - start)) as [Hl|Hl]; split; intros H0; try reflexivity; try lia; discriminate.
Qed.

(* no timer runs while the connection has neither a request nor an idle period *)
Lemma no_timer_without_request resp idle now : run_tick resp idle (TActive None) now = TActive None.
Proof. reflexivity. Qed.

(* the boolean the demultiplexer model keeps is the numeric idle timeout being
   zero, before and after a keepalive option *)
Lemma keepalive_idle_zero_consistent iz idle ka :
  iz = (idle =? 0) -> keepalive_idle_zero iz ka = (keepalive_idle idle ka =? 0).
Proof. intros ->. destruct ka as [[v|]|]; reflexivity. Qed.

(* a keepalive option without a timeout changes nothing; with timeout v the
   idle timeout becomes v * 100 ms, and only v = 0 closes the idle connection at once *)
Lemma keepalive_spec idle v now :
  keepalive_idle idle None = idle /\ keepalive_idle idle (Some None) = idle /\
  keepalive_idle idle (Some (Some v)) = 100 * v /\
  (go_idle (keepalive_idle idle (Some (Some v))) now = TIdleTimeout <-> v = 0).
Proof.
  cbv [keepalive_idle keepalive_units_ms go_idle]. repeat split; try reflexivity.
  - destruct (N.eqb_spec (100 * v) 0); [lia|discriminate].
  - intros ->. reflexivity.
Qed.

(* ------------------------------------------------------- constants pinned *)
(* every numeric T1 item that the models use only as a parameter is pinned to a
   consequence, so that a changed value breaks this lemma *)
Lemma constants_pinned :
  (* dgram: 1 + max_retries is u8 arithmetic and must not overflow at the limit *)
  dgram_attempts dgram_retries_max <= 255 /\ dgram_retries_default <= dgram_retries_max /\
  (* worst-case time budgets of the datagram transport, default and maximum (ms) *)
  dgram_attempts dgram_retries_default * dgram_timeout_default_ms = 30000 /\
  dgram_attempts dgram_retries_max * dgram_timeout_max_ms = 6060000 /\
  0 < dgram_timeout_min_ms /\
  (* the receive loop runs exactly while the deadline lies in the future *)
  (forall T, dgram_loop_cond T T = false /\ dgram_loop_cond (T + 1) T = true) /\
  (* stream response timeout: default 19 s, clamped to [1 ms, 600 s] *)
  stream_timeout_default_ms = 19000 /\ stream_limit 0 = 1 /\ stream_limit 1000000000 = 600000 /\
  (forall t, stream_timeout_min_ms <= stream_limit t <= stream_timeout_max_ms) /\
  (* idle timeout: default 10 s, zero allowed, at most one hour *)
  idle_timeout_default_ms = 10000 /\ idle_timeout_max_ms = 3600000 /\
  (* the table index must fit the 16 bit message ID *)
  idle_timeout_default_ms <= idle_timeout_max_ms /\ idx_limit = 65536.
Proof.
  cbv [dgram_attempts dgram_retries_max dgram_retries_default dgram_timeout_default_ms dgram_timeout_max_ms
       dgram_timeout_min_ms dgram_loop_cond stream_timeout_default_ms stream_limit defminmax_limit
       stream_timeout_min_ms stream_timeout_max_ms idle_timeout_default_ms idle_timeout_max_ms idx_limit].
  repeat split; try lia; try reflexivity.
Qed.

(* at the deadline nothing more is received *)
Lemma recv_loop_at_deadline T r pkts : recv_loop T r T pkts = RTimeout.
Proof.
  destruct pkts as [|[off p] rest]; cbn [recv_loop]; cbv [dgram_loop_cond];
    destruct (N.ltb_spec T T); try lia; reflexivity.
Qed.

(* set_response_timeout writes every per-kind timeout field Transport::run reads *)
Lemma config_setter_covers_run : set_rt_covers_run_reads = true /\ cfg_response_timeout_fields = 3.
Proof. split; reflexivity. Qed.

(* the largest request the stream framing accepts fits its 16 bit length prefix:
   a longer one would be written with a wrapped length and desynchronise the
   connection for every request multiplexed on it *)
Lemma stream_frame_length_fits : stream_max_message_len < 65536 /\ stream_max_message_len = 65535.
Proof. split; reflexivity. Qed.
