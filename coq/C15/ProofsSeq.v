(* C15 proofs, part 2: all operation sequences on the outstanding-query table.
   The table refines a finite map ID -> request; IDs handed out by insert are
   fresh with respect to that map. *)
From Coq Require Import NArith ZArith List Bool Lia ZifyN ZifyBool ZifyNat Sorted.
From DV Require Import Base.Outcome C15.Gen C15.Model C15.Proofs.
Import ListNotations.
Local Open Scope N_scope.
Ltac Zify.zify_post_hook ::= Z.div_mod_to_equations.

(* ------------------------------------------------------------------ drain *)

(* l lists, in increasing ID order and each exactly once, the requests the
   map m holds *)
Definition drained {T} (m : N -> option T) (l : list T) : Prop :=
  exists ids, StronglySorted N.lt ids /\
    (forall i, In i ids <-> m i <> None) /\
    map m ids = map (@Some T) l.

Lemma drained_list {T} (v : list (option T)) (base : N) :
  exists ids, StronglySorted N.lt ids /\
    (forall i, In i ids <-> (base <= i /\ exists r, nth_error v (N.to_nat (i - base)) = Some (Some r))) /\
    map (fun i => nth_error v (N.to_nat (i - base))) ids = map (fun r => Some (Some r)) (flatten_opt v).
Proof.
  revert base. induction v as [|a v IH]; intros base.
  - exists []. split; [constructor|]. split; [|reflexivity].
    intros i. split; [intros []|]. intros (_ & r & Hr). destruct (N.to_nat (i - base)); discriminate.
  - destruct (IH (N.succ base)) as (ids & Hs & Hin & Hmap).
    assert (Hshift : forall i, N.succ base <= i ->
              nth_error (a :: v) (N.to_nat (i - base)) = nth_error v (N.to_nat (i - N.succ base))).
    { intros i Hi. replace (N.to_nat (i - base)) with (S (N.to_nat (i - N.succ base))) by lia. reflexivity. }
    assert (Hge : forall i, In i ids -> N.succ base <= i) by (intros i Hi; apply Hin in Hi; tauto).
    assert (Hmap' : map (fun i => nth_error (a :: v) (N.to_nat (i - base))) ids
                    = map (fun r => Some (Some r)) (flatten_opt v)).
    { rewrite <- Hmap. apply map_ext_in. intros i Hi. apply Hshift. auto. }
    destruct a as [x|].
    + exists (base :: ids). split; [|split].
      * constructor; [exact Hs|]. apply Forall_forall. intros i Hi. apply Hge in Hi. lia.
      * intros i. split.
        -- intros [<-|Hi].
           ++ split; [lia|]. exists x. replace (N.to_nat (base - base)) with O by lia. reflexivity.
           ++ pose proof (Hge _ Hi) as Hg. apply Hin in Hi. destruct Hi as (_ & r & Hr).
              split; [lia|]. exists r. rewrite Hshift by exact Hg. exact Hr.
        -- intros (Hb & r & Hr). destruct (N.eq_dec i base) as [->|Hne]; [left; reflexivity|right].
           apply Hin. split; [lia|]. exists r. rewrite <- Hshift by lia. exact Hr.
      * cbn [map flatten_opt]. replace (N.to_nat (base - base)) with O by lia. cbn [nth_error].
        f_equal. exact Hmap'.
    + exists ids. split; [exact Hs|]. split; [|exact Hmap'].
      intros i. split.
      * intros Hi. pose proof (Hge _ Hi) as Hg. apply Hin in Hi. destruct Hi as (_ & r & Hr).
        split; [lia|]. exists r. rewrite Hshift by exact Hg. exact Hr.
      * intros (Hb & r & Hr). destruct (N.eq_dec i base) as [->|Hne].
        -- replace (N.to_nat (base - base)) with O in Hr by lia. discriminate.
        -- apply Hin. split; [lia|]. exists r. rewrite <- Hshift by lia. exact Hr.
Qed.

Lemma drain_spec {T} (q : queries T) :
  exists q', q_drain q = (q', flatten_opt (q_vec q)) /\ q_inv q' /\
    (forall j, q_get q' j = None) /\ q_count q' = 0 /\
    drained (q_get q) (flatten_opt (q_vec q)).
Proof.
  unfold q_drain. cbv [drain_count drain_curr]. eexists. split; [reflexivity|].
  split; [apply q_inv_new|]. split; [|split; [reflexivity|]].
  - intros j. unfold q_get, slot_at. cbn [q_vec]. destruct (N.to_nat j); reflexivity.
  - destruct (drained_list (q_vec q) 0) as (ids & Hs & Hin & Hmap).
    exists ids. split; [exact Hs|]. split.
    + intros i. rewrite Hin. unfold q_get, slot_at. rewrite N.sub_0_r. split.
      * intros (_ & r & ->). discriminate.
      * intros H. split; [lia|]. destruct (nth_error (q_vec q) (N.to_nat i)) as [[r|]|]; try congruence. eauto.
    + assert (E : map (q_get q) ids =
                  map (fun o => match o with Some (Some r) => Some r | _ => None end)
                      (map (fun i => nth_error (q_vec q) (N.to_nat (i - 0))) ids)).
      { rewrite map_map. apply map_ext. intros i. unfold q_get, slot_at. rewrite N.sub_0_r. reflexivity. }
      rewrite E, Hmap, map_map. reflexivity.
Qed.

Lemma drained_length {T} (m : N -> option T) l ids :
  map m ids = map (@Some T) l -> length ids = length l.
Proof. intros H. apply (f_equal (@length _)) in H. rewrite !map_length in H. exact H. Qed.

(* ------------------------------------------ head-first execution = fold_left *)
Fixpoint q_exec {T} (q : queries T) (ops : list (qop T)) : outcome (queries T * list (qobs T)) :=
  match ops with
  | [] => Ok (q, [])
  | o :: rest =>
      do (q', ob) <- q_step q o;
      do (q'', tr) <- q_exec q' rest;
      Ok (q'', ob :: tr)
  end.

Lemma fold_q_acc_fail {T} (ops : list (qop T)) (x : outcome (queries T * list (qobs T))) :
  (forall p, x <> Ok p) -> fold_left q_acc ops x = x.
Proof.
  revert x. induction ops as [|o ops IH]; intros x Hx; [reflexivity|].
  cbn [fold_left]. assert (q_acc x o = x) as ->.
  { destruct x as [p| | |]; try reflexivity. exfalso. eapply Hx; reflexivity. }
  apply IH. exact Hx.
Qed.

Lemma fold_q_acc_exec {T} (ops : list (qop T)) (q : queries T) (tr0 : list (qobs T)) :
  fold_left q_acc ops (Ok (q, tr0)) =
  match q_exec q ops with
  | Ok (q', tr) => Ok (q', tr0 ++ tr)
  | Err e => Err e | Panic s => Panic s | OutOfFuel => OutOfFuel
  end.
Proof.
  revert q tr0. induction ops as [|o ops IH]; intros q tr0.
  - cbn. rewrite app_nil_r. reflexivity.
  - cbn [fold_left q_exec]. unfold q_acc at 2. cbn [bind].
    destruct (q_step q o) as [[q1 ob]| | |]; cbn [bind].
    + rewrite IH. destruct (q_exec q1 ops) as [[q2 tr]| | |]; cbn [bind]; try reflexivity.
      rewrite <- app_assoc. reflexivity.
    + apply fold_q_acc_fail. intros p; discriminate.
    + apply fold_q_acc_fail. intros p; discriminate.
    + apply fold_q_acc_fail. intros p; discriminate.
Qed.

Lemma q_run_from_exec {T} (q : queries T) ops : q_run_from q ops = q_exec q ops.
Proof.
  unfold q_run_from. rewrite fold_q_acc_exec.
  destruct (q_exec q ops) as [[q' tr]| | |]; reflexivity.
Qed.

(* -------------------------------------------- the abstract map and its replay *)
Definition a_step {T} (m : N -> option T) (o : qop T) (ob : qobs T) : N -> option T :=
  match o, ob with
  | OIns r, RIns (Some idx) => upd m idx r
  | OInsAt i r, _ => upd m i r
  | ORem i, _ => clr m i
  | ODrain, _ => a_empty
  | _, _ => m
  end.

(* what an observation must satisfy with respect to the map before the step *)
Definition a_ok {T} (m : N -> option T) (o : qop T) (ob : qobs T) : Prop :=
  match o, ob with
  | OIns r, RIns (Some idx) => m idx = None /\ idx < 65536
  | OIns r, RIns None => True
  | OInsAt i r, RInsAt => True
  | ORem i, RRem res => res = m i
  | ODrain, RDrain l => drained m l
  | _, _ => False
  end.

Fixpoint a_trace_ok {T} (m : N -> option T) (ops : list (qop T)) (tr : list (qobs T)) : Prop :=
  match ops, tr with
  | [], [] => True
  | o :: os, ob :: obs => a_ok m o ob /\ a_trace_ok (a_step m o ob) os obs
  | _, _ => False
  end.

Fixpoint a_final {T} (m : N -> option T) (ops : list (qop T)) (tr : list (qobs T)) : N -> option T :=
  match ops, tr with
  | o :: os, ob :: obs => a_final (a_step m o ob) os obs
  | _, _ => m
  end.

Lemma drained_ext {T} (m m' : N -> option T) l : (forall i, m i = m' i) -> drained m l -> drained m' l.
Proof.
  intros E (ids & Hs & Hin & Hmap). exists ids. split; [exact Hs|]. split.
  - intros i. rewrite <- E. apply Hin.
  - rewrite <- Hmap. apply map_ext. intros i. symmetry. apply E.
Qed.

(* one step: no panic, invariant kept, observation consistent with the map *)
Lemma step_refines {T} (q : queries T) (m : N -> option T) (o : qop T) :
  q_inv q -> (forall i, q_get q i = m i) -> q_pre q o ->
  exists q' ob, q_step q o = Ok (q', ob) /\ q_inv q' /\ a_ok m o ob /\
    (forall i, q_get q' i = a_step m o ob i).
Proof.
  intros Hinv Hm Hpre. destruct o as [r|i r|i|]; cbn [q_step].
  - destruct (insert_spec q r Hinv) as [(Hfull & E)|(Hroom & q' & idx & E & Hinv' & Hidx & Hfree & Hget & _)].
    + rewrite E. cbn [bind]. exists q, (RIns None). split; [reflexivity|]. split; [exact Hinv|]. split; [exact I|]. intros i; cbn; apply Hm.
    + rewrite E. cbn [bind]. exists q', (RIns (Some idx)). split; [reflexivity|]. split; [exact Hinv'|].
      split; [cbn; rewrite <- Hm; auto|].
      intros i. cbn [a_step]. rewrite Hget. unfold upd. rewrite Hm. reflexivity.
  - cbn in Hpre. destruct (insert_at_spec q i r Hinv Hpre) as (q' & E & Hinv' & Hget & _).
    rewrite E. cbn [bind]. exists q', RInsAt. split; [reflexivity|]. split; [exact Hinv'|]. split; [exact I|].
    intros j. cbn [a_step]. rewrite Hget. unfold upd. rewrite Hm. reflexivity.
  - destruct (remove_spec q i Hinv) as (q' & E & Hinv' & Hget & _). rewrite E.
    exists q', (RRem (q_get q i)). split; [reflexivity|]. split; [exact Hinv'|]. split; [cbn; apply Hm|].
    intros j. cbn [a_step]. rewrite Hget. unfold clr. rewrite Hm. reflexivity.
  - destruct (drain_spec q) as (q' & E & Hinv' & Hget & _ & Hdr). rewrite E.
    exists q', (RDrain (flatten_opt (q_vec q))). split; [reflexivity|]. split; [exact Hinv'|].
    split; [cbn; eapply drained_ext; eauto|]. intros j. cbn [a_step]. rewrite Hget. reflexivity.
Qed.

Lemma exec_refines {T} (ops : list (qop T)) : forall (q : queries T) (m : N -> option T),
  q_inv q -> (forall i, q_get q i = m i) -> q_legal_from q ops ->
  exists q' tr, q_exec q ops = Ok (q', tr) /\ q_inv q' /\ a_trace_ok m ops tr /\
    (forall i, q_get q' i = a_final m ops tr i).
Proof.
  induction ops as [|o ops IH]; intros q m Hinv Hm Hleg.
  - exists q, []. cbn. auto.
  - cbn [q_legal_from] in Hleg. destruct Hleg as (Hpre & Hrest).
    destruct (step_refines q m o Hinv Hm Hpre) as (q1 & ob & E & Hinv1 & Hok & Hm1).
    rewrite E in Hrest. destruct (IH q1 (a_step m o ob) Hinv1 Hm1 Hrest) as (q2 & tr & E2 & Hinv2 & Htr & Hfin).
    exists q2, (ob :: tr). cbn [q_exec]. rewrite E. cbn [bind]. rewrite E2. cbn [bind].
    split; [reflexivity|]. split; [exact Hinv2|]. split; [cbn; auto|]. exact Hfin.
Qed.

(* Theorem (all operation sequences from the empty table): no panic site is
   reached, the representation invariant holds at the end, every observation is
   the one the finite map ID -> request prescribes and every handed-out index is
   below 65536 and free in that map. *)
Theorem queries_refine_map {T} (ops : list (qop T)) :
  q_legal ops ->
  exists q tr, q_run ops = Ok (q, tr) /\ q_inv q /\
    a_trace_ok a_empty ops tr /\ (forall i, q_get q i = a_final a_empty ops tr i).
Proof.
  intros Hleg. unfold q_run. rewrite q_run_from_exec.
  apply exec_refines; auto using q_inv_new.
  intros i. unfold q_get, slot_at, q_new. cbn. destruct (N.to_nat i); reflexivity.
Qed.

(* sequences without insert_at are always legal *)
Fixpoint no_insert_at {T} (ops : list (qop T)) : Prop :=
  match ops with
  | [] => True
  | OInsAt _ _ :: _ => False
  | _ :: r => no_insert_at r
  end.

Lemma no_insert_at_legal {T} (ops : list (qop T)) : forall q, no_insert_at ops -> q_legal_from q ops.
Proof.
  induction ops as [|o ops IH]; intros q H; cbn; [exact I|].
  destruct o; cbn in H; try contradiction; (split; [exact I|]);
    destruct (q_step q _) as [[q' ob]| | |]; auto.
Qed.

(* ---------------------------------------------------- consequences on traces *)
Lemma a_trace_ok_length {T} (ops : list (qop T)) : forall m tr, a_trace_ok m ops tr -> length tr = length ops.
Proof.
  induction ops as [|o ops IH]; intros m [|ob tr] H; cbn in H; try contradiction; [reflexivity|].
  cbn. f_equal. eapply IH. apply H.
Qed.

Lemma a_trace_ok_app {T} (ops1 : list (qop T)) : forall m tr1 ops2 tr2,
  length ops1 = length tr1 ->
  a_trace_ok m (ops1 ++ ops2) (tr1 ++ tr2) ->
  a_trace_ok m ops1 tr1 /\ a_trace_ok (a_final m ops1 tr1) ops2 tr2.
Proof.
  induction ops1 as [|o ops1 IH]; intros m [|ob tr1] ops2 tr2 Hl H; cbn in Hl; try discriminate.
  - cbn. auto.
  - cbn in H. destruct H as (Hok & H). apply IH in H; [|lia]. cbn. tauto.
Qed.

(* an ID that the map holds stays held by the same request until a try_remove
   of that ID or a drain *)
Definition clearsb {T} (idx : N) (o : qop T) : bool :=
  match o with ORem i => i =? idx | ODrain => true | _ => false end.
Definition clears {T} (idx : N) (o : qop T) : Prop := clearsb idx o = true.

Lemma held_until_cleared {T} (ops : list (qop T)) : forall (m : N -> option T) tr idx r,
  m idx = Some r -> a_trace_ok m ops tr ->
  (forall o, In o ops -> ~ clears idx o) ->
  (forall i r', In (OInsAt i r') ops -> i <> idx) ->
  a_final m ops tr idx = Some r /\
  forall k r', nth_error ops k = Some (OIns r') -> nth_error tr k <> Some (RIns (Some idx)).
Proof.
  induction ops as [|o ops IH]; intros m [|ob tr] idx r Hm H Hnc Hnia; cbn in H; try contradiction.
  - split; [exact Hm|]. intros [|k] r' Hk; discriminate.
  - destruct H as (Hok & H).
    assert (Hm' : a_step m o ob idx = Some r).
    { destruct o as [r0|i r0|i|]; destruct ob as [[j|]| | |]; cbn in Hok |- *; try contradiction; try exact Hm.
      - unfold upd. destruct (N.eqb_spec idx j) as [->|]; [destruct Hok; congruence|exact Hm].
      - unfold upd. destruct (N.eqb_spec idx i) as [->|]; [|exact Hm].
        exfalso. eapply Hnia; [left; reflexivity|reflexivity].
      - unfold clr. destruct (N.eqb_spec idx i) as [->|]; [|exact Hm].
        exfalso. apply (Hnc (ORem i)); [left; reflexivity|unfold clears; cbn; apply N.eqb_refl].
      - exfalso. apply (Hnc ODrain); [left; reflexivity|reflexivity]. }
    destruct (IH _ _ _ _ Hm' H) as (Hfin & Hno).
    + intros o' Ho'. apply Hnc. right; exact Ho'.
    + intros i r' Hi. eapply Hnia. right; exact Hi.
    + split; [exact Hfin|]. intros [|k] r' Hk; cbn in Hk |- *.
      * inversion Hk; subst. intros E. inversion E; subst. cbn in Hok. destruct Hok. congruence.
      * eapply Hno; eauto.
Qed.

(* no two live requests share an ID: between two inserts that return the same
   index there is a try_remove of that index or a drain *)
Theorem no_id_reuse_while_live {T} (ops1 ops2 ops3 : list (qop T)) tr1 tr2 tr3 r1 r2 idx q :
  q_legal (ops1 ++ OIns r1 :: ops2 ++ OIns r2 :: ops3) ->
  q_run (ops1 ++ OIns r1 :: ops2 ++ OIns r2 :: ops3) =
    Ok (q, tr1 ++ RIns (Some idx) :: tr2 ++ RIns (Some idx) :: tr3) ->
  length tr1 = length ops1 -> length tr2 = length ops2 ->
  (forall i r', In (OInsAt i r') ops2 -> i <> idx) ->
  exists o, In o ops2 /\ clears idx o.
Proof.
  intros Hleg Hrun Hl1 Hl2 Hnia.
  destruct (queries_refine_map _ Hleg) as (q' & tr & E & _ & Htr & _).
  rewrite Hrun in E. inversion E; subst q' tr. clear E.
  apply a_trace_ok_app in Htr; [|lia]. destruct Htr as (_ & Htr).
  cbn in Htr. destruct Htr as ((Hfree & _) & Htr).
  set (m1 := upd (a_final a_empty ops1 tr1) idx r1) in *.
  apply a_trace_ok_app in Htr; [|lia]. destruct Htr as (Htr2 & Htr3).
  cbn in Htr3. destruct Htr3 as ((Hfree2 & _) & _).
  destruct (existsb (clearsb idx) ops2) eqn:Eex.
  - apply existsb_exists in Eex. destruct Eex as (o & Ho & Hc). exists o. split; assumption.
  - exfalso.
    assert (Hall : forall o, In o ops2 -> ~ clears idx o).
    { intros o Ho Hc. assert (existsb (clearsb idx) ops2 = true) as E by (apply existsb_exists; eauto). congruence. }
    assert (Hm1 : m1 idx = Some r1) by (unfold m1, upd; rewrite N.eqb_refl; reflexivity).
    destruct (held_until_cleared ops2 m1 tr2 idx r1 Hm1 Htr2 Hall Hnia) as (Hfin & _). congruence.
Qed.

(* try_remove returns exactly the request that insert stored under that ID *)
Theorem remove_returns_inserted {T} (ops1 ops2 ops3 : list (qop T)) tr1 tr2 tr3 r idx res q :
  q_legal (ops1 ++ OIns r :: ops2 ++ ORem idx :: ops3) ->
  q_run (ops1 ++ OIns r :: ops2 ++ ORem idx :: ops3) =
    Ok (q, tr1 ++ RIns (Some idx) :: tr2 ++ RRem res :: tr3) ->
  length tr1 = length ops1 -> length tr2 = length ops2 ->
  (forall o, In o ops2 -> ~ clears idx o) ->
  (forall i r', In (OInsAt i r') ops2 -> i <> idx) ->
  res = Some r.
Proof.
  intros Hleg Hrun Hl1 Hl2 Hnc Hnia.
  destruct (queries_refine_map _ Hleg) as (q' & tr & E & _ & Htr & _).
  rewrite Hrun in E. inversion E; subst q' tr. clear E.
  apply a_trace_ok_app in Htr; [|lia]. destruct Htr as (_ & Htr).
  cbn in Htr. destruct Htr as (_ & Htr).
  set (m1 := upd (a_final a_empty ops1 tr1) idx r) in *.
  apply a_trace_ok_app in Htr; [|lia]. destruct Htr as (Htr2 & Htr3).
  cbn in Htr3. destruct Htr3 as (Hres & _).
  assert (Hm1 : m1 idx = Some r) by (unfold m1, upd; rewrite N.eqb_refl; reflexivity).
  destruct (held_until_cleared ops2 m1 tr2 idx r Hm1 Htr2 Hnc Hnia) as (Hfin & _). congruence.
Qed.

(* the index cannot be returned by another insert while the request is live *)
Theorem live_id_not_handed_out {T} (ops1 ops2 : list (qop T)) tr1 tr2 r idx q k r' :
  q_legal (ops1 ++ OIns r :: ops2) ->
  q_run (ops1 ++ OIns r :: ops2) = Ok (q, tr1 ++ RIns (Some idx) :: tr2) ->
  length tr1 = length ops1 ->
  (forall o, In o ops2 -> ~ clears idx o) ->
  (forall i r', In (OInsAt i r') ops2 -> i <> idx) ->
  nth_error ops2 k = Some (OIns r') -> nth_error tr2 k <> Some (RIns (Some idx)).
Proof.
  intros Hleg Hrun Hl1 Hnc Hnia Hk.
  destruct (queries_refine_map _ Hleg) as (q' & tr & E & _ & Htr & _).
  rewrite Hrun in E. inversion E; subst q' tr. clear E.
  apply a_trace_ok_app in Htr; [|lia]. destruct Htr as (_ & Htr).
  cbn in Htr. destruct Htr as (_ & Htr).
  set (m1 := upd (a_final a_empty ops1 tr1) idx r) in *.
  assert (Hm1 : m1 idx = Some r) by (unfold m1, upd; rewrite N.eqb_refl; reflexivity).
  destruct (held_until_cleared ops2 m1 tr2 idx r Hm1 Htr Hnc Hnia) as (_ & Hno). eapply Hno; eauto.
Qed.

(* capacity: insert fails exactly when 32768 requests are live *)
Theorem insert_full_iff {T} (q : queries T) r :
  q_inv q -> (exists q', q_insert q r = Ok (q', None)) <-> 32768 <= q_count q.
Proof.
  intros Hinv. destruct (insert_spec q r Hinv) as [(Hfull & E)|(Hroom & q' & idx & E & _)].
  - split; [auto|]. intros _. eauto.
  - split; [|lia]. intros (q'' & E'). rewrite E in E'. discriminate.
Qed.

(* ------------------------------------------------------------ non-vacuity *)
Example ex_run :
  @q_run N [OIns 10; OIns 11; OIns 12; ORem 1; OIns 13; ORem 0; ORem 0; OInsAt 0 14; OIns 15; ODrain; OIns 16] =
  Ok (mkQ 1 1 [Some 16],
      [RIns (Some 0); RIns (Some 1); RIns (Some 2); RRem (Some 11); RIns (Some 3); RRem (Some 10); RRem None;
       RInsAt; RIns (Some 4); RDrain [14; 12; 13; 15]; RIns (Some 0)]).
Proof. vm_compute. reflexivity. Qed.

Example ex_legal : @q_legal N [OIns 10; OIns 11; ORem 0; OInsAt 0 14].
Proof. vm_compute. repeat split. Qed.

(* insert_at on an occupied slot (precondition violated) breaks count: this is
   why q_legal is a premise *)
Example ex_insert_at_occupied :
  exists q tr, @q_run N [OIns 1; OInsAt 0 2] = Ok (q, tr) /\ q_count q = 2 /\ count_some (q_vec q) = 1.
Proof. eexists _, _. vm_compute. auto. Qed.

Example ex_insert_at_out_of_range : @q_run N [OInsAt 0 2] = Panic 3.
Proof. vm_compute. reflexivity. Qed.

Example ex_reuse_after_remove :
  exists q, @q_run N ([] ++ OIns 1 :: [ORem 0] ++ OIns 2 :: []) =
    Ok (q, [] ++ RIns (Some 0) :: [RRem (Some 1)] ++ RIns (Some 0) :: []).
Proof. eexists. vm_compute. reflexivity. Qed.

(* ---------------------------------------------- the prefilled table (driver) *)
Lemma scan_from_end {T} (v : list (option T)) : scan_from (lenN v) v = None.
Proof. unfold scan_from, lenN. rewrite Nat2N.id, skipn_all. reflexivity. Qed.

Lemma prefill_insert (pre : list N) (v : N) :
  lenN pre <= 32767 ->
  q_insert (c15_prefill pre) v = Ok (c15_prefill (pre ++ [v]), Some (lenN pre)).
Proof.
  intros Hl. unfold q_insert, c15_prefill. cbn [q_count q_curr q_vec].
  assert (Hlm : lenN (map (@Some N) pre) = lenN pre) by (unfold lenN; rewrite map_length; reflexivity).
  cbv [ins_full]. destruct (N.ltb_spec 65535 (2 * lenN pre)) as [|_]; [lia|].
  cbv [ins_scan_from_curr]. rewrite Hlm.
  assert (Hfound : (if ins_scan (lenN pre) (lenN pre) then scan_from (lenN pre) (map (@Some N) pre) else None) = None).
  { destruct (ins_scan _ _); [|reflexivity]. rewrite <- Hlm. apply scan_from_end. }
  rewrite Hfound. rewrite <- Hlm at 1. rewrite slot_at_app_last.
  cbv [idx_limit ins_bump ins_count_inc ins_curr_inc]. rewrite N.eqb_refl.
  destruct (N.ltb_spec (lenN pre) 65536) as [_|]; [|lia].
  rewrite map_app. cbn [map].
  assert (Happ : lenN (pre ++ [v]) = lenN pre + 1) by (unfold lenN; rewrite app_length; cbn [length]; lia).
  rewrite Happ. reflexivity.
Qed.

(* c15_prefill vals is the table that inserting vals into the empty table gives *)
Theorem fill_state (suf : list N) : forall pre,
  lenN (pre ++ suf) <= 32768 ->
  exists tr, q_exec (c15_prefill pre) (map OIns suf) = Ok (c15_prefill (pre ++ suf), tr).
Proof.
  induction suf as [|v suf IH]; intros pre Hl.
  - exists []. rewrite app_nil_r. reflexivity.
  - assert (Hpre : lenN pre <= 32767) by (unfold lenN in *; rewrite app_length in Hl; cbn [length] in Hl; lia).
    cbn [map q_exec q_step]. rewrite (prefill_insert pre v Hpre). cbn [bind].
    destruct (IH (pre ++ [v])) as (tr & E); [rewrite <- app_assoc; exact Hl|].
    rewrite E. cbn [bind]. rewrite <- app_assoc. cbn [app]. eexists. reflexivity.
Qed.

Example ex_prefill : c15_prefill [] = q_new. Proof. reflexivity. Qed.

Corollary fill_state_run (vals : list N) :
  lenN vals <= 32768 -> exists tr, q_run (map OIns vals) = Ok (c15_prefill vals, tr).
Proof.
  intros H. unfold q_run. rewrite q_run_from_exec. change (@q_new N) with (c15_prefill []).
  apply (fill_state vals []). exact H.
Qed.
