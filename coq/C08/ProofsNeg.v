(* C08 -- round 5 widening: negative answers (SOA in the authority section for every tree,
   whatever its history), NODATA for existing names / empty non-terminals, NXDOMAIN exactly when
   neither the name nor the closest encloser's wildcard exists, wildcard synthesis, iter_zones. *)
From Coq Require Import NArith List Bool Lia.
From DV Require Import Base.Outcome C08.Gen C08.Model C08.Spec C08.ProofsQuery C08.ProofsBuild C08.ProofsTree.
Import ListNotations.
Local Open Scope N_scope.

(* ------------------------------------------------------------------ every NodeAnswer is one of five forms *)
Definition shape (a : nanswer) : Prop :=
  (exists r, a = NA_data r) \/ a = NA_no_data \/ (exists c, a = NA_cname c) \/ a = NA_nx_domain \/ (exists c, a = NA_authority c).

Lemma shape_nx : shape NA_nx_domain.
Proof. right; right; right; left; reflexivity. Qed.
Lemma shape_nodata : shape NA_no_data.
Proof. right; left; reflexivity. Qed.
Lemma shape_data r : shape (NA_data r).
Proof. left; eexists; reflexivity. Qed.
Lemma shape_cname c : shape (NA_cname c).
Proof. right; right; left; eexists; reflexivity. Qed.
Lemma shape_auth c : shape (NA_authority c).
Proof. right; right; right; right; eexists; reflexivity. Qed.

Lemma shape_rrsets rs qt : shape (query_rrsets rs qt).
Proof.
  unfold query_rrsets. destruct (qt =? any_type).
  - destruct rs; [apply shape_nodata | apply shape_data].
  - destruct (get_rrset qt rs); [apply shape_data | apply shape_nodata].
Qed.

Lemma shape_at_cut c qt : shape (query_at_cut c qt).
Proof.
  unfold query_at_cut. destruct (qt =? cut_answers_type).
  - destruct (c_ds c); [apply shape_data | apply shape_nodata].
  - apply shape_auth.
Qed.

Lemma shape_here n qt : shape (here_but_not_below n qt).
Proof.
  unfold here_but_not_below. destruct (n_special n) as [[c|c|]|].
  - apply shape_at_cut.
  - apply shape_cname.
  - destruct marker_answers_like_unmarked; [apply shape_rrsets | apply shape_nx].
  - apply shape_rrsets.
Qed.

Lemma shape_children rec cs l qt : (forall c, shape (rec c)) -> shape (query_children rec cs l qt).
Proof.
  intros H. unfold query_children. destruct (find_existing l cs); [apply H|].
  destruct children_exact_then_wildcard; [|apply shape_nx].
  destruct (find_existing wild_label cs); [apply shape_here | apply shape_nx].
Qed.

Lemma shape_node q : forall n qt, shape (query_node n q qt).
Proof.
  induction q as [|l q IH]; intros n qt; simpl.
  - apply shape_here.
  - destruct (n_special n) as [[c|c|]|].
    + apply shape_auth.
    + apply shape_children; intros; apply IH.
    + first [ apply shape_children; intros; apply IH
            | destruct marker_descends_like_unmarked; [apply shape_children; intros; apply IH | apply shape_nx] ].
    + apply shape_children; intros; apply IH.
Qed.

Lemma shape_apex z q qt : shape (query_apex z q qt).
Proof.
  unfold query_apex. destruct q; [apply shape_rrsets|].
  apply shape_children; intros; apply shape_node.
Qed.

(* any tree -- built, updated, rolled back, with or without markers: a negative answer
   (no data, authoritative: NODATA and NXDOMAIN) carries the zone's SOA and nothing else *)
Theorem negative_carries_soa z q qt s : get_soa z = Some s ->
  a_content (query z q qt) = ANoData -> a_aa (query z q qt) = true ->
  a_auth (query z q qt) = Some (mkAuth [] (Some s) None None) /\ a_addl (query z q qt) = [].
Proof.
  intros Hs. unfold query, into_answer. rewrite Hs.
  destruct (shape_apex z q qt) as [[r H]|[H|[[c H]|[H|[c H]]]]]; rewrite H; cbn; intros Hc Haa;
    try discriminate; auto.
Qed.

Theorem nxdomain_answer_form z q qt : a_rcode (query z q qt) = rc_nxdomain ->
  a_content (query z q qt) = ANoData /\ a_aa (query z q qt) = true /\ a_addl (query z q qt) = [] /\
  a_auth (query z q qt) = match get_soa z with Some s => Some (mkAuth [] (Some s) None None) | None => None end.
Proof.
  unfold query, into_answer.
  destruct (shape_apex z q qt) as [[r H]|[H|[[c H]|[H|[c H]]]]]; rewrite H; cbn; intros Hr;
    try discriminate; repeat split; auto;
  try (destruct (get_soa z); reflexivity).
Qed.

(* only referrals are not authoritative; data / alias / referral answers never get the SOA *)
Theorem non_authoritative_is_referral z q qt : a_aa (query z q qt) = false ->
  exists c, a_auth (query z q qt) = Some (mkAuth (c_name c) None (Some (c_ns c)) (c_ds c)) /\
            a_addl (query z q qt) = c_glue c /\ a_content (query z q qt) = ANoData /\
            a_rcode (query z q qt) = rc_noerror.
Proof.
  unfold query, into_answer.
  destruct (shape_apex z q qt) as [[r H]|[H|[[c H]|[H|[c H]]]]]; rewrite H; cbn; intros Hr;
    try discriminate.
  exists c; repeat split; reflexivity.
Qed.

Definition ex_z : node := Node [mkRrset 6 10 [mkRd 1 None]] None [(1, Node [] None [(2, Node [mkRrset 1 5 [mkRd 7 None]] None [])])].
Example negative_carries_soa_nonvacuous :
  get_soa ex_z = Some (mkRr 10 (mkRd 1 None)) /\
  a_rcode (query ex_z [3] 1) = rc_nxdomain /\ a_aa (query ex_z [3] 1) = true /\
  a_content (query ex_z [1] 1) = ANoData /\ a_rcode (query ex_z [1] 1) = rc_noerror.
Proof. vm_compute. repeat split. Qed.

(* ------------------------------------------------------------------ built zones: NODATA, NXDOMAIN, wildcard *)
Lemma rc_at_cut c qt : na_rcode (spec_at_cut c qt) = rc_noerror.
Proof. unfold spec_at_cut. destruct (qt =? rt_ds); [destruct (c_ds c)|]; reflexivity. Qed.
Lemma rc_rrsets rs qt : na_rcode (spec_rrsets rs qt) = rc_noerror.
Proof.
  unfold spec_rrsets. destruct (qt =? rt_any); [destruct rs | destruct (get_rrset qt rs)]; reflexivity.
Qed.
Lemma rc_info G zf p qt : na_rcode (spec_at (info_at_g G zf p) qt) = rc_noerror.
Proof.
  unfold spec_at, info_at_g; cbn [i_special i_rrsets].
  destruct (cut_at_g G zf p); [apply rc_at_cut|].
  destruct (alookup p (zf_cnames zf)); [reflexivity | apply rc_rrsets].
Qed.

(* a name that exists (RFC 4592: owner names and their ancestors, so empty non-terminals too),
   is not at or below a delegation, is no alias and has no RRset of the type: NODATA with the SOA *)
Theorem nodata_for_existing_names zf q qt : wf_zone zf = true ->
  find_cut (flat_view zf) q = None -> exists_name zf q = true ->
  alookup q (zf_cuts zf) = None -> alookup q (zf_cnames zf) = None ->
  match alookup q (zf_normal zf) with
  | None => True
  | Some rs => qt <> rt_any /\ get_rrset qt rs = None
  end ->
  query (fst (zf_build zf)) q qt = finish (soa_of zf) spec_nodata.
Proof.
  intros W Hc He Hcu Hcn Hn. rewrite (build_answers_spec zf W). unfold spec, vspec. rewrite Hc.
  unfold vrest, flat_view, flat_view_g. rewrite He.
  unfold spec_at, info_at_g, cut_at_g; cbn [i_special i_rrsets]. rewrite Hcu, Hcn.
  destruct (alookup q (zf_normal zf)) as [rs|]; unfold spec_rrsets.
  - destruct Hn as [Hq Hg]. apply N.eqb_neq in Hq. rewrite Hq, Hg. reflexivity.
  - destruct (qt =? rt_any); reflexivity.
Qed.

(* NXDOMAIN exactly when the name is not at or below a delegation, does not exist, and the
   wildcard child of its closest encloser does not exist either *)
Theorem nxdomain_iff zf q qt : wf_zone zf = true ->
  (a_rcode (query (fst (zf_build zf)) q qt) = rc_nxdomain <->
   find_cut (flat_view zf) q = None /\ exists_name zf q = false /\
   exists_name zf (closest_encloser (flat_view zf) q ++ [wild_label]) = false).
Proof.
  intros W. rewrite (build_answers_spec zf W). unfold spec, finish; cbn [a_rcode]. unfold vspec.
  destruct (find_cut (flat_view zf) q) as [[p c]|].
  - split.
    + intros H. destruct (name_eqb p q); [rewrite rc_at_cut in H|]; vm_compute in H; discriminate.
    + intros [H _]; discriminate.
  - unfold vrest. set (ce := closest_encloser (flat_view zf) q). unfold flat_view, flat_view_g.
    destruct (exists_name zf q) eqn:E1.
    + rewrite rc_info. split; [intros H; vm_compute in H; discriminate | intros (_ & H & _); discriminate].
    + destruct (exists_name zf (ce ++ [wild_label])) eqn:E2.
      * rewrite rc_info. split; [intros H; vm_compute in H; discriminate | intros (_ & _ & H); discriminate].
      * split; auto.
Qed.

(* wildcard synthesis: a name that does not exist, outside delegations, whose closest encloser has
   an existing `*` child, gets the answer formed from the wildcard's data (data, CNAME, NODATA) *)
Theorem wildcard_synthesis zf q qt : wf_zone zf = true ->
  find_cut (flat_view zf) q = None -> exists_name zf q = false ->
  exists_name zf (closest_encloser (flat_view zf) q ++ [wild_label]) = true ->
  query (fst (zf_build zf)) q qt =
  finish (soa_of zf) (spec_at (info_at_g (zf_normal zf) zf (closest_encloser (flat_view zf) q ++ [wild_label])) qt) /\
  a_rcode (query (fst (zf_build zf)) q qt) = rc_noerror.
Proof.
  intros W Hc He Hw. rewrite (build_answers_spec zf W). unfold spec, vspec. rewrite Hc.
  unfold vrest. set (ce := closest_encloser (flat_view zf) q) in *. unfold flat_view, flat_view_g.
  rewrite He, Hw. split; [reflexivity|]. unfold finish; cbn [a_rcode]. apply rc_info.
Qed.

Definition ex_soa : rrset := mkRrset 6 10 [mkRd 1 None].
Definition ex_zf : zonefile :=
  mkZf [([], [ex_soa]); ([1; 2], [mkRrset 1 5 [mkRd 7 None]]); ([1; wild_label], [mkRrset 1 5 [mkRd 8 None]])] [] [].
Example nodata_nonvacuous :
  wf_zone ex_zf = true /\ find_cut (flat_view ex_zf) [1] = None /\ exists_name ex_zf [1] = true /\
  alookup [1] (zf_normal ex_zf) = None /\
  query (fst (zf_build ex_zf)) [1] 1 = finish (soa_of ex_zf) spec_nodata.
Proof. vm_compute. repeat split. Qed.
Example nxdomain_nonvacuous :
  find_cut (flat_view ex_zf) [3] = None /\ exists_name ex_zf [3] = false /\
  exists_name ex_zf (closest_encloser (flat_view ex_zf) [3] ++ [wild_label]) = false /\
  a_rcode (query (fst (zf_build ex_zf)) [3] 1) = rc_nxdomain.
Proof. vm_compute. repeat split. Qed.
Example wildcard_nonvacuous :
  find_cut (flat_view ex_zf) [1; 3] = None /\ exists_name ex_zf [1; 3] = false /\
  exists_name ex_zf (closest_encloser (flat_view ex_zf) [1; 3] ++ [wild_label]) = true /\
  a_content (query (fst (zf_build ex_zf)) [1; 3] 1) = AData (mkRrset 1 5 [mkRd 8 None]).
Proof. vm_compute. repeat split. Qed.

(* ------------------------------------------------------------------ ZoneTree::iter_zones *)
Lemma zfind_child_list l cs c : zfind_child l cs = Some c ->
  forall z, In z (zt_list c) ->
  In z ((fix go (cs : list (label * znode)) : list N :=
           match cs with [] => [] | (_, c) :: cs' => zt_list c ++ go cs' end) cs).
Proof.
  induction cs as [|[k x] cs IH]; simpl; [discriminate|].
  destruct (k =? l).
  - intros H z Hz. inversion H; subst. apply in_or_app; left; exact Hz.
  - intros H z Hz. apply in_or_app; right. apply IH; assumption.
Qed.

(* every zone that get_zone finds is listed by iter_zones *)
Theorem zt_get_in_list : forall p n z, zt_get n p = Some z -> In z (zt_list n).
Proof.
  induction p as [|l p IH]; intros [zo cs] z; simpl.
  - intros H. rewrite H. simpl. left; reflexivity.
  - destruct (zfind_child l cs) as [c|] eqn:E; [|discriminate].
    intros H. apply in_or_app; right. eapply zfind_child_list; eauto.
Qed.

Theorem zonetree_get_in_iter c p r z : zr_getz c p r = Some z -> In z (zr_list r).
Proof.
  unfold zr_getz, zr_get, zr_list. destruct (c =? class_in).
  - intros H. apply in_or_app; left. eapply zt_get_in_list; eauto.
  - destruct (cls_get c (zr_others r)) as [n|] eqn:E; [|discriminate].
    intros H. apply in_or_app; right. apply in_flat_map.
    revert E. induction (zr_others r) as [|[k x] l IH]; simpl; [discriminate|].
    destruct (k =? c).
    + intros E; inversion E; subst. exists (k, n); split; [left; reflexivity | simpl; eapply zt_get_in_list; eauto].
    + intros E. destruct (IH E) as [kn [Hin Hz]]. exists kn; split; [right; exact Hin | exact Hz].
Qed.

Example zt_get_in_list_nonvacuous :
  match zt_insert [1; 2] 7 zempty with Ok n => zt_get n [1; 2] = Some 7 /\ zt_list n = [7] | _ => False end.
Proof. vm_compute. split; reflexivity. Qed.
