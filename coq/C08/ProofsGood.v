(* C08 -- answers depend on the view only: any tree, however it was reached,
   whose nodes are exactly the existing names of a well-formed content [zf]
   and carry [zf]'s data answers like the zone built directly from [zf].
   The remaining known update-history classes are exactly the ways in which
   ZoneUpdater breaks that correspondence: a delegation or alias kept as /
   instead of a plain RRset. *)
From Coq Require Import NArith List Bool Lia Permutation.
From DV Require Import Base.Outcome C08.Gen C08.Model C08.Spec C08.ProofsQuery C08.ProofsBuild C08.ProofsHist.
Import ListNotations.
Local Open Scope N_scope.

(* [t] represents content [zf]: the reader's view of the tree (existing nodes,
   markers ignored) is the flat view of [zf] *)
Definition represents (t : node) (zf : zonefile) : Prop := forall p, lview t p = flat_view zf p.

(* names = existing names: the apex and the ancestors-or-selves of owner names *)
Lemma represents_names t zf : represents t zf -> forall p, vexists (lview t) p = exists_name zf p.
Proof.
  intros H p. unfold vexists. rewrite H. unfold flat_view, flat_view_g. destruct (exists_name zf p); reflexivity.
Qed.

Theorem answers_depend_on_view_only t zf : wf_zone zf = true -> represents t zf ->
  forall q qt, query t q qt = spec zf q qt /\ query t q qt = query (fst (zf_build zf)) q qt.
Proof.
  intros Hwf H q qt.
  assert (E : query t q qt = spec zf q qt) by (apply lview_answers_spec; assumption).
  split; [exact E|]. rewrite E. symmetry. apply build_answers_spec. exact Hwf.
Qed.

(* update histories.  A history is in a known class for content [zf] when the
   reader's view of the published tree differs from the flat view of [zf] at
   some name; outside, the zone answers like the directly built one. *)
Definition KnownHistory (h : list op) (zf : zonefile) : Prop :=
  exists p, lview (run h) p <> flat_view zf p.

Lemma known_history_not_represented h zf : KnownHistory h zf -> ~ represents (run h) zf.
Proof. intros [p Hp] R. apply Hp. apply R. Qed.

Theorem history_independent h zf : wf_zone zf = true -> represents (run h) zf ->
  forall q qt, query (run h) q qt = query (fst (zf_build zf)) q qt /\ query (run h) q qt = spec zf q qt.
Proof.
  intros Hwf R q qt. destruct (answers_depend_on_view_only _ _ Hwf R q qt). auto.
Qed.

(* the builder itself establishes the correspondence (non-vacuity of [represents]) *)
Lemma build_represents zf : wf_zone zf = true -> represents (fst (zf_build zf)) zf.
Proof. intro H. exact (build_lview zf H). Qed.

(* the remaining known classes are breaches of [represents]: the delegation /
   alias state of a node differs from what the content says (K3 and its
   converse; a surviving special also keeps a deleted name alive) *)
Lemma special_mismatch_not_represented t zf p x :
  node_at t p = Some x -> is_apex p || node_exists x = true ->
  clean (n_special x) <> i_special (info_at_g (zf_normal zf) zf p) -> ~ represents t zf.
Proof.
  intros Hp He Hs R. specialize (R p). unfold lview in R. rewrite Hp, He in R.
  unfold flat_view, flat_view_g in R. destruct (exists_name zf p); [|discriminate].
  apply Hs. assert (Hi : cinfo x = info_at_g (zf_normal zf) zf p) by congruence.
  rewrite <- Hi. reflexivity.
Qed.

Lemma surviving_name_not_represented t zf p x :
  node_at t p = Some x -> node_exists x = true -> exists_name zf p = false -> ~ represents t zf.
Proof.
  intros Hp He Hn R. pose proof (represents_names t zf R p) as E. unfold vexists, lview in E.
  rewrite Hp, He, orb_true_r in E. congruence.
Qed.

(* markers and left-over nodes are invisible to the reader *)
Example k1_marker_harmless :
  (exists x, node_at (run h_k1) [lb] = Some x /\ n_special x = Some NxDomain) /\ history_ok h_k1 [lb; la] T_A.
Proof. split; [eexists; split; vm_compute; reflexivity|unfold history_ok; vm_compute; reflexivity]. Qed.
Example abort_leftover_harmless :
  (exists x, node_at (run h_abort) [lb] = Some x /\ node_exists x = false) /\ lview (run h_abort) [lb] = None.
Proof. split; [eexists; split; vm_compute; reflexivity|vm_compute; reflexivity]. Qed.

(* ------------------------------------------------------------------ insertion order *)
Lemma existsb_perm {A} (f : A -> bool) l l' : Permutation l l' -> existsb f l = existsb f l'.
Proof.
  induction 1; simpl; auto.
  - rewrite IHPermutation. reflexivity.
  - destruct (f x), (f y); reflexivity.
  - congruence.
Qed.

Lemma nodupb_perm l l' : Permutation l l' -> nodupb l = nodupb l'.
Proof.
  induction 1; auto.
  - rewrite !nodupb_cons. rewrite IHPermutation, (existsb_perm _ _ _ H). reflexivity.
  - rewrite !nodupb_cons. simpl. rewrite (name_eqb_sym y x).
    destruct (name_eqb x y), (existsb (name_eqb x) l), (existsb (name_eqb y) l), (nodupb l); reflexivity.
  - congruence.
Qed.

Lemma alookup_perm {A} p (L L' : list (name * A)) : Permutation L L' -> nodupb (map fst L) = true ->
  alookup p L = alookup p L'.
Proof.
  induction 1; intro Hnd; auto.
  - destruct x as [k v]. cbn [map fst] in Hnd. rewrite nodupb_cons in Hnd. apply andb_true_iff in Hnd. destruct Hnd as [_ Hnd].
    cbn [alookup]. rewrite IHPermutation by exact Hnd. reflexivity.
  - destruct x as [k1 v1], y as [k2 v2]. cbn [map fst] in Hnd. cbn [alookup].
    destruct (name_eqb k2 p) eqn:E2, (name_eqb k1 p) eqn:E1; auto.
    apply name_eqb_eq in E1. apply name_eqb_eq in E2. subst k1 k2.
    rewrite nodupb_cons in Hnd. cbn [existsb] in Hnd. rewrite name_eqb_refl in Hnd. discriminate.
  - rewrite IHPermutation1 by exact Hnd. apply IHPermutation2.
    rewrite <- (nodupb_perm _ _ (Permutation_map fst H)). exact Hnd.
Qed.

(* the order in which owners are inserted into the builder does not matter *)
Theorem build_order_independent N N' C C' A A' :
  Permutation N N' -> Permutation C C' -> Permutation A A' ->
  wf_zone (mkZf N C A) = true -> wf_zone (mkZf N' C' A') = true ->
  forall q qt, query (fst (zf_build (mkZf N C A))) q qt = query (fst (zf_build (mkZf N' C' A'))) q qt.
Proof.
  intros PN PC PA Hwf Hwf' q qt.
  rewrite !build_answers_spec by assumption.
  destruct (wf_zone_parts _ Hwf) as (HN & HC & HA & _). simpl in HN, HC, HA.
  assert (HG : forall ns, glue_for N ns = glue_for N' ns).
  { intro ns. unfold glue_for. apply flat_map_ext. intro d. destruct (rd_tgt d); auto.
    unfold collect_glue. rewrite (alookup_perm n N N') by assumption. reflexivity. }
  assert (HV : forall p, flat_view (mkZf N C A) p = flat_view (mkZf N' C' A') p).
  { intro p. unfold flat_view, flat_view_g. simpl zf_normal.
    assert (He : exists_name (mkZf N C A) p = exists_name (mkZf N' C' A') p).
    { rewrite !exists_name_unfold.
      rewrite (existsb_perm _ _ _ (Permutation_map fst PN)), (existsb_perm _ _ _ (Permutation_map fst PC)),
              (existsb_perm _ _ _ (Permutation_map fst PA)). reflexivity. }
    rewrite He. destruct (exists_name (mkZf N' C' A') p); auto. f_equal.
    unfold info_at_g, cut_at_g. simpl.
    rewrite (alookup_perm p N N'), (alookup_perm p C C'), (alookup_perm p A A') by assumption.
    destruct (alookup p C') as [[[ns|] ds]|]; auto. rewrite HG. reflexivity. }
  unfold spec. f_equal.
  - unfold soa_of. simpl. rewrite (alookup_perm [] N N') by assumption. reflexivity.
  - apply vspec_ext. exact HV.
Qed.
