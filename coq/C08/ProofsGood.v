(* C08 -- answers depend on the view only: any tree, however it was reached,
   whose nodes are exactly the existing names of a well-formed content [zf]
   and carry [zf]'s data answers like the zone built directly from [zf].
   The known update-history classes are exactly the ways in which
   ZoneUpdater / the write interface break that correspondence (a marked node,
   a left-over node, a delegation or alias kept as / instead of a plain RRset). *)
From Coq Require Import NArith List Bool Lia Permutation.
From DV Require Import Base.Outcome C08.Gen C08.Model C08.Spec C08.ProofsQuery C08.ProofsBuild C08.ProofsHist.
Import ListNotations.
Local Open Scope N_scope.

Definition represents (t : node) (zf : zonefile) : Prop := forall p, view_of t p = flat_view zf p.

Lemma represents_root t zf : wf_zone zf = true -> represents t zf -> n_special t = None.
Proof.
  intros Hwf H. destruct (wf_zone_parts zf Hwf) as (_ & _ & _ & _ & HwC & HwA).
  specialize (H []). unfold view_of, flat_view, flat_view_g in H. simpl in H.
  assert (Hi : info_of t = info_at_g (zf_normal zf) zf []) by congruence.
  change (i_special (info_of t) = None). rewrite Hi. unfold info_at_g, cut_at_g. simpl.
  rewrite (wf_cut_apex _ HwC), (wf_cname_apex _ _ HwA). reflexivity.
Qed.

Lemma represents_no_marker t zf : represents t zf -> no_marker t.
Proof.
  intros H p x Hp Hx. specialize (H p). unfold view_of in H. rewrite Hp in H. simpl in H.
  unfold flat_view, flat_view_g in H. destruct (exists_name zf p); [|discriminate].
  assert (Hi : info_of x = info_at_g (zf_normal zf) zf p) by congruence.
  apply (flat_special_not_marker (zf_normal zf) zf p). rewrite <- Hi. exact Hx.
Qed.

(* nodes = existing names: the apex and the ancestors-or-selves of owner names *)
Lemma represents_nodes t zf : represents t zf ->
  forall p, (exists x, node_at t p = Some x) <-> exists_name zf p = true.
Proof.
  intros H p. specialize (H p). unfold view_of, flat_view, flat_view_g in H.
  destruct (node_at t p) as [x|]; destruct (exists_name zf p); simpl in H; try discriminate; split; eauto.
  intros [x Hx]. discriminate. discriminate.
Qed.

Theorem answers_depend_on_view_only t zf : wf_zone zf = true -> represents t zf ->
  forall q qt, query t q qt = spec zf q qt /\ query t q qt = query (fst (zf_build zf)) q qt.
Proof.
  intros Hwf H q qt.
  assert (E : query t q qt = spec zf q qt).
  { rewrite query_is_vspec.
    - unfold spec. f_equal.
      + assert (Hi : info_of t = info_at_g (zf_normal zf) zf []).
        { specialize (H []). unfold view_of, flat_view, flat_view_g in H. simpl in H. congruence. }
        assert (Hr : n_rrsets t = match alookup [] (zf_normal zf) with Some rs => rs | None => [] end).
        { change (n_rrsets t) with (i_rrsets (info_of t)). rewrite Hi. reflexivity. }
        unfold get_soa, soa_of. change soa_type with rt_soa. rewrite Hr.
        destruct (alookup [] (zf_normal zf)); reflexivity.
      + apply vspec_ext. exact H.
    - eapply represents_root; eauto.
    - apply no_marker_closed. eapply represents_no_marker; eauto. }
  split; [exact E|]. rewrite E. symmetry. apply build_answers_spec. exact Hwf.
Qed.

(* update histories.  A history is in a known class for content [zf] when the
   published tree does not represent [zf] at some name; outside, the zone
   answers like the directly built one. *)
Definition KnownHistory (h : list op) (zf : zonefile) : Prop :=
  exists p, view_of (run h) p <> flat_view zf p.

Lemma known_history_not_represented h zf : KnownHistory h zf -> ~ represents (run h) zf.
Proof. intros [p Hp] R. apply Hp. apply R. Qed.

Theorem history_independent h zf : wf_zone zf = true -> represents (run h) zf ->
  forall q qt, query (run h) q qt = query (fst (zf_build zf)) q qt /\ query (run h) q qt = spec zf q qt.
Proof.
  intros Hwf R q qt. destruct (answers_depend_on_view_only _ _ Hwf R q qt). auto.
Qed.

(* the builder itself establishes the correspondence (non-vacuity of [represents]) *)
Lemma build_represents zf : wf_zone zf = true -> represents (fst (zf_build zf)) zf.
Proof. intro H. exact (proj2 (build_view zf H)). Qed.

(* each known class is a breach of [represents]: a marked node (K1), a left-over
   node (K2, remove_all, rollback), a special that the content does not have or
   lacks (K3 and its converse) *)
Lemma marked_node_not_represented t zf p x :
  node_at t p = Some x -> n_special x = Some NxDomain -> ~ represents t zf.
Proof. intros Hp Hx R. exact (represents_no_marker t zf R p x Hp Hx). Qed.

Lemma leftover_node_not_represented t zf p x :
  node_at t p = Some x -> exists_name zf p = false -> ~ represents t zf.
Proof.
  intros Hp He R. assert (E : exists_name zf p = true) by (apply (represents_nodes t zf R p); eauto). congruence.
Qed.

Lemma special_mismatch_not_represented t zf p x :
  node_at t p = Some x -> n_special x <> i_special (info_at_g (zf_normal zf) zf p) -> ~ represents t zf.
Proof.
  intros Hp Hs R. specialize (R p). unfold view_of in R. rewrite Hp in R. simpl in R.
  unfold flat_view, flat_view_g in R. destruct (exists_name zf p); [|discriminate].
  apply Hs. assert (Hi : info_of x = info_at_g (zf_normal zf) zf p) by congruence.
  rewrite <- Hi. reflexivity.
Qed.

(* the witnesses of ProofsHist are instances *)
Example k1_is_marked : exists x, node_at (run h_k1) [lb] = Some x /\ n_special x = Some NxDomain.
Proof. eexists. split; vm_compute; reflexivity. Qed.
Example k2_is_marked : exists x, node_at (run h_k2) [lfoo] = Some x /\ n_special x = Some NxDomain.
Proof. eexists. split; vm_compute; reflexivity. Qed.
Example abort_is_leftover : exists x, node_at (run h_abort) [lb] = Some x /\ n_special x = None /\ n_rrsets x = [].
Proof. eexists. repeat split; vm_compute; reflexivity. Qed.

(* ------------------------------------------------------------------ insertion order *)
Lemma existsb_perm {A} (f : A -> bool) l l' : Permutation l l' -> existsb f l = existsb f l'.
Proof.
  induction 1; simpl; auto.
  - rewrite IHPermutation. reflexivity.
  - destruct (f x), (f y); reflexivity.
  - congruence.
Qed.

Lemma nodupb_perm l l' : Permutation l l' -> nodupb l = nodupb l'.
Proof.
  induction 1; auto.
  - rewrite !nodupb_cons. rewrite IHPermutation, (existsb_perm _ _ _ H). reflexivity.
  - rewrite !nodupb_cons. simpl. rewrite (name_eqb_sym y x).
    destruct (name_eqb x y), (existsb (name_eqb x) l), (existsb (name_eqb y) l), (nodupb l); reflexivity.
  - congruence.
Qed.

Lemma alookup_perm {A} p (L L' : list (name * A)) : Permutation L L' -> nodupb (map fst L) = true ->
  alookup p L = alookup p L'.
Proof.
  induction 1; intro Hnd; auto.
  - destruct x as [k v]. cbn [map fst] in Hnd. rewrite nodupb_cons in Hnd. apply andb_true_iff in Hnd. destruct Hnd as [_ Hnd].
    cbn [alookup]. rewrite IHPermutation by exact Hnd. reflexivity.
  - destruct x as [k1 v1], y as [k2 v2]. cbn [map fst] in Hnd. cbn [alookup].
    destruct (name_eqb k2 p) eqn:E2, (name_eqb k1 p) eqn:E1; auto.
    apply name_eqb_eq in E1. apply name_eqb_eq in E2. subst k1 k2.
    rewrite nodupb_cons in Hnd. cbn [existsb] in Hnd. rewrite name_eqb_refl in Hnd. discriminate.
  - rewrite IHPermutation1 by exact Hnd. apply IHPermutation2.
    rewrite <- (nodupb_perm _ _ (Permutation_map fst H)). exact Hnd.
Qed.

(* the order in which owners are inserted into the builder does not matter *)
Theorem build_order_independent N N' C C' A A' :
  Permutation N N' -> Permutation C C' -> Permutation A A' ->
  wf_zone (mkZf N C A) = true -> wf_zone (mkZf N' C' A') = true ->
  forall q qt, query (fst (zf_build (mkZf N C A))) q qt = query (fst (zf_build (mkZf N' C' A'))) q qt.
Proof.
  intros PN PC PA Hwf Hwf' q qt.
  rewrite !build_answers_spec by assumption.
  destruct (wf_zone_parts _ Hwf) as (HN & HC & HA & _). simpl in HN, HC, HA.
  assert (HG : forall ns, glue_for N ns = glue_for N' ns).
  { intro ns. unfold glue_for. apply flat_map_ext. intro d. destruct (rd_tgt d); auto.
    unfold collect_glue. rewrite (alookup_perm n N N') by assumption. reflexivity. }
  assert (HV : forall p, flat_view (mkZf N C A) p = flat_view (mkZf N' C' A') p).
  { intro p. unfold flat_view, flat_view_g. simpl zf_normal.
    assert (He : exists_name (mkZf N C A) p = exists_name (mkZf N' C' A') p).
    { rewrite !exists_name_unfold.
      rewrite (existsb_perm _ _ _ (Permutation_map fst PN)), (existsb_perm _ _ _ (Permutation_map fst PC)),
              (existsb_perm _ _ _ (Permutation_map fst PA)). reflexivity. }
    rewrite He. destruct (exists_name (mkZf N' C' A') p); auto. f_equal.
    unfold info_at_g, cut_at_g. simpl.
    rewrite (alookup_perm p N N'), (alookup_perm p C C'), (alookup_perm p A A') by assumption.
    destruct (alookup p C') as [[[ns|] ds]|]; auto. rewrite HG. reflexivity. }
  unfold spec. f_equal.
  - unfold soa_of. simpl. rewrite (alookup_perm [] N N') by assumption. reflexivity.
  - apply vspec_ext. exact HV.
Qed.
