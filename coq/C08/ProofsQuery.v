(* C08 -- the label-by-label descent of read.rs computes the closest-encloser
   lookup [vnode] / [vspec] on the view of the tree, for every tree in which
   the NXDOMAIN marker is closed downwards. *)
From Coq Require Import NArith List Bool Lia.
From DV Require Import Base.Outcome C08.Gen C08.Model C08.Spec.
Import ListNotations.
Local Open Scope N_scope.

(* ------------------------------------------------------------------ the NodeAnswer table is the spec's *)
Lemma na_data_spec r : NA_data r = spec_positive r. Proof. reflexivity. Qed.
Lemma na_nodata_spec : NA_no_data = spec_nodata. Proof. reflexivity. Qed.
Lemma na_nx_spec : NA_nx_domain = spec_nxdomain. Proof. reflexivity. Qed.
Lemma na_cname_spec c : NA_cname c = spec_alias c. Proof. reflexivity. Qed.
Lemma na_auth_spec c : NA_authority c = spec_referral c. Proof. reflexivity. Qed.

Lemma query_rrsets_spec rs qt : query_rrsets rs qt = spec_rrsets rs qt.
Proof. reflexivity. Qed.
Lemma query_at_cut_spec c qt : query_at_cut c qt = spec_at_cut c qt.
Proof. reflexivity. Qed.

Lemma here_spec n qt : here_but_not_below n qt = spec_at (cinfo n) qt.
Proof. destruct n as [r s cs]. destruct s as [[c|c|]|]; reflexivity. Qed.

(* ------------------------------------------------------------------ names *)
Lemma name_eqb_refl a : name_eqb a a = true.
Proof. induction a; simpl; auto. rewrite N.eqb_refl. auto. Qed.

Lemma name_eqb_eq a b : name_eqb a b = true <-> a = b.
Proof.
  revert b. induction a as [|x a IH]; destruct b as [|y b]; simpl; split; intro H; try congruence; auto.
  - apply andb_true_iff in H. destruct H as [H1 H2]. apply N.eqb_eq in H1. apply IH in H2. congruence.
  - inversion H; subst. rewrite N.eqb_refl. simpl. apply IH. reflexivity.
Qed.

Lemma name_eqb_cons l a b : name_eqb (l :: a) (l :: b) = name_eqb a b.
Proof. simpl. rewrite N.eqb_refl. reflexivity. Qed.

(* ------------------------------------------------------------------ existence *)
Lemma node_exists_unfold rs sp cs :
  node_exists (Node rs sp cs) =
  negb (rrsets_is_empty rs)
  || match sp with Some (Cut _) => true | Some (Cname _) => true | _ => false end
  || existsb (fun lc => node_exists (snd lc)) cs.
Proof.
  cbn [node_exists]. f_equal. induction cs as [|[l c] cs IH]; simpl; auto. rewrite IH. reflexivity.
Qed.

Lemma dead_child n l d : node_exists n = false -> find_child l (n_children n) = Some d -> node_exists d = false.
Proof.
  destruct n as [rs sp cs]. rewrite node_exists_unfold. intro H.
  apply orb_false_iff in H. destruct H as [_ H]. simpl.
  induction cs as [|[k c] cs IH]; simpl; [discriminate|].
  simpl in H. apply orb_false_iff in H. destruct H as [H1 H2].
  destruct (k =? l); [intro E; inversion E; subst; exact H1|auto].
Qed.

Lemma dead_below : forall p n y, node_exists n = false -> node_at n p = Some y -> node_exists y = false.
Proof.
  induction p as [|l p IH]; intros n y Hn Hy; simpl in Hy.
  - inversion Hy; subst; exact Hn.
  - destruct (find_child l (n_children n)) as [d|] eqn:E; [|discriminate].
    eapply IH; [eapply dead_child; eauto|exact Hy].
Qed.

(* ------------------------------------------------------------------ views of subtrees *)
Definition shift (V : view) (l : label) : view := fun p => V (l :: p).

Lemma lview_child n l c : find_child l (n_children n) = Some c -> node_exists c = true ->
  forall p, lview c p = shift (lview n) l p.
Proof.
  intros H He p. unfold shift, lview. cbn [node_at]. rewrite H.
  destruct p as [|l' r]; simpl; [rewrite He; reflexivity|reflexivity].
Qed.

Lemma find_existing_some l cs c : find_existing l cs = Some c -> find_child l cs = Some c /\ node_exists c = true.
Proof.
  unfold find_existing. destruct (find_child l cs) as [d|]; [|discriminate].
  change children_filtered_by_exists with true. cbn iota.
  destruct (node_exists d) eqn:E; [|discriminate]. intro H. inversion H; subst. auto.
Qed.

Lemma lview_nochild n l : find_existing l (n_children n) = None -> forall p, lview n (l :: p) = None.
Proof.
  unfold find_existing. intros H p. unfold lview. cbn [node_at].
  destruct (find_child l (n_children n)) as [d|] eqn:E; [|reflexivity].
  change children_filtered_by_exists with true in H. cbn iota in H.
  destruct (node_exists d) eqn:Ed; [discriminate|].
  destruct (node_at d p) as [y|] eqn:Ey; [|reflexivity].
  rewrite (dead_below _ _ _ Ed Ey). reflexivity.
Qed.

Lemma lview_one n l : lview n [l] = option_map cinfo (find_existing l (n_children n)).
Proof.
  unfold lview, find_existing. cbn [node_at]. destruct (find_child l (n_children n)) as [d|]; [|reflexivity].
  change children_filtered_by_exists with true. cbn iota. simpl. destruct (node_exists d); reflexivity.
Qed.

Lemma lview_root n : lview n [] = Some (cinfo n).
Proof. reflexivity. Qed.

(* ------------------------------------------------------------------ find_map / prefixes under shift *)
Lemma find_map_map {A B C} (f : B -> option C) (g : A -> B) l :
  find_map f (map g l) = find_map (fun x => f (g x)) l.
Proof. induction l; simpl; auto. destruct (f (g a)); auto. Qed.

Lemma find_map_ext {A B} (f g : A -> option B) l : (forall x, f x = g x) -> find_map f l = find_map g l.
Proof. intros H. induction l; simpl; auto. rewrite H, IHl. reflexivity. Qed.

Lemma find_map_none {A B} (f : A -> option B) l : (forall x, f x = None) -> find_map f l = None.
Proof. intros H. induction l; simpl; auto. rewrite H. auto. Qed.

Definition relabel (l : label) (o : option (name * zcut)) : option (name * zcut) :=
  match o with Some (p, c) => Some (l :: p, c) | None => None end.

Lemma cut_of_shift V l p : cut_of V (l :: p) = relabel l (cut_of (shift V l) p).
Proof. unfold cut_of, shift. destruct (V (l :: p)) as [i|]; auto. destruct (i_special i) as [[c|c|]|]; auto. Qed.

Lemma find_map_relabel V l ps :
  find_map (fun p => cut_of V (l :: p)) ps = relabel l (find_map (cut_of (shift V l)) ps).
Proof.
  induction ps as [|p ps IH]; simpl; auto.
  rewrite cut_of_shift. destruct (cut_of (shift V l) p) as [[p' c]|]; simpl; auto.
Qed.

Lemma find_cut0_cons V l q : cut_of V [] = None ->
  find_cut0 V (l :: q) = relabel l (find_cut0 (shift V l) q).
Proof.
  intros H. unfold find_cut0. simpl. rewrite H. rewrite find_map_map. apply find_map_relabel.
Qed.

Lemma find_cut_cons V l q : find_cut V (l :: q) = relabel l (find_cut0 (shift V l) q).
Proof. unfold find_cut, find_cut0. simpl. rewrite find_map_map. apply find_map_relabel. Qed.

Lemma prefixes_head q : exists t, prefixes q = [] :: t.
Proof. destruct q; simpl; eauto. Qed.

Lemma filter_map_cons (V : view) l ps :
  filter (vexists V) (map (cons l) ps) = map (cons l) (filter (vexists (shift V l)) ps).
Proof.
  induction ps as [|p ps IH]; simpl; auto.
  change (vexists V (l :: p)) with (vexists (shift V l) p).
  destruct (vexists (shift V l) p); simpl; rewrite IH; reflexivity.
Qed.

Lemma last_map_cons (l : label) (F : list name) d : F <> [] -> last (map (cons l) F) d = l :: last F [].
Proof.
  induction F as [|a F IH]; intros H; [congruence|]. destruct F as [|b F]; simpl; auto.
  simpl in IH. apply IH. congruence.
Qed.

Lemma ce_cons_exists V l q : vexists V [l] = true ->
  closest_encloser V (l :: q) = l :: closest_encloser (shift V l) q.
Proof.
  intros H. unfold closest_encloser. simpl.
  rewrite filter_map_cons.
  destruct (prefixes_head q) as [t Ht]. rewrite Ht. simpl.
  assert (Hs : vexists (shift V l) [] = true) by exact H. rewrite Hs.
  set (F := [] :: filter (vexists (shift V l)) t).
  destruct (vexists V []).
  - change (last ([] :: map (cons l) F) [] = l :: last F []).
    assert (HF : map (cons l) F <> []) by (unfold F; simpl; congruence).
    destruct (map (cons l) F) eqn:E; [congruence|]. rewrite <- E.
    change (last ([] :: (map (cons l) F)) []) with (match map (cons l) F with [] => [] | _ => last (map (cons l) F) [] end).
    rewrite E. rewrite <- E. apply last_map_cons. unfold F. congruence.
  - apply last_map_cons. unfold F. congruence.
Qed.

Lemma ce_cons_missing V l q : vexists V [] = true -> (forall p, V (l :: p) = None) ->
  closest_encloser V (l :: q) = [].
Proof.
  intros H0 H. unfold closest_encloser. simpl. rewrite H0.
  assert (E : filter (vexists V) (map (cons l) (prefixes q)) = []).
  { induction (prefixes q); simpl; auto. unfold vexists at 1. rewrite H. auto. }
  rewrite E. reflexivity.
Qed.

(* ------------------------------------------------------------------ query_node = vnode *)
Lemma vnode_step V l q qt : cut_of V [] = None -> vexists V [l] = true ->
  vnode V (l :: q) qt = vnode (shift V l) q qt.
Proof.
  intros Hc He. unfold vnode. rewrite find_cut0_cons by exact Hc.
  destruct (find_cut0 (shift V l) q) as [[p c]|]; cbn [relabel].
  - rewrite name_eqb_cons. reflexivity.
  - unfold vrest. rewrite ce_cons_exists by exact He. reflexivity.
Qed.

Lemma vnode_ext V W q qt : (forall p, V p = W p) -> vnode V q qt = vnode W q qt.
Proof.
  intros H. unfold vnode, find_cut0, vrest, closest_encloser.
  rewrite (find_map_ext (cut_of V) (cut_of W)) by (intro p; unfold cut_of; rewrite H; reflexivity).
  rewrite (filter_ext (vexists V) (vexists W)) by (intro p; unfold vexists; rewrite H; reflexivity).
  rewrite !H. reflexivity.
Qed.

Lemma children_step q
  (IH : forall n qt, query_node n q qt = vnode (lview n) q qt) l n qt :
  cut_of (lview n) [] = None ->
  query_children (fun c => query_node c q qt) (n_children n) l qt = vnode (lview n) (l :: q) qt.
Proof.
  intros Hc. unfold query_children.
  destruct (find_existing l (n_children n)) as [c|] eqn:El.
  - destruct (find_existing_some _ _ _ El) as [Hf He].
    rewrite IH. rewrite vnode_step; auto.
    + apply vnode_ext. intro p. apply lview_child; assumption.
    + unfold vexists. rewrite lview_one, El. reflexivity.
  - change children_exact_then_wildcard with true. cbn iota.
    unfold vnode. rewrite find_cut0_cons by exact Hc.
    unfold find_cut0 at 1.
    rewrite (find_map_none (cut_of (shift (lview n) l))).
    2:{ intro p. unfold cut_of, shift. rewrite lview_nochild by exact El. reflexivity. }
    cbn [relabel]. unfold vrest. rewrite lview_nochild by exact El.
    rewrite ce_cons_missing; [|reflexivity|intro p; apply lview_nochild; exact El].
    cbn [app]. rewrite lview_one.
    destruct (find_existing wild_label (n_children n)) as [w|]; simpl.
    + apply here_spec.
    + apply na_nx_spec.
Qed.

(* read.rs's descent is the closest-encloser lookup on the reader's view: no
   condition on markers or left-over nodes any more *)
Theorem query_node_vnode : forall q n qt, query_node n q qt = vnode (lview n) q qt.
Proof.
  induction q as [|l q IH]; intros n qt.
  - simpl. unfold vnode, find_cut0, cut_of. simpl. rewrite here_spec.
    destruct n as [r s cs]. unfold cinfo; simpl. destruct s as [[c|c|]|]; simpl; auto.
  - cbn [query_node].
    assert (Hroot : lview n [] = Some (cinfo n)) by reflexivity.
    destruct (n_special n) as [[c|c|]|] eqn:Es.
    + unfold vnode, find_cut0. simpl. unfold cut_of at 1. rewrite Hroot. unfold cinfo; simpl. rewrite Es.
      simpl. rewrite na_auth_spec. reflexivity.
    + apply children_step; auto. unfold cut_of. rewrite Hroot. unfold cinfo; simpl. rewrite Es. reflexivity.
    + change marker_descends_like_unmarked with true. cbn iota.
      apply children_step; auto. unfold cut_of. rewrite Hroot. unfold cinfo; simpl. rewrite Es. reflexivity.
    + apply children_step; auto. unfold cut_of. rewrite Hroot. unfold cinfo; simpl. rewrite Es. reflexivity.
Qed.

(* the apex: its RRsets are answered directly, below it the children are searched *)
Theorem query_apex_vspec : forall z q qt, clean (n_special z) = None ->
  query_apex z q qt = vspec (lview z) q qt.
Proof.
  intros z q qt Hs.
  assert (Hc : cut_of (lview z) [] = None).
  { unfold cut_of. rewrite lview_root. unfold cinfo; simpl. rewrite Hs. reflexivity. }
  destruct q as [|l q].
  - simpl. unfold vspec, find_cut. simpl. unfold vrest. rewrite lview_root.
    unfold spec_at, cinfo; simpl. rewrite Hs. apply query_rrsets_spec.
  - cbn [query_apex].
    rewrite (children_step q (fun n qt => query_node_vnode q n qt)); auto.
    unfold vnode, vspec. rewrite find_cut0_cons by exact Hc. rewrite find_cut_cons. reflexivity.
Qed.

Lemma into_answer_finish z a : into_answer z a = finish (get_soa z) a.
Proof. unfold into_answer, finish. change soa_added_when_flag_and_present with true. rewrite andb_true_r. reflexivity. Qed.

Theorem query_is_vspec : forall z q qt, clean (n_special z) = None ->
  query z q qt = finish (get_soa z) (vspec (lview z) q qt).
Proof. intros. unfold query. rewrite into_answer_finish, query_apex_vspec; auto. Qed.
