(* C08 -- the tree built by ZoneBuilder from well-formed content has exactly
   the flat view of that content: a node exists iff its name is an
   ancestor-or-self of an owner, and carries the owner's RRsets / delegation /
   alias.  Together with ProofsQuery this gives build_answers_spec. *)
From Coq Require Import NArith List Bool Lia.
From DV Require Import Base.Outcome C08.Gen C08.Model C08.Spec C08.ProofsQuery.
Import ListNotations.
Local Open Scope N_scope.

(* ------------------------------------------------------------------ children maps *)
Lemma find_upsert k l f cs :
  find_child k (upsert_child l f cs) =
  if k =? l then Some (match find_child l cs with Some c => f false c | None => f true empty_node end)
  else find_child k cs.
Proof.
  induction cs as [|[k' c] cs IH]; simpl.
  - rewrite (N.eqb_sym l k). destruct (k =? l); reflexivity.
  - destruct (k' =? l) eqn:E1; simpl.
    + apply N.eqb_eq in E1. subst k'. rewrite (N.eqb_sym l k). destruct (k =? l) eqn:E2; auto.
    + rewrite IH. destruct (k' =? k) eqn:E3; auto.
      apply N.eqb_eq in E3. subst k'. rewrite E1. reflexivity.
Qed.

Definition base (o : option node) : node := match o with Some y => y | None => empty_node end.
Definition empty_info := mkInfo [] None.

Lemma view_empty p : view_of empty_node p = if is_apex p then Some empty_info else None.
Proof. destruct p; reflexivity. Qed.

Lemma is_prefix_refl p : is_prefix p p = true.
Proof. induction p; simpl; auto. rewrite N.eqb_refl. auto. Qed.

Lemma name_eqb_prefix p o : name_eqb p o = true -> is_prefix p o = true.
Proof. intro H. apply name_eqb_eq in H. subst. apply is_prefix_refl. Qed.

Lemma name_eqb_sym a b : name_eqb a b = name_eqb b a.
Proof.
  revert b. induction a as [|x a IH]; destruct b as [|y b]; simpl; auto.
  rewrite (N.eqb_sym x y), IH. reflexivity.
Qed.

(* the view after get_node + a mutation that keeps the children *)
Lemma view_b_node f (Hf : forall x, n_children (f x) = n_children x) :
  forall p n p',
  view_of (b_node p f n) p' =
    if name_eqb p' p then Some (info_of (f (base (node_at n p))))
    else if is_prefix p' p then Some (match view_of n p' with Some i => i | None => empty_info end)
    else view_of n p'.
Proof.
  induction p as [|l p IH]; intros n p'.
  - unfold b_node. simpl. destruct p' as [|l' r]; simpl; auto.
    unfold view_of. simpl. rewrite Hf. reflexivity.
  - destruct n as [r s cs]. unfold b_node. cbn [with_path].
    destruct p' as [|l' r']; [reflexivity|].
    unfold view_of. cbn [node_at n_children]. rewrite find_upsert.
    change (name_eqb (l' :: r') (l :: p)) with ((l' =? l) && name_eqb r' p).
    change (is_prefix (l' :: r') (l :: p)) with ((l' =? l) && is_prefix r' p).
    destruct (l' =? l) eqn:El; cbn [andb]; [|reflexivity].
    apply N.eqb_eq in El. subst l'.
    set (c0 := base (find_child l cs)).
    assert (Hc : (match find_child l cs with
                  | Some c => with_path (fun c1 => c1) p f c
                  | None => with_path (fun c1 => c1) p f ((fun c1 : node => c1) empty_node) end) = b_node p f c0).
    { unfold c0, base, b_node. destruct (find_child l cs); reflexivity. }
    rewrite Hc. fold (view_of (b_node p f c0) r'). rewrite IH.
    assert (Hv : forall x, view_of c0 x = match find_child l cs with Some c => view_of c x | None => if is_apex x then Some empty_info else None end).
    { intro x. unfold c0, base. destruct (find_child l cs); auto. apply view_empty. }
    assert (Hn : base (node_at c0 p) = base (match find_child l cs with Some c => node_at c p | None => None end)).
    { unfold c0, base. destruct (find_child l cs); auto. destruct p; reflexivity. }
    destruct (name_eqb r' p) eqn:E1; [rewrite Hn; reflexivity|].
    destruct (is_prefix r' p) eqn:E2.
    + rewrite Hv. unfold view_of. destruct (find_child l cs); auto. destruct (is_apex r'); reflexivity.
    + rewrite Hv. unfold view_of. destruct (find_child l cs); auto.
      destruct r'; simpl in *; congruence.
Qed.

(* ------------------------------------------------------------------ association lists *)
Lemma alookup_app {A} p (L : list (name * A)) o v :
  alookup p (L ++ [(o, v)]) = match alookup p L with Some x => Some x | None => if name_eqb o p then Some v else None end.
Proof. induction L as [|[k x] L IH]; simpl; auto. destruct (name_eqb k p); auto. Qed.

Lemma alookup_none_notin {A} p (L : list (name * A)) :
  existsb (name_eqb p) (map fst L) = false -> alookup p L = None.
Proof.
  induction L as [|[k x] L IH]; simpl; auto. intro H. apply orb_false_iff in H. destruct H as [H1 H2].
  rewrite name_eqb_sym, H1. auto.
Qed.

Lemma existsb_prefix_notin p (ks : list name) :
  existsb (is_prefix p) ks = false -> existsb (name_eqb p) ks = false.
Proof.
  induction ks as [|k ks IH]; simpl; auto. intro H. apply orb_false_iff in H. destruct H as [H1 H2].
  rewrite IH by exact H2. destruct (name_eqb p k) eqn:E; auto. apply name_eqb_prefix in E. congruence.
Qed.

(* a name that does not exist owns nothing *)
Lemma info_not_exists G zf p : exists_name zf p = false -> info_at_g G zf p = empty_info.
Proof.
  unfold exists_name, owners. intro H. apply orb_false_iff in H. destruct H as [_ H].
  rewrite !existsb_app in H. apply orb_false_iff in H. destruct H as [H1 H]. apply orb_false_iff in H. destruct H as [H2 H3].
  unfold info_at_g, cut_at_g.
  rewrite (alookup_none_notin p (zf_normal zf)) by (apply existsb_prefix_notin; exact H1).
  rewrite (alookup_none_notin p (zf_cuts zf)) by (apply existsb_prefix_notin; exact H2).
  rewrite (alookup_none_notin p (zf_cnames zf)) by (apply existsb_prefix_notin; exact H3).
  reflexivity.
Qed.

(* ------------------------------------------------------------------ one builder call, on views *)
Lemma step_view G z old new o f fi
  (Hf : forall x, n_children (f x) = n_children x)
  (Hfi : forall x, info_of (f x) = fi (info_of x))
  (Hinv : forall p, view_of z p = flat_view_g G old p)
  (Hex : forall p, exists_name new p = exists_name old p || is_prefix p o)
  (Ho : info_at_g G new o = fi (info_at_g G old o))
  (Hother : forall p, name_eqb p o = false -> info_at_g G new p = info_at_g G old p) :
  forall p, view_of (b_node o f z) p = flat_view_g G new p.
Proof.
  intro p. rewrite view_b_node by exact Hf. unfold flat_view_g at 1. rewrite Hex.
  assert (Hbase : forall x, match view_of z x with Some i => i | None => empty_info end = info_at_g G old x).
  { intro x. rewrite Hinv. unfold flat_view_g. destruct (exists_name old x) eqn:E; auto.
    symmetry. apply info_not_exists. exact E. }
  destruct (name_eqb p o) eqn:E1.
  - rewrite (name_eqb_prefix _ _ E1), orb_true_r.
    apply name_eqb_eq in E1. subst p. rewrite Ho, Hfi. f_equal. f_equal.
    specialize (Hbase o). unfold view_of in Hbase. destruct (node_at z o); simpl in *; auto.
  - rewrite (Hother _ E1). destruct (is_prefix p o) eqn:E2.
    + rewrite orb_true_r. f_equal. apply Hbase.
    + rewrite orb_false_r. rewrite Hinv. reflexivity.
Qed.

(* ------------------------------------------------------------------ bookkeeping lemmas *)
Lemma exists_app_last p (L : list name) o : existsb (is_prefix p) (L ++ [o]) = existsb (is_prefix p) L || is_prefix p o.
Proof. rewrite existsb_app. simpl. rewrite orb_false_r. reflexivity. Qed.

Lemma nodupb_cons x l : nodupb (x :: l) = negb (existsb (name_eqb x) l) && nodupb l.
Proof. reflexivity. Qed.

Lemma nodupb_app_notin (L1 : list name) o L2 : nodupb (L1 ++ o :: L2) = true -> existsb (name_eqb o) L1 = false.
Proof.
  induction L1 as [|x L1 IH]; simpl; auto. intro H.
  change (nodupb (x :: L1 ++ o :: L2) = true) in H. rewrite nodupb_cons in H.
  apply andb_true_iff in H. destruct H as [H1 H2]. apply negb_true_iff in H1.
  rewrite existsb_app in H1. apply orb_false_iff in H1. destruct H1 as [_ H1]. simpl in H1.
  apply orb_false_iff in H1. destruct H1 as [H1 _].
  rewrite name_eqb_sym, H1. simpl. apply IH. exact H2.
Qed.

Lemma set_rrset_append r rs : existsb (fun x => rs_type x =? rs_type r) rs = false -> set_rrset r rs = rs ++ [r].
Proof.
  induction rs as [|x rs IH]; simpl; auto. intro H. apply orb_false_iff in H. destruct H as [H1 H2].
  rewrite H1, IH by exact H2. reflexivity.
Qed.

Lemma nodup_types_app_notin rs1 r rs2 : nodup_types (rs1 ++ r :: rs2) = true ->
  existsb (fun x => rs_type x =? rs_type r) rs1 = false.
Proof.
  induction rs1 as [|x rs1 IH]; simpl; auto. intro H. apply andb_true_iff in H. destruct H as [H1 H2].
  apply negb_true_iff in H1. rewrite existsb_app in H1. apply orb_false_iff in H1. destruct H1 as [_ H1]. simpl in H1.
  apply orb_false_iff in H1. destruct H1 as [H1 _]. rewrite N.eqb_sym in H1. rewrite H1. simpl. apply IH. exact H2.
Qed.

Lemma exists_name_unfold N C A p :
  exists_name (mkZf N C A) p = is_apex p || (existsb (is_prefix p) (map fst N) || (existsb (is_prefix p) (map fst C) || existsb (is_prefix p) (map fst A))).
Proof. unfold exists_name, owners. simpl. rewrite !existsb_app. reflexivity. Qed.

Lemma app_cons_snoc {A} (l1 : list A) x l2 : l1 ++ x :: l2 = (l1 ++ [x]) ++ l2.
Proof. rewrite <- app_assoc. reflexivity. Qed.

(* ------------------------------------------------------------------ phase 1: delegation points *)
Definition F1 (G : list (name * list rrset)) (acc : node * bool) (e : name * (option rrset * option rrset)) : node * bool :=
  let '(z, ok) := acc in
  match fst (snd e) with
  | None => (z, false)
  | Some ns => match insert_zone_cut (fst e) ns (snd (snd e)) (glue_for G ns) z with
               | Ok z' => (z', ok) | _ => (z, false) end
  end.
Definition F2 (acc : node * bool) (e : name * rr) : node * bool :=
  let '(z, ok) := acc in
  match insert_cname (fst e) (snd e) z with Ok z' => (z', ok) | _ => (z, false) end.
Definition F3 (acc : node * bool) (e : name * list rrset) : node * bool :=
  let '(z, ok) := acc in (fold_left (fun z r => insert_rrset (fst e) r z) (snd e) z, ok).

Lemma zf_build_unfold zf :
  zf_build zf = fold_left F3 (zf_normal zf) (fold_left F2 (zf_cnames zf) (fold_left (F1 (zf_normal zf)) (zf_cuts zf) (empty_node, true))).
Proof. reflexivity. Qed.

Definition wf_cut (e : name * (option rrset * option rrset)) : bool :=
  negb (is_apex (fst e)) && match fst (snd e) with Some _ => true | None => false end.

Lemma phase1 G : forall cs2 cs1 z,
  (forall p, view_of z p = flat_view_g G (mkZf [] cs1 []) p) ->
  nodupb (map fst (cs1 ++ cs2)) = true -> forallb wf_cut cs2 = true ->
  snd (fold_left (F1 G) cs2 (z, true)) = true /\
  forall p, view_of (fst (fold_left (F1 G) cs2 (z, true))) p = flat_view_g G (mkZf [] (cs1 ++ cs2) []) p.
Proof.
  induction cs2 as [|[o [ns ds]] cs2 IH]; intros cs1 z Hinv Hnd Hwf.
  - simpl. rewrite app_nil_r. auto.
  - simpl in Hwf. apply andb_true_iff in Hwf. destruct Hwf as [Hw Hwf].
    unfold wf_cut in Hw. simpl in Hw. apply andb_true_iff in Hw. destruct Hw as [Hna Hns].
    destruct ns as [ns|]; [|discriminate]. destruct o as [|l o]; [discriminate|].
    cbn [fold_left F1 fst snd insert_zone_cut].
    rewrite map_app in Hnd. simpl in Hnd.
    assert (Hnotin : alookup (l :: o) cs1 = None) by (apply alookup_none_notin; eapply nodupb_app_notin; eauto).
    rewrite (app_cons_snoc cs1).
    apply IH; auto.
    2:{ rewrite <- app_cons_snoc. rewrite map_app. exact Hnd. }
    apply (step_view G z (mkZf [] cs1 []) _ (l :: o) _
             (fun i => mkInfo (i_rrsets i) (Some (Cut (mkCut (l :: o) ns ds (glue_for G ns)))))); auto.
    + intros [r s c]. reflexivity.
    + intros [r s c]. reflexivity.
    + intro p. rewrite !exists_name_unfold. rewrite map_app. simpl. rewrite exists_app_last.
      simpl. rewrite !orb_false_r.
      destruct (is_apex p), (existsb (is_prefix p) (map fst cs1)), (is_prefix p (l :: o)); reflexivity.
    + unfold info_at_g, cut_at_g. simpl. rewrite alookup_app, Hnotin, name_eqb_refl. reflexivity.
    + intros p Hp. unfold info_at_g, cut_at_g. simpl. rewrite alookup_app.
      destruct (alookup p cs1); auto. rewrite name_eqb_sym. change (name_eqb p (l :: o)) with (name_eqb p (l :: o)). rewrite Hp. reflexivity.
Qed.

(* ------------------------------------------------------------------ phase 2: aliases *)
Definition wf_cname (C : list (name * (option rrset * option rrset))) (e : name * rr) : bool :=
  negb (is_apex (fst e)) && negb (existsb (name_eqb (fst e)) (map fst C)).

Lemma phase2 G C : forall as2 as1 z ok,
  (forall p, view_of z p = flat_view_g G (mkZf [] C as1) p) ->
  nodupb (map fst (as1 ++ as2)) = true -> forallb (wf_cname C) as2 = true ->
  snd (fold_left F2 as2 (z, ok)) = ok /\
  forall p, view_of (fst (fold_left F2 as2 (z, ok))) p = flat_view_g G (mkZf [] C (as1 ++ as2)) p.
Proof.
  induction as2 as [|[o c] as2 IH]; intros as1 z ok Hinv Hnd Hwf.
  - simpl. rewrite app_nil_r. auto.
  - simpl in Hwf. apply andb_true_iff in Hwf. destruct Hwf as [Hw Hwf].
    unfold wf_cname in Hw. simpl in Hw. apply andb_true_iff in Hw. destruct Hw as [Hna HnC].
    apply negb_true_iff in HnC.
    destruct o as [|l o]; [discriminate|].
    cbn [fold_left F2 fst snd insert_cname].
    rewrite map_app in Hnd. simpl in Hnd.
    assert (Hnotin : alookup (l :: o) as1 = None) by (apply alookup_none_notin; eapply nodupb_app_notin; eauto).
    assert (HnotC : alookup (l :: o) C = None) by (apply alookup_none_notin; exact HnC).
    rewrite (app_cons_snoc as1).
    apply IH; auto.
    2:{ rewrite <- app_cons_snoc. rewrite map_app. exact Hnd. }
    apply (step_view G z (mkZf [] C as1) _ (l :: o) _ (fun i => mkInfo (i_rrsets i) (Some (Cname c)))); auto.
    + intros [r s cs]. reflexivity.
    + intros [r s cs]. reflexivity.
    + intro p. rewrite !exists_name_unfold. rewrite map_app. simpl. rewrite exists_app_last.
      destruct (is_apex p), (existsb (is_prefix p) (map fst C)), (existsb (is_prefix p) (map fst as1)), (is_prefix p (l :: o)); reflexivity.
    + unfold info_at_g, cut_at_g. simpl. rewrite HnotC, alookup_app, Hnotin, name_eqb_refl. reflexivity.
    + intros p Hp. unfold info_at_g, cut_at_g. simpl. rewrite alookup_app.
      destruct (alookup p as1); auto. rewrite name_eqb_sym, Hp. reflexivity.
Qed.

(* ------------------------------------------------------------------ phase 3: ordinary RRsets *)
Definition wf_rrset (r : rrset) : bool := match rs_data r with [] => false | _ => true end.

Lemma insert_rrset_step G C A ns1 o z old new r rs1
  (Hold : old = mkZf (ns1 ++ match rs1 with [] => [] | _ => [(o, rs1)] end) C A)
  (Hnew : new = mkZf (ns1 ++ [(o, rs1 ++ [r])]) C A)
  (Hinv : forall p, view_of z p = flat_view_g G old p)
  (Hnotin : alookup o ns1 = None)
  (Hty : existsb (fun x => rs_type x =? rs_type r) rs1 = false)
  (Hr : wf_rrset r = true) :
  forall p, view_of (insert_rrset o r z) p = flat_view_g G new p.
Proof.
  subst old new. unfold insert_rrset.
  apply (step_view G z (mkZf (ns1 ++ match rs1 with [] => [] | _ => [(o, rs1)] end) C A) (mkZf (ns1 ++ [(o, rs1 ++ [r])]) C A)
           o _ (fun i => mkInfo (update_rrsets r (i_rrsets i)) (i_special i))); auto.
  - intros [x s cs]. reflexivity.
  - intros [x s cs]. reflexivity.
  - intro p. rewrite !exists_name_unfold. rewrite !map_app. simpl. rewrite exists_app_last.
    destruct rs1; simpl.
    + rewrite app_nil_r. destruct (is_apex p), (existsb (is_prefix p) (map fst ns1)), (is_prefix p o),
        (existsb (is_prefix p) (map fst C)), (existsb (is_prefix p) (map fst A)); reflexivity.
    + rewrite exists_app_last.
      destruct (is_apex p), (existsb (is_prefix p) (map fst ns1)), (is_prefix p o),
        (existsb (is_prefix p) (map fst C)), (existsb (is_prefix p) (map fst A)); reflexivity.
  - unfold info_at_g, cut_at_g. simpl. rewrite alookup_app, Hnotin, name_eqb_refl.
    assert (Hu : update_rrsets r rs1 = rs1 ++ [r]).
    { unfold update_rrsets. unfold wf_rrset in Hr. destruct (rs_data r); [discriminate|]. apply set_rrset_append. exact Hty. }
    destruct rs1 as [|x rs1]; simpl.
    + rewrite app_nil_r, Hnotin. simpl. simpl in Hu. rewrite Hu. reflexivity.
    + rewrite alookup_app, Hnotin, name_eqb_refl. rewrite Hu. reflexivity.
  - intros p Hp. unfold info_at_g, cut_at_g. simpl. rewrite alookup_app.
    rewrite (name_eqb_sym o p), Hp.
    destruct rs1; simpl.
    + rewrite app_nil_r. destruct (alookup p ns1); reflexivity.
    + rewrite alookup_app. rewrite (name_eqb_sym o p), Hp. destruct (alookup p ns1); reflexivity.
Qed.

Lemma inner_fold G C A ns1 o : forall rs2 rs1 z,
  alookup o ns1 = None ->
  (forall p, view_of z p = flat_view_g G (mkZf (ns1 ++ match rs1 with [] => [] | _ => [(o, rs1)] end) C A) p) ->
  nodup_types (rs1 ++ rs2) = true -> forallb wf_rrset rs2 = true -> rs1 ++ rs2 <> [] ->
  forall p, view_of (fold_left (fun z r => insert_rrset o r z) rs2 z) p = flat_view_g G (mkZf (ns1 ++ [(o, rs1 ++ rs2)]) C A) p.
Proof.
  induction rs2 as [|r rs2 IH]; intros rs1 z Hnotin Hinv Hnd Hwf Hne.
  - simpl. rewrite app_nil_r in *. destruct rs1; [congruence|]. exact Hinv.
  - simpl in Hwf. apply andb_true_iff in Hwf. destruct Hwf as [Hr Hwf].
    cbn [fold_left].
    rewrite (app_cons_snoc rs1).
    apply IH; auto.
    + assert (E : rs1 ++ [r] <> []) by (destruct rs1; simpl; congruence).
      destruct (rs1 ++ [r]) eqn:E2; [congruence|]. rewrite <- E2.
      eapply insert_rrset_step; eauto. eapply nodup_types_app_notin; eauto.
    + rewrite <- app_cons_snoc. exact Hnd.
    + destruct rs1; simpl; congruence.
Qed.

Definition wf_normal (e : name * list rrset) : bool :=
  nodup_types (snd e) && negb (rrsets_is_empty (snd e)) && forallb wf_rrset (snd e).

Lemma phase3 G C A : forall ns2 ns1 z ok,
  (forall p, view_of z p = flat_view_g G (mkZf ns1 C A) p) ->
  nodupb (map fst (ns1 ++ ns2)) = true -> forallb wf_normal ns2 = true ->
  snd (fold_left F3 ns2 (z, ok)) = ok /\
  forall p, view_of (fst (fold_left F3 ns2 (z, ok))) p = flat_view_g G (mkZf (ns1 ++ ns2) C A) p.
Proof.
  induction ns2 as [|[o rs] ns2 IH]; intros ns1 z ok Hinv Hnd Hwf.
  - simpl. rewrite app_nil_r. auto.
  - simpl in Hwf. apply andb_true_iff in Hwf. destruct Hwf as [Hw Hwf].
    unfold wf_normal in Hw. simpl in Hw. apply andb_true_iff in Hw. destruct Hw as [Hw Hw3].
    apply andb_true_iff in Hw. destruct Hw as [Hw1 Hw2]. apply negb_true_iff in Hw2.
    cbn [fold_left F3 fst snd].
    rewrite map_app in Hnd. simpl in Hnd.
    assert (Hnotin : alookup o ns1 = None) by (apply alookup_none_notin; eapply nodupb_app_notin; eauto).
    rewrite (app_cons_snoc ns1).
    apply IH; auto.
    2:{ rewrite <- app_cons_snoc. rewrite map_app. exact Hnd. }
    apply (inner_fold G C A ns1 o rs [] z); auto.
    + simpl. rewrite app_nil_r. exact Hinv.
    + simpl. destruct rs; [discriminate|congruence].
Qed.

(* ------------------------------------------------------------------ the built tree *)
Lemma wf_zone_parts zf : wf_zone zf = true ->
  nodupb (map fst (zf_normal zf)) = true /\ nodupb (map fst (zf_cuts zf)) = true /\ nodupb (map fst (zf_cnames zf)) = true /\
  forallb wf_normal (zf_normal zf) = true /\ forallb wf_cut (zf_cuts zf) = true /\ forallb (wf_cname (zf_cuts zf)) (zf_cnames zf) = true.
Proof.
  unfold wf_zone. intro H. repeat (apply andb_true_iff in H; destruct H as [H ?]).
  repeat split; auto.
Qed.

Theorem build_view zf : wf_zone zf = true ->
  snd (zf_build zf) = true /\ forall p, view_of (fst (zf_build zf)) p = flat_view zf p.
Proof.
  intro Hwf. destruct (wf_zone_parts zf Hwf) as (HN & HC & HA & HwN & HwC & HwA).
  destruct zf as [N C A]. simpl in *. rewrite zf_build_unfold. simpl zf_normal. simpl zf_cuts. simpl zf_cnames.
  unfold flat_view. simpl zf_normal.
  destruct (phase1 N C [] empty_node) as [Hok1 Hv1]; auto.
  { intro p. rewrite view_empty. unfold flat_view_g. rewrite exists_name_unfold. simpl. rewrite orb_false_r.
    destruct (is_apex p); reflexivity. }
  simpl app in Hv1.
  destruct (fold_left (F1 N) C (empty_node, true)) as [z1 ok1] eqn:E1. simpl in Hok1, Hv1. subst ok1.
  destruct (phase2 N C A [] z1 true) as [Hok2 Hv2]; auto.
  simpl app in Hv2.
  destruct (fold_left F2 A (z1, true)) as [z2 ok2] eqn:E2. simpl in Hok2, Hv2. subst ok2.
  destruct (phase3 N C A N [] z2 true) as [Hok3 Hv3]; auto.
Qed.

Lemma flat_special_not_marker G zf p : i_special (info_at_g G zf p) <> Some NxDomain.
Proof.
  unfold info_at_g. simpl. destruct (cut_at_g G zf p); [discriminate|].
  destruct (alookup p (zf_cnames zf)); discriminate.
Qed.

(* ------------------------------------------------------------------ every node of the built tree is a name that exists *)
Definition has_content (y : node) : bool :=
  negb (rrsets_is_empty (n_rrsets y)) || match n_special y with Some (Cut _) => true | Some (Cname _) => true | _ => false end.

Lemma find_child_in l cs d : find_child l cs = Some d -> exists k, In (k, d) cs.
Proof.
  induction cs as [|[k c] cs IH]; simpl; [discriminate|].
  destruct (k =? l); [intro E; inversion E; subst; eauto|]. intro H. destruct (IH H) as [k' Hk]. eauto.
Qed.

Lemma exists_from_content : forall p x y, node_at x p = Some y -> has_content y = true -> node_exists x = true.
Proof.
  induction p as [|l p IH]; intros x y Hy Hc; simpl in Hy.
  - inversion Hy; subst. destruct y as [rs sp cs]. rewrite node_exists_unfold. unfold has_content in Hc. simpl in Hc.
    rewrite Hc. reflexivity.
  - destruct (find_child l (n_children x)) as [d|] eqn:E; [|discriminate].
    assert (Hd : node_exists d = true) by (eapply IH; eauto).
    destruct x as [rs sp cs]. rewrite node_exists_unfold. simpl in E.
    destruct (find_child_in _ _ _ E) as [k Hk].
    assert (Hex : existsb (fun lc => node_exists (snd lc)) cs = true).
    { apply existsb_exists. exists (k, d). auto. }
    rewrite Hex. apply orb_true_r.
Qed.

Lemma node_at_app : forall p r x, node_at x (p ++ r) = match node_at x p with Some y => node_at y r | None => None end.
Proof.
  induction p as [|l p IH]; intros r x; simpl; auto.
  destruct (find_child l (n_children x)); auto.
Qed.

Lemma is_prefix_app : forall p o, is_prefix p o = true -> exists r, o = p ++ r.
Proof.
  induction p as [|x p IH]; intros o H; simpl in *; [eauto|].
  destruct o as [|y o]; [discriminate|]. apply andb_true_iff in H. destruct H as [H1 H2].
  apply N.eqb_eq in H1. subst. destruct (IH _ H2) as [r Hr]. exists r. simpl. congruence.
Qed.

Lemma normal_owner_content o N : In o (map fst N) -> forallb wf_normal N = true ->
  exists r rs, alookup o N = Some (r :: rs).
Proof.
  induction N as [|[k v] N IH]; simpl; [tauto|]. intros Hin Hwf.
  apply andb_true_iff in Hwf. destruct Hwf as [Hw Hwf].
  destruct (name_eqb k o) eqn:E.
  - unfold wf_normal in Hw. simpl in Hw. destruct v; [simpl in Hw; discriminate|eauto].
  - destruct Hin as [Hin|Hin]; [subst; rewrite name_eqb_refl in E; discriminate|auto].
Qed.

Lemma cut_owner_content o C : In o (map fst C) -> forallb wf_cut C = true ->
  exists ns ds, alookup o C = Some (Some ns, ds).
Proof.
  induction C as [|[k [ns ds]] C IH]; simpl; [tauto|]. intros Hin Hwf.
  apply andb_true_iff in Hwf. destruct Hwf as [Hw Hwf].
  destruct (name_eqb k o) eqn:E.
  - unfold wf_cut in Hw. simpl in Hw. destruct ns; [eauto|rewrite andb_false_r in Hw; discriminate].
  - destruct Hin as [Hin|Hin]; [subst; rewrite name_eqb_refl in E; discriminate|auto].
Qed.

Lemma cname_owner_content {A} o (L : list (name * A)) : In o (map fst L) -> exists c, alookup o L = Some c.
Proof.
  induction L as [|[k v] L IH]; simpl; [tauto|]. intros Hin.
  destruct (name_eqb k o) eqn:E; [eauto|].
  destruct Hin as [Hin|Hin]; [subst; rewrite name_eqb_refl in E; discriminate|auto].
Qed.

Lemma owner_has_content zf o : wf_zone zf = true -> In o (owners zf) ->
  forall y, info_of y = info_at_g (zf_normal zf) zf o -> has_content y = true.
Proof.
  intros Hwf Hin y Hy. destruct (wf_zone_parts zf Hwf) as (_ & _ & _ & HwN & HwC & _).
  unfold has_content. change (n_rrsets y) with (i_rrsets (info_of y)). change (n_special y) with (i_special (info_of y)).
  rewrite Hy. unfold info_at_g, cut_at_g. simpl.
  unfold owners in Hin. apply in_app_or in Hin. destruct Hin as [Hin|Hin].
  - destruct (normal_owner_content _ _ Hin HwN) as (r & rs & E). rewrite E. reflexivity.
  - apply in_app_or in Hin. destruct Hin as [Hin|Hin].
    + destruct (cut_owner_content _ _ Hin HwC) as (ns & ds & E). rewrite E. apply orb_true_r.
    + destruct (cname_owner_content _ _ Hin) as (c & E). rewrite E.
      destruct (alookup o (zf_cuts zf)) as [[[ns|] ds]|]; apply orb_true_r.
Qed.

(* the reader's view of the built zone is the flat view of the content *)
Theorem build_lview zf : wf_zone zf = true -> forall p, lview (fst (zf_build zf)) p = flat_view zf p.
Proof.
  intros Hwf p. destruct (build_view zf Hwf) as [_ Hv].
  set (z := fst (zf_build zf)) in *.
  pose proof (Hv p) as Hp. unfold view_of, flat_view, flat_view_g in Hp. unfold lview, flat_view, flat_view_g.
  destruct (node_at z p) as [x|] eqn:Ex; simpl in Hp.
  2:{ destruct (exists_name zf p); [discriminate|reflexivity]. }
  destruct (exists_name zf p) eqn:Ee; [|discriminate].
  assert (Hi : info_of x = info_at_g (zf_normal zf) zf p) by congruence.
  assert (Hci : cinfo x = info_of x).
  { unfold cinfo, info_of. f_equal. destruct (n_special x) as [[c|c|]|] eqn:Es; auto.
    exfalso. apply (flat_special_not_marker (zf_normal zf) zf p). rewrite <- Hi. exact Es. }
  rewrite Hci, Hi.
  assert (Hl : is_apex p || node_exists x = true).
  { destruct p as [|l p']; [reflexivity|]. simpl.
    unfold exists_name in Ee. cbn [is_apex orb] in Ee. apply existsb_exists in Ee. destruct Ee as (o & Ho & Hpre).
    destruct (is_prefix_app (l :: p') o Hpre) as [r Hr].
    pose proof (Hv o) as Hvo. unfold view_of, flat_view, flat_view_g in Hvo.
    assert (Heo : exists_name zf o = true).
    { unfold exists_name. apply orb_true_iff. right. apply existsb_exists. exists o. split; auto. apply is_prefix_refl. }
    rewrite Heo in Hvo. destruct (node_at z o) as [y|] eqn:Ey; [|discriminate]. simpl in Hvo.
    assert (Hyi : info_of y = info_at_g (zf_normal zf) zf o) by congruence.
    rewrite Hr, node_at_app, Ex in Ey.
    eapply exists_from_content; eauto. eapply owner_has_content; eauto. }
  rewrite Hl. reflexivity.
Qed.

(* ------------------------------------------------------------------ build_answers_spec *)
Lemma vspec_ext V W q qt : (forall p, V p = W p) -> vspec V q qt = vspec W q qt.
Proof.
  intros H. unfold vspec, find_cut, vrest, closest_encloser.
  rewrite (find_map_ext (cut_of V) (cut_of W)) by (intro p; unfold cut_of; rewrite H; reflexivity).
  rewrite (filter_ext (vexists V) (vexists W)) by (intro p; unfold vexists; rewrite H; reflexivity).
  rewrite !H. reflexivity.
Qed.

Lemma wf_cut_apex C : forallb wf_cut C = true -> alookup [] C = None.
Proof.
  induction C as [|[k v] C IH]; simpl; auto. intro H. apply andb_true_iff in H. destruct H as [H1 H2].
  unfold wf_cut in H1. simpl in H1. destruct k; [discriminate|]. simpl. auto.
Qed.
Lemma wf_cname_apex C A : forallb (wf_cname C) A = true -> alookup [] A = None.
Proof.
  induction A as [|[k v] A IH]; simpl; auto. intro H. apply andb_true_iff in H. destruct H as [H1 H2].
  unfold wf_cname in H1. simpl in H1. destruct k; [discriminate|]. simpl. auto.
Qed.

(* a tree whose reader's view is the flat view of well-formed content answers by the spec *)
Lemma lview_answers_spec t zf : wf_zone zf = true -> (forall p, lview t p = flat_view zf p) ->
  forall q qt, query t q qt = spec zf q qt.
Proof.
  intros Hwf H q qt. destruct (wf_zone_parts zf Hwf) as (_ & _ & _ & _ & HwC & HwA).
  assert (Hroot : cinfo t = info_at_g (zf_normal zf) zf []).
  { specialize (H []). unfold lview, flat_view, flat_view_g in H. simpl in H. congruence. }
  assert (Hs : clean (n_special t) = None).
  { change (i_special (cinfo t) = None). rewrite Hroot. unfold info_at_g, cut_at_g. simpl.
    rewrite (wf_cut_apex _ HwC), (wf_cname_apex _ _ HwA). reflexivity. }
  rewrite query_is_vspec by assumption. unfold spec. f_equal.
  - assert (Hr : n_rrsets t = match alookup [] (zf_normal zf) with Some rs => rs | None => [] end).
    { change (n_rrsets t) with (i_rrsets (cinfo t)). rewrite Hroot. reflexivity. }
    unfold get_soa, soa_of. change soa_type with rt_soa. rewrite Hr.
    destruct (alookup [] (zf_normal zf)); reflexivity.
  - apply vspec_ext. exact H.
Qed.

Theorem build_answers_spec zf : wf_zone zf = true ->
  forall q qt, query (fst (zf_build zf)) q qt = spec zf q qt.
Proof. intros Hwf. apply lview_answers_spec; auto. apply build_lview. exact Hwf. Qed.

(* ANY: the answer is one of the RRsets at the matched name (hash order in the
   implementation, list order here) *)
Lemma spec_rrsets_any_member rs : 
  match na_content (spec_rrsets rs rt_any) with AData r => In r rs | ANoData => rs = [] | _ => False end.
Proof. unfold spec_rrsets. rewrite N.eqb_refl. destruct rs; simpl; auto. Qed.

(* non-vacuity: a zone with a wildcard, an empty non-terminal, a delegation with glue and an alias *)
Definition ex_zone : zonefile :=
  mkZf [ ([], [mkRrset rt_soa 60 [mkRd 1 None]; mkRrset rt_ns 300 [mkRd 2 None]]);
         ([wild_label], [mkRrset rt_a 101 [mkRd 3 None]]);
         ([354; 353], [mkRrset rt_a 101 [mkRd 5 None]]);
         ([371; 366], [mkRrset rt_a 77 [mkRd 7 None]]) ]
       [ ([371], (Some (mkRrset rt_ns 300 [mkRd 0 (Some [371; 366])]), Some (mkRrset rt_ds 120 [mkRd 6 None]))) ]
       [ ([364], mkRr 200 (mkRd 0 (Some [400]))) ].

Example ex_zone_wf : wf_zone ex_zone = true. Proof. reflexivity. Qed.
Example ex_zone_answers :
  let z := fst (zf_build ex_zone) in
  a_rcode (query z [999] rt_a) = rc_noerror /\ a_content (query z [999] rt_a) = AData (mkRrset rt_a 101 [mkRd 3 None]) /\
  a_rcode (query z [354] rt_a) = rc_noerror /\ a_content (query z [354] rt_a) = ANoData /\
  a_rcode (query z [354; 999] rt_a) = rc_nxdomain /\
  a_aa (query z [371; 5] rt_a) = false /\ a_addl (query z [371; 5] rt_a) = [mkG [371; 366] rt_a 77 (mkRd 7 None)] /\
  a_content (query z [364] rt_a) = ACname (mkRr 200 (mkRd 0 (Some [400]))) /\
  query z [354; 999] rt_a = spec ex_zone [354; 999] rt_a.
Proof. vm_compute. repeat split; reflexivity. Qed.
