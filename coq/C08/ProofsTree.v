(* C08 -- ZoneTree (tree.rs): find_zone returns the closest enclosing zone, the
   zone whose apex is the longest ancestor-or-self of the query name among the
   zones in the tree; insert_zone adds exactly one apex; remove_zone, when it
   descends to the apex node, removes exactly one -- the code that removes the
   child of the first label instead removes every zone (witness). *)
From Coq Require Import NArith List Bool Lia.
From DV Require Import Base.Outcome C08.Gen C08.Model C08.Spec C08.ProofsQuery.
Import ListNotations.
Local Open Scope N_scope.

(* the last zone found along a list of lookups *)
Definition last_some (l : list (option N)) : option N :=
  fold_left (fun acc o => match o with Some z => Some z | None => acc end) l None.

Lemma fold_last_some l acc :
  fold_left (fun acc o => match o with Some z => Some z | None => acc end) l acc =
  match last_some l with Some z => Some z | None => acc end.
Proof.
  unfold last_some. revert acc. induction l as [|o l IH]; intro acc; simpl; [reflexivity|].
  rewrite (IH (match o with Some z => Some z | None => acc end)), (IH (match o with Some z => Some z | None => None end)).
  destruct (fold_left _ l None); [reflexivity|]. destruct o; reflexivity.
Qed.

Lemma last_some_none {A} (f : A -> option N) L : (forall x, f x = None) -> last_some (map f L) = None.
Proof. intro H. unfold last_some. induction L; simpl; auto. rewrite H. exact IHL. Qed.

Lemma zt_get_cons n l p : zt_get n (l :: p) = match zfind_child l (zn_children n) with Some c => zt_get c p | None => None end.
Proof. reflexivity. Qed.

(* find_zone = the zone at the longest prefix of the query name that is an apex *)
Theorem zt_find_closest : forall q n, zt_find n q = last_some (map (zt_get n) (prefixes q)).
Proof.
  induction q as [|l q IH]; intro n.
  - unfold last_some. simpl. destruct (zn_zone n); reflexivity.
  - assert (Hp : prefixes (l :: q) = [] :: map (cons l) (prefixes q)) by reflexivity.
    rewrite Hp. cbn [zt_find map]. unfold last_some at 1. cbn [fold_left]. rewrite fold_last_some. rewrite map_map.
    destruct (zfind_child l (zn_children n)) as [c|] eqn:E.
    + rewrite IH. rewrite (map_ext (fun x => zt_get n (l :: x)) (zt_get c)) by (intro x; rewrite zt_get_cons, E; reflexivity).
      cbn [zt_get].
      assert (G : forall (X o : option N), match X with Some z => Some z | None => o end =
                    match X with Some z => Some z | None => match o with Some z => Some z | None => None end end)
        by (intros [x|] [o|]; reflexivity).
      apply G.
    + rewrite last_some_none by (intro x; rewrite zt_get_cons, E; reflexivity).
      cbn [zt_get]. destruct (zn_zone n); reflexivity.
Qed.

(* children maps *)
Lemma zfind_set k l c cs : zfind_child k (zset_child l c cs) = if k =? l then Some c else zfind_child k cs.
Proof.
  induction cs as [|[k' x] cs IH]; simpl.
  - rewrite (N.eqb_sym l k). destruct (k =? l); reflexivity.
  - destruct (k' =? l) eqn:E1; simpl.
    + apply N.eqb_eq in E1. subst k'. rewrite (N.eqb_sym l k). destruct (k =? l); reflexivity.
    + rewrite IH. destruct (k' =? k) eqn:E2; [|reflexivity]. apply N.eqb_eq in E2. subst k'. rewrite E1. reflexivity.
Qed.

(* insert_zone adds exactly the given apex, and fails exactly when it is there already *)
Theorem zt_insert_spec : forall p z n,
  match zt_insert p z n with
  | Ok n' => zt_get n p = None /\ forall p', zt_get n' p' = if name_eqb p' p then Some z else zt_get n p'
  | Err e => e = E_ZoneExists /\ zt_get n p <> None
  | _ => False
  end.
Proof.
  induction p as [|l p IH]; intros z n.
  - simpl. destruct n as [zo cs]. simpl. destruct zo; [split; [reflexivity|discriminate]|].
    split; [reflexivity|]. intros [|l' p']; reflexivity.
  - cbn [zt_insert]. set (c := match zfind_child l (zn_children n) with Some c => c | None => zempty end).
    specialize (IH z c).
    assert (Hc : forall x, zt_get c x = zt_get n (l :: x)).
    { intro x. rewrite zt_get_cons. unfold c. destruct (zfind_child l (zn_children n)); [reflexivity|]. destruct x; reflexivity. }
    destruct (zt_insert p z c) as [c'| | |]; try contradiction.
    + destruct IH as [H0 H1]. split; [rewrite <- Hc; exact H0|].
      intros [|l' p']; [reflexivity|]. rewrite zt_get_cons. cbn [zn_children]. rewrite zfind_set.
      change (name_eqb (l' :: p') (l :: p)) with ((l' =? l) && name_eqb p' p).
      destruct (l' =? l) eqn:El; cbn [andb]; [|reflexivity].
      apply N.eqb_eq in El. subst l'. rewrite H1, Hc. reflexivity.
    + destruct IH as [H0 H1]. split; [exact H0|rewrite <- Hc; exact H1].
Qed.

(* remove_zone that descends to the apex node removes exactly that apex *)
Theorem zt_remove_recursive_spec : forall p n,
  match zt_remove_gen true p n with
  | Ok n' => zt_get n p <> None /\ forall p', zt_get n' p' = if name_eqb p' p then None else zt_get n p'
  | Err e => e = E_ZoneDoesNotExist /\ zt_get n p = None
  | _ => False
  end.
Proof.
  induction p as [|l p IH]; intro n.
  - simpl. destruct n as [zo cs]. simpl. destruct zo; [|split; reflexivity].
    split; [discriminate|]. intros [|l' p']; reflexivity.
  - cbn [zt_remove_gen]. rewrite zt_get_cons.
    destruct (zfind_child l (zn_children n)) as [c|] eqn:E; [|split; reflexivity].
    specialize (IH c). destruct (zt_remove_gen true p c) as [c'| | |]; try contradiction.
    + destruct IH as [H0 H1]. split; [exact H0|].
      intros [|l' p']; [reflexivity|]. rewrite !zt_get_cons. cbn [zn_children]. rewrite zfind_set.
      change (name_eqb (l' :: p') (l :: p)) with ((l' =? l) && name_eqb p' p).
      destruct (l' =? l) eqn:El; cbn [andb]; [|reflexivity].
      apply N.eqb_eq in El. subst l'. rewrite H1, E. reflexivity.
    + exact IH.
Qed.

(* the code as it stands, for whichever shape T1 found *)
Theorem zt_remove_spec_if_recursive : zremove_recursive = true -> forall p n,
  match zt_remove p n with
  | Ok n' => zt_get n p <> None /\ forall p', zt_get n' p' = if name_eqb p' p then None else zt_get n p'
  | Err e => e = E_ZoneDoesNotExist /\ zt_get n p = None
  | _ => False
  end.
Proof. intros H p n. unfold zt_remove. rewrite H. apply zt_remove_recursive_spec. Qed.

(* witness: removing a name that is not a zone succeeds and removes another zone *)
Definition root_l : label := 1.
Definition zt_ex : znode := zr_in (fst (c08_tree_run [ZIns 1 [root_l; 353] 104])).
Lemma zonetree_remove_zone_not_recursive_refuted :
  exists t p p', zt_get t p = None /\ zt_get t p' <> None /\
    match zt_remove_gen false p t with Ok t' => zt_get t' p' = None | _ => False end.
Proof. exists zt_ex, [root_l; 355; 353], [root_l; 353]. vm_compute. repeat split; congruence. Qed.

Theorem zt_remove_refuted_if_not_recursive : zremove_recursive = false ->
  exists t p p', zt_get t p = None /\ zt_get t p' <> None /\
    match zt_remove p t with Ok t' => zt_get t' p' = None | _ => False end.
Proof. intro H. unfold zt_remove. rewrite H. exact zonetree_remove_zone_not_recursive_refuted. Qed.

(* non-vacuity *)
Example zt_example :
  let t := zr_in (fst (c08_tree_run [ZIns 1 [root_l; 353] 1; ZIns 1 [root_l; 353; 354] 2; ZIns 1 [root_l] 3; ZIns 1 [root_l; 353] 9])) in
  zt_find t [root_l; 353; 354; 355] = Some 2 /\ zt_find t [root_l; 353; 355] = Some 1 /\ zt_find t [root_l; 356] = Some 3 /\
  zt_get t [root_l; 353] = Some 1 /\ zt_get t [root_l; 355] = None.
Proof. vm_compute. repeat split; reflexivity. Qed.

(* ------------------------------------------------------------------ classes *)
Lemma cls_get_set c c' n l : cls_get c' (cls_set c n l) = if c' =? c then Some n else cls_get c' l.
Proof.
  induction l as [|[k x] l IH]; simpl.
  - rewrite (N.eqb_sym c c'). destruct (c' =? c); reflexivity.
  - destruct (k =? c) eqn:E1; simpl.
    + apply N.eqb_eq in E1. subst k. rewrite (N.eqb_sym c c'). destruct (c' =? c); reflexivity.
    + rewrite IH. destruct (k =? c') eqn:E2; [|reflexivity]. apply N.eqb_eq in E2. subst k. rewrite E1. reflexivity.
Qed.

Lemma zr_get_set c c' n r : zr_get c' (zr_set c n r) = if c' =? c then Some n else zr_get c' r.
Proof.
  unfold zr_get, zr_set. destruct (c =? class_in) eqn:Ec; simpl.
  - apply N.eqb_eq in Ec. subst c. destruct (c' =? class_in); reflexivity.
  - destruct (c' =? class_in) eqn:Ec'.
    + apply N.eqb_eq in Ec'. subst c'. rewrite N.eqb_sym, Ec. reflexivity.
    + apply cls_get_set.
Qed.

(* zones of different classes do not see each other: inserting or removing a
   zone of class c changes no lookup in any other class, and in class c it is
   the single-class behaviour proved above *)
Theorem zonetree_classes_isolated c p z r r' c' q : c' <> c ->
  (zr_insert c p z r = Ok r' \/ zr_remove c p r = Ok r') ->
  zr_find c' q r' = zr_find c' q r /\ zr_getz c' q r' = zr_getz c' q r.
Proof.
  intros Hne H. assert (E : (c' =? c) = false) by (apply N.eqb_neq; exact Hne).
  unfold zr_find, zr_getz. destruct H as [H|H].
  - unfold zr_insert in H. destruct (zt_insert p z _); inversion H; subst. rewrite zr_get_set, E. auto.
  - unfold zr_remove in H. destruct (zr_get c r); [|discriminate]. destruct (zt_remove p z0); inversion H; subst.
    rewrite zr_get_set, E. auto.
Qed.

Theorem zonetree_find_in_class c q r :
  zr_find c q r = match zr_get c r with Some n => last_some (map (zt_get n) (prefixes q)) | None => None end.
Proof. unfold zr_find. destruct (zr_get c r); [apply zt_find_closest|reflexivity]. Qed.

Example classes_example :
  let r := fst (c08_tree_run [ZIns 1 [root_l; 353] 1; ZIns 3 [root_l; 353] 2; ZIns 3 [root_l; 353; 354] 3; ZRem 1 [root_l; 353]]) in
  zr_find 1 [root_l; 353; 354] r = None /\ zr_find 3 [root_l; 353; 354; 9] r = Some 3 /\ zr_find 3 [root_l; 353; 9] r = Some 2 /\
  zr_find 4 [root_l; 353] r = None.
Proof. vm_compute. repeat split; reflexivity. Qed.
