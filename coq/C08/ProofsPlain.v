(* C08 -- history independence for zones without delegation / alias records.

   A tree is *plain* when no node carries a Cut or Cname special (markers are
   allowed) and the child labels of every node are distinct (they are hash-map
   keys).  Every history without NS/DS below the apex and without CNAME records
   -- builder calls, zone-file records, ZoneUpdater operations including
   DeleteAllRecords and dropped updaters, write-interface calls including
   remove_all and aborted writes -- publishes a plain tree, and two plain trees
   that hold the same RRsets at the same names answer every query identically,
   whatever markers and left-over nodes their histories produced. *)
From Coq Require Import NArith List Bool Lia.
From DV Require Import Base.Outcome C08.Gen C08.Model C08.Spec C08.ProofsQuery C08.ProofsBuild C08.ProofsHist.
Import ListNotations.
Local Open Scope N_scope.

(* ------------------------------------------------------------------ induction on trees *)
Fixpoint node_ind' (P : node -> Prop)
  (H : forall r s cs, Forall (fun lc => P (snd lc)) cs -> P (Node r s cs)) (n : node) : P n :=
  match n with
  | Node r s cs =>
      H r s cs ((fix go (cs : list (label * node)) : Forall (fun lc => P (snd lc)) cs :=
                   match cs with
                   | [] => Forall_nil _
                   | (l, c) :: cs' => Forall_cons (l, c) (node_ind' P H c) (go cs')
                   end) cs)
  end.

(* ------------------------------------------------------------------ plain trees *)
Fixpoint wfp (n : node) : Prop :=
  let 'Node r s cs := n in
  clean s = None /\ NoDup (map fst cs) /\
  (fix all (cs : list (label * node)) : Prop := match cs with [] => True | (_, c) :: cs' => wfp c /\ all cs' end) cs.

Lemma wfp_unfold r s cs :
  wfp (Node r s cs) <-> clean s = None /\ NoDup (map fst cs) /\ Forall (fun lc => wfp (snd lc)) cs.
Proof.
  cbn [wfp].
  assert (E : forall cs : list (label * node),
             (fix all (cs : list (label * node)) : Prop := match cs with [] => True | (_, c) :: cs' => wfp c /\ all cs' end) cs
             <-> Forall (fun lc => wfp (snd lc)) cs).
  { induction cs0 as [|[l c] cs0 IH]; split; intro H; auto.
    - destruct H as [H1 H2]. constructor; [exact H1|apply IH; exact H2].
    - inversion H; subst. split; [assumption|apply IH; assumption]. }
  rewrite E. tauto.
Qed.

Lemma wfp_empty : wfp empty_node.
Proof. apply wfp_unfold. repeat split; constructor. Qed.

Lemma find_child_nodup l c cs : NoDup (map fst cs) -> In (l, c) cs -> find_child l cs = Some c.
Proof.
  induction cs as [|[k d] cs IH]; simpl; [tauto|]. intros Hnd Hin. inversion Hnd; subst.
  destruct Hin as [E|Hin].
  - inversion E; subst. rewrite N.eqb_refl. reflexivity.
  - destruct (k =? l) eqn:Ek; [|auto]. apply N.eqb_eq in Ek. subst. exfalso. apply H1.
    apply in_map_iff. exists (l, c). auto.
Qed.

Lemma find_child_In l cs d : find_child l cs = Some d -> In (l, d) cs.
Proof.
  induction cs as [|[k c] cs IH]; simpl; [discriminate|].
  destruct (k =? l) eqn:E; [apply N.eqb_eq in E; intro H; inversion H; subst; auto|auto].
Qed.

Lemma wfp_child n l d : wfp n -> find_child l (n_children n) = Some d -> wfp d.
Proof.
  destruct n as [r s cs]. intros H Hf. apply wfp_unfold in H. destruct H as (_ & _ & Hall).
  simpl in Hf. apply find_child_In in Hf. rewrite Forall_forall in Hall. apply (Hall _ Hf).
Qed.

Lemma wfp_at : forall p n x, wfp n -> node_at n p = Some x -> wfp x.
Proof.
  induction p as [|l p IH]; intros n x Hn Hx; simpl in Hx.
  - inversion Hx; subst; exact Hn.
  - destruct (find_child l (n_children n)) as [d|] eqn:E; [|discriminate].
    eapply IH; [eapply wfp_child; eauto|exact Hx].
Qed.

Lemma wfp_clean n : wfp n -> clean (n_special n) = None.
Proof. destruct n as [r s cs]. intro H. apply wfp_unfold in H. tauto. Qed.

(* an existing plain node has an RRset at or below it *)
Lemma exists_has_rrset : forall x, wfp x -> node_exists x = true ->
  exists p y, node_at x p = Some y /\ n_rrsets y <> [].
Proof.
  apply (node_ind' (fun x => wfp x -> node_exists x = true -> exists p y, node_at x p = Some y /\ n_rrsets y <> [])).
  intros r s cs IH Hw He. apply wfp_unfold in Hw. destruct Hw as (Hs & Hnd & Hall).
  rewrite node_exists_unfold in He. apply orb_true_iff in He. destruct He as [He|He].
  - apply orb_true_iff in He. destruct He as [He|He].
    + exists [], (Node r s cs). split; [reflexivity|]. simpl. destruct r; [discriminate|congruence].
    + destruct s as [[c|c|]|]; simpl in Hs; discriminate.
  - apply existsb_exists in He. destruct He as ([l c] & Hin & Hc). simpl in Hc.
    rewrite Forall_forall in IH, Hall.
    destruct (IH _ Hin (Hall _ Hin) Hc) as (p & y & Hy & Hr).
    exists (l :: p), y. split; [|exact Hr]. simpl. rewrite (find_child_nodup l c cs Hnd Hin). exact Hy.
Qed.

(* ------------------------------------------------------------------ same RRsets, same answers *)
Definition rrsets_at (t : node) (p : name) : list rrset :=
  match node_at t p with Some x => n_rrsets x | None => [] end.
Definition live (t : node) (p : name) : bool :=
  match node_at t p with Some x => node_exists x | None => false end.

Lemma live_iff t p : wfp t -> (live t p = true <-> exists r, rrsets_at t (p ++ r) <> []).
Proof.
  intro Hw. unfold live, rrsets_at. split.
  - destruct (node_at t p) as [x|] eqn:Ex; [|discriminate]. intro He.
    destruct (exists_has_rrset x (wfp_at _ _ _ Hw Ex) He) as (r & y & Hy & Hr).
    exists r. rewrite node_at_app, Ex, Hy. exact Hr.
  - intros [r Hr]. rewrite node_at_app in Hr. destruct (node_at t p) as [x|]; [|congruence].
    destruct (node_at x r) as [y|] eqn:Ey; [|congruence].
    eapply exists_from_content; eauto. unfold has_content. destruct (n_rrsets y); [congruence|reflexivity].
Qed.

Lemma live_same t t' : wfp t -> wfp t' -> (forall p, rrsets_at t p = rrsets_at t' p) -> forall p, live t p = live t' p.
Proof.
  intros Hw Hw' HR p. apply eq_true_iff_eq. rewrite (live_iff t p Hw), (live_iff t' p Hw').
  split; intros [r Hr]; exists r; [rewrite <- HR|rewrite HR]; exact Hr.
Qed.

Lemma lview_plain t p : wfp t ->
  lview t p = if is_apex p || live t p then Some (mkInfo (rrsets_at t p) None) else None.
Proof.
  intro Hw. unfold lview, live, rrsets_at. destruct (node_at t p) as [x|] eqn:Ex.
  - destruct (is_apex p || node_exists x); [|reflexivity].
    unfold cinfo. rewrite (wfp_clean x (wfp_at _ _ _ Hw Ex)). reflexivity.
  - destruct p; [discriminate|reflexivity].
Qed.

Theorem plain_same_view t t' : wfp t -> wfp t' -> (forall p, rrsets_at t p = rrsets_at t' p) ->
  forall p, lview t p = lview t' p.
Proof.
  intros Hw Hw' HR p. rewrite (lview_plain t p Hw), (lview_plain t' p Hw'), (live_same t t' Hw Hw' HR p), HR. reflexivity.
Qed.

Theorem plain_same_answers t t' : wfp t -> wfp t' -> (forall p, rrsets_at t p = rrsets_at t' p) ->
  forall q qt, query t q qt = query t' q qt.
Proof.
  intros Hw Hw' HR q qt.
  rewrite !query_is_vspec by (apply wfp_clean; assumption).
  f_equal.
  - unfold get_soa. change (n_rrsets t) with (rrsets_at t []). change (n_rrsets t') with (rrsets_at t' []).
    rewrite HR. reflexivity.
  - apply vspec_ext. apply plain_same_view; assumption.
Qed.

(* ------------------------------------------------------------------ operations keep trees plain *)
Lemma upsert_keys l f cs : forall k, In k (map fst (upsert_child l f cs)) <-> k = l \/ In k (map fst cs).
Proof.
  induction cs as [|[k' c] cs IH]; intro k; simpl.
  - intuition.
  - destruct (k' =? l) eqn:E; simpl.
    + apply N.eqb_eq in E. subst. intuition.
    + rewrite IH. intuition.
Qed.

Lemma upsert_nodup l f cs : NoDup (map fst cs) -> NoDup (map fst (upsert_child l f cs)).
Proof.
  induction cs as [|[k c] cs IH]; simpl; intro H.
  - constructor; [simpl; tauto|constructor].
  - inversion H; subst. destruct (k =? l) eqn:E; simpl.
    + constructor; assumption.
    + constructor; [|auto]. rewrite upsert_keys. intros [Hk|Hk]; [subst; rewrite N.eqb_refl in E; discriminate|contradiction].
Qed.

Lemma upsert_forall (P : node -> Prop) l f cs :
  Forall (fun lc => P (snd lc)) cs -> P (f true empty_node) -> (forall c, P c -> P (f false c)) ->
  Forall (fun lc => P (snd lc)) (upsert_child l f cs).
Proof.
  intros H Hn Hf. induction cs as [|[k c] cs IH]; simpl.
  - constructor; [exact Hn|constructor].
  - inversion H; subst. destruct (k =? l); constructor; simpl in *; auto.
Qed.

Lemma with_path_wfp mk f : (forall x, wfp x -> wfp (mk x)) -> (forall x, wfp x -> wfp (f x)) ->
  forall p n, wfp n -> wfp (with_path mk p f n).
Proof.
  intros Hmk Hf. induction p as [|l p IH]; intros n Hn; simpl; [auto|].
  destruct n as [r s cs]. apply wfp_unfold in Hn. destruct Hn as (Hs & Hnd & Hall).
  apply wfp_unfold. split; [exact Hs|]. split; [apply upsert_nodup; exact Hnd|].
  apply upsert_forall; auto.
  apply IH. apply Hmk. apply wfp_empty.
Qed.

Definition keeps_plain (f : node -> node) : Prop := forall x, wfp x -> wfp (f x).

Lemma kp_set_none : keeps_plain (set_special None).
Proof. intros [r s cs] H. apply wfp_unfold in H. apply wfp_unfold. tauto. Qed.
Lemma kp_set_marker : keeps_plain (set_special (Some NxDomain)).
Proof. intros [r s cs] H. apply wfp_unfold in H. apply wfp_unfold. simpl. tauto. Qed.
Lemma kp_map_rrsets g : keeps_plain (map_rrsets g).
Proof. intros [r s cs] H. apply wfp_unfold in H. apply wfp_unfold. tauto. Qed.
Lemma kp_check : keeps_plain check_nx_domain.
Proof.
  intros x H. unfold check_nx_domain. destruct (n_special x) as [[c|c|]|]; auto.
  - destruct (negb (rrsets_is_empty (n_rrsets x)) && nx_marked_clears_when_nonempty); auto. apply kp_set_none; auto.
  - destruct (rrsets_is_empty (n_rrsets x) && nx_unmarked_sets_when_empty); auto. apply kp_set_marker; auto.
Qed.
Lemma kp_regular : keeps_plain make_regular_node.
Proof. intros x H. apply kp_check. apply kp_set_none. exact H. Qed.
Lemma kp_id : keeps_plain (fun n => n).
Proof. intros x H; exact H. Qed.

Lemma remove_all_children cs :
  n_children (remove_all_node (Node [] None cs)) = map (fun lc => (fst lc, remove_all_node (snd lc))) cs.
Proof. simpl. induction cs as [|[l c] cs IH]; simpl; auto. f_equal. exact IH. Qed.

Lemma kp_remove_all : keeps_plain remove_all_node.
Proof.
  unfold keeps_plain.
  apply (node_ind' (fun x => wfp x -> wfp (remove_all_node x))).
  intros r s cs IH H. apply wfp_unfold in H. destruct H as (_ & Hnd & Hall).
  assert (E : remove_all_node (Node r s cs) = Node [] None (map (fun lc => (fst lc, remove_all_node (snd lc))) cs)).
  { simpl. f_equal. induction cs as [|[l c] cs IHc]; simpl; auto. f_equal. apply IHc.
    - inversion IH; assumption. - inversion Hnd; assumption. - inversion Hall; assumption. }
  rewrite E. apply wfp_unfold. split; [reflexivity|]. split.
  - rewrite map_map. simpl. exact Hnd.
  - rewrite Forall_forall in *. intros lc Hin. apply in_map_iff in Hin. destruct Hin as (lc0 & Hlc & Hin0). subst lc. simpl.
    apply (IH _ Hin0). apply (Hall _ Hin0).
Qed.

Lemma graft_wfp : forall w c, wfp c -> wfp (graft w c).
Proof.
  apply (node_ind' (fun w => forall c, wfp c -> wfp (graft w c))).
  intros wr ws wcs IH c Hc. destruct c as [r s ccs]. apply wfp_unfold in Hc. destruct Hc as (Hs & Hnd & Hall).
  cbn [graft]. apply wfp_unfold. split; [exact Hs|].
  revert ccs Hnd Hall. induction wcs as [|[l wc] wcs IHw]; intros ccs Hnd Hall.
  - split; assumption.
  - inversion IH; subst. simpl in H1.
    apply IHw; auto.
    + apply upsert_nodup. exact Hnd.
    + apply upsert_forall; auto. apply H1. apply wfp_empty.
Qed.

Lemma w_node_wfp p f z : keeps_plain f -> wfp z -> wfp (w_node p f z).
Proof. intros Hf Hz. apply with_path_wfp; auto. apply kp_regular. Qed.

Lemma w_update_rrset_wfp p r z : wfp z -> wfp (w_update_rrset p r z).
Proof.
  intro H. apply w_node_wfp; auto. intros x Hx. pose proof (kp_map_rrsets (update_rrsets r) x Hx).
  destruct (is_apex p); auto. apply kp_check. auto.
Qed.
Lemma w_remove_rrset_wfp p t z : wfp z -> wfp (w_remove_rrset p t z).
Proof.
  intro H. apply w_node_wfp; auto. intros x Hx. pose proof (kp_map_rrsets (remove_rtype t) x Hx).
  destruct (is_apex p); auto. apply kp_check. auto.
Qed.
Lemma u_add_wfp p t ttl d z : wfp z -> wfp (u_add p t ttl d z).
Proof. intro H. unfold u_add. apply w_update_rrset_wfp. apply w_node_wfp; auto. apply kp_id. Qed.
Lemma u_del_wfp p t ttl d z : wfp z -> wfp (u_del p t ttl d z).
Proof.
  intro H. unfold u_del.
  assert (H1 : wfp (w_node p (fun n => n) z)) by (apply w_node_wfp; auto; apply kp_id).
  destruct (filter _ _); [apply w_remove_rrset_wfp|apply w_update_rrset_wfp]; exact H1.
Qed.
Lemma insert_rrset_wfp p r z : wfp z -> wfp (insert_rrset p r z).
Proof. intro H. unfold insert_rrset, b_node. apply with_path_wfp; [apply kp_id|apply kp_map_rrsets|exact H]. Qed.

(* ------------------------------------------------------------------ histories without delegation / alias records *)
Definition special_type (p : name) (t : rtype) : bool :=
  (((t =? rt_ns) || (t =? rt_ds)) && negb (is_apex p)) || (t =? rt_cname).

Definition plain_op (o : op) : bool :=
  match o with
  | OBRr p r => negb (special_type p (rs_type r))
  | OBCut _ | OBCname _ _ | OWCut _ _ | OWCname _ _ => false
  | OZRec g | OUAdd g | OUDel g => negb (special_type (g_owner g) (g_type g))
  | OWRr p r => negb (special_type p (rs_type r))
  | _ => true
  end.

(* decidable: no NS / DS below the apex and no CNAME anywhere in the history *)
Definition no_special_records (h : list op) : bool := forallb plain_op h.

Definition zf_plain (zf : zonefile) : Prop := zf_cuts zf = [] /\ zf_cnames zf = [].

Lemma zf_insert_plain g zf zf' : zf_plain zf -> special_type (g_owner g) (g_type g) = false ->
  zf_insert g zf = Ok zf' -> zf_plain zf'.
Proof.
  intros [Hc Ha] Hs. unfold zf_insert, special_type in *.
  apply orb_false_iff in Hs. destruct Hs as [Hs1 Hs2]. rewrite Hs1, Hs2. rewrite Hc, Ha. simpl.
  destruct (is_glue (g_type g)); intro H; inversion H; subst; split; reflexivity.
Qed.

Lemma zf_build_plain zf : zf_plain zf -> wfp (fst (zf_build zf)).
Proof.
  intros [Hc Ha]. rewrite zf_build_unfold, Hc, Ha. simpl.
  assert (G : forall N z ok, wfp z -> wfp (fst (fold_left F3 N (z, ok)))).
  { induction N as [|[o rs] N IH]; intros z ok Hz; simpl; auto. apply IH.
    revert z Hz. induction rs as [|r rs IHr]; intros z Hz; simpl; auto. apply IHr. apply insert_rrset_wfp. exact Hz. }
  apply G. apply wfp_empty.
Qed.

Record inv (s : state) : Prop := mkInv {
  inv_builder : wfp (s_builder s);
  inv_comm : wfp (s_comm s);
  inv_work : forall w, s_work s = Some w -> wfp w;
  inv_zf : forall zf, s_zf s = Some zf -> zf_plain zf }.

Lemma inv_init : inv init_state.
Proof. constructor; simpl; try apply wfp_empty; intros; discriminate. Qed.

Lemma inv_finish i s : inv s -> inv (finish_build i s).
Proof.
  intros [Hb Hc Hw Hz]. unfold finish_build. destruct (s_built s); [constructor; auto|].
  destruct (s_zf s) as [zf|] eqn:Ez.
  - pose proof (zf_build_plain zf (Hz zf eq_refl)) as Hp. destruct (zf_build zf) as [z ok]. simpl in Hp.
    destruct ok; constructor; simpl; auto; intros; discriminate.
  - constructor; simpl; auto; intros; discriminate.
Qed.

Lemma inv_on_work f s : keeps_plain f -> inv s -> inv (on_work f s).
Proof.
  intros Hf Hs. unfold on_work. destruct (s_work s) as [w|] eqn:E; [|exact Hs].
  destruct Hs as [Hb Hc Hw Hz].
  constructor; simpl; auto. intros w' H. inversion H; subst. apply Hf. apply Hw. exact E.
Qed.

Lemma inv_add_err i e s : inv s -> inv (add_err i e s).
Proof. intros [Hb Hc Hw Hz]. constructor; simpl; auto. Qed.
Lemma inv_set_fin b s : inv s -> inv (set_fin b s).
Proof. intros [Hb Hc Hw Hz]. constructor; simpl; auto. Qed.
Lemma inv_commit b s : inv s -> inv (commit b s).
Proof.
  intros Hs. unfold commit. destruct (s_work s) as [w|] eqn:E; [|exact Hs].
  destruct Hs as [Hb Hc Hw Hz].
  constructor; simpl; auto. destruct b; intros w' H; inversion H; subst; auto.
Qed.
Lemma inv_rollback s : inv s -> inv (rollback s).
Proof.
  intros Hs. unfold rollback. destruct (s_work s) as [w|] eqn:E; [|exact Hs].
  destruct Hs as [Hb Hc Hw Hz].
  constructor; simpl; auto. apply graft_wfp. exact Hc. intros; discriminate.
Qed.
Lemma inv_open s : inv s -> inv (set_work (Some (s_comm s)) s).
Proof. intros [Hb Hc Hw Hz]. constructor; simpl; auto. intros w H. inversion H; subst; auto. Qed.

Lemma inv_step i s o : plain_op o = true -> inv s -> inv (step i s o).
Proof.
  intros Ho Hs. unfold step.
  assert (Hs' : inv (if is_history o then finish_build i s else s)) by (destruct (is_history o); [apply inv_finish|]; exact Hs).
  set (s1 := if is_history o then finish_build i s else s) in *. clearbody s1.
  destruct o; simpl in Ho; try discriminate.
  - destruct Hs' as [Hb Hc Hw Hz]. constructor; simpl; auto. apply insert_rrset_wfp. exact Hb.
  - destruct Hs' as [Hb Hc Hw Hz].
    assert (Hp : zf_plain (match s_zf s1 with Some zf => zf | None => zf_empty end)).
    { destruct (s_zf s1) eqn:E; [apply Hz; reflexivity|split; reflexivity]. }
    apply negb_true_iff in Ho.
    destruct (zf_insert g _) eqn:Ei.
    + constructor; simpl; auto. intros zf H. inversion H; subst. eapply zf_insert_plain; eauto.
    + apply inv_add_err. constructor; simpl; auto. intros zf H. inversion H; subst. exact Hp.
    + constructor; auto.
    + constructor; auto.
  - apply inv_set_fin. apply inv_open. exact Hs'.
  - destruct (s_fin s1); [apply inv_add_err; exact Hs'|apply inv_on_work; auto]. intros x Hx. apply u_add_wfp. exact Hx.
  - destruct (s_fin s1); [apply inv_add_err; exact Hs'|apply inv_on_work; auto]. intros x Hx. apply u_del_wfp. exact Hx.
  - destruct (s_fin s1); [apply inv_add_err; exact Hs'|apply inv_on_work; auto].
    intros x Hx. unfold w_remove_all. apply w_node_wfp; auto. apply kp_remove_all.
  - destruct (s_fin s1); [apply inv_add_err; exact Hs'|].
    destruct (s_work s1); [|exact Hs'].
    destruct (if batch_delete_checks_serial then soa_serial_matches d n else true); [apply inv_commit|apply inv_add_err]; exact Hs'.
  - destruct (s_fin s1); [apply inv_add_err; exact Hs'|apply inv_on_work; auto].
    intros x Hx. unfold u_soa. apply w_update_rrset_wfp. exact Hx.
  - destruct (s_fin s1); [apply inv_add_err; exact Hs'|].
    apply inv_set_fin. apply inv_commit. apply inv_on_work; auto. intros x Hx. unfold u_soa. apply w_update_rrset_wfp. exact Hx.
  - apply inv_set_fin. apply inv_rollback. exact Hs'.
  - apply inv_open. exact Hs'.
  - apply inv_on_work; auto. intros x Hx. apply w_update_rrset_wfp. exact Hx.
  - apply inv_on_work; auto. intros x Hx. apply w_remove_rrset_wfp. exact Hx.
  - apply inv_on_work; auto. intros x Hx. unfold w_make_regular. apply w_node_wfp; auto.
    intros y Hy. destruct (is_apex p); auto. apply kp_regular. exact Hy.
  - apply inv_on_work; auto. intros x Hx. unfold w_remove_all. apply w_node_wfp; auto. apply kp_remove_all.
  - apply inv_commit. exact Hs'.
  - apply inv_rollback. exact Hs'.
Qed.

Lemma inv_run : forall ops i s, forallb plain_op ops = true -> inv s -> inv (run_from i s ops).
Proof.
  induction ops as [|o ops IH]; intros i s Hp Hs; simpl.
  - apply inv_rollback. apply inv_finish. exact Hs.
  - simpl in Hp. apply andb_true_iff in Hp. destruct Hp as [Ho Hp]. apply IH; auto. apply inv_step; auto.
Qed.

Theorem plain_history_tree h : no_special_records h = true -> wfp (run h).
Proof. intro H. unfold run, run_ops. apply (inv_comm _ (inv_run h 0 init_state H inv_init)). Qed.

(* History independence without delegation / alias records: two histories --
   e.g. an arbitrary update history and the direct build -- that end with the
   same RRsets at the same names answer every query identically. *)
Theorem plain_history_independent h h' :
  no_special_records h = true -> no_special_records h' = true ->
  (forall p, rrsets_at (run h) p = rrsets_at (run h') p) ->
  forall q qt, query (run h) q qt = query (run h') q qt.
Proof.
  intros H H' HR. apply plain_same_answers; auto; apply plain_history_tree; assumption.
Qed.

(* non-vacuity: the former witnesses are such histories, with their rebuilt zones *)
Example plain_examples :
  no_special_records h_k1 = true /\ no_special_records h_k2 = true /\ no_special_records h_repl = true /\
  no_special_records h_abort = true /\ no_special_records h_k3 = false /\ no_special_records h_surv = false.
Proof. repeat split; reflexivity. Qed.

Definition h_k1_direct : list op := [OZRec soa1; OZRec (mkG [lb; la] T_A 101 (tok 5))].
Example k1_same_rrsets :
  no_special_records h_k1_direct = true /\
  rrsets_at (run h_k1) [] = rrsets_at (run h_k1_direct) [] /\
  rrsets_at (run h_k1) [lb] = rrsets_at (run h_k1_direct) [lb] /\
  rrsets_at (run h_k1) [lb; la] = rrsets_at (run h_k1_direct) [lb; la] /\
  query (run h_k1) [lb; la] T_A = query (run h_k1_direct) [lb; la] T_A.
Proof. repeat split; vm_compute; reflexivity. Qed.
