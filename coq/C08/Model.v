(* C08 -- executable model of the in-memory zone tree of one zone version:
   nodes.rs (ZoneApex / ZoneNode / NodeRrsets / Special), builder.rs
   (ZoneBuilder), read.rs (ReadZone::query and NodeAnswer), write.rs (WriteNode),
   update.rs (ZoneUpdater::apply) and parsed.rs (Zonefile -> ZoneBuilder).

   A `Versioned<T>` is modelled by the value a reader / the writer of the
   version under consideration gets (`get(version)`); a write in progress is the
   pair (committed tree, working tree).  Commit publishes the working tree,
   rollback restores the committed values -- but nodes created in the children
   maps stay (they are not versioned).  Hash-map iteration order is the order of
   the association lists.  Names are label lists relative to the apex, apex
   side first (the order of `rel_name_rev_iter`).  Definitions only. *)
From Coq Require Import NArith List Bool.
From DV Require Import Base.Outcome C08.Gen.
Import ListNotations.
Local Open Scope N_scope.

Definition label := N.
Definition name := list label.
Definition rtype := N.

(* record data is opaque except for the in-zone target of NS records (glue) *)
Record rdata := mkRd { rd_tok : N; rd_tgt : option name }.
Record rrset := mkRrset { rs_type : rtype; rs_ttl : N; rs_data : list rdata }.
Record rr := mkRr { rr_ttl : N; rr_data : rdata }.                 (* SharedRr *)
Record grec := mkG { g_owner : name; g_type : rtype; g_ttl : N; g_data : rdata }.  (* StoredRecord *)
Record zcut := mkCut { c_name : name; c_ns : rrset; c_ds : option rrset; c_glue : list grec }.

Inductive special := Cut (c : zcut) | Cname (r : rr) | NxDomain.

(* ZoneNode; the apex is a node whose [special] is never set *)
Inductive node := Node (rrsets : list rrset) (sp : option special) (children : list (label * node)).

Definition n_rrsets (n : node) := let 'Node r _ _ := n in r.
Definition n_special (n : node) := let 'Node _ s _ := n in s.
Definition n_children (n : node) := let 'Node _ _ c := n in c.
Definition empty_node := Node [] None [].

(* ------------------------------------------------------------------ equality helpers *)
Fixpoint name_eqb (a b : name) : bool :=
  match a, b with
  | [], [] => true
  | x :: a', y :: b' => (x =? y) && name_eqb a' b'
  | _, _ => false
  end.
Definition oname_eqb (a b : option name) : bool :=
  match a, b with Some x, Some y => name_eqb x y | None, None => true | _, _ => false end.
Definition rdata_eqb (a b : rdata) : bool := (rd_tok a =? rd_tok b) && oname_eqb (rd_tgt a) (rd_tgt b).

(* ------------------------------------------------------------------ NodeRrsets *)
Fixpoint get_rrset (t : rtype) (l : list rrset) : option rrset :=
  match l with
  | [] => None
  | r :: l' => if rs_type r =? t then Some r else get_rrset t l'
  end.
Definition remove_rtype (t : rtype) (l : list rrset) : list rrset :=
  filter (fun r => negb (rs_type r =? t)) l.
Fixpoint set_rrset (r : rrset) (l : list rrset) : list rrset :=
  match l with
  | [] => [r]
  | x :: l' => if rs_type x =? rs_type r then r :: l' else x :: set_rrset r l'
  end.
(* NodeRrsets::update: an empty RRset removes the type *)
Definition update_rrsets (r : rrset) (l : list rrset) : list rrset :=
  match rs_data r with
  | [] => if empty_rrset_update_removes then remove_rtype (rs_type r) l else set_rrset r l
  | _ => set_rrset r l
  end.
Definition rrsets_is_empty (l : list rrset) : bool := match l with [] => true | _ => false end.

(* ------------------------------------------------------------------ NodeChildren *)
Fixpoint find_child (l : label) (cs : list (label * node)) : option node :=
  match cs with
  | [] => None
  | (k, c) :: cs' => if k =? l then Some c else find_child l cs'
  end.
(* with_or_default + mutation of the child found / created; [created] tells f *)
Fixpoint upsert_child (l : label) (f : bool -> node -> node) (cs : list (label * node)) : list (label * node) :=
  match cs with
  | [] => [(l, f true empty_node)]
  | (k, c) :: cs' => if k =? l then (k, f false c) :: cs' else (k, c) :: upsert_child l f cs'
  end.

(* descend along [p] creating missing nodes; [mk] is applied to every node
   created on the way (update_child's make_regular; the builder does nothing),
   [f] to the node at the end *)
Fixpoint with_path (mk : node -> node) (p : name) (f : node -> node) (n : node) : node :=
  match p with
  | [] => f n
  | l :: p' =>
      let 'Node r s cs := n in
      Node r s (upsert_child l (fun created c => with_path mk p' f (if created then mk c else c)) cs)
  end.

Fixpoint node_at (n : node) (p : name) : option node :=
  match p with
  | [] => Some n
  | l :: p' => match find_child l (n_children n) with Some c => node_at c p' | None => None end
  end.

Definition set_special (s : option special) (n : node) : node := let 'Node r _ cs := n in Node r s cs.
Definition map_rrsets (f : list rrset -> list rrset) (n : node) : node := let 'Node r s cs := n in Node (f r) s cs.

(* ------------------------------------------------------------------ ZoneBuilder *)
Definition E_CutAtApex : N := 1.
Definition E_CnameAtApex : N := 2.
Definition E_Finished : N := 3.
Definition E_NotAllowed : N := 4.
Definition E_IllegalZoneCut : N := 5.
Definition E_IllegalRecord : N := 6.
Definition E_IllegalCname : N := 7.
Definition E_MultipleCnames : N := 8.
Definition E_ZoneErrors : N := 9.
Definition E_SoaMismatch : N := 10.

Definition b_node (p : name) (f : node -> node) (z : node) : node := with_path (fun c => c) p f z.

Definition insert_rrset (p : name) (r : rrset) (z : node) : node :=
  b_node p (map_rrsets (update_rrsets r)) z.

Definition insert_zone_cut (p : name) (ns : rrset) (ds : option rrset) (glue : list grec) (z : node) : outcome node :=
  match p with
  | [] => Err E_CutAtApex
  | _ => Ok (b_node p (set_special (Some (Cut (mkCut p ns ds glue)))) z)
  end.

Definition insert_cname (p : name) (c : rr) (z : node) : outcome node :=
  match p with
  | [] => Err E_CnameAtApex
  | _ => Ok (b_node p (set_special (Some (Cname c))) z)
  end.

(* ------------------------------------------------------------------ ReadZone::query *)
Inductive acontent := AData (r : rrset) | ACname (r : rr) | ANoData.
Record authority := mkAuth { au_owner : name; au_soa : option rr; au_ns : option rrset; au_ds : option rrset }.
Record answer := mkAnswer { a_rcode : N; a_aa : bool; a_content : acontent;
                            a_auth : option authority; a_addl : list grec }.

(* NodeAnswer: the answer plus the add_soa instruction *)
Record nanswer := mkNA { na_rcode : N; na_add_soa : bool; na_auth_flag : bool; na_content : acontent;
                         na_auth : option authority; na_addl : list grec }.
Definition mk_na (tbl : N * bool * bool) c au ad : nanswer :=
  let '(rc, soa, aa) := tbl in mkNA rc soa aa c au ad.
Definition NA_data (r : rrset) := mk_na na_data (AData r) None [].
Definition NA_no_data := mk_na na_no_data ANoData None [].
Definition NA_cname (r : rr) := mk_na na_cname (ACname r) None [].
Definition NA_nx_domain := mk_na na_nx_domain ANoData None [].
Definition NA_authority (c : zcut) :=
  mk_na na_authority ANoData (Some (mkAuth (c_name c) None (Some (c_ns c)) (c_ds c))) (c_glue c).

Definition query_rrsets (rs : list rrset) (qt : rtype) : nanswer :=
  if qt =? any_type then
    match rs with r :: _ => NA_data r | [] => NA_no_data end
  else match get_rrset qt rs with Some r => NA_data r | None => NA_no_data end.

Definition query_at_cut (c : zcut) (qt : rtype) : nanswer :=
  if qt =? cut_answers_type then
    match c_ds c with Some r => NA_data r | None => NA_no_data end
  else NA_authority c.

(* ZoneNode::exists: nodes are never removed; a name exists if it owns data
   (RRsets, a zone cut, a CNAME) or a name below it exists *)
Fixpoint node_exists (n : node) : bool :=
  let 'Node rs sp cs := n in
  negb (rrsets_is_empty rs)
  || match sp with Some (Cut _) => true | Some (Cname _) => true | _ => false end
  || (fix any (cs : list (label * node)) : bool :=
        match cs with [] => false | (_, c) :: cs' => node_exists c || any cs' end) cs.

Definition here_but_not_below (n : node) (qt : rtype) : nanswer :=
  match n_special n with
  | Some (Cut c) => query_at_cut c qt
  | Some (Cname c) => NA_cname c
  | Some NxDomain => if marker_answers_like_unmarked then query_rrsets (n_rrsets n) qt else NA_nx_domain
  | None => query_rrsets (n_rrsets n) qt
  end.

(* a child counts only if its name exists *)
Definition find_existing (l : label) (cs : list (label * node)) : option node :=
  match find_child l cs with
  | Some c => if children_filtered_by_exists then (if node_exists c then Some c else None) else Some c
  | None => None
  end.

(* query_children, walk disabled: existing exact child, else the existing `*`
   child, else NXDOMAIN.  [rec] is the continuation on the exact child
   (query_node with the rest of the name). *)
Definition query_children (rec : node -> nanswer) (cs : list (label * node)) (l : label) (qt : rtype) : nanswer :=
  match find_existing l cs with
  | Some c => rec c
  | None =>
      if children_exact_then_wildcard then
        match find_existing wild_label cs with
        | Some w => here_but_not_below w qt
        | None => NA_nx_domain
        end
      else NA_nx_domain
  end.

(* query_node + query_node_here_and_below *)
Fixpoint query_node (n : node) (q : name) (qt : rtype) : nanswer :=
  match q with
  | [] => here_but_not_below n qt
  | l :: q' =>
      match n_special n with
      | Some (Cut c) => NA_authority c
      | Some NxDomain =>
          if marker_descends_like_unmarked then query_children (fun c => query_node c q' qt) (n_children n) l qt
          else NA_nx_domain
      | _ => query_children (fun c => query_node c q' qt) (n_children n) l qt
      end
  end.

Definition query_apex (z : node) (q : name) (qt : rtype) : nanswer :=
  match q with
  | [] => query_rrsets (n_rrsets z) qt
  | l :: q' => query_children (fun c => query_node c q' qt) (n_children z) l qt
  end.

Definition get_soa (z : node) : option rr :=
  match get_rrset soa_type (n_rrsets z) with
  | Some r => match rs_data r with d :: _ => Some (mkRr (rs_ttl r) d) | [] => None end
  | None => None
  end.

Definition into_answer (z : node) (a : nanswer) : answer :=
  let auth :=
    if na_add_soa a && soa_added_when_flag_and_present then
      match get_soa z with
      | Some s => Some (mkAuth [] (Some s) None None)
      | None => na_auth a
      end
    else na_auth a in
  mkAnswer (na_rcode a) (na_auth_flag a) (na_content a) auth (na_addl a).

Definition query (z : node) (q : name) (qt : rtype) : answer := into_answer z (query_apex z q qt).

(* ------------------------------------------------------------------ ReadZone::walk *)
(* every RRset handed to the WalkOp: owner, RRset, at_zone_cut.  query_node in
   walk mode reports the node's RRsets, then the special: a cut reports NS, DS
   and one RRset per glue record (with the glue record's owner) and is not
   descended; a CNAME is reported as a one-record RRset *)
Definition wrec : Type := name * rrset * bool.
Definition glue_rrset (g : grec) : rrset := mkRrset (g_type g) (g_ttl g) [g_data g].

Fixpoint walk_node (path : name) (n : node) : list wrec :=
  let 'Node rs sp cs := n in
  let kids := (fix go (cs : list (label * node)) : list wrec :=
                 match cs with [] => [] | (l, c) :: cs' => walk_node (path ++ [l]) c ++ go cs' end) cs in
  map (fun r => (path, r, false)) rs ++
  match sp with
  | Some (Cut c) =>
      (path, c_ns c, true) :: (match c_ds c with Some d => [(path, d, true)] | None => [] end) ++
      map (fun g => (g_owner g, glue_rrset g, true)) (c_glue c)
  | Some (Cname c) => (path, mkRrset rt_cname (rr_ttl c) [rr_data c], false) :: kids
  | _ => kids
  end.

Definition walk (z : node) : list wrec :=
  let 'Node rs _ cs := z in
  map (fun r => ([], r, false)) rs ++
  (fix go (cs : list (label * node)) : list wrec :=
     match cs with [] => [] | (l, c) :: cs' => walk_node [l] c ++ go cs' end) cs.

(* ------------------------------------------------------------------ WriteNode (write.rs) *)
Definition is_apex (p : name) : bool := match p with [] => true | _ => false end.

Definition check_nx_domain (n : node) : node :=
  match n_special n with
  | Some NxDomain =>
      if negb (rrsets_is_empty (n_rrsets n)) && nx_marked_clears_when_nonempty then set_special None n else n
  | None =>
      if rrsets_is_empty (n_rrsets n) && nx_unmarked_sets_when_empty then set_special (Some NxDomain) n else n
  | _ => n
  end.

Definition make_regular_node (n : node) : node := check_nx_domain (set_special None n).

(* a WriteNode is reached from the root by update_child along [p]; nodes created
   on the way are made regular *)
Definition w_node (p : name) (f : node -> node) (z : node) : node := with_path make_regular_node p f z.

Definition w_update_rrset (p : name) (r : rrset) (z : node) : node :=
  w_node p (fun n => let n' := map_rrsets (update_rrsets r) n in if is_apex p then n' else check_nx_domain n') z.
Definition w_remove_rrset (p : name) (t : rtype) (z : node) : node :=
  w_node p (fun n => let n' := map_rrsets (remove_rtype t) n in if is_apex p then n' else check_nx_domain n') z.
Definition w_make_regular (p : name) (z : node) : node :=
  w_node p (fun n => if is_apex p then n else make_regular_node n) z.
Definition w_make_zone_cut (p : name) (c : zcut) (z : node) : outcome node :=
  if is_apex p then Err E_NotAllowed else Ok (w_node p (set_special (Some (Cut c))) z).
Definition w_make_cname (p : name) (c : rr) (z : node) : outcome node :=
  if is_apex p then Err E_NotAllowed else Ok (w_node p (set_special (Some (Cname c))) z).

(* ZoneNode::remove_all / ZoneApex::remove_all *)
Fixpoint remove_all_node (n : node) : node :=
  let 'Node _ _ cs := n in
  Node [] None ((fix go (cs : list (label * node)) : list (label * node) :=
                   match cs with [] => [] | (l, c) :: cs' => (l, remove_all_node c) :: go cs' end) cs).
Definition w_remove_all (p : name) (z : node) : node := w_node p remove_all_node z.

(* rollback of an uncommitted version: every versioned value returns to the
   committed one; nodes inserted into the children maps stay, bare *)
Fixpoint graft (w c : node) {struct w} : node :=
  let 'Node _ _ wcs := w in
  let 'Node r s ccs := c in
  Node r s ((fix go (wcs : list (label * node)) (ccs : list (label * node)) : list (label * node) :=
               match wcs with
               | [] => ccs
               | (l, wc) :: wcs' => go wcs' (upsert_child l (fun _ cc => graft wc cc) ccs)
               end) wcs ccs).

(* ------------------------------------------------------------------ ZoneUpdater (update.rs) *)
Definition rrset_data_at (z : node) (p : name) (t : rtype) : list rdata :=
  match node_at z p with
  | Some n => match get_rrset t (n_rrsets n) with Some r => rs_data r | None => [] end
  | None => []
  end.

Definition u_add (p : name) (t : rtype) (ttl : N) (d : rdata) (z : node) : node :=
  let z1 := w_node p (fun n => n) z in
  w_update_rrset p (mkRrset t ttl (d :: rrset_data_at z1 p t)) z1.

Definition u_del (p : name) (t : rtype) (ttl : N) (d : rdata) (z : node) : node :=
  let z1 := w_node p (fun n => n) z in
  let keep := filter (fun x => negb (rdata_eqb x d)) (rrset_data_at z1 p t) in
  match keep with
  | [] => w_remove_rrset p t z1
  | _ => w_update_rrset p (mkRrset t ttl keep) z1
  end.

(* check_soa_serial: the first record of the working copy's SOA RRset must have
   the serial of the given SOA record (record data is a token; for SOA records the
   token is the serial); no SOA in the zone is a mismatch *)
Definition soa_serial_matches (d : rdata) (z : node) : bool :=
  match get_soa z with Some s => rd_tok (rr_data s) =? rd_tok d | None => false end.

Definition u_soa (ttl : N) (d : rdata) (z : node) : node := w_update_rrset [] (mkRrset soa_type ttl [d]) z.

(* ------------------------------------------------------------------ parsed::Zonefile *)
Record zonefile := mkZf { zf_normal : list (name * list rrset);
                          zf_cuts : list (name * (option rrset * option rrset));
                          zf_cnames : list (name * rr) }.
Definition zf_empty := mkZf [] [] [].

Fixpoint alookup {A} (k : name) (l : list (name * A)) : option A :=
  match l with [] => None | (k', v) :: l' => if name_eqb k' k then Some v else alookup k l' end.
Fixpoint aupsert {A} (k : name) (dflt : A) (f : A -> A) (l : list (name * A)) : list (name * A) :=
  match l with
  | [] => [(k, f dflt)]
  | (k', v) :: l' => if name_eqb k' k then (k', f v) :: l' else (k', v) :: aupsert k dflt f l'
  end.

Definition is_glue (t : rtype) : bool := existsb (N.eqb t) glue_types.

(* Rrset::push_record *)
Definition push_record (ttl : N) (d : rdata) (r : rrset) : rrset :=
  mkRrset (rs_type r) (N.min (rs_ttl r) ttl) (rs_data r ++ [d]).
Definition push_opt (t : rtype) (ttl : N) (d : rdata) (o : option rrset) : option rrset :=
  match o with Some r => Some (push_record ttl d r) | None => Some (mkRrset t ttl [d]) end.
(* Normal::insert *)
Definition normal_insert (t : rtype) (ttl : N) (d : rdata) (l : list rrset) : list rrset :=
  match get_rrset t l with
  | Some r => set_rrset (push_record ttl d r) l
  | None => l ++ [mkRrset t ttl [d]]
  end.

Definition zf_insert (g : grec) (zf : zonefile) : outcome zonefile :=
  let o := g_owner g in let t := g_type g in
  if ((t =? rt_ns) || (t =? rt_ds)) && negb (is_apex o) then
    match alookup o (zf_normal zf) with
    | Some rs => if existsb (fun r => negb (is_glue (rs_type r))) rs then Err E_IllegalZoneCut else
        match alookup o (zf_cnames zf) with
        | Some _ => Err E_IllegalZoneCut
        | None => Ok (mkZf (zf_normal zf)
                           (aupsert o (None, None) (fun c => if t =? rt_ns then (push_opt t (g_ttl g) (g_data g) (fst c), snd c)
                                                             else (fst c, push_opt t (g_ttl g) (g_data g) (snd c))) (zf_cuts zf))
                           (zf_cnames zf))
        end
    | None =>
        match alookup o (zf_cnames zf) with
        | Some _ => Err E_IllegalZoneCut
        | None => Ok (mkZf (zf_normal zf)
                           (aupsert o (None, None) (fun c => if t =? rt_ns then (push_opt t (g_ttl g) (g_data g) (fst c), snd c)
                                                             else (fst c, push_opt t (g_ttl g) (g_data g) (snd c))) (zf_cuts zf))
                           (zf_cnames zf))
        end
    end
  else if t =? rt_cname then
    match alookup o (zf_normal zf) with
    | Some _ => Err E_IllegalCname
    | None =>
        match alookup o (zf_cuts zf) with
        | Some _ => Err E_IllegalCname
        | None =>
            match alookup o (zf_cnames zf) with
            | Some _ => Err E_MultipleCnames
            | None => Ok (mkZf (zf_normal zf) (zf_cuts zf) (zf_cnames zf ++ [(o, mkRr (g_ttl g) (g_data g))]))
            end
        end
    end
  else
    match (if is_glue t then None else alookup o (zf_cuts zf)) with
    | Some _ => Err E_IllegalRecord
    | None =>
        match alookup o (zf_cnames zf) with
        | Some _ => Err E_IllegalRecord
        | None => Ok (mkZf (aupsert o [] (normal_insert t (g_ttl g) (g_data g)) (zf_normal zf)) (zf_cuts zf) (zf_cnames zf))
        end
    end.

(* Owners<Normal>::collect_glue *)
Definition collect_glue (normal : list (name * list rrset)) (tgt : name) : list grec :=
  match alookup tgt normal with
  | Some rs => flat_map (fun r => if is_glue (rs_type r) then map (fun d => mkG tgt (rs_type r) (rs_ttl r) d) (rs_data r) else []) rs
  | None => []
  end.
Definition glue_for (normal : list (name * list rrset)) (ns : rrset) : list grec :=
  flat_map (fun d => match rd_tgt d with Some t => collect_glue normal t | None => [] end) (rs_data ns).

(* TryFrom<Zonefile> for ZoneBuilder: cuts, then CNAMEs, then normal records.
   The bool is false when a ContextError was recorded (then the conversion fails
   as a whole). *)
Definition zf_build (zf : zonefile) : node * bool :=
  let s1 := fold_left (fun (acc : node * bool) (e : name * (option rrset * option rrset)) =>
              let '(z, ok) := acc in
              match fst (snd e) with
              | None => (z, false)
              | Some ns => match insert_zone_cut (fst e) ns (snd (snd e)) (glue_for (zf_normal zf) ns) z with
                           | Ok z' => (z', ok) | _ => (z, false) end
              end) (zf_cuts zf) (empty_node, true) in
  let s2 := fold_left (fun (acc : node * bool) (e : name * rr) =>
              let '(z, ok) := acc in
              match insert_cname (fst e) (snd e) z with Ok z' => (z', ok) | _ => (z, false) end) (zf_cnames zf) s1 in
  fold_left (fun (acc : node * bool) (e : name * list rrset) =>
              let '(z, ok) := acc in
              (fold_left (fun z r => insert_rrset (fst e) r z) (snd e) z, ok)) (zf_normal zf) s2.

(* a flat record list -> zone, errors of single records skip the record *)
Definition zf_of_records (rs : list grec) : zonefile :=
  fold_left (fun zf g => match zf_insert g zf with Ok zf' => zf' | _ => zf end) rs zf_empty.
Definition build (rs : list grec) : node := fst (zf_build (zf_of_records rs)).

(* ------------------------------------------------------------------ operation sequences (the T2 driver language) *)
Inductive op :=
| OBRr (p : name) (r : rrset) | OBCut (c : zcut) | OBCname (p : name) (c : rr)
| OZRec (g : grec)
| OUNew | OUAdd (g : grec) | OUDel (g : grec) | OUDelAll | OUBatchDel (d : rdata) | OUBatchAdd (ttl : N) (d : rdata) | OUFin (ttl : N) (d : rdata) | OUDrop
| OWOpen | OWRr (p : name) (r : rrset) | OWRm (p : name) (t : rtype) | OWCut (p : name) (c : zcut) | OWCname (p : name) (c : rr)
| OWRegular (p : name) | OWRemoveAll (p : name) | OWCommit | OWDrop.

Definition is_history (o : op) : bool :=
  match o with OBRr _ _ | OBCut _ | OBCname _ _ | OZRec _ => false | _ => true end.

Record state := mkSt { s_builder : node; s_zf : option zonefile; s_built : bool;
                       s_comm : node;            (* the published version *)
                       s_work : option node;     (* the version being written, if a writer is open *)
                       s_fin : bool;             (* the ZoneUpdater has seen Finished *)
                       s_errs : list (N * N) }.
Definition init_state := mkSt empty_node None false empty_node None false [].

Definition add_err (i e : N) (s : state) : state :=
  mkSt (s_builder s) (s_zf s) (s_built s) (s_comm s) (s_work s) (s_fin s) (s_errs s ++ [(i, e)]).
Definition set_work (w : option node) (s : state) : state :=
  mkSt (s_builder s) (s_zf s) (s_built s) (s_comm s) w (s_fin s) (s_errs s).

Definition finish_build (i : N) (s : state) : state :=
  if s_built s then s else
  match s_zf s with
  | Some zf => let '(z, ok) := zf_build zf in
               if ok then mkSt (s_builder s) None true z None false (s_errs s)
               else mkSt (s_builder s) None true (s_builder s) None false (s_errs s ++ [(i, E_ZoneErrors)])
  | None => mkSt (s_builder s) None true (s_builder s) None false (s_errs s)
  end.

(* an update applied by a live ZoneUpdater / WriteNode *)
Definition on_work (f : node -> node) (s : state) : state :=
  match s_work s with Some w => set_work (Some (f w)) s | None => s end.
Definition commit (reopen : bool) (s : state) : state :=
  match s_work s with
  | Some w => mkSt (s_builder s) (s_zf s) (s_built s) w (if reopen then Some w else None) (s_fin s) (s_errs s)
  | None => s
  end.
Definition rollback (s : state) : state :=
  match s_work s with
  | Some w => mkSt (s_builder s) (s_zf s) (s_built s) (graft w (s_comm s)) None (s_fin s) (s_errs s)
  | None => s
  end.
Definition set_fin (b : bool) (s : state) : state :=
  mkSt (s_builder s) (s_zf s) (s_built s) (s_comm s) (s_work s) b (s_errs s).

Definition step (i : N) (s0 : state) (o : op) : state :=
  let s := if is_history o then finish_build i s0 else s0 in
  match o with
  | OBRr p r => mkSt (insert_rrset p r (s_builder s)) (s_zf s) (s_built s) (s_comm s) (s_work s) (s_fin s) (s_errs s)
  | OBCut c => match insert_zone_cut (c_name c) (c_ns c) (c_ds c) (c_glue c) (s_builder s) with
               | Ok b => mkSt b (s_zf s) (s_built s) (s_comm s) (s_work s) (s_fin s) (s_errs s)
               | Err e => add_err i e s | _ => s end
  | OBCname p c => match insert_cname p c (s_builder s) with
                   | Ok b => mkSt b (s_zf s) (s_built s) (s_comm s) (s_work s) (s_fin s) (s_errs s)
                   | Err e => add_err i e s | _ => s end
  | OZRec g => let zf := match s_zf s with Some zf => zf | None => zf_empty end in
               match zf_insert g zf with
               | Ok zf' => mkSt (s_builder s) (Some zf') (s_built s) (s_comm s) (s_work s) (s_fin s) (s_errs s)
               | Err e => add_err i e (mkSt (s_builder s) (Some zf) (s_built s) (s_comm s) (s_work s) (s_fin s) (s_errs s))
               | _ => s end
  | OUNew => set_fin false (set_work (Some (s_comm s)) s)
  | OUAdd g => if s_fin s then add_err i E_Finished s else on_work (u_add (g_owner g) (g_type g) (g_ttl g) (g_data g)) s
  | OUDel g => if s_fin s then add_err i E_Finished s else on_work (u_del (g_owner g) (g_type g) (g_ttl g) (g_data g)) s
  | OUDelAll => if s_fin s then add_err i E_Finished s else on_work (w_remove_all []) s
  | OUBatchDel d =>
      (* check_soa_serial against the SOA of the working copy, before the commit *)
      if s_fin s then add_err i E_Finished s else
      match s_work s with
      | Some w => if (if batch_delete_checks_serial then soa_serial_matches d w else true) then commit true s
                  else add_err i E_SoaMismatch s
      | None => s
      end
  | OUBatchAdd ttl d => if s_fin s then add_err i E_Finished s else on_work (u_soa ttl d) s
  | OUFin ttl d => if s_fin s then add_err i E_Finished s else set_fin true (commit false (on_work (u_soa ttl d) s))
  | OUDrop => set_fin false (rollback s)
  | OWOpen => set_work (Some (s_comm s)) s
  | OWRr p r => on_work (w_update_rrset p r) s
  | OWRm p t => on_work (w_remove_rrset p t) s
  | OWCut p c => match s_work s with
                 | Some w => match w_make_zone_cut p c w with Ok w' => set_work (Some w') s | Err e => add_err i e s | _ => s end
                 | None => s end
  | OWCname p c => match s_work s with
                   | Some w => match w_make_cname p c w with Ok w' => set_work (Some w') s | Err e => add_err i e s | _ => s end
                   | None => s end
  | OWRegular p => on_work (w_make_regular p) s
  | OWRemoveAll p => on_work (w_remove_all p) s
  | OWCommit => commit false s
  | OWDrop => rollback s
  end.

Fixpoint run_from (i : N) (s : state) (ops : list op) : state :=
  match ops with
  | [] => rollback (finish_build i s)       (* whatever is still open is dropped *)
  | o :: ops' => run_from (i + 1) (step i s o) ops'
  end.
Definition run_ops (ops : list op) : state := run_from 0 init_state ops.

(* ------------------------------------------------------------------ ZoneTree (tree.rs): the set of zones of one class *)
(* names here are absolute: the root label first (the order of
   `iter_labels().rev()`), zones are identified by a number *)
Inductive znode := ZNode (zone : option N) (children : list (label * znode)).
Definition zn_zone (n : znode) := let 'ZNode z _ := n in z.
Definition zn_children (n : znode) := let 'ZNode _ c := n in c.
Definition zempty := ZNode None [].
Definition E_ZoneExists : N := 11.
Definition E_ZoneDoesNotExist : N := 12.

Fixpoint zfind_child (l : label) (cs : list (label * znode)) : option znode :=
  match cs with [] => None | (k, c) :: cs' => if k =? l then Some c else zfind_child l cs' end.
Fixpoint zset_child (l : label) (c : znode) (cs : list (label * znode)) : list (label * znode) :=
  match cs with
  | [] => [(l, c)]
  | (k, x) :: cs' => if k =? l then (k, c) :: cs' else (k, x) :: zset_child l c cs'
  end.
Definition zdel_child (l : label) (cs : list (label * znode)) : list (label * znode) :=
  filter (fun kc => negb (fst kc =? l)) cs.

(* ZoneSetNode::get_zone *)
Fixpoint zt_get (n : znode) (p : name) : option N :=
  match p with
  | [] => zn_zone n
  | l :: p' => match zfind_child l (zn_children n) with Some c => zt_get c p' | None => None end
  end.

(* ZoneSetNode::find_zone: the zone of the deepest node on the path that has one *)
Fixpoint zt_find (n : znode) (q : name) : option N :=
  match q with
  | [] => zn_zone n
  | l :: q' =>
      match zfind_child l (zn_children n) with
      | Some c => match zt_find c q' with Some z => Some z | None => zn_zone n end
      | None => zn_zone n
      end
  end.

(* ZoneSetNode::insert_zone *)
Fixpoint zt_insert (p : name) (z : N) (n : znode) : outcome znode :=
  match p with
  | [] => match zn_zone n with Some _ => Err E_ZoneExists | None => Ok (ZNode (Some z) (zn_children n)) end
  | l :: p' =>
      let c := match zfind_child l (zn_children n) with Some c => c | None => zempty end in
      match zt_insert p' z c with
      | Ok c' => Ok (ZNode (zn_zone n) (zset_child l c' (zn_children n)))
      | Err e => Err e | Panic x => Panic x | OutOfFuel => OutOfFuel
      end
  end.

(* ZoneSetNode::remove_zone.  [recursive = false] is the code that removes the
   child of the first label (and with it every zone below that label) and never
   fails at the last node; [recursive = true] descends to the node of the apex
   name.  Which one the source has is read by T1 ([zremove_recursive]). *)
Fixpoint zt_remove_gen (recursive : bool) (p : name) (n : znode) : outcome znode :=
  match p with
  | [] => if recursive then
            match zn_zone n with Some _ => Ok (ZNode None (zn_children n)) | None => Err E_ZoneDoesNotExist end
          else Ok (ZNode None (zn_children n))
  | l :: p' =>
      match zfind_child l (zn_children n) with
      | None => Err E_ZoneDoesNotExist
      | Some c =>
          if recursive then
            match zt_remove_gen recursive p' c with
            | Ok c' => Ok (ZNode (zn_zone n) (zset_child l c' (zn_children n)))
            | Err e => Err e | Panic x => Panic x | OutOfFuel => OutOfFuel
            end
          else Ok (ZNode (zn_zone n) (zdel_child l (zn_children n)))
      end
  end.
Definition zt_remove := zt_remove_gen zremove_recursive.

(* iter_zones *)
Fixpoint zt_list (n : znode) : list N :=
  let 'ZNode z cs := n in
  (match z with Some x => [x] | None => [] end) ++
  (fix go (cs : list (label * znode)) : list N := match cs with [] => [] | (_, c) :: cs' => zt_list c ++ go cs' end) cs.

(* Roots: one tree per class, IN apart from the others (a hash map keyed by class) *)
Record zroots := mkRoots { zr_in : znode; zr_others : list (N * znode) }.
Definition zroots_empty := mkRoots zempty [].
Fixpoint cls_get (c : N) (l : list (N * znode)) : option znode :=
  match l with [] => None | (k, n) :: l' => if k =? c then Some n else cls_get c l' end.
Fixpoint cls_set (c : N) (n : znode) (l : list (N * znode)) : list (N * znode) :=
  match l with [] => [(c, n)] | (k, x) :: l' => if k =? c then (k, n) :: l' else (k, x) :: cls_set c n l' end.
Definition zr_get (c : N) (r : zroots) : option znode := if c =? class_in then Some (zr_in r) else cls_get c (zr_others r).
Definition zr_set (c : N) (n : znode) (r : zroots) : zroots :=
  if c =? class_in then mkRoots n (zr_others r) else mkRoots (zr_in r) (cls_set c n (zr_others r)).
(* ZoneTree::{find_zone, get_zone, insert_zone, remove_zone, iter_zones} *)
Definition zr_find (c : N) (q : name) (r : zroots) : option N := match zr_get c r with Some n => zt_find n q | None => None end.
Definition zr_getz (c : N) (p : name) (r : zroots) : option N := match zr_get c r with Some n => zt_get n p | None => None end.
Definition zr_insert (c : N) (p : name) (z : N) (r : zroots) : outcome zroots :=
  let n := match zr_get c r with Some n => n | None => zempty end in      (* get_or_insert *)
  match zt_insert p z n with Ok n' => Ok (zr_set c n' r) | Err e => Err e | Panic x => Panic x | OutOfFuel => OutOfFuel end.
Definition zr_remove (c : N) (p : name) (r : zroots) : outcome zroots :=
  match zr_get c r with
  | None => Err E_ZoneDoesNotExist
  | Some n => match zt_remove p n with Ok n' => Ok (zr_set c n' r) | Err e => Err e | Panic x => Panic x | OutOfFuel => OutOfFuel end
  end.
Definition zr_list (r : zroots) : list N := zt_list (zr_in r) ++ flat_map (fun kn => zt_list (snd kn)) (zr_others r).

Inductive zop := ZIns (c : N) (p : name) (z : N) | ZRem (c : N) (p : name).
Fixpoint zt_run (i : N) (ops : list zop) (acc : zroots * list (N * N)) : zroots * list (N * N) :=
  match ops with
  | [] => acc
  | o :: ops' =>
      let '(t, errs) := acc in
      let r := match o with ZIns c p z => zr_insert c p z t | ZRem c p => zr_remove c p t end in
      zt_run (i + 1) ops' (match r with Ok t' => (t', errs) | Err e => (t, errs ++ [(i, e)]) | _ => (t, errs) end)
  end.
Definition c08_tree_run (ops : list zop) : zroots * list (N * N) := zt_run 0 ops (zroots_empty, []).
Definition c08_tree_find := zr_find.
Definition c08_tree_get := zr_getz.
Definition c08_tree_list := zr_list.

(* what the driver calls *)
Definition c08_run (ops : list op) : node * list (N * N) := let s := run_ops ops in (s_comm s, s_errs s).
Definition c08_query (z : node) (q : name) (qt : rtype) : answer := query z q qt.
Definition c08_walk (z : node) : list wrec := walk z.
