(* C08 -- executable model of the in-memory zone tree of one zone version:
   nodes.rs (ZoneApex / ZoneNode / NodeRrsets / Special), builder.rs
   (ZoneBuilder), read.rs (ReadZone::query and NodeAnswer), write.rs (WriteNode),
   update.rs (ZoneUpdater::apply) and parsed.rs (Zonefile -> ZoneBuilder).

   A `Versioned<T>` is modelled by the value a reader / the writer of the
   version under consideration gets (`get(version)`); a write in progress is the
   pair (committed tree, working tree).  Commit publishes the working tree,
   rollback restores the committed values -- but nodes created in the children
   maps stay (they are not versioned).  Hash-map iteration order is the order of
   the association lists.  Names are label lists relative to the apex, apex
   side first (the order of `rel_name_rev_iter`).  Definitions only. *)
From Coq Require Import NArith List Bool.
From DV Require Import Base.Outcome C08.Gen.
Import ListNotations.
Local Open Scope N_scope.

Definition label := N.
Definition name := list label.
Definition rtype := N.

(* record data is opaque except for the in-zone target of NS records (glue) *)
Record rdata := mkRd { rd_tok : N; rd_tgt : option name }.
Record rrset := mkRrset { rs_type : rtype; rs_ttl : N; rs_data : list rdata }.
Record rr := mkRr { rr_ttl : N; rr_data : rdata }.                 (* SharedRr *)
Record grec := mkG { g_owner : name; g_type : rtype; g_ttl : N; g_data : rdata }.  (* StoredRecord *)
Record zcut := mkCut { c_name : name; c_ns : rrset; c_ds : option rrset; c_glue : list grec }.

Inductive special := Cut (c : zcut) | Cname (r : rr) | NxDomain.

(* ZoneNode; the apex is a node whose [special] is never set *)
Inductive node := Node (rrsets : list rrset) (sp : option special) (children : list (label * node)).

Definition n_rrsets (n : node) := let 'Node r _ _ := n in r.
Definition n_special (n : node) := let 'Node _ s _ := n in s.
Definition n_children (n : node) := let 'Node _ _ c := n in c.
Definition empty_node := Node [] None [].

(* ------------------------------------------------------------------ equality helpers *)
Fixpoint name_eqb (a b : name) : bool :=
  match a, b with
  | [], [] => true
  | x :: a', y :: b' => (x =? y) && name_eqb a' b'
  | _, _ => false
  end.
Definition oname_eqb (a b : option name) : bool :=
  match a, b with Some x, Some y => name_eqb x y | None, None => true | _, _ => false end.
Definition rdata_eqb (a b : rdata) : bool := (rd_tok a =? rd_tok b) && oname_eqb (rd_tgt a) (rd_tgt b).

(* ------------------------------------------------------------------ NodeRrsets *)
Fixpoint get_rrset (t : rtype) (l : list rrset) : option rrset :=
  match l with
  | [] => None
  | r :: l' => if rs_type r =? t then Some r else get_rrset t l'
  end.
Definition remove_rtype (t : rtype) (l : list rrset) : list rrset :=
  filter (fun r => negb (rs_type r =? t)) l.
Fixpoint set_rrset (r : rrset) (l : list rrset) : list rrset :=
  match l with
  | [] => [r]
  | x :: l' => if rs_type x =? rs_type r then r :: l' else x :: set_rrset r l'
  end.
(* NodeRrsets::update: an empty RRset removes the type *)
Definition update_rrsets (r : rrset) (l : list rrset) : list rrset :=
  match rs_data r with
  | [] => if empty_rrset_update_removes then remove_rtype (rs_type r) l else set_rrset r l
  | _ => set_rrset r l
  end.
Definition rrsets_is_empty (l : list rrset) : bool := match l with [] => true | _ => false end.

(* ------------------------------------------------------------------ NodeChildren *)
Fixpoint find_child (l : label) (cs : list (label * node)) : option node :=
  match cs with
  | [] => None
  | (k, c) :: cs' => if k =? l then Some c else find_child l cs'
  end.
(* with_or_default + mutation of the child found / created; [created] tells f *)
Fixpoint upsert_child (l : label) (f : bool -> node -> node) (cs : list (label * node)) : list (label * node) :=
  match cs with
  | [] => [(l, f true empty_node)]
  | (k, c) :: cs' => if k =? l then (k, f false c) :: cs' else (k, c) :: upsert_child l f cs'
  end.

(* descend along [p] creating missing nodes; [mk] is applied to every node
   created on the way (update_child's make_regular; the builder does nothing),
   [f] to the node at the end *)
Fixpoint with_path (mk : node -> node) (p : name) (f : node -> node) (n : node) : node :=
  match p with
  | [] => f n
  | l :: p' =>
      let 'Node r s cs := n in
      Node r s (upsert_child l (fun created c => with_path mk p' f (if created then mk c else c)) cs)
  end.

Fixpoint node_at (n : node) (p : name) : option node :=
  match p with
  | [] => Some n
  | l :: p' => match find_child l (n_children n) with Some c => node_at c p' | None => None end
  end.

Definition set_special (s : option special) (n : node) : node := let 'Node r _ cs := n in Node r s cs.
Definition map_rrsets (f : list rrset -> list rrset) (n : node) : node := let 'Node r s cs := n in Node (f r) s cs.

(* ------------------------------------------------------------------ ZoneBuilder *)
Definition E_CutAtApex : N := 1.
Definition E_CnameAtApex : N := 2.
Definition E_Finished : N := 3.
Definition E_NotAllowed : N := 4.
Definition E_IllegalZoneCut : N := 5.
Definition E_IllegalRecord : N := 6.
Definition E_IllegalCname : N := 7.
Definition E_MultipleCnames : N := 8.
Definition E_ZoneErrors : N := 9.

Definition b_node (p : name) (f : node -> node) (z : node) : node := with_path (fun c => c) p f z.

Definition insert_rrset (p : name) (r : rrset) (z : node) : node :=
  b_node p (map_rrsets (update_rrsets r)) z.

Definition insert_zone_cut (p : name) (ns : rrset) (ds : option rrset) (glue : list grec) (z : node) : outcome node :=
  match p with
  | [] => Err E_CutAtApex
  | _ => Ok (b_node p (set_special (Some (Cut (mkCut p ns ds glue)))) z)
  end.

Definition insert_cname (p : name) (c : rr) (z : node) : outcome node :=
  match p with
  | [] => Err E_CnameAtApex
  | _ => Ok (b_node p (set_special (Some (Cname c))) z)
  end.

(* ------------------------------------------------------------------ ReadZone::query *)
Inductive acontent := AData (r : rrset) | ACname (r : rr) | ANoData.
Record authority := mkAuth { au_owner : name; au_soa : option rr; au_ns : option rrset; au_ds : option rrset }.
Record answer := mkAnswer { a_rcode : N; a_aa : bool; a_content : acontent;
                            a_auth : option authority; a_addl : list grec }.

(* NodeAnswer: the answer plus the add_soa instruction *)
Record nanswer := mkNA { na_rcode : N; na_add_soa : bool; na_auth_flag : bool; na_content : acontent;
                         na_auth : option authority; na_addl : list grec }.
Definition mk_na (tbl : N * bool * bool) c au ad : nanswer :=
  let '(rc, soa, aa) := tbl in mkNA rc soa aa c au ad.
Definition NA_data (r : rrset) := mk_na na_data (AData r) None [].
Definition NA_no_data := mk_na na_no_data ANoData None [].
Definition NA_cname (r : rr) := mk_na na_cname (ACname r) None [].
Definition NA_nx_domain := mk_na na_nx_domain ANoData None [].
Definition NA_authority (c : zcut) :=
  mk_na na_authority ANoData (Some (mkAuth (c_name c) None (Some (c_ns c)) (c_ds c))) (c_glue c).

Definition query_rrsets (rs : list rrset) (qt : rtype) : nanswer :=
  if qt =? any_type then
    match rs with r :: _ => NA_data r | [] => NA_no_data end
  else match get_rrset qt rs with Some r => NA_data r | None => NA_no_data end.

Definition query_at_cut (c : zcut) (qt : rtype) : nanswer :=
  if qt =? cut_answers_type then
    match c_ds c with Some r => NA_data r | None => NA_no_data end
  else NA_authority c.

Definition here_but_not_below (n : node) (qt : rtype) : nanswer :=
  match n_special n with
  | Some (Cut c) => query_at_cut c qt
  | Some (Cname c) => NA_cname c
  | Some NxDomain => NA_nx_domain
  | None => query_rrsets (n_rrsets n) qt
  end.

(* query_node / query_node_here_and_below / query_children, walk disabled *)
Fixpoint query_node (n : node) (q : name) (qt : rtype) : nanswer :=
  match q with
  | [] => here_but_not_below n qt
  | l :: q' =>
      match n_special n with
      | Some (Cut c) => NA_authority c
      | Some NxDomain =>
          if nxdomain_marker_stops_descent then NA_nx_domain else query_children_of n l q' qt
      | _ => query_children_of n l q' qt
      end
  end
with query_children_of (n : node) (l : label) (q' : name) (qt : rtype) {struct q'} : nanswer :=
  NA_nx_domain.
