(* C08 -- the order of the RRsets in an ordinary table entry is the order in
   which their types first appear in the record list; with it the glue list of a
   delegation, and hence the whole delegation / alias state a zone file builds,
   is a function of the record list ([rec_state]).  The comparison of an update
   history with the zone rebuilt from the final records then has premises on
   record lists only. *)
From Coq Require Import NArith List Bool Lia.
From DV Require Import Base.Outcome C08.Gen C08.Model C08.Spec C08.ProofsQuery C08.ProofsBuild C08.ProofsHist
  C08.ProofsPlain C08.ProofsGroup C08.ProofsSafe C08.ProofsSafe2.
Import ListNotations.
Local Open Scope N_scope.

(* ------------------------------------------------------------------ types of an owner's ordinary RRsets, in order of first appearance *)
Definition nclass (o : name) (t : rtype) : bool := negb (is_cut_type o t) && negb (t =? rt_cname).

Definition ntypes_step (o : name) (acc : list rtype) (g : grec) : list rtype :=
  if name_eqb (g_owner g) o && nclass (g_owner g) (g_type g) && negb (existsb (N.eqb (g_type g)) acc)
  then acc ++ [g_type g] else acc.
Definition ntypes (rs : list grec) (o : name) : list rtype := fold_left (ntypes_step o) rs [].

Definition entry_types (zf : zonefile) (o : name) : list rtype :=
  match alookup o (zf_normal zf) with Some l => map rs_type l | None => [] end.

Lemma types_set_rrset r l :
  map rs_type (set_rrset r l) =
  if existsb (fun x => rs_type x =? rs_type r) l then map rs_type l else map rs_type l ++ [rs_type r].
Proof.
  induction l as [|x l IH]; simpl; [reflexivity|]. destruct (rs_type x =? rs_type r) eqn:E; simpl.
  - apply N.eqb_eq in E. rewrite E. reflexivity.
  - rewrite IH. destruct (existsb _ l); reflexivity.
Qed.

Lemma get_rrset_exists t l : existsb (N.eqb t) (map rs_type l) = match get_rrset t l with Some _ => true | None => false end.
Proof.
  induction l as [|x l IH]; simpl; [reflexivity|]. rewrite (N.eqb_sym t (rs_type x)).
  destruct (rs_type x =? t); simpl; [reflexivity|exact IH].
Qed.

Lemma types_normal_insert t ttl d l :
  map rs_type (normal_insert t ttl d l) =
  if existsb (N.eqb t) (map rs_type l) then map rs_type l else map rs_type l ++ [t].
Proof.
  unfold normal_insert. rewrite get_rrset_exists. destruct (get_rrset t l) as [r|] eqn:E.
  - rewrite types_set_rrset. cbn [push_record rs_type]. pose proof (get_rrset_type _ _ _ E) as Ht. rewrite Ht.
    assert (Hex : existsb (fun x => rs_type x =? t) l = true).
    { clear Ht. induction l as [|x l IH]; simpl in *; [discriminate|]. destruct (rs_type x =? t); [reflexivity|]. apply IH. exact E. }
    rewrite Hex. reflexivity.
  - rewrite map_app. reflexivity.
Qed.

Lemma insert_entry_types g zf zf' o : zf_insert g zf = Ok zf' ->
  entry_types zf' o = ntypes_step o (entry_types zf o) g.
Proof.
  unfold zf_insert, ntypes_step, nclass, is_cut_type. destruct g as [og tg ttl d]. cbn [g_owner g_type g_ttl g_data].
  destruct (((tg =? rt_ns) || (tg =? rt_ds)) && negb (is_apex og)) eqn:Ecut.
  - rewrite andb_false_r. simpl.
    destruct (alookup og (zf_normal zf)) as [rsn|].
    + destruct (existsb _ rsn); [discriminate|]. destruct (alookup og (zf_cnames zf)); [discriminate|].
      intro H. injection H as H. subst zf'. reflexivity.
    + destruct (alookup og (zf_cnames zf)); [discriminate|]. intro H. injection H as H. subst zf'. reflexivity.
  - destruct (tg =? rt_cname) eqn:Ecn.
    + rewrite !andb_false_r. simpl.
      destruct (alookup og (zf_normal zf)); [discriminate|]. destruct (alookup og (zf_cuts zf)); [discriminate|].
      destruct (alookup og (zf_cnames zf)); [discriminate|]. intro H. injection H as H. subst zf'. reflexivity.
    + destruct (if is_glue tg then None else alookup og (zf_cuts zf)); [discriminate|].
      destruct (alookup og (zf_cnames zf)); [discriminate|]. intro H. injection H as H. subst zf'.
      unfold entry_types. cbn [zf_normal negb andb]. rewrite andb_true_r. rewrite alookup_aupsert.
      destruct (name_eqb og o) eqn:Eo; [|reflexivity]. apply name_eqb_eq in Eo. subst o. cbn [andb].
      rewrite types_normal_insert.
      destruct (alookup og (zf_normal zf)) as [l|]; simpl; [destruct (existsb (N.eqb tg) (map rs_type l)); reflexivity|reflexivity].
Qed.

Lemma ntypes_snoc rs g o : ntypes (rs ++ [g]) o = ntypes_step o (ntypes rs o) g.
Proof. unfold ntypes. rewrite fold_left_app. reflexivity. Qed.

Theorem entry_order : forall rs, accepted rs = true -> forall o, entry_types (zf_of_records rs) o = ntypes rs o.
Proof.
  intro rs. pattern rs. apply rev_ind; clear rs; [reflexivity|].
  intros g rs IH Hacc o. unfold accepted in Hacc. apply accepted_from_app in Hacc. destruct Hacc as [Hacc [zf' Hins]].
  rewrite zf_of_records_snoc. unfold zf_of_records at 1. rewrite Hins.
  rewrite (insert_entry_types _ _ _ o Hins). fold (zf_of_records rs). rewrite IH by exact Hacc. rewrite ntypes_snoc. reflexivity.
Qed.

(* an entry with distinct types is determined by its types and the lookups *)
Lemma entry_by_types d : forall l, nodup_types l = true ->
  l = map (fun t => match get_rrset t l with Some r => r | None => d end) (map rs_type l).
Proof.
  induction l as [|x l IH]; intro H; [reflexivity|]. simpl in H. apply andb_true_iff in H. destruct H as [H1 H2].
  apply negb_true_iff in H1. cbn [map get_rrset]. rewrite N.eqb_refl. f_equal.
  rewrite (IH H2) at 1. apply map_ext_in. intros t Ht.
  destruct (rs_type x =? t) eqn:E; [|reflexivity]. exfalso. apply N.eqb_eq in E. subst t.
  apply in_map_iff in Ht. destruct Ht as (y & Hy & Hin).
  assert (Hex : existsb (fun z => rs_type z =? rs_type x) l = true).
  { apply existsb_exists. exists y. split; [exact Hin|]. apply N.eqb_eq. exact Hy. }
  congruence.
Qed.

(* ------------------------------------------------------------------ glue and state from the record list *)
Definition glue_of_type (rs : list grec) (t : name) (ty : rtype) : list grec :=
  if is_glue ty then match group rs t ty with Some r => map (fun x => mkG t ty (rs_ttl r) x) (rs_data r) | None => [] end else [].

Definition rec_glue (rs : list grec) (ns : rrset) : list grec :=
  flat_map (fun d => match rd_tgt d with Some t => flat_map (glue_of_type rs t) (ntypes rs t) | None => [] end) (rs_data ns).

Definition rec_state (rs : list grec) : sfun := fun p =>
  if is_apex p then None else
  match group rs p rt_ns with
  | Some ns => Some (Cut (mkCut p ns (group rs p rt_ds) (rec_glue rs ns)))
  | None => match group rs p rt_cname with
            | Some r => match rs_data r with d :: _ => Some (Cname (mkRr (rs_ttl r) d)) | [] => None end
            | None => None
            end
  end.

Lemma glue_is_nclass o ty : is_glue ty = true -> is_cut_type o ty = false /\ (ty =? rt_cname) = false.
Proof.
  unfold is_glue. change glue_types with [rt_a; rt_aaaa]. simpl. rewrite orb_false_r. intro H.
  apply orb_true_iff in H. destruct H as [H|H]; apply N.eqb_eq in H; subst ty; split; reflexivity.
Qed.

Lemma collect_glue_records rs t : accepted rs = true ->
  collect_glue (zf_normal (zf_of_records rs)) t = flat_map (glue_of_type rs t) (ntypes rs t).
Proof.
  intro Ha. pose proof (entry_order rs Ha t) as Ho. unfold entry_types in Ho. unfold collect_glue.
  pose proof (zinv_of_records rs Ha) as Hi.
  destruct (alookup t (zf_normal (zf_of_records rs))) as [l|] eqn:El; [|rewrite <- Ho; reflexivity].
  assert (Hnd : nodup_types l = true).
  { unfold zinv in Hi. apply andb_true_iff in Hi. destruct Hi as [Hi _]. apply andb_true_iff in Hi. destruct Hi as [Hi _].
    apply andb_true_iff in Hi. destruct Hi as [_ H2].
    clear - El H2. induction (zf_normal (zf_of_records rs)) as [|[k v] N IH]; simpl in *; [discriminate|].
    apply andb_true_iff in H2. destruct H2 as [Hw Hr]. destruct (name_eqb k t).
    - inversion El; subst. unfold wf_normal in Hw. simpl in Hw. apply andb_true_iff in Hw. destruct Hw as [Hw _].
      apply andb_true_iff in Hw. tauto.
    - auto. }
  rewrite <- Ho. rewrite (entry_by_types (mkRrset 0 0 []) l Hnd) at 1. rewrite !flat_map_concat_map, map_map. f_equal.
  apply map_ext_in. intros ty Hty. unfold glue_of_type. cbv beta.
  destruct (get_rrset ty l) as [r|] eqn:Eg.
  - pose proof (get_rrset_type _ _ _ Eg) as Hrt. rewrite Hrt. destruct (is_glue ty) eqn:Egl; [|reflexivity].
    destruct (glue_is_nclass t ty Egl) as [Hc Hn].
    rewrite <- (grouping rs Ha t ty). unfold zf_rrset. rewrite Hc, Hn, El, Eg. reflexivity.
  - exfalso. apply in_map_iff in Hty. destruct Hty as (y & Hy & Hin).
    assert (Hex : existsb (N.eqb ty) (map rs_type l) = true).
    { apply existsb_exists. exists (rs_type y). split; [apply in_map; exact Hin|]. apply N.eqb_eq. congruence. }
    rewrite get_rrset_exists, Eg in Hex. discriminate.
Qed.

Lemma glue_for_records rs ns : accepted rs = true -> glue_for (zf_normal (zf_of_records rs)) ns = rec_glue rs ns.
Proof.
  intro Ha. unfold glue_for, rec_glue. apply flat_map_ext. intro d. destruct (rd_tgt d); [apply collect_glue_records; exact Ha|reflexivity].
Qed.

(* the delegation / alias state of a zone file is a function of its record list *)
Theorem zf_state_records rs : accepted rs = true -> buildable (zf_of_records rs) = true ->
  forall p, zf_state (zf_of_records rs) p = rec_state rs p.
Proof.
  intros Ha Hb p. unfold rec_state. destruct p as [|l p].
  - cbn [is_apex]. unfold zf_state, info_at_g, cut_at_g. cbn [i_special].
    destruct (accepted_records_build rs Ha) as (Hwf & _ & _). rewrite Hb in Hwf.
    destruct (wf_zone_parts _ Hwf) as (_ & _ & _ & _ & HwC & HwA).
    rewrite (wf_cut_apex _ HwC), (wf_cname_apex _ _ HwA). reflexivity.
  - cbn [is_apex]. rewrite <- !(grouping rs Ha). unfold zf_rrset, is_cut_type. cbn [is_apex negb]. simpl.
    unfold zf_state, info_at_g, cut_at_g. cbn [i_special].
    destruct (alookup (l :: p) (zf_cuts (zf_of_records rs))) as [[[ns|] ds]|]; cbn [fst snd].
    + rewrite (glue_for_records rs ns Ha). reflexivity.
    + destruct (alookup (l :: p) (zf_cnames (zf_of_records rs))) as [[ttl d]|]; reflexivity.
    + destruct (alookup (l :: p) (zf_cnames (zf_of_records rs))) as [[ttl d]|]; reflexivity.
Qed.

(* ------------------------------------------------------------------ history vs rebuilt zone: premises on record lists only *)
Theorem history_vs_rebuilt_records rs us rs' :
  accepted rs = true -> buildable (zf_of_records rs) = true -> forallb ext_safe_op us = true ->
  accepted rs' = true -> buildable (zf_of_records rs') = true ->
  (forall p, rrsets_at (run (map OZRec rs ++ us)) p = rrsets_at (run (map OZRec rs')) p) ->
  (forall p, rec_state rs' p = sp_final us (rec_state rs) p) ->
  forall q qt, query (run (map OZRec rs ++ us)) q qt = query (run (map OZRec rs')) q qt.
Proof.
  intros Ha Hb Hu Ha' Hb' HR HS. apply history_vs_rebuilt; auto.
  intro p. rewrite zf_state_records by assumption. rewrite HS. unfold sp_final. apply fold_sstep_ext.
  split; [intro x; symmetry; apply zf_state_records; assumption|]. split; [exact I|reflexivity].
Qed.

(* non-vacuity: a delegation with glue of two types; the glue follows first appearance *)
Definition rs_ord : list grec :=
  [soa1; mkG [lsub; lns] rt_aaaa 78 (tok 8); mkG [lsub] rt_ns 300 (mkRd 0 (Some [lsub; lns])); mkG [lsub; lns] T_A 77 (tok 7);
   mkG [lsub; lns] rt_aaaa 78 (tok 9)].
Example rec_state_example :
  accepted rs_ord = true /\ buildable (zf_of_records rs_ord) = true /\ ntypes rs_ord [lsub; lns] = [rt_aaaa; T_A] /\
  rec_state rs_ord [lsub] = Some (Cut (mkCut [lsub] (mkRrset rt_ns 300 [mkRd 0 (Some [lsub; lns])]) None
     [mkG [lsub; lns] rt_aaaa 78 (tok 8); mkG [lsub; lns] rt_aaaa 78 (tok 9); mkG [lsub; lns] T_A 77 (tok 7)])) /\
  cspecial_at (run (map OZRec rs_ord)) [lsub] = rec_state rs_ord [lsub].
Proof. repeat split; vm_compute; reflexivity. Qed.
