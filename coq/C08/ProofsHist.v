(* C08 -- update histories.  [flat_run]: what a history means for the zone's
   content (a flat record list).  Since the repair 1953e6b (a node is a name
   only if it exists) markers and left-over nodes no longer matter; what remains
   history dependent is the delegation / alias state kept in `Special`: one
   concrete witness per remaining class, and the former witnesses as positive
   regression examples. *)
From Coq Require Import NArith List Bool Lia.
From DV Require Import Base.Outcome C08.Gen C08.Model C08.Spec C08.ProofsQuery.
Import ListNotations.
Local Open Scope N_scope.

(* ------------------------------------------------------------------ content semantics of a history *)
Definition grec_eqb (a b : grec) : bool :=
  name_eqb (g_owner a) (g_owner b) && (g_type a =? g_type b) && rdata_eqb (g_data a) (g_data b).
Definition is_soa (g : grec) : bool := is_apex (g_owner g) && (g_type g =? rt_soa).

Record fstate := mkF { f_comm : list grec; f_work : option (list grec) }.

Definition fon (f : list grec -> list grec) (s : fstate) : fstate :=
  match f_work s with Some w => mkF (f_comm s) (Some (f w)) | None => s end.
Definition set_soa (ttl : N) (d : rdata) (l : list grec) : list grec :=
  filter (fun g => negb (is_soa g)) l ++ [mkG [] rt_soa ttl d].

(* builder / zone-file operations define the initial content; NS / DS / CNAME
   given to the builder's dedicated calls are records like any other *)
Definition rrset_recs (p : name) (r : rrset) : list grec := map (fun d => mkG p (rs_type r) (rs_ttl r) d) (rs_data r).

Definition fstep (s : fstate) (o : op) : fstate :=
  match o with
  | OZRec g => mkF (f_comm s ++ [g]) (f_work s)
  | OBRr p r => mkF (filter (fun g => negb (name_eqb (g_owner g) p && (g_type g =? rs_type r))) (f_comm s) ++ rrset_recs p r) (f_work s)
  | OBCut c => mkF (f_comm s ++ rrset_recs (c_name c) (c_ns c) ++ match c_ds c with Some d => rrset_recs (c_name c) d | None => [] end) (f_work s)
  | OBCname p c => mkF (f_comm s ++ [mkG p rt_cname (rr_ttl c) (rr_data c)]) (f_work s)
  | OUNew | OWOpen => mkF (f_comm s) (Some (f_comm s))
  | OUAdd g => fon (fun l => l ++ [g]) s
  | OUDel g => fon (filter (fun x => negb (grec_eqb x g))) s
  | OUDelAll => fon (fun _ => []) s
  | OUBatchDel d =>
      match f_work s with
      | Some w => if existsb (fun g => is_soa g && (rd_tok (g_data g) =? rd_tok d)) w then mkF w (Some w) else s
      | None => s
      end
  | OUBatchAdd ttl d => fon (set_soa ttl d) s
  | OUFin ttl d => match f_work s with Some w => mkF (set_soa ttl d w) None | None => s end
  | OUDrop | OWDrop => mkF (f_comm s) None
  | OWRr p r => fon (fun l => filter (fun g => negb (name_eqb (g_owner g) p && (g_type g =? rs_type r))) l ++ rrset_recs p r) s
  | OWRm p t => fon (filter (fun g => negb (name_eqb (g_owner g) p && (g_type g =? t)))) s
  | OWRemoveAll p => fon (filter (fun g => negb (is_prefix p (g_owner g)))) s
  | OWCut p c => fon (fun l => filter (fun g => negb (name_eqb (g_owner g) p && ((g_type g =? rt_ns) || (g_type g =? rt_ds)))) l
                               ++ rrset_recs p (c_ns c) ++ match c_ds c with Some d => rrset_recs p d | None => [] end) s
  | OWCname p c => fon (fun l => filter (fun g => negb (name_eqb (g_owner g) p && (g_type g =? rt_cname))) l ++ [mkG p rt_cname (rr_ttl c) (rr_data c)]) s
  | OWRegular p => fon (filter (fun g => negb (name_eqb (g_owner g) p && ((g_type g =? rt_ns) || (g_type g =? rt_ds) || (g_type g =? rt_cname))))) s
  | OWCommit => match f_work s with Some w => mkF w None | None => s end
  end.

(* the content a history ends in (an open write at the end is dropped) *)
Definition content (h : list op) : list grec := f_comm (fold_left fstep h (mkF [] None)).

(* the published tree a history ends in *)
Definition run (h : list op) : node := s_comm (run_ops h).

(* "answers exactly like a zone built directly from the same records" *)
Definition history_ok (h : list op) (q : name) (qt : rtype) : Prop :=
  query (run h) q qt = query (build (content h)) q qt.

(* ------------------------------------------------------------------ witnesses *)
Definition L (c : N) : label := 256 + c.
Definition la := L 97. Definition lb := L 98. Definition lfoo := 6713199.
Definition tok (n : N) := mkRd n None.
Definition soa1 := mkG [] rt_soa 60 (tok 1).
Definition T_A := rt_a. Definition T_TXT : N := 16.

(* K1: a.b added through the updater: a.b is NXDOMAIN, so is the empty non-terminal b *)
Definition h_k1 : list op := [OZRec soa1; OUNew; OUAdd (mkG [lb; la] T_A 101 (tok 5)); OUFin 60 (tok 1)].

Lemma k1_content : content h_k1 = [mkG [lb; la] T_A 101 (tok 5); soa1].
Proof. reflexivity. Qed.

(* K2: foo's only RRset is deleted; the node stays and hides `*` *)
Definition h_k2 : list op :=
  [OZRec soa1; OZRec (mkG [wild_label] T_A 101 (tok 3)); OZRec (mkG [lfoo] T_A 101 (tok 4));
   OUNew; OUDel (mkG [lfoo] T_A 101 (tok 4)); OUFin 60 (tok 1)].

(* K3: NS / CNAME through the updater stay plain RRsets *)
Definition lsub := L 115. Definition lns := L 110. Definition lal := L 108.
Definition h_k3 : list op :=
  [OZRec soa1; OUNew; OUAdd (mkG [lsub] rt_ns 300 (mkRd 0 (Some [lsub; lns])));
   OUAdd (mkG [lsub; lns] T_A 77 (tok 7)); OUAdd (mkG [lal] rt_cname 200 (mkRd 0 (Some [lfoo]))); OUFin 60 (tok 1)].

Lemma updater_ns_not_cut_refuted :
  exists h q qt, a_aa (query (run h) q qt) = true /\
                 a_aa (query (build (content h)) q qt) = false /\
                 a_addl (query (build (content h)) q qt) <> [] /\ ~ history_ok h q qt.
Proof.
  exists h_k3, [lsub], T_A. repeat split; try (vm_compute; reflexivity).
  - vm_compute. discriminate.
  - unfold history_ok. vm_compute. discriminate.
Qed.

Lemma updater_cname_not_special_refuted :
  exists h q qt, a_content (query (run h) q qt) = ANoData /\
                 (exists c, a_content (query (build (content h)) q qt) = ACname c) /\ ~ history_ok h q qt.
Proof.
  exists h_k3, [lal], T_A. repeat split; try (vm_compute; reflexivity).
  - eexists. vm_compute. reflexivity.
  - unfold history_ok. vm_compute. discriminate.
Qed.

(* a delegation / alias inserted by the builder cannot be deleted through the updater *)
Definition h_surv : list op :=
  [OZRec soa1; OZRec (mkG [lal] rt_cname 200 (mkRd 0 (Some [lfoo])));
   OUNew; OUDel (mkG [lal] rt_cname 200 (mkRd 0 (Some [lfoo]))); OUFin 60 (tok 1)].

Lemma special_survives_delete_refuted :
  exists h q qt, (exists c, a_content (query (run h) q qt) = ACname c) /\
                 a_rcode (query (build (content h)) q qt) = rc_nxdomain /\ ~ history_ok h q qt.
Proof.
  exists h_surv, [lal], T_A. repeat split; try (vm_compute; reflexivity).
  - eexists. vm_compute. reflexivity.
  - unfold history_ok. vm_compute. discriminate.
Qed.

(* full replacement (DeleteAllRecords) and rollback leave bare nodes: NODATA instead of NXDOMAIN *)
Definition h_repl : list op :=
  [OZRec soa1; OZRec (mkG [lfoo] T_A 101 (tok 4)); OUNew; OUDelAll; OUAdd (mkG [la] T_A 101 (tok 5)); OUFin 60 (tok 2)].
Definition h_abort : list op := [OZRec soa1; OUNew; OUAdd (mkG [lb; la] T_A 101 (tok 5)); OUDrop].

(* the former witnesses of updater_descendant_nxdomain, updater_ent_nxdomain,
   deleted_name_shadows_wildcard and stale_node_nodata now answer like the
   rebuilt zone (the general statement is ProofsPlain.plain_history_independent) *)
Example former_witnesses_fixed :
  history_ok h_k1 [lb; la] T_A /\ history_ok h_k1 [lb] T_A /\ history_ok h_k1 [lb; lfoo] T_A /\
  history_ok h_k2 [lfoo] T_A /\ history_ok h_k2 [lfoo; la] T_A /\ history_ok h_k2 [lfoo] T_TXT /\
  history_ok h_repl [lfoo] T_A /\ history_ok h_repl [la] T_A /\
  history_ok h_abort [lb] T_A /\ history_ok h_abort [lb; la] T_A.
Proof. unfold history_ok. repeat split; vm_compute; reflexivity. Qed.

Example former_witnesses_answers :
  a_rcode (query (run h_k1) [lb; la] T_A) = rc_noerror /\
  a_content (query (run h_k1) [lb] T_A) = ANoData /\ a_rcode (query (run h_k1) [lb] T_A) = rc_noerror /\
  (exists r, a_content (query (run h_k2) [lfoo] T_A) = AData r) /\
  a_rcode (query (run h_repl) [lfoo] T_A) = rc_nxdomain /\ a_rcode (query (run h_abort) [lb] T_A) = rc_nxdomain.
Proof. repeat split; try (vm_compute; reflexivity). eexists. vm_compute. reflexivity. Qed.

(* non-vacuity of history_ok: an update that keeps the tree canonical *)
Definition h_fine : list op :=
  [OZRec soa1; OZRec (mkG [la] T_A 101 (tok 4)); OUNew; OUAdd (mkG [la] T_A 101 (tok 5));
   OUAdd (mkG [lb] T_TXT 116 (tok 6)); OUDel (mkG [la] T_A 101 (tok 4)); OUFin 60 (tok 1)].
Example history_ok_example :
  history_ok h_fine [la] T_A /\ history_ok h_fine [lb] T_A /\ history_ok h_fine [lfoo] T_A /\ history_ok h_fine [] rt_soa.
Proof. unfold history_ok. repeat split; vm_compute; reflexivity. Qed.
