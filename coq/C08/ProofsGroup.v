(* C08 -- parsed::Zonefile::insert groups single records into RRsets: after a
   record list has been accepted, the RRset found for an (owner, type) is
   exactly the list's records of that owner and type, in order, with the
   smallest TTL -- NS / DS below the apex in the delegation table, CNAME in the
   alias table, everything else in the ordinary table.  With this,
   build_answers_spec speaks about zones given as flat record lists. *)
From Coq Require Import NArith List Bool Lia.
From DV Require Import Base.Outcome C08.Gen C08.Model C08.Spec C08.ProofsQuery C08.ProofsBuild.
Import ListNotations.
Local Open Scope N_scope.

(* ------------------------------------------------------------------ the flat side *)
Definition key_eqb (o : name) (t : rtype) (g : grec) : bool := name_eqb (g_owner g) o && (g_type g =? t).
Definition recs_of (rs : list grec) (o : name) (t : rtype) : list grec := filter (key_eqb o t) rs.

(* the RRset a list of records of one owner and type forms (Rrset::from + push_record) *)
Definition group_of (t : rtype) (gs : list grec) : option rrset :=
  match gs with
  | [] => None
  | g :: gs' => Some (fold_left (fun r x => push_record (g_ttl x) (g_data x) r) gs' (mkRrset t (g_ttl g) [g_data g]))
  end.
Definition group (rs : list grec) (o : name) (t : rtype) : option rrset := group_of t (recs_of rs o t).

(* ------------------------------------------------------------------ the zone-file side *)
Definition is_cut_type (o : name) (t : rtype) : bool := ((t =? rt_ns) || (t =? rt_ds)) && negb (is_apex o).

Definition zf_rrset (zf : zonefile) (o : name) (t : rtype) : option rrset :=
  if is_cut_type o t then
    match alookup o (zf_cuts zf) with Some c => if t =? rt_ns then fst c else snd c | None => None end
  else if t =? rt_cname then
    option_map (fun c => mkRrset rt_cname (rr_ttl c) [rr_data c]) (alookup o (zf_cnames zf))
  else match alookup o (zf_normal zf) with Some l => get_rrset t l | None => None end.

(* every record accepted (no RecordError) *)
Fixpoint accepted_from (zf : zonefile) (rs : list grec) : bool :=
  match rs with
  | [] => true
  | g :: rs' => match zf_insert g zf with Ok zf' => accepted_from zf' rs' | _ => false end
  end.
Definition accepted (rs : list grec) : bool := accepted_from zf_empty rs.

(* ------------------------------------------------------------------ lemmas *)
Lemma group_of_snoc t gs g : group_of t (gs ++ [g]) = push_opt t (g_ttl g) (g_data g) (group_of t gs).
Proof.
  destruct gs as [|g0 gs]; simpl; [reflexivity|]. rewrite fold_left_app. reflexivity.
Qed.

Lemma group_snoc rs g o t :
  group (rs ++ [g]) o t = if key_eqb o t g then push_opt t (g_ttl g) (g_data g) (group rs o t) else group rs o t.
Proof.
  unfold group, recs_of. rewrite filter_app. simpl. destruct (key_eqb o t g).
  - apply group_of_snoc.
  - rewrite app_nil_r. reflexivity.
Qed.

Lemma alookup_aupsert {A} p k (d : A) f l :
  alookup p (aupsert k d f l) =
  if name_eqb k p then Some (f (match alookup k l with Some v => v | None => d end)) else alookup p l.
Proof.
  induction l as [|[k' v] l IH]; simpl.
  - destruct (name_eqb k p); reflexivity.
  - destruct (name_eqb k' k) eqn:E; simpl.
    + apply name_eqb_eq in E. subst k'. destruct (name_eqb k p); reflexivity.
    + rewrite IH. destruct (name_eqb k' p) eqn:E2; [|reflexivity].
      apply name_eqb_eq in E2. subst k'. rewrite name_eqb_sym, E. reflexivity.
Qed.

Lemma get_set_rrset r l t : (exists x, get_rrset (rs_type r) l = Some x) ->
  get_rrset t (set_rrset r l) = if rs_type r =? t then Some r else get_rrset t l.
Proof.
  induction l as [|x l IH]; intros [y Hy]; simpl in *; [discriminate|].
  destruct (rs_type x =? rs_type r) eqn:E; simpl.
  - apply N.eqb_eq in E. rewrite E. destruct (rs_type r =? t); reflexivity.
  - rewrite IH by eauto. destruct (rs_type x =? t) eqn:E2; [|reflexivity].
    apply N.eqb_eq in E2. subst t. rewrite N.eqb_sym, E. reflexivity.
Qed.

Lemma get_rrset_type t l r : get_rrset t l = Some r -> rs_type r = t.
Proof. induction l as [|x l IH]; simpl; [discriminate|]. destruct (rs_type x =? t) eqn:E; [intro H; inversion H; subst; apply N.eqb_eq; exact E|exact IH]. Qed.

Lemma get_rrset_app_none t l r : get_rrset t l = None -> get_rrset t (l ++ [r]) = if rs_type r =? t then Some r else None.
Proof. induction l as [|x l IH]; simpl; [reflexivity|]. destruct (rs_type x =? t); [discriminate|exact IH]. Qed.
Lemma get_rrset_app_some t l r x : get_rrset t l = Some x -> get_rrset t (l ++ [r]) = Some x.
Proof. induction l as [|y l IH]; simpl; [discriminate|]. destruct (rs_type y =? t); auto. Qed.

Lemma get_normal_insert tg ttl d l t :
  get_rrset t (normal_insert tg ttl d l) = if tg =? t then push_opt tg ttl d (get_rrset tg l) else get_rrset t l.
Proof.
  unfold normal_insert. destruct (get_rrset tg l) as [r|] eqn:E.
  - pose proof (get_rrset_type _ _ _ E) as Ht.
    rewrite get_set_rrset by (simpl; rewrite Ht; eauto). simpl. rewrite Ht. reflexivity.
  - destruct (tg =? t) eqn:Et.
    + apply N.eqb_eq in Et. subst t. rewrite get_rrset_app_none by exact E. simpl. rewrite N.eqb_refl. reflexivity.
    + destruct (get_rrset t l) eqn:E2.
      * erewrite get_rrset_app_some; eauto.
      * rewrite get_rrset_app_none by exact E2. simpl. rewrite Et. reflexivity.
Qed.

Lemma ns_ds : (rt_ns =? rt_ds) = false. Proof. reflexivity. Qed.
Lemma ns_cname : (rt_ns =? rt_cname) = false. Proof. reflexivity. Qed.
Lemma ds_cname : (rt_ds =? rt_cname) = false. Proof. reflexivity. Qed.

(* one accepted record: the RRset of the record's key gets the record pushed,
   all other RRsets stay *)
Lemma zf_insert_rrset g zf zf' o t : zf_insert g zf = Ok zf' ->
  zf_rrset zf' o t =
  if key_eqb o t g then push_opt t (g_ttl g) (g_data g) (zf_rrset zf o t) else zf_rrset zf o t.
Proof.
  unfold zf_insert, key_eqb. destruct g as [og tg ttl d]. cbn [g_owner g_type g_ttl g_data].
  destruct (((tg =? rt_ns) || (tg =? rt_ds)) && negb (is_apex og)) eqn:Ecut.
  - (* delegation table *)
    set (F := fun c : option rrset * option rrset =>
                if tg =? rt_ns then (push_opt tg ttl d (fst c), snd c) else (fst c, push_opt tg ttl d (snd c))).
    assert (Hres : zf' = mkZf (zf_normal zf) (aupsert og (None, None) F (zf_cuts zf)) (zf_cnames zf) ->
                   zf_rrset zf' o t = (if name_eqb og o && (tg =? t) then push_opt t ttl d (zf_rrset zf o t) else zf_rrset zf o t)).
    { intro E. subst zf'. unfold zf_rrset. cbn [zf_normal zf_cuts zf_cnames].
      apply andb_true_iff in Ecut. destruct Ecut as [Ety Eap].
      destruct (name_eqb og o) eqn:Eo; cbn [andb].
      2:{ rewrite alookup_aupsert, Eo. reflexivity. }
      apply name_eqb_eq in Eo. subst o. unfold is_cut_type. rewrite Eap, andb_true_r.
      rewrite alookup_aupsert, name_eqb_refl.
      destruct (tg =? t) eqn:Et.
      - apply N.eqb_eq in Et. subst t. rewrite Ety. unfold F.
        destruct (tg =? rt_ns) eqn:En; destruct (alookup og (zf_cuts zf)) as [[a b]|]; reflexivity.
      - destruct ((t =? rt_ns) || (t =? rt_ds)) eqn:Ect; [|reflexivity].
        unfold F. destruct (tg =? rt_ns) eqn:En.
        + apply N.eqb_eq in En. subst tg. rewrite N.eqb_sym in Et. rewrite Et.
          destruct (alookup og (zf_cuts zf)) as [[a b]|]; reflexivity.
        + destruct (t =? rt_ns) eqn:Etn.
          * destruct (alookup og (zf_cuts zf)) as [[a b]|]; reflexivity.
          * exfalso. simpl in Ety, Ect. apply N.eqb_eq in Ety, Ect. subst. rewrite N.eqb_refl in Et. discriminate. }
    destruct (alookup og (zf_normal zf)) as [rsn|].
    + destruct (existsb _ rsn); [discriminate|]. destruct (alookup og (zf_cnames zf)); [discriminate|].
      intro H. injection H as H1. apply Hres. symmetry. exact H1.
    + destruct (alookup og (zf_cnames zf)); [discriminate|]. intro H. injection H as H1. apply Hres. symmetry. exact H1.
  - destruct (tg =? rt_cname) eqn:Ecn.
    + (* alias table *)
      apply N.eqb_eq in Ecn. subst tg.
      destruct (alookup og (zf_normal zf)); [discriminate|]. destruct (alookup og (zf_cuts zf)); [discriminate|].
      destruct (alookup og (zf_cnames zf)) eqn:Eold; [discriminate|]. intro H. inversion H. subst zf'. clear H.
      unfold zf_rrset. cbn [zf_normal zf_cuts zf_cnames].
      destruct (is_cut_type o t) eqn:Eict.
      * assert (Ek : (rt_cname =? t) = false).
        { unfold is_cut_type in Eict. apply andb_true_iff in Eict. destruct Eict as [E _].
          apply orb_true_iff in E. destruct E as [E|E]; apply N.eqb_eq in E; subst t; reflexivity. }
        rewrite Ek, andb_false_r. reflexivity.
      * destruct (t =? rt_cname) eqn:Et.
        -- apply N.eqb_eq in Et. subst t. rewrite N.eqb_refl, andb_true_r. rewrite alookup_app.
           destruct (name_eqb og o) eqn:Eo.
           ++ apply name_eqb_eq in Eo. subst o. rewrite Eold. reflexivity.
           ++ destruct (alookup o (zf_cnames zf)); reflexivity.
        -- rewrite (N.eqb_sym rt_cname t), Et, andb_false_r. reflexivity.
    + (* ordinary table *)
      destruct (if is_glue tg then None else alookup og (zf_cuts zf)); [discriminate|].
      destruct (alookup og (zf_cnames zf)); [discriminate|]. intro H. inversion H. subst zf'. clear H.
      unfold zf_rrset. cbn [zf_normal zf_cuts zf_cnames].
      destruct (name_eqb og o) eqn:Eo; cbn [andb].
      2:{ rewrite alookup_aupsert, Eo. reflexivity. }
      apply name_eqb_eq in Eo. subst o.
      destruct (tg =? t) eqn:Et.
      * apply N.eqb_eq in Et. subst t. unfold is_cut_type. rewrite Ecut, Ecn.
        rewrite alookup_aupsert, name_eqb_refl, get_normal_insert, N.eqb_refl.
        destruct (alookup og (zf_normal zf)); reflexivity.
      * destruct (is_cut_type og t); [reflexivity|]. destruct (t =? rt_cname); [reflexivity|].
        rewrite alookup_aupsert, name_eqb_refl, get_normal_insert, Et.
        destruct (alookup og (zf_normal zf)); reflexivity.
Qed.

Lemma zf_of_records_snoc rs g :
  zf_of_records (rs ++ [g]) = match zf_insert g (zf_of_records rs) with Ok zf' => zf' | _ => zf_of_records rs end.
Proof. unfold zf_of_records. rewrite fold_left_app. reflexivity. Qed.

Lemma accepted_from_app zf rs g : accepted_from zf (rs ++ [g]) = true ->
  accepted_from zf rs = true /\
  exists zf', zf_insert g (fold_left (fun zf g => match zf_insert g zf with Ok zf' => zf' | _ => zf end) rs zf) = Ok zf'.
Proof.
  revert zf. induction rs as [|x rs IH]; intros zf H; simpl in *.
  - destruct (zf_insert g zf) as [zf'| | |]; try discriminate. eauto.
  - destruct (zf_insert x zf) as [zf1| | |]; try discriminate. apply IH. exact H.
Qed.

(* grouping: the RRsets of the zone file are the groups of the record list *)
Theorem grouping : forall rs, accepted rs = true -> forall o t, zf_rrset (zf_of_records rs) o t = group rs o t.
Proof.
  intro rs. pattern rs. apply rev_ind; clear rs.
  - intros _ o t. unfold zf_rrset, group. simpl. destruct (is_cut_type o t); [reflexivity|]. destruct (t =? rt_cname); reflexivity.
  - intros g rs IH Hacc o t. unfold accepted in Hacc. apply accepted_from_app in Hacc. destruct Hacc as [Hacc [zf' Hins]].
    rewrite zf_of_records_snoc. unfold zf_of_records at 1. rewrite Hins.
    rewrite (zf_insert_rrset _ _ _ o t Hins). fold (zf_of_records rs). rewrite IH by exact Hacc.
    rewrite group_snoc. reflexivity.
Qed.

(* a zone given as a flat record list answers by the spec of its grouped content *)
Theorem build_answers_spec_records rs : accepted rs = true -> wf_zone (zf_of_records rs) = true ->
  forall q qt, query (build rs) q qt = spec (zf_of_records rs) q qt /\
               (forall o t, zf_rrset (zf_of_records rs) o t = group rs o t).
Proof.
  intros Ha Hwf q qt. split; [apply build_answers_spec; exact Hwf|apply grouping; exact Ha].
Qed.

(* non-vacuity *)
Definition ex_records : list grec :=
  [ mkG [] rt_soa 60 (mkRd 1 None); mkG [353] rt_a 300 (mkRd 4 None); mkG [371] rt_ns 300 (mkRd 0 (Some [371; 366]));
    mkG [353] rt_a 100 (mkRd 5 None); mkG [371; 366] rt_a 77 (mkRd 7 None); mkG [364] rt_cname 200 (mkRd 0 (Some [353]));
    mkG [371] rt_ds 120 (mkRd 6 None); mkG [371] rt_ns 200 (mkRd 9 None) ].
Example ex_records_ok :
  accepted ex_records = true /\ wf_zone (zf_of_records ex_records) = true /\
  group ex_records [353] rt_a = Some (mkRrset rt_a 100 [mkRd 4 None; mkRd 5 None]) /\
  group ex_records [371] rt_ns = Some (mkRrset rt_ns 200 [mkRd 0 (Some [371; 366]); mkRd 9 None]) /\
  accepted (ex_records ++ [mkG [364] rt_a 1 (mkRd 1 None)]) = false.
Proof. repeat split; vm_compute; reflexivity. Qed.

(* ------------------------------------------------------------------ ANY: membership *)
(* an ANY query is answered with one of the RRsets held at the matched name (the
   name itself or the source of synthesis) -- which one is hash order in the
   implementation, list order in the model *)
Lemma at_cut_any c : na_content (spec_at_cut c rt_any) = ANoData.
Proof. reflexivity. Qed.
Lemma referral_content c : na_content (spec_referral c) = ANoData.
Proof. reflexivity. Qed.

Lemma spec_at_any_member i r : na_content (spec_at i rt_any) = AData r -> In r (i_rrsets i).
Proof.
  unfold spec_at. destruct (i_special i) as [[c|c|]|]; intro H.
  - rewrite at_cut_any in H. discriminate.
  - discriminate.
  - discriminate.
  - unfold spec_rrsets in H. change (rt_any =? rt_any) with true in H. cbn iota in H.
    destruct (i_rrsets i); simpl in *; [discriminate|]. inversion H. auto.
Qed.

Theorem any_answer_is_member : forall z q r, clean (n_special z) = None ->
  a_content (query z q rt_any) = AData r ->
  exists p x, node_at z p = Some x /\ In r (n_rrsets x).
Proof.
  intros z q r Hs. rewrite query_is_vspec by exact Hs. unfold finish. simpl.
  assert (Hm : forall p i, lview z p = Some i -> na_content (spec_at i rt_any) = AData r ->
                           exists p x, node_at z p = Some x /\ In r (n_rrsets x)).
  { intros p i Hi Hc. unfold lview in Hi. destruct (node_at z p) as [x|] eqn:Ex; [|discriminate].
    destruct (is_apex p || node_exists x); [|discriminate]. inversion Hi; subst.
    exists p, x. split; [exact Ex|]. apply (spec_at_any_member (cinfo x)). exact Hc. }
  unfold vspec. destruct (find_cut (lview z) q) as [[p c]|].
  - destruct (name_eqb p q); [rewrite at_cut_any|rewrite referral_content]; discriminate.
  - unfold vrest. destruct (lview z q) eqn:E1; [eapply Hm; eauto|].
    destruct (lview z (closest_encloser (lview z) q ++ [wild_label])) eqn:E2; [eapply Hm; eauto|simpl; discriminate].
Qed.

(* ------------------------------------------------------------------ accepted record lists and the builder *)
(* Zonefile::insert keeps the tables well formed; what it cannot see is a
   delegation without NS (DS only) and a CNAME at the apex: exactly these make
   TryFrom<Zonefile> for ZoneBuilder fail (MissingNs, CnameAtApex). *)
Definition buildable (zf : zonefile) : bool :=
  forallb (fun e => match fst (snd e) with Some _ => true | None => false end) (zf_cuts zf)
  && forallb (fun e => negb (is_apex (fst e))) (zf_cnames zf).

Definition zinv (zf : zonefile) : bool :=
  nodupb (map fst (zf_normal zf)) && nodupb (map fst (zf_cuts zf)) && nodupb (map fst (zf_cnames zf))
  && forallb wf_normal (zf_normal zf)
  && forallb (fun e => negb (is_apex (fst e))) (zf_cuts zf)
  && forallb (fun e => negb (existsb (name_eqb (fst e)) (map fst (zf_cuts zf)))) (zf_cnames zf).

Lemma alookup_none_iff {A} p (L : list (name * A)) : alookup p L = None <-> existsb (name_eqb p) (map fst L) = false.
Proof.
  induction L as [|[k v] L IH]; simpl; [tauto|]. rewrite (name_eqb_sym p k).
  destruct (name_eqb k p); simpl; [split; discriminate|exact IH].
Qed.

Lemma aupsert_keys {A} k (d : A) f l :
  map fst (aupsert k d f l) = if existsb (name_eqb k) (map fst l) then map fst l else map fst l ++ [k].
Proof.
  induction l as [|[k' v] l IH]; simpl; [reflexivity|]. rewrite (name_eqb_sym k k').
  destruct (name_eqb k' k) eqn:E; simpl; [reflexivity|]. rewrite IH. destruct (existsb (name_eqb k) (map fst l)); reflexivity.
Qed.

Lemma nodupb_snoc l k : nodupb (l ++ [k]) = nodupb l && negb (existsb (name_eqb k) l).
Proof.
  induction l as [|x l IH]; simpl; [reflexivity|].
  change (nodupb (x :: l ++ [k])) with (negb (existsb (name_eqb x) (l ++ [k])) && nodupb (l ++ [k])).
  change (nodupb (x :: l)) with (negb (existsb (name_eqb x) l) && nodupb l).
  rewrite IH, existsb_app. simpl. rewrite orb_false_r, (name_eqb_sym k x).
  destruct (existsb (name_eqb x) l), (name_eqb x k), (nodupb l), (existsb (name_eqb k) l); reflexivity.
Qed.

Lemma aupsert_nodup {A} k (d : A) f l : nodupb (map fst l) = true -> nodupb (map fst (aupsert k d f l)) = true.
Proof.
  intro H. rewrite aupsert_keys. destruct (existsb (name_eqb k) (map fst l)) eqn:E; [exact H|].
  rewrite nodupb_snoc, H, E. reflexivity.
Qed.

Lemma aupsert_forall {A} (P : name * A -> bool) k (d : A) f l :
  forallb P l = true -> (forall k' v, P (k', v) = true -> P (k', f v) = true) -> P (k, f d) = true ->
  forallb P (aupsert k d f l) = true.
Proof.
  intros H Hf Hd. induction l as [|[k' v] l IH]; simpl; [rewrite Hd; reflexivity|].
  simpl in H. apply andb_true_iff in H. destruct H as [H1 H2].
  destruct (name_eqb k' k) eqn:E; simpl.
  - rewrite Hf by exact H1. exact H2.
  - rewrite H1. apply IH. exact H2.
Qed.

Lemma nodup_types_snoc l r : nodup_types l = true -> existsb (fun x => rs_type x =? rs_type r) l = false ->
  nodup_types (l ++ [r]) = true.
Proof.
  induction l as [|x l IH]; simpl; [reflexivity|]. intros H Hn.
  apply andb_true_iff in H. destruct H as [A B]. apply orb_false_iff in Hn. destruct Hn as [N1 N2].
  rewrite existsb_app. simpl. rewrite (N.eqb_sym (rs_type r) (rs_type x)), N1, orb_false_r, A. apply IH; auto.
Qed.

Lemma normal_insert_wf o t ttl d l : (l = [] \/ wf_normal (o, l) = true) -> wf_normal (o, normal_insert t ttl d l) = true.
Proof.
  unfold wf_normal, normal_insert. cbn [snd]. intro H.
  destruct (get_rrset t l) as [r|] eqn:E.
  - destruct H as [H|H]; [subst; discriminate|].
    apply andb_true_iff in H. destruct H as [H H3]. apply andb_true_iff in H. destruct H as [H1 H2].
    pose proof (get_rrset_type _ _ _ E) as Ht.
    assert (G : forall l0, get_rrset t l0 = Some r -> nodup_types l0 = true -> forallb wf_rrset l0 = true ->
              nodup_types (set_rrset (push_record ttl d r) l0) = true /\ forallb wf_rrset (set_rrset (push_record ttl d r) l0) = true /\
              set_rrset (push_record ttl d r) l0 <> [] /\
              forall y, existsb (fun x => rs_type x =? rs_type y) (set_rrset (push_record ttl d r) l0) = existsb (fun x => rs_type x =? rs_type y) l0).
    { induction l0 as [|x l0 IH0]; simpl; [discriminate|]. intros Hg Hn Hw.
      apply andb_true_iff in Hn. destruct Hn as [Hn1 Hn2]. apply andb_true_iff in Hw. destruct Hw as [Hw1 Hw2].
      destruct (rs_type x =? t) eqn:Ex.
      - inversion Hg; subst x. cbn [push_record rs_type]. rewrite N.eqb_refl. simpl. rewrite Hn1, Hn2, Hw2.
        repeat split; try congruence. unfold wf_rrset. simpl. destruct (rs_data r); reflexivity.
      - cbn [push_record rs_type]. rewrite Ht, Ex. destruct (IH0 Hg Hn2 Hw2) as (A1 & A2 & A3 & A4).
        simpl. rewrite A1, A2, Hw1, (A4 x), Hn1. repeat split; try congruence. intro y. rewrite A4. reflexivity. }
    destruct (G l E H1 H3) as (A1 & A2 & A3 & _). rewrite A1, A2. destruct (set_rrset _ l); [congruence|reflexivity].
  - assert (Hnew : existsb (fun x => rs_type x =? t) l = false).
    { clear H. induction l as [|x l IH0]; simpl in *; [reflexivity|]. destruct (rs_type x =? t); [discriminate|]. apply IH0. exact E. }
    assert (Hl : nodup_types l = true /\ forallb wf_rrset l = true).
    { destruct H as [H|H]; [subst; auto|]. apply andb_true_iff in H. destruct H as [H H3]. apply andb_true_iff in H. tauto. }
    destruct Hl as [H1 H3].
    assert (G : nodup_types (l ++ [mkRrset t ttl [d]]) = true) by (apply nodup_types_snoc; auto).
    rewrite G, forallb_app, H3. simpl. destruct l; reflexivity.
Qed.

Lemma zinv_insert g zf zf' : zinv zf = true -> zf_insert g zf = Ok zf' -> zinv zf' = true.
Proof.
  unfold zinv. intro H. repeat (apply andb_true_iff in H; destruct H as [H ?]).
  rename H into HN, H4 into HC, H3 into HA, H2 into HwN, H1 into HwC, H0 into HwA.
  unfold zf_insert. destruct g as [og tg ttl d]. cbn [g_owner g_type g_ttl g_data].
  destruct (((tg =? rt_ns) || (tg =? rt_ds)) && negb (is_apex og)) eqn:Ecut.
  - apply andb_true_iff in Ecut. destruct Ecut as [_ Eap].
    assert (Hres : alookup og (zf_cnames zf) = None ->
      forall F, zinv (mkZf (zf_normal zf) (aupsert og (None, None) F (zf_cuts zf)) (zf_cnames zf)) = true).
    { intros Hno F. unfold zinv. cbn [zf_normal zf_cuts zf_cnames]. rewrite HN, HA, HwN, (aupsert_nodup og _ F _ HC). simpl.
      apply andb_true_iff. split.
      - apply aupsert_forall; auto.
      - rewrite aupsert_keys. apply alookup_none_iff in Hno.
        rewrite forallb_forall in *. intros e He. specialize (HwA e He). apply negb_true_iff in HwA. apply negb_true_iff.
        destruct (existsb (name_eqb og) (map fst (zf_cuts zf))); [exact HwA|].
        rewrite existsb_app, HwA. simpl. rewrite orb_false_r.
        destruct (name_eqb (fst e) og) eqn:E; [|reflexivity]. apply name_eqb_eq in E.
        assert (Hin : existsb (name_eqb og) (map fst (zf_cnames zf)) = true).
        { apply existsb_exists. exists (fst e). split; [apply in_map; exact He|rewrite E; apply name_eqb_refl]. }
        congruence. }
    destruct (alookup og (zf_normal zf)) as [rsn|].
    + destruct (existsb _ rsn); [discriminate|]. destruct (alookup og (zf_cnames zf)) eqn:Ea; [discriminate|].
      intro Hz. injection Hz as Hz. subst zf'. apply Hres. reflexivity.
    + destruct (alookup og (zf_cnames zf)) eqn:Ea; [discriminate|].
      intro Hz. injection Hz as Hz. subst zf'. apply Hres. reflexivity.
  - destruct (tg =? rt_cname).
    + destruct (alookup og (zf_normal zf)); [discriminate|]. destruct (alookup og (zf_cuts zf)) eqn:Ec; [discriminate|].
      destruct (alookup og (zf_cnames zf)) eqn:Ea; [discriminate|]. intro Hz. injection Hz as Hz. subst zf'.
      unfold zinv. cbn [zf_normal zf_cuts zf_cnames]. rewrite HN, HC, HwN, HwC. simpl.
      rewrite map_app. change (map fst [(og, mkRr ttl d)]) with [og]. rewrite nodupb_snoc, HA. apply alookup_none_iff in Ea. rewrite Ea. cbn [negb andb].
      rewrite forallb_app, HwA. simpl. apply alookup_none_iff in Ec. rewrite Ec. reflexivity.
    + destruct (if is_glue tg then None else alookup og (zf_cuts zf)); [discriminate|].
      destruct (alookup og (zf_cnames zf)); [discriminate|]. intro Hz. injection Hz as Hz. subst zf'.
      unfold zinv. cbn [zf_normal zf_cuts zf_cnames]. rewrite HC, HA, HwC, HwA, (aupsert_nodup og _ _ _ HN). simpl.
      rewrite !andb_true_r. apply aupsert_forall; [exact HwN| |].
      * intros k' v Hv. apply normal_insert_wf. right. exact Hv.
      * apply normal_insert_wf. left. reflexivity.
Qed.

Lemma zinv_of_records : forall rs, accepted rs = true -> zinv (zf_of_records rs) = true.
Proof.
  intro rs. pattern rs. apply rev_ind; clear rs; [reflexivity|].
  intros g rs IH Hacc. unfold accepted in Hacc. apply accepted_from_app in Hacc. destruct Hacc as [Hacc [zf' Hins]].
  rewrite zf_of_records_snoc. unfold zf_of_records at 1. rewrite Hins.
  eapply zinv_insert; [apply IH; exact Hacc|exact Hins].
Qed.

Lemma forallb_and {A} (a b : A -> bool) l : forallb (fun e => a e && b e) l = forallb a l && forallb b l.
Proof. induction l; simpl; auto. rewrite IHl. destruct (a a0), (b a0), (forallb a l), (forallb b l); reflexivity. Qed.

Lemma zinv_wf zf : zinv zf = true -> wf_zone zf = buildable zf.
Proof.
  unfold zinv, wf_zone, buildable. intro H. repeat (apply andb_true_iff in H; destruct H as [H ?]).
  rewrite H, H4, H3. change (forallb _ (zf_normal zf)) with (forallb wf_normal (zf_normal zf)). rewrite H2.
  rewrite !forallb_and, H1, H0. simpl. rewrite andb_true_r. reflexivity.
Qed.

(* the conversion to a ZoneBuilder fails exactly for unbuildable tables *)
Lemma zf_build_ok zf : forallb (fun e => negb (is_apex (fst e))) (zf_cuts zf) = true -> snd (zf_build zf) = buildable zf.
Proof.
  intro Hc. rewrite zf_build_unfold. unfold buildable.
  assert (G3 : forall N acc, snd (fold_left F3 N acc) = snd acc).
  { induction N as [|e N IH]; intros [z ok]; simpl; auto. rewrite IH. reflexivity. }
  assert (G2 : forall A acc, snd (fold_left F2 A acc) = snd acc && forallb (fun e => negb (is_apex (fst e))) A).
  { induction A as [|[o c] A IH]; intros [z ok]; simpl; [rewrite andb_true_r; reflexivity|].
    destruct o; simpl; rewrite IH; simpl; [rewrite andb_false_r; reflexivity|reflexivity]. }
  assert (G1 : forall G C acc, forallb (fun e => negb (is_apex (fst e))) C = true ->
             snd (fold_left (F1 G) C acc) = snd acc && forallb (fun e => match fst (snd e) with Some _ => true | None => false end) C).
  { induction C as [|[o [ns ds]] C IH]; intros [z ok] H; simpl; [rewrite andb_true_r; reflexivity|].
    simpl in H. apply andb_true_iff in H. destruct H as [Ho H].
    destruct ns as [ns|]; simpl.
    - destruct o; [discriminate|]. simpl. rewrite IH by exact H. reflexivity.
    - rewrite IH by exact H. simpl. rewrite andb_false_r. reflexivity. }
  rewrite G3, G2, G1 by exact Hc. reflexivity.
Qed.

(* an accepted record list: well formed content iff buildable, the builder
   conversion succeeds iff buildable, and then the zone answers by the spec of
   its grouped records *)
Theorem accepted_records_build rs : accepted rs = true ->
  wf_zone (zf_of_records rs) = buildable (zf_of_records rs) /\
  snd (zf_build (zf_of_records rs)) = buildable (zf_of_records rs) /\
  (buildable (zf_of_records rs) = true ->
     forall q qt, query (build rs) q qt = spec (zf_of_records rs) q qt).
Proof.
  intro Ha. pose proof (zinv_of_records rs Ha) as Hi.
  split; [apply zinv_wf; exact Hi|]. split.
  - apply zf_build_ok. unfold zinv in Hi. repeat (apply andb_true_iff in Hi; destruct Hi as [Hi ?]). assumption.
  - intros Hb q qt. apply build_answers_spec. rewrite zinv_wf by exact Hi. exact Hb.
Qed.

(* the two ways an accepted list fails at build *)
Example unbuildable_examples :
  accepted [mkG [371] rt_ds 120 (mkRd 6 None)] = true /\ buildable (zf_of_records [mkG [371] rt_ds 120 (mkRd 6 None)]) = false /\
  accepted [mkG [] rt_cname 5 (mkRd 1 None)] = true /\ buildable (zf_of_records [mkG [] rt_cname 5 (mkRd 1 None)]) = false /\
  buildable (zf_of_records ex_records) = true.
Proof. repeat split; reflexivity. Qed.

(* T1 constants that the flat side relies on *)
Lemma glue_types_are_addresses : glue_types = [rt_a; rt_aaaa]. Proof. reflexivity. Qed.
Lemma wildcard_is_asterisk : wild_label = 256 + 42. Proof. reflexivity. Qed.

(* ------------------------------------------------------------------ referrals and glue *)
(* The glue of a delegation, as a set: the address records (A / AAAA) found in
   the zone's ordinary tables at the names its NS records point to -- wherever
   those names are, also below this or another delegation. *)
Definition is_glue_of (N : list (name * list rrset)) (ns : rrset) (g : grec) : Prop :=
  exists d t rs r x, In d (rs_data ns) /\ rd_tgt d = Some t /\ alookup t N = Some rs /\ In r rs /\
    is_glue (rs_type r) = true /\ In x (rs_data r) /\ g = mkG t (rs_type r) (rs_ttl r) x.

Lemma glue_for_spec N ns g : In g (glue_for N ns) <-> is_glue_of N ns g.
Proof.
  unfold glue_for, is_glue_of, collect_glue. rewrite in_flat_map. split.
  - intros (d & Hd & Hg). destruct (rd_tgt d) as [t|] eqn:Et; [|contradiction].
    destruct (alookup t N) as [rs|] eqn:Ea; [|contradiction].
    apply in_flat_map in Hg. destruct Hg as (r & Hr & Hg).
    destruct (is_glue (rs_type r)) eqn:Eg; [|contradiction].
    apply in_map_iff in Hg. destruct Hg as (x & Hx & Hin).
    exists d, t, rs, r, x. repeat split; auto.
  - intros (d & t & rs & r & x & Hd & Et & Ea & Hr & Eg & Hx & Hg).
    exists d. split; [exact Hd|]. rewrite Et, Ea. apply in_flat_map. exists r. split; [exact Hr|].
    rewrite Eg. apply in_map_iff. exists x. split; auto.
Qed.

Lemma find_map_some {A B} (f : A -> option B) l b : find_map f l = Some b -> exists x, In x l /\ f x = Some b.
Proof.
  induction l as [|a l IH]; simpl; [discriminate|]. destruct (f a) eqn:E.
  - intro H. inversion H; subst. exists a. auto.
  - intro H. destruct (IH H) as (x & Hx & Hf). exists x. auto.
Qed.

(* At and below a delegation point the built zone answers with a referral (not
   authoritative, no SOA): NS and DS of the delegation in the authority
   section, and exactly the glue of the delegation in the additional section --
   whatever the order in which delegations and addresses were inserted.  Only a
   DS query exactly at the delegation point is answered from the parent side. *)
Theorem referral_carries_glue zf q qt p c : wf_zone zf = true ->
  find_cut (flat_view zf) q = Some (p, c) -> (name_eqb p q && (qt =? rt_ds)) = false ->
  exists ns ds, alookup p (zf_cuts zf) = Some (Some ns, ds) /\
    let a := query (fst (zf_build zf)) q qt in
    a_rcode a = rc_noerror /\ a_aa a = false /\ a_content a = ANoData /\
    a_auth a = Some (mkAuth p None (Some ns) ds) /\
    forall g, In g (a_addl a) <-> is_glue_of (zf_normal zf) ns g.
Proof.
  intros Hwf Hc Hq. rewrite build_answers_spec by exact Hwf.
  unfold find_cut in Hc. pose proof (find_map_some _ _ _ Hc) as (p' & _ & Hp').
  unfold cut_of, flat_view, flat_view_g in Hp'. destruct (exists_name zf p'); [|discriminate].
  unfold info_at_g in Hp'. cbn [i_special] in Hp'.
  destruct (cut_at_g (zf_normal zf) zf p') as [c'|] eqn:Ecut.
  2:{ destruct (alookup p' (zf_cnames zf)); discriminate. }
  inversion Hp'; subst p' c'. clear Hp'.
  unfold cut_at_g in Ecut. destruct (alookup p (zf_cuts zf)) as [[[ns|] ds]|] eqn:Ea; try discriminate.
  inversion Ecut; subst c. clear Ecut.
  exists ns, ds. split; [reflexivity|].
  unfold spec, vspec. unfold find_cut. rewrite Hc.
  assert (E : (if name_eqb p q then spec_at_cut (mkCut p ns ds (glue_for (zf_normal zf) ns)) qt
               else spec_referral (mkCut p ns ds (glue_for (zf_normal zf) ns)))
              = spec_referral (mkCut p ns ds (glue_for (zf_normal zf) ns))).
  { destruct (name_eqb p q); [|reflexivity]. simpl in Hq. unfold spec_at_cut. rewrite Hq. reflexivity. }
  rewrite E. cbn. repeat split; try reflexivity.
  - intro H. apply glue_for_spec. exact H.
  - intro H. apply glue_for_spec. exact H.
Qed.

(* two delegations sharing a name server below one of them *)
Example shared_ns_example :
  let zf := mkZf [ ([], [mkRrset rt_soa 60 [mkRd 1 None]]); ([371; 366], [mkRrset rt_a 77 [mkRd 7 None]; mkRrset rt_aaaa 78 [mkRd 8 None]]) ]
                 [ ([371], (Some (mkRrset rt_ns 300 [mkRd 0 (Some [371; 366])]), None));
                   ([372], (Some (mkRrset rt_ns 300 [mkRd 0 (Some [371; 366]); mkRd 5 None]), None)) ] [] in
  wf_zone zf = true /\
  a_addl (query (fst (zf_build zf)) [372; 9] rt_a) = [mkG [371; 366] rt_a 77 (mkRd 7 None); mkG [371; 366] rt_aaaa 78 (mkRd 8 None)] /\
  a_addl (query (fst (zf_build zf)) [371; 366] rt_a) = [mkG [371; 366] rt_a 77 (mkRd 7 None); mkG [371; 366] rt_aaaa 78 (mkRd 8 None)] /\
  a_aa (query (fst (zf_build zf)) [371; 366] rt_a) = false.
Proof. vm_compute. repeat split; reflexivity. Qed.
