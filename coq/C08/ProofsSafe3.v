(* C08 -- BeginBatchDelete inside histories that also change the delegation /
   alias state.  Whether a BeginBatchDelete commits depends on the SOA of the
   writer's working copy, so the syntactic state machine of ProofsSafe2 is
   extended by the serial (token of the first SOA record at the apex) of the
   published and of the working tree.  Operations that touch the apex SOA RRset
   other than through BeginBatchAdd / Finished / replace-all are outside. *)
From Coq Require Import NArith List Bool Lia.
From DV Require Import Base.Outcome C08.Gen C08.Model C08.Spec C08.ProofsQuery C08.ProofsBuild C08.ProofsHist
  C08.ProofsPlain C08.ProofsGroup C08.ProofsSafe C08.ProofsSafe2 C08.ProofsOrder.
Import ListNotations.
Local Open Scope N_scope.

(* ------------------------------------------------------------------ the serial of a tree *)
Definition soa_of (z : node) : option N := option_map (fun s => rd_tok (rr_data s)) (get_soa z).
Definition soa_match (so : option N) (d : rdata) : bool := match so with Some t => t =? rd_tok d | None => false end.

Lemma soa_serial_matches_of d z : soa_serial_matches d z = soa_match (soa_of z) d.
Proof. unfold soa_serial_matches, soa_match, soa_of. destruct (get_soa z); reflexivity. Qed.

Lemma soa_of_rrsets z z' : n_rrsets z' = n_rrsets z -> soa_of z' = soa_of z.
Proof. intro H. unfold soa_of, get_soa. rewrite H. reflexivity. Qed.

Lemma get_set_rrset_gen r : forall l t, get_rrset t (set_rrset r l) = if rs_type r =? t then Some r else get_rrset t l.
Proof.
  induction l as [|x l IH]; intro t; simpl.
  - reflexivity.
  - destruct (rs_type x =? rs_type r) eqn:E; simpl.
    + apply N.eqb_eq in E. rewrite E. destruct (rs_type r =? t); reflexivity.
    + rewrite IH. destruct (rs_type x =? t) eqn:E2; [|reflexivity]. apply N.eqb_eq in E2. subst t.
      rewrite N.eqb_sym, E. reflexivity.
Qed.

Lemma get_remove_rtype t' : forall l t, (t' =? t) = false -> get_rrset t (remove_rtype t' l) = get_rrset t l.
Proof.
  induction l as [|x l IH]; intros t H; simpl; [reflexivity|].
  destruct (rs_type x =? t') eqn:E; simpl.
  - apply N.eqb_eq in E. rewrite E, H. apply IH. exact H.
  - destruct (rs_type x =? t); [reflexivity|apply IH; exact H].
Qed.

Lemma get_update_rrsets r l t : (rs_type r =? t) = false -> get_rrset t (update_rrsets r l) = get_rrset t l.
Proof.
  intro H. unfold update_rrsets. change empty_rrset_update_removes with true. cbn iota.
  destruct (rs_data r); [apply get_remove_rtype; exact H|rewrite get_set_rrset_gen, H; reflexivity].
Qed.

(* the root RRsets after a write through a non-empty path are unchanged *)
Lemma w_node_root_rrsets l p f z : n_rrsets (w_node (l :: p) f z) = n_rrsets z.
Proof. destruct z as [r s cs]. reflexivity. Qed.

(* an RRset-level write that is not the apex SOA keeps the serial *)
Definition apex_soa (p : name) (t : rtype) : bool := is_apex p && (t =? soa_type).

Lemma soa_w_update p r z : apex_soa p (rs_type r) = false -> soa_of (w_update_rrset p r z) = soa_of z.
Proof.
  intro H. destruct p as [|l p].
  - unfold w_update_rrset, w_node. simpl. unfold soa_of, get_soa. destruct z as [rs s cs]. simpl.
    rewrite get_update_rrsets; [reflexivity|]. unfold apex_soa in H. simpl in H. exact H.
  - apply soa_of_rrsets. apply w_node_root_rrsets.
Qed.
Lemma soa_w_remove p t z : apex_soa p t = false -> soa_of (w_remove_rrset p t z) = soa_of z.
Proof.
  intro H. destruct p as [|l p].
  - unfold w_remove_rrset, w_node. simpl. unfold soa_of, get_soa. destruct z as [rs s cs]. simpl.
    rewrite get_remove_rtype; [reflexivity|]. unfold apex_soa in H. simpl in H. exact H.
  - apply soa_of_rrsets. apply w_node_root_rrsets.
Qed.
Lemma soa_touch p z : soa_of (w_node p (fun n => n) z) = soa_of z.
Proof. destruct p; [reflexivity|apply soa_of_rrsets; apply w_node_root_rrsets]. Qed.

Lemma soa_u_add p t ttl d z : apex_soa p t = false -> soa_of (u_add p t ttl d z) = soa_of z.
Proof. intro H. unfold u_add. rewrite soa_w_update by exact H. apply soa_touch. Qed.
Lemma soa_u_del p t ttl d z : apex_soa p t = false -> soa_of (u_del p t ttl d z) = soa_of z.
Proof.
  intro H. unfold u_del. destruct (filter _ _); [rewrite soa_w_remove by exact H|rewrite soa_w_update by exact H]; apply soa_touch.
Qed.
Lemma soa_u_soa ttl d z : soa_of (u_soa ttl d z) = Some (rd_tok d).
Proof.
  unfold u_soa, w_update_rrset, w_node. simpl. destruct z as [rs s cs]. unfold soa_of, get_soa. simpl.
  unfold update_rrsets. simpl. rewrite get_set_rrset_gen. reflexivity.
Qed.
Lemma soa_remove_all p z : soa_of (w_remove_all p z) = if is_apex p then None else soa_of z.
Proof.
  destruct p as [|l p]; simpl.
  - unfold w_remove_all, w_node. simpl. destruct z as [rs s cs]. reflexivity.
  - apply soa_of_rrsets. apply w_node_root_rrsets.
Qed.
Lemma soa_set_special p sp z : is_apex p = false -> soa_of (w_node p (set_special sp) z) = soa_of z.
Proof. destruct p; [discriminate|]. intros _. apply soa_of_rrsets. apply w_node_root_rrsets. Qed.
Lemma soa_regular p z : soa_of (w_make_regular p z) = soa_of z.
Proof. destruct p as [|l p]; [reflexivity|]. apply soa_of_rrsets. apply w_node_root_rrsets. Qed.
Lemma soa_graft w c : soa_of (graft w c) = soa_of c.
Proof. destruct w as [wr ws wcs], c as [r s cs]. reflexivity. Qed.

(* ------------------------------------------------------------------ the state machine with serials *)
Record sst3 := mkS3 { s3 : sst; s3_csoa : option N; s3_wsoa : option N }.

Definition safe3_op (o : op) : bool :=
  match o with
  | OUBatchDel _ => true
  | OUAdd g | OUDel g => negb (special_type (g_owner g) (g_type g)) && negb (apex_soa (g_owner g) (g_type g))
  | OWRr p r => negb (special_type p (rs_type r)) && negb (apex_soa p (rs_type r))
  | OWRm p t => negb (special_type p t) && negb (apex_soa p t)
  | _ => ext_safe_op o
  end.

Definition sstep3 (st : sst3) (o : op) : sst3 :=
  let a := s3 st in
  match o with
  | OUBatchDel d =>
      if ss_fin a then st else
      match ss_work a with
      | Some g => if soa_match (s3_wsoa st) d then mkS3 (mkSst g (Some g) (ss_fin a)) (s3_wsoa st) (s3_wsoa st) else st
      | None => st
      end
  | OUNew | OWOpen => mkS3 (sstep a o) (s3_csoa st) (s3_csoa st)
  | OUDelAll => mkS3 (sstep a o) (s3_csoa st) (if ss_fin a then s3_wsoa st else None)
  | OUBatchAdd _ d => mkS3 (sstep a o) (s3_csoa st) (if ss_fin a then s3_wsoa st else Some (rd_tok d))
  | OUFin _ d => mkS3 (sstep a o) (if ss_fin a then s3_csoa st else match ss_work a with Some _ => Some (rd_tok d) | None => s3_csoa st end) (s3_wsoa st)
  | OWCommit => mkS3 (sstep a o) (match ss_work a with Some _ => s3_wsoa st | None => s3_csoa st end) (s3_wsoa st)
  | OWRemoveAll p => mkS3 (sstep a o) (s3_csoa st) (if is_apex p then None else s3_wsoa st)
  | _ => mkS3 (sstep a o) (s3_csoa st) (s3_wsoa st)
  end.

Definition sp_final3 (us : list op) (f0 : sfun) (soa0 : option N) : sfun :=
  ss_comm (s3 (fold_left sstep3 us (mkS3 (mkSst f0 None false) soa0 soa0))).

Record xinv3 (st : sst3) (s : state) : Prop := mkX3 {
  x3_x : xinv (s3 st) s;
  x3_c : soa_of (s_comm s) = s3_csoa st;
  x3_w : forall w, s_work s = Some w -> soa_of w = s3_wsoa st }.

(* a commit that reopens (BeginBatchDelete) *)
Lemma xinv_commit_reopen st s g : xinv st s -> ss_work st = Some g ->
  xinv (mkSst g (Some g) (ss_fin st)) (commit true s).
Proof.
  intros [Hb Hc Hw Hfin] Hg. unfold commit. rewrite Hg in Hw.
  destruct (s_work s) as [w|] eqn:Ew; [|contradiction].
  constructor; simpl; auto.
Qed.

Lemma on_work_soa f s (so : option N) :
  (forall w, s_work s = Some w -> soa_of (f w) = so) -> forall w, s_work (on_work f s) = Some w -> soa_of w = so.
Proof.
  intros H w. unfold on_work. destruct (s_work s) as [w0|] eqn:E; simpl.
  - intro Hw. inversion Hw; subst. apply H. reflexivity.
  - rewrite E. discriminate.
Qed.

Lemma on_work_comm f s : s_comm (on_work f s) = s_comm s.
Proof. unfold on_work. destruct (s_work s); reflexivity. Qed.

Lemma xinv3_step i st s o : safe3_op o = true -> xinv3 st s -> xinv3 (sstep3 st o) (step i s o).
Proof.
  intros Ho [Hx Hc Hw].
  pose proof (xi_built _ _ Hx) as Hbuilt. pose proof (xi_fin _ _ Hx) as Hfin.
  assert (E : (if is_history o then finish_build i s else s) = s).
  { destruct (is_history o); [apply finish_built; exact Hbuilt|reflexivity]. }
  destruct o; simpl in Ho; try discriminate.
  - (* OUNew *)
    constructor; [apply xinv_step; auto| |]; unfold step; rewrite E; cbn [sstep3 s3_csoa s3_wsoa]; simpl; auto.
    intros w H. inversion H; subst. exact Hc.
  - (* OUAdd *)
    apply andb_true_iff in Ho. destruct Ho as [Ho1 Ho2]. apply negb_true_iff in Ho2.
    constructor; [apply xinv_step; auto| |]; unfold step; rewrite E; cbn [sstep3 s3_csoa s3_wsoa].
    + destruct (s_fin s); [exact Hc|rewrite on_work_comm; exact Hc].
    + destruct (s_fin s); [exact Hw|]. apply on_work_soa. intros w H. rewrite soa_u_add by exact Ho2. apply Hw. exact H.
  - (* OUDel *)
    apply andb_true_iff in Ho. destruct Ho as [Ho1 Ho2]. apply negb_true_iff in Ho2.
    constructor; [apply xinv_step; auto| |]; unfold step; rewrite E; cbn [sstep3 s3_csoa s3_wsoa].
    + destruct (s_fin s); [exact Hc|rewrite on_work_comm; exact Hc].
    + destruct (s_fin s); [exact Hw|]. apply on_work_soa. intros w H. rewrite soa_u_del by exact Ho2. apply Hw. exact H.
  - (* OUDelAll *)
    constructor; [apply xinv_step; auto| |]; unfold step; rewrite E; cbn [sstep3 s3_csoa s3_wsoa]; rewrite <- ?Hfin.
    + destruct (s_fin s); [exact Hc|rewrite on_work_comm; exact Hc].
    + destruct (s_fin s); [exact Hw|]. apply on_work_soa. intros w H. rewrite soa_remove_all. reflexivity.
  - (* OUBatchDel *)
    unfold step. rewrite E. cbn [sstep3]. rewrite <- Hfin.
    destruct (s_fin s) eqn:Ef. { constructor; [apply xinv_err; exact Hx|exact Hc|exact Hw]. }
    pose proof (xi_work _ _ Hx) as Hxw.
    destruct (s_work s) as [w|] eqn:Ew, (ss_work (s3 st)) as [g|] eqn:Eg; try contradiction.
    + change batch_delete_checks_serial with true. cbn iota. rewrite soa_serial_matches_of, (Hw w eq_refl).
      destruct (soa_match (s3_wsoa st) d).
      * constructor; cbn [s3 s3_csoa s3_wsoa].
        -- pose proof (xinv_commit_reopen (s3 st) s g Hx Eg) as H. rewrite <- Hfin in H. exact H.
        -- unfold commit. rewrite Ew. simpl. apply Hw. reflexivity.
        -- unfold commit. rewrite Ew. simpl. intros w' H. inversion H; subst. apply Hw. reflexivity.
      * constructor; [apply xinv_err; exact Hx|exact Hc|intros w' H; simpl in H; rewrite Ew in H; apply Hw; exact H].
    + constructor; [exact Hx|exact Hc|intros w' H; rewrite Ew in H; discriminate].
  - (* OUBatchAdd *)
    constructor; [apply xinv_step; auto| |]; unfold step; rewrite E; cbn [sstep3 s3_csoa s3_wsoa]; rewrite <- ?Hfin.
    + destruct (s_fin s); [exact Hc|rewrite on_work_comm; exact Hc].
    + destruct (s_fin s); [exact Hw|]. apply on_work_soa. intros w H. apply soa_u_soa.
  - (* OUFin *)
    constructor; [apply xinv_step; auto| |]; unfold step; rewrite E; cbn [sstep3 s3_csoa s3_wsoa]; rewrite <- ?Hfin.
    + destruct (s_fin s); [exact Hc|]. pose proof (xi_work _ _ Hx) as Hxw.
      unfold on_work, commit. destruct (s_work s) as [w|] eqn:Ew, (ss_work (s3 st)) as [g|] eqn:Eg; try contradiction; simpl.
      * apply soa_u_soa.
      * rewrite Ew. simpl. exact Hc.
    + destruct (s_fin s); [exact Hw|]. unfold on_work, commit. destruct (s_work s) as [w|] eqn:Ew; simpl; [discriminate|rewrite Ew; simpl; rewrite Ew; discriminate].
  - (* OUDrop *)
    constructor; [apply xinv_step; auto| |]; unfold step; rewrite E; cbn [sstep3 s3_csoa s3_wsoa].
    + unfold rollback. destruct (s_work s); simpl; [rewrite soa_graft|]; exact Hc.
    + unfold rollback. destruct (s_work s) eqn:Ew; simpl; [discriminate|rewrite Ew; discriminate].
  - (* OWOpen *)
    constructor; [apply xinv_step; auto| |]; unfold step; rewrite E; cbn [sstep3 s3_csoa s3_wsoa]; simpl; auto.
    intros w H. inversion H; subst. exact Hc.
  - (* OWRr *)
    apply andb_true_iff in Ho. destruct Ho as [Ho1 Ho2]. apply negb_true_iff in Ho2.
    constructor; [apply xinv_step; auto| |]; unfold step; rewrite E; cbn [sstep3 s3_csoa s3_wsoa].
    + rewrite on_work_comm; exact Hc.
    + apply on_work_soa. intros w H. rewrite soa_w_update by exact Ho2. apply Hw. exact H.
  - (* OWRm *)
    apply andb_true_iff in Ho. destruct Ho as [Ho1 Ho2]. apply negb_true_iff in Ho2.
    constructor; [apply xinv_step; auto| |]; unfold step; rewrite E; cbn [sstep3 s3_csoa s3_wsoa].
    + rewrite on_work_comm; exact Hc.
    + apply on_work_soa. intros w H. rewrite soa_w_remove by exact Ho2. apply Hw. exact H.
  - (* OWCut *)
    constructor; [apply xinv_step; auto| |]; unfold step; rewrite E; cbn [sstep3 s3_csoa s3_wsoa].
    + unfold w_make_zone_cut. destruct (s_work s); [|exact Hc]. destruct (is_apex p); simpl; exact Hc.
    + unfold w_make_zone_cut. destruct (s_work s) as [w|] eqn:Ew; [|intros w' H; rewrite Ew in H; discriminate]. destruct (is_apex p) eqn:Ea; simpl.
      * intros w' H. rewrite Ew in H. apply Hw. exact H.
      * intros w' H. inversion H; subst. rewrite soa_set_special by exact Ea. apply Hw. reflexivity.
  - (* OWCname *)
    constructor; [apply xinv_step; auto| |]; unfold step; rewrite E; cbn [sstep3 s3_csoa s3_wsoa].
    + unfold w_make_cname. destruct (s_work s); [|exact Hc]. destruct (is_apex p); simpl; exact Hc.
    + unfold w_make_cname. destruct (s_work s) as [w|] eqn:Ew; [|intros w' H; rewrite Ew in H; discriminate]. destruct (is_apex p) eqn:Ea; simpl.
      * intros w' H. rewrite Ew in H. apply Hw. exact H.
      * intros w' H. inversion H; subst. rewrite soa_set_special by exact Ea. apply Hw. reflexivity.
  - (* OWRegular *)
    constructor; [apply xinv_step; auto| |]; unfold step; rewrite E; cbn [sstep3 s3_csoa s3_wsoa].
    + rewrite on_work_comm; exact Hc.
    + apply on_work_soa. intros w H. rewrite soa_regular. apply Hw. exact H.
  - (* OWRemoveAll *)
    constructor; [apply xinv_step; auto| |]; unfold step; rewrite E; cbn [sstep3 s3_csoa s3_wsoa].
    + rewrite on_work_comm; exact Hc.
    + apply on_work_soa. intros w H. rewrite soa_remove_all. destruct (is_apex p); [reflexivity|apply Hw; exact H].
  - (* OWCommit *)
    constructor; [apply xinv_step; auto| |]; unfold step; rewrite E; cbn [sstep3 s3_csoa s3_wsoa].
    + pose proof (xi_work _ _ Hx) as Hxw. unfold commit.
      destruct (s_work s) as [w|] eqn:Ew, (ss_work (s3 st)) as [g|] eqn:Eg; try contradiction; simpl; [apply Hw; reflexivity|exact Hc].
    + unfold commit. destruct (s_work s) eqn:Ew; simpl; [discriminate|rewrite Ew; discriminate].
  - (* OWDrop *)
    constructor; [apply xinv_step; auto| |]; unfold step; rewrite E; cbn [sstep3 s3_csoa s3_wsoa].
    + unfold rollback. destruct (s_work s); simpl; [rewrite soa_graft|]; exact Hc.
    + unfold rollback. destruct (s_work s) eqn:Ew; simpl; [discriminate|rewrite Ew; discriminate].
Qed.

Lemma xinv3_run : forall us i st s, forallb safe3_op us = true -> xinv3 st s ->
  wfu (s_comm (run_from i s us)) /\ feq (cspecial_at (s_comm (run_from i s us))) (ss_comm (s3 (fold_left sstep3 us st))).
Proof.
  induction us as [|o us IH]; intros i st s Hu Hx; simpl.
  - destruct Hx as [Hx _ _]. rewrite finish_built by (apply (xi_built _ _ Hx)).
    destruct (xinv_rollback _ _ Hx) as [_ Hc _ _]. exact Hc.
  - simpl in Hu. apply andb_true_iff in Hu. destruct Hu as [Ho Hu]. apply IH; auto. apply xinv3_step; auto.
Qed.

Lemma safe3_is_history o : safe3_op o = true -> is_history o = true.
Proof. destruct o; simpl; auto; discriminate. Qed.

Lemma run_from_finish3 us i s : forallb safe3_op us = true -> run_from i (finish_build i s) us = run_from i s us.
Proof.
  destruct us as [|o us]; intro H; simpl.
  - rewrite finish_idem. reflexivity.
  - simpl in H. apply andb_true_iff in H. destruct H as [Ho _]. rewrite step_history_finish by (apply safe3_is_history; exact Ho). reflexivity.
Qed.

(* The delegation / alias state after a history with BeginBatchDelete: computed
   from the operations, the state and the serial of the zone file. *)
Theorem safe3_history_state zs us : zone_file_only zs = true -> forallb safe3_op us = true ->
  wfu (run (zs ++ us)) /\
  forall p, cspecial_at (run (zs ++ us)) p = sp_final3 us (cspecial_at (run zs)) (soa_of (run zs)) p.
Proof.
  intros Hz Hu. unfold run, run_ops.
  destruct (run_zs zs 0 init_state Hz prebuilt_init) as (j & s' & Hp & Hr).
  rewrite (Hr us). pose proof (Hr []) as H0. rewrite app_nil_r in H0. rewrite H0.
  rewrite <- (run_from_finish3 us j s' Hu).
  pose proof (sinv_finish j s' Hp) as Hs. set (sB := finish_build j s') in *.
  assert (Hwn : s_work sB = None /\ s_fin sB = false).
  { unfold sB, finish_build. destruct Hp as [Hpb Hpw _]. rewrite Hpb.
    destruct (s_zf s'); [destruct (zf_build z); destruct b|]; simpl; auto. }
  destruct Hwn as [Hwn Hfn].
  assert (Hz0 : s_comm (run_from j s' []) = s_comm sB).
  { simpl. fold sB. unfold rollback. rewrite Hwn. reflexivity. }
  rewrite Hz0.
  assert (Hx : xinv3 (mkS3 (mkSst (cspecial_at (s_comm sB)) None false) (soa_of (s_comm sB)) (soa_of (s_comm sB))) sB).
  { destruct Hs as [Hb [Hc1 Hc2] Hw]. constructor; cbn [s3 s3_csoa s3_wsoa].
    - constructor; cbn [ss_comm ss_work ss_fin]; [exact Hb|split; [exact Hc1|intro p; reflexivity]|rewrite Hwn; exact I|exact Hfn].
    - reflexivity.
    - intros w H. rewrite Hwn in H. discriminate. }
  destruct (xinv3_run us j _ sB Hu Hx) as [Hw Hf]. split; [exact Hw|]. intro p. apply Hf.
Qed.

(* ------------------------------------------------------------------ pointwise equality of states is respected *)
Definition sst3_eq (a b : sst3) : Prop := sst_eq (s3 a) (s3 b) /\ s3_csoa a = s3_csoa b /\ s3_wsoa a = s3_wsoa b.

Lemma sstep3_ext a b o : sst3_eq a b -> sst3_eq (sstep3 a o) (sstep3 b o).
Proof.
  intros (H & Hc & Hw). pose proof H as (Hcm & Hwk & Hf).
  assert (D : sst_eq (sstep (s3 a) o) (sstep (s3 b) o)) by (apply sstep_ext; exact H).
  destruct o; cbn [sstep3]; rewrite <- ?Hf, <- ?Hc, <- ?Hw;
    try (split; [exact D|split; reflexivity]).
  - (* OUBatchDel *)
    destruct (ss_fin (s3 a)); [split; [exact H|split; assumption]|].
    destruct (ss_work (s3 a)) as [x|] eqn:Ea, (ss_work (s3 b)) as [y|] eqn:Eb; try contradiction.
    + destruct (soa_match (s3_wsoa a) d).
      * split; [|split; reflexivity]. cbn [s3]. repeat split; cbn [ss_comm ss_work ss_fin]; auto.
      * split; [exact H|split; assumption].
    + split; [exact H|split; assumption].
  - (* OUFin *) split; [exact D|]. split; [|reflexivity].
    destruct (ss_fin (s3 a)); [reflexivity|].
    destruct (ss_work (s3 a)), (ss_work (s3 b)); try contradiction; reflexivity.
  - (* OWCommit *) split; [exact D|]. split; [|reflexivity].
    destruct (ss_work (s3 a)), (ss_work (s3 b)); try contradiction; reflexivity.
Qed.

Lemma fold_sstep3_ext us : forall a b, sst3_eq a b ->
  feq (ss_comm (s3 (fold_left sstep3 us a))) (ss_comm (s3 (fold_left sstep3 us b))).
Proof.
  induction us as [|o us IH]; intros a b H; [exact (proj1 (proj1 H))|]. simpl. apply IH. apply sstep3_ext. exact H.
Qed.

(* ------------------------------------------------------------------ the serial of a zone file, from its records *)
Definition rec_soa (rs : list grec) : option N :=
  match group rs [] rt_soa with
  | Some r => match rs_data r with d :: _ => Some (rd_tok d) | [] => None end
  | None => None
  end.

Lemma zone_file_soa rs : accepted rs = true -> buildable (zf_of_records rs) = true ->
  soa_of (run (map OZRec rs)) = rec_soa rs.
Proof.
  intros Ha Hb. destruct (accepted_records_build rs Ha) as (Hwf & Hok & _).
  rewrite run_zone_file, Hok, Hb. rewrite Hb in Hwf.
  destruct (build_view _ Hwf) as [_ Hv]. specialize (Hv []). unfold build.
  unfold view_of, flat_view, flat_view_g in Hv. simpl in Hv.
  assert (Hi : info_of (fst (zf_build (zf_of_records rs))) = info_at_g (zf_normal (zf_of_records rs)) (zf_of_records rs) []) by congruence.
  unfold soa_of, get_soa, rec_soa. change (n_rrsets (fst (zf_build (zf_of_records rs)))) with (i_rrsets (info_of (fst (zf_build (zf_of_records rs))))).
  rewrite Hi. unfold info_at_g. cbn [i_rrsets]. rewrite <- (grouping rs Ha [] rt_soa). unfold zf_rrset. simpl.
  change soa_type with rt_soa.
  destruct (alookup [] (zf_normal (zf_of_records rs))) as [l|]; [|reflexivity].
  destruct (get_rrset rt_soa l) as [r|]; [|reflexivity]. destruct (rs_data r); reflexivity.
Qed.

(* History (with batches) vs the zone rebuilt from the final records: premises on
   record lists and operations only. *)
Theorem history_vs_rebuilt_records3 rs us rs' :
  accepted rs = true -> buildable (zf_of_records rs) = true -> forallb safe3_op us = true ->
  accepted rs' = true -> buildable (zf_of_records rs') = true ->
  (forall p, rrsets_at (run (map OZRec rs ++ us)) p = rrsets_at (run (map OZRec rs')) p) ->
  (forall p, rec_state rs' p = sp_final3 us (rec_state rs) (rec_soa rs) p) ->
  forall q qt, query (run (map OZRec rs ++ us)) q qt = query (run (map OZRec rs')) q qt.
Proof.
  intros Ha Hb Hu Ha' Hb' HR HS.
  destruct (safe3_history_state (map OZRec rs) us (zone_file_only_map rs) Hu) as [Hw Hc].
  assert (Hst : forall p, cspecial_at (run (map OZRec rs')) p = rec_state rs' p).
  { intro p. rewrite zone_file_state by assumption. apply zf_state_records; assumption. }
  apply same_state_same_answers; auto.
  - apply zone_file_wfu. apply zone_file_only_map.
  - intro p. rewrite Hc, Hst, HS. unfold sp_final3. apply fold_sstep3_ext.
    split; [|split; [apply zone_file_soa; assumption|apply zone_file_soa; assumption]].
    split; [|split; [exact I|reflexivity]]. intro x. cbn [s3 ss_comm].
    rewrite zone_file_state by assumption. apply zf_state_records; assumption.
  - rewrite Hc. specialize (HS []). specialize (Hst []).
    assert (E : sp_final3 us (cspecial_at (run (map OZRec rs))) (soa_of (run (map OZRec rs))) [] = sp_final3 us (rec_state rs) (rec_soa rs) []).
    { unfold sp_final3. apply fold_sstep3_ext.
      split; [|split; [apply zone_file_soa; assumption|apply zone_file_soa; assumption]].
      split; [|split; [exact I|reflexivity]]. intro x. cbn [s3 ss_comm].
      rewrite zone_file_state by assumption. apply zf_state_records; assumption. }
    rewrite E, <- HS. reflexivity.
Qed.

(* non-vacuity: a batch whose SOA matches commits (and survives the dropped rest), one whose SOA does
   not match does not *)
Definition cut_ex3 : zcut := mkCut [lal] (mkRrset rt_ns 300 [tok 9]) None [].
Definition rs_ex3 : list grec := [soa1; mkG [lfoo] T_A 101 (tok 4)].
Definition us_match : list op := [OUNew; OUDelAll; OUBatchAdd 60 (tok 2); OUBatchDel (tok 2); OUAdd (mkG [lb] T_A 101 (tok 5)); OUDrop].
Definition us_mismatch : list op := [OUNew; OUDelAll; OUBatchAdd 60 (tok 2); OUBatchDel (tok 1); OUAdd (mkG [lb] T_A 101 (tok 5)); OUDrop].
Definition us_cut : list op := [OWOpen; OWCut [lal] cut_ex3; OWCommit; OUNew; OUBatchDel (tok 1); OUDelAll; OUDrop].
Example safe3_example :
  forallb safe3_op us_match = true /\ forallb safe3_op us_cut = true /\ forallb ext_safe_op us_match = false /\
  rec_soa rs_ex3 = Some 1 /\
  rrsets_at (run (map OZRec rs_ex3 ++ us_match)) [lfoo] = [] /\
  rrsets_at (run (map OZRec rs_ex3 ++ us_mismatch)) [lfoo] <> [] /\
  sp_final3 us_cut (rec_state rs_ex3) (rec_soa rs_ex3) [lal] = Some (Cut cut_ex3) /\
  cspecial_at (run (map OZRec rs_ex3 ++ us_cut)) [lal] = Some (Cut cut_ex3).
Proof. repeat split; try (vm_compute; reflexivity). vm_compute. discriminate. Qed.
