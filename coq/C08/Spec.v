(* C08 -- the specification side.

   [vspec]: RFC 1034 section 4.3.2 / RFC 4592 lookup in "closest encloser" form
   over a *view* of the zone: a partial map from names to what is known about
   the name (its RRsets, and whether it is a delegation point / an alias).
   Nothing here walks a tree label by label.

   [flat_view]: the view of a zone given as flat content -- RRsets keyed by
   owner name.  A name exists iff it is the apex or a prefix (ancestor-or-self)
   of an owner name: that is the RFC 4592 notion of existence, under which empty
   non-terminals exist.

   [spec zf q t] = the answer the RFCs prescribe for content [zf]. *)
From Coq Require Import NArith List Bool.
From DV Require Import Base.Outcome C08.Gen C08.Model.
Import ListNotations.
Local Open Scope N_scope.

Record ninfo := mkInfo { i_rrsets : list rrset; i_special : option special }.
Definition view := name -> option ninfo.

Definition info_of (n : node) : ninfo := mkInfo (n_rrsets n) (n_special n).
(* the raw view: every node of the tree *)
Definition view_of (z : node) : view := fun p => option_map info_of (node_at z p).

(* the view a reader has: the NXDOMAIN marker of the write interface is not
   looked at, and a node is a name only if it exists (ZoneNode::exists) *)
Definition clean (s : option special) : option special := match s with Some NxDomain => None | _ => s end.
Definition cinfo (n : node) : ninfo := mkInfo (n_rrsets n) (clean (n_special n)).
Definition lview (z : node) : view :=
  fun p => match node_at z p with
           | Some x => if is_apex p || node_exists x then Some (cinfo x) else None
           | None => None
           end.

(* ------------------------------------------------------------------ answers at a name *)
Definition spec_positive (r : rrset) : nanswer := mkNA rc_noerror false true (AData r) None [].
Definition spec_nodata : nanswer := mkNA rc_noerror true true ANoData None [].
Definition spec_nxdomain : nanswer := mkNA rc_nxdomain true true ANoData None [].
Definition spec_alias (c : rr) : nanswer := mkNA rc_noerror false true (ACname c) None [].
(* referral: not authoritative, NS and DS of the delegation point in the
   authority section, glue in the additional section, no SOA *)
Definition spec_referral (c : zcut) : nanswer :=
  mkNA rc_noerror false false ANoData (Some (mkAuth (c_name c) None (Some (c_ns c)) (c_ds c))) (c_glue c).

(* the data of type [qt] at a name; ANY: one of the RRsets present (RFC 8482 4.1) *)
Definition spec_rrsets (rs : list rrset) (qt : rtype) : nanswer :=
  if qt =? rt_any then match rs with r :: _ => spec_positive r | [] => spec_nodata end
  else match get_rrset qt rs with Some r => spec_positive r | None => spec_nodata end.

(* exactly at a delegation point the parent answers DS itself, everything else is a referral *)
Definition spec_at_cut (c : zcut) (qt : rtype) : nanswer :=
  if qt =? rt_ds then match c_ds c with Some r => spec_positive r | None => spec_nodata end
  else spec_referral c.

Definition spec_at (i : ninfo) (qt : rtype) : nanswer :=
  match i_special i with
  | Some (Cut c) => spec_at_cut c qt
  | Some (Cname c) => spec_alias c
  | Some NxDomain => spec_nxdomain           (* never in a flat view *)
  | None => spec_rrsets (i_rrsets i) qt
  end.

(* ------------------------------------------------------------------ prefixes, closest encloser, delegation *)
Fixpoint prefixes (q : name) : list name :=
  [] :: match q with [] => [] | l :: q' => map (cons l) (prefixes q') end.

Fixpoint is_prefix (p q : name) : bool :=
  match p, q with
  | [], _ => true
  | x :: p', y :: q' => (x =? y) && is_prefix p' q'
  | _ :: _, [] => false
  end.

Fixpoint find_map {A B} (f : A -> option B) (l : list A) : option B :=
  match l with [] => None | x :: l' => match f x with Some b => Some b | None => find_map f l' end end.

Definition vexists (V : view) (p : name) : bool := match V p with Some _ => true | None => false end.

Definition cut_of (V : view) (p : name) : option (name * zcut) :=
  match V p with
  | Some i => match i_special i with Some (Cut c) => Some (p, c) | _ => None end
  | None => None
  end.

(* the topmost delegation point among the ancestors-or-self of q (apex included
   in [find_cut0], excluded in [find_cut]) *)
Definition find_cut0 (V : view) (q : name) : option (name * zcut) := find_map (cut_of V) (prefixes q).
Definition find_cut (V : view) (q : name) : option (name * zcut) := find_map (cut_of V) (tl (prefixes q)).

(* the longest existing ancestor-or-self of q *)
Definition closest_encloser (V : view) (q : name) : name := last (filter (vexists V) (prefixes q)) [].

Definition vrest (V : view) (q : name) (qt : rtype) : nanswer :=
  match V q with
  | Some i => spec_at i qt
  | None =>
      (* source of synthesis: `*.<closest encloser>` *)
      match V (closest_encloser V q ++ [wild_label]) with
      | Some i => spec_at i qt
      | None => spec_nxdomain
      end
  end.

Definition vnode (V : view) (q : name) (qt : rtype) : nanswer :=
  match find_cut0 V q with
  | Some (p, c) => if name_eqb p q then spec_at_cut c qt else spec_referral c
  | None => vrest V q qt
  end.

Definition vspec (V : view) (q : name) (qt : rtype) : nanswer :=
  match find_cut V q with
  | Some (p, c) => if name_eqb p q then spec_at_cut c qt else spec_referral c
  | None => vrest V q qt
  end.

(* ------------------------------------------------------------------ flat content *)
(* zone content: RRsets keyed by owner -- ordinary RRsets, delegation points
   (NS, optional DS), aliases (one CNAME).  This is parsed::Zonefile's shape. *)
Definition owners (zf : zonefile) : list name :=
  map fst (zf_normal zf) ++ map fst (zf_cuts zf) ++ map fst (zf_cnames zf).

Definition exists_name (zf : zonefile) (p : name) : bool :=
  is_apex p || existsb (is_prefix p) (owners zf).

(* [G]: the ordinary RRsets in which glue addresses are looked up (the zone's own) *)
Definition cut_at_g (G : list (name * list rrset)) (zf : zonefile) (p : name) : option zcut :=
  match alookup p (zf_cuts zf) with
  | Some (Some ns, ds) => Some (mkCut p ns ds (glue_for G ns))
  | _ => None
  end.

Definition info_at_g G (zf : zonefile) (p : name) : ninfo :=
  mkInfo (match alookup p (zf_normal zf) with Some rs => rs | None => [] end)
         (match cut_at_g G zf p with
          | Some c => Some (Cut c)
          | None => match alookup p (zf_cnames zf) with Some c => Some (Cname c) | None => None end
          end).

Definition flat_view_g G (zf : zonefile) : view :=
  fun p => if exists_name zf p then Some (info_at_g G zf p) else None.

Definition flat_view (zf : zonefile) : view := flat_view_g (zf_normal zf) zf.

(* SOA of the zone into the authority section of negative answers *)
Definition soa_of (zf : zonefile) : option rr :=
  match alookup [] (zf_normal zf) with
  | Some rs => match get_rrset rt_soa rs with
               | Some r => match rs_data r with d :: _ => Some (mkRr (rs_ttl r) d) | [] => None end
               | None => None end
  | None => None
  end.

Definition finish (soa : option rr) (a : nanswer) : answer :=
  mkAnswer (na_rcode a) (na_auth_flag a) (na_content a)
           (if na_add_soa a then match soa with Some s => Some (mkAuth [] (Some s) None None) | None => na_auth a end
            else na_auth a)
           (na_addl a).

Definition spec (zf : zonefile) (q : name) (qt : rtype) : answer :=
  finish (soa_of zf) (vspec (flat_view zf) q qt).

(* ------------------------------------------------------------------ well-formed content *)
Definition nodupb (l : list name) : bool :=
  (fix go (l : list name) : bool :=
     match l with [] => true | x :: l' => negb (existsb (name_eqb x) l') && go l' end) l.
Fixpoint nodup_types (l : list rrset) : bool :=
  match l with [] => true | r :: l' => negb (existsb (fun x => rs_type x =? rs_type r) l') && nodup_types l' end.

Definition wf_zone (zf : zonefile) : bool :=
  nodupb (map fst (zf_normal zf)) && nodupb (map fst (zf_cuts zf)) && nodupb (map fst (zf_cnames zf))
  && forallb (fun e => nodup_types (snd e) && negb (rrsets_is_empty (snd e)) && forallb (fun r => match rs_data r with [] => false | _ => true end) (snd e)) (zf_normal zf)
  && forallb (fun e => negb (is_apex (fst e)) && match fst (snd e) with Some _ => true | None => false end) (zf_cuts zf)
  && forallb (fun e => negb (is_apex (fst e)) && negb (existsb (name_eqb (fst e)) (map fst (zf_cuts zf)))) (zf_cnames zf).
