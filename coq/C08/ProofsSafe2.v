(* C08 -- the delegation / alias state of a zone after an update history,
   computed from the operations alone.  Beyond the RRset-level operations of
   ProofsSafe this covers the operations that do change the state:
   DeleteAllRecords and remove_all (state cleared at and below the node),
   make_zone_cut / make_cname (state set at the node), make_regular (state
   cleared at the node), with commit, Finished and rollback. *)
From Coq Require Import NArith List Bool Lia.
From DV Require Import Base.Outcome C08.Gen C08.Model C08.Spec C08.ProofsQuery C08.ProofsBuild C08.ProofsHist
  C08.ProofsPlain C08.ProofsSafe.
Import ListNotations.
Local Open Scope N_scope.

(* ------------------------------------------------------------------ writes through a path, in general *)
Section WithPath.
Variable mk : node -> node.
Hypothesis mk_clean : clean (n_special (mk empty_node)) = None.
Hypothesis mk_leaf : n_children (mk empty_node) = [].

Definition base_mk (o : option node) : node := match o with Some x => x | None => mk empty_node end.

Lemma cspecial_mk_empty r : cspecial_at (mk empty_node) r = None.
Proof. unfold cspecial_at. destruct r; simpl; [exact mk_clean|rewrite mk_leaf; reflexivity]. Qed.

Lemma cspecial_base n p r : cspecial_at (base_mk (node_at n p)) r = cspecial_at n (p ++ r).
Proof.
  unfold cspecial_at at 2. rewrite node_at_app. destruct (node_at n p); simpl; [reflexivity|apply cspecial_mk_empty].
Qed.

Lemma cspecial_cons n l r :
  cspecial_at n (l :: r) = match find_child l (n_children n) with Some c => cspecial_at c r | None => None end.
Proof. unfold cspecial_at. simpl. destruct (find_child l (n_children n)); reflexivity. Qed.

Lemma with_path_cons f l p rs s cs :
  with_path mk (l :: p) f (Node rs s cs) =
  Node rs s (upsert_child l (fun created c => with_path mk p f (if created then mk c else c)) cs).
Proof. reflexivity. Qed.

(* names that are not at or below the target keep their state *)
Lemma with_path_off f : forall p n p', is_prefix p p' = false ->
  cspecial_at (with_path mk p f n) p' = cspecial_at n p'.
Proof.
  induction p as [|l p IH]; intros n p' H; [discriminate|].
  destruct n as [r s cs]. rewrite with_path_cons. destruct p' as [|l' r']; [reflexivity|].
  rewrite !cspecial_cons. cbn [n_children]. rewrite find_upsert.
  simpl in H. destruct (l =? l') eqn:El.
  - apply N.eqb_eq in El. subst l'. rewrite N.eqb_refl. simpl in H.
    destruct (find_child l cs) as [c|].
    + exact (IH c r' H).
    + rewrite IH by exact H. apply cspecial_mk_empty.
  - rewrite N.eqb_sym, El. reflexivity.
Qed.

(* at and below the target: the state of the rewritten node *)
Lemma with_path_on f : forall p n r,
  cspecial_at (with_path mk p f n) (p ++ r) = cspecial_at (f (base_mk (node_at n p))) r.
Proof.
  induction p as [|l p IH]; intros n r; [reflexivity|].
  destruct n as [rs s cs]. rewrite with_path_cons. cbn [app]. rewrite cspecial_cons. cbn [n_children].
  rewrite find_upsert, N.eqb_refl. cbn [node_at n_children].
  destruct (find_child l cs) as [c|] eqn:Ec.
  - rewrite IH. reflexivity.
  - rewrite IH.
    assert (E : base_mk (node_at (mk empty_node) p) = mk empty_node).
    { destruct p as [|x p]; [reflexivity|]. simpl. rewrite mk_leaf. reflexivity. }
    rewrite E. reflexivity.
Qed.
End WithPath.

Lemma regular_clean : clean (n_special (make_regular_node empty_node)) = None. Proof. reflexivity. Qed.
Lemma regular_leaf : n_children (make_regular_node empty_node) = []. Proof. reflexivity. Qed.

(* setting the special of a node *)
Lemma w_set_special_state p f s' z :
  keeps_children f -> (forall x, clean (n_special (f x)) = s') ->
  forall p', cspecial_at (w_node p f z) p' = if name_eqb p' p then s' else cspecial_at z p'.
Proof.
  intros Hc Hs p'. unfold w_node.
  destruct (is_prefix p p') eqn:E.
  - destruct (is_prefix_app _ _ E) as [r Hr]. subst p'.
    rewrite (with_path_on make_regular_node regular_leaf).
    destruct r as [|x r].
    + rewrite app_nil_r, name_eqb_refl. unfold cspecial_at. simpl. apply Hs.
    + assert (Hne : name_eqb (p ++ x :: r) p = false).
      { clear. induction p; simpl; [reflexivity|]. rewrite N.eqb_refl. exact IHp. }
      rewrite Hne. unfold cspecial_at at 1. cbn [node_at]. rewrite Hc.
      change (cspecial_at (base_mk make_regular_node (node_at z p)) (x :: r) = cspecial_at z (p ++ x :: r)).
      apply (cspecial_base make_regular_node regular_clean regular_leaf).
  - rewrite (with_path_off make_regular_node regular_clean regular_leaf) by exact E.
    destruct (name_eqb p' p) eqn:E2; [|reflexivity].
    apply name_eqb_eq in E2. subst. rewrite is_prefix_refl in E. discriminate.
Qed.

(* remove_all: nothing special at or below the node any more *)
Lemma remove_all_find l cs :
  find_child l ((fix go (cs : list (label * node)) : list (label * node) :=
                   match cs with [] => [] | (l, c) :: cs' => (l, remove_all_node c) :: go cs' end) cs)
  = option_map remove_all_node (find_child l cs).
Proof. induction cs as [|[k c] cs IH]; simpl; [reflexivity|]. destruct (k =? l); [reflexivity|exact IH]. Qed.

Lemma remove_all_clean : forall r x, cspecial_at (remove_all_node x) r = None.
Proof.
  induction r as [|l r IH]; intros [rs s cs]; [reflexivity|].
  unfold cspecial_at. cbn [remove_all_node node_at n_children]. rewrite remove_all_find.
  destruct (find_child l cs) as [c|]; simpl; [apply IH|reflexivity].
Qed.

Lemma w_remove_all_state p z :
  forall p', cspecial_at (w_remove_all p z) p' = if is_prefix p p' then None else cspecial_at z p'.
Proof.
  intro p'. unfold w_remove_all, w_node. destruct (is_prefix p p') eqn:E.
  - destruct (is_prefix_app _ _ E) as [r Hr]. subst p'.
    rewrite (with_path_on make_regular_node regular_leaf). apply remove_all_clean.
  - apply (with_path_off make_regular_node regular_clean regular_leaf). exact E.
Qed.

Lemma wfu_remove_all : forall x, wfu x -> wfu (remove_all_node x).
Proof.
  apply (node_ind' (fun x => wfu x -> wfu (remove_all_node x))).
  intros r s cs IH H. apply wfu_unfold in H. destruct H as (Hnd & Hall).
  assert (E : remove_all_node (Node r s cs) = Node [] None (map (fun lc => (fst lc, remove_all_node (snd lc))) cs)).
  { simpl. f_equal. clear. induction cs as [|[l c] cs IHc]; simpl; auto. f_equal. apply IHc. }
  rewrite E. apply wfu_unfold. split.
  - rewrite map_map. simpl. exact Hnd.
  - rewrite Forall_forall in *. intros lc Hin. apply in_map_iff in Hin. destruct Hin as (lc0 & Hlc & Hin0). subst lc. simpl.
    apply (IH _ Hin0). apply (Hall _ Hin0).
Qed.

Lemma w_node_wfu p f z : (forall x, wfu x -> wfu (f x)) -> wfu z -> wfu (w_node p f z).
Proof.
  intros Hf Hz. apply with_path_wfu; auto. intros x Hx. apply kc_wfu; auto.
  intro y. unfold make_regular_node. rewrite kc_check. apply kc_set_special.
Qed.

(* ------------------------------------------------------------------ the state machine on delegation / alias states *)
Definition sfun := name -> option special.
Definition feq (f g : sfun) : Prop := forall p, f p = g p.

Record sst := mkSst { ss_comm : sfun; ss_work : option sfun; ss_fin : bool }.

Definition ss_on (t : sfun -> sfun) (st : sst) : sst :=
  match ss_work st with Some g => mkSst (ss_comm st) (Some (t g)) (ss_fin st) | None => st end.
Definition ss_commit (st : sst) : sst :=
  match ss_work st with Some g => mkSst g None (ss_fin st) | None => st end.
Definition ss_drop (st : sst) : sst := mkSst (ss_comm st) None (ss_fin st).

Definition sp_set (p : name) (s : option special) (f : sfun) : sfun := fun p' => if name_eqb p' p then s else f p'.
Definition sp_clear_below (p : name) (f : sfun) : sfun := fun p' => if is_prefix p p' then None else f p'.

(* what each operation does to the delegation / alias state *)
Definition sstep (st : sst) (o : op) : sst :=
  match o with
  | OUNew => mkSst (ss_comm st) (Some (ss_comm st)) false
  | OWOpen => mkSst (ss_comm st) (Some (ss_comm st)) (ss_fin st)
  | OUDelAll => if ss_fin st then st else ss_on (sp_clear_below []) st
  | OUFin _ _ => if ss_fin st then st else mkSst (ss_comm (ss_commit st)) None true
  | OUDrop => mkSst (ss_comm st) None false
  | OWDrop => ss_drop st
  | OWCommit => ss_commit st
  | OWCut p c => if is_apex p then st else ss_on (sp_set p (Some (Cut c))) st
  | OWCname p c => if is_apex p then st else ss_on (sp_set p (Some (Cname c))) st
  | OWRegular p => if is_apex p then st else ss_on (sp_set p None) st
  | OWRemoveAll p => ss_on (sp_clear_below p) st
  | _ => st     (* RRset-level operations *)
  end.

Definition ext_safe_op (o : op) : bool :=
  match o with
  | OUBatchDel _ => false          (* whether it commits depends on the zone's SOA *)
  | OUDelAll | OWCut _ _ | OWCname _ _ | OWRegular _ | OWRemoveAll _ => true
  | _ => safe_op o
  end.

Definition sp_final (us : list op) (f0 : sfun) : sfun := ss_comm (fold_left sstep us (mkSst f0 None false)).

(* the concrete state agrees with the abstract one *)
Record xinv (st : sst) (s : state) : Prop := mkXinv {
  xi_built : s_built s = true;
  xi_comm : wfu (s_comm s) /\ feq (cspecial_at (s_comm s)) (ss_comm st);
  xi_work : match s_work s, ss_work st with
            | Some w, Some g => wfu w /\ feq (cspecial_at w) g
            | None, None => True
            | _, _ => False
            end;
  xi_fin : s_fin s = ss_fin st }.

Lemma xinv_on (t : sfun -> sfun) f st s :
  (forall z g, wfu z -> feq (cspecial_at z) g -> wfu (f z) /\ feq (cspecial_at (f z)) (t g)) ->
  xinv st s -> xinv (ss_on t st) (on_work f s).
Proof.
  intros Hf [Hb Hc Hw Hfin]. unfold ss_on, on_work.
  destruct (s_work s) as [w|] eqn:Ew, (ss_work st) as [g|] eqn:Eg; try contradiction.
  - constructor; simpl; auto. destruct Hw as [H1 H2]. apply Hf; assumption.
  - constructor; simpl; auto. rewrite Ew, Eg. exact I.
Qed.

Lemma xinv_same f st s :
  (forall z, same_state z (f z)) -> xinv st s -> xinv st (on_work f s).
Proof.
  intros Hf Hx. replace st with (ss_on (fun g => g) st).
  - apply xinv_on; auto. intros z g Hz Hg. destruct (Hf z) as [H1 H2]. split; [auto|]. intro p. rewrite H2. apply Hg.
  - unfold ss_on. destruct st as [c [w|] fi]; reflexivity.
Qed.

Lemma xinv_commit b st s : b = false -> xinv st s -> xinv (ss_commit st) (commit b s).
Proof.
  intros Hb0 [Hb Hc Hw Hfin]. subst b. unfold ss_commit, commit.
  destruct (s_work s) as [w|] eqn:Ew, (ss_work st) as [g|] eqn:Eg; try contradiction.
  - constructor; simpl; auto.
  - constructor; simpl; auto. rewrite Ew, Eg. exact I.
Qed.

Lemma xinv_rollback st s : xinv st s -> xinv (ss_drop st) (rollback s).
Proof.
  intros [Hb [Hc1 Hc2] Hw Hfin]. unfold ss_drop, rollback.
  destruct (s_work s) as [w|] eqn:Ew.
  - constructor; simpl; auto. destruct (graft_state w (s_comm s)) as [H1 H2]. split; [auto|]. intro p. rewrite H2. apply Hc2.
  - constructor; simpl; auto. rewrite Ew. exact I.
Qed.

Lemma xinv_err i e st s : xinv st s -> xinv st (add_err i e s).
Proof. intros [Hb Hc Hw Hfin]. constructor; simpl; auto. Qed.

Lemma xinv_open st s : xinv st s -> xinv (mkSst (ss_comm st) (Some (ss_comm st)) (ss_fin st)) (set_work (Some (s_comm s)) s).
Proof. intros [Hb Hc Hw Hfin]. constructor; simpl; auto. Qed.

Lemma xinv_setfin b st s : xinv st s -> xinv (mkSst (ss_comm st) (ss_work st) b) (set_fin b s).
Proof. intros [Hb Hc Hw Hfin]. constructor; simpl; auto. Qed.

Lemma xinv_step i st s o : ext_safe_op o = true -> xinv st s -> xinv (sstep st o) (step i s o).
Proof.
  intros Ho Hx. unfold step.
  assert (E : (if is_history o then finish_build i s else s) = s).
  { destruct (is_history o); [apply finish_built; apply (xi_built _ _ Hx)|reflexivity]. }
  rewrite E. pose proof (xi_fin _ _ Hx) as Hfin.
  destruct o; simpl in Ho; try discriminate; cbn [sstep].
  - (* OUNew *) apply (xinv_setfin false _ _ (xinv_open _ _ Hx)).
  - (* OUAdd *) rewrite Hfin. destruct (ss_fin st); [apply xinv_err; exact Hx|]. apply xinv_same; auto. intro z. apply u_add_state.
  - (* OUDel *) rewrite Hfin. destruct (ss_fin st); [apply xinv_err; exact Hx|]. apply xinv_same; auto. intro z. apply u_del_state.
  - (* OUDelAll *) rewrite Hfin. destruct (ss_fin st); [apply xinv_err; exact Hx|].
    apply xinv_on; auto. intros z g Hz Hg. split.
    + unfold w_remove_all. apply w_node_wfu; auto. apply wfu_remove_all.
    + intro p. rewrite w_remove_all_state. unfold sp_clear_below. destruct (is_prefix [] p); [reflexivity|apply Hg].
  - (* OUBatchAdd *) rewrite Hfin. destruct (ss_fin st); [apply xinv_err; exact Hx|]. apply xinv_same; auto. intro z. apply u_soa_state.
  - (* OUFin *) rewrite Hfin. destruct (ss_fin st) eqn:Ef; [apply xinv_err; exact Hx|].
    assert (H1 : xinv (ss_commit st) (commit false (on_work (u_soa ttl d) s))).
    { apply xinv_commit; auto. apply xinv_same; auto. intro z. apply u_soa_state. }
    pose proof (xinv_setfin true _ _ H1) as H2.
    assert (Hw : ss_work (ss_commit st) = None) by (unfold ss_commit; destruct (ss_work st) eqn:Ew; simpl; auto).
    rewrite Hw in H2. exact H2.
  - (* OUDrop *) apply (xinv_setfin false _ _ (xinv_rollback _ _ Hx)).
  - (* OWOpen *) apply xinv_open. exact Hx.
  - (* OWRr *) apply xinv_same; auto. intro z. destruct (u_ops_state z) as [H _]. apply H.
  - (* OWRm *) apply xinv_same; auto. intro z. destruct (u_ops_state z) as [_ H]. apply H.
  - (* OWCut *)
    destruct (is_apex p) eqn:Ea.
    + unfold w_make_zone_cut. rewrite Ea. destruct (s_work s); [apply xinv_err; exact Hx|exact Hx].
    + assert (Hx' : xinv (ss_on (sp_set p (Some (Cut c))) st) (on_work (w_node p (set_special (Some (Cut c)))) s)).
      { apply xinv_on; auto. intros z g Hz Hg. split.
        - apply w_node_wfu; auto. intros x Hx0. apply kc_wfu; auto. apply kc_set_special.
        - intro p'. rewrite (w_set_special_state p _ (Some (Cut c))); [|apply kc_set_special|intros [r s0 cs]; reflexivity].
          unfold sp_set. destruct (name_eqb p' p); [reflexivity|apply Hg]. }
      unfold on_work in Hx'. unfold w_make_zone_cut. rewrite Ea. destruct (s_work s); exact Hx'.
  - (* OWCname *)
    destruct (is_apex p) eqn:Ea.
    + unfold w_make_cname. rewrite Ea. destruct (s_work s); [apply xinv_err; exact Hx|exact Hx].
    + assert (Hx' : xinv (ss_on (sp_set p (Some (Cname c))) st) (on_work (w_node p (set_special (Some (Cname c)))) s)).
      { apply xinv_on; auto. intros z g Hz Hg. split.
        - apply w_node_wfu; auto. intros x Hx0. apply kc_wfu; auto. apply kc_set_special.
        - intro p'. rewrite (w_set_special_state p _ (Some (Cname c))); [|apply kc_set_special|intros [r s0 cs]; reflexivity].
          unfold sp_set. destruct (name_eqb p' p); [reflexivity|apply Hg]. }
      unfold on_work in Hx'. unfold w_make_cname. rewrite Ea. destruct (s_work s); exact Hx'.
  - (* OWRegular *)
    destruct (is_apex p) eqn:Ea.
    + apply xinv_same; auto. intro z. unfold w_make_regular. rewrite Ea. apply touch_state.
    + apply xinv_on; auto. intros z g Hz Hg. unfold w_make_regular. rewrite Ea. split.
      * apply w_node_wfu; auto. intros x Hx0. apply kc_wfu; auto.
        intro y. unfold make_regular_node. rewrite kc_check. apply kc_set_special.
      * intro p'. rewrite (w_set_special_state p _ None).
        -- unfold sp_set. destruct (name_eqb p' p); [reflexivity|apply Hg].
        -- intro y. unfold make_regular_node. rewrite kc_check. apply kc_set_special.
        -- intro x. unfold make_regular_node. rewrite ks_check. destruct x as [r s0 cs]. reflexivity.
  - (* OWRemoveAll *)
    apply xinv_on; auto. intros z g Hz Hg. split.
    + unfold w_remove_all. apply w_node_wfu; auto. apply wfu_remove_all.
    + intro p'. rewrite w_remove_all_state. unfold sp_clear_below. destruct (is_prefix p p'); [reflexivity|apply Hg].
  - (* OWCommit *) apply xinv_commit; auto.
  - (* OWDrop *) apply xinv_rollback. exact Hx.
Qed.

Lemma xinv_run : forall us i st s, forallb ext_safe_op us = true -> xinv st s ->
  wfu (s_comm (run_from i s us)) /\ feq (cspecial_at (s_comm (run_from i s us))) (ss_comm (fold_left sstep us st)).
Proof.
  induction us as [|o us IH]; intros i st s Hu Hx; simpl.
  - rewrite finish_built by (apply (xi_built _ _ Hx)).
    destruct (xinv_rollback _ _ Hx) as [_ Hc _ _]. exact Hc.
  - simpl in Hu. apply andb_true_iff in Hu. destruct Hu as [Ho Hu]. apply IH; auto. apply xinv_step; auto.
Qed.

Lemma ext_safe_is_history o : ext_safe_op o = true -> is_history o = true.
Proof. destruct o; simpl; auto; discriminate. Qed.

Lemma run_from_finish' us i s : forallb ext_safe_op us = true -> run_from i (finish_build i s) us = run_from i s us.
Proof.
  destruct us as [|o us]; intro H; simpl.
  - rewrite finish_idem. reflexivity.
  - simpl in H. apply andb_true_iff in H. destruct H as [Ho _]. rewrite step_history_finish by (apply ext_safe_is_history; exact Ho). reflexivity.
Qed.

(* the abstract machine respects pointwise equality of states *)
Definition sst_eq (a b : sst) : Prop :=
  feq (ss_comm a) (ss_comm b) /\
  match ss_work a, ss_work b with Some x, Some y => feq x y | None, None => True | _, _ => False end /\
  ss_fin a = ss_fin b.

Lemma ss_on_ext t a b : (forall f g, feq f g -> feq (t f) (t g)) -> sst_eq a b -> sst_eq (ss_on t a) (ss_on t b).
Proof.
  intros Ht (Hc & Hw & Hf). unfold ss_on. destruct (ss_work a) as [x|] eqn:Ea, (ss_work b) as [y|] eqn:Eb; try contradiction.
  - repeat split; simpl; auto.
  - repeat split; simpl; auto. rewrite Ea, Eb. exact I.
Qed.
Lemma ss_commit_ext a b : sst_eq a b -> sst_eq (ss_commit a) (ss_commit b).
Proof.
  intros (Hc & Hw & Hf). unfold ss_commit. destruct (ss_work a) as [x|] eqn:Ea, (ss_work b) as [y|] eqn:Eb; try contradiction.
  - repeat split; simpl; auto.
  - repeat split; simpl; auto. rewrite Ea, Eb. exact I.
Qed.
Lemma ss_mk_ext a b (w : bool) : sst_eq a b -> forall fi, sst_eq (mkSst (ss_comm a) (if w then Some (ss_comm a) else None) fi) (mkSst (ss_comm b) (if w then Some (ss_comm b) else None) fi).
Proof. intros (Hc & Hw & Hf) fi. destruct w; repeat split; simpl; auto. Qed.
Lemma sp_set_ext p s f g : feq f g -> feq (sp_set p s f) (sp_set p s g).
Proof. intros H q. unfold sp_set. destruct (name_eqb q p); auto. Qed.
Lemma sp_clear_ext p f g : feq f g -> feq (sp_clear_below p f) (sp_clear_below p g).
Proof. intros H q. unfold sp_clear_below. destruct (is_prefix p q); auto. Qed.

Lemma sstep_ext a b o : sst_eq a b -> sst_eq (sstep a o) (sstep b o).
Proof.
  intro H. pose proof H as (Hc & Hw & Hf).
  destruct o; cbn [sstep]; try exact H.
  - exact (ss_mk_ext a b true H false).
  - rewrite <- Hf. destruct (ss_fin a); [exact H|]. apply ss_on_ext; auto. intros f g. apply sp_clear_ext.
  - rewrite <- Hf. destruct (ss_fin a); [exact H|].
    pose proof (ss_commit_ext a b H) as (Hc' & _ & _). repeat split; simpl; auto.
  - exact (ss_mk_ext a b false H false).
  - rewrite <- Hf. exact (ss_mk_ext a b true H (ss_fin a)).
  - destruct (is_apex p); [exact H|]. apply ss_on_ext; auto. intros f g. apply sp_set_ext.
  - destruct (is_apex p); [exact H|]. apply ss_on_ext; auto. intros f g. apply sp_set_ext.
  - destruct (is_apex p); [exact H|]. apply ss_on_ext; auto. intros f g. apply sp_set_ext.
  - apply ss_on_ext; auto. intros f g. apply sp_clear_ext.
  - apply ss_commit_ext. exact H.
  - unfold ss_drop. rewrite <- Hf. exact (ss_mk_ext a b false H (ss_fin a)).
Qed.

Lemma fold_sstep_ext us : forall a b, sst_eq a b -> feq (ss_comm (fold_left sstep us a)) (ss_comm (fold_left sstep us b)).
Proof.
  induction us as [|o us IH]; intros a b H; [exact (proj1 H)|]. simpl. apply IH. apply sstep_ext. exact H.
Qed.

(* The delegation / alias state after the history is the state the zone file
   built, transformed by the operations -- computed without looking at the tree. *)
Theorem ext_safe_history_state zs us : zone_file_only zs = true -> forallb ext_safe_op us = true ->
  wfu (run (zs ++ us)) /\ forall p, cspecial_at (run (zs ++ us)) p = sp_final us (cspecial_at (run zs)) p.
Proof.
  intros Hz Hu. unfold run, run_ops.
  destruct (run_zs zs 0 init_state Hz prebuilt_init) as (j & s' & Hp & Hr).
  rewrite (Hr us). pose proof (Hr []) as H0. rewrite app_nil_r in H0. rewrite H0.
  rewrite <- (run_from_finish' us j s' Hu). rewrite <- (run_from_finish [] j s' eq_refl).
  pose proof (sinv_finish j s' Hp) as Hs. set (sB := finish_build j s') in *.
  destruct (sinv_run _ [] j sB eq_refl Hs) as [_ [Hd1 Hd2] _].
  assert (Hx : xinv (mkSst (cspecial_at (s_comm sB)) None false) sB).
  { assert (Hwn : s_work sB = None /\ s_fin sB = false).
    { unfold sB, finish_build. destruct Hp as [Hpb Hpw _]. rewrite Hpb.
      destruct (s_zf s'); [destruct (zf_build z); destruct b|]; simpl; auto. }
    destruct Hwn as [Hwn Hfn]. destruct Hs as [Hb [Hc1 Hc2] Hw]. constructor; cbn [ss_comm ss_work ss_fin].
    - exact Hb.
    - split; [exact Hc1|intro p; reflexivity].
    - rewrite Hwn. exact I.
    - exact Hfn. }
  destruct (xinv_run us j _ sB Hu Hx) as [Hw Hf]. split; [exact Hw|].
  intro p. rewrite Hf. unfold sp_final.
  apply fold_sstep_ext. split; [intro q; symmetry; apply Hd2|]. split; [exact I|reflexivity].
Qed.

(* ------------------------------------------------------------------ the state a zone file builds, from its records *)
From DV Require Import C08.ProofsGroup.

Definition zf_of_state (s : state) : zonefile := match s_zf s with Some zf => zf | None => zf_empty end.

Lemma zf_insert_total g zf : (exists zf', zf_insert g zf = Ok zf') \/ (exists e, zf_insert g zf = Err e).
Proof.
  unfold zf_insert.
  repeat match goal with
         | |- context [if ?b then _ else _] => destruct b
         | |- context [match alookup ?k ?l with _ => _ end] => destruct (alookup k l)
         | |- context [match (if ?b then _ else _) with _ => _ end] => destruct b
         end; eauto.
Qed.

Lemma run_zrecs_state : forall rs i s, s_built s = false -> s_work s = None -> s_builder s = empty_node ->
  s_comm (run_from i s (map OZRec rs)) =
  (let zf := fold_left (fun zf g => match zf_insert g zf with Ok zf' => zf' | _ => zf end) rs (zf_of_state s) in
   match rs, s_zf s with
   | [], None => empty_node
   | _, _ => if snd (zf_build zf) then fst (zf_build zf) else empty_node
   end).
Proof.
  induction rs as [|g rs IH]; intros i s Hb Hw Hbu.
  - simpl. unfold finish_build, zf_of_state. rewrite Hb. destruct (s_zf s) as [zf|].
    + destruct (zf_build zf) as [z ok]. destruct ok; unfold rollback; simpl; [reflexivity|exact Hbu].
    + unfold rollback. simpl. exact Hbu.
  - cbn [map run_from]. rewrite IH.
    + assert (Ez : s_zf (step i s (OZRec g)) = Some (match zf_insert g (zf_of_state s) with Ok zf' => zf' | _ => zf_of_state s end)).
      { unfold step, zf_of_state. cbn [is_history]. destruct (zf_insert_total g (match s_zf s with Some zf => zf | None => zf_empty end)) as [[zf' E]|[e E]]; rewrite E; reflexivity. }
      unfold zf_of_state at 1. rewrite Ez. cbn [fold_left].
      destruct rs; reflexivity.
    + unfold step. cbn [is_history]. destruct (zf_insert_total g (match s_zf s with Some zf => zf | None => zf_empty end)) as [[zf' E]|[e E]]; rewrite E; simpl; auto.
    + unfold step. cbn [is_history]. destruct (zf_insert_total g (match s_zf s with Some zf => zf | None => zf_empty end)) as [[zf' E]|[e E]]; rewrite E; simpl; auto.
    + unfold step. cbn [is_history]. destruct (zf_insert_total g (match s_zf s with Some zf => zf | None => zf_empty end)) as [[zf' E]|[e E]]; rewrite E; simpl; auto.
Qed.

Lemma run_zone_file rs : run (map OZRec rs) = if snd (zf_build (zf_of_records rs)) then build rs else empty_node.
Proof.
  unfold run, run_ops. rewrite run_zrecs_state by reflexivity. unfold build, zf_of_records, zf_of_state. simpl.
  destruct rs; reflexivity.
Qed.

(* delegation / alias state of a zone file, read off its (grouped) records *)
Definition zf_state (zf : zonefile) : sfun := fun p => i_special (info_at_g (zf_normal zf) zf p).

Theorem zone_file_state rs : accepted rs = true -> buildable (zf_of_records rs) = true ->
  forall p, cspecial_at (run (map OZRec rs)) p = zf_state (zf_of_records rs) p.
Proof.
  intros Ha Hb p. destruct (accepted_records_build rs Ha) as (Hwf & Hok & _).
  rewrite run_zone_file, Hok, Hb. rewrite Hb in Hwf.
  destruct (build_view _ Hwf) as [_ Hv]. specialize (Hv p). unfold build.
  unfold view_of, flat_view, flat_view_g in Hv. unfold cspecial_at, zf_state.
  destruct (node_at (fst (zf_build (zf_of_records rs))) p) as [x|]; simpl in Hv.
  - destruct (exists_name (zf_of_records rs) p); [|discriminate].
    assert (Hi : info_of x = info_at_g (zf_normal (zf_of_records rs)) (zf_of_records rs) p) by congruence.
    rewrite <- Hi. simpl. destruct (n_special x) as [[c|c|]|] eqn:Es; try reflexivity.
    exfalso. apply (flat_special_not_marker (zf_normal (zf_of_records rs)) (zf_of_records rs) p). rewrite <- Hi. exact Es.
  - destruct (exists_name (zf_of_records rs) p) eqn:Ee; [discriminate|].
    rewrite (info_not_exists _ _ _ Ee). reflexivity.
Qed.

Lemma zone_file_only_map rs : zone_file_only (map OZRec rs) = true.
Proof. induction rs; simpl; auto. Qed.

(* History independence with delegations, premises on content only: a zone
   file (record list [rs]) followed by operations that may replace everything,
   cut, alias, clear -- answers like any tree with unique labels that has the
   same RRsets and the delegation / alias state the operations prescribe. *)
Theorem ext_safe_history_independent rs us t :
  accepted rs = true -> buildable (zf_of_records rs) = true -> forallb ext_safe_op us = true ->
  wfu t -> (forall p, rrsets_at (run (map OZRec rs ++ us)) p = rrsets_at t p) ->
  (forall p, cspecial_at t p = sp_final us (zf_state (zf_of_records rs)) p) ->
  cspecial_at t [] = None ->
  forall q qt, query (run (map OZRec rs ++ us)) q qt = query t q qt.
Proof.
  intros Ha Hb Hu Ht HR HS H0.
  destruct (ext_safe_history_state (map OZRec rs) us (zone_file_only_map rs) Hu) as [Hw Hc].
  assert (HS' : forall p, cspecial_at (run (map OZRec rs ++ us)) p = cspecial_at t p).
  { intro p. rewrite Hc, HS. unfold sp_final. apply fold_sstep_ext.
    split; [intro x; apply zone_file_state; assumption|]. split; [exact I|reflexivity]. }
  apply same_state_same_answers; auto. rewrite HS'. exact H0.
Qed.

(* non-vacuity: replace everything, re-add, cut through the write interface *)
Definition rs_ex2 : list grec := [soa1; mkG [lsub] rt_ns 300 (mkRd 0 (Some [lsub; lns])); mkG [lsub; lns] T_A 77 (tok 7); mkG [lfoo] T_A 101 (tok 4)].
Definition cut_ex2 : zcut := mkCut [lal] (mkRrset rt_ns 300 [tok 9]) None [].
Definition us_ex2 : list op :=
  [OUNew; OUDelAll; OUAdd (mkG [lfoo] T_A 101 (tok 4)); OUFin 60 (tok 2); OWOpen; OWCut [lal] cut_ex2; OWRemoveAll [lfoo]; OWCommit].
Example ext_safe_example :
  accepted rs_ex2 = true /\ buildable (zf_of_records rs_ex2) = true /\ forallb ext_safe_op us_ex2 = true /\
  sp_final us_ex2 (zf_state (zf_of_records rs_ex2)) [lsub] = None /\
  sp_final us_ex2 (zf_state (zf_of_records rs_ex2)) [lal] = Some (Cut cut_ex2) /\
  cspecial_at (run (map OZRec rs_ex2 ++ us_ex2)) [lal] = Some (Cut cut_ex2) /\
  cspecial_at (run (map OZRec rs_ex2 ++ us_ex2)) [lsub] = None /\
  zf_state (zf_of_records rs_ex2) [lsub] <> None.
Proof. repeat split; try (vm_compute; reflexivity). vm_compute. discriminate. Qed.

(* Against the zone rebuilt from the final records [rs']: every premise is about
   record lists / their grouped tables, none about trees.  The last premise says
   that the delegations (NS, DS, glue in table order) and aliases of [rs'] are
   what the operations make of those of [rs]. *)
Theorem history_vs_rebuilt rs us rs' :
  accepted rs = true -> buildable (zf_of_records rs) = true -> forallb ext_safe_op us = true ->
  accepted rs' = true -> buildable (zf_of_records rs') = true ->
  (forall p, rrsets_at (run (map OZRec rs ++ us)) p = rrsets_at (run (map OZRec rs')) p) ->
  (forall p, zf_state (zf_of_records rs') p = sp_final us (zf_state (zf_of_records rs)) p) ->
  forall q qt, query (run (map OZRec rs ++ us)) q qt = query (run (map OZRec rs')) q qt.
Proof.
  intros Ha Hb Hu Ha' Hb' HR HS.
  apply ext_safe_history_independent; auto.
  - apply zone_file_wfu. apply zone_file_only_map.
  - intro p. rewrite zone_file_state by assumption. apply HS.
  - rewrite zone_file_state by assumption. unfold zf_state, info_at_g, cut_at_g. simpl.
    destruct (accepted_records_build rs' Ha') as (Hwf & _ & _). rewrite Hb' in Hwf.
    destruct (wf_zone_parts _ Hwf) as (_ & _ & _ & _ & HwC & HwA).
    rewrite (wf_cut_apex _ HwC), (wf_cname_apex _ _ HwA). reflexivity.
Qed.
