(* C08 -- Answer::to_message on top of C02's message-builder model.

   to_message is a fixed script of builder calls: start_answer (header id, QR,
   opcode, RD, RCODE; the question; .answer()), AA, the answer records with the
   question's owner and class, .authority(), SOA / NS / DS with the authority's
   owner, .additional(), the glue records.  Every push is unwrapped, so the
   call either panics or all pushes succeeded.  With C02's theorem that a built
   message parses back to the accepted items, a to_message that does not panic
   yields octets that parse to exactly the sections of the Answer, in order.

   Record data and names are abstract in the zone model; their wire form is a
   parameter ([enc_name], [enc_rdata]) constrained only by C02's
   well-formedness of pushed items. *)
From Coq Require Import NArith List Bool Lia.
From DV Require Import Base.Outcome.
From DV Require Base.Names.
From DV Require C02.Model C02.ProofsName C02.ProofsLayout C02.ProofsBuild C02.ProofsRun C02.ProofsTotal.
From DV Require Import C08.Gen C08.Model.
Import ListNotations.
Local Open Scope N_scope.

Module B := C02.Model.
Notation wname := DV.Base.Names.name.

Section ToMessage.
Variable enc_name : name -> wname.                    (* owner names (absolute, wire order) *)
Variable enc_rdata : rtype -> rdata -> list B.ritem.   (* compose_rdata of the record data *)
Variable prefixed : rtype -> bool.                     (* the data type's rdlen() is None *)
Variables (qname : wname) (qtype qclass : N).         (* the sole question of the request *)
Variables (rid ropcode : N) (rrd : bool).              (* request header: id, opcode, RD *)
Variable glue_class : N.                               (* class of the stored glue records *)

Definition mk_rec (owner : wname) (cls t ttl : N) (d : rdata) : B.rrecord :=
  B.mkR owner t cls ttl (prefixed t) (enc_rdata t d).

Definition answer_records (a : answer) : list B.rrecord :=
  match a_content a with
  | AData r => map (mk_rec qname qclass (rs_type r) (rs_ttl r)) (rs_data r)
  | ACname c => [mk_rec qname qclass rt_cname (rr_ttl c) (rr_data c)]
  | ANoData => []
  end.

Definition rrset_records (owner : wname) (r : rrset) : list B.rrecord :=
  map (mk_rec owner qclass (rs_type r) (rs_ttl r)) (rs_data r).

Definition authority_records (a : answer) : list B.rrecord :=
  match a_auth a with
  | None => []
  | Some au =>
      let o := enc_name (au_owner au) in
      (match au_soa au with Some s => [mk_rec o qclass rt_soa (rr_ttl s) (rr_data s)] | None => [] end)
      ++ (match au_ns au with Some r => rrset_records o r | None => [] end)
      ++ (match au_ds au with Some r => rrset_records o r | None => [] end)
  end.

Definition additional_records (a : answer) : list B.rrecord :=
  map (fun g => mk_rec (enc_name (g_owner g)) glue_class (g_type g) (g_ttl g) (g_data g)) (a_addl a).

(* the calls to_message makes *)
Definition to_message_ops (a : answer) : list B.op :=
  [B.OpHdr [B.HId rid; B.HFlag B.FQr true; B.HOpcode ropcode; B.HFlag B.FRd rrd; B.HRcode (a_rcode a)];
   B.OpQ (B.mkQ qname qtype qclass); B.OpNext]
  ++ (if a_aa a then [B.OpHdr [B.HFlag B.FAa true]] else [])
  ++ map B.OpR (answer_records a) ++ [B.OpNext]
  ++ map B.OpR (authority_records a) ++ [B.OpNext]
  ++ map B.OpR (additional_records a).

(* the sections the message is meant to carry *)
Definition intended (a : answer) : B.acc :=
  B.mkAcc [B.mkQ qname qtype qclass] (answer_records a) (authority_records a) (additional_records a).

(* every push returned Ok (to_message unwraps each of them) *)
Definition no_push_failed (ws : list B.rword) : Prop := Forall (fun w => w = B.ROk \/ w = B.RNone) ws.

(* ------------------------------------------------------------------ symbolic run of such scripts *)
Lemma mb_push_ok_sec c s f s' : B.mb_push c s f = (s', B.ROk) -> B.b_sec s' = B.b_sec s.
Proof.
  unfold B.mb_push, B.fail_push. destruct (f (B.b_w s)); try discriminate.
  - repeat match goal with |- context [if ?b then _ else _] => destruct b end;
      try (destruct (B.truncate _ _ _); discriminate).
    intro H. inversion H; subst. unfold B.set_count, B.set_w. cbn [B.b_sec].
    destruct (B.b_sec s =? 0); [reflexivity|]. destruct (B.b_sec s =? 1); [reflexivity|]. destruct (B.b_sec s =? 2); reflexivity.
  - destruct (B.truncate _ _ _); discriminate.
Qed.

Lemma mb_push_not_none c s f s' : B.mb_push c s f = (s', B.RNone) -> False.
Proof.
  unfold B.mb_push, B.fail_push. destruct (f (B.b_w s)); try discriminate.
  - repeat match goal with |- context [if ?b then _ else _] => destruct b end;
      try (destruct (B.truncate _ _ _); discriminate). discriminate.
  - destruct (B.truncate _ _ _); discriminate.
Qed.

Lemma run_acc_cons c s a o r :
  B.run_acc c s a (o :: r) =
  (let '(s1, w) := B.step c s o in
   let a1 := B.acc_step (B.b_sec s) a o w in
   if B.is_dead w then (s1, a1, [w]) else let '(s2, a2, ws) := B.run_acc c s1 a1 r in (s2, a2, w :: ws)).
Proof. reflexivity. Qed.

(* pushing records in section k >= 1 *)
Lemma run_records c k : forall rs s a s' a' ws,
  B.b_sec s = k -> k <> 0 ->
  B.run_acc c s a (map B.OpR rs) = (s', a', ws) -> no_push_failed ws ->
  B.b_sec s' = k /\ a' = fold_left (fun x r => B.acc_add_r x k r) rs a.
Proof.
  induction rs as [|r rs IH]; intros s a s' a' ws Hk Hk0 Hrun Hok.
  - simpl in Hrun. inversion Hrun; subst. auto.
  - cbn [map] in Hrun. rewrite run_acc_cons in Hrun.
    unfold B.step, B.step_gen in Hrun. assert (E0 : (B.b_sec s =? 0) = false) by (apply N.eqb_neq; congruence).
    rewrite E0 in Hrun. destruct (B.mb_push c s (B.compose_record c r)) as [s1 w] eqn:Ep.
    destruct (B.is_dead w) eqn:Ed.
    + injection Hrun as J1 J2 J3; subst s' a' ws. unfold no_push_failed in Hok. apply Forall_cons_iff in Hok. destruct Hok as [[Hw|Hw] _]; subst; discriminate.
    + destruct (B.run_acc c s1 (B.acc_step (B.b_sec s) a (B.OpR r) w) (map B.OpR rs)) as [[s2 a2] ws2] eqn:Er.
      injection Hrun as J1 J2 J3; subst s' a' ws. unfold no_push_failed in Hok. apply Forall_cons_iff in Hok. destruct Hok as [[Hw|Hw] Hrest]; subst.
      * cbn [B.acc_step] in Er. pose proof (mb_push_ok_sec _ _ _ _ Ep) as Hs.
        destruct (IH _ _ _ _ _ (eq_trans Hs eq_refl) Hk0 Er Hrest) as [A1 A2]. split; [exact A1|]. exact A2.
      * exfalso. eapply mb_push_not_none; eauto.
Qed.

Lemma fold_add_an a rs : fold_left (fun x r => B.acc_add_r x 1 r) rs a = B.mkAcc (B.a_q a) (B.a_an a ++ rs) (B.a_ns a) (B.a_ar a).
Proof. revert a. induction rs as [|r rs IH]; intro a; simpl; [rewrite app_nil_r; destruct a; reflexivity|]. rewrite IH. unfold B.acc_add_r. simpl. rewrite <- app_assoc. reflexivity. Qed.
Lemma fold_add_ns a rs : fold_left (fun x r => B.acc_add_r x 2 r) rs a = B.mkAcc (B.a_q a) (B.a_an a) (B.a_ns a ++ rs) (B.a_ar a).
Proof. revert a. induction rs as [|r rs IH]; intro a; simpl; [rewrite app_nil_r; destruct a; reflexivity|]. rewrite IH. unfold B.acc_add_r. simpl. rewrite <- app_assoc. reflexivity. Qed.
Lemma fold_add_ar a rs : fold_left (fun x r => B.acc_add_r x 3 r) rs a = B.mkAcc (B.a_q a) (B.a_an a) (B.a_ns a) (B.a_ar a ++ rs).
Proof. revert a. induction rs as [|r rs IH]; intro a; simpl; [rewrite app_nil_r; destruct a; reflexivity|]. rewrite IH. unfold B.acc_add_r. simpl. rewrite <- app_assoc. reflexivity. Qed.

(* splitting a run *)
Lemma run_acc_app c : forall o1 o2 s a s' a' ws, B.run_acc c s a (o1 ++ o2) = (s', a', ws) -> no_push_failed ws ->
  exists s1 a1 w1 w2, B.run_acc c s a o1 = (s1, a1, w1) /\ B.run_acc c s1 a1 o2 = (s', a', w2) /\ ws = w1 ++ w2.
Proof.
  induction o1 as [|o o1 IH]; intros o2 s a s' a' ws Hrun Hok.
  - exists s, a, [], ws. simpl. auto.
  - cbn [app] in Hrun. rewrite run_acc_cons in Hrun. rewrite run_acc_cons.
    destruct (B.step c s o) as [s1 w]. cbv beta iota zeta in Hrun |- *. destruct (B.is_dead w) eqn:Ed.
    + injection Hrun as J1 J2 J3; subst s' a' ws. unfold no_push_failed in Hok. apply Forall_cons_iff in Hok. destruct Hok as [[Hw|Hw] _]; subst; discriminate.
    + destruct (B.run_acc c s1 (B.acc_step (B.b_sec s) a o w) (o1 ++ o2)) as [[s2 a2] ws2] eqn:Er. cbv beta iota zeta in Hrun.
      injection Hrun as J1 J2 J3; subst s' a' ws. unfold no_push_failed in Hok. apply Forall_cons_iff in Hok. destruct Hok as [_ Hrest].
      destruct (IH _ _ _ _ _ _ Er Hrest) as (t1 & b1 & x1 & x2 & E1 & E2 & E3).
      rewrite E1. exists t1, b1, (w :: x1), x2. subst. auto.
Qed.

Lemma ok_app w1 w2 : no_push_failed (w1 ++ w2) -> no_push_failed w1 /\ no_push_failed w2.
Proof. unfold no_push_failed. rewrite Forall_app. auto. Qed.

(* single non-push steps *)
Lemma run_hdr c s a l s' a' ws : B.run_acc c s a [B.OpHdr l] = (s', a', ws) -> B.b_sec s' = B.b_sec s /\ a' = a.
Proof.
  intro H. rewrite run_acc_cons in H. unfold B.step, B.step_gen in H.
  cbn [B.is_dead B.acc_step B.run_acc] in H. cbv beta iota zeta in H. injection H as J1 J2 J3. subst. split; reflexivity.
Qed.
Lemma run_next c s a s' a' ws : B.b_sec s <? 3 = true -> B.run_acc c s a [B.OpNext] = (s', a', ws) -> B.b_sec s' = B.b_sec s + 1 /\ a' = a.
Proof.
  intros Hl H. rewrite run_acc_cons in H. unfold B.step, B.step_gen in H. rewrite Hl in H.
  cbn [B.is_dead B.acc_step B.run_acc] in H. cbv beta iota zeta in H. injection H as J1 J2 J3. subst. split; reflexivity.
Qed.
Lemma run_q c s a q s' a' ws : B.b_sec s = 0 -> B.run_acc c s a [B.OpQ q] = (s', a', ws) -> no_push_failed ws ->
  B.b_sec s' = 0 /\ a' = B.mkAcc (B.a_q a ++ [q]) (B.a_an a) (B.a_ns a) (B.a_ar a).
Proof.
  intros H0 Hrun Hok. rewrite run_acc_cons in Hrun. unfold B.step, B.step_gen in Hrun. rewrite H0 in Hrun.
  change (0 =? 0) with true in Hrun. cbv beta iota zeta in Hrun.
  destruct (B.mb_push c s (B.compose_question c q)) as [s1 w] eqn:Ep. cbv beta iota zeta in Hrun.
  unfold no_push_failed in Hok.
  destruct (B.is_dead w) eqn:Ed; cbn [B.run_acc] in Hrun; cbv beta iota zeta in Hrun;
    injection Hrun as J1 J2 J3; subst s' a' ws; apply Forall_cons_iff in Hok; destruct Hok as [[Hw|Hw] _]; subst; try discriminate.
  - pose proof (mb_push_ok_sec _ _ _ _ Ep). split; [congruence|]. reflexivity.
  - exfalso. eapply mb_push_not_none; eauto.
Qed.

(* a to_message whose pushes all succeed accepts exactly the intended sections *)
Lemma to_message_accepts c s0 a s acc ws : B.init c = Some s0 ->
  B.run_acc c s0 B.acc0 (to_message_ops a) = (s, acc, ws) -> no_push_failed ws -> acc = intended a.
Proof.
  intros Hi Hrun Hok.
  assert (Hs0 : B.b_sec s0 = 0).
  { unfold B.init in Hi. destruct (B.append_slice _ _ _); try discriminate. inversion Hi; reflexivity. }
  unfold to_message_ops in Hrun.
  change ([?x; ?y; ?z] ++ ?r) with ([x] ++ [y] ++ [z] ++ r) in Hrun.
  destruct (run_acc_app _ _ _ _ _ _ _ _ Hrun Hok) as (t1 & b1 & u1 & v1 & E1 & R1 & W1).
  rewrite W1 in Hok. destruct (ok_app _ _ Hok) as [K1 L1].
  destruct (run_acc_app _ _ _ _ _ _ _ _ R1 L1) as (t2 & b2 & u2 & v2 & E2 & R2 & W2).
  rewrite W2 in L1. destruct (ok_app _ _ L1) as [K2 L2].
  destruct (run_acc_app _ _ _ _ _ _ _ _ R2 L2) as (t3 & b3 & u3 & v3 & E3 & R3 & W3).
  rewrite W3 in L2. destruct (ok_app _ _ L2) as [K3 L3].
  destruct (run_acc_app _ _ _ _ _ _ _ _ R3 L3) as (t4 & b4 & u4 & v4 & E4 & R4 & W4).
  rewrite W4 in L3. destruct (ok_app _ _ L3) as [K4 L4].
  destruct (run_acc_app _ _ _ _ _ _ _ _ R4 L4) as (t5 & b5 & u5 & v5 & E5 & R5 & W5).
  rewrite W5 in L4. destruct (ok_app _ _ L4) as [K5 L5].
  destruct (run_acc_app _ _ _ _ _ _ _ _ R5 L5) as (t6 & b6 & u6 & v6 & E6 & R6 & W6).
  rewrite W6 in L5. destruct (ok_app _ _ L5) as [K6 L6].
  destruct (run_acc_app _ _ _ _ _ _ _ _ R6 L6) as (t7 & b7 & u7 & v7 & E7 & R7 & W7).
  rewrite W7 in L6. destruct (ok_app _ _ L6) as [K7 L7].
  destruct (run_acc_app _ _ _ _ _ _ _ _ R7 L7) as (t8 & b8 & u8 & v8 & E8 & R8 & W8).
  rewrite W8 in L7. destruct (ok_app _ _ L7) as [K8 L8].
  (* header, question, .answer() *)
  destruct (run_hdr _ _ _ _ _ _ _ E1) as [S1 A1]. subst b1.
  destruct (run_q _ _ _ _ _ _ _ (eq_trans S1 Hs0) E2 K2) as [S2 A2]. subst b2.
  destruct (run_next _ _ _ _ _ _ ltac:(rewrite S2; reflexivity) E3) as [S3 A3]. subst b3. rewrite S2 in S3.
  (* AA *)
  assert (S4 : B.b_sec t4 = 1 /\ b4 = B.mkAcc [B.mkQ qname qtype qclass] [] [] []).
  { destruct (a_aa a); [destruct (run_hdr _ _ _ _ _ _ _ E4) as [Sx Ax]; subst; split; [rewrite Sx; exact S3|reflexivity]|].
    simpl in E4. injection E4 as J1 J2 J3. subst. split; [exact S3|reflexivity]. }
  destruct S4 as [S4 A4]. subst b4.
  destruct (run_records _ 1 _ _ _ _ _ _ S4 ltac:(discriminate) E5 K5) as [S5 A5]. rewrite fold_add_an in A5. subst b5.
  destruct (run_next _ _ _ _ _ _ ltac:(rewrite S5; reflexivity) E6) as [S6 A6]. subst b6. rewrite S5 in S6.
  destruct (run_records _ 2 _ _ _ _ _ _ S6 ltac:(discriminate) E7 K7) as [S7 A7]. rewrite fold_add_ns in A7. subst b7.
  destruct (run_next _ _ _ _ _ _ ltac:(rewrite S7; reflexivity) E8) as [S8 A8]. subst b8. rewrite S7 in S8.
  destruct (run_records _ 3 _ _ _ _ _ _ S8 ltac:(discriminate) R8 L8) as [S9 A9]. rewrite fold_add_ar in A9.
  subst acc. reflexivity.
Qed.

(* The tie: if the pushed items are well formed (C02) and to_message does not
   panic (no push failed), the produced octets parse back to exactly the
   question, answer, authority and additional records of the Answer, in order. *)
Theorem to_message_parses_to_answer c s0 a s acc ws : B.init c = Some s0 ->
  Forall C02.ProofsTotal.wf_op_sized (to_message_ops a) ->
  B.run_acc c s0 B.acc0 (to_message_ops a) = (s, acc, ws) -> no_push_failed ws ->
  exists parsed, B.rd_message (B.msg_of s) (intended a) = Ok parsed /\ B.acc_eqb parsed (intended a) = true.
Proof.
  intros Hi Hwf Hrun Hok.
  destruct (C02.ProofsTotal.build_parse_total c _ s0 s acc ws Hi Hwf Hrun) as [_ (p & Hp & He)].
  rewrite (to_message_accepts c s0 a s acc ws Hi Hrun Hok) in Hp, He. eauto.
Qed.
End ToMessage.

(* non-vacuity: a positive answer with SOA-less authority, composed into an unlimited uncompressed target *)
Definition ex_cfg : B.tcfg := B.mkCfg None false B.KNone.
Definition ex_answer : answer :=
  mkAnswer rc_noerror true (AData (mkRrset rt_a 300 [mkRd 4 None; mkRd 5 None]))
           (Some (mkAuth [] None (Some (mkRrset rt_ns 60 [mkRd 9 None])) None)) [mkG [353] rt_a 77 (mkRd 7 None)].
Definition ex_ops := to_message_ops (fun p => map (fun l => [l mod 256]) (rev p) ++ [[122]]) (fun _ d => [B.RBytes [0; 0; 0; rd_tok d]])
                                    (fun _ => false) [[119]; [122]] 1 1 4660 0 true 1 ex_answer.
Example to_message_example :
  match B.init ex_cfg with
  | Some s0 => let '(s, acc, ws) := B.run_acc ex_cfg s0 B.acc0 ex_ops in
               forallb (fun w => match w with B.ROk | B.RNone => true | _ => false end) ws = true /\
               length (B.a_an acc) = 2%nat /\ length (B.a_ns acc) = 1%nat /\ length (B.a_ar acc) = 1%nat /\
               match B.rd_message (B.msg_of s) acc with Ok p => B.acc_eqb p acc = true | _ => False end
  | None => False
  end.
Proof. vm_compute. repeat split; reflexivity. Qed.
