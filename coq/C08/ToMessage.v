(* C08 -- Answer::to_message on top of C02's message-builder model.

   to_message is a fixed script of builder calls: start_answer (header id, QR,
   opcode, RD, RCODE; the question; .answer()), AA, the answer records with the
   question's owner and class, .authority(), SOA / NS / DS with the authority's
   owner, .additional(), the glue records.  Every push is unwrapped, so the
   call either panics or all pushes succeeded.  With C02's theorem that a built
   message parses back to the accepted items, a to_message that does not panic
   yields octets that parse to exactly the sections of the Answer, in order.

   Record data and names are abstract in the zone model; their wire form is a
   parameter ([enc_name], [enc_rdata]) constrained only by C02's
   well-formedness of pushed items. *)
From Coq Require Import NArith List Bool Lia.
From DV Require Import Base.Outcome.
From DV Require Base.Names.
From DV Require C02.Model C02.ProofsName C02.ProofsLayout C02.ProofsBuild C02.ProofsRun C02.ProofsTotal.
From DV Require Import C08.Gen C08.Model.
Import ListNotations.
Local Open Scope N_scope.


Notation wname := DV.Base.Names.name.

Section ToMessage.
Variable enc_name : name -> wname.                    (* owner names (absolute, wire order) *)
Variable enc_rdata : rtype -> rdata -> list C02.Model.ritem.   (* compose_rdata of the record data *)
Variable prefixed : rtype -> bool.                     (* the data type's rdlen() is None *)
Variables (qname : wname) (qtype qclass : N).         (* the sole question of the request *)
Variables (rid ropcode : N) (rrd : bool).              (* request header: id, opcode, RD *)
Variable glue_class : N.                               (* class of the stored glue records *)

Definition mk_rec (owner : wname) (cls t ttl : N) (d : rdata) : C02.Model.rrecord :=
  C02.Model.mkR owner t cls ttl (prefixed t) (enc_rdata t d).

Definition answer_records (a : answer) : list C02.Model.rrecord :=
  match a_content a with
  | AData r => map (mk_rec qname qclass (rs_type r) (rs_ttl r)) (rs_data r)
  | ACname c => [mk_rec qname qclass rt_cname (rr_ttl c) (rr_data c)]
  | ANoData => []
  end.

Definition rrset_records (owner : wname) (r : rrset) : list C02.Model.rrecord :=
  map (mk_rec owner qclass (rs_type r) (rs_ttl r)) (rs_data r).

Definition authority_records (a : answer) : list C02.Model.rrecord :=
  match a_auth a with
  | None => []
  | Some au =>
      let o := enc_name (au_owner au) in
      (match au_soa au with Some s => [mk_rec o qclass rt_soa (rr_ttl s) (rr_data s)] | None => [] end)
      ++ (match au_ns au with Some r => rrset_records o r | None => [] end)
      ++ (match au_ds au with Some r => rrset_records o r | None => [] end)
  end.

Definition additional_records (a : answer) : list C02.Model.rrecord :=
  map (fun g => mk_rec (enc_name (g_owner g)) glue_class (g_type g) (g_ttl g) (g_data g)) (a_addl a).

(* the calls to_message makes *)
Definition to_message_ops (a : answer) : list C02.Model.op :=
  [C02.Model.OpHdr [C02.Model.HId rid; C02.Model.HFlag C02.Model.FQr true; C02.Model.HOpcode ropcode; C02.Model.HFlag C02.Model.FRd rrd; C02.Model.HRcode (a_rcode a)];
   C02.Model.OpQ (C02.Model.mkQ qname qtype qclass); C02.Model.OpNext]
  ++ (if a_aa a then [C02.Model.OpHdr [C02.Model.HFlag C02.Model.FAa true]] else [])
  ++ map C02.Model.OpR (answer_records a) ++ [C02.Model.OpNext]
  ++ map C02.Model.OpR (authority_records a) ++ [C02.Model.OpNext]
  ++ map C02.Model.OpR (additional_records a).

(* the sections the message is meant to carry *)
Definition intended (a : answer) : C02.Model.acc :=
  C02.Model.mkAcc [C02.Model.mkQ qname qtype qclass] (answer_records a) (authority_records a) (additional_records a).

(* every push returned Ok (to_message unwraps each of them) *)
Definition no_push_failed (ws : list C02.Model.rword) : Prop := Forall (fun w => w = C02.Model.ROk \/ w = C02.Model.RNone) ws.

(* ------------------------------------------------------------------ symbolic run of such scripts *)
Lemma mb_push_ok_sec c s f s' : C02.Model.mb_push c s f = (s', C02.Model.ROk) -> C02.Model.b_sec s' = C02.Model.b_sec s.
Proof.
  unfold C02.Model.mb_push, C02.Model.fail_push. destruct (f (C02.Model.b_w s)); try discriminate.
  - repeat match goal with |- context [if ?b then _ else _] => destruct b end;
      try (destruct (C02.Model.truncate _ _ _); discriminate).
    intro H. inversion H; subst. unfold C02.Model.set_count, C02.Model.set_w. cbn [C02.Model.b_sec].
    destruct (C02.Model.b_sec s =? 0); [reflexivity|]. destruct (C02.Model.b_sec s =? 1); [reflexivity|]. destruct (C02.Model.b_sec s =? 2); reflexivity.
  - destruct (C02.Model.truncate _ _ _); discriminate.
Qed.

Lemma mb_push_not_none c s f s' : C02.Model.mb_push c s f = (s', C02.Model.RNone) -> False.
Proof.
  unfold C02.Model.mb_push, C02.Model.fail_push. destruct (f (C02.Model.b_w s)); try discriminate.
  - repeat match goal with |- context [if ?b then _ else _] => destruct b end;
      try (destruct (C02.Model.truncate _ _ _); discriminate). discriminate.
  - destruct (C02.Model.truncate _ _ _); discriminate.
Qed.

Lemma run_acc_cons c s a o r :
  C02.Model.run_acc c s a (o :: r) =
  (let '(s1, w) := C02.Model.step c s o in
   let a1 := C02.Model.acc_step (C02.Model.b_sec s) a o w in
   if C02.Model.is_dead w then (s1, a1, [w]) else let '(s2, a2, ws) := C02.Model.run_acc c s1 a1 r in (s2, a2, w :: ws)).
Proof. reflexivity. Qed.

(* pushing records in section k >= 1 *)
Lemma run_records c k : forall rs s a s' a' ws,
  C02.Model.b_sec s = k -> k <> 0 ->
  C02.Model.run_acc c s a (map C02.Model.OpR rs) = (s', a', ws) -> no_push_failed ws ->
  C02.Model.b_sec s' = k /\ a' = fold_left (fun x r => C02.Model.acc_add_r x k r) rs a.
Proof.
  induction rs as [|r rs IH]; intros s a s' a' ws Hk Hk0 Hrun Hok.
  - simpl in Hrun. inversion Hrun; subst. auto.
  - cbn [map] in Hrun. rewrite run_acc_cons in Hrun.
    unfold C02.Model.step, C02.Model.step_gen in Hrun. assert (E0 : (C02.Model.b_sec s =? 0) = false) by (apply N.eqb_neq; congruence).
    rewrite E0 in Hrun. destruct (C02.Model.mb_push c s (C02.Model.compose_record c r)) as [s1 w] eqn:Ep.
    destruct (C02.Model.is_dead w) eqn:Ed.
    + injection Hrun as J1 J2 J3; subst s' a' ws. unfold no_push_failed in Hok. apply Forall_cons_iff in Hok. destruct Hok as [[Hw|Hw] _]; subst; discriminate.
    + destruct (C02.Model.run_acc c s1 (C02.Model.acc_step (C02.Model.b_sec s) a (C02.Model.OpR r) w) (map C02.Model.OpR rs)) as [[s2 a2] ws2] eqn:Er.
      injection Hrun as J1 J2 J3; subst s' a' ws. unfold no_push_failed in Hok. apply Forall_cons_iff in Hok. destruct Hok as [[Hw|Hw] Hrest]; subst.
      * cbn [C02.Model.acc_step] in Er. pose proof (mb_push_ok_sec _ _ _ _ Ep) as Hs.
        destruct (IH _ _ _ _ _ (eq_trans Hs eq_refl) Hk0 Er Hrest) as [A1 A2]. split; [exact A1|]. exact A2.
      * exfalso. eapply mb_push_not_none; eauto.
Qed.

Lemma fold_add_an a rs : fold_left (fun x r => C02.Model.acc_add_r x 1 r) rs a = C02.Model.mkAcc (C02.Model.a_q a) (C02.Model.a_an a ++ rs) (C02.Model.a_ns a) (C02.Model.a_ar a).
Proof. revert a. induction rs as [|r rs IH]; intro a; simpl; [rewrite app_nil_r; destruct a; reflexivity|]. rewrite IH. unfold C02.Model.acc_add_r. simpl. rewrite <- app_assoc. reflexivity. Qed.
Lemma fold_add_ns a rs : fold_left (fun x r => C02.Model.acc_add_r x 2 r) rs a = C02.Model.mkAcc (C02.Model.a_q a) (C02.Model.a_an a) (C02.Model.a_ns a ++ rs) (C02.Model.a_ar a).
Proof. revert a. induction rs as [|r rs IH]; intro a; simpl; [rewrite app_nil_r; destruct a; reflexivity|]. rewrite IH. unfold C02.Model.acc_add_r. simpl. rewrite <- app_assoc. reflexivity. Qed.
Lemma fold_add_ar a rs : fold_left (fun x r => C02.Model.acc_add_r x 3 r) rs a = C02.Model.mkAcc (C02.Model.a_q a) (C02.Model.a_an a) (C02.Model.a_ns a) (C02.Model.a_ar a ++ rs).
Proof. revert a. induction rs as [|r rs IH]; intro a; simpl; [rewrite app_nil_r; destruct a; reflexivity|]. rewrite IH. unfold C02.Model.acc_add_r. simpl. rewrite <- app_assoc. reflexivity. Qed.

(* splitting a run *)
Lemma run_acc_app c : forall o1 o2 s a s' a' ws, C02.Model.run_acc c s a (o1 ++ o2) = (s', a', ws) -> no_push_failed ws ->
  exists s1 a1 w1 w2, C02.Model.run_acc c s a o1 = (s1, a1, w1) /\ C02.Model.run_acc c s1 a1 o2 = (s', a', w2) /\ ws = w1 ++ w2.
Proof.
  induction o1 as [|o o1 IH]; intros o2 s a s' a' ws Hrun Hok.
  - exists s, a, [], ws. simpl. auto.
  - cbn [app] in Hrun. rewrite run_acc_cons in Hrun. rewrite run_acc_cons.
    destruct (C02.Model.step c s o) as [s1 w]. cbv beta iota zeta in Hrun |- *. destruct (C02.Model.is_dead w) eqn:Ed.
    + injection Hrun as J1 J2 J3; subst s' a' ws. unfold no_push_failed in Hok. apply Forall_cons_iff in Hok. destruct Hok as [[Hw|Hw] _]; subst; discriminate.
    + destruct (C02.Model.run_acc c s1 (C02.Model.acc_step (C02.Model.b_sec s) a o w) (o1 ++ o2)) as [[s2 a2] ws2] eqn:Er. cbv beta iota zeta in Hrun.
      injection Hrun as J1 J2 J3; subst s' a' ws. unfold no_push_failed in Hok. apply Forall_cons_iff in Hok. destruct Hok as [_ Hrest].
      destruct (IH _ _ _ _ _ _ Er Hrest) as (t1 & b1 & x1 & x2 & E1 & E2 & E3).
      rewrite E1. exists t1, b1, (w :: x1), x2. subst. auto.
Qed.

Lemma ok_app w1 w2 : no_push_failed (w1 ++ w2) -> no_push_failed w1 /\ no_push_failed w2.
Proof. unfold no_push_failed. rewrite Forall_app. auto. Qed.

(* single non-push steps *)
Lemma run_hdr c s a l s' a' ws : C02.Model.run_acc c s a [C02.Model.OpHdr l] = (s', a', ws) -> C02.Model.b_sec s' = C02.Model.b_sec s /\ a' = a.
Proof.
  intro H. rewrite run_acc_cons in H. unfold C02.Model.step, C02.Model.step_gen in H.
  cbn [C02.Model.is_dead C02.Model.acc_step C02.Model.run_acc] in H. cbv beta iota zeta in H. injection H as J1 J2 J3. subst. split; reflexivity.
Qed.
Lemma run_next c s a s' a' ws : C02.Model.b_sec s <? 3 = true -> C02.Model.run_acc c s a [C02.Model.OpNext] = (s', a', ws) -> C02.Model.b_sec s' = C02.Model.b_sec s + 1 /\ a' = a.
Proof.
  intros Hl H. rewrite run_acc_cons in H. unfold C02.Model.step, C02.Model.step_gen in H. rewrite Hl in H.
  cbn [C02.Model.is_dead C02.Model.acc_step C02.Model.run_acc] in H. cbv beta iota zeta in H. injection H as J1 J2 J3. subst. split; reflexivity.
Qed.
Lemma run_q c s a q s' a' ws : C02.Model.b_sec s = 0 -> C02.Model.run_acc c s a [C02.Model.OpQ q] = (s', a', ws) -> no_push_failed ws ->
  C02.Model.b_sec s' = 0 /\ a' = C02.Model.mkAcc (C02.Model.a_q a ++ [q]) (C02.Model.a_an a) (C02.Model.a_ns a) (C02.Model.a_ar a).
Proof.
  intros H0 Hrun Hok. rewrite run_acc_cons in Hrun. unfold C02.Model.step, C02.Model.step_gen in Hrun. rewrite H0 in Hrun.
  change (0 =? 0) with true in Hrun. cbv beta iota zeta in Hrun.
  destruct (C02.Model.mb_push c s (C02.Model.compose_question c q)) as [s1 w] eqn:Ep. cbv beta iota zeta in Hrun.
  unfold no_push_failed in Hok.
  destruct (C02.Model.is_dead w) eqn:Ed; cbn [C02.Model.run_acc] in Hrun; cbv beta iota zeta in Hrun;
    injection Hrun as J1 J2 J3; subst s' a' ws; apply Forall_cons_iff in Hok; destruct Hok as [[Hw|Hw] _]; subst; try discriminate.
  - pose proof (mb_push_ok_sec _ _ _ _ Ep). split; [congruence|]. reflexivity.
  - exfalso. eapply mb_push_not_none; eauto.
Qed.

(* a to_message whose pushes all succeed accepts exactly the intended sections *)
Lemma to_message_accepts c s0 a s acc ws : C02.Model.init c = Some s0 ->
  C02.Model.run_acc c s0 C02.Model.acc0 (to_message_ops a) = (s, acc, ws) -> no_push_failed ws -> acc = intended a.
Proof.
  intros Hi Hrun Hok.
  assert (Hs0 : C02.Model.b_sec s0 = 0).
  { unfold C02.Model.init in Hi. destruct (C02.Model.append_slice _ _ _); try discriminate. inversion Hi; reflexivity. }
  unfold to_message_ops in Hrun.
  change ([?x; ?y; ?z] ++ ?r) with ([x] ++ [y] ++ [z] ++ r) in Hrun.
  destruct (run_acc_app _ _ _ _ _ _ _ _ Hrun Hok) as (t1 & b1 & u1 & v1 & E1 & R1 & W1).
  rewrite W1 in Hok. destruct (ok_app _ _ Hok) as [K1 L1].
  destruct (run_acc_app _ _ _ _ _ _ _ _ R1 L1) as (t2 & b2 & u2 & v2 & E2 & R2 & W2).
  rewrite W2 in L1. destruct (ok_app _ _ L1) as [K2 L2].
  destruct (run_acc_app _ _ _ _ _ _ _ _ R2 L2) as (t3 & b3 & u3 & v3 & E3 & R3 & W3).
  rewrite W3 in L2. destruct (ok_app _ _ L2) as [K3 L3].
  destruct (run_acc_app _ _ _ _ _ _ _ _ R3 L3) as (t4 & b4 & u4 & v4 & E4 & R4 & W4).
  rewrite W4 in L3. destruct (ok_app _ _ L3) as [K4 L4].
  destruct (run_acc_app _ _ _ _ _ _ _ _ R4 L4) as (t5 & b5 & u5 & v5 & E5 & R5 & W5).
  rewrite W5 in L4. destruct (ok_app _ _ L4) as [K5 L5].
  destruct (run_acc_app _ _ _ _ _ _ _ _ R5 L5) as (t6 & b6 & u6 & v6 & E6 & R6 & W6).
  rewrite W6 in L5. destruct (ok_app _ _ L5) as [K6 L6].
  destruct (run_acc_app _ _ _ _ _ _ _ _ R6 L6) as (t7 & b7 & u7 & v7 & E7 & R7 & W7).
  rewrite W7 in L6. destruct (ok_app _ _ L6) as [K7 L7].
  destruct (run_acc_app _ _ _ _ _ _ _ _ R7 L7) as (t8 & b8 & u8 & v8 & E8 & R8 & W8).
  rewrite W8 in L7. destruct (ok_app _ _ L7) as [K8 L8].
  (* header, question, .answer() *)
  destruct (run_hdr _ _ _ _ _ _ _ E1) as [S1 A1]. subst b1.
  destruct (run_q _ _ _ _ _ _ _ (eq_trans S1 Hs0) E2 K2) as [S2 A2]. subst b2.
  destruct (run_next _ _ _ _ _ _ ltac:(rewrite S2; reflexivity) E3) as [S3 A3]. subst b3. rewrite S2 in S3.
  (* AA *)
  assert (S4 : C02.Model.b_sec t4 = 1 /\ b4 = C02.Model.mkAcc [C02.Model.mkQ qname qtype qclass] [] [] []).
  { destruct (a_aa a); [destruct (run_hdr _ _ _ _ _ _ _ E4) as [Sx Ax]; subst; split; [rewrite Sx; exact S3|reflexivity]|].
    simpl in E4. injection E4 as J1 J2 J3. subst. split; [exact S3|reflexivity]. }
  destruct S4 as [S4 A4]. subst b4.
  destruct (run_records _ 1 _ _ _ _ _ _ S4 ltac:(discriminate) E5 K5) as [S5 A5]. rewrite fold_add_an in A5. subst b5.
  destruct (run_next _ _ _ _ _ _ ltac:(rewrite S5; reflexivity) E6) as [S6 A6]. subst b6. rewrite S5 in S6.
  destruct (run_records _ 2 _ _ _ _ _ _ S6 ltac:(discriminate) E7 K7) as [S7 A7]. rewrite fold_add_ns in A7. subst b7.
  destruct (run_next _ _ _ _ _ _ ltac:(rewrite S7; reflexivity) E8) as [S8 A8]. subst b8. rewrite S7 in S8.
  destruct (run_records _ 3 _ _ _ _ _ _ S8 ltac:(discriminate) R8 L8) as [S9 A9]. rewrite fold_add_ar in A9.
  subst acc. reflexivity.
Qed.

(* The tie: if the pushed items are well formed (C02) and to_message does not
   panic (no push failed), the produced octets parse back to exactly the
   question, answer, authority and additional records of the Answer, in order. *)
Theorem to_message_parses_to_answer c s0 a s acc ws : C02.Model.init c = Some s0 ->
  Forall C02.ProofsTotal.wf_op_sized (to_message_ops a) ->
  C02.Model.run_acc c s0 C02.Model.acc0 (to_message_ops a) = (s, acc, ws) -> no_push_failed ws ->
  exists parsed, C02.Model.rd_message (C02.Model.msg_of s) (intended a) = Ok parsed /\ C02.Model.acc_eqb parsed (intended a) = true.
Proof.
  intros Hi Hwf Hrun Hok.
  destruct (C02.ProofsTotal.build_parse_total c _ s0 s acc ws Hi Hwf Hrun) as [_ (p & Hp & He)].
  rewrite (to_message_accepts c s0 a s acc ws Hi Hrun Hok) in Hp, He. eauto.
Qed.
End ToMessage.

(* non-vacuity: a positive answer with SOA-less authority, composed into an unlimited uncompressed target *)
Definition ex_cfg : C02.Model.tcfg := C02.Model.mkCfg None false C02.Model.KNone.
Definition ex_answer : answer :=
  mkAnswer rc_noerror true (AData (mkRrset rt_a 300 [mkRd 4 None; mkRd 5 None]))
           (Some (mkAuth [] None (Some (mkRrset rt_ns 60 [mkRd 9 None])) None)) [mkG [353] rt_a 77 (mkRd 7 None)].
Definition ex_ops := to_message_ops (fun p => map (fun l => [l mod 256]) (rev p) ++ [[122]]) (fun _ d => [C02.Model.RBytes [0; 0; 0; rd_tok d]])
                                    (fun _ => false) [[119]; [122]] 1 1 4660 0 true 1 ex_answer.
Example to_message_example :
  match C02.Model.init ex_cfg with
  | Some s0 => let '(s, acc, ws) := C02.Model.run_acc ex_cfg s0 C02.Model.acc0 ex_ops in
               forallb (fun w => match w with C02.Model.ROk | C02.Model.RNone => true | _ => false end) ws = true /\
               length (C02.Model.a_an acc) = 2%nat /\ length (C02.Model.a_ns acc) = 1%nat /\ length (C02.Model.a_ar acc) = 1%nat /\
               match C02.Model.rd_message (C02.Model.msg_of s) acc with Ok p => C02.Model.acc_eqb p acc = true | _ => False end
  | None => False
  end.
Proof. vm_compute. repeat split; reflexivity. Qed.

(* ------------------------------------------------------------------ when a push fails *)
(* Executable to_message over C02's step function, for both shapes of the
   code: [trunc = false] unwraps every push (a failed push panics),
   [trunc = true] stops adding records at the first failed push and sets TC.
   T1 reads which shape the source has ([to_message_truncates]). *)
Definition P_UNWRAP : N := 30.
Inductive tm_result := TmOk (s : C02.Model.bstate) (acc : C02.Model.acc) | TmPanic (site : N).

Fixpoint push_all (trunc : bool) (c : C02.Model.tcfg) (rs : list C02.Model.rrecord) (s : C02.Model.bstate) (acc : C02.Model.acc)
  : (C02.Model.bstate * C02.Model.acc * bool) + N :=
  match rs with
  | [] => inl (s, acc, false)
  | r :: rs' =>
      let '(s1, w) := C02.Model.step c s (C02.Model.OpR r) in
      let a1 := C02.Model.acc_step (C02.Model.b_sec s) acc (C02.Model.OpR r) w in
      match w with
      | C02.Model.ROk | C02.Model.RNone => push_all trunc c rs' s1 a1
      | C02.Model.RErr _ => if trunc then inl (s1, a1, true) else inr P_UNWRAP
      | C02.Model.RPanic x => inr x
      | C02.Model.RFuel => inr 99
      end
  end.

Definition step_plain (c : C02.Model.tcfg) (s : C02.Model.bstate) (acc : C02.Model.acc) (o : C02.Model.op) : C02.Model.bstate * C02.Model.acc :=
  let '(s1, w) := C02.Model.step c s o in (s1, C02.Model.acc_step (C02.Model.b_sec s) acc o w).

Section Run.
Variables (trunc : bool) (c : C02.Model.tcfg) (pre : list C02.Model.op).
Variables (q : C02.Model.question) (rid ropcode : N) (rrd : bool) (rcode : N) (aa : bool).
Variables (an au ad : list C02.Model.rrecord).

Definition to_message_run : tm_result :=
  match C02.Model.init c with
  | None => TmPanic 98
  | Some s0 =>
      let '(s1, a1, _) := C02.Model.run_acc c s0 C02.Model.acc0 pre in
      let '(s2, a2) := step_plain c s1 a1 (C02.Model.OpHdr [C02.Model.HId rid; C02.Model.HFlag C02.Model.FQr true; C02.Model.HOpcode ropcode; C02.Model.HFlag C02.Model.FRd rrd; C02.Model.HRcode rcode]) in
      let '(s3, w) := C02.Model.step c s2 (C02.Model.OpQ q) in
      match w with
      | C02.Model.ROk =>
          let a3 := C02.Model.acc_step (C02.Model.b_sec s2) a2 (C02.Model.OpQ q) w in
          let '(s4, a4) := step_plain c s3 a3 C02.Model.OpNext in
          let '(s5, a5) := if aa then step_plain c s4 a4 (C02.Model.OpHdr [C02.Model.HFlag C02.Model.FAa true]) else (s4, a4) in
          match push_all trunc c an s5 a5 with
          | inr x => TmPanic x
          | inl (s6, a6, t1) =>
              let '(s7, a7) := step_plain c s6 a6 C02.Model.OpNext in
              match (if t1 then inl (s7, a7, true) else push_all trunc c au s7 a7) with
              | inr x => TmPanic x
              | inl (s8, a8, t2) =>
                  let '(s9, a9) := step_plain c s8 a8 C02.Model.OpNext in
                  match (if t2 then inl (s9, a9, true) else push_all trunc c ad s9 a9) with
                  | inr x => TmPanic x
                  | inl (s10, a10, t3) =>
                      if t3 then let '(s11, a11) := step_plain c s10 a10 (C02.Model.OpHdr [C02.Model.HFlag C02.Model.FTc true]) in TmOk s11 a11
                      else TmOk s10 a10
                  end
              end
          end
      | C02.Model.RPanic x => TmPanic x
      | _ => TmPanic P_UNWRAP       (* start_answer(..).unwrap(): the question does not fit *)
      end
  end.
End Run.

(* the truncating shape never panics because a record push failed *)
Lemma push_all_trunc c : forall rs s acc x, push_all true c rs s acc = inr x ->
  exists r s0, (snd (C02.Model.step c s0 (C02.Model.OpR r)) = C02.Model.RPanic x) \/ (snd (C02.Model.step c s0 (C02.Model.OpR r)) = C02.Model.RFuel /\ x = 99).
Proof.
  induction rs as [|r rs IH]; intros s acc x H; [discriminate|]. cbn [push_all] in H.
  destruct (C02.Model.step c s (C02.Model.OpR r)) as [s1 w] eqn:E. destruct w; try (eapply IH; exact H); try discriminate.
  - inversion H; subst. exists r, s. left. rewrite E. reflexivity.
  - inversion H; subst. exists r, s. right. rewrite E. auto.
Qed.

(* concrete instance for the T2 cases: n records with rdlen octets of data each, owner = question name *)
Definition tm_case (trunc : bool) (limit : option N) (stream : bool) (qname : wname) (qtype n rdlen : N) : tm_result :=
  let r := C02.Model.mkR qname qtype 1 60 false [C02.Model.RBytes (repeat 0 (N.to_nat rdlen))] in
  to_message_run trunc (C02.Model.mkCfg None stream C02.Model.KNone) (match limit with Some l => [C02.Model.OpLimit (Some l)] | None => [] end)
                 (C02.Model.mkQ qname qtype 1) 0 0 false 0 true (repeat r (N.to_nat n)) [] [].

Definition tm_obs (r : tm_result) : option (N * bool) :=
  match r with
  | TmOk s acc => Some (N.of_nat (length (C02.Model.a_an acc)), C02.Model.hf_tc (C02.Model.fields_of_octets (firstn 4 (C02.Model.b_hdr s ++ [0; 0; 0; 0]))))
  | TmPanic _ => None
  end.

Definition c08_tomsg (limit : option N) (stream : bool) (qname : wname) (qtype n rdlen : N) : option (N * bool) :=
  tm_obs (tm_case to_message_truncates limit stream qname qtype n rdlen).

(* the unwrapping shape panics for a legal answer that does not fit: 40 address records, push limit 512 *)
Definition ex_qname : wname := [[109; 97; 110; 121]; [122; 111; 110; 101]; [116; 101; 115; 116]].
Lemma to_message_panics_when_answer_does_not_fit_refuted :
  tm_case false (Some 512) false ex_qname 1 40 4 = TmPanic P_UNWRAP /\
  tm_obs (tm_case false None false ex_qname 1 40 4) = Some (40, false).
Proof. split; vm_compute; reflexivity. Qed.

(* the truncating shape keeps what fits and says so *)
Example to_message_truncates_example :
  tm_obs (tm_case true (Some 512) false ex_qname 1 40 4) = Some (15, true) /\
  tm_obs (tm_case true None false ex_qname 1 40 4) = Some (40, false).
Proof. split; vm_compute; reflexivity. Qed.

(* the code as it stands, whichever shape T1 found *)
Theorem to_message_unwrap_panics : to_message_truncates = false -> c08_tomsg (Some 512) false ex_qname 1 40 4 = None.
Proof. intro H. unfold c08_tomsg. rewrite H. vm_compute. reflexivity. Qed.
Theorem to_message_truncating_flags : to_message_truncates = true ->
  c08_tomsg (Some 512) false ex_qname 1 40 4 = Some (15, true) /\ c08_tomsg None false ex_qname 1 40 4 = Some (40, false).
Proof. intro H. unfold c08_tomsg. rewrite H. split; vm_compute; reflexivity. Qed.
