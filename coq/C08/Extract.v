From Coq Require Import Extraction ExtrOcamlBasic NArith.
From DV Require Import Base.Outcome C08.Gen C08.Model C08.ToMessage.
Extraction Language OCaml.
Extraction "../build/ml/C08/model.ml" c08_run c08_query c08_walk wild_label c08_tree_run c08_tree_find c08_tree_get c08_tree_list c08_tomsg.
