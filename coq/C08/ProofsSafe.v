(* C08 -- zones WITH delegations / aliases: the answers of a tree are a function
   of (RRsets at each name, delegation / alias state at each name), and the
   RRset-level ZoneUpdater operations never change the delegation / alias state
   a zone was built with.  Hence a zone built from a zone file (delegations,
   glue, CNAMEs included) and then updated by "safe" operations -- AddRecord /
   DeleteRecord of other record types, batches, Finished -- answers like any
   other tree with the same RRsets and the same delegation / alias state, in
   particular like the zone rebuilt from the final records whenever the updates
   left the delegation, alias and glue records alone. *)
From Coq Require Import NArith List Bool Lia.
From DV Require Import Base.Outcome C08.Gen C08.Model C08.Spec C08.ProofsQuery C08.ProofsBuild C08.ProofsHist C08.ProofsPlain.
Import ListNotations.
Local Open Scope N_scope.

(* ------------------------------------------------------------------ unique child labels *)
Fixpoint wfu (n : node) : Prop :=
  let 'Node r s cs := n in
  NoDup (map fst cs) /\
  (fix all (cs : list (label * node)) : Prop := match cs with [] => True | (_, c) :: cs' => wfu c /\ all cs' end) cs.

Lemma wfu_unfold r s cs : wfu (Node r s cs) <-> NoDup (map fst cs) /\ Forall (fun lc => wfu (snd lc)) cs.
Proof.
  cbn [wfu].
  assert (E : forall cs : list (label * node),
             (fix all (cs : list (label * node)) : Prop := match cs with [] => True | (_, c) :: cs' => wfu c /\ all cs' end) cs
             <-> Forall (fun lc => wfu (snd lc)) cs).
  { induction cs0 as [|[l c] cs0 IH]; split; intro H; auto.
    - destruct H as [H1 H2]. constructor; [exact H1|apply IH; exact H2].
    - inversion H; subst. split; [assumption|apply IH; assumption]. }
  rewrite E. tauto.
Qed.

Lemma wfu_empty : wfu empty_node.
Proof. apply wfu_unfold. split; constructor. Qed.

Lemma wfp_wfu : forall n, wfp n -> wfu n.
Proof.
  apply (node_ind' (fun n => wfp n -> wfu n)). intros r s cs IH H. apply wfp_unfold in H. destruct H as (_ & Hnd & Hall).
  apply wfu_unfold. split; [exact Hnd|]. rewrite Forall_forall in *. intros lc Hin. apply IH; auto.
Qed.

Lemma wfu_child n l d : wfu n -> find_child l (n_children n) = Some d -> wfu d.
Proof.
  destruct n as [r s cs]. intros H Hf. apply wfu_unfold in H. destruct H as (_ & Hall).
  simpl in Hf. apply find_child_In in Hf. rewrite Forall_forall in Hall. apply (Hall _ Hf).
Qed.

Lemma wfu_at : forall p n x, wfu n -> node_at n p = Some x -> wfu x.
Proof.
  induction p as [|l p IH]; intros n x Hn Hx; simpl in Hx.
  - inversion Hx; subst; exact Hn.
  - destruct (find_child l (n_children n)) as [d|] eqn:E; [|discriminate].
    eapply IH; [eapply wfu_child; eauto|exact Hx].
Qed.

Lemma exists_has_content' : forall x, wfu x -> node_exists x = true ->
  exists p y, node_at x p = Some y /\ has_content y = true.
Proof.
  apply (node_ind' (fun x => wfu x -> node_exists x = true -> exists p y, node_at x p = Some y /\ has_content y = true)).
  intros r s cs IH Hw He. apply wfu_unfold in Hw. destruct Hw as (Hnd & Hall).
  rewrite node_exists_unfold in He. apply orb_true_iff in He. destruct He as [He|He].
  - exists [], (Node r s cs). split; [reflexivity|]. exact He.
  - apply existsb_exists in He. destruct He as ([l c] & Hin & Hc). simpl in Hc.
    rewrite Forall_forall in IH, Hall.
    destruct (IH _ Hin (Hall _ Hin) Hc) as (p & y & Hy & Hr).
    exists (l :: p), y. split; [|exact Hr]. simpl. rewrite (find_child_nodup l c cs Hnd Hin). exact Hy.
Qed.

(* ------------------------------------------------------------------ answers are a function of the state at each name *)
Definition cspecial_at (t : node) (p : name) : option special :=
  match node_at t p with Some x => clean (n_special x) | None => None end.
Definition is_cc (s : option special) : bool := match s with Some (Cut _) => true | Some (Cname _) => true | _ => false end.
Definition content_at (t : node) (p : name) : bool := negb (rrsets_is_empty (rrsets_at t p)) || is_cc (cspecial_at t p).

Lemma has_content_at t p y : node_at t p = Some y -> has_content y = content_at t p.
Proof.
  intro H. unfold content_at, has_content, rrsets_at, cspecial_at. rewrite H.
  destruct (n_special y) as [[c|c|]|]; reflexivity.
Qed.

Lemma live_iff' t p : wfu t -> (live t p = true <-> exists r, content_at t (p ++ r) = true).
Proof.
  intro Hw. unfold live. split.
  - destruct (node_at t p) as [x|] eqn:Ex; [|discriminate]. intro He.
    destruct (exists_has_content' x (wfu_at _ _ _ Hw Ex) He) as (r & y & Hy & Hr).
    exists r. rewrite <- (has_content_at t (p ++ r) y); [exact Hr|]. rewrite node_at_app, Ex. exact Hy.
  - intros [r Hr]. unfold content_at, rrsets_at, cspecial_at in Hr. rewrite node_at_app in Hr.
    destruct (node_at t p) as [x|]; [|simpl in Hr; discriminate].
    destruct (node_at x r) as [y|] eqn:Ey; [|simpl in Hr; discriminate].
    eapply exists_from_content; eauto. unfold has_content. destruct (n_special y) as [[c|c|]|]; exact Hr.
Qed.

Lemma lview_state t p : lview t p =
  if is_apex p || live t p then
    match node_at t p with Some _ => Some (mkInfo (rrsets_at t p) (cspecial_at t p)) | None => None end
  else None.
Proof.
  unfold lview, live, rrsets_at, cspecial_at. destruct (node_at t p) as [x|]; [reflexivity|].
  destruct (is_apex p || false); reflexivity.
Qed.

Theorem same_state_same_view t t' : wfu t -> wfu t' ->
  (forall p, rrsets_at t p = rrsets_at t' p) -> (forall p, cspecial_at t p = cspecial_at t' p) ->
  forall p, lview t p = lview t' p.
Proof.
  intros Hw Hw' HR HS p.
  assert (Hl : live t p = live t' p).
  { apply eq_true_iff_eq. rewrite (live_iff' t p Hw), (live_iff' t' p Hw').
    split; intros [r Hr]; exists r; unfold content_at in *; [rewrite <- HR, <- HS|rewrite HR, HS]; exact Hr. }
  rewrite !lview_state, Hl, HR, HS.
  destruct (is_apex p || live t' p) eqn:E; [|reflexivity].
  assert (Hn : forall u, is_apex p || live u p = true -> exists x, node_at u p = Some x).
  { intros u Hu. destruct p; [simpl; eauto|]. simpl in Hu. unfold live in Hu. destruct (node_at u (l :: p)); [eauto|discriminate]. }
  destruct (Hn t' E) as [x' Hx']. rewrite <- Hl in E. destruct (Hn t E) as [x Hx]. rewrite Hx, Hx'. reflexivity.
Qed.

Theorem same_state_same_answers t t' : wfu t -> wfu t' ->
  (forall p, rrsets_at t p = rrsets_at t' p) -> (forall p, cspecial_at t p = cspecial_at t' p) ->
  cspecial_at t [] = None ->
  forall q qt, query t q qt = query t' q qt.
Proof.
  intros Hw Hw' HR HS H0 q qt.
  assert (H0' : cspecial_at t' [] = None) by (rewrite <- HS; exact H0).
  rewrite !query_is_vspec by assumption.
  f_equal.
  - unfold get_soa. change (n_rrsets t) with (rrsets_at t []). change (n_rrsets t') with (rrsets_at t' []).
    rewrite HR. reflexivity.
  - apply vspec_ext. apply same_state_same_view; assumption.
Qed.

(* ------------------------------------------------------------------ RRset-level writes keep labels unique and the delegation / alias state *)
Definition keeps_children (f : node -> node) : Prop := forall x, n_children (f x) = n_children x.
Definition keeps_cspecial (f : node -> node) : Prop := forall x, clean (n_special (f x)) = clean (n_special x).

Lemma kc_wfu f x : keeps_children f -> wfu x -> wfu (f x).
Proof.
  intros Hf H. specialize (Hf x). destruct x as [r s cs]. destruct (f (Node r s cs)) as [r' s' cs'] eqn:E.
  simpl in Hf. subst cs'. apply wfu_unfold in H. apply wfu_unfold. exact H.
Qed.

Lemma with_path_wfu mk f : (forall x, wfu x -> wfu (mk x)) -> (forall x, wfu x -> wfu (f x)) ->
  forall p n, wfu n -> wfu (with_path mk p f n).
Proof.
  intros Hmk Hf. induction p as [|l p IH]; intros n Hn; simpl; [auto|].
  destruct n as [r s cs]. apply wfu_unfold in Hn. destruct Hn as (Hnd & Hall).
  apply wfu_unfold. split; [apply upsert_nodup; exact Hnd|].
  apply upsert_forall; auto. apply IH. apply Hmk. apply wfu_empty.
Qed.

Lemma cspecial_with_path mk f :
  keeps_children f -> keeps_cspecial f ->
  clean (n_special (mk empty_node)) = None -> n_children (mk empty_node) = [] ->
  forall p n p', cspecial_at (with_path mk p f n) p' = cspecial_at n p'.
Proof.
  intros Hc Hs Hm1 Hm2. induction p as [|l p IH]; intros n p'.
  - simpl. destruct p' as [|l' r]; unfold cspecial_at; simpl; [apply Hs|rewrite Hc; reflexivity].
  - destruct n as [r s cs]. cbn [with_path]. destruct p' as [|l' r']; [reflexivity|].
    unfold cspecial_at. cbn [node_at n_children]. rewrite find_upsert.
    destruct (l' =? l) eqn:El; [|reflexivity]. apply N.eqb_eq in El. subst l'.
    destruct (find_child l cs) as [c|] eqn:Ec.
    + exact (IH c r').
    + change (cspecial_at (with_path mk p f (mk empty_node)) r' = None). rewrite IH.
      unfold cspecial_at. destruct r' as [|x r']; simpl; [exact Hm1|rewrite Hm2; reflexivity].
Qed.

Lemma kc_map_rrsets g : keeps_children (map_rrsets g). Proof. intros [r s cs]; reflexivity. Qed.
Lemma ks_map_rrsets g : keeps_cspecial (map_rrsets g). Proof. intros [r s cs]; reflexivity. Qed.
Lemma kc_set_special s : keeps_children (set_special s). Proof. intros [r s0 cs]; reflexivity. Qed.
Lemma kc_check : keeps_children check_nx_domain.
Proof.
  intros x. unfold check_nx_domain. destruct (n_special x) as [[c|c|]|]; auto.
  - destruct (negb (rrsets_is_empty (n_rrsets x)) && nx_marked_clears_when_nonempty); auto. apply kc_set_special.
  - destruct (rrsets_is_empty (n_rrsets x) && nx_unmarked_sets_when_empty); auto. apply kc_set_special.
Qed.
Lemma ks_check : keeps_cspecial check_nx_domain.
Proof.
  intros [r s cs]. unfold check_nx_domain. cbn [n_special n_rrsets].
  destruct s as [[c|c|]|]; try reflexivity.
  - destruct (negb (rrsets_is_empty r) && nx_marked_clears_when_nonempty); reflexivity.
  - destruct (rrsets_is_empty r && nx_unmarked_sets_when_empty); reflexivity.
Qed.

Lemma regular_empty : make_regular_node empty_node = Node [] (Some NxDomain) [].
Proof. reflexivity. Qed.

Lemma w_node_state p f z : keeps_children f -> keeps_cspecial f ->
  (wfu z -> wfu (w_node p f z)) /\ forall p', cspecial_at (w_node p f z) p' = cspecial_at z p'.
Proof.
  intros Hc Hs. split.
  - intro H. apply with_path_wfu; auto; intros x Hx; apply kc_wfu; auto.
    intro y. unfold make_regular_node. rewrite kc_check. apply kc_set_special.
  - apply cspecial_with_path; auto; rewrite regular_empty; reflexivity.
Qed.

Definition upd_rr (apex : bool) (g : list rrset -> list rrset) : node -> node :=
  fun n => let n' := map_rrsets g n in if apex then n' else check_nx_domain n'.
Lemma kc_upd b g : keeps_children (upd_rr b g).
Proof. intro x. unfold upd_rr. destruct b; [apply kc_map_rrsets|rewrite kc_check; apply kc_map_rrsets]. Qed.
Lemma ks_upd b g : keeps_cspecial (upd_rr b g).
Proof. intro x. unfold upd_rr. destruct b; [apply ks_map_rrsets|rewrite ks_check; apply ks_map_rrsets]. Qed.

Lemma u_ops_state z :
  (forall p r, (wfu z -> wfu (w_update_rrset p r z)) /\ forall p', cspecial_at (w_update_rrset p r z) p' = cspecial_at z p') /\
  (forall p t, (wfu z -> wfu (w_remove_rrset p t z)) /\ forall p', cspecial_at (w_remove_rrset p t z) p' = cspecial_at z p').
Proof.
  split; intros.
  - apply (w_node_state p (upd_rr (is_apex p) (update_rrsets r)) z); [apply kc_upd|apply ks_upd].
  - apply (w_node_state p (upd_rr (is_apex p) (remove_rtype t)) z); [apply kc_upd|apply ks_upd].
Qed.

Definition same_state (z z' : node) : Prop := (wfu z -> wfu z') /\ forall p, cspecial_at z' p = cspecial_at z p.

Lemma same_state_trans a b c : same_state a b -> same_state b c -> same_state a c.
Proof. intros [H1 H2] [H3 H4]. split; [auto|]. intro p. rewrite H4, H2. reflexivity. Qed.

Lemma touch_state p z : same_state z (w_node p (fun n => n) z).
Proof. apply (w_node_state p (fun n => n) z); intro x; reflexivity. Qed.

Lemma u_add_state p t ttl d z : same_state z (u_add p t ttl d z).
Proof.
  unfold u_add. eapply same_state_trans; [apply touch_state|].
  destruct (u_ops_state (w_node p (fun n => n) z)) as [H _]. apply H.
Qed.
Lemma u_del_state p t ttl d z : same_state z (u_del p t ttl d z).
Proof.
  unfold u_del. eapply same_state_trans; [apply touch_state|].
  destruct (u_ops_state (w_node p (fun n => n) z)) as [H1 H2].
  destruct (filter _ _); [apply H2|apply H1].
Qed.
Lemma u_soa_state ttl d z : same_state z (u_soa ttl d z).
Proof. unfold u_soa. destruct (u_ops_state z) as [H _]. apply H. Qed.

(* ------------------------------------------------------------------ safe update histories *)
Definition safe_op (o : op) : bool :=
  match o with
  | OUNew | OUBatchDel _ | OUBatchAdd _ _ | OUFin _ _ => true
  | OUAdd g | OUDel g => negb (special_type (g_owner g) (g_type g))
  | OUDrop | OWOpen | OWCommit | OWDrop => true
  | OWRr p r => negb (special_type p (rs_type r))
  | OWRm p t => negb (special_type p t)
  | _ => false
  end.

(* the state of a run after the build: committed and working tree have unique
   labels and the delegation / alias state of the built zone [z0] *)
Record sinv (z0 : node) (s : state) : Prop := mkSinv {
  si_built : s_built s = true;
  si_comm : wfu (s_comm s) /\ forall p, cspecial_at (s_comm s) p = cspecial_at z0 p;
  si_work : forall w, s_work s = Some w -> wfu w /\ forall p, cspecial_at w p = cspecial_at z0 p }.

Lemma sinv_on_work z0 f s : (forall z, same_state z (f z)) -> sinv z0 s -> sinv z0 (on_work f s).
Proof.
  intros Hf Hs. unfold on_work. destruct (s_work s) as [w|] eqn:E; [|exact Hs].
  destruct Hs as [Hb Hc Hw]. constructor; simpl; auto.
  intros w' H. inversion H; subst. destruct (Hw w E) as [H1 H2]. destruct (Hf w) as [H3 H4].
  split; [auto|]. intro p. rewrite H4. apply H2.
Qed.
Lemma sinv_commit z0 b s : sinv z0 s -> sinv z0 (commit b s).
Proof.
  intros Hs. unfold commit. destruct (s_work s) as [w|] eqn:E; [|exact Hs].
  destruct Hs as [Hb Hc Hw]. constructor; simpl; auto. destruct b; intros w' H; inversion H; subst; auto.
Qed.
Lemma sinv_misc z0 s : sinv z0 s ->
  (forall i e, sinv z0 (add_err i e s)) /\ (forall b, sinv z0 (set_fin b s)) /\ sinv z0 (set_work (Some (s_comm s)) s).
Proof.
  intros [Hb Hc Hw]. split; [|split].
  - intros i e. constructor; simpl; auto.
  - intros b. constructor; simpl; auto.
  - constructor; simpl; auto. intros w H. inversion H; subst. exact Hc.
Qed.

(* rollback: committed values return, new nodes stay bare *)
Lemma graft_state : forall w c, (wfu c -> wfu (graft w c)) /\ forall p, cspecial_at (graft w c) p = cspecial_at c p.
Proof.
  apply (node_ind' (fun w => forall c, (wfu c -> wfu (graft w c)) /\ forall p, cspecial_at (graft w c) p = cspecial_at c p)).
  intros wr ws wcs IH c. destruct c as [r s ccs]. cbn [graft]. split.
  - intro Hc. apply wfu_unfold in Hc. destruct Hc as (Hnd & Hall). apply wfu_unfold.
    revert ccs Hnd Hall. induction wcs as [|[l wc] wcs IHw]; intros ccs Hnd Hall; [split; assumption|].
    inversion IH; subst. simpl in H1. apply IHw; auto.
    + apply upsert_nodup. exact Hnd.
    + apply upsert_forall; auto.
      * apply (proj1 (H1 empty_node)). apply wfu_empty.
      * intros c0 Hc0. apply (proj1 (H1 c0)). exact Hc0.
  - intros [|l p]; [reflexivity|]. unfold cspecial_at. cbn [node_at n_children].
    revert ccs. induction wcs as [|[l' wc] wcs IHw]; intro ccs; [reflexivity|].
    inversion IH; subst. simpl in H1. rewrite IHw by assumption. rewrite find_upsert.
    destruct (l =? l') eqn:El; [|reflexivity]. apply N.eqb_eq in El. subst l'.
    destruct (find_child l ccs) as [c0|].
    + apply (proj2 (H1 c0) p).
    + change (cspecial_at (graft wc empty_node) p = None). rewrite (proj2 (H1 empty_node) p).
      unfold cspecial_at. destruct p; reflexivity.
Qed.

Lemma sinv_rollback z0 s : sinv z0 s -> sinv z0 (rollback s).
Proof.
  intros Hs. unfold rollback. destruct (s_work s) as [w|] eqn:E; [|exact Hs].
  destruct Hs as [Hb [Hc1 Hc2] Hw]. constructor; simpl; auto.
  - destruct (graft_state w (s_comm s)) as [H1 H2]. split; [auto|]. intro p. rewrite H2. apply Hc2.
  - intros; discriminate.
Qed.

Lemma finish_built i s : s_built s = true -> finish_build i s = s.
Proof. intro H. unfold finish_build. rewrite H. reflexivity. Qed.

Lemma sinv_step z0 i s o : safe_op o = true -> sinv z0 s -> sinv z0 (step i s o).
Proof.
  intros Ho Hs. unfold step.
  assert (E : (if is_history o then finish_build i s else s) = s).
  { destruct (is_history o); [apply finish_built; apply (si_built _ _ Hs)|reflexivity]. }
  rewrite E. destruct (sinv_misc z0 s Hs) as (Herr & Hfin & Hopen).
  destruct o; simpl in Ho; try discriminate.
  - destruct (sinv_misc z0 _ Hopen) as (_ & Hf & _). apply Hf.
  - destruct (s_fin s); [apply Herr|]. apply sinv_on_work; auto. intro z. apply u_add_state.
  - destruct (s_fin s); [apply Herr|]. apply sinv_on_work; auto. intro z. apply u_del_state.
  - destruct (s_fin s); [apply Herr|]. destruct (s_work s); [|exact Hs].
    destruct (if batch_delete_checks_serial then soa_serial_matches d n else true); [apply sinv_commit; exact Hs|apply Herr].
  - destruct (s_fin s); [apply Herr|]. apply sinv_on_work; auto. intro z. apply u_soa_state.
  - destruct (s_fin s); [apply Herr|].
    assert (H1 : sinv z0 (commit false (on_work (u_soa ttl d) s))).
    { apply sinv_commit. apply sinv_on_work; auto. intro z. apply u_soa_state. }
    destruct (sinv_misc z0 _ H1) as (_ & Hf & _). apply Hf.
  - destruct (sinv_misc z0 _ (sinv_rollback z0 s Hs)) as (_ & Hf & _). apply Hf.
  - exact Hopen.
  - apply sinv_on_work; auto. intro z. destruct (u_ops_state z) as [H _]. apply H.
  - apply sinv_on_work; auto. intro z. destruct (u_ops_state z) as [_ H]. apply H.
  - apply sinv_commit. exact Hs.
  - apply sinv_rollback. exact Hs.
Qed.

(* the builder keeps labels unique *)
Lemma b_node_wfu p f z : keeps_children f -> wfu z -> wfu (b_node p f z).
Proof. intros Hf H. apply with_path_wfu; auto. intros x Hx. apply kc_wfu; auto. Qed.

Lemma zf_build_wfu zf : wfu (fst (zf_build zf)).
Proof.
  rewrite zf_build_unfold.
  assert (G1 : forall G C acc, wfu (fst acc) -> wfu (fst (fold_left (F1 G) C acc))).
  { induction C as [|[o [ns ds]] C IH]; intros [z ok] Hz; simpl in *; auto. apply IH.
    destruct ns as [ns|]; simpl; auto. destruct o; simpl; auto. apply b_node_wfu; auto. apply kc_set_special. }
  assert (G2 : forall A acc, wfu (fst acc) -> wfu (fst (fold_left F2 A acc))).
  { induction A as [|[o c] A IH]; intros [z ok] Hz; simpl in *; auto. apply IH.
    destruct o; simpl; auto. apply b_node_wfu; auto. apply kc_set_special. }
  assert (G3 : forall N acc, wfu (fst acc) -> wfu (fst (fold_left F3 N acc))).
  { induction N as [|[o rs] N IH]; intros [z ok] Hz; simpl in *; auto. apply IH. simpl.
    revert z Hz. induction rs as [|r rs IHr]; intros z Hz; simpl; auto. apply IHr.
    unfold insert_rrset. apply b_node_wfu; auto. apply kc_map_rrsets. }
  apply G3. apply G2. apply G1. apply wfu_empty.
Qed.

(* ------------------------------------------------------------------ zone file, then safe updates *)
Definition zone_file_only (zs : list op) : bool := forallb (fun o => match o with OZRec _ => true | _ => false end) zs.

Record prebuilt (s : state) : Prop := mkPre {
  pb_built : s_built s = false; pb_work : s_work s = None; pb_builder : wfu (s_builder s) }.

Lemma prebuilt_init : prebuilt init_state.
Proof. constructor; simpl; auto. apply wfu_empty. Qed.

Lemma prebuilt_zrec i s g : prebuilt s -> prebuilt (step i s (OZRec g)).
Proof.
  intros [Hb Hw Hbu]. unfold step. cbn [is_history].
  destruct (zf_insert g _); constructor; simpl; auto.
Qed.

Lemma run_zs : forall zs i s, zone_file_only zs = true -> prebuilt s ->
  exists j s', prebuilt s' /\ forall us, run_from i s (zs ++ us) = run_from j s' us.
Proof.
  induction zs as [|o zs IH]; intros i s Hz Hs.
  - exists i, s. auto.
  - simpl in Hz. apply andb_true_iff in Hz. destruct Hz as [Ho Hz]. destruct o; try discriminate.
    destruct (IH (i + 1) (step i s (OZRec g)) Hz (prebuilt_zrec i s g Hs)) as (j & s' & Hp & Hr).
    exists j, s'. split; [exact Hp|]. intro us. simpl. apply Hr.
Qed.

Lemma finish_idem i s : finish_build i (finish_build i s) = finish_build i s.
Proof.
  unfold finish_build at 2 3. destruct (s_built s) eqn:E; [apply finish_built; exact E|].
  destruct (s_zf s) as [zf|]; [destruct (zf_build zf) as [z ok]; destruct ok|]; apply finish_built; reflexivity.
Qed.

Lemma step_history_finish i s o : is_history o = true -> step i (finish_build i s) o = step i s o.
Proof. intro H. unfold step. rewrite H, finish_idem. reflexivity. Qed.

Lemma safe_is_history o : safe_op o = true -> is_history o = true.
Proof. destruct o; simpl; auto; discriminate. Qed.

Lemma run_from_finish us i s : forallb safe_op us = true -> run_from i (finish_build i s) us = run_from i s us.
Proof.
  destruct us as [|o us]; intro H; simpl.
  - rewrite finish_idem. reflexivity.
  - simpl in H. apply andb_true_iff in H. destruct H as [Ho _]. rewrite step_history_finish by (apply safe_is_history; exact Ho). reflexivity.
Qed.

Lemma sinv_finish i s : prebuilt s -> sinv (s_comm (finish_build i s)) (finish_build i s).
Proof.
  intros [Hb Hw Hbu]. unfold finish_build. rewrite Hb.
  destruct (s_zf s) as [zf|].
  - pose proof (zf_build_wfu zf) as Hz. destruct (zf_build zf) as [z ok]. simpl in Hz.
    destruct ok; constructor; simpl; auto; intros; discriminate.
  - constructor; simpl; auto. intros; discriminate.
Qed.

Lemma sinv_run z0 : forall us i s, forallb safe_op us = true -> sinv z0 s -> sinv z0 (run_from i s us).
Proof.
  induction us as [|o us IH]; intros i s Hu Hs; simpl.
  - apply sinv_rollback. rewrite finish_built by (apply (si_built _ _ Hs)). exact Hs.
  - simpl in Hu. apply andb_true_iff in Hu. destruct Hu as [Ho Hu]. apply IH; auto. apply sinv_step; auto.
Qed.

(* safe updater operations (including a dropped updater, handled by the final
   rollback) leave the delegation / alias state exactly as the zone file built it *)
Theorem safe_history_state zs us : zone_file_only zs = true -> forallb safe_op us = true ->
  wfu (run (zs ++ us)) /\ wfu (run zs) /\ forall p, cspecial_at (run (zs ++ us)) p = cspecial_at (run zs) p.
Proof.
  intros Hz Hu. unfold run, run_ops.
  destruct (run_zs zs 0 init_state Hz prebuilt_init) as (j & s' & Hp & Hr).
  rewrite (Hr us). pose proof (Hr []) as H0. rewrite app_nil_r in H0. rewrite H0.
  rewrite <- (run_from_finish us j s' Hu). rewrite <- (run_from_finish [] j s' eq_refl).
  pose proof (sinv_finish j s' Hp) as Hs. set (sB := finish_build j s') in *.
  destruct (sinv_run _ us j sB Hu Hs) as [_ [Hc1 Hc2] _].
  destruct (sinv_run _ [] j sB eq_refl Hs) as [_ [Hd1 Hd2] _].
  split; [exact Hc1|]. split; [exact Hd1|]. intro p. rewrite Hc2, Hd2. reflexivity.
Qed.

(* History independence with delegations: a zone-file zone updated by safe
   operations answers like any tree [t] with unique labels that holds the same
   RRsets and has the delegation / alias state of the original zone file -- e.g.
   the zone rebuilt from the final records, when the updates did not touch
   delegation, alias or glue records. *)
Theorem safe_history_independent zs us t : zone_file_only zs = true -> forallb safe_op us = true ->
  wfu t -> (forall p, rrsets_at (run (zs ++ us)) p = rrsets_at t p) ->
  (forall p, cspecial_at (run zs) p = cspecial_at t p) -> cspecial_at t [] = None ->
  forall q qt, query (run (zs ++ us)) q qt = query t q qt.
Proof.
  intros Hz Hu Ht HR HS H0. destruct (safe_history_state zs us Hz Hu) as (Hw & _ & Hc).
  apply same_state_same_answers; auto.
  - intro p. rewrite Hc. apply HS.
  - rewrite Hc, HS. exact H0.
Qed.

Lemma zone_file_wfu zs : zone_file_only zs = true -> wfu (run zs).
Proof. intro H. destruct (safe_history_state zs [] H eq_refl) as (_ & Hw & _). exact Hw. Qed.

(* non-vacuity: a zone with a delegation (glue) and an alias, a record added
   below an empty non-terminal and one deleted, compared with the rebuilt zone *)
Definition zs_ex : list op :=
  [OZRec soa1; OZRec (mkG [lsub] rt_ns 300 (mkRd 0 (Some [lsub; lns]))); OZRec (mkG [lsub; lns] T_A 77 (tok 7));
   OZRec (mkG [lal] rt_cname 200 (mkRd 0 (Some [lfoo]))); OZRec (mkG [lfoo] T_A 101 (tok 4))].
Definition us_ex : list op :=
  [OUNew; OUAdd (mkG [lb; la] T_A 101 (tok 5)); OUDel (mkG [lfoo] T_A 101 (tok 4)); OUFin 60 (tok 1)].
Definition zs_ex' : list op :=
  [OZRec soa1; OZRec (mkG [lsub] rt_ns 300 (mkRd 0 (Some [lsub; lns]))); OZRec (mkG [lsub; lns] T_A 77 (tok 7));
   OZRec (mkG [lal] rt_cname 200 (mkRd 0 (Some [lfoo]))); OZRec (mkG [lb; la] T_A 101 (tok 5))].
Example safe_example :
  zone_file_only zs_ex = true /\ forallb safe_op us_ex = true /\ zone_file_only zs_ex' = true /\
  cspecial_at (run zs_ex) [lsub] = cspecial_at (run zs_ex') [lsub] /\ cspecial_at (run zs_ex) [lsub] <> None /\
  rrsets_at (run (zs_ex ++ us_ex)) [lb; la] = rrsets_at (run zs_ex') [lb; la] /\
  query (run (zs_ex ++ us_ex)) [lsub; lb] T_A = query (run zs_ex') [lsub; lb] T_A /\
  query (run (zs_ex ++ us_ex)) [lfoo] T_A = query (run zs_ex') [lfoo] T_A /\
  query (run (zs_ex ++ us_ex)) [lb] T_A = query (run zs_ex') [lb] T_A.
Proof. repeat split; try (vm_compute; reflexivity). vm_compute. discriminate. Qed.

(* purely syntactic: two safe update histories of the same zone file that end
   with the same RRsets answer identically (whatever nodes, markers and
   intermediate versions each of them produced) *)
Theorem safe_histories_confluent zs us us' : zone_file_only zs = true ->
  forallb safe_op us = true -> forallb safe_op us' = true ->
  (forall p, rrsets_at (run (zs ++ us)) p = rrsets_at (run (zs ++ us')) p) ->
  cspecial_at (run zs) [] = None ->
  forall q qt, query (run (zs ++ us)) q qt = query (run (zs ++ us')) q qt.
Proof.
  intros Hz Hu Hu' HR H0.
  destruct (safe_history_state zs us' Hz Hu') as (Hw' & _ & Hc').
  apply (safe_history_independent zs us (run (zs ++ us')) Hz Hu Hw' HR).
  - intro p. symmetry. apply Hc'.
  - rewrite Hc'. exact H0.
Qed.
