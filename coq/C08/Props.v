(* C08 -- property theorems only.  Proofs live in C08/Proofs*.v. *)
From Coq Require Import NArith List Bool Permutation.
From DV Require Import Base.Outcome C08.Gen C08.Model C08.Spec C08.ProofsQuery C08.ProofsBuild C08.ProofsHist C08.ProofsGood C08.ProofsPlain C08.ProofsGroup C08.ProofsSafe C08.ProofsTree C08.ProofsSafe2 C08.ToMessage C08.ProofsOrder C08.ProofsSafe3 C08.ProofsNeg.
From DV Require C02.Model C02.ProofsTotal.
Import ListNotations.
Local Open Scope N_scope.

Theorem C08_query_is_rfc_lookup : forall z q qt, clean (n_special z) = None ->
  query z q qt = finish (get_soa z) (vspec (lview z) q qt).
Proof. exact query_is_vspec. Qed.
Print Assumptions C08_query_is_rfc_lookup.

Theorem C08_build_answers_spec : forall zf, wf_zone zf = true ->
  forall q qt, query (fst (zf_build zf)) q qt = spec zf q qt.
Proof. exact build_answers_spec. Qed.
Print Assumptions C08_build_answers_spec.

(* zones given as flat record lists: Zonefile::insert groups the records into RRsets *)
Theorem C08_grouping : forall rs, accepted rs = true ->
  forall o t, zf_rrset (zf_of_records rs) o t = group rs o t.
Proof. exact grouping. Qed.
Print Assumptions C08_grouping.

Theorem C08_build_answers_spec_records : forall rs, accepted rs = true -> wf_zone (zf_of_records rs) = true ->
  forall q qt, query (build rs) q qt = spec (zf_of_records rs) q qt /\
               (forall o t, zf_rrset (zf_of_records rs) o t = group rs o t).
Proof. exact build_answers_spec_records. Qed.
Print Assumptions C08_build_answers_spec_records.

Theorem C08_accepted_records_build : forall rs, accepted rs = true ->
  wf_zone (zf_of_records rs) = buildable (zf_of_records rs) /\
  snd (zf_build (zf_of_records rs)) = buildable (zf_of_records rs) /\
  (buildable (zf_of_records rs) = true -> forall q qt, query (build rs) q qt = spec (zf_of_records rs) q qt).
Proof. exact accepted_records_build. Qed.
Print Assumptions C08_accepted_records_build.

(* ZoneTree: the set of zones *)
Theorem C08_zonetree_find_closest : forall q n, zt_find n q = last_some (map (zt_get n) (prefixes q)).
Proof. exact zt_find_closest. Qed.
Print Assumptions C08_zonetree_find_closest.

Theorem C08_zonetree_insert_spec : forall p z n,
  match zt_insert p z n with
  | Ok n' => zt_get n p = None /\ forall p', zt_get n' p' = if name_eqb p' p then Some z else zt_get n p'
  | Err e => e = E_ZoneExists /\ zt_get n p <> None
  | _ => False
  end.
Proof. exact zt_insert_spec. Qed.
Print Assumptions C08_zonetree_insert_spec.

Theorem C08_zonetree_remove_spec_if_recursive : zremove_recursive = true -> forall p n,
  match zt_remove p n with
  | Ok n' => zt_get n p <> None /\ forall p', zt_get n' p' = if name_eqb p' p then None else zt_get n p'
  | Err e => e = E_ZoneDoesNotExist /\ zt_get n p = None
  | _ => False
  end.
Proof. exact zt_remove_spec_if_recursive. Qed.
Print Assumptions C08_zonetree_remove_spec_if_recursive.

Theorem C08_zonetree_remove_zone_not_recursive_refuted : zremove_recursive = false ->
  exists t p p', zt_get t p = None /\ zt_get t p' <> None /\
    match zt_remove p t with Ok t' => zt_get t' p' = None | _ => False end.
Proof. exact zt_remove_refuted_if_not_recursive. Qed.
Print Assumptions C08_zonetree_remove_zone_not_recursive_refuted.

Theorem C08_any_answer_is_member : forall z q r, clean (n_special z) = None ->
  a_content (query z q rt_any) = AData r -> exists p x, node_at z p = Some x /\ In r (n_rrsets x).
Proof. exact any_answer_is_member. Qed.
Print Assumptions C08_any_answer_is_member.

Theorem C08_build_view : forall zf, wf_zone zf = true ->
  snd (zf_build zf) = true /\ (forall p, view_of (fst (zf_build zf)) p = flat_view zf p) /\
  (forall p, lview (fst (zf_build zf)) p = flat_view zf p).
Proof. intros zf H. destruct (build_view zf H). repeat split; auto. exact (build_lview zf H). Qed.
Print Assumptions C08_build_view.

Theorem C08_build_order_independent : forall N N' C C' A A',
  Permutation N N' -> Permutation C C' -> Permutation A A' ->
  wf_zone (mkZf N C A) = true -> wf_zone (mkZf N' C' A') = true ->
  forall q qt, query (fst (zf_build (mkZf N C A))) q qt = query (fst (zf_build (mkZf N' C' A'))) q qt.
Proof. exact build_order_independent. Qed.
Print Assumptions C08_build_order_independent.

Theorem C08_answers_depend_on_view_only : forall t zf, wf_zone zf = true -> represents t zf ->
  forall q qt, query t q qt = spec zf q qt /\ query t q qt = query (fst (zf_build zf)) q qt.
Proof. exact answers_depend_on_view_only. Qed.
Print Assumptions C08_answers_depend_on_view_only.

Theorem C08_history_independent : forall h zf, wf_zone zf = true -> represents (run h) zf ->
  forall q qt, query (run h) q qt = query (fst (zf_build zf)) q qt /\ query (run h) q qt = spec zf q qt.
Proof. exact history_independent. Qed.
Print Assumptions C08_history_independent.

(* histories without NS / DS below the apex and without CNAME: builder, zone file,
   ZoneUpdater (incl. DeleteAllRecords, dropped updaters), write interface *)
Theorem C08_plain_history_tree : forall h, no_special_records h = true -> wfp (run h).
Proof. exact plain_history_tree. Qed.
Print Assumptions C08_plain_history_tree.

Theorem C08_plain_same_answers : forall t t', wfp t -> wfp t' ->
  (forall p, rrsets_at t p = rrsets_at t' p) -> forall q qt, query t q qt = query t' q qt.
Proof. exact plain_same_answers. Qed.
Print Assumptions C08_plain_same_answers.

Theorem C08_plain_history_independent : forall h h',
  no_special_records h = true -> no_special_records h' = true ->
  (forall p, rrsets_at (run h) p = rrsets_at (run h') p) ->
  forall q qt, query (run h) q qt = query (run h') q qt.
Proof. exact plain_history_independent. Qed.
Print Assumptions C08_plain_history_independent.

(* zones with delegations / aliases built from a zone file, then RRset-level updater operations *)
Theorem C08_same_state_same_answers : forall t t', wfu t -> wfu t' ->
  (forall p, rrsets_at t p = rrsets_at t' p) -> (forall p, cspecial_at t p = cspecial_at t' p) ->
  cspecial_at t [] = None -> forall q qt, query t q qt = query t' q qt.
Proof. exact same_state_same_answers. Qed.
Print Assumptions C08_same_state_same_answers.

Theorem C08_safe_history_state : forall zs us, zone_file_only zs = true -> forallb safe_op us = true ->
  wfu (run (zs ++ us)) /\ wfu (run zs) /\ forall p, cspecial_at (run (zs ++ us)) p = cspecial_at (run zs) p.
Proof. exact safe_history_state. Qed.
Print Assumptions C08_safe_history_state.

Theorem C08_safe_history_independent : forall zs us t, zone_file_only zs = true -> forallb safe_op us = true ->
  wfu t -> (forall p, rrsets_at (run (zs ++ us)) p = rrsets_at t p) ->
  (forall p, cspecial_at (run zs) p = cspecial_at t p) -> cspecial_at t [] = None ->
  forall q qt, query (run (zs ++ us)) q qt = query t q qt.
Proof. exact safe_history_independent. Qed.
Print Assumptions C08_safe_history_independent.

Theorem C08_safe_histories_confluent : forall zs us us', zone_file_only zs = true ->
  forallb safe_op us = true -> forallb safe_op us' = true ->
  (forall p, rrsets_at (run (zs ++ us)) p = rrsets_at (run (zs ++ us')) p) ->
  cspecial_at (run zs) [] = None ->
  forall q qt, query (run (zs ++ us)) q qt = query (run (zs ++ us')) q qt.
Proof. exact safe_histories_confluent. Qed.
Print Assumptions C08_safe_histories_confluent.

(* operations that change the delegation / alias state: DeleteAllRecords, remove_all,
   make_zone_cut, make_cname, make_regular; the state after a history is computed from the operations *)
Theorem C08_ext_safe_history_state : forall zs us, zone_file_only zs = true -> forallb ext_safe_op us = true ->
  wfu (run (zs ++ us)) /\ forall p, cspecial_at (run (zs ++ us)) p = sp_final us (cspecial_at (run zs)) p.
Proof. exact ext_safe_history_state. Qed.
Print Assumptions C08_ext_safe_history_state.

Theorem C08_zone_file_state : forall rs, accepted rs = true -> buildable (zf_of_records rs) = true ->
  forall p, cspecial_at (run (map OZRec rs)) p = zf_state (zf_of_records rs) p.
Proof. exact zone_file_state. Qed.
Print Assumptions C08_zone_file_state.

Theorem C08_ext_safe_history_independent : forall rs us t,
  accepted rs = true -> buildable (zf_of_records rs) = true -> forallb ext_safe_op us = true ->
  wfu t -> (forall p, rrsets_at (run (map OZRec rs ++ us)) p = rrsets_at t p) ->
  (forall p, cspecial_at t p = sp_final us (zf_state (zf_of_records rs)) p) ->
  cspecial_at t [] = None ->
  forall q qt, query (run (map OZRec rs ++ us)) q qt = query t q qt.
Proof. exact ext_safe_history_independent. Qed.
Print Assumptions C08_ext_safe_history_independent.

Theorem C08_history_vs_rebuilt : forall rs us rs',
  accepted rs = true -> buildable (zf_of_records rs) = true -> forallb ext_safe_op us = true ->
  accepted rs' = true -> buildable (zf_of_records rs') = true ->
  (forall p, rrsets_at (run (map OZRec rs ++ us)) p = rrsets_at (run (map OZRec rs')) p) ->
  (forall p, zf_state (zf_of_records rs') p = sp_final us (zf_state (zf_of_records rs)) p) ->
  forall q qt, query (run (map OZRec rs ++ us)) q qt = query (run (map OZRec rs')) q qt.
Proof. exact history_vs_rebuilt. Qed.
Print Assumptions C08_history_vs_rebuilt.

(* premises on record lists only *)
Theorem C08_entry_order : forall rs, accepted rs = true -> forall o, entry_types (zf_of_records rs) o = ntypes rs o.
Proof. exact entry_order. Qed.
Print Assumptions C08_entry_order.

Theorem C08_zf_state_records : forall rs, accepted rs = true -> buildable (zf_of_records rs) = true ->
  forall p, zf_state (zf_of_records rs) p = rec_state rs p.
Proof. exact zf_state_records. Qed.
Print Assumptions C08_zf_state_records.

Theorem C08_history_vs_rebuilt_records : forall rs us rs',
  accepted rs = true -> buildable (zf_of_records rs) = true -> forallb ext_safe_op us = true ->
  accepted rs' = true -> buildable (zf_of_records rs') = true ->
  (forall p, rrsets_at (run (map OZRec rs ++ us)) p = rrsets_at (run (map OZRec rs')) p) ->
  (forall p, rec_state rs' p = sp_final us (rec_state rs) p) ->
  forall q qt, query (run (map OZRec rs ++ us)) q qt = query (run (map OZRec rs')) q qt.
Proof. exact history_vs_rebuilt_records. Qed.
Print Assumptions C08_history_vs_rebuilt_records.

(* BeginBatchDelete inside histories that change the delegation / alias state: the state machine also
   tracks the serial of the published and of the working tree, on which the commit depends *)
Theorem C08_safe3_history_state : forall zs us, zone_file_only zs = true -> forallb safe3_op us = true ->
  wfu (run (zs ++ us)) /\
  forall p, cspecial_at (run (zs ++ us)) p = sp_final3 us (cspecial_at (run zs)) (soa_of (run zs)) p.
Proof. exact safe3_history_state. Qed.
Print Assumptions C08_safe3_history_state.

Theorem C08_history_vs_rebuilt_records3 : forall rs us rs',
  accepted rs = true -> buildable (zf_of_records rs) = true -> forallb safe3_op us = true ->
  accepted rs' = true -> buildable (zf_of_records rs') = true ->
  (forall p, rrsets_at (run (map OZRec rs ++ us)) p = rrsets_at (run (map OZRec rs')) p) ->
  (forall p, rec_state rs' p = sp_final3 us (rec_state rs) (rec_soa rs) p) ->
  forall q qt, query (run (map OZRec rs ++ us)) q qt = query (run (map OZRec rs')) q qt.
Proof. exact history_vs_rebuilt_records3. Qed.
Print Assumptions C08_history_vs_rebuilt_records3.

Theorem C08_zonetree_classes_isolated : forall c p z r r' c' q, c' <> c ->
  (zr_insert c p z r = Ok r' \/ zr_remove c p r = Ok r') ->
  zr_find c' q r' = zr_find c' q r /\ zr_getz c' q r' = zr_getz c' q r.
Proof. exact zonetree_classes_isolated. Qed.
Print Assumptions C08_zonetree_classes_isolated.

Theorem C08_zonetree_find_in_class : forall c q r,
  zr_find c q r = match zr_get c r with Some n => last_some (map (zt_get n) (prefixes q)) | None => None end.
Proof. exact zonetree_find_in_class. Qed.
Print Assumptions C08_zonetree_find_in_class.

(* to_message when a record does not fit: the unwrapping shape panics, the truncating shape keeps the prefix and sets TC *)
Theorem C08_to_message_panics_when_answer_does_not_fit_refuted :
  to_message_truncates = false -> c08_tomsg (Some 512) false ex_qname 1 40 4 = None.
Proof. exact to_message_unwrap_panics. Qed.
Print Assumptions C08_to_message_panics_when_answer_does_not_fit_refuted.

Theorem C08_to_message_truncating_flags : to_message_truncates = true ->
  c08_tomsg (Some 512) false ex_qname 1 40 4 = Some (15, true) /\ c08_tomsg None false ex_qname 1 40 4 = Some (40, false).
Proof. exact to_message_truncating_flags. Qed.
Print Assumptions C08_to_message_truncating_flags.

Theorem C08_referral_carries_glue : forall zf q qt p c, wf_zone zf = true ->
  find_cut (flat_view zf) q = Some (p, c) -> (name_eqb p q && (qt =? rt_ds)) = false ->
  exists ns ds, alookup p (zf_cuts zf) = Some (Some ns, ds) /\
    let a := query (fst (zf_build zf)) q qt in
    a_rcode a = rc_noerror /\ a_aa a = false /\ a_content a = ANoData /\
    a_auth a = Some (mkAuth p None (Some ns) ds) /\
    forall g, In g (a_addl a) <-> is_glue_of (zf_normal zf) ns g.
Proof. exact referral_carries_glue. Qed.
Print Assumptions C08_referral_carries_glue.

Theorem C08_known_classes_break_representation : forall t zf p x, node_at t p = Some x ->
  (is_apex p || node_exists x = true -> clean (n_special x) <> i_special (info_at_g (zf_normal zf) zf p) -> ~ represents t zf) /\
  (node_exists x = true -> exists_name zf p = false -> ~ represents t zf).
Proof.
  intros t zf p x H. split.
  - exact (special_mismatch_not_represented t zf p x H).
  - exact (surviving_name_not_represented t zf p x H).
Qed.
Print Assumptions C08_known_classes_break_representation.

Theorem C08_updater_ns_not_cut_refuted :
  exists h q qt, a_aa (query (run h) q qt) = true /\
                 a_aa (query (build (content h)) q qt) = false /\
                 a_addl (query (build (content h)) q qt) <> [] /\ ~ history_ok h q qt.
Proof. exact updater_ns_not_cut_refuted. Qed.
Print Assumptions C08_updater_ns_not_cut_refuted.

Theorem C08_updater_cname_not_special_refuted :
  exists h q qt, a_content (query (run h) q qt) = ANoData /\
                 (exists c, a_content (query (build (content h)) q qt) = ACname c) /\ ~ history_ok h q qt.
Proof. exact updater_cname_not_special_refuted. Qed.
Print Assumptions C08_updater_cname_not_special_refuted.

Theorem C08_special_survives_delete_refuted :
  exists h q qt, (exists c, a_content (query (run h) q qt) = ACname c) /\
                 a_rcode (query (build (content h)) q qt) = rc_nxdomain /\ ~ history_ok h q qt.
Proof. exact special_survives_delete_refuted. Qed.
Print Assumptions C08_special_survives_delete_refuted.

(* Answer::to_message over C02's message-builder model: if the pushed items are well formed and no
   push fails (each is unwrapped), the octets parse back to exactly the Answer's sections, in order *)
Theorem C08_to_message_parses_to_answer :
  forall (enc_name : name -> DV.Base.Names.name) (enc_rdata : rtype -> rdata -> list C02.Model.ritem) (prefixed : rtype -> bool)
         (qname : DV.Base.Names.name) (qtype qclass rid ropcode : N) (rrd : bool) (glue_class : N)
         c s0 a s acc ws,
  C02.Model.init c = Some s0 ->
  Forall C02.ProofsTotal.wf_op_sized (to_message_ops enc_name enc_rdata prefixed qname qtype qclass rid ropcode rrd glue_class a) ->
  C02.Model.run_acc c s0 C02.Model.acc0 (to_message_ops enc_name enc_rdata prefixed qname qtype qclass rid ropcode rrd glue_class a) = (s, acc, ws) ->
  no_push_failed ws ->
  exists parsed, C02.Model.rd_message (C02.Model.msg_of s) (intended enc_name enc_rdata prefixed qname qtype qclass glue_class a) = Ok parsed /\
                 C02.Model.acc_eqb parsed (intended enc_name enc_rdata prefixed qname qtype qclass glue_class a) = true.
Proof. exact to_message_parses_to_answer. Qed.
Print Assumptions C08_to_message_parses_to_answer.

(* round 5: negative answers of ANY tree (whatever its history) carry the SOA; only referrals are not authoritative *)
Theorem C08_negative_carries_soa : forall z q qt s, get_soa z = Some s ->
  a_content (query z q qt) = ANoData -> a_aa (query z q qt) = true ->
  a_auth (query z q qt) = Some (mkAuth [] (Some s) None None) /\ a_addl (query z q qt) = [].
Proof. exact negative_carries_soa. Qed.
Print Assumptions C08_negative_carries_soa.

Theorem C08_nxdomain_answer_form : forall z q qt, a_rcode (query z q qt) = rc_nxdomain ->
  a_content (query z q qt) = ANoData /\ a_aa (query z q qt) = true /\ a_addl (query z q qt) = [] /\
  a_auth (query z q qt) = match get_soa z with Some s => Some (mkAuth [] (Some s) None None) | None => None end.
Proof. exact nxdomain_answer_form. Qed.
Print Assumptions C08_nxdomain_answer_form.

Theorem C08_non_authoritative_is_referral : forall z q qt, a_aa (query z q qt) = false ->
  exists c, a_auth (query z q qt) = Some (mkAuth (c_name c) None (Some (c_ns c)) (c_ds c)) /\
            a_addl (query z q qt) = c_glue c /\ a_content (query z q qt) = ANoData /\
            a_rcode (query z q qt) = rc_noerror.
Proof. exact non_authoritative_is_referral. Qed.
Print Assumptions C08_non_authoritative_is_referral.

(* built zones: NODATA for existing names (empty non-terminals included), NXDOMAIN exactly when neither
   the name nor the closest encloser's wildcard exists, wildcard synthesis otherwise *)
Theorem C08_nodata_for_existing_names : forall zf q qt, wf_zone zf = true ->
  find_cut (flat_view zf) q = None -> exists_name zf q = true ->
  alookup q (zf_cuts zf) = None -> alookup q (zf_cnames zf) = None ->
  match alookup q (zf_normal zf) with
  | None => True
  | Some rs => qt <> rt_any /\ get_rrset qt rs = None
  end ->
  query (fst (zf_build zf)) q qt = finish (C08.Spec.soa_of zf) spec_nodata.
Proof. exact nodata_for_existing_names. Qed.
Print Assumptions C08_nodata_for_existing_names.

Theorem C08_nxdomain_iff : forall zf q qt, wf_zone zf = true ->
  (a_rcode (query (fst (zf_build zf)) q qt) = rc_nxdomain <->
   find_cut (flat_view zf) q = None /\ exists_name zf q = false /\
   exists_name zf (closest_encloser (flat_view zf) q ++ [wild_label]) = false).
Proof. exact nxdomain_iff. Qed.
Print Assumptions C08_nxdomain_iff.

Theorem C08_wildcard_synthesis : forall zf q qt, wf_zone zf = true ->
  find_cut (flat_view zf) q = None -> exists_name zf q = false ->
  exists_name zf (closest_encloser (flat_view zf) q ++ [wild_label]) = true ->
  query (fst (zf_build zf)) q qt =
  finish (C08.Spec.soa_of zf) (spec_at (info_at_g (zf_normal zf) zf (closest_encloser (flat_view zf) q ++ [wild_label])) qt) /\
  a_rcode (query (fst (zf_build zf)) q qt) = rc_noerror.
Proof. exact wildcard_synthesis. Qed.
Print Assumptions C08_wildcard_synthesis.

(* ZoneTree::iter_zones lists every zone get_zone finds, in every class *)
Theorem C08_zonetree_get_in_iter : forall c p r z, zr_getz c p r = Some z -> In z (zr_list r).
Proof. exact zonetree_get_in_iter. Qed.
Print Assumptions C08_zonetree_get_in_iter.
