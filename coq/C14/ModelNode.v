(* C14 model, validity of cached nodes (whole seconds): context.rs Node::trust_anchor
   and create_child_node compute how long a secure node may be used from the
   cache; utilities.rs ttl_for_sig is the remaining lifetime of a signature,
   capped by its TTL and original TTL.  T1 tells which limits the code applies.
   A node is used from the cache while elapsed <= valid_for (Node::expired). *)
From Coq Require Import NArith List Bool.
Import ListNotations.
From DV Require Import Base.Outcome C17.Model C14.Gen C14.Model.
Local Open Scope N_scope.

Record sigttl := mkST { st_rr_ttl : N; st_orig_ttl : N; st_expiration : N }.

Definition ttl_for_sig (now : N) (s : sigttl) : outcome N :=
  do u <- ttl_until_expired now (st_expiration s);
  Ok (N.min (N.min (st_rr_ttl s) (st_orig_ttl s)) u).

Definition lim (on : bool) (t : N) (x : outcome N) : outcome N :=
  if on then do v <- x; Ok (N.min t v) else Ok t.

(* Node::trust_anchor: max_node_validity, TTL of the DNSKEY RRset, the validating signature *)
Definition anchor_valid_for (now max_validity dnskey_ttl : N) (sg : sigttl) : outcome N :=
  do t <- lim anchor_node_limited_by_dnskey_ttl max_validity (Ok dnskey_ttl);
  lim anchor_node_limited_by_sig t (ttl_for_sig now sg).

(* create_child_node: what is left of the parent node, TTL and validating signature of the
   DS RRset, TTL and validating signature of the DNSKEY RRset *)
Definition child_valid_for (now parent_left ds_ttl : N) (ds_sig : sigttl) (dnskey_ttl : N) (key_sig : sigttl) : outcome N :=
  do t1 <- (if child_node_limited_by_ds
            then do s <- lim group_ttl_limited_by_sig (N.min parent_left ds_ttl) (ttl_for_sig now ds_sig);
                 Ok (N.min (N.min parent_left ds_ttl) s)
            else Ok parent_left);
  do t2 <- lim child_node_limited_by_dnskey_ttl t1 (Ok dnskey_ttl);
  lim child_node_limited_by_dnskey_sig t2 (ttl_for_sig now key_sig).

(* cache_lookup at time now2 of a node created at now1 *)
Definition node_usable (now1 valid_for now2 : N) : bool := negb (valid_for <? now2 - now1).

(* the end-to-end rollover run: a key of the DNSKEY RRset validated at now1 is withdrawn;
   is data signed with it still accepted at now2? (anchor: no parent / DS) *)
Definition anchor_still_trusts (now1 now2 max_validity dnskey_ttl : N) (sg : sigttl) : outcome bool :=
  do v <- anchor_valid_for now1 max_validity dnskey_ttl sg; Ok (node_usable now1 v now2).
Definition child_still_trusts (now1 now2 parent_left ds_ttl : N) (ds_sig : sigttl) (dnskey_ttl : N) (key_sig : sigttl) : outcome bool :=
  do v <- child_valid_for now1 parent_left ds_ttl ds_sig dnskey_ttl key_sig; Ok (node_usable now1 v now2).
