(* C14, proof-only extension (nothing here is extracted): the positive path of validate_msg
   including CNAME steps through wildcard-expanded CNAMEs and a wildcard-expanded answering
   group.  utilities.rs do_cname_dname: a CNAME group at the current name whose RRSIG labels
   field says "expanded from a wildcard" is followed only if check_not_exists_for_wildcard
   proves that the name itself does not exist (with the same closest encloser); the state
   of that proof joins the chain.  C14.Model.positive_answer_state answers None ("not
   covered") in these cases; positive_full below decides them and agrees with it elsewhere. *)
From Coq Require Import NArith List Bool.
Import ListNotations.
From DV Require Import Base.Outcome Base.Bytes Base.Lex Base.Names.
From DV Require Import C18.Model C14.Gen C14.Model C14.ModelN3 C14.ModelWild.
Local Open Scope N_scope.

(* an answer group with what the wildcard check needs: closest encloser and signer *)
Record wgroup := mkW { w_g : agroup; w_ce : option name; w_signer : name }.
Definition wf_wgroup (w : wgroup) : Prop := a_wild (w_g w) = match w_ce w with Some _ => true | None => false end.

Section WC.
Variable H : N -> bytes -> name -> bytes.
Variable ci cb : N.
Variable ngs : list vgroup.        (* validated NSEC groups of the authority section *)
Variable n3gs : list n3group.      (* validated NSEC3 groups of the authority section *)

Definition wild_check (nm signer ce : name) : outcome (bool * vstate) :=
  check_not_exists_for_wildcard H ci cb nm ngs n3gs signer ce.

Fixpoint cname_find_w (nm : name) (qtype : N) (gs : list wgroup) : outcome (option (name * vstate)) :=
  match gs with
  | [] => Ok None
  | w :: r =>
      let g := w_g w in
      if negb (a_class_ok g) then cname_find_w nm qtype r
      else if (a_rtype g =? rt_CNAME) && (a_rtype g =? qtype) then cname_find_w nm qtype r
      else if negb (a_nrr g =? 1) then cname_find_w nm qtype r
      else match a_cname g with
           | Some tgt =>
               if negb (name_eqb (a_owner g) nm) then cname_find_w nm qtype r
               else match w_ce w with
                    | None => Ok (Some (tgt, a_state g))
                    | Some ce =>
                        do c <- wild_check nm (w_signer w) ce;
                        let '(ok, s) := c in
                        if ok then Ok (Some (tgt, map_maybe_secure (a_state g) s))
                        else Ok (Some (nm, Bogus))
                    end
           | None =>
               match a_dname g with
               | Some dt =>
                   if negb (ends_with nm (a_owner g)) then cname_find_w nm qtype r
                   else if name_eqb (a_owner g) nm then cname_find_w nm qtype r
                   else if a_wild g then Ok (Some (a_owner g, Bogus))
                   else match map_dname (a_owner g) dt nm with
                        | None => Ok (Some (a_owner g, Bogus))
                        | Some res => Ok (Some (res, a_state g))
                        end
               | None => cname_find_w nm qtype r
               end
           end
  end.

Fixpoint chase_w (fuel : nat) (count maxc : N) (nm : name) (qtype : N) (gs : list wgroup) (maybe : vstate)
  : outcome (name * vstate) :=
  match fuel with
  | O => OutOfFuel
  | S fuel' =>
      do f <- cname_find_w nm qtype gs;
      match f with
      | None => Ok (nm, maybe)
      | Some (tgt, st) =>
          let maybe' := map_maybe_secure st maybe in
          if vstate_eqb st Bogus then Ok (tgt, Bogus)
          else if maxc <? count + 1 then Ok (tgt, Bogus)
          else chase_w fuel' (count + 1) maxc tgt qtype gs maybe'
      end
  end.

Fixpoint get_answer_w (qname : name) (qtype : N) (gs : list wgroup) : option wgroup :=
  match gs with
  | [] => None
  | w :: r =>
      let g := w_g w in
      if negb (a_class_ok g) then get_answer_w qname qtype r
      else if negb (a_rtype g =? qtype) then get_answer_w qname qtype r
      else if negb (name_eqb (a_owner g) qname) then get_answer_w qname qtype r
      else Some w
  end.

(* None = no group answers the chased question: the negative path decides *)
Definition positive_full (qname : name) (qtype : N) (maxc : N) (gs : list wgroup) : outcome (option vstate) :=
  match validate_groups (map (fun w => a_state (w_g w)) gs) with
  | None => Ok (Some Bogus)
  | Some _ =>
      let init := if answer_init_is_const then Secure
                  else fold_left (fun acc w => map_maybe_secure (a_state (w_g w)) acc) gs Secure in
      do r <- chase_w (S (N.to_nat maxc + 1)) 0 maxc qname qtype gs Secure;
      let '(sname, st) := r in
      let maybe := map_maybe_secure st init in
      if vstate_eqb maybe Bogus then Ok (Some Bogus)
      else match get_answer_w sname qtype gs with
           | None => Ok None
           | Some w =>
               let g := w_g w in
               if negb (vstate_eqb (a_state g) Secure) then Ok (Some (map_maybe_secure (a_state g) maybe))
               else match w_ce w with
                    | None => Ok (Some maybe)
                    | Some ce =>
                        match star_name ce with
                        | None => Ok (Some Bogus)
                        | Some star =>
                            if name_eqb sname star then Ok (Some maybe)
                            else
                              do c <- wild_check sname (w_signer w) ce;
                              let '(ok, s) := c in
                              if ok then Ok (Some (map_maybe_secure s maybe)) else Ok (Some Bogus)
                        end
                    end
           end
  end.
End WC.
