(* C14 proofs, part 1: ranges, closest encloser, NSEC denial helpers. *)
From Coq Require Import NArith List Bool Lia.
Import ListNotations.
From DV Require Import Base.Outcome Base.Bytes Base.Lex Base.Names.
From DV Require Import C17.Model C18.Model C14.Gen C14.Model.
Local Open Scope N_scope.

(* ------------------------------------------------------------ order facts *)
Definition nlt (a b : name) : Prop := name_cmp a b = Lt.
Definition hlt (a b : bytes) : Prop := lex_cmp a b = Lt.

Lemma name_cmp_gt_lt a b : name_cmp a b = Gt <-> name_cmp b a = Lt.
Proof. rewrite (name_cmp_antisym b a). destruct (name_cmp b a); simpl; split; congruence. Qed.

Lemma lex_cmp_gt_lt a b : lex_cmp a b = Gt <-> lex_cmp b a = Lt.
Proof. rewrite (lex_cmp_antisym b a). destruct (lex_cmp b a); simpl; split; congruence. Qed.

(* ------------------------------------------------------------ nsec_in_range *)
Theorem nsec_in_range_spec t o n :
  nsec_in_range t o n = true <->
  (nlt o n /\ nlt o t /\ nlt t n) \/ (~ nlt o n /\ nlt o t).
Proof.
  unfold nsec_in_range, nlt, nsec_cond_op, nsec_norm_op1, nsec_norm_and, nsec_norm_op2, nsec_wrap_op, conn, op_holds.
  pose proof (name_cmp_gt_lt t o) as Hto.
  destruct (name_cmp o n) eqn:Eon; destruct (name_cmp t o) eqn:Eto; destruct (name_cmp t n) eqn:Etn;
    cbn; split; intros H;
    try discriminate;
    try (destruct H as [(H1 & H2 & H3)|(H1 & H2)]; try congruence;
         try (apply Hto in H2; congruence); try (exfalso; apply H1; reflexivity); fail);
    try (left; repeat split; try reflexivity; apply Hto; reflexivity);
    try (right; split; [congruence|apply Hto; reflexivity]).
Qed.

Example nsec_in_range_ex :
  nsec_in_range [[98];[101;120]] [[97];[101;120]] [[99];[101;120]] = true /\   (* a.ex < b.ex < c.ex *)
  nsec_in_range [[97];[101;120]] [[97];[101;120]] [[99];[101;120]] = false /\  (* target = owner *)
  nsec_in_range [[99];[101;120]] [[97];[101;120]] [[99];[101;120]] = false /\  (* target = next *)
  nsec_in_range [[122;122];[101;120]] [[122];[101;120]] [[101;120]] = true /\  (* last NSEC, wraps to the apex *)
  nsec_in_range [[120];[101;120]] [[101;120]] [[101;120]] = true /\            (* single-record chain *)
  nsec_in_range [[66];[101;120]] [[97];[69;88]] [[99];[101;88]] = true.        (* case is ignored *)
Proof. vm_compute. repeat split. Qed.

Lemma in_range_not_owner t o n : nsec_in_range t o n = true -> name_eqb t o = false.
Proof.
  intros H. apply nsec_in_range_spec in H.
  destruct (name_eqb t o) eqn:E; [|reflexivity]. exfalso.
  apply name_cmp_eq_iff in E. assert (E2 : name_cmp o t = Eq).
  { rewrite (name_cmp_antisym t o), E. reflexivity. }
  unfold nlt in H. destruct H as [(_ & H & _)|(_ & H)]; congruence.
Qed.

Lemma in_range_not_next t o n : nsec_in_range t o n = true -> nlt o n -> name_eqb t n = false.
Proof.
  intros H Hon. apply nsec_in_range_spec in H.
  destruct (name_eqb t n) eqn:E; [|reflexivity]. exfalso.
  apply name_cmp_eq_iff in E. unfold nlt in *.
  destruct H as [(_ & _ & H)|(H & _)]; congruence.
Qed.

(* the order ignores ASCII case, hence so does the range test *)
Lemma lowers_label_cmp x y : label_cmp (lowers x) (lowers y) = label_cmp x y.
Proof. unfold label_cmp. rewrite !lowers_idem. reflexivity. Qed.

Lemma labels_cmp_canon a b : labels_cmp (map lowers a) (map lowers b) = labels_cmp a b.
Proof.
  revert b; induction a as [|x a IH]; intros [|y b]; simpl; try reflexivity.
  rewrite lowers_label_cmp, IH. reflexivity.
Qed.

Lemma name_cmp_canon a b : name_cmp (canon a) (canon b) = name_cmp a b.
Proof. unfold name_cmp, canon. rewrite <- !map_rev. apply labels_cmp_canon. Qed.

Lemma canon_idem a : canon (canon a) = canon a.
Proof. unfold canon. induction a as [|x a IH]; simpl; [reflexivity|]. rewrite lowers_idem, IH. reflexivity. Qed.

Lemma name_cmp_canon_l a b : name_cmp (canon a) b = name_cmp a b.
Proof. rewrite <- (name_cmp_canon (canon a) b), canon_idem. apply name_cmp_canon. Qed.

Theorem nsec_in_range_case_insensitive t o n :
  nsec_in_range (canon t) (canon o) (canon n) = nsec_in_range t o n.
Proof. unfold nsec_in_range. rewrite !name_cmp_canon. reflexivity. Qed.

(* ------------------------------------------------------------ nsec3_in_range *)
Theorem nsec3_in_range_spec t o n :
  nsec3_in_range t o n = true <->
  (hlt o n /\ hlt o t /\ hlt t n) \/ (~ hlt o n /\ (hlt o t \/ hlt t n)).
Proof.
  unfold nsec3_in_range, hlt, n3_cond_op, n3_norm_op1, n3_norm_and, n3_norm_op2, n3_wrap_op1, n3_wrap_and, n3_wrap_op2, conn, op_holds.
  pose proof (lex_cmp_gt_lt n o) as Hno.
  destruct (lex_cmp n o) eqn:Eno; destruct (lex_cmp o t) eqn:Eot; destruct (lex_cmp t n) eqn:Etn;
    cbn; split; intros H; try discriminate;
    try (destruct H as [(H1 & H2 & H3)|(H1 & [H2|H2])]; try congruence;
         try (assert (lex_cmp o n = Lt) by (apply Hno; reflexivity); congruence); fail);
    try (left; repeat split; try reflexivity; apply Hno; reflexivity);
    try (right; split; [intros X; apply Hno in X; congruence|auto]).
Qed.

(* both ends are excluded, also in the wrap-around case: a hash equal to the owner hash is a
   match, a hash equal to the next hash belongs to the next existing name - neither is covered *)
Theorem nsec3_in_range_strict t o n : nsec3_in_range t o n = true -> t <> o /\ t <> n.
Proof.
  intros H. apply nsec3_in_range_spec in H. unfold hlt in H.
  split; intros ->.
  - rewrite lex_cmp_refl in H. destruct H as [(_ & H & _)|(H1 & [H|H])]; try discriminate. apply H1, H.
  - rewrite lex_cmp_refl in H. destruct H as [(_ & _ & H)|(H1 & [H|H])]; try discriminate. apply H1, H.
Qed.

Example nsec3_in_range_ex :
  nsec3_in_range [5] [1] [9] = true /\ nsec3_in_range [1] [1] [9] = false /\ nsec3_in_range [9] [1] [9] = false /\
  nsec3_in_range [250] [200] [10] = true /\ nsec3_in_range [3] [200] [10] = true /\ nsec3_in_range [100] [200] [10] = false /\
  nsec3_in_range [7] [5] [5] = true /\ nsec3_in_range [5] [5] [5] = false.
Proof. vm_compute. repeat split. Qed.

Theorem supported_nsec3_hash_spec h : supported_nsec3_hash h = true <-> h = 1.
Proof.
  unfold supported_nsec3_hash, supported_nsec3_hashes. cbn. rewrite orb_false_r. apply N.eqb_eq.
Qed.
