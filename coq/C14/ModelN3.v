(* C14 model, NSEC3 part: dnssec/validator/nsec.rs get_checked_nsec3,
   nsec3_for_not_exists (the closest-encloser walk with its maybe_ce_exists
   flag), nsec3_for_not_exists_no_ce, nsec3_for_nodata, nsec3_for_nxdomain,
   nsec3_for_nodata_wildcard.

   The iterated hash is a parameter H (iterations, salt, name) -> octets: every
   theorem holds for all H (the code's cached_nsec3_hash; nothing about SHA-1 is
   used).  A validated NSEC3 group is abstracted by what the helpers read.
   Extended-error codes (continuing C14.Model): 4 cannot create wildcard record,
   9 No NSEC3 proves non-existance, 11 too high iteration count (bogus),
   12 too high iteration count (insecure), 13 NSEC3 with bad owner hash,
   14 NSEC3 for NODATA proves requested Rtype or CNAME, 15 NSEC3 from apex for DS,
   16 NSEC3 from parent for non-DS rtype, 17 Found NSEC3 with DNAME or delegation,
   18 NSEC3 with Opt-Out. *)
From Coq Require Import NArith List Bool.
Import ListNotations.
From DV Require Import Base.Outcome Base.Bytes Base.Lex Base.Names.
From DV Require Import C18.Model C14.Gen C14.Model.
Local Open Scope N_scope.

Record n3group := mkN3 {
  h_nrr : N;            (* rr_set().len() *)
  h_is_nsec3 : bool;    (* rr_set[0].data() is AllRecordData::Nsec3 *)
  h_secure : bool; h_signer : name;
  h_alg : N; h_optout : bool; h_iter : N; h_salt : bytes;
  h_label : label;      (* first label of the owner name *)
  h_next : bytes;       (* next hashed owner *)
  h_types : list N
}.
Definition hasn (t : N) (g : n3group) : bool := existsb (N.eqb t) (h_types g).
Definition bytes_eqb (a b : bytes) : bool := match lex_cmp a b with Eq => true | _ => false end.

Inductive n3chk := CNone | CErr (insecure : bool) (ede : N) | CSome (oh : bytes).
Inductive n3nx := N3DNE (ce : name) | N3DNEInsecure (ce : name) | N3Bogus | N3Insecure | N3Nothing.
Inductive n3nx_noce := NcDNE | NcDNEInsecure | NcNothing | NcBogus.
Inductive n3state := S3NoData | S3NoDataInsecure | S3Bogus | S3Nothing.

Fixpoint suffixes (n : name) : list name :=
  n :: match n with [] => [] | _ :: n' => suffixes n' end.
Fixpoint take_while {A} (p : A -> bool) (l : list A) : list A :=
  match l with [] => [] | x :: r => if p x then x :: take_while p r else [] end.
(* `for n in target.iter_suffixes() { if !n.ends_with(signer) { break } names.push_front(n) }` *)
Definition walk_names (target signer : name) : list name :=
  rev (take_while (fun n => ends_with n signer) (suffixes target)).

Section N3.
Variable H : N -> bytes -> name -> bytes.
Variable cfg_insecure cfg_bogus : N.     (* Config::nsec3_iter_insecure / nsec3_iter_bogus *)

Definition hash_of (g : n3group) (n : name) : bytes := H (h_iter g) (h_salt g) n.

Definition get_checked_nsec3 (g : n3group) (signer : name) : outcome n3chk :=
  if negb (h_nrr g =? 1) then Ok CNone
  else if negb (h_is_nsec3 g) then Ok CNone
  else if negb (h_secure g) then Ok CNone
  else if negb (name_eqb (h_signer g) signer) then Ok CNone
  else if negb (supported_nsec3_hash (h_alg g)) then Ok CNone
  else if op_holds nsec3_iter_cmp_op (h_iter g ?= cfg_insecure) || op_holds nsec3_iter_cmp_op (h_iter g ?= cfg_bogus) then
    if op_holds nsec3_iter_cmp_op (h_iter g ?= cfg_bogus) then Ok (CErr false 11) else Ok (CErr true 12)
  else match nsec3_label_to_hash (h_label g) with
       | Ok oh => if negb (Nat.eqb (length oh) (length (h_next g))) then Ok CNone else Ok (CSome oh)
       | Err _ => Ok (CErr false 13)
       | Panic p => Panic p
       | OutOfFuel => OutOfFuel
       end.

(* one name of the walk against the groups *)
Inductive step := SRet (r : n3nx * N) | SMatch | SCovNoCand | SNoMatch.
Fixpoint name_step (n : name) (cand : bool) (maybe_ce : name) (signer : name) (gs : list n3group) : outcome step :=
  match gs with
  | [] => Ok SNoMatch
  | g :: r =>
      do c <- get_checked_nsec3 g signer;
      match c with
      | CNone => name_step n cand maybe_ce signer r
      | CErr ins e => Ok (SRet (if ins then N3Insecure else N3Bogus, e))
      | CSome oh =>
          let h := hash_of g n in
          if bytes_eqb oh h then
            if hasn rt_DNAME g || (hasn rt_NS g && negb (hasn rt_SOA g)) then Ok (SRet (N3Nothing, 17))
            else Ok SMatch
          else if nsec3_in_range h oh (h_next g) then
            if cand then Ok (SRet (if h_optout g then (N3DNEInsecure maybe_ce, 18) else (N3DNE maybe_ce, 0)))
            else Ok SCovNoCand
          else name_step n cand maybe_ce signer r
      end
  end.

Fixpoint walk (names : list name) (cand : bool) (maybe_ce : name) (signer : name) (gs : list n3group)
  : outcome (n3nx * N) :=
  match names with
  | [] => Ok (N3Nothing, 9)
  | n :: rest =>
      if name_eqb n signer then walk rest true n signer gs
      else
        do s <- name_step n cand maybe_ce signer gs;
        match s with
        | SRet r => Ok r
        | SMatch => walk rest true n signer gs
        | SCovNoCand => walk rest false maybe_ce signer gs
        | SNoMatch => walk rest false maybe_ce signer gs
        end
  end.

Definition nsec3_for_not_exists (target : name) (gs : list n3group) (signer : name) : outcome (n3nx * N) :=
  walk (walk_names target signer) false signer signer gs.

Fixpoint nsec3_for_not_exists_no_ce (target : name) (gs : list n3group) (signer : name) : outcome (n3nx_noce * N) :=
  match gs with
  | [] => Ok (NcNothing, 0)
  | g :: r =>
      do c <- get_checked_nsec3 g signer;
      match c with
      | CNone => nsec3_for_not_exists_no_ce target r signer
      | CErr ins e => Ok (if ins then NcDNEInsecure else NcBogus, e)
      | CSome oh =>
          if nsec3_in_range (hash_of g target) oh (h_next g)
          then Ok (if h_optout g then NcDNEInsecure else NcDNE, 0)
          else nsec3_for_not_exists_no_ce target r signer
      end
  end.

Fixpoint nodata_loop3 (target : name) (rtype : N) (signer : name) (gs : list n3group) : outcome (n3state * N) :=
  match gs with
  | [] => Ok (S3Nothing, 0)
  | g :: r =>
      do c <- get_checked_nsec3 g signer;
      match c with
      | CNone => nodata_loop3 target rtype signer r
      | CErr ins e => Ok (if ins then S3NoDataInsecure else S3Bogus, e)
      | CSome oh =>
          if bytes_eqb oh (hash_of g target) then
            if hasn rtype g || hasn rt_CNAME g then Ok (S3Nothing, 14)
            else if rtype =? rt_DS then
              if hasn rt_NS g && hasn rt_SOA g then Ok (S3Nothing, 15) else Ok (S3NoData, 0)
            else if hasn rt_NS g && negb (hasn rt_SOA g) then Ok (S3Nothing, 16)
            else Ok (S3NoData, 0)
          else nodata_loop3 target rtype signer r
      end
  end.

Definition nsec3_for_nodata (target : name) (gs : list n3group) (rtype : N) (signer : name) : outcome (n3state * N) :=
  if rtype =? rt_DS then
    do r <- nsec3_for_not_exists target gs signer;
    match r with
    | (N3DNE _, e) => Ok (S3Nothing, e)
    | (N3DNEInsecure _, e) => Ok (S3NoDataInsecure, e)
    | (N3Insecure, e) => Ok (S3NoDataInsecure, e)
    | (N3Bogus, e) => Ok (S3Bogus, e)
    | (N3Nothing, _) => nodata_loop3 target rtype signer gs
    end
  else nodata_loop3 target rtype signer gs.

Definition nsec3_for_nxdomain (target : name) (gs : list n3group) (signer : name) : outcome (n3nx * N) :=
  do r <- nsec3_for_not_exists target gs signer;
  let '(st, ede) := r in
  match (match st with N3DNE ce => Some (ce, true) | N3DNEInsecure ce => Some (ce, false) | _ => None end) with
  | None => Ok (st, ede)
  | Some (ce, secure) =>
      match star_name ce with
      | None => Ok (N3Bogus, 4)
      | Some star =>
          do r2 <- nsec3_for_not_exists_no_ce star gs signer;
          let '(st2, ede2) := r2 in
          let ede' := if ede =? 0 then ede2 else ede in
          match st2 with
          | NcDNE => if secure then Ok (N3DNE ce, 0) else Ok (N3DNEInsecure ce, ede')
          | NcDNEInsecure => Ok (N3DNEInsecure ce, ede')
          | NcBogus => Ok (N3Bogus, ede')
          | NcNothing => Ok (N3Nothing, ede')
          end
      end
  end.

Definition nsec3_for_nodata_wildcard (target : name) (gs : list n3group) (rtype : N) (signer : name)
  : outcome (n3state * N) :=
  do r <- nsec3_for_not_exists target gs signer;
  let '(st, ede) := r in
  match st with
  | N3Bogus => Ok (S3Bogus, ede)
  | N3Insecure => Ok (S3NoDataInsecure, ede)
  | N3Nothing => Ok (S3Nothing, ede)
  | N3DNE ce | N3DNEInsecure ce =>
      let secure := match st with N3DNE _ => true | _ => false end in
      match star_name ce with
      | None => Ok (S3Bogus, 4)
      | Some star =>
          do r2 <- nsec3_for_nodata star gs rtype signer;
          let '(st2, ede2) := r2 in
          let ede' := if ede =? 0 then ede2 else ede in
          match st2 with
          | S3NoData => if secure then Ok (S3NoData, ede') else Ok (S3NoDataInsecure, ede')
          | other => Ok (other, ede')
          end
      end
  end.
End N3.
