(* C14 proofs, part 3: Group::check_sig conditions,
   signature times, validate_groups and the verdict of a positive answer. *)
From Coq Require Import NArith List Bool Lia PeanoNat.
From Coq Require Import ZifyN ZifyBool ZifyNat.
Import ListNotations.
From DV Require Import Base.Outcome Base.Bytes Base.Lex Base.Names.
From DV Require Import C17.Model C17.Proofs C18.Model C14.Gen C14.Model C14.Proofs.
Local Open Scope N_scope.

(* ------------------------------------------------------------ signature times *)
Lemma serial_le_spec a b : u32 a -> u32 b -> (serial_le a b = true <-> rfc_lt a b \/ a = b).
Proof.
  intros Ha Hb. pose proof (cmp_is_rfc1982 a b Ha Hb) as (L & G & E). unfold serial_le.
  destruct (serial_partial_cmp a b) as [[[| |]|]| | |] eqn:C; split; intros H; try discriminate; try reflexivity.
  - right. apply E. reflexivity.
  - left. apply L. reflexivity.
  - destruct H as [H|H]; [apply L in H|apply E in H]; discriminate.
  - destruct H as [H|H]; [apply L in H|apply E in H]; discriminate.
  - destruct H as [H|H]; [apply L in H|apply E in H]; discriminate.
  - destruct H as [H|H]; [apply L in H|apply E in H]; discriminate.
  - destruct H as [H|H]; [apply L in H|apply E in H]; discriminate.
Qed.

Lemma serial_ge_spec a b : u32 a -> u32 b -> (serial_ge a b = true <-> rfc_gt a b \/ a = b).
Proof.
  intros Ha Hb. pose proof (cmp_is_rfc1982 a b Ha Hb) as (L & G & E). unfold serial_ge.
  destruct (serial_partial_cmp a b) as [[[| |]|]| | |] eqn:C; split; intros H; try discriminate; try reflexivity.
  - right. apply E. reflexivity.
  - destruct H as [H|H]; [apply G in H|apply E in H]; discriminate.
  - left. apply G. reflexivity.
  - destruct H as [H|H]; [apply G in H|apply E in H]; discriminate.
  - destruct H as [H|H]; [apply G in H|apply E in H]; discriminate.
  - destruct H as [H|H]; [apply G in H|apply E in H]; discriminate.
  - destruct H as [H|H]; [apply G in H|apply E in H]; discriminate.
Qed.

(* RFC 4034 3.1.5 with RFC 1982 arithmetic: accepted iff now is not after the
   expiration and not before the inception, both comparisons being defined *)
Theorem sig_time_ok_spec : sig_time_is_canonical = false -> forall now inc exp,
  u32 now -> u32 inc -> u32 exp ->
  (sig_time_ok now inc exp = true <-> (rfc_lt now exp \/ now = exp) /\ (rfc_gt now inc \/ now = inc)).
Proof.
  intros X now inc exp Hn Hi He. unfold sig_time_ok. rewrite X.
  rewrite andb_true_iff, (serial_le_spec now exp Hn He), (serial_ge_spec now inc Hn Hi). reflexivity.
Qed.

(* the verdict depends only on the differences: shifting now, inception and
   expiration by the same amount (e.g. across the 2^32 wrap) does not change it *)
Theorem sig_time_shift_invariant : sig_time_is_canonical = false -> forall now inc exp k,
  u32 now -> u32 inc -> u32 exp ->
  sig_time_ok ((now + k) mod M32) ((inc + k) mod M32) ((exp + k) mod M32) = sig_time_ok now inc exp.
Proof.
  intros X now inc exp k Hn Hi He. unfold sig_time_ok, serial_le, serial_ge. rewrite X.
  rewrite (cmp_shift_invariant now exp k Hn He), (cmp_shift_invariant now inc k Hn Hi). reflexivity.
Qed.

(* expired, not yet valid, or undefined (2^31 apart): rejected *)
Theorem sig_time_rejects : sig_time_is_canonical = false -> forall now inc exp,
  u32 now -> u32 inc -> u32 exp ->
  rfc_gt now exp \/ rfc_lt now inc \/ (now + 2147483648) mod M32 = exp \/ (now + 2147483648) mod M32 = inc ->
  sig_time_ok now inc exp = false.
Proof.
  intros X now inc exp Hn Hi He H.
  destruct (sig_time_ok now inc exp) eqn:E; [|reflexivity]. exfalso.
  apply (sig_time_ok_spec X now inc exp Hn Hi He) in E. unfold rfc_gt, rfc_lt, u32, M32 in *. lia.
Qed.

Example sig_time_ex : sig_time_is_canonical = false ->
  sig_time_ok 1000 900 1100 = true /\ sig_time_ok 1000 1001 1100 = false /\ sig_time_ok 1000 900 999 = false /\
  sig_time_ok 1000 1000 1000 = true /\
  sig_time_ok 256 4294963200 65536 = true /\            (* inception 0xFFFFF000, now 0x100, expiration 0x10000: straddles the wrap *)
  sig_time_ok 1790000000 0 4294967295 = false /\         (* expiration more than 2^31 ahead = in the past *)
  sig_time_ok 0 0 2147483648 = false.                     (* undefined comparison *)
Proof. intros X. unfold sig_time_ok. rewrite X. vm_compute. repeat split. Qed.

(* ------------------------------------------------------------ check_sig *)
Theorem check_sig_sound : forall s, check_sig s = true ->
  name_eqb (s_sig_owner s) (s_owner s) = true /\ s_same_class s = true /\
  ends_with (s_owner s) (s_signer s) = true /\          (* the signer is an ancestor of (or is) the owner *)
  s_type_covered s = s_rtype s /\
  s_sig_labels s <= N.of_nat (length (s_owner s)) /\    (* labels field not above the owner's label count *)
  sig_time_ok (s_now s) (s_inception s) (s_expiration s) = true /\
  name_eqb (s_signer s) (s_key_name s) = true /\ s_sig_alg s = s_key_alg s /\ s_sig_tag s = s_key_tag s /\
  s_zone_key s = true /\ s_crypto_ok s = true.
Proof.
  intros s. unfold check_sig.
  destruct (name_eqb (s_sig_owner s) (s_owner s)); cbn [negb orb]; [|discriminate].
  destruct (s_same_class s); cbn [negb]; [|discriminate].
  destruct (ends_with (s_owner s) (s_signer s)); cbn [negb]; [|discriminate].
  destruct (N.eqb_spec (s_type_covered s) (s_rtype s)) as [Ht|]; cbn [negb]; [|discriminate].
  unfold sig_labels_reject_op, op_holds.
  assert (K : forall b, (if negb (sig_time_ok (s_now s) (s_inception s) (s_expiration s)) then false else b) = true ->
              sig_time_ok (s_now s) (s_inception s) (s_expiration s) = true /\ b = true).
  { intros b. destruct (sig_time_ok _ _ _); cbn [negb]; [auto|discriminate]. }
  assert (Fin : (if negb (name_eqb (s_signer s) (s_key_name s)) || negb (s_sig_alg s =? s_key_alg s) || negb (s_sig_tag s =? s_key_tag s)
                 then false else if negb (s_zone_key s) then false else s_crypto_ok s) = true ->
                name_eqb (s_signer s) (s_key_name s) = true /\ s_sig_alg s = s_key_alg s /\ s_sig_tag s = s_key_tag s /\
                s_zone_key s = true /\ s_crypto_ok s = true).
  { destruct (name_eqb (s_signer s) (s_key_name s)); cbn [negb orb]; [|discriminate].
    destruct (N.eqb_spec (s_sig_alg s) (s_key_alg s)); cbn [negb orb]; [|discriminate].
    destruct (N.eqb_spec (s_sig_tag s) (s_key_tag s)); cbn [negb orb]; [|discriminate].
    destruct (s_zone_key s); cbn [negb]; [|discriminate]. auto. }
  destruct (N.compare_spec (N.of_nat (length (s_owner s))) (s_sig_labels s)) as [Hl|Hl|Hl]; try discriminate;
    intros H; apply K in H as [T H]; apply Fin in H; repeat split; try tauto; try reflexivity; lia.
Qed.

(* a signature outside its validity period never validates, whatever the key says *)
Theorem check_sig_rejects_outside_validity : sig_time_is_canonical = false -> forall s,
  u32 (s_now s) -> u32 (s_inception s) -> u32 (s_expiration s) ->
  rfc_gt (s_now s) (s_expiration s) \/ rfc_lt (s_now s) (s_inception s) -> check_sig s = false.
Proof.
  intros X s Hn Hi He H. destruct (check_sig s) eqn:E; [|reflexivity].
  apply check_sig_sound in E. destruct E as (_ & _ & _ & _ & _ & T & _).
  rewrite (sig_time_rejects X _ _ _ Hn Hi He) in T; [discriminate|tauto].
Qed.

Example check_sig_ex :
  let s := mkS [[97];[101;120]] [[97];[69;88]] true [[101;120]] 1 1 2 1000 1100 900 [[101;120]] 13 13 7 7 true true in
  check_sig s = true /\
  check_sig (mkS [[97];[101;120]] [[97];[69;88]] true [[111]] 1 1 2 1000 1100 900 [[111]] 13 13 7 7 true true) = false /\  (* signer not an ancestor *)
  check_sig (mkS [[97];[101;120]] [[97];[69;88]] true [[101;120]] 1 1 3 1000 1100 900 [[101;120]] 13 13 7 7 true true) = false.   (* labels > owner labels *)
Proof. vm_compute. repeat split. Qed.

(* ------------------------------------------------------------ the signature cache and the clock *)
Theorem check_sig_cached_time_sound : sig_cache_checks_time_first = true -> forall c s,
  check_sig_cached c s = true -> sig_time_ok (s_now s) (s_inception s) (s_expiration s) = true.
Proof.
  intros X c s. unfold check_sig_cached. rewrite X.
  destruct (sig_time_ok (s_now s) (s_inception s) (s_expiration s)); [reflexivity|discriminate].
Qed.

Theorem revalidate_sound : sig_cache_checks_time_first = true -> forall n1 n2 i e,
  revalidate n1 n2 i e = Ok true -> sig_time_ok n2 i e = true.
Proof.
  intros X n1 n2 i e. unfold revalidate. rewrite X.
  destruct (sig_time_ok n2 i e); [reflexivity|]. cbn. discriminate.
Qed.

(* a cache that is trusted without looking at the clock accepts an expired signature
   (or, with a checked u32 subtraction in ttl_for_sig, panics) *)
Theorem revalidate_refuted : sig_cache_checks_time_first = false -> sig_time_is_canonical = false ->
  exists n1 n2 i e, sig_time_ok n2 i e = false /\
    (revalidate n1 n2 i e = Ok true \/ exists p, revalidate n1 n2 i e = Panic p).
Proof.
  intros X Y. exists 1000, 1010, 900, 1002. unfold revalidate, sig_time_ok, ttl_until_expired. rewrite X, Y.
  split; [vm_compute; reflexivity|].
  destruct ttl_for_sig_wraps; [left|right; exists 1]; vm_compute; reflexivity.
Qed.

(* with the clock consulted first, ttl_for_sig cannot underflow before the clock
   itself reaches 2^31 (19 January 2038); a wrapping subtraction never does *)
Theorem revalidate_total : sig_cache_checks_time_first = true -> sig_time_is_canonical = false ->
  forall n1 n2 i e, u32 n2 -> u32 i -> u32 e ->
  (ttl_for_sig_wraps = true \/ n2 < 2147483648) -> no_panic (revalidate n1 n2 i e).
Proof.
  intros X Y n1 n2 i e Hn Hi He W. unfold revalidate. rewrite X.
  destruct (sig_time_ok n2 i e) eqn:T; cbn [negb andb]; [|exact I].
  destruct (sig_time_ok n1 i e); [|exact I].
  unfold ttl_until_expired. destruct ttl_for_sig_wraps; [exact I|].
  destruct W as [W|W]; [discriminate|].
  apply (sig_time_ok_spec Y n2 i e Hn Hi He) in T. destruct T as [T _].
  unfold u32_sub. destruct (N.leb_spec n2 e); [exact I|].
  exfalso. unfold rfc_lt in T. lia.
Qed.

Theorem ttl_underflow_refuted : ttl_for_sig_wraps = false ->
  exists now exp, now < 4294967296 /\ exp < 4294967296 /\ rfc_lt now exp /\ ttl_until_expired now exp = Panic 1.
Proof.
  intros X. exists 4294967000, 100. unfold ttl_until_expired. rewrite X.
  split; [reflexivity|]. split; [reflexivity|]. split; [unfold rfc_lt; right; lia|reflexivity].
Qed.

(* wildcard_closest_encloser: Some exactly when the labels field is below the owner's count *)
Theorem wildcard_ce_spec owner labels :
  match wildcard_closest_encloser owner labels with
  | Some ce => (N.to_nat labels < length owner)%nat /\ length ce = N.to_nat labels /\ exists p, owner = p ++ ce
  | None => (length owner <= N.to_nat labels)%nat
  end.
Proof.
  unfold wildcard_closest_encloser. destruct (Nat.ltb_spec (N.to_nat labels) (length owner)) as [H|H]; [|exact H].
  split; [exact H|]. split.
  - rewrite skipn_length. lia.
  - exists (firstn (length owner - N.to_nat labels) owner). symmetry. apply firstn_skipn.
Qed.

(* ------------------------------------------------------------ validate_groups *)
Theorem validate_groups_spec l :
  match validate_groups l with
  | Some l' => l' = l /\ ~ In Bogus l
  | None => In Bogus l
  end.
Proof.
  induction l as [|s l IH]; simpl; [split; [reflexivity|intros []]|].
  unfold vg_abort_state. destruct s; cbn.
  - destruct (validate_groups l); cbn; [destruct IH as [-> H]; split; [reflexivity|intros [X|X]; [discriminate|auto]]|right; exact IH].
  - destruct (validate_groups l); cbn; [destruct IH as [-> H]; split; [reflexivity|intros [X|X]; [discriminate|auto]]|right; exact IH].
  - left. reflexivity.
  - destruct (validate_groups l); cbn; [destruct IH as [-> H]; split; [reflexivity|intros [X|X]; [discriminate|auto]]|right; exact IH].
Qed.

Lemma map_maybe_secure_secure a b : map_maybe_secure a b = Secure -> a = Secure /\ b = Secure.
Proof. destruct a; simpl; intros H; try discriminate. auto. Qed.

(* ------------------------------------------------------------ positive answers *)
Inductive chain_secure (qtype : N) (gs : list agroup) : name -> name -> Prop :=
| cs_refl n : chain_secure qtype gs n n
| cs_step n tgt m :
    cname_find n qtype gs = Some (Some (tgt, Secure)) ->
    chain_secure qtype gs tgt m -> chain_secure qtype gs n m.

Lemma cname_chase_secure qt gs maxc : forall fuel count n maybe m,
  cname_chase fuel count maxc n qt gs maybe = Ok (Some (m, Secure)) ->
  maybe = Secure /\ chain_secure qt gs n m.
Proof.
  induction fuel as [|fuel IH]; intros count n maybe m H; simpl in H; [discriminate|].
  destruct (cname_find n qt gs) as [[[tgt st]|]|] eqn:F.
  - destruct (vstate_eqb st Bogus); [inversion H|].
    destruct (maxc <? count + 1); [inversion H|].
    apply IH in H as [H1 H2]. apply map_maybe_secure_secure in H1 as [-> ->].
    split; [reflexivity|]. eapply cs_step; eassumption.
  - inversion H. subst. split; [reflexivity|apply cs_refl].
  - discriminate.
Qed.

Lemma cname_chase_fuel qt gs maxc : forall fuel count n maybe,
  (N.to_nat maxc + 1 - N.to_nat count < fuel)%nat ->
  cname_chase fuel count maxc n qt gs maybe <> OutOfFuel /\ no_panic (cname_chase fuel count maxc n qt gs maybe).
Proof.
  induction fuel as [|fuel IH]; intros count n maybe H; [lia|]. simpl.
  destruct (cname_find n qt gs) as [[[tgt st]|]|]; try (split; [discriminate|exact I]).
  destruct (vstate_eqb st Bogus); [split; [discriminate|exact I]|].
  destruct (N.ltb_spec maxc (count + 1)); [split; [discriminate|exact I]|].
  apply IH. lia.
Qed.

Lemma fold_secure gs : forall acc,
  fold_left (fun acc g => map_maybe_secure (a_state g) acc) gs acc = Secure ->
  acc = Secure /\ forall g, In g gs -> a_state g = Secure.
Proof.
  induction gs as [|g gs IH]; intros acc H; simpl in H; [split; [exact H|intros g []]|].
  apply IH in H as [H1 H2]. apply map_maybe_secure_secure in H1 as [Hg Ha].
  split; [exact Ha|]. intros g' [<-|Hi]; auto.
Qed.

(* "secure" for a positive answer: no group of the answer section is bogus, every
   CNAME followed and the answering group are secure - and, if the verdict starts
   from a fold over all answer groups, every group of the answer section is *)
Theorem positive_secure_sound q qt maxc gs :
  positive_answer_state q qt maxc gs = Ok (Some Secure) ->
  (forall g, In g gs -> a_state g <> Bogus) /\
  (exists sname g, chain_secure qt gs q sname /\ get_answer_state sname qt gs = Some g /\
                   In g gs /\ a_state g = Secure /\ a_wild g = false) /\
  (answer_init_is_const = false -> forall g, In g gs -> a_state g = Secure).
Proof.
  unfold positive_answer_state. generalize answer_init_is_const. intros aic H.
  pose proof (validate_groups_spec (map a_state gs)) as V.
  destruct (validate_groups (map a_state gs)) as [l'|]; [|inversion H].
  destruct V as [_ V]. split.
  { intros g Hi Hb. apply V. rewrite <- Hb. apply in_map. exact Hi. }
  destruct (cname_chase (S (N.to_nat maxc + 1)) 0 maxc q qt gs Secure) as [[[sname st]|]| | |] eqn:C; simpl in H; try discriminate.
  match type of H with context [map_maybe_secure st ?i] => set (init := i) in * end.
  destruct (vstate_eqb (map_maybe_secure st init) Bogus); [inversion H|].
  destruct (get_answer_state sname qt gs) as [g|] eqn:G; [|discriminate].
  destruct (a_wild g && vstate_eqb (a_state g) Secure) eqn:W; [discriminate|].
  assert (H1 : map_maybe_secure (a_state g) (map_maybe_secure st init) = Secure) by congruence.
  clear H. apply map_maybe_secure_secure in H1 as [Hg Hm].
  apply map_maybe_secure_secure in Hm as [Hst Hinit]. subst st.
  apply cname_chase_secure in C as [_ C].
  assert (Hin : In g gs).
  { clear - G. induction gs as [|x gs IH]; simpl in G; [discriminate|].
    destruct (negb (a_class_ok x)); [right; auto|].
    destruct (negb (a_rtype x =? qt)); [right; auto|].
    destruct (negb (name_eqb (a_owner x) sname)); [right; auto|]. inversion G. left. reflexivity. }
  split.
  - exists sname, g. split; [exact C|]. split; [exact G|]. split; [exact Hin|]. split; [exact Hg|].
    rewrite Hg in W. cbn in W. rewrite andb_true_r in W. exact W.
  - intros X. subst aic. subst init. cbn iota in Hinit. apply fold_secure in Hinit as [_ Hall]. exact Hall.
Qed.

(* with the constant start the verdict says nothing about the other RRsets of
   the answer section: an unauthenticated RRset may ride along a secure answer *)
Theorem secure_all_groups_refuted : answer_init_is_const = true ->
  exists q qt gs, positive_answer_state q qt 11 gs = Ok (Some Secure) /\
    exists g, In g gs /\ a_state g = Insecure.
Proof.
  intros X.
  exists [[119]; [115]], 1,
    [mkA true 1 1 [[119]; [115]] None Secure false None true; mkA true 1 1 [[119]; [105]] None Insecure false None true].
  split.
  - unfold positive_answer_state. rewrite X. vm_compute. reflexivity.
  - eexists. split; [right; left; reflexivity|reflexivity].
Qed.

Theorem positive_answer_total q qt maxc gs :
  no_panic (positive_answer_state q qt maxc gs).
Proof.
  unfold positive_answer_state. destruct (validate_groups (map a_state gs)); [|exact I].
  pose proof (cname_chase_fuel qt gs maxc (S (N.to_nat maxc + 1)) 0 q Secure ltac:(lia)) as [F P].
  destruct (cname_chase (S (N.to_nat maxc + 1)) 0 maxc q qt gs Secure) as [[[sname st]|]| | |]; simpl; try exact I; try contradiction.
  - destruct (vstate_eqb _ Bogus); [exact I|].
    destruct (get_answer_state sname qt gs) as [g|]; [|exact I].
    destruct (a_wild g && vstate_eqb (a_state g) Secure); exact I.
Qed.

Example positive_answer_ex :
  (* alias CNAME www (secure), www A (secure) *)
  positive_answer_state [[97]] 1 11
    [mkA true 5 1 [[97]] (Some [[119]]) Secure false None true; mkA true 1 1 [[119]] None Secure false None true] = Ok (Some Secure) /\
  (* the CNAME group is insecure: the answer is *)
  positive_answer_state [[97]] 1 11
    [mkA true 5 1 [[97]] (Some [[119]]) Insecure false None true; mkA true 1 1 [[119]] None Secure false None true] = Ok (Some Insecure) /\
  (* a bogus group anywhere: bogus *)
  positive_answer_state [[119]] 1 11
    [mkA true 1 1 [[119]] None Secure false None true; mkA true 16 1 [[120]] None Bogus false None true] = Ok (Some Bogus) /\
  (* a CNAME loop ends as bogus after max_cname_dname steps *)
  positive_answer_state [[97]] 1 11
    [mkA true 5 1 [[97]] (Some [[98]]) Secure false None true; mkA true 5 1 [[98]] (Some [[97]]) Secure false None true] = Ok (Some Bogus).
Proof. vm_compute. repeat split. Qed.

(* the negative path: a secure verdict comes from one of the three NSEC proofs *)
Theorem negative_secure_sound nx t qt s gs e :
  negative_msg_state nx t qt s gs = Ok (Secure, e) ->
  ~ In Bogus (map snd gs) /\
  if nx then exists ce e', nsec_for_nxdomain t (map fst gs) s = Ok (NxDoesNotExist ce, e')
  else (exists e', nsec_for_nodata t (map fst gs) qt s = Ok (NoData, e')) \/
       (exists e', nsec_for_nodata_wildcard t (map fst gs) qt s = Ok (NoData, e')).
Proof.
  unfold negative_msg_state. intros H.
  pose proof (validate_groups_spec (map snd gs)) as V.
  destruct (validate_groups (map snd gs)); [|inversion H]. destruct V as [_ V]. split; [exact V|].
  destruct nx.
  - destruct (nsec_for_nxdomain t (map fst gs) s) as [[[|ce|] e1]| | |]; simpl in H; try discriminate; try (inversion H; fail).
    eauto.
  - destruct (nsec_for_nodata t (map fst gs) qt s) as [[[|] e1]| | |]; simpl in H; try discriminate.
    + left. eauto.
    + destruct (nsec_for_nodata_wildcard t (map fst gs) qt s) as [[[|] e2]| | |]; simpl in H; try discriminate; try (inversion H; fail).
      right. eauto.
Qed.
