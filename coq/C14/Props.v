(* C14 -- property theorems only.  Proofs live in C14/Proofs*.v. *)
From Coq Require Import NArith List Bool.
Import ListNotations.
From DV Require Import Base.Outcome Base.Bytes Base.Lex Base.Names.
From DV Require Import C17.Model C17.Proofs C18.Model C14.Gen C14.Model C14.Proofs C14.ProofsDenial C14.ProofsSig C14.ProofsL2H C14.ModelN3 C14.ProofsN3 C14.ModelChain C14.ProofsChain C14.ModelDs C14.ProofsDs C14.ModelTa C14.ProofsTa C14.ModelWild C14.ProofsWild C14.ProofsDname C14.ModelNode C14.ProofsNode C14.ModelCache C14.ProofsCache C14.ModelGroups C14.ProofsGroups C14.ModelConn C14.ProofsConn C14.ProofsDnameMulti C14.ModelWildCname C14.ProofsWildCname C14.ProofsComplete.
Local Open Scope N_scope.

Theorem C14_nsec_in_range_spec : forall t o n,
  nsec_in_range t o n = true <->
  (nlt o n /\ nlt o t /\ nlt t n) \/ (~ nlt o n /\ nlt o t).
Proof. exact nsec_in_range_spec. Qed.
Print Assumptions C14_nsec_in_range_spec.

Theorem C14_nsec_in_range_case_insensitive : forall t o n,
  nsec_in_range (canon t) (canon o) (canon n) = nsec_in_range t o n.
Proof. exact nsec_in_range_case_insensitive. Qed.
Print Assumptions C14_nsec_in_range_case_insensitive.

Theorem C14_nsec3_in_range_spec : forall t o n,
  nsec3_in_range t o n = true <->
  (hlt o n /\ hlt o t /\ hlt t n) \/ (~ hlt o n /\ (hlt o t \/ hlt t n)).
Proof. exact nsec3_in_range_spec. Qed.
Print Assumptions C14_nsec3_in_range_spec.

Theorem C14_nsec3_in_range_strict : forall t o n, nsec3_in_range t o n = true -> t <> o /\ t <> n.
Proof. exact nsec3_in_range_strict. Qed.
Print Assumptions C14_nsec3_in_range_strict.

Theorem C14_supported_nsec3_hash_spec : forall h, supported_nsec3_hash h = true <-> h = 1.
Proof. exact supported_nsec3_hash_spec. Qed.
Print Assumptions C14_supported_nsec3_hash_spec.

Theorem C14_closest_encloser_spec : forall t o n,
  let ce := nsec_closest_encloser t o n in
  ends_with t ce = true /\ (suffix_of ce o \/ suffix_of ce n) /\
  forall s, suffix_of s o \/ suffix_of s n -> ends_with t s = true -> (length s <= length ce)%nat.
Proof. exact closest_encloser_spec. Qed.
Print Assumptions C14_closest_encloser_spec.

Theorem C14_nodata_sound : forall t gs rt s e,
  nsec_for_nodata t gs rt s = Ok (NoData, e) ->
  e = 0 /\ exists g, In g gs /\ usable g s /\ nodata_proof t rt g.
Proof. exact nodata_sound. Qed.
Print Assumptions C14_nodata_sound.

Theorem C14_not_exists_sound : forall t gs s ce e,
  nsec_for_not_exists t gs s = Ok (NxDoesNotExist ce, e) ->
  e = 0 /\ exists g, In g gs /\ usable g s /\ covers t g /\
                     ce = nsec_closest_encloser t (g_owner g) (g_next g).
Proof. exact not_exists_sound. Qed.
Print Assumptions C14_not_exists_sound.

Theorem C14_nxdomain_sound : forall t gs s ce' e,
  nsec_for_nxdomain t gs s = Ok (NxDoesNotExist ce', e) ->
  exists g1 g2 ce star,
    In g1 gs /\ In g2 gs /\ usable g1 s /\ usable g2 s /\
    covers t g1 /\ ce = nsec_closest_encloser t (g_owner g1) (g_next g1) /\
    star_name ce = Some star /\ star = star_label :: ce /\ covers star g2.
Proof. exact nxdomain_sound. Qed.
Print Assumptions C14_nxdomain_sound.

Theorem C14_nodata_wildcard_sound : forall t gs rt s e,
  nsec_for_nodata_wildcard t gs rt s = Ok (NoData, e) ->
  exists g1 g2 ce star,
    In g1 gs /\ In g2 gs /\ usable g1 s /\ usable g2 s /\
    covers t g1 /\ ce = nsec_closest_encloser t (g_owner g1) (g_next g1) /\
    star_name ce = Some star /\ nodata_proof star rt g2.
Proof. exact nodata_wildcard_sound. Qed.
Print Assumptions C14_nodata_wildcard_sound.

Theorem C14_delegation_nsec_never_denies : forall t gs s ce e g,
  nsec_for_not_exists t gs s = Ok (NxDoesNotExist ce, e) ->
  In g gs -> usable g s -> wf_group g ->
  (forall g', In g' gs -> g' = g) ->
  ends_with t (g_owner g) = true ->
  has rt_DNAME g = false /\ (has rt_NS g = true -> has rt_SOA g = true).
Proof. exact delegation_nsec_never_denies. Qed.
Print Assumptions C14_delegation_nsec_never_denies.

Theorem C14_helpers_total : forall t gs rt s, Forall wf_group gs ->
  no_panic (nsec_for_nodata t gs rt s) /\ no_panic (nsec_for_not_exists t gs s) /\
  no_panic (nsec_for_nxdomain t gs s) /\ no_panic (nsec_for_nodata_wildcard t gs rt s).
Proof. exact helpers_total. Qed.
Print Assumptions C14_helpers_total.

Theorem C14_label_to_hash_ok_iff : forall l h,
  nsec3_label_to_hash l = Ok h <-> exists cs, from_utf8 l = Some cs /\ spec_dec32 cs = Some h.
Proof. exact label_to_hash_ok_iff. Qed.
Print Assumptions C14_label_to_hash_ok_iff.

Theorem C14_label_to_hash_panic_iff : label_to_hash_expects = true -> forall l,
  nsec3_label_to_hash l = Panic 1 <-> exists cs, from_utf8 l = Some cs /\ spec_dec32 cs = None.
Proof. exact label_to_hash_panic_iff. Qed.
Print Assumptions C14_label_to_hash_panic_iff.

Theorem C14_label_to_hash_refuted : label_to_hash_expects = true ->
  exists l, valid_label l /\ nsec3_label_to_hash l = Panic 1.
Proof. exact label_to_hash_refuted. Qed.
Print Assumptions C14_label_to_hash_refuted.

Theorem C14_label_to_hash_total : label_to_hash_expects = false -> forall l, no_panic (nsec3_label_to_hash l).
Proof. exact label_to_hash_total. Qed.
Print Assumptions C14_label_to_hash_total.

Theorem C14_label_to_hash_only_panic : forall l p, nsec3_label_to_hash l = Panic p ->
  p = 1 /\ label_to_hash_expects = true /\ exists cs, from_utf8 l = Some cs /\ spec_dec32 cs = None.
Proof. exact label_to_hash_only_panic. Qed.
Print Assumptions C14_label_to_hash_only_panic.

Theorem C14_sig_time_ok_spec : sig_time_is_canonical = false -> forall now inc exp,
  u32 now -> u32 inc -> u32 exp ->
  (sig_time_ok now inc exp = true <-> (rfc_lt now exp \/ now = exp) /\ (rfc_gt now inc \/ now = inc)).
Proof. exact sig_time_ok_spec. Qed.
Print Assumptions C14_sig_time_ok_spec.

Theorem C14_sig_time_shift_invariant : sig_time_is_canonical = false -> forall now inc exp k,
  u32 now -> u32 inc -> u32 exp ->
  sig_time_ok ((now + k) mod M32) ((inc + k) mod M32) ((exp + k) mod M32) = sig_time_ok now inc exp.
Proof. exact sig_time_shift_invariant. Qed.
Print Assumptions C14_sig_time_shift_invariant.

Theorem C14_sig_time_rejects : sig_time_is_canonical = false -> forall now inc exp,
  u32 now -> u32 inc -> u32 exp ->
  rfc_gt now exp \/ rfc_lt now inc \/ (now + 2147483648) mod M32 = exp \/ (now + 2147483648) mod M32 = inc ->
  sig_time_ok now inc exp = false.
Proof. exact sig_time_rejects. Qed.
Print Assumptions C14_sig_time_rejects.

Theorem C14_check_sig_sound : forall s, check_sig s = true ->
  name_eqb (s_sig_owner s) (s_owner s) = true /\ s_same_class s = true /\
  ends_with (s_owner s) (s_signer s) = true /\
  s_type_covered s = s_rtype s /\
  s_sig_labels s <= N.of_nat (length (s_owner s)) /\
  sig_time_ok (s_now s) (s_inception s) (s_expiration s) = true /\
  name_eqb (s_signer s) (s_key_name s) = true /\ s_sig_alg s = s_key_alg s /\ s_sig_tag s = s_key_tag s /\
  s_zone_key s = true /\ s_crypto_ok s = true.
Proof. exact check_sig_sound. Qed.
Print Assumptions C14_check_sig_sound.

Theorem C14_check_sig_rejects_outside_validity : sig_time_is_canonical = false -> forall s,
  u32 (s_now s) -> u32 (s_inception s) -> u32 (s_expiration s) ->
  rfc_gt (s_now s) (s_expiration s) \/ rfc_lt (s_now s) (s_inception s) -> check_sig s = false.
Proof. exact check_sig_rejects_outside_validity. Qed.
Print Assumptions C14_check_sig_rejects_outside_validity.

Theorem C14_wildcard_ce_spec : forall owner labels,
  match wildcard_closest_encloser owner labels with
  | Some ce => (N.to_nat labels < length owner)%nat /\ length ce = N.to_nat labels /\ exists p, owner = p ++ ce
  | None => (length owner <= N.to_nat labels)%nat
  end.
Proof. exact wildcard_ce_spec. Qed.
Print Assumptions C14_wildcard_ce_spec.

Theorem C14_validate_groups_spec : forall l,
  match validate_groups l with
  | Some l' => l' = l /\ ~ In Bogus l
  | None => In Bogus l
  end.
Proof. exact validate_groups_spec. Qed.
Print Assumptions C14_validate_groups_spec.

Theorem C14_positive_secure_sound : forall q qt maxc gs,
  positive_answer_state q qt maxc gs = Ok (Some Secure) ->
  (forall g, In g gs -> a_state g <> Bogus) /\
  (exists sname g, chain_secure qt gs q sname /\ get_answer_state sname qt gs = Some g /\
                   In g gs /\ a_state g = Secure /\ a_wild g = false) /\
  (answer_init_is_const = false -> forall g, In g gs -> a_state g = Secure).
Proof. exact positive_secure_sound. Qed.
Print Assumptions C14_positive_secure_sound.

Theorem C14_secure_all_groups_refuted : answer_init_is_const = true ->
  exists q qt gs, positive_answer_state q qt 11 gs = Ok (Some Secure) /\
    exists g, In g gs /\ a_state g = Insecure.
Proof. exact secure_all_groups_refuted. Qed.
Print Assumptions C14_secure_all_groups_refuted.

Theorem C14_positive_answer_total : forall q qt maxc gs,
  no_panic (positive_answer_state q qt maxc gs).
Proof. exact positive_answer_total. Qed.
Print Assumptions C14_positive_answer_total.

Theorem C14_negative_secure_sound : forall nx t qt s gs e,
  negative_msg_state nx t qt s gs = Ok (Secure, e) ->
  ~ In Bogus (map snd gs) /\
  if nx then exists ce e', nsec_for_nxdomain t (map fst gs) s = Ok (NxDoesNotExist ce, e')
  else (exists e', nsec_for_nodata t (map fst gs) qt s = Ok (NoData, e')) \/
       (exists e', nsec_for_nodata_wildcard t (map fst gs) qt s = Ok (NoData, e')).
Proof. exact negative_secure_sound. Qed.
Print Assumptions C14_negative_secure_sound.

(* ---- NSEC3 (RFC 5155 8.3 - 8.7), for every hash function H *)
Theorem C14_n3_checked_some : forall ci cb g s oh, get_checked_nsec3 ci cb g s = Ok (CSome oh) ->
  h_nrr g = 1 /\ h_is_nsec3 g = true /\ h_secure g = true /\ name_eqb (h_signer g) s = true /\
  h_alg g = 1 /\ h_iter g <= ci /\ h_iter g <= cb /\
  nsec3_label_to_hash (h_label g) = Ok oh /\ length oh = length (h_next g).
Proof. exact (checked_some (fun _ _ _ => [])). Qed.
Print Assumptions C14_n3_checked_some.

Theorem C14_n3_not_exists_sound : forall H ci cb t gs s r e,
  nsec3_for_not_exists H ci cb t gs s = Ok (r, e) ->
  match r with
  | N3DNE ce => e = 0 /\ established H ci cb gs s ce /\
      exists l, suffix_of (l :: ce) t /\ exists g oh, In g gs /\ usable3 ci cb g s oh /\ covers3 H g oh (l :: ce) /\ h_optout g = false
  | N3DNEInsecure ce => established H ci cb gs s ce /\
      exists l, suffix_of (l :: ce) t /\ exists g oh, In g gs /\ usable3 ci cb g s oh /\ covers3 H g oh (l :: ce) /\ h_optout g = true
  | _ => True
  end.
Proof. exact n3_not_exists_sound. Qed.
Print Assumptions C14_n3_not_exists_sound.

Theorem C14_n3_nxdomain_sound : forall H ci cb t gs s ce e,
  nsec3_for_nxdomain H ci cb t gs s = Ok (N3DNE ce, e) ->
  established H ci cb gs s ce /\
  (exists l, suffix_of (l :: ce) t /\ exists g oh, In g gs /\ usable3 ci cb g s oh /\ covers3 H g oh (l :: ce) /\ h_optout g = false) /\
  exists g oh, In g gs /\ usable3 ci cb g s oh /\ covers3 H g oh (star_label :: ce) /\ h_optout g = false.
Proof. exact n3_nxdomain_sound. Qed.
Print Assumptions C14_n3_nxdomain_sound.

Theorem C14_n3_nodata_sound : forall H ci cb t gs rt s e,
  nsec3_for_nodata H ci cb t gs rt s = Ok (S3NoData, e) ->
  e = 0 /\ exists g oh, In g gs /\ usable3 ci cb g s oh /\ oh = hash_of H g t /\ hasn rt g = false /\ hasn rt_CNAME g = false /\
     (if rt =? rt_DS then hasn rt_NS g && hasn rt_SOA g = false else hasn rt_NS g && negb (hasn rt_SOA g) = false).
Proof. exact n3_nodata_sound. Qed.
Print Assumptions C14_n3_nodata_sound.

Theorem C14_n3_nodata_wildcard_sound : forall H ci cb t gs rt s e,
  nsec3_for_nodata_wildcard H ci cb t gs rt s = Ok (S3NoData, e) ->
  exists ce, established H ci cb gs s ce /\
    (exists l, suffix_of (l :: ce) t /\ exists g oh, In g gs /\ usable3 ci cb g s oh /\ covers3 H g oh (l :: ce) /\ h_optout g = false) /\
    exists g oh, In g gs /\ usable3 ci cb g s oh /\ oh = hash_of H g (star_label :: ce) /\ hasn rt g = false /\ hasn rt_CNAME g = false.
Proof. exact n3_nodata_wildcard_sound. Qed.
Print Assumptions C14_n3_nodata_wildcard_sound.

Theorem C14_n3_helpers_total : forall H ci cb t gs rt s, label_to_hash_expects = false ->
  no_panic (nsec3_for_not_exists H ci cb t gs s) /\ no_panic (nsec3_for_nodata H ci cb t gs rt s) /\
  no_panic (nsec3_for_nxdomain H ci cb t gs s) /\ no_panic (nsec3_for_nodata_wildcard H ci cb t gs rt s).
Proof. exact n3_helpers_total. Qed.
Print Assumptions C14_n3_helpers_total.

(* ---- DS -> DNSKEY step of the chain, for every digest function and signature oracle *)
Theorem C14_secure_implies_chain : forall dg vf dss keys sigs maxbad,
  child_node_state dg vf dss keys sigs maxbad = Secure ->
  exists d k s, In d dss /\ ds_supported d = true /\ In k keys /\ In s sigs /\
    k_alg k = d_alg d /\ k_tag k = d_tag d /\ d_digest d = dg k (d_dt d) /\
    sg_tag s = k_tag k /\ vf k s = true.
Proof. exact secure_implies_chain. Qed.
Print Assumptions C14_secure_implies_chain.

Theorem C14_insecure_iff_no_supported_ds : forall dg vf dss keys sigs maxbad,
  child_node_state dg vf dss keys sigs maxbad = Insecure <-> forall d, In d dss -> ds_supported d = false.
Proof. exact insecure_iff_no_supported_ds. Qed.
Print Assumptions C14_insecure_iff_no_supported_ds.

(* ---- insecure delegations: nsec_for_ds / nsec3_for_ds *)
Theorem C14_nsec_for_ds_insecure_sound : forall t gs,
  nsec_for_ds t gs = InsecureDelegation -> exists g, In g gs /\ nsec_no_ds_proof t g.
Proof. exact nsec_for_ds_insecure_sound. Qed.
Print Assumptions C14_nsec_for_ds_insecure_sound.

Theorem C14_nsec_for_ds_intermediate_sound : forall t gs,
  nsec_for_ds t gs = SecureIntermediate ->
  exists g, In g gs /\ dg_rtype g = rt_NSEC /\ dg_valid g = true /\
    ((name_eqb t (dg_owner g) = true /\ dg_ce g = None /\ dhas rt_DS g = false /\ dhas rt_SOA g = false /\ dhas rt_NS g = false) \/
     (name_eqb t (dg_owner g) = false /\ nsec_in_range t (dg_owner g) (dg_next g) = true /\ ends_with (dg_next g) t = true)).
Proof. exact nsec_for_ds_intermediate_sound. Qed.
Print Assumptions C14_nsec_for_ds_intermediate_sound.

Theorem C14_nsec3_for_ds_insecure_sound : forall H ci cb t gs,
  nsec3_for_ds H ci cb t gs = Ok InsecureDelegation -> exists g, In g gs /\ nsec3_no_ds_proof H ci cb t g.
Proof. exact nsec3_for_ds_insecure_sound. Qed.
Print Assumptions C14_nsec3_for_ds_insecure_sound.

Theorem C14_insecure_only_with_no_ds_proof : forall H ci cb t gs,
  no_ds_decision H ci cb t gs = Ok InsecureDelegation ->
  exists g, In g gs /\ (nsec_no_ds_proof t g \/ nsec3_no_ds_proof H ci cb t g).
Proof. exact insecure_only_with_no_ds_proof. Qed.
Print Assumptions C14_insecure_only_with_no_ds_proof.

(* ---- the signature cache and the clock *)
Theorem C14_check_sig_cached_time_sound : sig_cache_checks_time_first = true -> forall c s,
  check_sig_cached c s = true -> sig_time_ok (s_now s) (s_inception s) (s_expiration s) = true.
Proof. exact check_sig_cached_time_sound. Qed.
Print Assumptions C14_check_sig_cached_time_sound.

Theorem C14_revalidate_sound : sig_cache_checks_time_first = true -> forall n1 n2 i e,
  revalidate n1 n2 i e = Ok true -> sig_time_ok n2 i e = true.
Proof. exact revalidate_sound. Qed.
Print Assumptions C14_revalidate_sound.

Theorem C14_revalidate_refuted : sig_cache_checks_time_first = false -> sig_time_is_canonical = false ->
  exists n1 n2 i e, sig_time_ok n2 i e = false /\
    (revalidate n1 n2 i e = Ok true \/ exists p, revalidate n1 n2 i e = Panic p).
Proof. exact revalidate_refuted. Qed.
Print Assumptions C14_revalidate_refuted.

Theorem C14_revalidate_total : sig_cache_checks_time_first = true -> sig_time_is_canonical = false ->
  forall n1 n2 i e, u32 n2 -> u32 i -> u32 e ->
  (ttl_for_sig_wraps = true \/ n2 < 2147483648) -> no_panic (revalidate n1 n2 i e).
Proof. exact revalidate_total. Qed.
Print Assumptions C14_revalidate_total.

Theorem C14_ttl_underflow_refuted : ttl_for_sig_wraps = false ->
  exists now exp, now < 4294967296 /\ exp < 4294967296 /\ rfc_lt now exp /\ ttl_until_expired now exp = Panic 1.
Proof. exact ttl_underflow_refuted. Qed.
Print Assumptions C14_ttl_underflow_refuted.

(* ---- trust anchor step *)
Theorem C14_anchor_secure_implies_anchored_key : forall dg vf tas keys sigs maxbad,
  trust_anchor_state dg vf tas keys sigs maxbad = Secure ->
  exists a k s, In a tas /\ In k keys /\ In s sigs /\ anchored dg a k /\ sg_tag s = k_tag k /\ vf k s = true.
Proof. exact anchor_secure_implies_anchored_key. Qed.
Print Assumptions C14_anchor_secure_implies_anchored_key.

Theorem C14_anchor_never_insecure : forall dg vf tas keys sigs maxbad,
  trust_anchor_state dg vf tas keys sigs maxbad = Secure \/ trust_anchor_state dg vf tas keys sigs maxbad = Bogus.
Proof. exact anchor_never_insecure. Qed.
Print Assumptions C14_anchor_never_insecure.

(* ---- wildcard-expanded answers *)
Theorem C14_wildcard_secure_sound : forall H ci cb sname signer ce ngs n3gs,
  wildcard_answer_state H ci cb sname Secure signer (Some ce) ngs n3gs = Ok Secure ->
  name_eqb sname (star_label :: ce) = true \/
  (exists g, In g ngs /\ usable g signer /\ covers sname g /\
             name_eqb ce (nsec_closest_encloser sname (g_owner g) (g_next g)) = true) \/
  (exists c g oh, child_of_ce sname ce = Some c /\ In g n3gs /\ usable3 ci cb g signer oh /\
             covers3 H g oh c /\ h_optout g = false).
Proof. exact wildcard_secure_sound. Qed.
Print Assumptions C14_wildcard_secure_sound.

Theorem C14_wildcard_answer_total : forall H ci cb sname st signer oce ngs n3gs,
  Forall wf_group ngs -> label_to_hash_expects = false ->
  (forall ce, oce = Some ce -> (length ce < length sname)%nat) ->
  no_panic (wildcard_answer_state H ci cb sname st signer oce ngs n3gs).
Proof. exact wildcard_answer_total. Qed.
Print Assumptions C14_wildcard_answer_total.

(* ---- DNAME: what may leave the answer section unvalidated *)
Theorem C14_map_dname_keeps_prefix : forall owner dt p r, map_dname owner dt (p ++ owner) = Some r -> r = p ++ dt.
Proof. exact map_dname_keeps_prefix. Qed.
Print Assumptions C14_map_dname_keeps_prefix.

Theorem C14_moved_to_dname_sound : forall cowner ctarget gs,
  moved_to_dname cowner ctarget gs = true -> exists g, In g gs /\ synthesized_by cowner ctarget g.
Proof. exact moved_to_dname_sound. Qed.
Print Assumptions C14_moved_to_dname_sound.

Theorem C14_removed_cname_is_exact_synthesis : forall gs g,
  In g gs -> ~ In g (move_redundant_cnames gs) ->
  a_rtype g = rt_CNAME /\ a_nrr g = 1 /\ a_signed g = false /\
  exists t, a_cname g = Some t /\ exists d, In d gs /\ synthesized_by (a_owner g) t d.
Proof. exact removed_cname_is_exact_synthesis. Qed.
Print Assumptions C14_removed_cname_is_exact_synthesis.

(* ---- cached nodes *)
Theorem C14_anchor_node_never_outlives_sig :
  anchor_node_limited_by_sig = true -> anchor_node_limited_by_dnskey_ttl = true -> ttl_for_sig_wraps = true ->
  forall now1 now2 maxv dttl sg,
  now1 <= st_expiration sg -> st_expiration sg < M32 -> now1 <= now2 ->
  anchor_still_trusts now1 now2 maxv dttl sg = Ok true ->
  now2 <= st_expiration sg /\ now2 - now1 <= dttl /\ now2 - now1 <= maxv.
Proof. exact anchor_node_never_outlives_sig. Qed.
Print Assumptions C14_anchor_node_never_outlives_sig.

Theorem C14_child_node_never_outlives_sigs :
  child_node_limited_by_ds = true -> group_ttl_limited_by_sig = true ->
  child_node_limited_by_dnskey_ttl = true -> child_node_limited_by_dnskey_sig = true -> ttl_for_sig_wraps = true ->
  forall now1 now2 pl dsttl dss kttl ks,
  now1 <= st_expiration dss -> st_expiration dss < M32 -> now1 <= st_expiration ks -> st_expiration ks < M32 -> now1 <= now2 ->
  child_still_trusts now1 now2 pl dsttl dss kttl ks = Ok true ->
  now2 <= st_expiration dss /\ now2 <= st_expiration ks /\ now2 - now1 <= dsttl /\ now2 - now1 <= kttl /\ now2 - now1 <= pl.
Proof. exact child_node_never_outlives_sigs. Qed.
Print Assumptions C14_child_node_never_outlives_sigs.

Theorem C14_anchor_node_outlives_sig_refuted : anchor_node_limited_by_sig = false ->
  exists now1 now2 maxv dttl sg, now1 <= st_expiration sg /\ st_expiration sg < now2 /\
    anchor_still_trusts now1 now2 maxv dttl sg = Ok true.
Proof. exact anchor_node_outlives_sig_refuted. Qed.
Print Assumptions C14_anchor_node_outlives_sig_refuted.

Theorem C14_ds_reply_insecure_only_with_proof : forall H ci cb t cn gs,
  ds_reply_decision H ci cb t cn gs = Ok InsecureDelegation ->
  cn = NoCname /\ exists g, In g gs /\ (nsec_no_ds_proof t g \/ nsec3_no_ds_proof H ci cb t g).
Proof. exact ds_reply_insecure_only_with_proof. Qed.
Print Assumptions C14_ds_reply_insecure_only_with_proof.

(* ---- the node cache path *)
Theorem C14_get_node_sound : forall now ta_owner ta_node mk_child c n r,
  get_node now ta_owner ta_node mk_child c n = Ok r ->
  suffix_of (l_zone r) n /\
  (l_from_cache r = true -> exists nd, cache_get c (l_zone r) = Some nd /\ l_node r = nd /\
                                       node_usable (cn_created nd) (cn_valid_for nd) now = true) /\
  (closest_skips_intermediate = true -> cn_intermediate ta_node = false ->
   Forall (fun cl => cn_intermediate (snd cl) = false) (l_calls r)).
Proof. exact get_node_sound. Qed.
Print Assumptions C14_get_node_sound.

Theorem C14_intermediate_signer_refuted : closest_skips_intermediate = false ->
  exists now ta_node mk c n r, get_node now [] ta_node mk c n = Ok r /\
    exists cl, In cl (l_calls r) /\ cn_intermediate (snd cl) = true.
Proof. exact intermediate_signer_refuted. Qed.
Print Assumptions C14_intermediate_signer_refuted.

(* ---- grouping records into RRsets with their signatures *)
Theorem C14_signature_attached_only_to_covered_rrset : forall rs g s,
  In g (groupset_of rs) -> In s (m_sigs g) ->
  r_is_sig s = true /\
  forall r, In r (m_rrs g) -> r_is_sig r = false /\ name_eqb (r_owner r) (r_owner s) = true /\
                              r_class r = r_class s /\ r_type r = r_type s.
Proof. exact signature_attached_only_to_covered_rrset. Qed.
Print Assumptions C14_signature_attached_only_to_covered_rrset.

(* ---- the validating transport: header flags handed to the client *)
Theorem C14_ad_only_when_validated_secure : conn_cd_do_repairs_ad = true ->
  forall req_cd req_do req_ad up_ad up_cd st,
  o_ad (connection req_cd req_do req_ad up_ad up_cd st) = true ->
  req_cd = false /\ st = Secure /\ (req_do = true \/ req_ad = true).
Proof. exact ad_only_when_validated_secure. Qed.
Print Assumptions C14_ad_only_when_validated_secure.

Theorem C14_upstream_ad_never_passed : conn_cd_do_repairs_ad = true ->
  forall req_cd req_do req_ad up_cd st,
  o_ad (connection req_cd req_do req_ad true up_cd st) = o_ad (connection req_cd req_do req_ad false up_cd st).
Proof. exact upstream_ad_never_passed. Qed.
Print Assumptions C14_upstream_ad_never_passed.

Theorem C14_upstream_ad_leak_refuted : conn_cd_do_repairs_ad = false ->
  exists st, o_ad (connection true true false true true st) = true.
Proof. exact upstream_ad_leak_refuted. Qed.
Print Assumptions C14_upstream_ad_leak_refuted.

Theorem C14_bogus_is_servfail : forall req_do req_ad up_ad up_cd,
  o_servfail (connection false req_do req_ad up_ad up_cd Bogus) = true /\
  o_ad (connection false req_do req_ad up_ad up_cd Bogus) = false.
Proof. exact bogus_is_servfail. Qed.
Print Assumptions C14_bogus_is_servfail.

(* ---- proof-only round: wildcard-expanded CNAME steps, multi-record DNAME RRsets *)
Theorem C14_positive_full_sound : forall H ci cb ngs n3gs q qt maxc gs,
  positive_full H ci cb ngs n3gs q qt maxc gs = Ok (Some Secure) ->
  (forall w, In w gs -> a_state (w_g w) <> Bogus) /\
  exists sname w, chain_w H ci cb ngs n3gs qt gs q sname /\ get_answer_w sname qt gs = Some w /\ In w gs /\
    a_state (w_g w) = Secure /\
    match w_ce w with
    | None => True
    | Some ce => name_eqb sname (star_label :: ce) = true \/ nonexistence_proof H ci cb ngs n3gs sname (w_signer w) ce
    end.
Proof. exact positive_full_sound. Qed.
Print Assumptions C14_positive_full_sound.

Theorem C14_wild_check_secure_sound : forall H ci cb ngs n3gs nm signer ce,
  wild_check H ci cb ngs n3gs nm signer ce = Ok (true, Secure) -> nonexistence_proof H ci cb ngs n3gs nm signer ce.
Proof. exact wild_check_secure_sound. Qed.
Print Assumptions C14_wild_check_secure_sound.

Theorem C14_positive_full_extends : forall H ci cb ngs n3gs q qt maxc gs s, Forall wf_wgroup gs ->
  positive_answer_state q qt maxc (map w_g gs) = Ok (Some s) ->
  positive_full H ci cb ngs n3gs q qt maxc gs = Ok (Some s).
Proof. exact positive_full_extends. Qed.
Print Assumptions C14_positive_full_extends.

Theorem C14_moved_to_dname_all_sound : forall cowner ctarget gs,
  moved_to_dname_all cowner ctarget gs = true ->
  exists g dt res, In g gs /\ dn_rtype g = rt_DNAME /\ In dt (dn_targets g) /\
    ends_with cowner (dn_owner g) = true /\ name_eqb cowner (dn_owner g) = false /\
    map_dname (dn_owner g) dt cowner = Some res /\ name_eqb ctarget res = true.
Proof. exact moved_to_dname_all_sound. Qed.
Print Assumptions C14_moved_to_dname_all_sound.

Theorem C14_moved_to_dname_all_agrees : forall cowner ctarget gs,
  moved_to_dname_all cowner ctarget (map dn_of gs) = moved_to_dname cowner ctarget gs.
Proof. exact moved_to_dname_all_agrees. Qed.
Print Assumptions C14_moved_to_dname_all_agrees.

(* ---- completeness: correctly signed data is reported secure, insecure data insecure (not bogus) *)
Theorem C14_check_sig_iff : forall s, check_sig s = true <->
  name_eqb (s_sig_owner s) (s_owner s) = true /\ s_same_class s = true /\
  ends_with (s_owner s) (s_signer s) = true /\
  s_type_covered s = s_rtype s /\
  s_sig_labels s <= N.of_nat (length (s_owner s)) /\
  sig_time_ok (s_now s) (s_inception s) (s_expiration s) = true /\
  name_eqb (s_signer s) (s_key_name s) = true /\ s_sig_alg s = s_key_alg s /\ s_sig_tag s = s_key_tag s /\
  s_zone_key s = true /\ s_crypto_ok s = true.
Proof. exact check_sig_iff. Qed.
Print Assumptions C14_check_sig_iff.

Theorem C14_validate_groups_complete : forall l, ~ In Bogus l -> validate_groups l = Some l.
Proof. exact validate_groups_complete. Qed.
Print Assumptions C14_validate_groups_complete.

Theorem C14_positive_direct_verdict : forall q qt maxc gs g,
  Forall (fun g => a_state g = Secure \/ a_state g = Insecure) gs ->
  cname_find q qt gs = Some None ->
  get_answer_state q qt gs = Some g ->
  a_wild g = false ->
  exists s, positive_answer_state q qt maxc gs = Ok (Some s) /\ (s = Secure \/ s = Insecure) /\
    (a_state g = Insecure -> s = Insecure) /\
    ((forall g', In g' gs -> a_state g' = Secure) -> s = Secure).
Proof. exact positive_direct_verdict. Qed.
Print Assumptions C14_positive_direct_verdict.

Theorem C14_positive_secure_complete : forall q qt maxc gs k sname g,
  (forall g, In g gs -> a_state g <> Bogus) ->
  chain_n qt gs k q sname -> N.of_nat k <= maxc ->
  cname_find sname qt gs = Some None ->
  get_answer_state sname qt gs = Some g -> a_state g = Secure -> a_wild g = false ->
  (answer_init_is_const = false -> forall g, In g gs -> a_state g = Secure) ->
  positive_answer_state q qt maxc gs = Ok (Some Secure).
Proof. exact positive_secure_complete. Qed.
Print Assumptions C14_positive_secure_complete.

Theorem C14_chain_n_is_chain_secure : forall qt gs k n m, chain_n qt gs k n m -> chain_secure qt gs n m.
Proof. exact chain_n_chain_secure. Qed.
Print Assumptions C14_chain_n_is_chain_secure.

Theorem C14_positive_bogus_group : forall q qt maxc gs g,
  In g gs -> a_state g = Bogus -> positive_answer_state q qt maxc gs = Ok (Some Bogus).
Proof. exact positive_bogus_group. Qed.
Print Assumptions C14_positive_bogus_group.

Theorem C14_negative_nxdomain_complete : forall t qt s gs ce e,
  ~ In Bogus (map snd gs) ->
  nsec_for_nxdomain t (map fst gs) s = Ok (NxDoesNotExist ce, e) ->
  negative_msg_state true t qt s gs = Ok (Secure, e).
Proof. exact negative_nxdomain_complete. Qed.
Print Assumptions C14_negative_nxdomain_complete.

Theorem C14_negative_nodata_complete : forall t qt s gs e,
  ~ In Bogus (map snd gs) ->
  nsec_for_nodata t (map fst gs) qt s = Ok (NoData, e) ->
  negative_msg_state false t qt s gs = Ok (Secure, e).
Proof. exact negative_nodata_complete. Qed.
Print Assumptions C14_negative_nodata_complete.

Theorem C14_negative_nodata_wildcard_complete : forall t qt s gs e0 e,
  ~ In Bogus (map snd gs) ->
  nsec_for_nodata t (map fst gs) qt s = Ok (NNothing, e0) ->
  nsec_for_nodata_wildcard t (map fst gs) qt s = Ok (NoData, e) ->
  negative_msg_state false t qt s gs = Ok (Secure, e).
Proof. exact negative_nodata_wildcard_complete. Qed.
Print Assumptions C14_negative_nodata_wildcard_complete.

Theorem C14_negative_bogus_group : forall nx t qt s gs,
  In Bogus (map snd gs) -> negative_msg_state nx t qt s gs = Ok (Bogus, 99).
Proof. exact negative_bogus_group. Qed.
Print Assumptions C14_negative_bogus_group.
