(* C14 model, trust anchor step: dnssec/validator/context.rs Node::trust_anchor with
   has_key / has_ds: the DNSKEY RRset served for the anchor's name is accepted only
   through a key that the configured anchor vouches for - an identical DNSKEY record,
   or a DS record matching a key (algorithm, tag, digest; a digest type the digest
   function does not support never matches) - and a signature with that key's tag
   that verifies under that key.  dg / vf as in C14.ModelChain. *)
From Coq Require Import NArith List Bool.
Import ListNotations.
From DV Require Import Base.Outcome Base.Bytes Base.Lex C14.Gen C14.Model C14.ModelN3 C14.ModelChain.
Local Open Scope N_scope.

Inductive anchor := TaKey (id : N) | TaDs (d : dsr) | TaOther.

Section Ta.
Variable dg : dkey -> N -> bytes.
Variable vf : dkey -> ksig -> bool.

(* has_key: owner, class, type and the DNSKEY RDATA are equal; keys are identified by k_id *)
Fixpoint has_key (id : N) (keys : list dkey) : option dkey :=
  match keys with [] => None | k :: r => if k_id k =? id then Some k else has_key id r end.

(* has_ds = find_key_for_ds without the caller's supported-DS filter: DnskeyExt::digest
   fails for other digest types and the key is skipped *)
Fixpoint find_key_for_ds_any (d : dsr) (keys : list dkey) : option dkey :=
  match keys with
  | [] => None
  | k :: r =>
      if negb (k_alg k =? d_alg d) then find_key_for_ds_any d r
      else if negb (k_tag k =? d_tag d) then find_key_for_ds_any d r
      else if negb (supported_digest (d_dt d)) then find_key_for_ds_any d r
      else if bytes_eqb (d_digest d) (dg k (d_dt d)) then Some k
      else find_key_for_ds_any d r
  end.

Definition anchor_key (a : anchor) (keys : list dkey) : option dkey :=
  match a with TaKey id => has_key id keys | TaDs d => find_key_for_ds_any d keys | TaOther => None end.

Fixpoint ta_loop (tas : list anchor) (keys : list dkey) (sigs : list ksig) (bad maxbad : N) : vstate :=
  match tas with
  | [] => Bogus
  | a :: r =>
      match anchor_key a keys with
      | None => ta_loop r keys sigs bad maxbad
      | Some k =>
          match try_sigs vf k sigs bad maxbad with
          | inl true => Secure
          | inl false => Bogus
          | inr bad' => ta_loop r keys sigs bad' maxbad
          end
      end
  end.

Definition trust_anchor_state (tas : list anchor) (keys : list dkey) (sigs : list ksig) (maxbad : N) : vstate :=
  ta_loop tas keys sigs 0 maxbad.
End Ta.
