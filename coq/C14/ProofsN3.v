(* C14 proofs, part 5: soundness of the NSEC3 decision functions (RFC 5155 8.3-8.7)
   for every hash function H. *)
From Coq Require Import NArith List Bool Lia PeanoNat.
Import ListNotations.
From DV Require Import Base.Outcome Base.Bytes Base.Lex Base.Names.
From DV Require Import C18.Model C14.Gen C14.Model C14.ModelN3 C14.Proofs C14.ProofsDenial C14.ProofsL2H.
Local Open Scope N_scope.

(* ------------------------------------------------------------ the names walked *)
Inductive chain : list name -> Prop :=
| ch0 : chain []
| ch1 n : chain [n]
| ch2 a l rest : chain ((l :: a) :: rest) -> chain (a :: (l :: a) :: rest).

Lemma chain_snoc L a l : chain (L ++ [a]) -> chain (L ++ [a; l :: a]).
Proof.
  induction L as [|x L IH]; simpl; intros H.
  - apply ch2, ch1.
  - destruct L as [|y L]; simpl in *.
    + inversion H; subst. apply ch2. apply IH. apply ch1.
    + inversion H; subst. apply ch2. apply IH. assumption.
Qed.

Lemma take_while_suffixes_head p t :
  take_while p (suffixes t) = [] \/ exists r, take_while p (suffixes t) = t :: r.
Proof. destruct t; simpl; destruct (p _); eauto. Qed.

Lemma walk_names_chain t s : chain (walk_names t s).
Proof.
  unfold walk_names. set (p := fun n => ends_with n s).
  induction t as [|x t IH]; simpl.
  - destruct (p []); simpl; constructor.
  - destruct (p (x :: t)); simpl; [|constructor].
    destruct (take_while_suffixes_head p t) as [E|[r E]].
    + destruct t; simpl in E |- *; rewrite E; simpl; constructor.
    + assert (E' : take_while p (match t with [] => [] | _ :: n' => suffixes n' end) = r /\ p t = true \/ True) by (right; exact I).
      clear E'. replace (take_while p (suffixes t)) with (t :: r) in IH by (symmetry; exact E).
      assert (Es : take_while p (suffixes (x :: t)) = (x :: t) :: t :: r \/ True) by (right; exact I). clear Es.
      change (suffixes (x :: t)) with ((x :: t) :: suffixes t) in *.
      rewrite E. simpl. simpl in IH. rewrite <- app_assoc. simpl. apply chain_snoc. exact IH.
Qed.

Lemma suffixes_suffix t n : In n (suffixes t) -> suffix_of n t.
Proof.
  induction t as [|x t IH]; simpl.
  - intros [<-|[]]. exists []. reflexivity.
  - intros [<-|H]; [exists []; reflexivity|].
    destruct (IH H) as [p Hp]. exists (x :: p). simpl. f_equal. exact Hp.
Qed.

Lemma take_while_incl {A} (p : A -> bool) l x : In x (take_while p l) -> In x l /\ p x = true.
Proof.
  induction l as [|y l IH]; simpl; [intros []|].
  destruct (p y) eqn:E; simpl; [|intros []].
  intros [<-|H]; [auto|]. destruct (IH H). auto.
Qed.

Lemma walk_names_in t s n : In n (walk_names t s) -> suffix_of n t /\ ends_with n s = true.
Proof.
  unfold walk_names. rewrite <- in_rev. intros H. apply take_while_incl in H as [H1 H2].
  split; [apply suffixes_suffix; exact H1|exact H2].
Qed.

(* ------------------------------------------------------------ checked groups *)
Section N3P.
Variable H : N -> bytes -> name -> bytes.
Variable ci cb : N.

Notation chk := (get_checked_nsec3 ci cb).
Notation hof := (hash_of H).

(* what makes an NSEC3 group usable (Ok (CSome oh)) *)
Lemma checked_some g s oh : chk g s = Ok (CSome oh) ->
  h_nrr g = 1 /\ h_is_nsec3 g = true /\ h_secure g = true /\ name_eqb (h_signer g) s = true /\
  h_alg g = 1 /\ h_iter g <= ci /\ h_iter g <= cb /\
  nsec3_label_to_hash (h_label g) = Ok oh /\ length oh = length (h_next g).
Proof.
  unfold get_checked_nsec3.
  destruct (N.eqb_spec (h_nrr g) 1); cbn [negb]; [|discriminate].
  destruct (h_is_nsec3 g); cbn [negb]; [|discriminate].
  destruct (h_secure g); cbn [negb]; [|discriminate].
  destruct (name_eqb (h_signer g) s); cbn [negb]; [|discriminate].
  destruct (supported_nsec3_hash (h_alg g)) eqn:A; cbn [negb]; [|discriminate].
  apply supported_nsec3_hash_spec in A.
  unfold nsec3_iter_cmp_op, op_holds.
  destruct (N.compare_spec (h_iter g) ci); destruct (N.compare_spec (h_iter g) cb); cbn [orb];
    try (intros X; discriminate X);
    (destruct (nsec3_label_to_hash (h_label g)) as [oh'| | |]; try discriminate;
     destruct (Nat.eqb_spec (length oh') (length (h_next g))); cbn [negb]; intros X; inversion X; subst;
     repeat split; try assumption; try reflexivity; lia).
Qed.

Definition usable3 (g : n3group) (s : name) (oh : bytes) : Prop := chk g s = Ok (CSome oh).
Definition matches3 (g : n3group) (oh : bytes) (n : name) : Prop :=
  oh = hof g n /\ hasn rt_DNAME g = false /\ (hasn rt_NS g = true -> hasn rt_SOA g = true).
(* covered: strictly between the owner hash and the next hash (both ends excluded) *)
Definition covers3 (g : n3group) (oh : bytes) (n : name) : Prop :=
  oh <> hof g n /\ hof g n <> h_next g /\ nsec3_in_range (hof g n) oh (h_next g) = true.

Lemma bytes_eqb_spec a b : bytes_eqb a b = true <-> a = b.
Proof. unfold bytes_eqb. rewrite <- lex_cmp_eq. destruct (lex_cmp a b); split; congruence. Qed.

(* ------------------------------------------------------------ one name *)
Lemma name_step_sound n cand mce s gs : forall st,
  name_step H ci cb n cand mce s gs = Ok st ->
  match st with
  | SMatch => exists g oh, In g gs /\ usable3 g s oh /\ matches3 g oh n
  | SRet (N3DNE ce, e) => cand = true /\ ce = mce /\ e = 0 /\
                          exists g oh, In g gs /\ usable3 g s oh /\ covers3 g oh n /\ h_optout g = false
  | SRet (N3DNEInsecure ce, e) => cand = true /\ ce = mce /\
                          exists g oh, In g gs /\ usable3 g s oh /\ covers3 g oh n /\ h_optout g = true
  | _ => True
  end.
Proof.
  induction gs as [|g gs IH]; intros st E; simpl in E.
  - inversion E. exact I.
  - destruct (chk g s) as [c| | |] eqn:C; simpl in E; try discriminate.
    assert (Lift : forall st, match st with
        | SMatch => exists g0 oh, In g0 gs /\ usable3 g0 s oh /\ matches3 g0 oh n
        | SRet (N3DNE ce, e) => cand = true /\ ce = mce /\ e = 0 /\ exists g0 oh, In g0 gs /\ usable3 g0 s oh /\ covers3 g0 oh n /\ h_optout g0 = false
        | SRet (N3DNEInsecure ce, e) => cand = true /\ ce = mce /\ exists g0 oh, In g0 gs /\ usable3 g0 s oh /\ covers3 g0 oh n /\ h_optout g0 = true
        | _ => True end ->
        match st with
        | SMatch => exists g0 oh, In g0 (g :: gs) /\ usable3 g0 s oh /\ matches3 g0 oh n
        | SRet (N3DNE ce, e) => cand = true /\ ce = mce /\ e = 0 /\ exists g0 oh, In g0 (g :: gs) /\ usable3 g0 s oh /\ covers3 g0 oh n /\ h_optout g0 = false
        | SRet (N3DNEInsecure ce, e) => cand = true /\ ce = mce /\ exists g0 oh, In g0 (g :: gs) /\ usable3 g0 s oh /\ covers3 g0 oh n /\ h_optout g0 = true
        | _ => True end).
    { intros [[[ce|ce| | |] e]| | |]; try exact (fun x => x).
      - intros (A & B & D & g0 & oh & I0 & R). split; [exact A|]. split; [exact B|]. split; [exact D|]. exists g0, oh. split; [right; exact I0|exact R].
      - intros (A & B & g0 & oh & I0 & R). split; [exact A|]. split; [exact B|]. exists g0, oh. split; [right; exact I0|exact R].
      - intros (g0 & oh & I0 & R). exists g0, oh. split; [right; exact I0|exact R]. }
    destruct c as [|ins e|oh].
    + apply Lift, IH, E.
    + inversion E. destruct ins; exact I.
    + destruct (bytes_eqb oh (hof g n)) eqn:B.
      * apply bytes_eqb_spec in B.
        destruct (hasn rt_DNAME g || hasn rt_NS g && negb (hasn rt_SOA g)) eqn:T; inversion E; [exact I|].
        apply orb_false_iff in T as [T1 T2].
        exists g, oh. split; [left; reflexivity|]. split; [exact C|]. split; [exact B|]. split; [exact T1|].
        intros Hns. rewrite Hns in T2. destruct (hasn rt_SOA g); [reflexivity|discriminate].
      * assert (Hne : oh <> hof g n) by (intros X; apply bytes_eqb_spec in X; congruence).
        destruct (nsec3_in_range (hof g n) oh (h_next g)) eqn:R.
        -- destruct cand; [|inversion E; exact I].
           destruct (h_optout g) eqn:O; inversion E.
           ++ split; [reflexivity|]. split; [reflexivity|]. exists g, oh. split; [left; reflexivity|]. split; [exact C|]. split; [split; [exact Hne|split; [apply (nsec3_in_range_strict _ _ _ R)|exact R]]|exact O].
           ++ split; [reflexivity|]. split; [reflexivity|]. split; [reflexivity|]. exists g, oh. split; [left; reflexivity|]. split; [exact C|]. split; [split; [exact Hne|split; [apply (nsec3_in_range_strict _ _ _ R)|exact R]]|exact O].
        -- apply Lift, IH, E.
Qed.

(* ------------------------------------------------------------ the walk *)
(* the closest encloser is the signer itself or matched by a usable NSEC3 *)
Definition established (gs : list n3group) (s ce : name) : Prop :=
  name_eqb ce s = true \/ exists g oh, In g gs /\ usable3 g s oh /\ matches3 g oh ce.

Definition dne_proof (gs : list n3group) (s : name) (names : list name) (ce : name) (optout : bool) : Prop :=
  established gs s ce /\
  exists l, In (l :: ce) names /\
    exists g oh, In g gs /\ usable3 g s oh /\ covers3 g oh (l :: ce) /\ h_optout g = optout.

Lemma walk_sound s gs : forall names cand mce r e,
  chain names ->
  (cand = true -> established gs s mce /\ match names with [] => True | n :: _ => exists l, n = l :: mce end) ->
  walk H ci cb names cand mce s gs = Ok (r, e) ->
  match r with
  | N3DNE ce => e = 0 /\ dne_proof gs s names ce false
  | N3DNEInsecure ce => dne_proof gs s names ce true
  | _ => True
  end.
Proof.
  induction names as [|n rest IH]; intros cand mce r e Hc Hinv E; simpl in E.
  - inversion E. exact I.
  - assert (Hc' : chain rest) by (inversion Hc; subst; [constructor|assumption]).
    assert (Hnext : match rest with [] => True | n' :: _ => exists l, n' = l :: n end).
    { inversion Hc; subst; [exact I|]. eexists. reflexivity. }
    assert (Lift : forall r, match r with
        | N3DNE ce => e = 0 /\ dne_proof gs s rest ce false
        | N3DNEInsecure ce => dne_proof gs s rest ce true | _ => True end ->
        match r with
        | N3DNE ce => e = 0 /\ dne_proof gs s (n :: rest) ce false
        | N3DNEInsecure ce => dne_proof gs s (n :: rest) ce true | _ => True end).
    { intros [ce|ce| | |]; try exact (fun x => x).
      - intros (A & B & l & I0 & R). split; [exact A|]. split; [exact B|]. exists l. split; [right; exact I0|exact R].
      - intros (B & l & I0 & R). split; [exact B|]. exists l. split; [right; exact I0|exact R]. }
    destruct (name_eqb n s) eqn:Es.
    + apply Lift. eapply IH; [exact Hc'| |exact E].
      intros _. split; [left; exact Es|exact Hnext].
    + destruct (name_step H ci cb n cand mce s gs) as [st| | |] eqn:S; simpl in E; try discriminate.
      pose proof (name_step_sound n cand mce s gs st S) as P.
      destruct st as [[r0 e0]| | |].
      * inversion E; subst r0 e0. destruct r as [ce|ce| | |]; try exact I.
        -- destruct P as (Pc & -> & -> & g & oh & R). destruct (Hinv Pc) as [Hest [l ->]].
           split; [reflexivity|]. split; [exact Hest|]. exists l. split; [left; reflexivity|]. exists g, oh. exact R.
        -- destruct P as (Pc & -> & g & oh & R). destruct (Hinv Pc) as [Hest [l ->]].
           split; [exact Hest|]. exists l. split; [left; reflexivity|]. exists g, oh. exact R.
      * apply Lift. eapply IH; [exact Hc'| |exact E].
        intros _. split; [right; exact P|exact Hnext].
      * apply Lift. eapply IH; [exact Hc'| |exact E]. intros X; discriminate X.
      * apply Lift. eapply IH; [exact Hc'| |exact E]. intros X; discriminate X.
Qed.

(* RFC 5155 8.3 closest encloser proof: the closest encloser is the signer (zone
   apex) or has a matching usable NSEC3 that is neither DNAME nor a delegation;
   the next closer name - exactly one label longer, a suffix of the target - is
   covered by a usable NSEC3; the verdict is "insecure" exactly when that
   covering record has the Opt-Out flag *)
Theorem n3_not_exists_sound t gs s r e :
  nsec3_for_not_exists H ci cb t gs s = Ok (r, e) ->
  match r with
  | N3DNE ce => e = 0 /\ established gs s ce /\
      exists l, suffix_of (l :: ce) t /\ exists g oh, In g gs /\ usable3 g s oh /\ covers3 g oh (l :: ce) /\ h_optout g = false
  | N3DNEInsecure ce => established gs s ce /\
      exists l, suffix_of (l :: ce) t /\ exists g oh, In g gs /\ usable3 g s oh /\ covers3 g oh (l :: ce) /\ h_optout g = true
  | _ => True
  end.
Proof.
  unfold nsec3_for_not_exists. intros E.
  pose proof (walk_sound s gs (walk_names t s) false s r e (walk_names_chain t s) (fun X => ltac:(discriminate X)) E) as P.
  destruct r as [ce|ce| | |]; try exact I.
  - destruct P as (A & B & l & I0 & R). split; [exact A|]. split; [exact B|]. exists l.
    split; [apply (walk_names_in t s), I0|exact R].
  - destruct P as (B & l & I0 & R). split; [exact B|]. exists l.
    split; [apply (walk_names_in t s), I0|exact R].
Qed.

Lemma no_ce_sound t gs s : forall r e,
  nsec3_for_not_exists_no_ce H ci cb t gs s = Ok (r, e) ->
  match r with
  | NcDNE => exists g oh, In g gs /\ usable3 g s oh /\ covers3 g oh t /\ h_optout g = false
  | _ => True
  end.
Proof.
  induction gs as [|g gs IH]; intros r e E; simpl in E.
  - inversion E. exact I.
  - destruct (chk g s) as [c| | |] eqn:C; simpl in E; try discriminate.
    assert (Lift : forall r, match r with
        | NcDNE => exists g0 oh, In g0 gs /\ usable3 g0 s oh /\ covers3 g0 oh t /\ h_optout g0 = false | _ => True end ->
        match r with
        | NcDNE => exists g0 oh, In g0 (g :: gs) /\ usable3 g0 s oh /\ covers3 g0 oh t /\ h_optout g0 = false | _ => True end).
    { intros [| | |]; try exact (fun x => x). intros (g0 & oh & I0 & R). exists g0, oh. split; [right; exact I0|exact R]. }
    destruct c as [|ins e0|oh].
    + apply Lift, (IH _ _ E).
    + inversion E. destruct ins; exact I.
    + destruct (nsec3_in_range (hof g t) oh (h_next g)) eqn:R.
      * destruct (h_optout g) eqn:O; inversion E; [exact I|].
        exists g, oh. split; [left; reflexivity|]. split; [exact C|]. split; [|exact O].
        pose proof (nsec3_in_range_strict _ _ _ R) as [S1 S2]. split; [intros X; apply S1; symmetry; exact X|split; [exact S2|exact R]].
      * apply Lift, (IH _ _ E).
Qed.

(* RFC 5155 8.4 name error: closest encloser proof plus a usable, non-opt-out
   NSEC3 covering the wildcard at the closest encloser *)
Theorem n3_nxdomain_sound t gs s ce e :
  nsec3_for_nxdomain H ci cb t gs s = Ok (N3DNE ce, e) ->
  established gs s ce /\
  (exists l, suffix_of (l :: ce) t /\ exists g oh, In g gs /\ usable3 g s oh /\ covers3 g oh (l :: ce) /\ h_optout g = false) /\
  exists g oh, In g gs /\ usable3 g s oh /\ covers3 g oh (star_label :: ce) /\ h_optout g = false.
Proof.
  unfold nsec3_for_nxdomain. intros E.
  destruct (nsec3_for_not_exists H ci cb t gs s) as [[st e1]| | |] eqn:E1; simpl in E; try discriminate.
  pose proof (n3_not_exists_sound t gs s st e1 E1) as P.
  destruct st as [ce0|ce0| | |]; try (inversion E; fail).
  - destruct (star_name ce0) as [star|] eqn:Es; [|inversion E].
    destruct (nsec3_for_not_exists_no_ce H ci cb star gs s) as [[st2 e2]| | |] eqn:E2; simpl in E; try discriminate.
    pose proof (no_ce_sound star gs s st2 e2 E2) as Q.
    destruct st2; inversion E; subst.
    destruct P as (_ & B & D). split; [exact B|]. split; [exact D|].
    unfold star_name in Es. destruct (Nat.leb (wire_len ce) 252); inversion Es. subst. exact Q.
  - destruct (star_name ce0) as [star|] eqn:Es; [|inversion E].
    destruct (nsec3_for_not_exists_no_ce H ci cb star gs s) as [[st2 e2]| | |]; simpl in E; try discriminate.
    destruct st2; inversion E.
Qed.

Lemma nodata_loop3_sound t rt s gs : forall e,
  nodata_loop3 H ci cb t rt s gs = Ok (S3NoData, e) ->
  e = 0 /\ exists g oh, In g gs /\ usable3 g s oh /\ oh = hof g t /\ hasn rt g = false /\ hasn rt_CNAME g = false /\
     (if rt =? rt_DS then hasn rt_NS g && hasn rt_SOA g = false else hasn rt_NS g && negb (hasn rt_SOA g) = false).
Proof.
  induction gs as [|g gs IH]; intros e E; simpl in E; [inversion E|].
  destruct (chk g s) as [c| | |] eqn:C; simpl in E; try discriminate.
  destruct c as [|ins e0|oh].
  - destruct (IH _ E) as (A & g0 & oh & I0 & R). split; [exact A|]. exists g0, oh. split; [right; exact I0|exact R].
  - destruct ins; inversion E.
  - destruct (bytes_eqb oh (hof g t)) eqn:B.
    + apply bytes_eqb_spec in B.
      destruct (hasn rt g || hasn rt_CNAME g) eqn:T; [inversion E|]. apply orb_false_iff in T as [T1 T2].
      destruct (rt =? rt_DS) eqn:D.
      * destruct (hasn rt_NS g && hasn rt_SOA g) eqn:X; inversion E.
        split; [reflexivity|]. exists g, oh. split; [left; reflexivity|]. repeat split; assumption.
      * destruct (hasn rt_NS g && negb (hasn rt_SOA g)) eqn:X; inversion E.
        split; [reflexivity|]. exists g, oh. split; [left; reflexivity|]. repeat split; assumption.
    + destruct (IH _ E) as (A & g0 & oh0 & I0 & R). split; [exact A|]. exists g0, oh0. split; [right; exact I0|exact R].
Qed.

(* RFC 5155 8.5 / 8.6 NODATA: a usable NSEC3 matching the name whose bitmap has
   neither the type nor CNAME, from the right side of a zone cut *)
Theorem n3_nodata_sound t gs rt s e :
  nsec3_for_nodata H ci cb t gs rt s = Ok (S3NoData, e) ->
  e = 0 /\ exists g oh, In g gs /\ usable3 g s oh /\ oh = hof g t /\ hasn rt g = false /\ hasn rt_CNAME g = false /\
     (if rt =? rt_DS then hasn rt_NS g && hasn rt_SOA g = false else hasn rt_NS g && negb (hasn rt_SOA g) = false).
Proof.
  unfold nsec3_for_nodata. destruct (rt =? rt_DS) eqn:D.
  - intros E. destruct (nsec3_for_not_exists H ci cb t gs s) as [[st e1]| | |]; simpl in E; try discriminate.
    destruct st; try (inversion E; fail). pose proof (nodata_loop3_sound t rt s gs e E) as P. rewrite D in P. exact P.
  - intros E. pose proof (nodata_loop3_sound t rt s gs e E) as P. rewrite D in P. exact P.
Qed.

(* RFC 5155 8.7 wildcard NODATA: closest encloser proof and a NODATA proof for the wildcard *)
Theorem n3_nodata_wildcard_sound t gs rt s e :
  nsec3_for_nodata_wildcard H ci cb t gs rt s = Ok (S3NoData, e) ->
  exists ce, established gs s ce /\
    (exists l, suffix_of (l :: ce) t /\ exists g oh, In g gs /\ usable3 g s oh /\ covers3 g oh (l :: ce) /\ h_optout g = false) /\
    exists g oh, In g gs /\ usable3 g s oh /\ oh = hof g (star_label :: ce) /\ hasn rt g = false /\ hasn rt_CNAME g = false.
Proof.
  unfold nsec3_for_nodata_wildcard. intros E.
  destruct (nsec3_for_not_exists H ci cb t gs s) as [[st e1]| | |] eqn:E1; simpl in E; try discriminate.
  pose proof (n3_not_exists_sound t gs s st e1 E1) as P.
  destruct st as [ce|ce| | |]; try (inversion E; fail).
  - destruct (star_name ce) as [star|] eqn:Es; [|inversion E].
    destruct (nsec3_for_nodata H ci cb star gs rt s) as [[st2 e2]| | |] eqn:E2; simpl in E; try discriminate.
    destruct st2; inversion E.
    apply n3_nodata_sound in E2 as (_ & g & oh & I0 & U & M & T1 & T2 & _).
    destruct P as (_ & B & D). exists ce. split; [exact B|]. split; [exact D|].
    unfold star_name in Es. destruct (Nat.leb (wire_len ce) 252); [|discriminate]. injection Es as <-.
    exists g, oh. split; [exact I0|]. split; [exact U|]. split; [exact M|]. split; [exact T1|exact T2].
  - destruct (star_name ce) as [star|]; [|inversion E].
    destruct (nsec3_for_nodata H ci cb star gs rt s) as [[st2 e2]| | |]; simpl in E; try discriminate.
    destruct st2; inversion E.
Qed.

(* ------------------------------------------------------------ totality *)
Lemma chk_total g s : label_to_hash_expects = false -> no_panic (chk g s).
Proof.
  intros X. unfold get_checked_nsec3.
  destruct (negb (h_nrr g =? 1)); [exact I|]. destruct (negb (h_is_nsec3 g)); [exact I|].
  destruct (negb (h_secure g)); [exact I|]. destruct (negb (name_eqb (h_signer g) s)); [exact I|].
  destruct (negb (supported_nsec3_hash (h_alg g))); [exact I|].
  destruct (_ || _); [destruct (op_holds _ _); exact I|].
  pose proof (label_to_hash_total X (h_label g)) as T.
  destruct (nsec3_label_to_hash (h_label g)); try exact I; try contradiction.
  destruct (negb _); exact I.
Qed.

Lemma name_step_total n cand mce s gs : label_to_hash_expects = false -> no_panic (name_step H ci cb n cand mce s gs).
Proof.
  intros X. induction gs as [|g gs IH]; simpl; [exact I|].
  apply bind_no_panic; [apply chk_total, X|]. intros [|ins e|oh] _; [exact IH|exact I|].
  destruct (bytes_eqb _ _); [destruct (_ || _); exact I|].
  destruct (nsec3_in_range _ _ _); [destruct cand; exact I|exact IH].
Qed.

Lemma walk_total s gs : label_to_hash_expects = false -> forall names cand mce, no_panic (walk H ci cb names cand mce s gs).
Proof.
  intros X. induction names as [|n rest IH]; intros cand mce; simpl; [exact I|].
  destruct (name_eqb n s); [apply IH|].
  apply bind_no_panic; [apply name_step_total, X|]. intros [r| | |] _; [exact I|apply IH|apply IH|apply IH].
Qed.

Lemma no_ce_total t gs s : label_to_hash_expects = false -> no_panic (nsec3_for_not_exists_no_ce H ci cb t gs s).
Proof.
  intros X. induction gs as [|g gs IH]; simpl; [exact I|].
  apply bind_no_panic; [apply chk_total, X|]. intros [|ins e|oh] _; [exact IH|exact I|].
  destruct (nsec3_in_range _ _ _); [exact I|exact IH].
Qed.

Lemma nodata_loop3_total t rt s gs : label_to_hash_expects = false -> no_panic (nodata_loop3 H ci cb t rt s gs).
Proof.
  intros X. induction gs as [|g gs IH]; simpl; [exact I|].
  apply bind_no_panic; [apply chk_total, X|]. intros [|ins e|oh] _; [exact IH|exact I|].
  destruct (bytes_eqb _ _); [|exact IH].
  destruct (_ || _); [exact I|]. destruct (rt =? rt_DS); destruct (_ && _); exact I.
Qed.

Theorem n3_helpers_total t gs rt s : label_to_hash_expects = false ->
  no_panic (nsec3_for_not_exists H ci cb t gs s) /\ no_panic (nsec3_for_nodata H ci cb t gs rt s) /\
  no_panic (nsec3_for_nxdomain H ci cb t gs s) /\ no_panic (nsec3_for_nodata_wildcard H ci cb t gs rt s).
Proof.
  intros X.
  assert (N1 : forall t, no_panic (nsec3_for_not_exists H ci cb t gs s)) by (intros; apply walk_total, X).
  assert (N2 : forall t, no_panic (nsec3_for_nodata H ci cb t gs rt s)).
  { intros t0. unfold nsec3_for_nodata. destruct (rt =? rt_DS); [|apply nodata_loop3_total, X].
    apply bind_no_panic; [apply N1|]. intros [[| | | |] e] _; try exact I. apply nodata_loop3_total, X. }
  split; [apply N1|]. split; [apply N2|]. split.
  - unfold nsec3_for_nxdomain. apply bind_no_panic; [apply N1|]. intros [st e] _.
    destruct st as [ce|ce| | |]; try exact I;
      (destruct (star_name ce); [|exact I]; apply bind_no_panic; [apply no_ce_total, X|]; intros [[| | |] e2] _; exact I).
  - unfold nsec3_for_nodata_wildcard. apply bind_no_panic; [apply N1|]. intros [st e] _.
    destruct st as [ce|ce| | |]; try exact I;
      (destruct (star_name ce); [|exact I]; apply bind_no_panic; [apply N2|]; intros [[| | |] e2] _; exact I).
Qed.
End N3P.

(* non-vacuity with a toy hash: H n = [first octet of the first label] *)
Definition toyH (_ : N) (_ : bytes) (n : name) : bytes :=
  match n with (b :: _) :: _ => [b] | _ => [0] end.
(* owner labels: Base32hex of one octet: 0x10 -> "20", 0x50 -> "A0", 0x90 -> "I0" *)
Example n3_examples :
  let g a nxt ts oo := mkN3 1 true true [[122]] 1 oo 0 [] a nxt ts in
  (* zone z: apex hash [0x10]? the signer needs no match; next closer "P.z" (0x50) covered by 0x10 -> 0x90, wildcard "*" (0x2a) too *)
  nsec3_for_nxdomain toyH 100 500 [[80]; [122]] [g [50; 48] [144] [2; 6] false] [[122]] = Ok (N3DNE [[122]], 0) /\
  (* two labels below the closest encloser with only a cover of the full name: the flag is reset, no proof *)
  nsec3_for_not_exists toyH 100 500 [[80]; [200]; [122]] [g [50; 48] [144] [2; 6] false] [[122]] = Ok (N3Nothing, 9) /\
  (* opt-out makes it insecure *)
  nsec3_for_not_exists toyH 100 500 [[80]; [122]] [g [50; 48] [144] [2; 6] true] [[122]] = Ok (N3DNEInsecure [[122]], 18) /\
  (* too many iterations *)
  nsec3_for_not_exists toyH 100 500 [[80]; [122]] [mkN3 1 true true [[122]] 1 false 101 [] [50; 48] [144] [] ] [[122]] = Ok (N3Insecure, 12) /\
  nsec3_for_not_exists toyH 100 500 [[80]; [122]] [mkN3 1 true true [[122]] 1 false 501 [] [50; 48] [144] [] ] [[122]] = Ok (N3Bogus, 11) /\
  (* NODATA: match 0x50 *)
  nsec3_for_nodata toyH 100 500 [[80]; [122]] [g [65; 48] [144] [1] false] 28 [[122]] = Ok (S3NoData, 0) /\
  nsec3_for_nodata toyH 100 500 [[80]; [122]] [g [65; 48] [144] [1] false] 1 [[122]] = Ok (S3Nothing, 14).
Proof. vm_compute. repeat split. Qed.
