(* C14 model, insecure-delegation decision: dnssec/validator/context.rs
   nsec_for_ds and nsec3_for_ds, and their combination in create_child_node for
   a DS reply that carries neither a DS nor a CNAME answer.
   A group of the authority section is abstracted by what the functions read;
   [d_valid] is the verdict of Group::validate_with_node under the parent's keys
   (Secure or not), consulted only where the code validates.  Both functions
   read rr_set[0] only.  H is the NSEC3 hash as in C14.ModelN3. *)
From Coq Require Import NArith List Bool.
Import ListNotations.
From DV Require Import Base.Outcome Base.Bytes Base.Lex Base.Names.
From DV Require Import C18.Model C14.Gen C14.Model C14.ModelN3.
Local Open Scope N_scope.

Inductive cnsec := InsecureDelegation | SecureIntermediate | CBogus | CNothing.

Record dgroup := mkDG {
  dg_rtype : N; dg_owner : name; dg_valid : bool; dg_ce : option name;
  dg_next : name; dg_types : list N;                       (* NSEC *)
  dg_alg : N; dg_optout : bool; dg_iter : N; dg_salt : bytes; dg_nexth : bytes   (* NSEC3 *)
}.
Definition dhas (t : N) (g : dgroup) : bool := existsb (N.eqb t) (dg_types g).

Fixpoint nsec_for_ds (target : name) (gs : list dgroup) : cnsec :=
  match gs with
  | [] => CNothing
  | g :: r =>
      if negb (dg_rtype g =? rt_NSEC) then nsec_for_ds target r
      else if name_eqb target (dg_owner g) then
        if negb (dg_valid g) then CBogus
        else match dg_ce g with Some _ => CBogus | None =>
          if dhas rt_DS g then CBogus
          else if dhas rt_SOA g then CBogus
          else if dhas rt_NS g then InsecureDelegation
          else SecureIntermediate end
      else
        let anc := ends_with target (dg_owner g) in
        if anc && negb (dg_valid g) then CBogus
        else if anc && (match dg_ce g with Some _ => true | None => false end) then CBogus
        else if anc && dhas rt_DNAME g then CBogus
        else if anc && dhas rt_NS g && negb (dhas rt_SOA g) then CBogus
        else if nsec_in_range target (dg_owner g) (dg_next g) && ends_with (dg_next g) target then
          if negb (dg_valid g) then CBogus
          else match dg_ce g with
               | Some w => if negb (name_eqb target w) then CBogus else SecureIntermediate
               | None => SecureIntermediate
               end
        else nsec_for_ds target r
  end.

Section DS3.
Variable H : N -> bytes -> name -> bytes.
Variable cfg_insecure cfg_bogus : N.

Definition parent_or_root (n : name) : name := match n with [] => [] | _ :: p => p end.
Definition first_label (n : name) : label := match n with [] => [] | l :: _ => l end.

Fixpoint nsec3_for_ds (target : name) (gs : list dgroup) : outcome cnsec :=
  match gs with
  | [] => Ok CNothing
  | g :: r =>
      if negb (dg_rtype g =? rt_NSEC3) then nsec3_for_ds target r
      else if op_holds nsec3_iter_cmp_op (dg_iter g ?= cfg_insecure) || op_holds nsec3_iter_cmp_op (dg_iter g ?= cfg_bogus) then
        if negb (dg_valid g) then Ok CBogus
        else if op_holds nsec3_iter_cmp_op (dg_iter g ?= cfg_bogus) then Ok CBogus
        else Ok InsecureDelegation
      else if negb (supported_nsec3_hash (dg_alg g)) then nsec3_for_ds target r
      else
        let h := H (dg_iter g) (dg_salt g) target in
        match nsec3_label_to_hash (first_label (dg_owner g)) with
        | Panic p => Panic p
        | OutOfFuel => OutOfFuel
        | Err _ => nsec3_for_ds target r
        | Ok oh =>
            if negb (ends_with target (parent_or_root (dg_owner g))) then nsec3_for_ds target r
            else
              do enc <- b32_display h;
              if label_eqb (first_label (dg_owner g)) enc then
                if negb (dg_valid g) then Ok CBogus
                else if dhas rt_DS g then Ok CBogus
                else if dhas rt_SOA g then Ok CBogus
                else if dhas rt_NS g then Ok InsecureDelegation
                else Ok SecureIntermediate
              else if nsec3_in_range h oh (dg_nexth g) then
                if negb (dg_valid g) then Ok CBogus
                else if negb (dg_optout g) then Ok CBogus
                else Ok InsecureDelegation
              else nsec3_for_ds target r
        end
  end.

(* create_child_node on a DS reply without DS / CNAME answer: NSEC first, NSEC3 if that finds nothing *)
Definition no_ds_decision (target : name) (gs : list dgroup) : outcome cnsec :=
  match nsec_for_ds target gs with
  | CNothing => nsec3_for_ds target gs
  | other => Ok other
  end.
(* create_child_node on a DS reply without a DS RRset for the name: a CNAME RRset at the name
   in the answer section decides first - validated under the parent's keys it makes the name a
   secure intermediate node, otherwise the delegation is bogus (validate_with_node under a
   secure parent yields Secure or Bogus only) - then the NSEC / NSEC3 proofs *)
Inductive ds_cname := NoCname | CnameValid | CnameInvalid.
Definition ds_reply_decision (target : name) (cn : ds_cname) (gs : list dgroup) : outcome cnsec :=
  match cn with
  | CnameValid => Ok SecureIntermediate
  | CnameInvalid => Ok CBogus
  | NoCname => no_ds_decision target gs
  end.
End DS3.
