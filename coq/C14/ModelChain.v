(* C14 model, chain step: dnssec/validator/context.rs find_key_for_ds and the
   part of create_child_node that decides a delegation with a validated DS
   RRset: no DS with a supported algorithm and digest -> insecure; otherwise
   the DNSKEY RRset must carry a signature that verifies under a key matching
   one of the supported DS records.
   Idealised parts are Section variables: [dg] the DS digest of a key
   (DnskeyExt::digest) and [vf] Group::check_sig_cached of a signature of the
   DNSKEY RRset under a key (RFC 4035 5.3.1 conditions and cryptography). *)
From Coq Require Import NArith List Bool.
Import ListNotations.
From DV Require Import Base.Outcome Base.Bytes Base.Lex C14.Gen C14.Model C14.ModelN3.
Local Open Scope N_scope.

Record dkey := mkK { k_alg : N; k_tag : N; k_id : N }.
Record dsr := mkD { d_alg : N; d_tag : N; d_dt : N; d_digest : bytes }.
Record ksig := mkSg { sg_tag : N; sg_id : N }.

Section Chain.
Variable dg : dkey -> N -> bytes.
Variable vf : dkey -> ksig -> bool.

Definition ds_supported (d : dsr) : bool := supported_algorithm (d_alg d) && supported_digest (d_dt d).

Fixpoint find_key_for_ds (d : dsr) (keys : list dkey) : option dkey :=
  match keys with
  | [] => None
  | k :: r =>
      if negb (k_alg k =? d_alg d) then find_key_for_ds d r
      else if negb (k_tag k =? d_tag d) then find_key_for_ds d r
      else if bytes_eqb (d_digest d) (dg k (d_dt d)) then Some k
      else find_key_for_ds d r
  end.

(* signatures of the DNSKEY RRset tried with the key selected by a DS:
   inl true = verified, inl false = too many bad signatures, inr bad = go on *)
Fixpoint try_sigs (k : dkey) (sigs : list ksig) (bad maxbad : N) : bool + N :=
  match sigs with
  | [] => inr bad
  | s :: r =>
      if negb (sg_tag s =? k_tag k) then try_sigs k r bad maxbad
      else if vf k s then inl true
      else if maxbad <? bad + 1 then inl false
      else try_sigs k r (bad + 1) maxbad
  end.

Fixpoint ds_loop (dss : list dsr) (keys : list dkey) (sigs : list ksig) (bad maxbad : N) : vstate :=
  match dss with
  | [] => Bogus
  | d :: r =>
      if negb (ds_supported d) then ds_loop r keys sigs bad maxbad
      else match find_key_for_ds d keys with
           | None => ds_loop r keys sigs bad maxbad
           | Some k =>
               match try_sigs k sigs bad maxbad with
               | inl true => Secure
               | inl false => Bogus
               | inr bad' => ds_loop r keys sigs bad' maxbad
               end
           end
  end.

(* state of the child node given its validated (secure) DS RRset and the
   DNSKEY RRset with its signatures as returned by the upstream *)
Definition child_node_state (dss : list dsr) (keys : list dkey) (sigs : list ksig) (maxbad : N) : vstate :=
  if negb (existsb ds_supported dss) then Insecure
  else ds_loop dss keys sigs 0 maxbad.
End Chain.
