(* C14 proofs, part 10: DNAME.  An unsigned CNAME is taken out of the answer section
   (and thereby escapes validation) only if it is exactly the synthesis of a DNAME of
   the section: same leading labels, DNAME owner replaced by the DNAME target. *)
From Coq Require Import NArith List Bool Lia PeanoNat.
Import ListNotations.
From DV Require Import Base.Outcome Base.Bytes Base.Lex Base.Names.
From DV Require Import C17.Model C18.Model C14.Gen C14.Model C14.Proofs C14.ProofsDenial C14.ProofsSig.
Local Open Scope N_scope.

Theorem map_dname_spec owner dt nm r : map_dname owner dt nm = Some r ->
  r = firstn (length nm - length owner) nm ++ dt /\ (wire_len r <= 254)%nat.
Proof.
  unfold map_dname. destruct (Nat.leb_spec (wire_len (firstn (length nm - length owner) nm ++ dt)) 254); [|discriminate].
  intros X. inversion X. subst. split; [reflexivity|assumption].
Qed.

(* for a name below the owner the result keeps every label in front of the owner *)
Theorem map_dname_keeps_prefix owner dt p r : map_dname owner dt (p ++ owner) = Some r -> r = p ++ dt.
Proof.
  intros X. apply map_dname_spec in X as [X _]. rewrite X, app_length.
  replace (length p + length owner - length owner)%nat with (length p) by lia.
  rewrite firstn_app, Nat.sub_diag, firstn_all. simpl. rewrite app_nil_r. reflexivity.
Qed.

Definition synthesized_by (cowner ctarget : name) (g : agroup) : Prop :=
  a_rtype g = rt_DNAME /\ exists dt res,
    a_dname g = Some dt /\ ends_with cowner (a_owner g) = true /\ name_eqb cowner (a_owner g) = false /\
    map_dname (a_owner g) dt cowner = Some res /\ name_eqb ctarget res = true.

Theorem moved_to_dname_sound cowner ctarget gs :
  moved_to_dname cowner ctarget gs = true -> exists g, In g gs /\ synthesized_by cowner ctarget g.
Proof.
  induction gs as [|g gs IH]; simpl; [discriminate|].
  assert (Lift : moved_to_dname cowner ctarget gs = true -> exists g0, In g0 (g :: gs) /\ synthesized_by cowner ctarget g0).
  { intros X. destruct (IH X) as (g0 & I0 & S). exists g0. split; [right; exact I0|exact S]. }
  destruct (a_dname g) as [dt|] eqn:D; [|exact Lift].
  destruct (N.eqb_spec (a_rtype g) rt_DNAME) as [R|R]; cbn [negb]; [|exact Lift].
  destruct (ends_with cowner (a_owner g)) eqn:E; cbn [negb]; [|exact Lift].
  destruct (name_eqb cowner (a_owner g)) eqn:Q; [exact Lift|].
  destruct (map_dname (a_owner g) dt cowner) as [res|] eqn:M; [|discriminate].
  destruct (name_eqb ctarget res) eqn:T; [|exact Lift].
  intros _. exists g. split; [left; reflexivity|]. split; [exact R|]. exists dt, res. repeat split; assumption.
Qed.

(* what move_redundant_cnames removes, and nothing else *)
Theorem move_redundant_cnames_spec gs g :
  In g gs -> (In g (move_redundant_cnames gs) <-> is_courtesy_cname gs g = false).
Proof.
  intros I0. unfold move_redundant_cnames. rewrite filter_In. split.
  - intros [_ X]. destruct (is_courtesy_cname gs g); [discriminate|reflexivity].
  - intros X. rewrite X. auto.
Qed.

Theorem removed_cname_is_exact_synthesis gs g :
  In g gs -> ~ In g (move_redundant_cnames gs) ->
  a_rtype g = rt_CNAME /\ a_nrr g = 1 /\ a_signed g = false /\
  exists t, a_cname g = Some t /\ exists d, In d gs /\ synthesized_by (a_owner g) t d.
Proof.
  intros I0 N0. destruct (is_courtesy_cname gs g) eqn:C.
  2:{ exfalso. apply N0. apply move_redundant_cnames_spec; assumption. }
  unfold is_courtesy_cname in C. apply andb_true_iff in C as [C C4]. apply andb_true_iff in C as [C C3].
  apply andb_true_iff in C as [C1 C2]. apply N.eqb_eq in C1, C2.
  destruct (a_signed g); [discriminate|]. destruct (a_cname g) as [t|]; [|discriminate].
  repeat split; try assumption. exists t. split; [reflexivity|]. apply moved_to_dname_sound. exact C4.
Qed.

(* a forged sibling: same depth, same suffix, other leading label - never removed by this DNAME *)
Example dname_examples :
  let d := mkA true rt_DNAME 1 [[115]; [122]] None Secure false (Some [[111]; [122]]) true in   (* s.z DNAME o.z *)
  let cn t := mkA true rt_CNAME 1 [[108]; [115]; [122]] (Some t) Bogus false None false in       (* l.s.z CNAME t, unsigned *)
  map_dname [[115]; [122]] [[111]; [122]] [[108]; [115]; [122]] = Some [[108]; [111]; [122]] /\
  move_redundant_cnames [d; cn [[108]; [111]; [122]]] = [d] /\
  move_redundant_cnames [d; cn [[103]; [111]; [122]]] = [d; cn [[103]; [111]; [122]]] /\
  answer_msg_state [[108]; [115]; [122]] 1 11 [d; cn [[108]; [111]; [122]]; mkA true 1 1 [[108]; [111]; [122]] None Secure false None true] = Ok Secure /\
  answer_msg_state [[108]; [115]; [122]] 1 11 [d; cn [[103]; [111]; [122]]; mkA true 1 1 [[108]; [111]; [122]] None Secure false None true] = Ok Bogus.
Proof. vm_compute. repeat split. Qed.
