(* C14 proofs, part 8: the trust anchor node is secure only through an anchored key. *)
From Coq Require Import NArith List Bool Lia.
Import ListNotations.
From DV Require Import Base.Outcome Base.Bytes Base.Lex C14.Gen C14.Model C14.ModelN3 C14.ModelChain C14.ModelTa C14.ProofsN3 C14.ProofsChain.
Local Open Scope N_scope.

Section TaP.
Variable dg : dkey -> N -> bytes.
Variable vf : dkey -> ksig -> bool.

Definition anchored (a : anchor) (k : dkey) : Prop :=
  match a with
  | TaKey id => k_id k = id
  | TaDs d => k_alg k = d_alg d /\ k_tag k = d_tag d /\ supported_digest (d_dt d) = true /\ d_digest d = dg k (d_dt d)
  | TaOther => False
  end.

Lemma anchor_key_spec a keys k : anchor_key dg a keys = Some k -> In k keys /\ anchored a k.
Proof.
  destruct a as [id|d|]; simpl; [| |discriminate].
  - induction keys as [|x keys IH]; simpl; [discriminate|].
    destruct (N.eqb_spec (k_id x) id).
    + intros H. inversion H. subst. split; [left; reflexivity|reflexivity].
    + intros H. destruct (IH H). split; [right; assumption|assumption].
  - induction keys as [|x keys IH]; simpl; [discriminate|].
    destruct (N.eqb_spec (k_alg x) (d_alg d)); cbn [negb]; [|intros H; destruct (IH H); split; [right; assumption|assumption]].
    destruct (N.eqb_spec (k_tag x) (d_tag d)); cbn [negb]; [|intros H; destruct (IH H); split; [right; assumption|assumption]].
    destruct (supported_digest (d_dt d)) eqn:S; cbn [negb]; [|intros H; destruct (IH H); split; [right; assumption|assumption]].
    destruct (bytes_eqb (d_digest d) (dg x (d_dt d))) eqn:B; [|intros H; destruct (IH H); split; [right; assumption|assumption]].
    intros H. inversion H. subst. apply (bytes_eqb_spec) in B. split; [left; reflexivity|]. repeat split; assumption.
Qed.

Lemma ta_loop_secure tas keys sigs : forall bad maxbad, ta_loop dg vf tas keys sigs bad maxbad = Secure ->
  exists a k s, In a tas /\ In k keys /\ In s sigs /\ anchored a k /\ sg_tag s = k_tag k /\ vf k s = true.
Proof.
  induction tas as [|a tas IH]; simpl; intros bad maxbad H; [discriminate|].
  assert (Lift : (exists a0 k s, In a0 tas /\ In k keys /\ In s sigs /\ anchored a0 k /\ sg_tag s = k_tag k /\ vf k s = true) ->
                 exists a0 k s, In a0 (a :: tas) /\ In k keys /\ In s sigs /\ anchored a0 k /\ sg_tag s = k_tag k /\ vf k s = true).
  { intros (a0 & k & s & A & B). exists a0, k, s. split; [right; exact A|exact B]. }
  destruct (anchor_key dg a keys) as [k|] eqn:F; [|apply Lift, (IH _ _ H)].
  destruct (try_sigs vf k sigs bad maxbad) as [[|]|bad'] eqn:T; try discriminate.
  - apply anchor_key_spec in F as (Ik & A). apply try_sigs_true in T as (s & Is & E & V).
    exists a, k, s. split; [left; reflexivity|]. repeat split; assumption.
  - apply Lift, (IH _ _ H).
Qed.

(* the root of every chain: secure only if a configured anchor record (DNSKEY or DS)
   vouches for a key of the served RRset and that key's signature over the RRset verifies *)
Theorem anchor_secure_implies_anchored_key tas keys sigs maxbad :
  trust_anchor_state dg vf tas keys sigs maxbad = Secure ->
  exists a k s, In a tas /\ In k keys /\ In s sigs /\ anchored a k /\ sg_tag s = k_tag k /\ vf k s = true.
Proof. apply ta_loop_secure. Qed.

Theorem anchor_never_insecure tas keys sigs maxbad :
  trust_anchor_state dg vf tas keys sigs maxbad = Secure \/ trust_anchor_state dg vf tas keys sigs maxbad = Bogus.
Proof.
  unfold trust_anchor_state. generalize 0 as bad. induction tas as [|a tas IH]; simpl; intros bad; [right; reflexivity|].
  destruct (anchor_key dg a keys) as [k|]; [|apply IH].
  destruct (try_sigs vf k sigs bad maxbad) as [[|]|]; [left; reflexivity|right; reflexivity|apply IH].
Qed.
End TaP.

Example anchor_ex :
  let dg := fun (k : dkey) (_ : N) => [k_id k] in
  let vf := fun (k : dkey) (s : ksig) => k_id k =? sg_id s in
  trust_anchor_state dg vf [TaKey 1] [mkK 13 100 1; mkK 13 200 2] [mkSg 100 1] 1 = Secure /\
  trust_anchor_state dg vf [TaKey 1] [mkK 13 100 1; mkK 13 200 2] [mkSg 200 2] 1 = Bogus /\   (* signed by an unanchored key *)
  trust_anchor_state dg vf [TaKey 1] [mkK 13 100 1; mkK 13 100 2] [mkSg 100 2] 1 = Bogus /\   (* ... even with the anchored tag *)
  trust_anchor_state dg vf [TaDs (mkD 13 100 2 [1])] [mkK 13 100 2; mkK 13 100 1] [mkSg 100 1] 1 = Secure /\
  trust_anchor_state dg vf [TaDs (mkD 13 100 3 [1])] [mkK 13 100 1] [mkSg 100 1] 1 = Bogus /\   (* digest type without digest function *)
  trust_anchor_state dg vf [TaOther; TaKey 7] [mkK 13 100 1] [mkSg 100 1] 1 = Bogus.
Proof. vm_compute. repeat split. Qed.
