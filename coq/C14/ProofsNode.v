(* C14 proofs, part 11: a cached node never outlives the signatures (and TTLs) that justified it. *)
From Coq Require Import NArith List Bool Lia.
From Coq Require Import ZifyN ZifyBool.
Import ListNotations.
From DV Require Import Base.Outcome C17.Model C14.Gen C14.Model C14.ModelNode.
Local Open Scope N_scope.

(* with a wrapping subtraction (and before: while it does not underflow) the remaining
   lifetime is what is left until the expiration *)
Lemma ttl_for_sig_le now s v : ttl_for_sig_wraps = true -> now <= st_expiration s -> st_expiration s < M32 ->
  ttl_for_sig now s = Ok v -> v <= st_expiration s - now /\ v <= st_rr_ttl s /\ v <= st_orig_ttl s.
Proof.
  intros W Hn He. unfold ttl_for_sig, ttl_until_expired. rewrite W. simpl. intros X. inversion X. subst. clear X.
  assert ((st_expiration s + M32 - now) mod M32 = st_expiration s - now).
  { replace (st_expiration s + M32 - now) with ((st_expiration s - now) + 1 * M32) by (unfold M32 in *; lia).
    rewrite N.mod_add by (unfold M32; lia). apply N.mod_small. unfold M32 in *. lia. }
  rewrite H. split; [apply N.le_min_r|]. split; [etransitivity; [apply N.le_min_l|apply N.le_min_l]|etransitivity; [apply N.le_min_l|apply N.le_min_r]].
Qed.

Lemma lim_le on t x v : lim on t x = Ok v -> v <= t.
Proof. unfold lim. destruct on; [destruct x; simpl; intros X; inversion X; lia|intros X; inversion X; lia]. Qed.

Lemma lim_on_le t x v : lim true t x = Ok v -> exists w, x = Ok w /\ v <= w.
Proof. unfold lim. destruct x; simpl; intros X; inversion X. eexists. split; [reflexivity|lia]. Qed.

(* the trust anchor's node: usable from the cache only while the signature that validated
   the DNSKEY RRset is unexpired and the RRset's TTL has not run out *)
Theorem anchor_node_never_outlives_sig :
  anchor_node_limited_by_sig = true -> anchor_node_limited_by_dnskey_ttl = true -> ttl_for_sig_wraps = true ->
  forall now1 now2 maxv dttl sg,
  now1 <= st_expiration sg -> st_expiration sg < M32 -> now1 <= now2 ->
  anchor_still_trusts now1 now2 maxv dttl sg = Ok true ->
  now2 <= st_expiration sg /\ now2 - now1 <= dttl /\ now2 - now1 <= maxv.
Proof.
  intros A B W now1 now2 maxv dttl sg H1 H2 H3. unfold anchor_still_trusts, anchor_valid_for. rewrite A, B.
  cbn [lim bind]. destruct (ttl_for_sig now1 sg) as [u| | |] eqn:T; simpl; try (intros X0; discriminate X0).
  apply (ttl_for_sig_le _ _ _ W H1 H2) in T as (T1 & _).
  unfold node_usable. intros X. inversion X as [Y]. apply negb_true_iff in Y. apply N.ltb_ge in Y.
  apply N.min_glb_iff in Y as [Y Y3]. apply N.min_glb_iff in Y as [Y1 Y2]. lia.
Qed.

Theorem child_node_never_outlives_sigs :
  child_node_limited_by_ds = true -> group_ttl_limited_by_sig = true ->
  child_node_limited_by_dnskey_ttl = true -> child_node_limited_by_dnskey_sig = true -> ttl_for_sig_wraps = true ->
  forall now1 now2 pl dsttl dss kttl ks,
  now1 <= st_expiration dss -> st_expiration dss < M32 -> now1 <= st_expiration ks -> st_expiration ks < M32 -> now1 <= now2 ->
  child_still_trusts now1 now2 pl dsttl dss kttl ks = Ok true ->
  now2 <= st_expiration dss /\ now2 <= st_expiration ks /\ now2 - now1 <= dsttl /\ now2 - now1 <= kttl /\ now2 - now1 <= pl.
Proof.
  intros A B C D W now1 now2 pl dsttl dss kttl ks H1 H2 H3 H4 H5.
  unfold child_still_trusts, child_valid_for. rewrite A, B, C, D. cbn [lim].
  destruct (ttl_for_sig now1 dss) as [u1| | |] eqn:T1; destruct (ttl_for_sig now1 ks) as [u2| | |] eqn:T2; simpl; try (intros X0; discriminate X0).
  apply (ttl_for_sig_le _ _ _ W H1 H2) in T1 as (T1 & _).
  apply (ttl_for_sig_le _ _ _ W H3 H4) in T2 as (T2 & _).
  unfold node_usable. intros X. inversion X as [Y]. apply negb_true_iff in Y. apply N.ltb_ge in Y.
  repeat (match goal with Hm : _ <= N.min _ _ |- _ => apply N.min_glb_iff in Hm; destruct Hm end). lia.
Qed.

(* without the signature limit the node survives the signature: the withdrawn-key scenario *)
Theorem anchor_node_outlives_sig_refuted : anchor_node_limited_by_sig = false ->
  exists now1 now2 maxv dttl sg, now1 <= st_expiration sg /\ st_expiration sg < now2 /\
    anchor_still_trusts now1 now2 maxv dttl sg = Ok true.
Proof.
  intros A. exists 1000, 1005, 604800, 3600, (mkST 3600 3600 1003).
  split; [simpl; lia|]. split; [simpl; lia|].
  unfold anchor_still_trusts, anchor_valid_for. rewrite A. destruct anchor_node_limited_by_dnskey_ttl; vm_compute; reflexivity.
Qed.

Example node_ttl_ex : anchor_node_limited_by_sig = true -> ttl_for_sig_wraps = true ->
  anchor_still_trusts 1000 1005 604800 3600 (mkST 3600 3600 1003) = Ok false /\
  anchor_still_trusts 1000 1002 604800 3600 (mkST 3600 3600 1003) = Ok true.
Proof.
  intros A W. unfold anchor_still_trusts, anchor_valid_for, ttl_for_sig, ttl_until_expired. rewrite A, W.
  destruct anchor_node_limited_by_dnskey_ttl; vm_compute; split; reflexivity.
Qed.
