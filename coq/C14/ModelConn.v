(* C14 model, the validating transport: net/client/validator.rs Request::get_response_impl -
   which header flags (AD, CD), response code and DNSSEC records the client gets, as a
   function of the request's CD / DO / AD flags, the upstream reply's AD / CD flags and the
   verdict of validate_msg (which is only asked when the request does not have CD). *)
From Coq Require Import NArith List Bool.
Import ListNotations.
From DV Require Import Base.Outcome C14.Gen C14.Model.
Local Open Scope N_scope.

Record conn_out := mkCO { o_ad : bool; o_cd : bool; o_servfail : bool; o_stripped : bool }.

Definition connection (req_cd req_do req_ad up_ad up_cd : bool) (st : vstate) : conn_out :=
  if req_cd then
    if req_do then
      (* not validated: the upstream reply is passed on; its header is repaired when ... *)
      if (conn_cd_do_repairs_ad && up_ad) || negb up_cd then mkCO false true false false
      else mkCO up_ad up_cd false false
    else mkCO false true false true                        (* remove_dnssec(msg, false, cd) *)
  else
    match st with
    | Secure => if req_do then mkCO true false false false else mkCO req_ad false false true
    | Bogus => mkCO false up_cd true true                   (* serve_fail: header copied, AD cleared, sections dropped *)
    | _ => if req_do then mkCO false false false false else mkCO false false false true
    end.
