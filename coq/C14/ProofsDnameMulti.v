(* C14, proof-only extension: GroupSet::moved_to_dname over DNAME RRsets with any number
   of records (C14.Model.moved_to_dname looks at the first record of a group only, which
   is what the T2 generator produces).  The code walks every record of every DNAME group;
   the first record above the CNAME's owner whose expansion fails ends the search. *)
From Coq Require Import NArith List Bool Lia.
Import ListNotations.
From DV Require Import Base.Outcome Base.Bytes Base.Lex Base.Names.
From DV Require Import C17.Model C18.Model C14.Gen C14.Model C14.Proofs C14.ProofsDenial C14.ProofsSig C14.ProofsDname.
Local Open Scope N_scope.

(* a DNAME group: its owner and the targets of all its records, in RRset order *)
Record dngroup := mkDN { dn_rtype : N; dn_owner : name; dn_targets : list name }.

(* inner loop over the records of one group: Some true = moved, Some false = give up
   (`return false`), None = no decision, go on with the next group *)
Fixpoint dname_records (cowner ctarget downer : name) (targets : list name) : option bool :=
  match targets with
  | [] => None
  | dt :: rest =>
      if negb (ends_with cowner downer) then dname_records cowner ctarget downer rest
      else if name_eqb cowner downer then dname_records cowner ctarget downer rest
      else match map_dname downer dt cowner with
           | None => Some false
           | Some res => if name_eqb ctarget res then Some true else dname_records cowner ctarget downer rest
           end
  end.

Fixpoint moved_to_dname_all (cowner ctarget : name) (gs : list dngroup) : bool :=
  match gs with
  | [] => false
  | g :: r =>
      if negb (dn_rtype g =? rt_DNAME) then moved_to_dname_all cowner ctarget r
      else match dname_records cowner ctarget (dn_owner g) (dn_targets g) with
           | Some b => b
           | None => moved_to_dname_all cowner ctarget r
           end
  end.

Lemma dname_records_true cowner ctarget downer targets :
  dname_records cowner ctarget downer targets = Some true ->
  ends_with cowner downer = true /\ name_eqb cowner downer = false /\
  exists dt res, In dt targets /\ map_dname downer dt cowner = Some res /\ name_eqb ctarget res = true.
Proof.
  induction targets as [|dt rest IH]; simpl; [discriminate|].
  destruct (ends_with cowner downer) eqn:E; cbn [negb].
  2:{ intros X. destruct (IH X) as (A & _). congruence. }
  destruct (name_eqb cowner downer) eqn:Q.
  { intros X. destruct (IH X) as (_ & B & _). congruence. }
  destruct (map_dname downer dt cowner) as [res|] eqn:M; [|discriminate].
  destruct (name_eqb ctarget res) eqn:T.
  - intros _. split; [reflexivity|]. split; [reflexivity|]. exists dt, res. split; [left; reflexivity|]. split; assumption.
  - intros X. destruct (IH X) as (_ & _ & dt' & res' & I0 & R). split; [reflexivity|]. split; [reflexivity|].
    exists dt', res'. split; [right; exact I0|exact R].
Qed.

(* an unsigned CNAME leaves the answer section only as the exact synthesis of SOME record of a
   DNAME RRset of the section: owner strictly below the DNAME owner, target = the labels in front
   of the DNAME owner followed by that record's target *)
Theorem moved_to_dname_all_sound cowner ctarget gs :
  moved_to_dname_all cowner ctarget gs = true ->
  exists g dt res, In g gs /\ dn_rtype g = rt_DNAME /\ In dt (dn_targets g) /\
    ends_with cowner (dn_owner g) = true /\ name_eqb cowner (dn_owner g) = false /\
    map_dname (dn_owner g) dt cowner = Some res /\ name_eqb ctarget res = true.
Proof.
  induction gs as [|g gs IH]; simpl; [discriminate|].
  assert (Lift : moved_to_dname_all cowner ctarget gs = true ->
    exists g0 dt res, In g0 (g :: gs) /\ dn_rtype g0 = rt_DNAME /\ In dt (dn_targets g0) /\
      ends_with cowner (dn_owner g0) = true /\ name_eqb cowner (dn_owner g0) = false /\
      map_dname (dn_owner g0) dt cowner = Some res /\ name_eqb ctarget res = true).
  { intros X. destruct (IH X) as (g0 & dt & res & I0 & R). exists g0, dt, res. split; [right; exact I0|exact R]. }
  destruct (N.eqb_spec (dn_rtype g) rt_DNAME) as [R|R]; cbn [negb]; [|exact Lift].
  destruct (dname_records cowner ctarget (dn_owner g) (dn_targets g)) as [b|] eqn:D; [|exact Lift].
  intros ->. apply dname_records_true in D as (E & Q & dt & res & I0 & M & T).
  exists g, dt, res. split; [left; reflexivity|]. repeat split; assumption.
Qed.

(* on single-record DNAME groups this is C14.Model.moved_to_dname *)
Definition dn_of (g : agroup) : dngroup :=
  mkDN (match a_dname g with Some _ => a_rtype g | None => 0 end) (a_owner g)
       (match a_dname g with Some dt => [dt] | None => [] end).

Theorem moved_to_dname_all_agrees cowner ctarget gs :
  moved_to_dname_all cowner ctarget (map dn_of gs) = moved_to_dname cowner ctarget gs.
Proof.
  induction gs as [|g gs IH]; simpl; [reflexivity|]. unfold dn_of at 1. simpl.
  destruct (a_dname g) as [dt|]; simpl.
  - destruct (a_rtype g =? rt_DNAME); cbn [negb]; [|exact IH]. simpl.
    destruct (ends_with cowner (a_owner g)); cbn [negb]; [|exact IH].
    destruct (name_eqb cowner (a_owner g)); [exact IH|].
    destruct (map_dname (a_owner g) dt cowner) as [res|]; [|reflexivity].
    destruct (name_eqb ctarget res); [reflexivity|exact IH].
  - unfold rt_DNAME. simpl. exact IH.
Qed.

(* non-vacuity: the second record of a two-record DNAME RRset synthesizes the CNAME; a record whose
   expansion would be too long ends the search *)
Example dname_multi_ex :
  let d := mkDN rt_DNAME [[115]; [122]] [[[111]; [122]]; [[112]; [122]]] in     (* s.z DNAME o.z, p.z *)
  moved_to_dname_all [[108]; [115]; [122]] [[108]; [112]; [122]] [d] = true /\    (* l.s.z CNAME l.p.z *)
  moved_to_dname_all [[108]; [115]; [122]] [[103]; [112]; [122]] [d] = false /\   (* l.s.z CNAME g.p.z: forged sibling *)
  moved_to_dname_all [[108]; [115]; [122]] [[108]; [112]; [122]] [mkDN 1 [[115]; [122]] [[[112]; [122]]]] = false.
Proof. vm_compute. repeat split. Qed.
