From Coq Require Import Extraction ExtrOcamlBasic NArith.
From DV Require Import Base.Outcome Base.Names C14.Gen C14.Model C14.ModelN3 C14.ModelChain C14.ModelDs C14.ModelTa C14.ModelWild C14.ModelNode C14.ModelCache C14.ModelGroups C14.ModelConn.
Extraction Language OCaml.
Extraction "../build/ml/C14/model.ml" c14_nsec_in_range c14_nsec3_in_range c14_supported_nsec3_hash
  c14_label_to_hash c14_nodata c14_not_exists c14_nxdomain c14_nodata_wildcard c14_sig_time_ok
  c14_wildcard_ce c14_mkG positive_answer_state mkA check_sig mkS negative_msg_state answer_msg_state
  nsec3_for_not_exists nsec3_for_not_exists_no_ce nsec3_for_nodata nsec3_for_nxdomain nsec3_for_nodata_wildcard mkN3 child_node_state no_ds_decision ds_reply_decision nsec_for_ds nsec3_for_ds mkDG revalidate trust_anchor_state wildcard_msg_state anchor_still_trusts child_still_trusts mkST get_node mkCN groupset_of mkR connection.
