From Coq Require Import Extraction ExtrOcamlBasic NArith.
From DV Require Import Base.Outcome Base.Names C14.Gen C14.Model.
Extraction Language OCaml.
Extraction "../build/ml/C14/model.ml" c14_nsec_in_range c14_nsec3_in_range c14_supported_nsec3_hash
  c14_label_to_hash c14_nodata c14_not_exists c14_nxdomain c14_nodata_wildcard c14_sig_time_ok
  c14_wildcard_ce c14_mkG positive_answer_state mkA check_sig mkS negative_msg_state answer_msg_state.
