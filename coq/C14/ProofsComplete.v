(* C14 proofs, widening: the completeness direction ("correctly signed answers are
   reported secure", "below an insecure delegation: insecure, not bogus") for
   check_sig, validate_groups, the positive verdict and the negative NSEC verdict. *)
From Coq Require Import NArith List Bool Lia PeanoNat.
From Coq Require Import ZifyN ZifyBool ZifyNat.
Import ListNotations.
From DV Require Import Base.Outcome Base.Bytes Base.Lex Base.Names.
From DV Require Import C17.Model C17.Proofs C18.Model C14.Gen C14.Model C14.Proofs C14.ProofsSig.
Local Open Scope N_scope.

(* ------------------------------------------------------------ check_sig: the conditions are also sufficient *)
Theorem check_sig_complete : forall s,
  name_eqb (s_sig_owner s) (s_owner s) = true -> s_same_class s = true ->
  ends_with (s_owner s) (s_signer s) = true ->
  s_type_covered s = s_rtype s ->
  s_sig_labels s <= N.of_nat (length (s_owner s)) ->
  sig_time_ok (s_now s) (s_inception s) (s_expiration s) = true ->
  name_eqb (s_signer s) (s_key_name s) = true -> s_sig_alg s = s_key_alg s -> s_sig_tag s = s_key_tag s ->
  s_zone_key s = true -> s_crypto_ok s = true ->
  check_sig s = true.
Proof.
  intros s H1 H2 H3 H4 H5 H6 H7 H8 H9 H10 H11. unfold check_sig.
  rewrite H1, H2, H3, H4, H6, H7, H8, H9, H10, H11, !N.eqb_refl. cbn [negb orb].
  unfold sig_labels_reject_op, op_holds.
  destruct (N.compare_spec (N.of_nat (length (s_owner s))) (s_sig_labels s)) as [Hl|Hl|Hl]; try reflexivity; lia.
Qed.

Theorem check_sig_iff : forall s, check_sig s = true <->
  name_eqb (s_sig_owner s) (s_owner s) = true /\ s_same_class s = true /\
  ends_with (s_owner s) (s_signer s) = true /\
  s_type_covered s = s_rtype s /\
  s_sig_labels s <= N.of_nat (length (s_owner s)) /\
  sig_time_ok (s_now s) (s_inception s) (s_expiration s) = true /\
  name_eqb (s_signer s) (s_key_name s) = true /\ s_sig_alg s = s_key_alg s /\ s_sig_tag s = s_key_tag s /\
  s_zone_key s = true /\ s_crypto_ok s = true.
Proof.
  intros s. split; [apply check_sig_sound|].
  intros (H1 & H2 & H3 & H4 & H5 & H6 & H7 & H8 & H9 & H10 & H11). apply check_sig_complete; assumption.
Qed.

Example check_sig_complete_ex :
  let s := mkS [[97];[101;120]] [[97];[69;88]] true [[101;120]] 1 1 2 1000 1100 900 [[101;120]] 13 13 7 7 true true in
  check_sig s = true.
Proof. vm_compute. reflexivity. Qed.

(* ------------------------------------------------------------ validate_groups never aborts without a bogus group *)
Theorem validate_groups_complete l : ~ In Bogus l -> validate_groups l = Some l.
Proof.
  intros H. pose proof (validate_groups_spec l) as V.
  destruct (validate_groups l) as [l'|]; [destruct V as [-> _]; reflexivity|contradiction].
Qed.

Example validate_groups_complete_ex : validate_groups [Secure; Insecure; Indeterminate] = Some [Secure; Insecure; Indeterminate].
Proof. vm_compute. reflexivity. Qed.

(* ------------------------------------------------------------ the positive verdict, direct answer *)
Definition si (s : vstate) : Prop := s = Secure \/ s = Insecure.

Lemma fold_si gs : forall acc, si acc -> Forall (fun g => si (a_state g)) gs ->
  si (fold_left (fun acc g => map_maybe_secure (a_state g) acc) gs acc).
Proof.
  induction gs as [|g gs IH]; intros acc Ha F; simpl; [exact Ha|].
  inversion F as [|? ? Hg F']; subst. apply IH; [|exact F'].
  destruct Hg as [-> | ->]; simpl; [exact Ha|right; reflexivity].
Qed.

Lemma fold_all_secure gs : (forall g, In g gs -> a_state g = Secure) ->
  fold_left (fun acc g => map_maybe_secure (a_state g) acc) gs Secure = Secure.
Proof.
  induction gs as [|g gs IH]; intros H; simpl; [reflexivity|].
  rewrite (H g (or_introl eq_refl)). simpl. apply IH. intros g' Hi. apply H. right. exact Hi.
Qed.

Lemma get_answer_state_in q qt gs : forall g, get_answer_state q qt gs = Some g -> In g gs.
Proof.
  induction gs as [|x gs IH]; intros g H; simpl in H; [discriminate|].
  destruct (negb (a_class_ok x)); [right; auto|].
  destruct (negb (a_rtype x =? qt)); [right; auto|].
  destruct (negb (name_eqb (a_owner x) q)); [right; auto|].
  inversion H. left. reflexivity.
Qed.

(* every group of the answer section secure or insecure (none bogus or
   indeterminate), no CNAME / DNAME step applies to the question, a non-wildcard
   group answers it: the verdict is that of the data, never bogus -
   secure when everything is secure, insecure when the answering group is *)
Theorem positive_direct_verdict q qt maxc gs g :
  Forall (fun g => si (a_state g)) gs ->
  cname_find q qt gs = Some None ->
  get_answer_state q qt gs = Some g ->
  a_wild g = false ->
  exists s, positive_answer_state q qt maxc gs = Ok (Some s) /\ si s /\
    (a_state g = Insecure -> s = Insecure) /\
    ((forall g', In g' gs -> a_state g' = Secure) -> s = Secure).
Proof.
  intros F C G W. unfold positive_answer_state.
  assert (NB : ~ In Bogus (map a_state gs)).
  { intros Hi. apply in_map_iff in Hi as (x & Hx & Hin). rewrite Forall_forall in F.
    destruct (F x Hin) as [E|E]; rewrite E in Hx; discriminate. }
  rewrite (validate_groups_complete _ NB).
  cbn [cname_chase]. rewrite C. cbn [bind]. cbn [map_maybe_secure].
  set (init := if answer_init_is_const then Secure
               else fold_left (fun acc g => map_maybe_secure (a_state g) acc) gs Secure).
  assert (Si : si init).
  { subst init. destruct answer_init_is_const; [left; reflexivity|]. apply fold_si; [left; reflexivity|exact F]. }
  assert (Sg : si (a_state g)).
  { rewrite Forall_forall in F. apply F. eapply get_answer_state_in. exact G. }
  assert (NBi : vstate_eqb init Bogus = false) by (destruct Si as [-> | ->]; reflexivity).
  rewrite NBi, G, W. cbn [andb].
  eexists. split; [reflexivity|]. split; [|split].
  - destruct Sg as [-> | ->]; simpl; [exact Si|right; reflexivity].
  - intros ->. reflexivity.
  - intros A. rewrite (A g (get_answer_state_in _ _ _ _ G)). simpl.
    subst init. destruct answer_init_is_const; [reflexivity|]. apply fold_all_secure. exact A.
Qed.

Example positive_direct_verdict_ex :
  let g1 := mkA true 1 1 [[97];[101;120]] None Secure false None true in
  let g2 := mkA true 1 1 [[98];[101;120]] None Insecure false None false in
  positive_answer_state [[97];[101;120]] 1 11 [g1] = Ok (Some Secure) /\
  positive_answer_state [[98];[101;120]] 1 11 [g2] = Ok (Some Insecure).
Proof. vm_compute. split; reflexivity. Qed.

(* ------------------------------------------------------------ the negative verdict: NSEC proofs suffice *)
Theorem negative_nxdomain_complete t qt s gs ce e :
  ~ In Bogus (map snd gs) ->
  nsec_for_nxdomain t (map fst gs) s = Ok (NxDoesNotExist ce, e) ->
  negative_msg_state true t qt s gs = Ok (Secure, e).
Proof.
  intros NB H. unfold negative_msg_state. rewrite (validate_groups_complete _ NB), H. reflexivity.
Qed.

Theorem negative_nodata_complete t qt s gs e :
  ~ In Bogus (map snd gs) ->
  nsec_for_nodata t (map fst gs) qt s = Ok (NoData, e) ->
  negative_msg_state false t qt s gs = Ok (Secure, e).
Proof.
  intros NB H. unfold negative_msg_state. rewrite (validate_groups_complete _ NB), H. reflexivity.
Qed.

Theorem negative_nodata_wildcard_complete t qt s gs e0 e :
  ~ In Bogus (map snd gs) ->
  nsec_for_nodata t (map fst gs) qt s = Ok (NNothing, e0) ->
  nsec_for_nodata_wildcard t (map fst gs) qt s = Ok (NoData, e) ->
  negative_msg_state false t qt s gs = Ok (Secure, e).
Proof.
  intros NB H0 H. unfold negative_msg_state. rewrite (validate_groups_complete _ NB), H0. cbn [bind]. rewrite H. reflexivity.
Qed.

(* a bogus group in the authority section makes the reply bogus whatever the proofs say *)
Theorem negative_bogus_group nx t qt s gs :
  In Bogus (map snd gs) -> negative_msg_state nx t qt s gs = Ok (Bogus, 99).
Proof.
  intros Hi. unfold negative_msg_state. pose proof (validate_groups_spec (map snd gs)) as V.
  destruct (validate_groups (map snd gs)); [destruct V as [_ V]; contradiction|reflexivity].
Qed.

(* the same for the positive path *)
Theorem positive_bogus_group q qt maxc gs g :
  In g gs -> a_state g = Bogus -> positive_answer_state q qt maxc gs = Ok (Some Bogus).
Proof.
  intros Hi Hb. unfold positive_answer_state. pose proof (validate_groups_spec (map a_state gs)) as V.
  destruct (validate_groups (map a_state gs)); [|reflexivity].
  destruct V as [_ V]. exfalso. apply V. rewrite <- Hb. apply in_map. exact Hi.
Qed.

Example negative_bogus_group_ex :
  negative_msg_state true [[97]] 1 [] [] = Ok (Bogus, 9) /\
  positive_answer_state [[97]] 1 11 [mkA true 1 1 [[97]] None Bogus false None true] = Ok (Some Bogus).
Proof. vm_compute. split; reflexivity. Qed.

(* ------------------------------------------------------------ the positive verdict through a CNAME / DNAME chain *)
(* a chain of k secure steps from n to m *)
Inductive chain_n (qtype : N) (gs : list agroup) : nat -> name -> name -> Prop :=
| cn_refl n : chain_n qtype gs 0 n n
| cn_step k n tgt m :
    cname_find n qtype gs = Some (Some (tgt, Secure)) ->
    chain_n qtype gs k tgt m -> chain_n qtype gs (S k) n m.

Lemma chain_n_chain_secure qt gs k n m : chain_n qt gs k n m -> chain_secure qt gs n m.
Proof. induction 1; [apply cs_refl|eapply cs_step; eassumption]. Qed.

Lemma cname_chase_complete qt gs maxc k n m : chain_n qt gs k n m ->
  cname_find m qt gs = Some None ->
  forall fuel count, (k < fuel)%nat -> count + N.of_nat k <= maxc ->
  cname_chase fuel count maxc n qt gs Secure = Ok (Some (m, Secure)).
Proof.
  induction 1 as [n|k n tgt m F Ch IH]; intros E fuel count Hf Hc.
  - destruct fuel as [|fuel]; [lia|]. simpl. rewrite E. reflexivity.
  - destruct fuel as [|fuel]; [lia|]. simpl. rewrite F.
    change (vstate_eqb Secure Bogus) with false. cbv iota.
    destruct (N.ltb_spec maxc (count + 1)) as [L|L]; [lia|].
    apply IH; [exact E|lia|lia].
Qed.

(* the converse of positive_secure_sound: a chain of at most max_cname_chain secure
   steps to a name that a secure non-wildcard group answers (and, when the verdict
   starts from the fold, an answer section that is secure throughout) is reported secure *)
Theorem positive_secure_complete q qt maxc gs k sname g :
  (forall g, In g gs -> a_state g <> Bogus) ->
  chain_n qt gs k q sname -> N.of_nat k <= maxc ->
  cname_find sname qt gs = Some None ->
  get_answer_state sname qt gs = Some g -> a_state g = Secure -> a_wild g = false ->
  (answer_init_is_const = false -> forall g, In g gs -> a_state g = Secure) ->
  positive_answer_state q qt maxc gs = Ok (Some Secure).
Proof.
  intros NBg Ch Hk E G Sg W A. unfold positive_answer_state.
  assert (NB : ~ In Bogus (map a_state gs)).
  { intros Hi. apply in_map_iff in Hi as (x & Hx & Hin). exact (NBg x Hin Hx). }
  rewrite (validate_groups_complete _ NB).
  rewrite (cname_chase_complete qt gs maxc k q sname Ch E); [|lia|lia].
  cbn [bind map_maybe_secure].
  assert (I : (if answer_init_is_const then Secure
               else fold_left (fun acc g => map_maybe_secure (a_state g) acc) gs Secure) = Secure).
  { destruct answer_init_is_const; [reflexivity|]. apply fold_all_secure. apply A. reflexivity. }
  rewrite I. change (vstate_eqb Secure Bogus) with false. cbv iota.
  rewrite G, W, Sg. reflexivity.
Qed.

Example positive_secure_complete_ex :
  let c := mkA true 5 1 [[97];[101;120]] (Some [[98];[101;120]]) Secure false None true in
  let g := mkA true 1 1 [[98];[101;120]] None Secure false None true in
  chain_n 1 [c; g] 1 [[97];[101;120]] [[98];[101;120]] /\
  positive_answer_state [[97];[101;120]] 1 11 [c; g] = Ok (Some Secure).
Proof.
  split; [|vm_compute; reflexivity].
  eapply cn_step; [vm_compute; reflexivity|apply cn_refl].
Qed.
