(* C14 proofs, part 14: the AD flag the client sees. *)
From Coq Require Import NArith List Bool.
From DV Require Import Base.Outcome C14.Gen C14.Model C14.ModelConn.

(* AD only for a reply that this validator validated as secure: never with CD in the request
   (nothing is validated then), and never for another verdict *)
Theorem ad_only_when_validated_secure : conn_cd_do_repairs_ad = true ->
  forall req_cd req_do req_ad up_ad up_cd st,
  o_ad (connection req_cd req_do req_ad up_ad up_cd st) = true ->
  req_cd = false /\ st = Secure /\ (req_do = true \/ req_ad = true).
Proof.
  intros X req_cd req_do req_ad up_ad up_cd st. unfold connection. rewrite X.
  destruct req_cd, req_do, req_ad, up_ad, up_cd, st; simpl; intros H; try discriminate H; auto.
Qed.

(* the reply's own AD flag never reaches the client *)
Theorem upstream_ad_never_passed : conn_cd_do_repairs_ad = true ->
  forall req_cd req_do req_ad up_cd st,
  o_ad (connection req_cd req_do req_ad true up_cd st) = o_ad (connection req_cd req_do req_ad false up_cd st).
Proof.
  intros X req_cd req_do req_ad up_cd st. unfold connection. rewrite X.
  destruct req_cd, req_do, req_ad, up_cd, st; reflexivity.
Qed.

Theorem upstream_ad_leak_refuted : conn_cd_do_repairs_ad = false ->
  exists st, o_ad (connection true true false true true st) = true.
Proof. intros X. exists Bogus. unfold connection. rewrite X. reflexivity. Qed.

Theorem bogus_is_servfail : forall req_do req_ad up_ad up_cd,
  o_servfail (connection false req_do req_ad up_ad up_cd Bogus) = true /\
  o_ad (connection false req_do req_ad up_ad up_cd Bogus) = false.
Proof. intros. unfold connection. split; reflexivity. Qed.
