(* C14 proofs, part 7: a delegation is declared insecure only with a validated
   proof that no DS record exists at a delegation point. *)
From Coq Require Import NArith List Bool Lia.
Import ListNotations.
From DV Require Import Base.Outcome Base.Bytes Base.Lex Base.Names.
From DV Require Import C18.Model C14.Gen C14.Model C14.ModelN3 C14.ModelDs C14.Proofs.
Local Open Scope N_scope.

(* NSEC: a validated, non-wildcard NSEC at the name itself with NS but neither DS nor SOA *)
Definition nsec_no_ds_proof (t : name) (g : dgroup) : Prop :=
  dg_rtype g = rt_NSEC /\ name_eqb t (dg_owner g) = true /\ dg_valid g = true /\ dg_ce g = None /\
  dhas rt_DS g = false /\ dhas rt_SOA g = false /\ dhas rt_NS g = true.

Theorem nsec_for_ds_insecure_sound t gs :
  nsec_for_ds t gs = InsecureDelegation -> exists g, In g gs /\ nsec_no_ds_proof t g.
Proof.
  induction gs as [|g gs IH]; simpl; [discriminate|].
  destruct (N.eqb_spec (dg_rtype g) rt_NSEC) as [R|R]; cbn [negb].
  2:{ intros H. destruct (IH H) as (g' & I0 & P). exists g'. split; [right; exact I0|exact P]. }
  destruct (name_eqb t (dg_owner g)) eqn:E.
  - destruct (dg_valid g) eqn:V; cbn [negb]; [|discriminate].
    destruct (dg_ce g) eqn:C; [discriminate|].
    destruct (dhas rt_DS g) eqn:D; [discriminate|]. destruct (dhas rt_SOA g) eqn:S; [discriminate|].
    destruct (dhas rt_NS g) eqn:Ns; [|discriminate].
    intros _. exists g. split; [left; reflexivity|]. repeat split; assumption.
  - destruct (ends_with t (dg_owner g) && negb (dg_valid g)); [discriminate|].
    destruct (ends_with t (dg_owner g) && match dg_ce g with Some _ => true | None => false end); [discriminate|].
    destruct (ends_with t (dg_owner g) && dhas rt_DNAME g); [discriminate|].
    destruct (ends_with t (dg_owner g) && dhas rt_NS g && negb (dhas rt_SOA g)); [discriminate|].
    destruct (nsec_in_range t (dg_owner g) (dg_next g) && ends_with (dg_next g) t).
    + destruct (negb (dg_valid g)); [discriminate|]. destruct (dg_ce g) as [w|]; [destruct (negb (name_eqb t w))|]; discriminate.
    + intros H. destruct (IH H) as (g' & I0 & P). exists g'. split; [right; exact I0|exact P].
Qed.

(* the other verdicts of nsec_for_ds never come from an unvalidated record *)
Theorem nsec_for_ds_intermediate_sound t gs :
  nsec_for_ds t gs = SecureIntermediate ->
  exists g, In g gs /\ dg_rtype g = rt_NSEC /\ dg_valid g = true /\
    ((name_eqb t (dg_owner g) = true /\ dg_ce g = None /\ dhas rt_DS g = false /\ dhas rt_SOA g = false /\ dhas rt_NS g = false) \/
     (name_eqb t (dg_owner g) = false /\ nsec_in_range t (dg_owner g) (dg_next g) = true /\ ends_with (dg_next g) t = true)).
Proof.
  induction gs as [|g gs IH]; simpl; [discriminate|].
  destruct (N.eqb_spec (dg_rtype g) rt_NSEC) as [R|R]; cbn [negb].
  2:{ intros H. destruct (IH H) as (g' & I0 & P). exists g'. split; [right; exact I0|exact P]. }
  destruct (name_eqb t (dg_owner g)) eqn:E.
  - destruct (dg_valid g) eqn:V; cbn [negb]; [|discriminate].
    destruct (dg_ce g) eqn:C; [discriminate|].
    destruct (dhas rt_DS g) eqn:D; [discriminate|]. destruct (dhas rt_SOA g) eqn:S; [discriminate|].
    destruct (dhas rt_NS g) eqn:Ns; [discriminate|].
    intros _. exists g. split; [left; reflexivity|]. split; [exact R|]. split; [exact V|]. left. repeat split; assumption.
  - destruct (ends_with t (dg_owner g) && negb (dg_valid g)); [discriminate|].
    destruct (ends_with t (dg_owner g) && match dg_ce g with Some _ => true | None => false end); [discriminate|].
    destruct (ends_with t (dg_owner g) && dhas rt_DNAME g); [discriminate|].
    destruct (ends_with t (dg_owner g) && dhas rt_NS g && negb (dhas rt_SOA g)); [discriminate|].
    destruct (nsec_in_range t (dg_owner g) (dg_next g) && ends_with (dg_next g) t) eqn:Rg.
    + apply andb_true_iff in Rg as [R1 R2].
      destruct (dg_valid g) eqn:V; cbn [negb]; [|discriminate].
      intros _. exists g. split; [left; reflexivity|]. split; [exact R|]. split; [exact V|]. right. repeat split; assumption.
    + intros H. destruct (IH H) as (g' & I0 & P). exists g'. split; [right; exact I0|exact P].
Qed.

Section DS3P.
Variable H : N -> bytes -> name -> bytes.
Variable ci cb : N.

(* NSEC3: a validated record that either matches the name (owner label = Base32hex of
   the hash, in the right zone) with NS but neither DS nor SOA, or covers it with
   Opt-Out set (RFC 5155 6), or has more iterations than the insecure limit allows *)
Definition nsec3_no_ds_proof (t : name) (g : dgroup) : Prop :=
  dg_rtype g = rt_NSEC3 /\ dg_valid g = true /\
  ((ci < dg_iter g /\ dg_iter g <= cb) \/
   (dg_iter g <= ci /\ dg_iter g <= cb /\ dg_alg g = 1 /\ ends_with t (parent_or_root (dg_owner g)) = true /\
    exists oh enc, nsec3_label_to_hash (first_label (dg_owner g)) = Ok oh /\
      b32_display (H (dg_iter g) (dg_salt g) t) = Ok enc /\
      ((label_eqb (first_label (dg_owner g)) enc = true /\ dhas rt_DS g = false /\ dhas rt_SOA g = false /\ dhas rt_NS g = true) \/
       (label_eqb (first_label (dg_owner g)) enc = false /\
        H (dg_iter g) (dg_salt g) t <> oh /\ H (dg_iter g) (dg_salt g) t <> dg_nexth g /\     (* strictly covered *)
        nsec3_in_range (H (dg_iter g) (dg_salt g) t) oh (dg_nexth g) = true /\ dg_optout g = true)))).

Theorem nsec3_for_ds_insecure_sound t gs :
  nsec3_for_ds H ci cb t gs = Ok InsecureDelegation -> exists g, In g gs /\ nsec3_no_ds_proof t g.
Proof.
  induction gs as [|g gs IH]; simpl; [discriminate|].
  assert (Lift : (exists g', In g' gs /\ nsec3_no_ds_proof t g') -> exists g', In g' (g :: gs) /\ nsec3_no_ds_proof t g').
  { intros (g' & I0 & P). exists g'. split; [right; exact I0|exact P]. }
  destruct (N.eqb_spec (dg_rtype g) rt_NSEC3) as [R|R]; cbn [negb]; [|intros X; apply Lift, IH, X].
  unfold nsec3_iter_cmp_op, op_holds.
  destruct (N.compare_spec (dg_iter g) ci) as [C1|C1|C1]; destruct (N.compare_spec (dg_iter g) cb) as [C2|C2|C2]; cbn [orb];
    try (destruct (dg_valid g) eqn:V; cbn [negb]; discriminate);
    try (destruct (dg_valid g) eqn:V; cbn [negb]; [|discriminate];
         intros _; exists g; split; [left; reflexivity|]; split; [exact R|]; split; [exact V|]; left; lia).
  all: (destruct (supported_nsec3_hash (dg_alg g)) eqn:A; cbn [negb]; [|intros X; apply Lift, IH, X];
        apply supported_nsec3_hash_spec in A;
        destruct (nsec3_label_to_hash (first_label (dg_owner g))) as [oh|e|p|] eqn:L; try discriminate; [|intros X; apply Lift, IH, X];
        destruct (ends_with t (parent_or_root (dg_owner g))) eqn:P; cbn [negb]; [|intros X; apply Lift, IH, X];
        destruct (b32_display (H (dg_iter g) (dg_salt g) t)) as [enc| | |] eqn:B; simpl; try discriminate;
        destruct (label_eqb (first_label (dg_owner g)) enc) eqn:M;
        [ destruct (dg_valid g) eqn:V; cbn [negb]; [|discriminate];
          destruct (dhas rt_DS g) eqn:D; [discriminate|]; destruct (dhas rt_SOA g) eqn:S; [discriminate|];
          destruct (dhas rt_NS g) eqn:Ns; [|discriminate];
          intros _; exists g; split; [left; reflexivity|]; split; [exact R|]; split; [exact V|]; right;
          split; [lia|]; split; [lia|]; split; [exact A|]; split; [exact P|]; exists oh, enc; split; [exact L|]; split; [exact B|]; left; repeat split; assumption
        | destruct (nsec3_in_range (H (dg_iter g) (dg_salt g) t) oh (dg_nexth g)) eqn:Rg; [|intros X; apply Lift, IH, X];
          destruct (dg_valid g) eqn:V; cbn [negb]; [|discriminate];
          destruct (dg_optout g) eqn:O; cbn [negb]; [|discriminate];
          intros _; exists g; split; [left; reflexivity|]; split; [exact R|]; split; [exact V|]; right;
          split; [lia|]; split; [lia|]; split; [exact A|]; split; [exact P|]; exists oh, enc; split; [exact L|]; split; [exact B|]; right; split; [exact M|]; split; [apply (nsec3_in_range_strict _ _ _ Rg)|]; split; [apply (nsec3_in_range_strict _ _ _ Rg)|]; split; assumption ]).
Qed.

(* insecure_only_with_no_ds_proof: create_child_node turns a DS reply without DS
   and CNAME answer into an insecure delegation only on one of these proofs *)
Theorem insecure_only_with_no_ds_proof t gs :
  no_ds_decision H ci cb t gs = Ok InsecureDelegation ->
  exists g, In g gs /\ (nsec_no_ds_proof t g \/ nsec3_no_ds_proof t g).
Proof.
  unfold no_ds_decision. destruct (nsec_for_ds t gs) eqn:E.
  - intros _. destruct (nsec_for_ds_insecure_sound t gs E) as (g & I0 & P). exists g. auto.
  - discriminate.
  - discriminate.
  - intros X. destruct (nsec3_for_ds_insecure_sound t gs X) as (g & I0 & P). exists g. auto.
Qed.
(* whatever else the DS reply carries: insecure needs one of the proofs, a CNAME never yields it *)
Theorem ds_reply_insecure_only_with_proof t cn gs :
  ds_reply_decision H ci cb t cn gs = Ok InsecureDelegation ->
  cn = NoCname /\ exists g, In g gs /\ (nsec_no_ds_proof t g \/ nsec3_no_ds_proof t g).
Proof.
  destruct cn; simpl; try discriminate. intros X. split; [reflexivity|]. apply insecure_only_with_no_ds_proof. exact X.
Qed.
End DS3P.

Example ds_decision_ex :
  let g ts v := mkDG rt_NSEC [[107]; [115]] v None [[108]; [115]] ts 0 false 0 [] [] in
  nsec_for_ds [[107]; [115]] [g [2; 46; 47] true] = InsecureDelegation /\
  nsec_for_ds [[107]; [115]] [g [2; 43; 46; 47] true] = CBogus /\       (* DS bit set *)
  nsec_for_ds [[107]; [115]] [g [2; 6; 46; 47] true] = CBogus /\        (* apex NSEC *)
  nsec_for_ds [[107]; [115]] [g [2; 46; 47] false] = CBogus /\          (* signature does not validate *)
  nsec_for_ds [[107]; [115]] [g [1; 46; 47] true] = SecureIntermediate /\
  nsec_for_ds [[120]; [107]; [115]] [g [2; 46; 47] true] = CBogus /\    (* below a delegation *)
  nsec_for_ds [[107]; [115]] [] = CNothing.
Proof. vm_compute. repeat split. Qed.
