(* C14 model, wildcard answers: dnssec/validator/utilities.rs check_not_exists_for_wildcard
   (with get_child_of_ce) and the tail of validate_msg for a NOERROR reply whose
   question is answered directly (no CNAME step) by a group expanded from a wildcard:
   the name itself must be proven not to exist, with the same closest encloser as
   the RRSIG labels field says (NSEC), or its next-closer name covered (NSEC3). *)
From Coq Require Import NArith List Bool.
Import ListNotations.
From DV Require Import Base.Outcome Base.Bytes Base.Lex Base.Names.
From DV Require Import C18.Model C14.Gen C14.Model C14.ModelN3.
Local Open Scope N_scope.

(* get_child_of_ce: the suffix of target one label longer than ce; the code panics
   when target has no more labels than ce *)
Definition child_of_ce (target ce : name) : option name :=
  if Nat.ltb (length ce) (length target) then Some (skipn (length target - length ce - 1) target) else None.

Section Wild.
Variable H : N -> bytes -> name -> bytes.
Variable ci cb : N.

Definition check_not_exists_for_wildcard (target : name) (ngs : list vgroup) (n3gs : list n3group)
  (signer ce : name) : outcome (bool * vstate) :=
  do r <- nsec_for_not_exists target ngs signer;
  match r with
  | (NxExists, _) => Ok (false, Bogus)
  | (NxDoesNotExist ce', _) => if name_eqb ce ce' then Ok (true, Secure) else Ok (false, Bogus)
  | (NxNothing, _) =>
      match child_of_ce target ce with
      | None => Panic 3
      | Some c =>
          do r2 <- nsec3_for_not_exists_no_ce H ci cb c n3gs signer;
          match fst r2 with
          | NcDNE => Ok (true, Secure)
          | NcDNEInsecure => Ok (true, Insecure)
          | NcBogus => Ok (false, Bogus)
          | NcNothing => Ok (false, Bogus)
          end
      end
  end.

(* validate_msg: the answering group has state [st], signer [signer] and, when its RRSIG
   labels field is below the owner's label count, closest encloser [oce] *)
Definition wildcard_answer_state (sname : name) (st : vstate) (signer : name) (oce : option name)
  (ngs : list vgroup) (n3gs : list n3group) : outcome vstate :=
  match st with
  | Secure =>
      match oce with
      | None => Ok Secure
      | Some ce =>
          match star_name ce with
          | None => Ok Bogus
          | Some star =>
              if name_eqb sname star then Ok Secure
              else
                do r <- check_not_exists_for_wildcard sname ngs n3gs signer ce;
                let '(ok, s) := r in
                if ok then Ok (map_maybe_secure s Secure) else Ok Bogus
          end
      end
  | other => Ok other
  end.
(* the whole reply: validate_groups over the answer group and the authority groups first *)
Definition wildcard_msg_state (sname : name) (st : vstate) (signer : name) (oce : option name)
  (ngs : list (vgroup * vstate)) (n3gs : list (n3group * vstate)) : outcome vstate :=
  match validate_groups (st :: map snd ngs ++ map snd n3gs) with
  | None => Ok Bogus
  | Some _ => wildcard_answer_state sname st signer oce (map fst ngs) (map fst n3gs)
  end.
End Wild.
