(* C14 proofs, part 12: which node answers for a name. *)
From Coq Require Import NArith List Bool Lia.
Import ListNotations.
From DV Require Import Base.Outcome Base.Bytes Base.Lex Base.Names.
From DV Require Import C17.Model C14.Gen C14.Model C14.ModelNode C14.ModelCache C14.ProofsDenial.
Local Open Scope N_scope.
(* the T1 switch stays a symbol in these proofs: they hold for both of its values *)
Local Opaque closest_skips_intermediate.

Section CacheP.
Variable now : N.
Variable ta_owner : name.
Variable ta_node : cnode.
Variable mk_child : name -> cnode -> cnode.

Lemma suffix_of_tail x l n : suffix_of (x :: l) n -> suffix_of l n.
Proof. intros [p ->]. exists (p ++ [x]). rewrite <- app_assoc. reflexivity. Qed.

Lemma find_closest_inv n c : forall curr names z nd fromc names' c',
  suffix_of curr n -> Forall (fun x => suffix_of x n) names ->
  find_closest now ta_owner ta_node c curr names = Ok (z, nd, fromc, names', c') ->
  suffix_of z n /\ Forall (fun x => suffix_of x n) names' /\
  (fromc = true -> cache_lookup now c z = Some nd /\ c' = c /\
                   (closest_skips_intermediate = true -> cn_intermediate nd = false)) /\
  (fromc = false -> nd = ta_node).
Proof.
  induction curr as [|l curr IH]; intros names z nd fromc names' c' Hs Hn; simpl.
  - destruct (name_eqb ta_owner []).
    + intros X. inversion X. subst. repeat split; try assumption; try discriminate.
    + destruct (cache_lookup now c []) as [nd0|] eqn:L.
      * destruct (closest_skips_intermediate && cn_intermediate nd0) eqn:K; [discriminate|].
        intros X. inversion X. subst. repeat split; try assumption; try discriminate; try (intros S; rewrite S in K; exact K).
      * discriminate.
  - destruct (name_eqb ta_owner (l :: curr)).
    + intros X. inversion X. subst. repeat split; try assumption; try discriminate.
    + destruct (cache_lookup now c (l :: curr)) as [nd0|] eqn:L.
      * destruct (closest_skips_intermediate && cn_intermediate nd0) eqn:K.
        -- apply IH; [eapply suffix_of_tail; exact Hs|constructor; assumption].
        -- intros X. inversion X. subst. repeat split; try assumption; try discriminate; try (intros S; rewrite S in K; exact K).
      * apply IH; [eapply suffix_of_tail; exact Hs|constructor; assumption].
Qed.

Lemma walk_down_zone n : forall names zone node signer c calls z nd c' calls',
  suffix_of zone n -> Forall (fun x => suffix_of x n) names ->
  walk_down mk_child zone node signer names c calls = (z, nd, c', calls') -> suffix_of z n.
Proof.
  induction names as [|child rest IH]; intros zone node signer c calls z nd c' calls' Hz Hn; simpl.
  - destruct (cn_state node); intros X; inversion X; subst; auto.
  - destruct (cn_state node); try (intros X; inversion X; subst; auto; fail).
    inversion Hn as [|? ? Hch Hrest]; subst.
    destruct rest as [|r2 rest]; [intros X; inversion X; subst; exact Hch|].
    intros X. eapply IH in X; eassumption.
Qed.

Lemma walk_down_signers : forall names zone node signer c calls z nd c' calls',
  cn_intermediate signer = false -> Forall (fun cl => cn_intermediate (snd cl) = false) calls ->
  walk_down mk_child zone node signer names c calls = (z, nd, c', calls') ->
  Forall (fun cl => cn_intermediate (snd cl) = false) calls'.
Proof.
  induction names as [|child rest IH]; intros zone node signer c calls z nd c' calls' Hs Hc; simpl.
  - destruct (cn_state node); intros X; inversion X; subst; auto.
  - destruct (cn_state node); try (intros X; inversion X; subst; auto; fail).
    assert (Hc' : Forall (fun cl => cn_intermediate (snd cl) = false) (calls ++ [(child, signer)])).
    { apply Forall_app. split; [exact Hc|constructor; [exact Hs|constructor]]. }
    destruct rest as [|r2 rest]; [intros X; inversion X; subst; exact Hc'|].
    intros X. eapply IH in X; [exact X| |exact Hc'].
    destruct (cn_intermediate (mk_child child signer)) eqn:I; [exact Hs|exact I].
Qed.

Lemma walk_down_calls : forall names zone node signer c calls z nd c' calls',
  walk_down mk_child zone node signer names c calls = (z, nd, c', calls') ->
  exists extra, calls' = calls ++ extra /\ (extra = [] -> z = zone /\ nd = node /\ c' = c).
Proof.
  induction names as [|child rest IH]; intros zone node signer c calls z nd c' calls'; simpl.
  - destruct (cn_state node); intros X; inversion X; subst; exists []; rewrite app_nil_r; auto.
  - destruct (cn_state node); try (intros X; inversion X; subst; exists []; rewrite app_nil_r; auto; fail).
    destruct rest as [|r2 rest].
    + intros X. injection X as E1 E2 E3 E4. exists [(child, signer)]. split; [symmetry; exact E4|discriminate].
    + intros X. apply IH in X as (extra & E & _). exists ((child, signer) :: extra).
      split; [rewrite E, <- app_assoc; reflexivity|discriminate].
Qed.

(* the node that answers for a name stands for the name itself or an ancestor of it; a node
   taken from the cache was still usable; with the closest-node search skipping intermediate
   nodes, create_child_node is never handed a key-less (intermediate) signer node *)
Theorem get_node_sound c n r :
  get_node now ta_owner ta_node mk_child c n = Ok r ->
  suffix_of (l_zone r) n /\
  (l_from_cache r = true -> exists nd, cache_get c (l_zone r) = Some nd /\ l_node r = nd /\
                                       node_usable (cn_created nd) (cn_valid_for nd) now = true) /\
  (closest_skips_intermediate = true -> cn_intermediate ta_node = false ->
   Forall (fun cl => cn_intermediate (snd cl) = false) (l_calls r)).
Proof.
  unfold get_node. destruct (cache_lookup now c n) as [nd0|] eqn:L.
  - intros X. inversion X. subst. simpl. split; [exists []; reflexivity|]. split; [|intros; constructor].
    intros _. unfold cache_lookup in L. destruct (cache_get c n) as [nd1|]; [|discriminate].
    destruct (node_usable _ _ _) eqn:U; inversion L. subst. eauto.
  - destruct (name_eqb ta_owner n).
    + intros X. inversion X. subst. simpl. split; [exists []; reflexivity|]. split; [discriminate|intros; constructor].
    + destruct n as [|l p]; cbn iota beta; [discriminate|].
      match goal with |- context [find_closest ?a ?b ?c0 ?d ?e ?f] => destruct (find_closest a b c0 d e f) as [[[[[z nd] fromc] names] c1]| | |] eqn:F end; simpl; try discriminate.
      destruct (walk_down mk_child z nd nd names c1 []) as [[[z' nd'] c2] calls] eqn:Wd.
      intros X. inversion X. subst. simpl. clear X.
      assert (Hp : suffix_of p (l :: p)) by (exists [l]; reflexivity).
      assert (Hn : Forall (fun x => suffix_of x (l :: p)) [l :: p]) by (constructor; [exists []; reflexivity|constructor]).
      destruct (find_closest_inv (l :: p) c p [l :: p] z nd fromc names c1 Hp Hn F) as (Hz & Hns & Hc & Ht).
      destruct (walk_down_calls _ _ _ _ _ _ _ _ _ _ Wd) as (extra & E & Hx). simpl in E. subst calls.
      split; [|split].
      * exact (walk_down_zone (l :: p) names z nd nd c1 [] z' nd' c2 extra Hz Hns Wd).
      * intros Hf. apply andb_true_iff in Hf as [Hf He]. destruct extra; [|discriminate].
        destruct (Hx eq_refl) as (-> & -> & ->). destruct (Hc Hf) as (Lk & _ & _).
        unfold cache_lookup in Lk. destruct (cache_get c z) as [nd1|]; [|discriminate].
        destruct (node_usable _ _ _) eqn:U; inversion Lk. subst. eauto.
      * intros S T. assert (I : cn_intermediate nd = false).
        { destruct fromc; [destruct (Hc eq_refl) as (_ & _ & K); apply K, S|rewrite (Ht eq_refl); exact T]. }
        exact (walk_down_signers names z nd nd c1 [] z' nd' c2 extra I (Forall_nil _) Wd).
Qed.

End CacheP.

(* without that, a cached intermediate node becomes the signer for the names below it:
   anchor ".", cache { a.z : secure intermediate }, asked for x.s.a.z - the node for s.a.z is
   created with the key-less node of a.z as signer *)
Theorem intermediate_signer_refuted : closest_skips_intermediate = false ->
  exists now ta_node mk c n r, get_node now [] ta_node mk c n = Ok r /\
    exists cl, In cl (l_calls r) /\ cn_intermediate (snd cl) = true.
Proof.
  intros S.
  first [ discriminate S
        | exists 1000, (mkCN Secure false 1000 300), (fun _ _ => mkCN Insecure false 1000 300),
                 [([[97]; [122]], mkCN Secure true 1000 300)], [[120]; [115]; [97]; [122]];
          eexists; split; [vm_compute; reflexivity|];
          eexists; split; [left; reflexivity|reflexivity] ].
Qed.
