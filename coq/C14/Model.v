(* C14 model: the pure decision helpers of the DNSSEC validator.

   dnssec/validator/nsec.rs   nsec_in_range, nsec3_in_range, nsec_closest_encloser,
                              get_checked_nsec, nsec_for_nodata, nsec_for_not_exists,
                              nsec_for_nxdomain, nsec_for_nodata_wildcard,
                              supported_nsec3_hash, nsec3_label_to_hash
   dnssec/validator/utilities.rs  star_closest_encloser, map_maybe_secure,
                              get_answer_state, do_cname_dname (CNAME steps)
   dnssec/validator/group.rs  Group::check_sig: the RFC 4035 5.3.1 conditions
                              (cryptographic verification is an input bit)
   dnssec/validator/context.rs validate_groups (state combination)

   Names are label lists without the root label (Base/Names.v); Name equality,
   ordering and ends_with ignore ASCII case.  NSEC3 hashes are octet strings
   ordered as slices (Base/Lex.v).  A signature-validated group is abstracted
   by the fields the helpers read through the ValidatedGroup accessors.

   Extended errors are small codes (0 = None):
     1 NSEC for NODATA proves requested Rtype or CNAME   2 NSEC from apex for DS
     3 NSEC from parent for non-DS rtype                 4 cannot create wildcard record
     5 Found matching NSEC while trying to proof non-existance
     6 Found ENT NSEC ...     7 Found NSEC with DNAME or delegation ...
     8 NSEC is expanded from wildcard
   Panic sites: 1 nsec3_label_to_hash expect("should not fail")
                2 get_checked_nsec panic!("NSEC expected")
                10+p  panic p inside base32::decode_hex (C18 model; proved absent)
   Err codes of nsec3_label_to_hash: 1 Utf8Error, 2 decode error (after the fix). *)
From Coq Require Import NArith List Bool.
Import ListNotations.
From DV Require Import Base.Outcome Base.Bytes Base.Lex Base.Names.
From DV Require Import C17.Model C18.Model C14.Gen.
Local Open Scope N_scope.

(* ---- operators extracted by T1 *)
Definition op_holds (op : N) (c : comparison) : bool :=
  match op with
  | 0 => match c with Lt => true | _ => false end
  | 1 => match c with Gt => false | _ => true end
  | 2 => match c with Gt => true | _ => false end
  | 3 => match c with Lt => false | _ => true end
  | 4 => match c with Eq => true | _ => false end
  | _ => match c with Eq => false | _ => true end
  end.
Definition conn (is_and : bool) (a b : bool) : bool := if is_and then a && b else a || b.

(* ---- nsec_in_range / nsec3_in_range *)
Definition nsec_in_range (target owner next : name) : bool :=
  if op_holds nsec_cond_op (name_cmp owner next)
  then conn nsec_norm_and (op_holds nsec_norm_op1 (name_cmp target owner))
                          (op_holds nsec_norm_op2 (name_cmp target next))
  else op_holds nsec_wrap_op (name_cmp target owner).

Definition nsec3_in_range (target owner next : bytes) : bool :=
  if op_holds n3_cond_op (lex_cmp next owner)
  then conn n3_norm_and (op_holds n3_norm_op1 (lex_cmp owner target))
                        (op_holds n3_norm_op2 (lex_cmp target next))
  else conn n3_wrap_and (op_holds n3_wrap_op1 (lex_cmp owner target))
                        (op_holds n3_wrap_op2 (lex_cmp target next)).

Definition supported_nsec3_hash (h : N) : bool := existsb (N.eqb h) supported_nsec3_hashes.
Definition supported_algorithm (a : N) : bool := existsb (N.eqb a) supported_algorithms.
Definition supported_digest (d : N) : bool := existsb (N.eqb d) supported_digests.

(* ---- ToLabelIter::ends_with: compare labels from the back, ignoring case *)
Fixpoint prefix_ci (p l : list label) : bool :=
  match p, l with
  | [], _ => true
  | _ :: _, [] => false
  | x :: p', y :: l' => label_eqb x y && prefix_ci p' l'
  end.
Definition ends_with (n base : name) : bool := prefix_ci (rev base) (rev n).

(* ---- nsec_closest_encloser: for each of owner / next the first suffix (longest
   first, root last) that target ends with; the owner's wins iff strictly longer *)
Fixpoint first_suffix (target n : name) : name :=
  match n with
  | [] => []
  | _ :: n' => if ends_with target n then n else first_suffix target n'
  end.
Definition nsec_closest_encloser (target owner next : name) : name :=
  let oe := first_suffix target owner in
  let ne := first_suffix target next in
  if Nat.ltb (length ne) (length oe) then oe else ne.

(* ---- star_closest_encloser: NameBuilder "\1*" + append_origin(ce) fails when
   2 + (wire_len ce + 1) > 255 *)
Definition star_label : label := [42].
Definition star_name (ce : name) : option name :=
  if Nat.leb (wire_len ce) 252 then Some (star_label :: ce) else None.

(* ---- a validated group as seen through the accessors *)
Record vgroup := mkG {
  g_rtype : N;            (* rtype(): type of rr_set[0], RRSIG when rr_set is empty *)
  g_nrr : N;              (* rr_set().len() *)
  g_is_nsec : bool;       (* rr_set[0].data() is AllRecordData::Nsec *)
  g_owner : name;
  g_next : name;          (* NSEC next_name *)
  g_types : list N;       (* NSEC type bitmap as the list of set types *)
  g_secure : bool;        (* state() == Secure *)
  g_signer : name;        (* signer_name() *)
  g_ce : option name      (* closest_encloser(): Some iff RRSIG labels < owner labels *)
}.

Definition has (t : N) (g : vgroup) : bool := existsb (N.eqb t) (g_types g).

(* get_checked_nsec: Ok (usable, ede) *)
Definition get_checked_nsec (g : vgroup) (signer : name) : outcome (bool * N) :=
  if negb (g_rtype g =? rt_NSEC) then Ok (false, 0)
  else if negb (g_nrr g =? 1) then Ok (false, 0)
  else if negb (g_is_nsec g) then Panic 2
  else if negb (g_secure g) then Ok (false, 0)
  else if negb (name_eqb (g_signer g) signer) then Ok (false, 0)
  else match g_ce g with
       | None => Ok (true, 0)
       | Some ce =>
           match star_name ce with
           | None => Ok (false, 0)
           | Some star => if name_eqb (g_owner g) star then Ok (true, 0) else Ok (false, 8)
           end
       end.

Inductive nstate := NoData | NNothing.
Inductive nxstate := NxExists | NxDoesNotExist (ce : name) | NxNothing.

Definition is_root (n : name) : bool := match n with [] => true | _ => false end.

Fixpoint nodata_loop (target : name) (rtype : N) (signer : name) (gs : list vgroup) (ede : N)
  : outcome (nstate * N) :=
  match gs with
  | [] => Ok (NNothing, ede)
  | g :: gs' =>
      do chk <- get_checked_nsec g signer;
      let '(usable, new_ede) := chk in
      if negb usable then nodata_loop target rtype signer gs' (if ede =? 0 then new_ede else ede)
      else if name_eqb target (g_owner g) then
        if has rtype g || has rt_CNAME g then Ok (NNothing, 1)
        else if (rtype =? rt_DS) && negb (is_root target) then
          if has rt_NS g && has rt_SOA g then Ok (NNothing, 2) else Ok (NoData, 0)
        else if has rt_NS g && negb (has rt_SOA g) then Ok (NNothing, 3)
        else Ok (NoData, 0)
      else if nsec_in_range target (g_owner g) (g_next g) && ends_with (g_next g) target
      then Ok (NoData, 0)
      else nodata_loop target rtype signer gs' ede
  end.
Definition nsec_for_nodata (target : name) (gs : list vgroup) (rtype : N) (signer : name) :=
  nodata_loop target rtype signer gs 0.

Fixpoint not_exists_loop (target signer : name) (gs : list vgroup) (ede : N)
  : outcome (nxstate * N) :=
  match gs with
  | [] => Ok (NxNothing, ede)
  | g :: gs' =>
      do chk <- get_checked_nsec g signer;
      let '(usable, new_ede) := chk in
      if negb usable then not_exists_loop target signer gs' (if ede =? 0 then new_ede else ede)
      else if name_eqb target (g_owner g) then Ok (NxExists, 5)
      else if negb (nsec_in_range target (g_owner g) (g_next g))
      then not_exists_loop target signer gs' ede
      else if ends_with (g_next g) target then Ok (NxExists, 6)
      else if ends_with target (g_owner g)
              && (has rt_DNAME g || (has rt_NS g && negb (has rt_SOA g)))
      then Ok (NxExists, 7)
      else Ok (NxDoesNotExist (nsec_closest_encloser target (g_owner g) (g_next g)), 0)
  end.
Definition nsec_for_not_exists (target : name) (gs : list vgroup) (signer : name) :=
  not_exists_loop target signer gs 0.

Definition nsec_for_nxdomain (target : name) (gs : list vgroup) (signer : name)
  : outcome (nxstate * N) :=
  do r <- nsec_for_not_exists target gs signer;
  match r with
  | (NxExists, ede) => Ok (NxNothing, ede)
  | (NxNothing, ede) => Ok (NxNothing, ede)
  | (NxDoesNotExist ce, _) =>
      match star_name ce with
      | None => Ok (NxNothing, 4)
      | Some star => nsec_for_not_exists star gs signer
      end
  end.

Definition nsec_for_nodata_wildcard (target : name) (gs : list vgroup) (rtype : N) (signer : name)
  : outcome (nstate * N) :=
  do r <- nsec_for_not_exists target gs signer;
  match r with
  | (NxExists, ede) => Ok (NNothing, ede)
  | (NxNothing, ede) => Ok (NNothing, ede)
  | (NxDoesNotExist ce, _) =>
      match star_name ce with
      | None => Ok (NNothing, 4)
      | Some star => nsec_for_nodata star gs rtype signer
      end
  end.

(* ---- nsec3_label_to_hash: from_utf8, then base32::decode_hex over the chars *)
Definition cont (b : N) : bool := (128 <=? b) && (b <=? 191).
(* core::str::from_utf8 followed by chars(): None = Utf8Error *)
Fixpoint utf8_decode (fuel : nat) (b : bytes) : option (list N) :=
  match fuel with
  | O => match b with [] => Some [] | _ => None end
  | S fuel' =>
    match b with
    | [] => Some []
    | b0 :: r =>
      if b0 <? 128 then option_map (cons b0) (utf8_decode fuel' r)
      else if (194 <=? b0) && (b0 <=? 223) then
        match r with
        | b1 :: r' => if cont b1
            then option_map (cons ((b0 - 192) * 64 + (b1 - 128))) (utf8_decode fuel' r')
            else None
        | _ => None
        end
      else if (224 <=? b0) && (b0 <=? 239) then
        match r with
        | b1 :: b2 :: r' =>
            let lo := if b0 =? 224 then 160 else 128 in
            let hi := if b0 =? 237 then 159 else 191 in
            if (lo <=? b1) && (b1 <=? hi) && cont b2
            then option_map (cons ((b0 - 224) * 4096 + (b1 - 128) * 64 + (b2 - 128))) (utf8_decode fuel' r')
            else None
        | _ => None
        end
      else if (240 <=? b0) && (b0 <=? 244) then
        match r with
        | b1 :: b2 :: b3 :: r' =>
            let lo := if b0 =? 240 then 144 else 128 in
            let hi := if b0 =? 244 then 143 else 191 in
            if (lo <=? b1) && (b1 <=? hi) && cont b2 && cont b3
            then option_map (cons ((b0 - 240) * 262144 + (b1 - 128) * 4096 + (b2 - 128) * 64 + (b3 - 128)))
                            (utf8_decode fuel' r')
            else None
        | _ => None
        end
      else None
    end
  end.
Definition from_utf8 (b : bytes) : option (list N) := utf8_decode (length b) b.

Definition nsec3_label_to_hash (l : label) : outcome bytes :=
  match from_utf8 l with
  | None => Err 1
  | Some chars =>
      match b32_decode chars with
      | Ok h => Ok h
      | Err _ => if label_to_hash_expects then Panic 1 else Err 2
      | Panic p => Panic (10 + p)
      | OutOfFuel => OutOfFuel
      end
  end.

(* ---- Group::check_sig: the conditions of RFC 4035 5.3.1 in the order of the
   code; [crypto_ok] is the result of verify_signed_data *)
Record sigin := mkS {
  s_sig_owner : name; s_owner : name; s_same_class : bool;
  s_signer : name;          (* signer_name argument = the node's signer name *)
  s_type_covered : N; s_rtype : N;
  s_sig_labels : N;         (* RRSIG labels field *)
  s_now : N; s_expiration : N; s_inception : N;
  s_key_name : name; s_sig_alg : N; s_key_alg : N; s_sig_tag : N; s_key_tag : N;
  s_zone_key : bool; s_crypto_ok : bool
}.

(* Signature times.  T1 tells which comparison the code uses:
   - Timestamp::canonical_gt / canonical_lt = Serial::canonical_cmp, the plain u32 order, or
   - Timestamp::partial_cmp = Serial::partial_cmp (RFC 1982); values exactly 2^31 apart are
     incomparable and the signature is then rejected. *)
Definition serial_le (a b : N) : bool :=
  match serial_partial_cmp a b with Ok (Some Lt) => true | Ok (Some Eq) => true | _ => false end.
Definition serial_ge (a b : N) : bool :=
  match serial_partial_cmp a b with Ok (Some Gt) => true | Ok (Some Eq) => true | _ => false end.
Definition sig_time_ok (now inception expiration : N) : bool :=
  if sig_time_is_canonical
  then negb (op_holds sig_expired_op (serial_canonical_cmp now expiration)
             || op_holds sig_early_op (serial_canonical_cmp now inception))
  else serial_le now expiration && serial_ge now inception.

Definition check_sig (s : sigin) : bool :=
  if negb (name_eqb (s_sig_owner s) (s_owner s)) || negb (s_same_class s) then false
  else if negb (ends_with (s_owner s) (s_signer s)) then false
  else if negb (s_type_covered s =? s_rtype s) then false
  else if op_holds sig_labels_reject_op (N.of_nat (length (s_owner s)) ?= s_sig_labels s) then false
  else if negb (sig_time_ok (s_now s) (s_inception s) (s_expiration s)) then false
  else if negb (name_eqb (s_signer s) (s_key_name s)) || negb (s_sig_alg s =? s_key_alg s)
          || negb (s_sig_tag s =? s_key_tag s) then false
  else if negb (s_zone_key s) then false
  else s_crypto_ok s.

(* Group::check_sig_cached: the verdict of check_sig is cached under (signed data,
   RRSIG, key); [cached] is what the cache holds for this key.  T1 tells whether
   the validity period is checked against the clock before the cache is trusted. *)
Definition check_sig_cached (cached : option bool) (s : sigin) : bool :=
  if sig_cache_checks_time_first && negb (sig_time_ok (s_now s) (s_inception s) (s_expiration s)) then false
  else match cached with Some b => b | None => check_sig s end.

(* utilities.rs ttl_for_sig: seconds until the expiration, a u32 subtraction *)
Definition ttl_until_expired (now exp : N) : outcome N :=
  if ttl_for_sig_wraps then Ok ((exp + M32 - now) mod M32) else u32_sub exp now.

(* one signature, in order except possibly for its times, validated on one context
   at [now1] and again at [now2]: does the second validation accept it? *)
Definition revalidate (now1 now2 inc exp : N) : outcome bool :=
  let first := sig_time_ok now1 inc exp in
  let second := if sig_cache_checks_time_first && negb (sig_time_ok now2 inc exp) then false else first in
  if second then do _ <- ttl_until_expired now2 exp; Ok true else Ok false.

(* RrsigExt::wildcard_closest_encloser: Some(suffix with [labels] labels) iff labels < owner labels *)
Definition wildcard_closest_encloser (owner : name) (sig_labels : N) : option name :=
  if Nat.ltb (N.to_nat sig_labels) (length owner)
  then Some (skipn (length owner - N.to_nat sig_labels) owner)
  else None.

(* ---- validation states and their combination *)
Inductive vstate := Secure | Insecure | Bogus | Indeterminate.
Definition vstate_code (s : vstate) : N :=
  match s with Secure => 0 | Insecure => 1 | Bogus => 2 | Indeterminate => 3 end.
Definition vstate_eqb (a b : vstate) : bool := vstate_code a =? vstate_code b.

(* validate_groups: None = VGResult::Bogus (abort), Some l = VGResult::Groups *)
Fixpoint validate_groups (states : list vstate) : option (list vstate) :=
  match states with
  | [] => Some []
  | s :: r =>
      if vstate_code s =? vg_abort_state then None
      else option_map (cons s) (validate_groups r)
  end.

Definition map_maybe_secure (result maybe_secure : vstate) : vstate :=
  match result with Secure => maybe_secure | _ => result end.

(* an answer-section group for the positive path of validate_msg *)
Record agroup := mkA {
  a_class_ok : bool;      (* class() == qclass *)
  a_rtype : N; a_nrr : N; a_owner : name;
  a_cname : option name;  (* Some target iff rr_set[0] is a CNAME *)
  a_state : vstate;
  a_wild : bool;          (* closest_encloser().is_some() *)
  a_dname : option name;  (* Some target iff rr_set[0] is a DNAME *)
  a_signed : bool         (* sig_set is not empty *)
}.

(* utilities.rs map_dname(owner of the DNAME, DNAME target, name): the labels that
   name has more than the owner, in front of the target; fails when the result
   exceeds 255 octets (NameBuilder::append_label / append_origin) *)
Definition map_dname (owner dtarget nm : name) : option name :=
  let r := firstn (length nm - length owner) nm ++ dtarget in
  if Nat.leb (wire_len r) 254 then Some r else None.

(* GroupSet::moved_to_dname for an unsigned single CNAME (owner, target): the first
   DNAME record above the owner decides: its expansion must exist and equal the target *)
Fixpoint moved_to_dname (cowner ctarget : name) (gs : list agroup) : bool :=
  match gs with
  | [] => false
  | g :: r =>
      match a_dname g with
      | Some dt =>
          if negb (a_rtype g =? rt_DNAME) then moved_to_dname cowner ctarget r
          else if negb (ends_with cowner (a_owner g)) then moved_to_dname cowner ctarget r
          else if name_eqb cowner (a_owner g) then moved_to_dname cowner ctarget r
          else match map_dname (a_owner g) dt cowner with
               | None => false
               | Some res => if name_eqb ctarget res then true else moved_to_dname cowner ctarget r
               end
      | None => moved_to_dname cowner ctarget r
      end
  end.

(* GroupSet::move_redundant_cnames: unsigned single-record CNAME groups that are the
   synthesis of a DNAME in the set are taken out (they travel with the DNAME group) *)
Definition is_courtesy_cname (all : list agroup) (g : agroup) : bool :=
  (a_rtype g =? rt_CNAME) && (a_nrr g =? 1) && negb (a_signed g) &&
  match a_cname g with Some t => moved_to_dname (a_owner g) t all | None => false end.
Definition move_redundant_cnames (gs : list agroup) : list agroup :=
  filter (fun g => negb (is_courtesy_cname gs g)) gs.

(* do_cname_dname: CNAME steps on non-wildcard groups and DNAME steps; a CNAME
   expanded from a wildcard needs the authority section and is not modelled
   (the model then answers None = "not covered") *)
Fixpoint cname_find (nm : name) (qtype : N) (gs : list agroup) : option (option (Names.name * vstate)) :=
  match gs with
  | [] => Some None
  | g :: r =>
      if negb (a_class_ok g) then cname_find nm qtype r
      else if (a_rtype g =? rt_CNAME) && (a_rtype g =? qtype) then cname_find nm qtype r
      else if negb (a_nrr g =? 1) then cname_find nm qtype r
      else match a_cname g with
           | Some tgt =>
               if negb (name_eqb (a_owner g) nm) then cname_find nm qtype r
               else if a_wild g then None
               else Some (Some (tgt, a_state g))
           | None =>
               match a_dname g with
               | Some dt =>
                   if negb (ends_with nm (a_owner g)) then cname_find nm qtype r
                   else if name_eqb (a_owner g) nm then cname_find nm qtype r
                   else if a_wild g then Some (Some (a_owner g, Bogus))        (* DNAME from wildcard *)
                   else match map_dname (a_owner g) dt nm with
                        | None => Some (Some (a_owner g, Bogus))               (* failed to expand *)
                        | Some res => Some (Some (res, a_state g))
                        end
               | None => cname_find nm qtype r
               end
           end
  end.
Fixpoint cname_chase (fuel : nat) (count maxc : N) (nm : name) (qtype : N) (gs : list agroup)
  (maybe : vstate) : outcome (option (Names.name * vstate)) :=
  match fuel with
  | O => OutOfFuel
  | S fuel' =>
      match cname_find nm qtype gs with
      | None => Ok None
      | Some None => Ok (Some (nm, maybe))
      | Some (Some (tgt, st)) =>
          let maybe' := map_maybe_secure st maybe in
          if vstate_eqb st Bogus then Ok (Some (tgt, Bogus))
          else if maxc <? count + 1 then Ok (Some (tgt, Bogus))
          else cname_chase fuel' (count + 1) maxc tgt qtype gs maybe'
      end
  end.
Fixpoint get_answer_state (qname : name) (qtype : N) (gs : list agroup) : option agroup :=
  match gs with
  | [] => None
  | g :: r =>
      if negb (a_class_ok g) then get_answer_state qname qtype r
      else if negb (a_rtype g =? qtype) then get_answer_state qname qtype r
      else if negb (name_eqb (a_owner g) qname) then get_answer_state qname qtype r
      else Some g
  end.

(* validate_msg, NOERROR with a non-wildcard answer: None = outside this model
   (wildcard / DNAME / negative answer); Some st = the state returned *)
Definition positive_answer_state (qname : name) (qtype : N) (maxc : N) (gs : list agroup)
  : outcome (option vstate) :=
  match validate_groups (map a_state gs) with
  | None => Ok (Some Bogus)
  | Some _ =>
      let init := if answer_init_is_const then Secure
                  else fold_left (fun acc g => map_maybe_secure (a_state g) acc) gs Secure in
      do r <- cname_chase (S (N.to_nat maxc + 1)) 0 maxc qname qtype gs Secure;
      match r with
      | None => Ok None
      | Some (sname, st) =>
          let maybe := map_maybe_secure st init in
          if vstate_eqb maybe Bogus then Ok (Some Bogus)
          else match get_answer_state sname qtype gs with
               | None => Ok None
               | Some g => if a_wild g && vstate_eqb (a_state g) Secure then Ok None
                           else Ok (Some (map_maybe_secure (a_state g) maybe))
               end
      end
  end.

(* validate_msg for a reply with an empty answer section whose authority section
   holds a secure SOA (signer [signer]) and the groups [gs] (no NSEC3 records):
   NOERROR -> nsec_for_nodata, then nsec_for_nodata_wildcard, then the NSEC3
   helpers which find nothing (ede 9); NXDOMAIN -> nsec_for_nxdomain, then NSEC3.
   ede 99 stands for the ede of the group on which validate_groups aborted. *)
Definition negative_msg_state (nx : bool) (target : name) (qtype : N) (signer : name)
  (gs : list (vgroup * vstate)) : outcome (vstate * N) :=
  match validate_groups (map snd gs) with
  | None => Ok (Bogus, 99)
  | Some _ =>
      let groups := map fst gs in
      if nx then
        do r <- nsec_for_nxdomain target groups signer;
        match r with
        | (NxExists, e) => Ok (Bogus, e)
        | (NxDoesNotExist _, e) => Ok (Secure, e)
        | (NxNothing, _) => Ok (Bogus, 9)
        end
      else
        do r <- nsec_for_nodata target groups qtype signer;
        match r with
        | (NoData, e) => Ok (Secure, e)
        | (NNothing, _) =>
            do r2 <- nsec_for_nodata_wildcard target groups qtype signer;
            match r2 with
            | (NoData, e) => Ok (Secure, e)
            | (NNothing, _) => Ok (Bogus, 9)
            end
        end
  end.

(* validate_msg for a NOERROR reply with an empty authority section and no
   wildcard / DNAME groups in the answer: when nothing answers the (chased)
   question the negative path finds no SOA and the verdict is bogus *)
Definition answer_msg_state (qname : name) (qtype : N) (maxc : N) (gs : list agroup) : outcome vstate :=
  do r <- positive_answer_state qname qtype maxc (move_redundant_cnames gs);
  match r with
  | Some s => Ok s
  | None => Ok Bogus
  end.

(* ---- entry points for the correspondence driver *)
Definition c14_nsec_in_range := nsec_in_range.
Definition c14_nsec3_in_range := nsec3_in_range.
Definition c14_supported_nsec3_hash := supported_nsec3_hash.
Definition c14_label_to_hash := nsec3_label_to_hash.
Definition c14_nodata := nsec_for_nodata.
Definition c14_not_exists := nsec_for_not_exists.
Definition c14_nxdomain := nsec_for_nxdomain.
Definition c14_nodata_wildcard := nsec_for_nodata_wildcard.
Definition c14_sig_time_ok := sig_time_ok.
Definition c14_wildcard_ce := wildcard_closest_encloser.
Definition c14_mkG := mkG.
