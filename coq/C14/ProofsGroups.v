(* C14 proofs, part 13: a signature is only ever attached to the RRset it covers. *)
From Coq Require Import NArith List Bool Lia.
Import ListNotations.
From DV Require Import Base.Outcome Base.Bytes Base.Lex Base.Names C14.Gen C14.Model C14.ModelGroups.
Local Open Scope N_scope.

(* all records and signatures of a group agree with a head record in owner (ignoring case), class and
   type (signatures: type covered); records are not RRSIGs, signatures are *)
Definition agrees (f r : grec) : Prop :=
  name_eqb (r_owner f) (r_owner r) = true /\ r_class f = r_class r /\ r_type f = r_type r.
Definition head (g : mgroup) : option grec :=
  match m_rrs g with f :: _ => Some f | [] => match m_sigs g with f :: _ => Some f | [] => None end end.
Definition group_ok (g : mgroup) : Prop :=
  exists f, head g = Some f /\ Forall (agrees f) (m_rrs g) /\ Forall (agrees f) (m_sigs g) /\
            Forall (fun r => r_is_sig r = false) (m_rrs g) /\ Forall (fun r => r_is_sig r = true) (m_sigs g).

Lemma name_eqb_refl n : name_eqb n n = true.
Proof. apply name_eqb_spec. reflexivity. Qed.

Lemma agrees_refl f : agrees f f.
Proof. repeat split. apply name_eqb_refl. Qed.

Lemma group_new_ok r : group_ok (group_new r).
Proof.
  unfold group_new, group_ok, head. destruct (r_is_sig r) eqn:S; simpl; exists r; repeat split; auto using agrees_refl; constructor; auto using agrees_refl.
Qed.

Lemma group_add_ok g r g' : group_ok g -> group_add g r = Some g' -> group_ok g'.
Proof.
  intros (f & Hh & Hr & Hs & Hnr & Hns). unfold group_add. fold (head g). rewrite Hh.
  destruct (name_eqb (r_owner f) (r_owner r)) eqn:E; cbn [negb]; [|discriminate].
  destruct (N.eqb_spec (r_class f) (r_class r)) as [C|]; cbn [andb negb]; [|discriminate].
  destruct (N.eqb_spec (r_type f) (r_type r)) as [T|]; cbn [negb]; [|discriminate].
  assert (A : agrees f r) by (repeat split; assumption).
  destruct (r_is_sig r) eqn:S.
  - destruct (existsb (same_rec r) (m_sigs g)); intros X; inversion X; subst; [exists f; repeat split; assumption|].
    exists f. unfold head in *. simpl.
    split. { destruct (m_rrs g); [|exact Hh]. destruct (m_sigs g); [discriminate|exact Hh]. }
    split; [exact Hr|]. split; [apply Forall_app; split; [exact Hs|constructor; [exact A|constructor]]|].
    split; [exact Hnr|apply Forall_app; split; [exact Hns|constructor; [exact S|constructor]]].
  - destruct (existsb (same_rec r) (m_rrs g)); intros X; inversion X; subst; [exists f; repeat split; assumption|].
    destruct (m_rrs g) as [|f0 rr] eqn:Rr.
    + (* a signature-only group gets its RRset: the head becomes the new record *)
      exists r. unfold head in *. simpl. rewrite Rr in Hh.
      assert (Sw : forall x, agrees f x -> agrees r x).
      { intros x (X1 & X2 & X3). destruct A as (A1 & A2 & A3). repeat split; try congruence.
        apply name_eqb_spec. apply name_eqb_spec in X1, A1. congruence. }
      split; [reflexivity|]. split; [constructor; [apply agrees_refl|constructor]|].
      split; [eapply Forall_impl; [exact Sw|exact Hs]|]. split; [constructor; [exact S|constructor]|exact Hns].
    + exists f. unfold head in *. cbn [m_rrs m_sigs]. rewrite Rr in Hh.
      split; [exact Hh|]. split; [apply Forall_app; split; [exact Hr|constructor; [exact A|constructor]]|].
      split; [exact Hs|]. split; [apply Forall_app; split; [exact Hnr|constructor; [exact S|constructor]]|exact Hns].
Qed.

Lemma try_groups_ok gs r gs' : Forall group_ok gs -> try_groups gs r = Some gs' -> Forall group_ok gs'.
Proof.
  revert gs'. induction gs as [|g gs IH]; intros gs' H; simpl; [discriminate|].
  inversion H as [|? ? Hg Hgs]; subst.
  destruct (group_add g r) as [g'|] eqn:A.
  - intros X. inversion X. constructor; [eapply group_add_ok; eassumption|exact Hgs].
  - destruct (try_groups gs r) as [bs|] eqn:T; simpl; [|discriminate].
    intros X. inversion X. constructor; [exact Hg|apply IH; [exact Hgs|reflexivity]].
Qed.

Lemma groupset_add_ok gs r : Forall group_ok gs -> Forall group_ok (groupset_add gs r).
Proof.
  intros H. unfold groupset_add.
  assert (Hr : Forall group_ok (rev gs)) by (apply Forall_rev; exact H).
  destruct (rev gs) as [|last before] eqn:R.
  - constructor; [apply group_new_ok|constructor].
  - inversion Hr as [|? ? Hl Hb]; subst.
    assert (Hb' : Forall group_ok (rev before)) by (apply Forall_rev; exact Hb).
    destruct (group_add last r) as [l'|] eqn:A.
    + apply Forall_app. split; [exact Hb'|constructor; [eapply group_add_ok; eassumption|constructor]].
    + destruct (try_groups (rev before) r) as [bs|] eqn:T.
      * apply Forall_app. split; [eapply try_groups_ok; eassumption|constructor; [exact Hl|constructor]].
      * apply Forall_app. split; [exact H|constructor; [apply group_new_ok|constructor]].
Qed.

(* whatever the section contains and in whatever order: in every group every RRSIG has the
   owner (ignoring case) and class of the group's records and covers exactly their type *)
Theorem signature_attached_only_to_covered_rrset rs g s :
  In g (groupset_of rs) -> In s (m_sigs g) ->
  r_is_sig s = true /\
  forall r, In r (m_rrs g) -> r_is_sig r = false /\ name_eqb (r_owner r) (r_owner s) = true /\
                              r_class r = r_class s /\ r_type r = r_type s.
Proof.
  assert (Hall : Forall group_ok (groupset_of rs)).
  { unfold groupset_of. generalize (Forall_nil group_ok). generalize (@nil mgroup).
    induction rs as [|r rs IH]; intros gs H; simpl; [exact H|]. apply IH, groupset_add_ok, H. }
  intros Ig Is. rewrite Forall_forall in Hall. destruct (Hall g Ig) as (f & _ & Hr & Hs & Hnr & Hns).
  rewrite Forall_forall in Hr, Hs, Hnr, Hns. split; [apply Hns, Is|].
  intros r Ir. destruct (Hr r Ir) as (R1 & R2 & R3). destruct (Hs s Is) as (S1 & S2 & S3).
  split; [apply Hnr, Ir|]. split; [|split; congruence].
  apply name_eqb_spec. apply name_eqb_spec in R1, S1. congruence.
Qed.

Example groups_ex :
  let a o := mkR o 1 false 1 7 in let sa o := mkR o 1 true 1 9 in let st o := mkR o 1 true 16 9 in
  (* RRSIG(TXT) between A and RRSIG(A): its own group; the A RRSIG joins the A RRset *)
  groupset_of [a [[119]]; st [[119]]; sa [[87]]] = [mkMG [a [[119]]] [sa [[87]]]; mkMG [] [st [[119]]]].
Proof. vm_compute. reflexivity. Qed.
