(* C14 model, the node cache path: context.rs get_node / find_closest_node /
   cache_lookup.  Which node answers for a name: the exact cached node if still
   usable, the trust anchor's node for the anchor itself, otherwise the closest
   enclosing usable cached node (or the anchor), from which child nodes are
   created name by name while they are secure.  Creating a child node
   (create_child_node, modelled in ModelChain / ModelDs) and the anchor node are
   Section parameters; the cache is a list, newest entry first. *)
From Coq Require Import NArith List Bool.
Import ListNotations.
From DV Require Import Base.Outcome Base.Bytes Base.Lex Base.Names.
From DV Require Import C17.Model C14.Gen C14.Model C14.ModelNode.
Local Open Scope N_scope.

Record cnode := mkCN { cn_state : vstate; cn_intermediate : bool; cn_created : N; cn_valid_for : N }.
Definition cache := list (name * cnode).

Fixpoint cache_get (c : cache) (n : name) : option cnode :=
  match c with [] => None | (k, v) :: r => if name_eqb k n then Some v else cache_get r n end.
Definition cache_lookup (now : N) (c : cache) (n : name) : option cnode :=
  match cache_get c n with
  | Some nd => if node_usable (cn_created nd) (cn_valid_for nd) now then Some nd else None
  | None => None
  end.

Section Cache.
Variable now : N.
Variable ta_owner : name.
Variable ta_node : cnode.                       (* Node::trust_anchor *)
Variable mk_child : name -> cnode -> cnode.     (* create_child_node name signer_node *)

(* the result of a lookup step: the zone name the node stands for, the node, whether it came
   from the cache, the names still to create, the cache *)
Fixpoint find_closest (c : cache) (curr : name) (names : list name)
  : outcome (name * cnode * bool * list name * cache) :=
  if name_eqb ta_owner curr then Ok (curr, ta_node, false, names, (curr, ta_node) :: c)
  else
    match (match cache_lookup now c curr with
           | Some nd => if closest_skips_intermediate && cn_intermediate nd then None else Some nd
           | None => None end) with
    | Some nd => Ok (curr, nd, true, names, c)
    | None =>
        match curr with
        | [] => Panic 4                          (* expect("curr has to be a decendent of ta_owner") *)
        | _ :: p => find_closest c p (curr :: names)
        end
    end.

(* the calls of create_child_node made on the way down: (name, signer node) *)
Fixpoint walk_down (zone : name) (node signer : cnode) (names : list name) (c : cache) (calls : list (name * cnode))
  : name * cnode * cache * list (name * cnode) :=
  match cn_state node with
  | Secure =>
      match names with
      | [] => (zone, node, c, calls)
      | child :: rest =>
          let nd := mk_child child signer in
          let signer' := if cn_intermediate nd then signer else nd in
          let c' := (child, nd) :: c in
          let calls' := calls ++ [(child, signer)] in
          match rest with
          | [] => (child, nd, c', calls')
          | _ => walk_down child nd signer' rest c' calls'
          end
      end
  | _ => (zone, node, c, calls)
  end.

Record lookup := mkL { l_zone : name; l_node : cnode; l_from_cache : bool; l_cache : cache; l_calls : list (name * cnode) }.

Definition get_node (c : cache) (n : name) : outcome lookup :=
  match cache_lookup now c n with
  | Some nd => Ok (mkL n nd true c [])
  | None =>
      if name_eqb ta_owner n then Ok (mkL n ta_node false ((n, ta_node) :: c) [])
      else
        match n with
        | [] => Panic 4                          (* name.parent().expect(...) *)
        | _ :: p =>
            do r <- find_closest c p [n];
            let '(z, nd, fromc, names, c1) := r in
            let '(z', nd', c2, calls) := walk_down z nd nd names c1 [] in
            Ok (mkL z' nd' (fromc && match calls with [] => true | _ => false end) c2 calls)
        end
  end.
End Cache.
