(* C14 model, grouping: dnssec/validator/group.rs Group::new / Group::add / GroupSet::add -
   how the records of a section become RRsets with their RRSIGs.  A record is abstracted
   to owner, class, whether it is an RRSIG, its type (for an RRSIG: the type covered)
   and an identity of its RDATA (duplicates are dropped). *)
From Coq Require Import NArith List Bool.
Import ListNotations.
From DV Require Import Base.Outcome Base.Bytes Base.Lex Base.Names C14.Gen C14.Model.
Local Open Scope N_scope.

Record grec := mkR { r_owner : name; r_class : N; r_is_sig : bool; r_type : N; r_id : N }.
Record mgroup := mkMG { m_rrs : list grec; m_sigs : list grec }.

Definition same_rec (a b : grec) : bool :=
  name_eqb (r_owner a) (r_owner b) && (r_class a =? r_class b) && (r_id a =? r_id b).

Definition group_new (r : grec) : mgroup :=
  if r_is_sig r then mkMG [] [r] else mkMG [r] [].

(* Group::add: None = Err(()) *)
Definition group_add (g : mgroup) (r : grec) : option mgroup :=
  match (match m_rrs g with f :: _ => Some f | [] => match m_sigs g with f :: _ => Some f | [] => None end end) with
  | None => None                                  (* cannot happen: a group is never empty *)
  | Some f =>
      if negb (name_eqb (r_owner f) (r_owner r)) then None
      else
        let curr_class := r_class f in
        let curr_type := r_type f in            (* rtype of the RRset, or the type covered of the first RRSIG *)
        if negb ((curr_class =? r_class r) && (curr_type =? r_type r)) then None
        else if r_is_sig r then
          if existsb (same_rec r) (m_sigs g) then Some g else Some (mkMG (m_rrs g) (m_sigs g ++ [r]))
        else
          if existsb (same_rec r) (m_rrs g) then Some g else Some (mkMG (m_rrs g ++ [r]) (m_sigs g))
  end.

Fixpoint try_groups (gs : list mgroup) (r : grec) : option (list mgroup) :=
  match gs with
  | [] => None
  | g :: rest =>
      match group_add g r with
      | Some g' => Some (g' :: rest)
      | None => option_map (cons g) (try_groups rest r)
      end
  end.

(* GroupSet::add: the last group first, then the others in order, else a new group *)
Definition groupset_add (gs : list mgroup) (r : grec) : list mgroup :=
  match rev gs with
  | [] => [group_new r]
  | last :: before_rev =>
      match group_add last r with
      | Some last' => rev before_rev ++ [last']
      | None =>
          match try_groups (rev before_rev) r with
          | Some bs => bs ++ [last]
          | None => gs ++ [group_new r]
          end
      end
  end.

Definition groupset_of (rs : list grec) : list mgroup := fold_left groupset_add rs [].
