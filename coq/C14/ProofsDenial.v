(* C14 proofs, part 2: closest encloser, get_checked_nsec, soundness and
   totality of the NSEC denial helpers. *)
From Coq Require Import NArith List Bool Lia PeanoNat.
Import ListNotations.
From DV Require Import Base.Outcome Base.Bytes Base.Lex Base.Names.
From DV Require Import C17.Model C18.Model C14.Gen C14.Model C14.Proofs.
Local Open Scope N_scope.

(* ------------------------------------------------------------ suffixes *)
Definition suffix_of (s n : name) : Prop := exists p, n = p ++ s.

Lemma ends_with_root t : ends_with t [] = true.
Proof. reflexivity. Qed.

Lemma first_suffix_is_suffix t n : suffix_of (first_suffix t n) n.
Proof.
  induction n as [|l n IH]; simpl.
  - exists []. reflexivity.
  - destruct (ends_with t (l :: n)).
    + exists []. reflexivity.
    + destruct IH as [p Hp]. exists (l :: p). simpl. f_equal. exact Hp.
Qed.

Lemma first_suffix_ends t n : ends_with t (first_suffix t n) = true.
Proof.
  induction n as [|l n IH]; simpl; [reflexivity|].
  destruct (ends_with t (l :: n)) eqn:E; assumption.
Qed.

Lemma suffix_of_cons s l n : suffix_of s (l :: n) -> s = l :: n \/ suffix_of s n.
Proof.
  intros [p Hp]. destruct p as [|x p]; simpl in Hp.
  - left. symmetry. exact Hp.
  - right. injection Hp as _ Hp. exists p. exact Hp.
Qed.

Lemma suffix_of_length s n : suffix_of s n -> (length s <= length n)%nat.
Proof. intros [p ->]. rewrite app_length. lia. Qed.

Lemma first_suffix_longest t n s :
  suffix_of s n -> ends_with t s = true -> (length s <= length (first_suffix t n))%nat.
Proof.
  induction n as [|l n IH]; simpl; intros Hs He.
  - destruct Hs as [p Hp]. destruct p, s; simpl in *; try discriminate; lia.
  - destruct (ends_with t (l :: n)) eqn:E.
    + apply suffix_of_length in Hs. exact Hs.
    + apply suffix_of_cons in Hs as [->|Hs]; [congruence|]. apply IH; assumption.
Qed.

(* nsec_closest_encloser returns a suffix of owner or next that target ends
   with, and no longer such suffix exists *)
Theorem closest_encloser_spec t o n :
  let ce := nsec_closest_encloser t o n in
  ends_with t ce = true /\ (suffix_of ce o \/ suffix_of ce n) /\
  forall s, suffix_of s o \/ suffix_of s n -> ends_with t s = true -> (length s <= length ce)%nat.
Proof.
  unfold nsec_closest_encloser.
  pose proof (first_suffix_longest t o) as Lo. pose proof (first_suffix_longest t n) as Ln.
  destruct (Nat.ltb_spec (length (first_suffix t n)) (length (first_suffix t o))) as [H|H]; cbn zeta.
  - split; [apply first_suffix_ends|]. split; [left; apply first_suffix_is_suffix|].
    intros s [Hs|Hs] He; [apply Lo; assumption|]. specialize (Ln s Hs He). lia.
  - split; [apply first_suffix_ends|]. split; [right; apply first_suffix_is_suffix|].
    intros s [Hs|Hs] He; [|apply Ln; assumption]. specialize (Lo s Hs He). lia.
Qed.

Example closest_encloser_ex :
  (* target x.y.ex, NSEC a.ex -> y.ex? no: owner b.y.ex, next z.ex: closest encloser y.ex *)
  nsec_closest_encloser [[120];[121];[101;120]] [[98];[121];[101;120]] [[122];[101;120]] = [[121];[101;120]] /\
  nsec_closest_encloser [[120]] [[97]] [[122]] = [].
Proof. vm_compute. split; reflexivity. Qed.

(* ------------------------------------------------------------ get_checked_nsec *)
Definition usable (g : vgroup) (signer : name) : Prop :=
  g_rtype g = rt_NSEC /\ g_nrr g = 1 /\ g_secure g = true /\ name_eqb (g_signer g) signer = true /\
  match g_ce g with
  | None => True
  | Some ce => exists star, star_name ce = Some star /\ name_eqb (g_owner g) star = true
  end.

Definition wf_group (g : vgroup) : Prop := g_rtype g = rt_NSEC -> g_nrr g = 1 -> g_is_nsec g = true.

Lemma get_checked_usable g s e : get_checked_nsec g s = Ok (true, e) -> usable g s /\ e = 0.
Proof.
  unfold get_checked_nsec, usable.
  destruct (N.eqb_spec (g_rtype g) rt_NSEC) as [Hr|Hr]; cbn [negb]; [|intros H; inversion H].
  destruct (N.eqb_spec (g_nrr g) 1) as [Hn|Hn]; cbn [negb]; [|intros H; inversion H].
  destruct (g_is_nsec g); cbn [negb]; [|intros H; inversion H].
  destruct (g_secure g); cbn [negb]; [|intros H; inversion H].
  destruct (name_eqb (g_signer g) s); cbn [negb]; [|intros H; inversion H].
  destruct (g_ce g) as [ce|].
  - destruct (star_name ce) as [star|]; [|intros H; inversion H].
    destruct (name_eqb (g_owner g) star) eqn:E; intros H; inversion H. subst.
    repeat split; try assumption. exists star. split; [reflexivity|assumption].
  - intros H; inversion H. repeat split; assumption.
Qed.

Lemma get_checked_total g s : wf_group g -> exists u e, get_checked_nsec g s = Ok (u, e).
Proof.
  unfold get_checked_nsec, wf_group. intros W.
  destruct (N.eqb_spec (g_rtype g) rt_NSEC) as [Hr|Hr]; cbn [negb]; [|eauto].
  destruct (N.eqb_spec (g_nrr g) 1) as [Hn|Hn]; cbn [negb]; [|eauto].
  rewrite (W Hr Hn). cbn [negb].
  destruct (g_secure g); cbn [negb]; [|eauto].
  destruct (name_eqb (g_signer g) s); cbn [negb]; [|eauto].
  destruct (g_ce g) as [ce|]; [|eauto].
  destruct (star_name ce) as [star|]; [|eauto].
  destruct (name_eqb (g_owner g) star); eauto.
Qed.

(* a non-secure group, a group of another signer, a wildcard-expanded NSEC is never used *)
Lemma get_checked_rejects g s u e :
  get_checked_nsec g s = Ok (u, e) ->
  (g_secure g = false \/ name_eqb (g_signer g) s = false \/ g_rtype g <> rt_NSEC \/ g_nrr g <> 1) -> u = false.
Proof.
  intros H R. destruct u; [|reflexivity]. apply get_checked_usable in H as [(H1 & H2 & H3 & H4 & _) _].
  destruct R as [R|[R|[R|R]]]; congruence.
Qed.

(* ------------------------------------------------------------ NODATA (RFC 4035 5.4) *)
Definition nodata_proof (target : name) (rtype : N) (g : vgroup) : Prop :=
  (name_eqb target (g_owner g) = true /\ has rtype g = false /\ has rt_CNAME g = false /\
   (if (rtype =? rt_DS) && negb (is_root target)
    then has rt_NS g && has rt_SOA g = false           (* DS: not the child-side (apex) NSEC *)
    else has rt_NS g && negb (has rt_SOA g) = false))  (* otherwise: not the parent-side NSEC of a delegation *)
  \/
  (name_eqb target (g_owner g) = false /\ nsec_in_range target (g_owner g) (g_next g) = true /\
   ends_with (g_next g) target = true).                (* empty non-terminal *)

Lemma nodata_loop_sound t rt s gs : forall ede e,
  nodata_loop t rt s gs ede = Ok (NoData, e) ->
  e = 0 /\ exists g, In g gs /\ usable g s /\ nodata_proof t rt g.
Proof.
  induction gs as [|g gs IH]; intros ede e H; simpl in H; [inversion H|].
  destruct (get_checked_nsec g s) as [[u ne]| | |] eqn:C; simpl in H; try discriminate.
  destruct u; cbn [negb] in H.
  - apply get_checked_usable in C as [U _].
    destruct (name_eqb t (g_owner g)) eqn:Eo.
    + destruct (has rt g || has rt_CNAME g) eqn:Eb; [inversion H|].
      apply orb_false_iff in Eb as [Eb1 Eb2].
      destruct ((rt =? rt_DS) && negb (is_root t)) eqn:Ed.
      * destruct (has rt_NS g && has rt_SOA g) eqn:En; inversion H.
        split; [reflexivity|]. exists g. split; [left; reflexivity|]. split; [exact U|].
        left. rewrite Ed. auto.
      * destruct (has rt_NS g && negb (has rt_SOA g)) eqn:En; inversion H.
        split; [reflexivity|]. exists g. split; [left; reflexivity|]. split; [exact U|].
        left. rewrite Ed. auto.
    + destruct (nsec_in_range t (g_owner g) (g_next g) && ends_with (g_next g) t) eqn:Er.
      * inversion H. apply andb_true_iff in Er as [Er1 Er2].
        split; [reflexivity|]. exists g. split; [left; reflexivity|]. split; [exact U|]. right. auto.
      * apply IH in H as [He [g' (Hi & Hu & Hp)]]. split; [exact He|]. exists g'. split; [right; exact Hi|]. auto.
  - apply IH in H as [He [g' (Hi & Hu & Hp)]]. split; [exact He|]. exists g'. split; [right; exact Hi|]. auto.
Qed.

Theorem nodata_sound t gs rt s e :
  nsec_for_nodata t gs rt s = Ok (NoData, e) ->
  e = 0 /\ exists g, In g gs /\ usable g s /\ nodata_proof t rt g.
Proof. apply nodata_loop_sound. Qed.

(* ------------------------------------------------------------ non-existence *)
Definition covers (target : name) (g : vgroup) : Prop :=
  name_eqb target (g_owner g) = false /\
  nsec_in_range target (g_owner g) (g_next g) = true /\
  ends_with (g_next g) target = false /\                        (* not an empty non-terminal *)
  (ends_with target (g_owner g) = true ->                       (* owner is an ancestor of target: *)
     has rt_DNAME g = false /\ (has rt_NS g = true -> has rt_SOA g = true)).  (* no DNAME, no delegation *)

Lemma not_exists_loop_sound t s gs : forall ede ce e,
  not_exists_loop t s gs ede = Ok (NxDoesNotExist ce, e) ->
  e = 0 /\ exists g, In g gs /\ usable g s /\ covers t g /\
                     ce = nsec_closest_encloser t (g_owner g) (g_next g).
Proof.
  induction gs as [|g gs IH]; intros ede ce e H; simpl in H; [inversion H|].
  destruct (get_checked_nsec g s) as [[u ne]| | |] eqn:C; simpl in H; try discriminate.
  destruct u; cbn [negb] in H.
  - apply get_checked_usable in C as [U _].
    destruct (name_eqb t (g_owner g)) eqn:Eo; [inversion H|].
    destruct (nsec_in_range t (g_owner g) (g_next g)) eqn:Er; cbn [negb] in H.
    + destruct (ends_with (g_next g) t) eqn:Ee; [inversion H|].
      destruct (ends_with t (g_owner g) && (has rt_DNAME g || has rt_NS g && negb (has rt_SOA g))) eqn:Ed; inversion H.
      split; [reflexivity|]. exists g. split; [left; reflexivity|]. split; [exact U|].
      split; [|reflexivity]. unfold covers.
      split; [assumption|]. split; [assumption|]. split; [assumption|].
      intros Hw. rewrite Hw in Ed. cbn [andb] in Ed. apply orb_false_iff in Ed as [Ed1 Ed2].
      split; [exact Ed1|]. intros Hns. rewrite Hns in Ed2. cbn [andb] in Ed2.
      destruct (has rt_SOA g); [reflexivity|discriminate].
    + apply IH in H as [He [g' (Hi & Hu & Hp)]]. split; [exact He|]. exists g'. split; [right; exact Hi|]. auto.
  - apply IH in H as [He [g' (Hi & Hu & Hp)]]. split; [exact He|]. exists g'. split; [right; exact Hi|]. auto.
Qed.

Theorem not_exists_sound t gs s ce e :
  nsec_for_not_exists t gs s = Ok (NxDoesNotExist ce, e) ->
  e = 0 /\ exists g, In g gs /\ usable g s /\ covers t g /\
                     ce = nsec_closest_encloser t (g_owner g) (g_next g).
Proof. apply not_exists_loop_sound. Qed.

(* name error: a usable NSEC covering the name and one covering the wildcard
   at the closest encloser computed from the first *)
Theorem nxdomain_sound t gs s ce' e :
  nsec_for_nxdomain t gs s = Ok (NxDoesNotExist ce', e) ->
  exists g1 g2 ce star,
    In g1 gs /\ In g2 gs /\ usable g1 s /\ usable g2 s /\
    covers t g1 /\ ce = nsec_closest_encloser t (g_owner g1) (g_next g1) /\
    star_name ce = Some star /\ star = star_label :: ce /\ covers star g2.
Proof.
  unfold nsec_for_nxdomain. intros H.
  destruct (nsec_for_not_exists t gs s) as [[st e1]| | |] eqn:E1; simpl in H; try discriminate.
  destruct st as [|ce|]; try (inversion H; fail).
  apply not_exists_sound in E1 as [_ [g1 (I1 & U1 & C1 & Hce)]].
  destruct (star_name ce) as [star|] eqn:Es; [|inversion H].
  apply not_exists_sound in H as [_ [g2 (I2 & U2 & C2 & _)]].
  assert (Hs : star = star_label :: ce).
  { unfold star_name in Es. destruct (Nat.leb (wire_len ce) 252); inversion Es. reflexivity. }
  exists g1, g2, ce, star.
  split; [exact I1|]. split; [exact I2|]. split; [exact U1|]. split; [exact U2|].
  split; [exact C1|]. split; [exact Hce|]. split; [exact Es|]. split; [exact Hs|exact C2].
Qed.

(* NODATA through a wildcard: the name is covered, and the wildcard at the
   closest encloser has a NODATA proof *)
Theorem nodata_wildcard_sound t gs rt s e :
  nsec_for_nodata_wildcard t gs rt s = Ok (NoData, e) ->
  exists g1 g2 ce star,
    In g1 gs /\ In g2 gs /\ usable g1 s /\ usable g2 s /\
    covers t g1 /\ ce = nsec_closest_encloser t (g_owner g1) (g_next g1) /\
    star_name ce = Some star /\ nodata_proof star rt g2.
Proof.
  unfold nsec_for_nodata_wildcard. intros H.
  destruct (nsec_for_not_exists t gs s) as [[st e1]| | |] eqn:E1; simpl in H; try discriminate.
  destruct st as [|ce|]; try (inversion H; fail).
  apply not_exists_sound in E1 as [_ [g1 (I1 & U1 & C1 & Hce)]].
  destruct (star_name ce) as [star|] eqn:Es; [|inversion H].
  apply nodata_sound in H as [_ [g2 (I2 & U2 & P2)]].
  exists g1, g2, ce, star.
  split; [exact I1|]. split; [exact I2|]. split; [exact U1|]. split; [exact U2|].
  split; [exact C1|]. split; [exact Hce|]. split; [exact Es|exact P2].
Qed.

(* an NSEC with NS but no SOA (the parent side of a delegation) or with DNAME
   never proves the non-existence of a name below its owner *)
Theorem delegation_nsec_never_denies t gs s ce e g :
  nsec_for_not_exists t gs s = Ok (NxDoesNotExist ce, e) ->
  In g gs -> usable g s -> wf_group g ->
  (forall g', In g' gs -> g' = g) ->          (* the only group offered *)
  ends_with t (g_owner g) = true ->
  has rt_DNAME g = false /\ (has rt_NS g = true -> has rt_SOA g = true).
Proof.
  intros H Hi Hu Hw Hall Hb.
  apply not_exists_sound in H as [_ [g' (I' & _ & (_ & _ & _ & C) & _)]].
  rewrite (Hall g' I') in C. apply C. exact Hb.
Qed.

(* ------------------------------------------------------------ totality *)
Lemma nodata_loop_total t rt s gs : Forall wf_group gs -> forall ede, no_panic (nodata_loop t rt s gs ede).
Proof.
  induction 1 as [|g gs W _ IH]; intros ede; simpl; [exact I|].
  destruct (get_checked_total g s W) as (u & e & ->). simpl.
  destruct u; cbn [negb]; [|apply IH].
  destruct (name_eqb t (g_owner g)).
  - destruct (has rt g || has rt_CNAME g); [exact I|].
    destruct ((rt =? rt_DS) && negb (is_root t)).
    + destruct (has rt_NS g && has rt_SOA g); exact I.
    + destruct (has rt_NS g && negb (has rt_SOA g)); exact I.
  - destruct (nsec_in_range t (g_owner g) (g_next g) && ends_with (g_next g) t); [exact I|apply IH].
Qed.

Lemma not_exists_loop_total t s gs : Forall wf_group gs -> forall ede, no_panic (not_exists_loop t s gs ede).
Proof.
  induction 1 as [|g gs W _ IH]; intros ede; simpl; [exact I|].
  destruct (get_checked_total g s W) as (u & e & ->). simpl.
  destruct u; cbn [negb]; [|apply IH].
  destruct (name_eqb t (g_owner g)); [exact I|].
  destruct (nsec_in_range t (g_owner g) (g_next g)); cbn [negb]; [|apply IH].
  destruct (ends_with (g_next g) t); [exact I|].
  destruct (ends_with t (g_owner g) && (has rt_DNAME g || has rt_NS g && negb (has rt_SOA g))); exact I.
Qed.

Theorem helpers_total t gs rt s : Forall wf_group gs ->
  no_panic (nsec_for_nodata t gs rt s) /\ no_panic (nsec_for_not_exists t gs s) /\
  no_panic (nsec_for_nxdomain t gs s) /\ no_panic (nsec_for_nodata_wildcard t gs rt s).
Proof.
  intros W.
  assert (N1 : forall t, no_panic (nsec_for_not_exists t gs s)) by (intros; apply not_exists_loop_total; exact W).
  assert (N2 : forall t, no_panic (nsec_for_nodata t gs rt s)) by (intros; apply nodata_loop_total; exact W).
  split; [apply N2|]. split; [apply N1|]. split.
  - unfold nsec_for_nxdomain. apply bind_no_panic; [apply N1|].
    intros [[|ce|] e] _; try exact I. destruct (star_name ce); [apply N1|exact I].
  - unfold nsec_for_nodata_wildcard. apply bind_no_panic; [apply N1|].
    intros [[|ce|] e] _; try exact I. destruct (star_name ce); [apply N2|exact I].
Qed.

(* the only panic of these helpers is the unreachable "NSEC expected" *)
Lemma get_checked_panic_iff g s :
  (exists p, get_checked_nsec g s = Panic p) <-> (g_rtype g = rt_NSEC /\ g_nrr g = 1 /\ g_is_nsec g = false).
Proof.
  unfold get_checked_nsec.
  destruct (N.eqb_spec (g_rtype g) rt_NSEC) as [Hr|Hr]; cbn [negb].
  2:{ split; [intros [p H]; inversion H|intros (H & _); congruence]. }
  destruct (N.eqb_spec (g_nrr g) 1) as [Hn|Hn]; cbn [negb].
  2:{ split; [intros [p H]; inversion H|intros (_ & H & _); congruence]. }
  destruct (g_is_nsec g); cbn [negb].
  2:{ split; [auto|eauto]. }
  split; [|intros (_ & _ & H); discriminate].
  intros [p H].
  destruct (g_secure g); cbn [negb] in H; [|inversion H].
  destruct (name_eqb (g_signer g) s); cbn [negb] in H; [|inversion H].
  destruct (g_ce g) as [ce|]; [|inversion H].
  destruct (star_name ce) as [star|]; [|inversion H].
  destruct (name_eqb (g_owner g) star); inversion H.
Qed.

(* non-vacuity: a NODATA proof, a name error proof, and a delegation NSEC that is refused *)
Definition ex_zone : name := [[101;120]].
Definition ex_g (o nx : name) (ts : list N) : vgroup := mkG rt_NSEC 1 true o nx ts true ex_zone None.
Example denial_examples :
  nsec_for_nodata [[97];[101;120]] [ex_g [[97];[101;120]] [[99];[101;120]] [1;46;47]] 28 ex_zone = Ok (NoData, 0) /\
  nsec_for_nodata [[97];[101;120]] [ex_g [[97];[101;120]] [[99];[101;120]] [1;46;47]] 1 ex_zone = Ok (NNothing, 1) /\
  nsec_for_nxdomain [[98];[101;120]]
    [ex_g [[97];[101;120]] [[99];[101;120]] [1;46;47]; ex_g [[101;120]] [[97];[101;120]] [2;6;46;47;48]] ex_zone
    = Ok (NxDoesNotExist [[101;120]], 0) /\
  (* b.a.ex below the delegation a.ex: the parent-side NSEC cannot deny it *)
  nsec_for_not_exists [[98];[97];[101;120]] [ex_g [[97];[101;120]] [[99];[101;120]] [2;46;47]] ex_zone = Ok (NxExists, 7) /\
  (* a wildcard-expanded NSEC is ignored *)
  nsec_for_nodata [[97];[101;120]]
    [mkG rt_NSEC 1 true [[97];[101;120]] [[99];[101;120]] [1;46;47] true ex_zone (Some ex_zone)] 28 ex_zone = Ok (NNothing, 8).
Proof. vm_compute. repeat split. Qed.
