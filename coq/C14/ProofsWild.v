(* C14 proofs, part 9: a wildcard-expanded answer is secure only with a proof that
   the queried name itself does not exist (RFC 4035 5.3.4, RFC 5155 8.8). *)
From Coq Require Import NArith List Bool Lia PeanoNat.
Import ListNotations.
From DV Require Import Base.Outcome Base.Bytes Base.Lex Base.Names.
From DV Require Import C18.Model C14.Gen C14.Model C14.ModelN3 C14.ModelWild C14.Proofs C14.ProofsDenial C14.ProofsN3.
Local Open Scope N_scope.

Section WildP.
Variable H : N -> bytes -> name -> bytes.
Variable ci cb : N.

Lemma child_of_ce_spec t ce c : child_of_ce t ce = Some c ->
  length c = S (length ce) /\ suffix_of c t.
Proof.
  unfold child_of_ce. destruct (Nat.ltb_spec (length ce) (length t)) as [L|L]; [|discriminate].
  intros X. inversion X. split.
  - rewrite skipn_length. lia.
  - exists (firstn (length t - length ce - 1) t). symmetry. apply firstn_skipn.
Qed.

Theorem wildcard_secure_sound sname signer ce ngs n3gs :
  wildcard_answer_state H ci cb sname Secure signer (Some ce) ngs n3gs = Ok Secure ->
  name_eqb sname (star_label :: ce) = true \/
  (exists g, In g ngs /\ usable g signer /\ covers sname g /\
             name_eqb ce (nsec_closest_encloser sname (g_owner g) (g_next g)) = true) \/
  (exists c g oh, child_of_ce sname ce = Some c /\ In g n3gs /\ usable3 ci cb g signer oh /\
             covers3 H g oh c /\ h_optout g = false).
Proof.
  unfold wildcard_answer_state. destruct (star_name ce) as [star|] eqn:Es; [|discriminate].
  assert (Hs : star = star_label :: ce).
  { unfold star_name in Es. destruct (Nat.leb (wire_len ce) 252); inversion Es. reflexivity. }
  subst star. destruct (name_eqb sname (star_label :: ce)) eqn:E; [intros _; left; reflexivity|].
  unfold check_not_exists_for_wildcard.
  destruct (nsec_for_not_exists sname ngs signer) as [[nx e]| | |] eqn:N1; simpl; try discriminate.
  destruct nx as [|ce'|].
  - simpl. discriminate.
  - destruct (name_eqb ce ce') eqn:Ec; simpl; [|discriminate].
    intros _. right. left. apply not_exists_sound in N1 as (_ & g & I0 & U & C & Hce).
    exists g. split; [exact I0|]. split; [exact U|]. split; [exact C|]. rewrite <- Hce. exact Ec.
  - destruct (child_of_ce sname ce) as [c|] eqn:Cc; [|simpl; discriminate].
    destruct (nsec3_for_not_exists_no_ce H ci cb c n3gs signer) as [[r2 e2]| | |] eqn:N3; simpl; try discriminate.
    pose proof (no_ce_sound H ci cb c n3gs signer r2 e2 N3) as Q.
    destruct r2; simpl; try discriminate.
    intros _. right. right. destruct Q as (g & oh & I0 & U & R & O). exists c, g, oh.
    split; [reflexivity|]. split; [exact I0|]. split; [exact U|]. split; [exact R|exact O].
Qed.

(* the panic of get_child_of_ce needs a closest encloser that is not a proper suffix-length of the name;
   wildcard_closest_encloser never produces one for the group's own owner *)
Theorem wildcard_answer_total sname st signer oce ngs n3gs :
  Forall wf_group ngs -> label_to_hash_expects = false ->
  (forall ce, oce = Some ce -> (length ce < length sname)%nat) ->
  no_panic (wildcard_answer_state H ci cb sname st signer oce ngs n3gs).
Proof.
  intros W X L. unfold wildcard_answer_state. destruct st; try exact I.
  destruct oce as [ce|]; [|exact I]. destruct (star_name ce); [|exact I].
  destruct (name_eqb sname _); [exact I|].
  apply bind_no_panic.
  - unfold check_not_exists_for_wildcard. apply bind_no_panic; [apply not_exists_loop_total, W|].
    intros [[|ce'|] e] _; [exact I|destruct (name_eqb ce ce'); exact I|].
    unfold child_of_ce. specialize (L ce eq_refl). destruct (Nat.ltb_spec (length ce) (length sname)); [|lia].
    apply bind_no_panic; [apply no_ce_total, X|]. intros [[| | |] e2] _; exact I.
  - intros [ok s] _. destruct ok; exact I.
Qed.
End WildP.
