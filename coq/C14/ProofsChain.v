(* C14 proofs, part 6: a delegation with DS records is secure only through a
   key that a DS record vouches for. *)
From Coq Require Import NArith List Bool Lia.
Import ListNotations.
From DV Require Import Base.Outcome Base.Bytes Base.Lex C14.Gen C14.Model C14.ModelN3 C14.ModelChain C14.ProofsN3.
Local Open Scope N_scope.

Section ChainP.
Variable dg : dkey -> N -> bytes.
Variable vf : dkey -> ksig -> bool.

Lemma find_key_spec d keys k : find_key_for_ds dg d keys = Some k ->
  In k keys /\ k_alg k = d_alg d /\ k_tag k = d_tag d /\ d_digest d = dg k (d_dt d).
Proof.
  induction keys as [|x keys IH]; simpl; [discriminate|].
  destruct (N.eqb_spec (k_alg x) (d_alg d)); cbn [negb].
  2:{ intros H. destruct (IH H) as (A & B). split; [right; exact A|exact B]. }
  destruct (N.eqb_spec (k_tag x) (d_tag d)); cbn [negb].
  2:{ intros H. destruct (IH H) as (A & B). split; [right; exact A|exact B]. }
  destruct (bytes_eqb (d_digest d) (dg x (d_dt d))) eqn:B.
  - intros H. inversion H. subst. apply bytes_eqb_spec in B. repeat split; auto; left; reflexivity.
  - intros H. destruct (IH H) as (A & B'). split; [right; exact A|exact B'].
Qed.

Lemma try_sigs_true k sigs : forall bad maxbad, try_sigs vf k sigs bad maxbad = inl true ->
  exists s, In s sigs /\ sg_tag s = k_tag k /\ vf k s = true.
Proof.
  induction sigs as [|s sigs IH]; simpl; intros bad maxbad H; [discriminate|].
  destruct (N.eqb_spec (sg_tag s) (k_tag k)); cbn [negb] in H.
  2:{ destruct (IH _ _ H) as (s' & A & B). exists s'. split; [right; exact A|exact B]. }
  destruct (vf k s) eqn:V.
  - exists s. split; [left; reflexivity|]. split; assumption.
  - destruct (maxbad <? bad + 1); [discriminate|].
    destruct (IH _ _ H) as (s' & A & B). exists s'. split; [right; exact A|exact B].
Qed.

Lemma ds_loop_secure dss keys sigs : forall bad maxbad, ds_loop dg vf dss keys sigs bad maxbad = Secure ->
  exists d k s, In d dss /\ ds_supported d = true /\ In k keys /\ In s sigs /\
    k_alg k = d_alg d /\ k_tag k = d_tag d /\ d_digest d = dg k (d_dt d) /\
    sg_tag s = k_tag k /\ vf k s = true.
Proof.
  induction dss as [|d dss IH]; simpl; intros bad maxbad H; [discriminate|].
  assert (Lift : (exists d0 k s, In d0 dss /\ ds_supported d0 = true /\ In k keys /\ In s sigs /\
      k_alg k = d_alg d0 /\ k_tag k = d_tag d0 /\ d_digest d0 = dg k (d_dt d0) /\ sg_tag s = k_tag k /\ vf k s = true) ->
      exists d0 k s, In d0 (d :: dss) /\ ds_supported d0 = true /\ In k keys /\ In s sigs /\
      k_alg k = d_alg d0 /\ k_tag k = d_tag d0 /\ d_digest d0 = dg k (d_dt d0) /\ sg_tag s = k_tag k /\ vf k s = true).
  { intros (d0 & k & s & A & B). exists d0, k, s. split; [right; exact A|exact B]. }
  destruct (ds_supported d) eqn:S; cbn [negb] in H; [|apply Lift, (IH _ _ H)].
  destruct (find_key_for_ds dg d keys) as [k|] eqn:F; [|apply Lift, (IH _ _ H)].
  destruct (try_sigs vf k sigs bad maxbad) as [[|]|bad'] eqn:T; try discriminate.
  - apply find_key_spec in F as (Ik & A & B & D). apply try_sigs_true in T as (s & Is & E & V).
    exists d, k, s. split; [left; reflexivity|]. repeat split; assumption.
  - apply Lift, (IH _ _ H).
Qed.

(* secure_implies_chain: the child zone is secure only if some DS record with a
   supported algorithm and digest matches (algorithm, key tag, digest) a key of
   the DNSKEY RRset, and a signature carrying that key's tag verifies the DNSKEY
   RRset under that very key *)
Theorem secure_implies_chain dss keys sigs maxbad :
  child_node_state dg vf dss keys sigs maxbad = Secure ->
  exists d k s, In d dss /\ ds_supported d = true /\ In k keys /\ In s sigs /\
    k_alg k = d_alg d /\ k_tag k = d_tag d /\ d_digest d = dg k (d_dt d) /\
    sg_tag s = k_tag k /\ vf k s = true.
Proof.
  unfold child_node_state. destruct (existsb ds_supported dss); cbn [negb]; [|discriminate].
  apply ds_loop_secure.
Qed.

Lemma ds_loop_not_insecure dss keys sigs : forall bad maxbad, ds_loop dg vf dss keys sigs bad maxbad <> Insecure.
Proof.
  induction dss as [|d dss IH]; simpl; intros bad maxbad; [discriminate|].
  destruct (negb (ds_supported d)); [apply IH|].
  destruct (find_key_for_ds dg d keys) as [k|]; [|apply IH].
  destruct (try_sigs vf k sigs bad maxbad) as [[|]|]; try discriminate. apply IH.
Qed.

(* insecure exactly when no DS record has a supported algorithm and digest type (RFC 4035 5.2, RFC 6840 5.2) *)
Theorem insecure_iff_no_supported_ds dss keys sigs maxbad :
  child_node_state dg vf dss keys sigs maxbad = Insecure <-> forall d, In d dss -> ds_supported d = false.
Proof.
  unfold child_node_state. destruct (existsb ds_supported dss) eqn:E; cbn [negb].
  - split; [intros H; exfalso; exact (ds_loop_not_insecure _ _ _ _ _ H)|].
    intros H. apply existsb_exists in E as (d & I0 & S). rewrite (H d I0) in S. discriminate.
  - split; [|reflexivity]. intros _ d I0. destruct (ds_supported d) eqn:S; [|reflexivity].
    assert (existsb ds_supported dss = true) by (apply existsb_exists; eauto). congruence.
Qed.
End ChainP.

Example chain_ex :
  let dg := fun (k : dkey) (_ : N) => [k_id k] in
  let vf := fun (k : dkey) (s : ksig) => k_id k =? sg_id s in
  (* DS vouches for key 1; the RRset is signed by key 1 *)
  child_node_state dg vf [mkD 13 100 2 [1]] [mkK 13 100 1; mkK 13 200 2] [mkSg 100 1] 1 = Secure /\
  (* signed only by key 2, which no DS vouches for *)
  child_node_state dg vf [mkD 13 100 2 [1]] [mkK 13 100 1; mkK 13 200 2] [mkSg 200 2] 1 = Bogus /\
  (* an attacker key with the vouched tag but another digest *)
  child_node_state dg vf [mkD 13 100 2 [1]] [mkK 13 100 9] [mkSg 100 9] 1 = Bogus /\
  (* only unsupported DS algorithms: insecure *)
  child_node_state dg vf [mkD 15 100 2 [1]; mkD 13 100 3 [1]] [mkK 13 100 1] [mkSg 100 1] 1 = Insecure /\
  (* two bad signatures with the vouched tag before the good one: bogus (max_bad_signatures = 1) *)
  child_node_state dg vf [mkD 13 100 2 [1]] [mkK 13 100 1] [mkSg 100 7; mkSg 100 8; mkSg 100 1] 1 = Bogus /\
  child_node_state dg vf [mkD 13 100 2 [1]] [mkK 13 100 1] [mkSg 100 7; mkSg 100 1] 1 = Secure.
Proof. vm_compute. repeat split. Qed.
