(* C14 proofs, part 4: nsec3_label_to_hash.  Uses the C18 theorems about
   base32::decode_hex (b32_decode_spec: the decoder never panics and accepts
   exactly unpadded Base32hex, spec_dec32). *)
From Coq Require Import NArith List Bool Lia.
Import ListNotations.
From DV Require Import Base.Outcome Base.Bytes Base.Lex Base.Names.
From DV Require Import C18.Model C18.ProofsDec32 C14.Gen C14.Model.
Local Open Scope N_scope.

(* ------------------------------------------------------------ nsec3_label_to_hash *)
Theorem label_to_hash_ok_iff l h :
  nsec3_label_to_hash l = Ok h <-> exists cs, from_utf8 l = Some cs /\ spec_dec32 cs = Some h.
Proof.
  unfold nsec3_label_to_hash. destruct (from_utf8 l) as [cs|].
  - pose proof (b32_decode_spec cs) as S. destruct (spec_dec32 cs) as [bs|] eqn:E.
    + rewrite S. split.
      * intros H. inversion H. subst. exists cs. auto.
      * intros (cs' & H1 & H2). inversion H1. subst. rewrite H2 in E. injection E as ->. reflexivity.
    + destruct S as [e S]. rewrite S. split.
      * destruct label_to_hash_expects; discriminate.
      * intros (cs' & H1 & H2). inversion H1. subst. rewrite H2 in E. discriminate.
  - split; [discriminate|]. intros (cs & H & _). discriminate.
Qed.

(* as long as the helper `expect`s the decode: it panics exactly on the labels
   that are valid UTF-8 but not unpadded Base32hex *)
Theorem label_to_hash_panic_iff : label_to_hash_expects = true -> forall l,
  nsec3_label_to_hash l = Panic 1 <-> exists cs, from_utf8 l = Some cs /\ spec_dec32 cs = None.
Proof.
  intros X l. unfold nsec3_label_to_hash. rewrite X. destruct (from_utf8 l) as [cs|].
  - pose proof (b32_decode_spec cs) as S. destruct (spec_dec32 cs) as [bs|] eqn:E.
    + rewrite S. split; [discriminate|]. intros (cs' & H1 & H2). inversion H1. subst. rewrite H2 in E. discriminate.
    + destruct S as [e S]. rewrite S. split; [intros _; exists cs; auto|reflexivity].
  - split; [discriminate|]. intros (cs & H & _). discriminate.
Qed.

Theorem label_to_hash_refuted : label_to_hash_expects = true ->
  exists l, valid_label l /\ nsec3_label_to_hash l = Panic 1.
Proof.
  intros X. exists [122; 122; 122; 122]. split.
  - apply valid_labelb_spec. reflexivity.
  - unfold nsec3_label_to_hash. rewrite X. vm_compute. reflexivity.
Qed.

(* once the decode error is mapped into the error type, no label panics *)
Theorem label_to_hash_total : label_to_hash_expects = false -> forall l, no_panic (nsec3_label_to_hash l).
Proof.
  intros X l. unfold nsec3_label_to_hash. rewrite X. destruct (from_utf8 l) as [cs|]; [|exact I].
  pose proof (b32_decode_spec cs) as S. destruct (spec_dec32 cs) as [bs|].
  - rewrite S. exact I.
  - destruct S as [e S]. rewrite S. exact I.
Qed.

(* whatever the switch: the only panic is site 1, and only on non-Base32hex text *)
Theorem label_to_hash_only_panic l p : nsec3_label_to_hash l = Panic p ->
  p = 1 /\ label_to_hash_expects = true /\ exists cs, from_utf8 l = Some cs /\ spec_dec32 cs = None.
Proof.
  unfold nsec3_label_to_hash. destruct (from_utf8 l) as [cs|]; [|discriminate].
  pose proof (b32_decode_spec cs) as S. destruct (spec_dec32 cs) as [bs|] eqn:E.
  - rewrite S. discriminate.
  - destruct S as [e S]. rewrite S. destruct label_to_hash_expects; [|discriminate].
    intros H. inversion H. split; [reflexivity|]. split; [reflexivity|]. exists cs. auto.
Qed.

Example label_to_hash_ex :
  nsec3_label_to_hash [67; 80; 78; 77; 85; 79; 74; 49; 69; 56] = Ok [102; 111; 111; 98; 97; 114] /\
  nsec3_label_to_hash [255; 254] = Err 1 /\
  from_utf8 [195; 169] = Some [233] /\ from_utf8 [192; 128] = None /\ from_utf8 [237; 160; 128] = None /\
  from_utf8 [240; 159; 152; 128] = Some [128512].
Proof. vm_compute. repeat split. Qed.

