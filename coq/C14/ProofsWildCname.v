(* C14 proofs, part 15 (proof-only round): soundness of the positive path including
   wildcard-expanded CNAME steps and wildcard-expanded answers. *)
From Coq Require Import NArith List Bool Lia PeanoNat.
Import ListNotations.
From DV Require Import Base.Outcome Base.Bytes Base.Lex Base.Names.
From DV Require Import C17.Model C18.Model C14.Gen C14.Model C14.ModelN3 C14.ModelWild C14.ModelWildCname.
From DV Require Import C14.Proofs C14.ProofsDenial C14.ProofsSig C14.ProofsN3 C14.ProofsWild.
Local Open Scope N_scope.
Local Opaque answer_init_is_const.

Section WCP.
Variable H : N -> bytes -> name -> bytes.
Variable ci cb : N.
Variable ngs : list vgroup.
Variable n3gs : list n3group.

(* what a secure wildcard check rests on *)
Definition nonexistence_proof (nm signer ce : name) : Prop :=
  (exists g, In g ngs /\ usable g signer /\ covers nm g /\
             name_eqb ce (nsec_closest_encloser nm (g_owner g) (g_next g)) = true) \/
  (exists c g oh, child_of_ce nm ce = Some c /\ In g n3gs /\ usable3 ci cb g signer oh /\
             covers3 H g oh c /\ h_optout g = false).

Lemma wild_check_secure_sound nm signer ce :
  wild_check H ci cb ngs n3gs nm signer ce = Ok (true, Secure) -> nonexistence_proof nm signer ce.
Proof.
  unfold wild_check, check_not_exists_for_wildcard.
  destruct (nsec_for_not_exists nm ngs signer) as [[nx e]| | |] eqn:N1; simpl; try discriminate.
  destruct nx as [|ce'|].
  - discriminate.
  - destruct (name_eqb ce ce') eqn:Ec; [|discriminate]. intros _. left.
    apply not_exists_sound in N1 as (_ & g & I0 & U & C & Hce).
    exists g. split; [exact I0|]. split; [exact U|]. split; [exact C|]. rewrite <- Hce. exact Ec.
  - destruct (child_of_ce nm ce) as [c|] eqn:Cc; [|discriminate].
    destruct (nsec3_for_not_exists_no_ce H ci cb c n3gs signer) as [[r2 e2]| | |] eqn:N3; simpl; try discriminate.
    pose proof (no_ce_sound H ci cb c n3gs signer r2 e2 N3) as Q.
    destruct r2; simpl; try discriminate.
    intros _. right. destruct Q as (g & oh & I0 & U & R & O). exists c, g, oh.
    split; [exact Cc|]. split; [exact I0|]. split; [exact U|]. split; [exact R|exact O].
Qed.

(* one secure step of the chase: a secure CNAME at the name - if expanded from a wildcard, with a secure
   proof that the name itself does not exist - or a secure, non-wildcard DNAME above the name *)
Definition secure_step (nm tgt : name) (gs : list wgroup) : Prop :=
  exists w, In w gs /\ a_state (w_g w) = Secure /\
    ((a_cname (w_g w) = Some tgt /\ name_eqb (a_owner (w_g w)) nm = true /\
      match w_ce w with None => True | Some ce => nonexistence_proof nm (w_signer w) ce end) \/
     (exists dt, a_dname (w_g w) = Some dt /\ a_wild (w_g w) = false /\ map_dname (a_owner (w_g w)) dt nm = Some tgt)).

Lemma find_w_secure nm qt gs tgt :
  cname_find_w H ci cb ngs n3gs nm qt gs = Ok (Some (tgt, Secure)) -> secure_step nm tgt gs.
Proof.
  induction gs as [|w gs IH]; simpl; [discriminate|].
  assert (Lift : cname_find_w H ci cb ngs n3gs nm qt gs = Ok (Some (tgt, Secure)) -> secure_step nm tgt (w :: gs)).
  { intros X. destruct (IH X) as (w0 & I0 & R). exists w0. split; [right; exact I0|exact R]. }
  destruct (negb (a_class_ok (w_g w))); [exact Lift|].
  destruct ((a_rtype (w_g w) =? rt_CNAME) && (a_rtype (w_g w) =? qt)); [exact Lift|].
  destruct (negb (a_nrr (w_g w) =? 1)); [exact Lift|].
  destruct (a_cname (w_g w)) as [t0|] eqn:Cn.
  - destruct (name_eqb (a_owner (w_g w)) nm) eqn:E; cbn [negb]; [|exact Lift].
    destruct (w_ce w) as [ce|] eqn:Ce.
    + destruct (wild_check H ci cb ngs n3gs nm (w_signer w) ce) as [[ok s]| | |] eqn:Ck; simpl; try discriminate.
      destruct ok; [|discriminate]. intros X. inversion X as [[X1 X2]]. subst t0.
      apply map_maybe_secure_secure in X2 as [Sg Ss]. subst s.
      exists w. split; [left; reflexivity|]. split; [exact Sg|]. left. split; [exact Cn|]. split; [exact E|].
      rewrite Ce. apply wild_check_secure_sound. exact Ck.
    + intros X. inversion X as [[X1 X2]]. subst t0. exists w. split; [left; reflexivity|]. split; [exact X2|]. left.
      split; [exact Cn|]. split; [exact E|]. rewrite Ce. exact I.
  - destruct (a_dname (w_g w)) as [dt|] eqn:Dn; [|exact Lift].
    destruct (ends_with nm (a_owner (w_g w))); cbn [negb]; [|exact Lift].
    destruct (name_eqb (a_owner (w_g w)) nm); [exact Lift|].
    destruct (a_wild (w_g w)) eqn:Wd; [discriminate|].
    destruct (map_dname (a_owner (w_g w)) dt nm) as [res|] eqn:M; [|discriminate].
    intros X. inversion X as [[X1 X2]]. subst res. exists w. split; [left; reflexivity|]. split; [exact X2|]. right.
    exists dt. split; [exact Dn|]. split; [exact Wd|exact M].
Qed.

Inductive chain_w (qtype : N) (gs : list wgroup) : name -> name -> Prop :=
| cw_refl n : chain_w qtype gs n n
| cw_step n tgt m : secure_step n tgt gs -> chain_w qtype gs tgt m -> chain_w qtype gs n m.

Lemma chase_w_secure qt gs maxc : forall fuel count n maybe m,
  chase_w H ci cb ngs n3gs fuel count maxc n qt gs maybe = Ok (m, Secure) ->
  maybe = Secure /\ chain_w qt gs n m.
Proof.
  induction fuel as [|fuel IH]; intros count n maybe m X; simpl in X; [discriminate|].
  destruct (cname_find_w H ci cb ngs n3gs n qt gs) as [[[tgt st]|]| | |] eqn:F; simpl in X; try discriminate.
  - destruct (vstate_eqb st Bogus); [inversion X|].
    destruct (maxc <? count + 1); [inversion X|].
    apply IH in X as [X1 X2]. apply map_maybe_secure_secure in X1 as [-> ->].
    split; [reflexivity|]. eapply cw_step; [apply (find_w_secure _ _ _ _ F)|exact X2].
  - inversion X. subst. split; [reflexivity|apply cw_refl].
Qed.

Lemma get_answer_w_in sname qt gs w : get_answer_w sname qt gs = Some w ->
  In w gs /\ a_rtype (w_g w) = qt /\ name_eqb (a_owner (w_g w)) sname = true.
Proof.
  induction gs as [|x gs IH]; simpl; [discriminate|].
  destruct (negb (a_class_ok (w_g x))); [intros X; destruct (IH X) as (A & B); split; [right; exact A|exact B]|].
  destruct (N.eqb_spec (a_rtype (w_g x)) qt) as [Et|Et]; cbn [negb]; [|intros X; destruct (IH X) as (A & B); split; [right; exact A|exact B]].
  destruct (name_eqb (a_owner (w_g x)) sname) eqn:E; cbn [negb]; [|intros X; destruct (IH X) as (A & B); split; [right; exact A|exact B]].
  intros X. injection X as <-. split; [left; reflexivity|]. split; [exact Et|exact E].
Qed.

(* the extended soundness theorem: a secure verdict for a positive answer means no bogus group in the
   answer section, a chain of secure CNAME / DNAME steps from the question to the answering group - each
   wildcard-expanded CNAME on it with a secure proof that its name does not exist - and a secure answering
   group which, if wildcard-expanded itself, is the wildcard name or comes with such a proof *)
Theorem positive_full_sound q qt maxc gs :
  positive_full H ci cb ngs n3gs q qt maxc gs = Ok (Some Secure) ->
  (forall w, In w gs -> a_state (w_g w) <> Bogus) /\
  exists sname w, chain_w qt gs q sname /\ get_answer_w sname qt gs = Some w /\ In w gs /\
    a_state (w_g w) = Secure /\
    match w_ce w with
    | None => True
    | Some ce => name_eqb sname (star_label :: ce) = true \/ nonexistence_proof sname (w_signer w) ce
    end.
Proof.
  unfold positive_full. intros X.
  pose proof (validate_groups_spec (map (fun w => a_state (w_g w)) gs)) as V.
  destruct (validate_groups (map (fun w => a_state (w_g w)) gs)) as [l'|]; [|inversion X].
  destruct V as [_ V]. split.
  { intros w Hi Hb. apply V. rewrite <- Hb. apply (in_map (fun w => a_state (w_g w))). exact Hi. }
  destruct (chase_w H ci cb ngs n3gs (S (N.to_nat maxc + 1)) 0 maxc q qt gs Secure) as [[sname st]| | |] eqn:C; simpl in X; try discriminate.
  match type of X with context [map_maybe_secure st ?i] => set (init := i) in * end.
  destruct (vstate_eqb (map_maybe_secure st init) Bogus); [inversion X|].
  destruct (get_answer_w sname qt gs) as [w|] eqn:G; [|discriminate].
  destruct (get_answer_w_in _ _ _ _ G) as (Iw & _ & _).
  destruct (vstate_eqb (a_state (w_g w)) Secure) eqn:Es; cbn [negb] in X.
  2:{ assert (Y : map_maybe_secure (a_state (w_g w)) (map_maybe_secure st init) = Secure) by congruence.
      apply map_maybe_secure_secure in Y as [Y _]. rewrite Y in Es. discriminate. }
  assert (Sg : a_state (w_g w) = Secure) by (destruct (a_state (w_g w)); try discriminate; reflexivity).
  assert (Fin : forall s0, Some (map_maybe_secure s0 (map_maybe_secure st init)) = Some Secure -> s0 = Secure /\ st = Secure).
  { intros s0 Y. assert (Y' : map_maybe_secure s0 (map_maybe_secure st init) = Secure) by congruence.
    apply map_maybe_secure_secure in Y' as [A B]. apply map_maybe_secure_secure in B as [B _]. auto. }
  destruct (w_ce w) as [ce|] eqn:Ce.
  - destruct (star_name ce) as [star|] eqn:Es2; [|inversion X].
    assert (Hs : star = star_label :: ce).
    { unfold star_name in Es2. destruct (Nat.leb (wire_len ce) 252); inversion Es2. reflexivity. }
    subst star. destruct (name_eqb sname (star_label :: ce)) eqn:En.
    + assert (Y : map_maybe_secure st init = Secure) by congruence. apply map_maybe_secure_secure in Y as [-> _].
      apply chase_w_secure in C as [_ C]. exists sname, w. repeat split; try assumption. rewrite Ce. left. exact En.
    + destruct (wild_check H ci cb ngs n3gs sname (w_signer w) ce) as [[ok s]| | |] eqn:Ck; simpl in X; try discriminate.
      destruct ok; [|inversion X]. assert (Y : Some (map_maybe_secure s (map_maybe_secure st init)) = Some Secure) by congruence.
      destruct (Fin s Y) as [-> ->]. apply chase_w_secure in C as [_ C].
      exists sname, w. repeat split; try assumption. rewrite Ce. right. apply wild_check_secure_sound. exact Ck.
  - assert (Y : map_maybe_secure st init = Secure) by congruence. apply map_maybe_secure_secure in Y as [-> _].
    apply chase_w_secure in C as [_ C]. exists sname, w. repeat split; try assumption. rewrite Ce. exact I.
Qed.
End WCP.

(* non-vacuity: *.z CNAME t.z expanded to x.z (closest encloser z), with the NSEC  a.z -> y.z  covering x.z
   and giving the closest encloser z; t.z A answers.  Without the NSEC the same reply is bogus. *)
Example wildcard_cname_ex :
  let z := [[122]] in
  let cn := mkW (mkA true rt_CNAME 1 [[120]; [122]] (Some [[116]; [122]]) Secure true None true) (Some z) z in
  let an := mkW (mkA true 1 1 [[116]; [122]] None Secure false None true) None z in
  let nsec := mkG rt_NSEC 1 true [[97]; [122]] [[121]; [122]] [1; 46; 47] true z None in
  positive_full (fun _ _ _ => []) 100 500 [nsec] [] [[120]; [122]] 1 11 [cn; an] = Ok (Some Secure) /\
  positive_full (fun _ _ _ => []) 100 500 [] [] [[120]; [122]] 1 11 [cn; an] = Ok (Some Bogus) /\
  positive_answer_state [[120]; [122]] 1 11 [w_g cn; w_g an] = Ok None.
Proof. vm_compute. repeat split. Qed.

(* ------------------------------------------------------------ agreement with the extracted model *)
Section Agree.
Variable H : N -> bytes -> name -> bytes.
Variable ci cb : N.
Variable ngs : list vgroup.
Variable n3gs : list n3group.

Lemma find_agrees nm qt gs r : Forall wf_wgroup gs ->
  cname_find nm qt (map w_g gs) = Some r -> cname_find_w H ci cb ngs n3gs nm qt gs = Ok r.
Proof.
  induction 1 as [|w gs W _ IH]; simpl; [intros X; inversion X; reflexivity|].
  destruct (negb (a_class_ok (w_g w))); [exact IH|].
  destruct ((a_rtype (w_g w) =? rt_CNAME) && (a_rtype (w_g w) =? qt)); [exact IH|].
  destruct (negb (a_nrr (w_g w) =? 1)); [exact IH|].
  destruct (a_cname (w_g w)) as [t0|].
  - destruct (negb (name_eqb (a_owner (w_g w)) nm)); [exact IH|].
    unfold wf_wgroup in W. destruct (w_ce w) as [ce|]; rewrite W; [discriminate|].
    intros X. inversion X. reflexivity.
  - destruct (a_dname (w_g w)) as [dt|]; [|exact IH].
    destruct (negb (ends_with nm (a_owner (w_g w)))); [exact IH|].
    destruct (name_eqb (a_owner (w_g w)) nm); [exact IH|].
    destruct (a_wild (w_g w)); [intros X; inversion X; reflexivity|].
    destruct (map_dname (a_owner (w_g w)) dt nm); intros X; inversion X; reflexivity.
Qed.

Lemma chase_agrees qt gs maxc : Forall wf_wgroup gs -> forall fuel count n maybe r,
  cname_chase fuel count maxc n qt (map w_g gs) maybe = Ok (Some r) ->
  chase_w H ci cb ngs n3gs fuel count maxc n qt gs maybe = Ok r.
Proof.
  intros W. induction fuel as [|fuel IH]; intros count n maybe r; simpl; [discriminate|].
  destruct (cname_find n qt (map w_g gs)) as [f|] eqn:F; [|discriminate].
  rewrite (find_agrees n qt gs f W F). simpl. destruct f as [[tgt st]|].
  - destruct (vstate_eqb st Bogus); [intros X; inversion X; reflexivity|].
    destruct (maxc <? count + 1); [intros X; inversion X; reflexivity|]. apply IH.
  - intros X. inversion X. reflexivity.
Qed.

Lemma get_answer_agrees sname qt gs : 
  get_answer_state sname qt (map w_g gs) = option_map w_g (get_answer_w sname qt gs).
Proof.
  induction gs as [|w gs IH]; simpl; [reflexivity|].
  destruct (negb (a_class_ok (w_g w))); [exact IH|].
  destruct (negb (a_rtype (w_g w) =? qt)); [exact IH|].
  destruct (negb (name_eqb (a_owner (w_g w)) sname)); [exact IH|]. reflexivity.
Qed.

Lemma fold_map_agrees gs : forall acc,
  fold_left (fun acc g => map_maybe_secure (a_state g) acc) (map w_g gs) acc =
  fold_left (fun acc w => map_maybe_secure (a_state (w_g w)) acc) gs acc.
Proof. induction gs as [|w gs IH]; intros acc; simpl; [reflexivity|apply IH]. Qed.

(* wherever the extracted (T2-tied) model decides, the extension decides the same *)
Theorem positive_full_extends q qt maxc gs s : Forall wf_wgroup gs ->
  positive_answer_state q qt maxc (map w_g gs) = Ok (Some s) ->
  positive_full H ci cb ngs n3gs q qt maxc gs = Ok (Some s).
Proof.
  intros W. unfold positive_answer_state, positive_full. rewrite map_map.
  destruct (validate_groups (map (fun x => a_state (w_g x)) gs)); [|intros X; exact X].
  rewrite fold_map_agrees.
  destruct (cname_chase (S (N.to_nat maxc + 1)) 0 maxc q qt (map w_g gs) Secure) as [[[sname st]|]| | |] eqn:C; cbn [bind]; try discriminate.
  rewrite (chase_agrees qt gs maxc W _ _ _ _ _ C). cbn [bind].
  match goal with |- context [map_maybe_secure st ?i] => set (init := i) end.
  destruct (vstate_eqb (map_maybe_secure st init) Bogus); [intros X; exact X|].
  rewrite get_answer_agrees. destruct (get_answer_w sname qt gs) as [w|] eqn:G; simpl; [|discriminate].
  assert (Ww : wf_wgroup w).
  { rewrite Forall_forall in W. apply W. clear - G. induction gs as [|x gs IH]; simpl in G; [discriminate|].
    destruct (negb (a_class_ok (w_g x))); [right; auto|]. destruct (negb (a_rtype (w_g x) =? qt)); [right; auto|].
    destruct (negb (name_eqb (a_owner (w_g x)) sname)); [right; auto|]. inversion G. left. reflexivity. }
  unfold wf_wgroup in Ww.
  destruct (vstate_eqb (a_state (w_g w)) Secure) eqn:Es; cbn [negb].
  - destruct (w_ce w) as [ce|]; rewrite Ww; cbn [andb]; [discriminate|].
    assert (Sg : a_state (w_g w) = Secure) by (destruct (a_state (w_g w)); try discriminate; reflexivity).
    rewrite Sg. simpl. intros X. exact X.
  - rewrite andb_false_r. intros X. exact X.
Qed.
End Agree.
