(* C07 proofs, part 4: totality of a whole Scanner method (scan_octets) from
   the position invariant alone: every in-place write lands behind the read
   position, split_to / trim_to are called within bounds, next_item is only
   called once the token has been read to its end. *)
From Coq Require Import NArith ZArith List Bool Arith Lia ZifyN ZifyBool ZifyNat.
From DV Require Import Base.Outcome Base.Bytes C07.Gen C07.Model C07.Proofs C07.Proofs2 C07.Proofs3.
Import ListNotations.
Local Open Scope N_scope.

Lemma next_symbol_none_cat s s' : next_symbol s = Ok (None, s') -> is_token (scat s') = false.
Proof.
  unfold next_symbol, next_symbol_gen. destruct (scat s) eqn:Ec.
  - intros H; injection H as <-. rewrite Ec. reflexivity.
  - destruct (sym_at (rest s)); try discriminate.
    destruct (negb (is_word_char s0)); [intros H; injection H as <-; reflexivity|discriminate].
  - destruct (sym_at (rest s)); try discriminate. cbn.
    destruct (sym_eqb s0 (SChar 34)); [intros H; injection H as <-; reflexivity|discriminate].
  - intros H; injection H as <-. rewrite Ec. reflexivity.
Qed.

Lemma next_ascii_symbol_cat s r s' : next_ascii_symbol s = (r, s') ->
  scat s' = scat s \/ (scat s = CQuo /\ scat s' = CNone /\ start s' = S (start s) /\ r = None).
Proof.
  unfold next_ascii_symbol. destruct (scat s) eqn:Ec.
  - intros H; injection H as <- <-. left; congruence.
  - destruct (rest s); [intros H; injection H as <- <-; left; congruence|].
    destruct ((n <? asc_lo) || (asc_hi <? n) || memN n asc_unq_excluded);
      intros H; injection H as <- <-; left; cbn; congruence.
  - destruct (rest s); [intros H; injection H as <- <-; left; congruence|].
    destruct (n =? asc_q_end).
    { intros H; injection H as <- <-. right. cbn. repeat split; auto. lia. }
    destruct ((n <? asc_lo) || (asc_hi <? n) || memN n asc_q_excluded);
      intros H; injection H as <- <-; left; cbn; congruence.
  - intros H; injection H as <- <-. left; congruence.
Qed.

Lemma ascii_loop_total : forall fuel s cnt, Inv s -> (length (rest s) < fuel)%nat ->
  exists s' c, ascii_loop fuel s cnt = Ok (s', c) /\ Inv s' /\ (start s <= start s')%nat /\
    buf s' = buf s /\
    (scat s' = scat s \/ (scat s = CQuo /\ scat s' = CNone /\ (start s < start s')%nat)).
Proof.
  induction fuel as [|f IH]; intros s cnt HI Hf; [lia|].
  cbn [ascii_loop]. destruct (next_ascii_symbol s) as [r s1] eqn:E.
  pose proof (next_ascii_symbol_inv _ _ _ HI E) as (HI1 & Hb & Hs & Hr).
  pose proof (next_ascii_symbol_cat _ _ _ E) as Hc.
  destruct r as [ch|].
  - destruct (Hr ltac:(discriminate)) as [Hst Hsc].
    assert (Hf1 : (length (rest s1) < f)%nat).
    { rewrite (rest_length s HI) in Hf. rewrite (rest_length s1 HI1). unfold Inv in *. rewrite Hb in *. lia. }
    destruct (IH s1 (S cnt) HI1 Hf1) as (s' & c & E' & A & B & C & D).
    exists s', c. split; [exact E'|]. split; [exact A|]. split; [lia|]. split; [congruence|].
    rewrite <- Hsc. destruct D as [D | (D1 & D2 & D3)]; [left; exact D|right; repeat split; auto; lia].
  - exists s1, cnt. split; [reflexivity|]. repeat split; auto.
    destruct Hc as [Hc | (A & B & C & _)]; [left; exact Hc | right; repeat split; auto; lia].
Qed.

Lemma write_loop_total conv : forall fuel s w, Inv s -> (w <= start s)%nat ->
  (length (rest s) < fuel)%nat ->
  match write_loop conv fuel s w with
  | Ok (s', w') => Inv s' /\ (w' <= start s')%nat /\ (start s <= start s')%nat /\
                   is_token (scat s') = false /\ length (buf s') = length (buf s)
  | Err _ => True
  | _ => False
  end.
Proof.
  induction fuel as [|f IH]; intros s w HI Hw Hf; [lia|].
  cbn [write_loop].
  pose proof (next_symbol_gen_no_panic (fun _ => true) s) as NP. fold next_symbol in NP.
  destruct (next_symbol s) as [[r s1]| | |] eqn:E; cbn [bind]; auto.
  pose proof (next_symbol_gen_inv _ _ _ _ HI E) as (HI1 & Hb & Hs & Hr & _).
  destruct r as [sym|].
  - destruct (Hr ltac:(discriminate)) as [Hlt _].
    destruct (conv sym) as [b|]; [|exact I].
    pose proof (store_spec s1 w b HI1) as St.
    assert (Hin : Nat.ltb w (length (buf s1)) = true).
    { apply Nat.ltb_lt. unfold Inv in *. lia. }
    rewrite Hin in St. destruct St as (s2 & E2 & HI2 & Hst2 & Hc2 & Hl2 & Hr2). rewrite E2. cbn [bind].
    assert (Hf2 : (length (rest s2) < f)%nat).
    { rewrite Hr2 by lia. rewrite (rest_length s HI) in Hf. rewrite (rest_length s1 HI1).
      unfold Inv in *. rewrite Hb in *. lia. }
    specialize (IH s2 (S w) HI2 ltac:(lia) Hf2).
    destruct (write_loop conv f s2 (S w)) as [[s' w']| | |]; auto.
    destruct IH as (A & B & C & D & F). repeat split; auto; try lia. rewrite F, Hl2, Hb. reflexivity.
  - pose proof (next_symbol_none_cat _ _ E) as Hn. repeat split; auto; try lia. rewrite Hb. reflexivity.
Qed.

(* scan_octets from any state that satisfies the position invariant: an entry
   or an error, never a panic, never out of fuel *)
Theorem scan_octets_total s : Inv s -> no_panic (scan_octets s).
Proof.
  intros HI. unfold scan_octets.
  destruct (require_token s) as [[]| | |] eqn:Erq; cbn [bind no_panic]; auto;
    try (unfold require_token in Erq; destruct (scat s); discriminate).
  assert (Htok : is_token (scat s) = true).
  { unfold require_token in Erq. destruct (scat s); try discriminate; reflexivity. }
  pose proof (trim_to_spec s (start s) HI) as T. rewrite Nat.leb_refl in T.
  destruct T as (s0 & E0 & HI0 & Hst0 & Hr0 & Hc0 & _). rewrite E0. cbn [bind].
  rewrite Nat.sub_diag in Hst0.
  assert (Hfu : (length (rest s0) < fuel_of s0)%nat).
  { rewrite (rest_length s0 HI0). unfold fuel_of. lia. }
  destruct (ascii_loop_total (fuel_of s0) s0 0 HI0 Hfu) as (s1 & c & E1 & HI1 & Hs1 & Hb1 & Hc1).
  rewrite E1. cbn [bind fst].
  destruct (scat s1) eqn:Ec1.
  - (* the closing quote has been consumed *)
    destruct Hc1 as [Hc1 | (Q0 & _ & Hlt)].
    { rewrite Hc0 in Hc1. rewrite <- Hc1 in Htok. discriminate. }
    rewrite Q0. destruct (start s1) as [|k] eqn:Es1; [lia|]. cbn [bind].
    destruct (next_item_total s1 HI1 ltac:(rewrite Ec1; reflexivity)) as [(s2 & E2 & HI2 & Hs2 & _) | E2];
      rewrite E2; cbn [bind no_panic]; auto.
    pose proof (split_to_spec s2 k HI2) as Sp.
    assert (L : Nat.leb k (start s2) = true) by (apply Nat.leb_le; lia).
    rewrite L in Sp. destruct Sp as (r & s3 & E3 & _). rewrite E3. exact I.
  - assert (Hfu1 : (length (rest s1) < fuel_of s1)%nat).
    { rewrite (rest_length s1 HI1). unfold fuel_of. lia. }
    pose proof (write_loop_total into_octet (fuel_of s1) s1 (start s1) HI1 (le_n _) Hfu1) as W.
    destruct (write_loop into_octet (fuel_of s1) s1 (start s1)) as [[s2 w]| | |]; cbn [bind no_panic fst snd]; auto.
    destruct W as (HI2 & Hw & _ & Ht2 & _).
    destruct (next_item_total s2 HI2 Ht2) as [(s3 & E3 & HI3 & Hs3 & _) | E3]; rewrite E3; cbn [bind no_panic]; auto.
    pose proof (split_to_spec s3 w HI3) as Sp.
    assert (L : Nat.leb w (start s3) = true) by (apply Nat.leb_le; lia).
    rewrite L in Sp. destruct Sp as (r & s4 & E4 & _). rewrite E4. exact I.
  - assert (Hfu1 : (length (rest s1) < fuel_of s1)%nat).
    { rewrite (rest_length s1 HI1). unfold fuel_of. lia. }
    pose proof (write_loop_total into_octet (fuel_of s1) s1 (start s1) HI1 (le_n _) Hfu1) as W.
    destruct (write_loop into_octet (fuel_of s1) s1 (start s1)) as [[s2 w]| | |]; cbn [bind no_panic fst snd]; auto.
    destruct W as (HI2 & Hw & _ & Ht2 & _).
    destruct (next_item_total s2 HI2 Ht2) as [(s3 & E3 & HI3 & Hs3 & _) | E3]; rewrite E3; cbn [bind no_panic]; auto.
    pose proof (split_to_spec s3 w HI3) as Sp.
    assert (L : Nat.leb w (start s3) = true) by (apply Nat.leb_le; lia).
    rewrite L in Sp. destruct Sp as (r & s4 & E4 & _). rewrite E4. exact I.
  - (* a token cannot turn into a line feed *)
    destruct Hc1 as [Hc1 | (_ & Q1 & _)]; [|congruence].
    rewrite Hc0 in Hc1. rewrite <- Hc1 in Htok. discriminate.
Qed.

Example scan_octets_ex :
  scan_octets (mkS [0; 34; 97; 92; 48; 54; 53; 34; 10] 2 CQuo false 0)
  = Ok ([97; 65], mkS [48; 54; 53; 34; 10] 5 CLF false 0)
  /\ scan_octets (mkS [0; 97; 10] 1 CNone false 0) = Err 12.
Proof. vm_compute. split; reflexivity. Qed.

(* the limits read from the source are the RFC 1035 ones: a label holds at most
   63 octets (write - start - 1 < 64), a character string at most 255, the
   relative part of a name at most 254 and a whole name 255 octets; the reader
   starts one octet into its buffer (the prefix octet scan_name relies on) *)
Lemma limits_rfc1035 :
  (label_latest = 64%nat /\ label_latest_ge = true) /\
  (charstr_latest = 255%nat /\ charstr_latest_ge = false) /\
  (name_max = 254%nat /\ name_max_ge = false) /\ chain_max = 255%nat /\
  default_ttl = 3600 /\ init_start = 1%nat /\
  octet_lo = 32 /\ octet_hi = 126 /\ esc_char = 92.
Proof. vm_compute. repeat split; reflexivity. Qed.

(* The four guards are in the source now.  These statements hold only while
   T1 finds them; removing one of them from the Rust code makes this file fail
   to build (and flips the `_fixed` theorems back to `_refuted`). *)
Lemma reader_guards_present :
  overlong_rejected = true /\ int_add_checked = true /\ ttl_add_checked = true /\
  charstr_requires_token = true /\ scan_name_handles_at = true.
Proof. vm_compute. repeat split; reflexivity. Qed.

(* scan_name rejects an empty label inside a name (two consecutive dots) *)
Lemma empty_label_rejected : name_rejects_empty_label = true.
Proof. vm_compute. reflexivity. Qed.

(* a..b. 1 IN A 1.2.3.4 *)
Definition w_dots : list N := [97;46;46;98;46;32;49;32;73;78;32;65;32;49;46;50;46;51;46;52;10].

Theorem empty_label_fixed : name_rejects_empty_label = true -> read_file w_dots = ([], EErr 3).
Proof. intros H. revert H. vm_compute. intros H; first [discriminate H | reflexivity]. Qed.

(* without the check the owner has a root label in its middle: 01 61 00 01 62 00 *)
Theorem empty_label_refuted : name_rejects_empty_label = false ->
  read_file w_dots = ([ERecord [1; 97; 0; 1; 98; 0] 1 1 1 [1; 2; 3; 4]], EEof).
Proof. intros H. revert H. vm_compute. intros H; first [discriminate H | reflexivity]. Qed.

Theorem items_total_all file :
  match snd (items_of file) with EEof | EErr _ => True | _ => False end.
Proof. apply Proofs2.items_total. apply reader_guards_present. Qed.

Theorem scan_uint_no_overflow_panic : forall fuel maxv s res,
  uint_loop fuel maxv int_add_checked s res <> Panic 7 /\
  uint_loop fuel maxv ttl_add_checked s res <> Panic 7.
Proof.
  intros. destruct reader_guards_present as (_ & -> & -> & _).
  split; apply Proofs3.uint_loop_no_overflow_panic.
Qed.

(* the remaining constants T1 reads, pinned to the values the format prescribes:
   printable ASCII for into_ascii / into_char, the TYPE / CLASS prefixes of
   RFC 3597, and the numbers of every mnemonic the model's schemas stand for *)
Lemma limits_symbols :
  ascii_lo = 32 /\ ascii_hi = 126 /\ ascii_esc_lo = 32 /\ ascii_esc_hi = 126 /\
  char_esc_lo = 32 /\ char_esc_hi_excl = 127 /\ ascii_bound = 128 /\
  asc_lo = 33 /\ asc_hi = 127 /\ asc_q_end = 34 /\
  rtype_prefix = [84; 89; 80; 69] /\ class_prefix = [67; 76; 65; 83; 83].
Proof. vm_compute. repeat split; reflexivity. Qed.

Lemma schema_mnemonics_all :
  map (from_mnemonic rtype_table)
    [[77;68]; [77;70]; [77;66]; [77;71]; [77;82]; [77;73;78;70;79]; [82;80]; [68;78;65;77;69];
     [83;83;72;70;80]; [84;76;83;65]; [79;80;69;78;80;71;80;75;69;89]]
  = map Some [3; 4; 7; 8; 9; 14; 17; 39; 44; 52; 61]
  /\ map (from_mnemonic class_table) [[73;78]; [67;72]; [72;83]; [78;79;78;69]; [42]]
    = map Some [1; 3; 4; 254; 255].
Proof. vm_compute. split; reflexivity. Qed.
