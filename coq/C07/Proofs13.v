(* C07 proofs, part 13: value correctness of convert_token over an identity-like
   converter (every symbol hands out its octet): the result is the octets of
   the token's symbols. *)
From Coq Require Import NArith ZArith List Bool Arith Lia ZifyN ZifyBool ZifyNat.
From DV Require Import Base.Outcome Base.Bytes C07.Gen C07.Model C07.Proofs C07.Proofs2 C07.Proofs4
  C07.Proofs5 C07.Proofs6 C07.Proofs12.
Import ListNotations.
Local Open Scope N_scope.

Definition id_process (h : unit) (sym : symbol) : outcome (unit * list N) :=
  match into_octet sym with Some b => Ok (tt, [b]) | None => Err 1 end.
Definition id_tail (h : unit) : outcome (list N) := Ok [].

Lemma ctl_value : forall syms l l', Toks false l syms l' ->
  forall octs fuel h s w h' s' w' b', octets_of syms octs -> scat s = CUnq -> rest s = l -> (w <= start s)%nat ->
  convert_token_loop unit id_process fuel h s w None = Ok (h', s', w', b') ->
  b' = None /\ w' = (w + length octs)%nat /\ firstn w' (buf s') = firstn w (buf s) ++ octs /\
  scat s' = CNone /\ (w' <= start s')%nat.
Proof.
  induction 1 as [l sym n Hq Hs Hw | l sym n Hq Hs He | l sym n syms l' Hs Hg HT IH];
    intros octs fuel h s w h' s' w' b' Ho Hc Hr Hle Hwl; unfold octets_of in Ho; try discriminate.
  - destruct octs; [|discriminate Ho]. destruct fuel as [|f]; [discriminate Hwl|].
    cbn [convert_token_loop] in Hwl. unfold next_symbol, next_symbol_gen in Hwl. rewrite Hc, Hr, Hs, Hw in Hwl.
    cbn [negb bind] in Hwl. injection Hwl as <- <- <- <-. cbn [length set_cat buf start].
    rewrite Nat.add_0_r, app_nil_r. repeat split; auto.
  - destruct octs as [|b octs]; [cbn in Ho; discriminate Ho|]. cbn [map] in Ho.
    injection Ho as Hb Ho.
    destruct fuel as [|f]; [discriminate Hwl|].
    cbn [convert_token_loop] in Hwl. unfold next_symbol, next_symbol_gen in Hwl. rewrite Hc, Hr, Hs in Hwl.
    unfold goes_on in Hg. rewrite Hg in Hwl. cbn [negb bind] in Hwl.
    unfold id_process in Hwl at 1. rewrite Hb in Hwl. cbn [bind fst snd] in Hwl.
    pose proof (sym_at_len _ _ _ Hs) as Ln.
    unfold append_data in Hwl. cbn [length advance start] in Hwl.
    assert (L : Nat.ltb (start s + n) (w + 1) = false) by (apply Nat.ltb_ge; lia).
    rewrite L in Hwl. cbn [store_list bind] in Hwl. unfold store in Hwl.
    destruct (set_byte (buf (advance s n)) w b) as [bf|] eqn:Eb; cbn [bind] in Hwl; [|discriminate Hwl].
    set (s2 := with_buf (advance s n) bf) in *.
    assert (Hr2 : rest s2 = skipn n l).
    { unfold rest, s2. cbn [with_buf advance buf start] in *. rewrite (set_byte_skipn _ _ _ _ _ Eb) by lia.
      rewrite <- Hr. unfold rest. rewrite skipn_add. reflexivity. }
    replace (w + 1)%nat with (S w) in Hwl by lia.
    destruct (IH octs f tt s2 (S w) h' s' w' b' Ho Hc Hr2 ltac:(unfold s2; cbn [with_buf advance start]; lia) Hwl)
      as (A0 & A & B & D & F).
    split; [exact A0|]. split; [cbn [length]; lia|]. split; [|auto].
    rewrite B. unfold s2. cbn [with_buf buf]. rewrite (set_byte_firstn _ _ _ _ Eb). cbn [advance buf].
    rewrite <- app_assoc. reflexivity.
Qed.

Theorem convert_token_id_value s syms octs d t r s2 :
  scat s = CUnq -> Toks false (rest s) syms (d :: t) -> octets_of syms octs ->
  convert_token unit id_process id_tail tt s = Ok (r, s2) -> r = octs.
Proof.
  intros Hc HT Ho. unfold convert_token, require_token. rewrite Hc. cbn [bind].
  destruct (convert_token_loop unit id_process (fuel_of s) tt s 0 None) as [[[[h1 s1] w1] b1]| | |] eqn:El;
    cbn [bind]; try discriminate.
  destruct (ctl_value _ _ _ HT octs _ _ _ _ _ _ _ _ Ho Hc eq_refl (Nat.le_0_l _) El) as (-> & A & B & D & F).
  destruct (next_item s1) as [s3| | |] eqn:En; cbn [bind id_tail]; try discriminate.
  assert (B3 : buf s3 = buf s1).
  { unfold next_item in En. destruct (is_token (scat s1)); [discriminate En|].
    destruct (ni_loop _ _ _ _ _); [discriminate En|]. injection En as <-. reflexivity. }
  unfold split_to. destruct (Nat.leb w1 (start s3)); [|discriminate].
  intros H; injection H as <- _. rewrite B3, B. reflexivity.
Qed.

Example convert_token_id_value_ex :
  convert_token unit id_process id_tail tt (mkS [0; 97; 92; 48; 54; 53; 32; 10] 1 CUnq false 0)
  = Ok ([97; 65], mkS [92; 48; 54; 53; 32; 10] 6 CLF true 0).
Proof. vm_compute. reflexivity. Qed.
