(* C07 proofs, part 6: the protocol invariant of the Scanner methods.
   PInv: the read position is inside the buffer and at least one octet into it
   (the "token prefix space" scan_name and scan_charstr_entry assert), and a
   fresh unquoted token starts with a non-delimiter.  Every modelled Scanner
   method, started in a PInv state, returns Ok with PInv again or an error:
   no assertion, no out-of-range write, no underflow, no loop without progress. *)
From Coq Require Import NArith ZArith List Bool Arith Lia ZifyN ZifyBool ZifyNat.
From DV Require Import Base.Outcome Base.Bytes C07.Gen C07.Model C07.Proofs C07.Proofs2 C07.Proofs4.
Import ListNotations.
Local Open Scope N_scope.

Definition fresh (s : sbuf) : Prop :=
  scat s = CUnq -> exists c t, rest s = c :: t /\ is_delim c = false.

Definition PInv (s : sbuf) : Prop := Inv s /\ (1 <= start s)%nat /\ fresh s.

(* state in which a token has been read to its end, with `w` octets of output:
   either the closing quote lies between w and the read position, or the read
   position is at a delimiter octet *)
Definition TEnd (s : sbuf) (w : nat) : Prop :=
  Inv s /\ is_token (scat s) = false /\
  ((w < start s)%nat \/ ((w <= start s)%nat /\ exists d t, rest s = d :: t /\ is_delim d = true)).

Definition good {A} (P : A -> Prop) (o : outcome A) : Prop :=
  match o with Ok a => P a | Err _ => True | _ => False end.

Lemma good_bind {A B} (P : A -> Prop) (Q : B -> Prop) (o : outcome A) (f : A -> outcome B) :
  good P o -> (forall a, o = Ok a -> P a -> good Q (f a)) -> good Q (bind o f).
Proof. destruct o; cbn; auto; tauto. Qed.

Lemma guards_ov : overlong_rejected = true.
Proof. apply reader_guards_present. Qed.

(* next_item after a token: strictly past the output *)
Lemma next_item_after_token s w : TEnd s w ->
  good (fun s' => Inv s' /\ (w < start s')%nat /\ fresh s' /\ buf s' = buf s) (next_item s).
Proof.
  intros (HI & Hc & Hw). unfold next_item. rewrite Hc.
  destruct (ni_loop (rest s) false (par s) false 0) as [|n c p h] eqn:En; [exact I|].
  cbn [good]. pose proof (ni_loop_bounds _ _ _ _ _ _ _ _ _ En) as B.
  rewrite (rest_length s HI) in B.
  split; [unfold Inv in *; cbn [buf start]; lia|]. split.
  - cbn [start]. destruct Hw as [Hw | (Hw & d & t & Hr & Hd)]; [lia|].
    rewrite Hr in En. pose proof (ni_loop_delim_progress _ _ _ _ _ _ _ _ _ Hd En). lia.
  - split; [|reflexivity]. intros Eu. cbn [scat] in Eu. subst c.
    destruct (ni_loop_unq _ _ _ _ _ _ _ _ En) as (c & t & Hs & Hd).
    exists c, t. split; [|exact Hd]. unfold rest in *. cbn [buf start].
    rewrite Nat.sub_0_r in Hs. rewrite <- skipn_add. exact Hs.
Qed.

Lemma next_item_mono s s' : next_item s = Ok s' -> (start s <= start s')%nat.
Proof.
  unfold next_item. destruct (is_token (scat s)); [discriminate|].
  destruct (ni_loop (rest s) false (par s) false 0) eqn:En; [discriminate|].
  intros H; injection H as <-. cbn [start]. lia.
Qed.

(* the common tail of the token methods: next_item, then split_to(write) *)
Lemma finish_split s w : TEnd s w ->
  good (fun rs => PInv (snd rs)) (do s1 <- next_item s; split_to s1 w).
Proof.
  intros HT. eapply good_bind; [apply next_item_after_token; exact HT|].
  intros s1 _ (HI1 & Hw1 & Hf1 & _). pose proof (split_to_spec s1 w HI1) as Sp.
  assert (L : Nat.leb w (start s1) = true) by (apply Nat.leb_le; lia). rewrite L in Sp.
  destruct Sp as (r & s2 & E & HI2 & _ & Hs2). rewrite E. cbn [good snd].
  split; [exact HI2|]. split; [lia|].
  unfold split_to in E. rewrite L in E. injection E as _ <-.
  intros Eu. cbn [scat] in Eu. destruct (Hf1 Eu) as (c & t & Hr & Hd). exists c, t. split; [|exact Hd].
  unfold rest in *. cbn [buf start]. rewrite skipn_add. replace (w + (start s1 - w))%nat with (start s1) by lia.
  exact Hr.
Qed.

(* what next_symbol leaves behind when it reports the end of the token *)
Lemma next_symbol_end s s' : Inv s -> is_token (scat s) = true -> next_symbol s = Ok (None, s') ->
  is_token (scat s') = false /\ buf s' = buf s /\ (start s <= start s')%nat /\ Inv s' /\
  ((start s < start s')%nat \/ exists d t, rest s' = d :: t /\ is_delim d = true).
Proof.
  intros HI Ht E. pose proof (next_symbol_gen_inv _ _ _ _ HI E) as (HI' & Hb & Hs & _ & _).
  pose proof (next_symbol_none_cat _ _ E) as Hn. repeat split; auto.
  unfold next_symbol, next_symbol_gen in E. destruct (scat s) eqn:Ec; try discriminate.
  - destruct (sym_at (rest s)) as [| |sym n] eqn:Es; try discriminate.
    destruct (negb (is_word_char sym)) eqn:Ew; [|discriminate].
    injection E as <-. right. apply negb_true_iff in Ew.
    destruct (nonword_is_raw_delim _ _ _ guards_ov Es Ew) as (c & t & Hl & _ & _ & Hd).
    exists c, t. split; [|exact Hd]. unfold rest in *. cbn [set_cat buf start]. exact Hl.
  - destruct (sym_at (rest s)) as [| |sym n] eqn:Es; try discriminate. cbn in E.
    pose proof (sym_at_len _ _ _ Es) as Ln.
    destruct (sym_eqb sym (SChar 34)); [|discriminate]. injection E as <-. left. cbn. lia.
Qed.

(* the in-place write loop ends in a token-end state *)
Lemma write_loop_end conv : forall fuel s w, Inv s -> (w <= start s)%nat -> is_token (scat s) = true ->
  (length (rest s) < fuel)%nat ->
  good (fun sw => TEnd (fst sw) (snd sw) /\ (start s <= start (fst sw))%nat /\ (w <= snd sw)%nat /\
                  length (buf (fst sw)) = length (buf s) /\
                  ((snd sw = w) -> rest (fst sw) = skipn (start (fst sw) - start s) (rest s)))
       (write_loop conv fuel s w).
Proof.
  induction fuel as [|f IH]; intros s w HI Hw Ht Hf; [lia|].
  cbn [write_loop].
  pose proof (next_symbol_gen_no_panic (fun _ => true) s) as NP. fold next_symbol in NP.
  destruct (next_symbol s) as [[r s1]| | |] eqn:E; cbn [bind good]; auto.
  pose proof (next_symbol_gen_inv _ _ _ _ HI E) as (HI1 & Hb & Hs & Hr & _).
  destruct r as [sym|].
  - destruct (Hr ltac:(discriminate)) as [Hlt Ht1].
    destruct (conv sym) as [b|]; [|exact I].
    pose proof (store_spec s1 w b HI1) as St.
    assert (Hin : Nat.ltb w (length (buf s1)) = true) by (apply Nat.ltb_lt; unfold Inv in *; lia).
    rewrite Hin in St. destruct St as (s2 & E2 & HI2 & Hst2 & Hc2 & Hl2 & Hr2). rewrite E2. cbn [bind].
    assert (Hf2 : (length (rest s2) < f)%nat).
    { rewrite Hr2 by lia. rewrite (rest_length s HI) in Hf. rewrite (rest_length s1 HI1).
      unfold Inv in *. rewrite Hb in *. lia. }
    specialize (IH s2 (S w) HI2 ltac:(lia) ltac:(congruence) Hf2).
    unfold TEnd in *. destruct (write_loop conv f s2 (S w)) as [[s' w']| | |]; cbn [good fst snd] in *; auto.
    destruct IH as (A & B & C & D & _).
    split; [exact A|]. split; [lia|]. split; [lia|]. split; [rewrite D, Hl2, Hb; reflexivity|].
    intros Ew. lia.
  - destruct (next_symbol_end _ _ HI Ht E) as (Hn & _ & _ & _ & Hd). cbn [good]. unfold TEnd. cbn [fst snd].
    split.
    { split; [exact HI1|]. split; [exact Hn|].
      destruct Hd as [Hd | Hd]; [left; lia | right; split; [lia|exact Hd]]. }
    split; [lia|]. split; [lia|]. split; [rewrite Hb; reflexivity|].
    intros _. unfold next_symbol, next_symbol_gen in E. destruct (scat s) eqn:Ec; try discriminate.
    { destruct (sym_at (rest s)); try discriminate. destruct (negb (is_word_char s0)); [|discriminate].
      injection E as <-. cbn [set_cat start]. rewrite Nat.sub_diag. reflexivity. }
    { destruct (sym_at (rest s)); try discriminate. cbn in E.
      destruct (sym_eqb s0 (SChar 34)); [|discriminate]. injection E as <-.
      cbn [set_cat advance start]. replace (start s + n - start s)%nat with n by lia.
      unfold rest. cbn [buf start]. rewrite skipn_add. reflexivity. }
Qed.

(* ---------------------------------------------------------------- scan_uint *)

Lemma uint_loop_good : forall fuel maxv s res, Inv s -> is_token (scat s) = true ->
  (length (rest s) < fuel)%nat ->
  good (fun rs => TEnd (snd rs) 0 /\ (start s <= start (snd rs))%nat /\ buf (snd rs) = buf s /\
                  ((start s < start (snd rs))%nat \/ exists d t, rest (snd rs) = d :: t /\ is_delim d = true))
       (uint_loop fuel maxv true s res).
Proof.
  induction fuel as [|f IH]; intros maxv s res HI Ht Hf; [lia|].
  cbn [uint_loop].
  pose proof (next_symbol_gen_no_panic (fun _ => true) s) as NP. fold next_symbol in NP.
  destruct (next_symbol s) as [[r s1]| | |] eqn:E; cbn [bind good]; auto.
  pose proof (next_symbol_gen_inv _ _ _ _ HI E) as (HI1 & Hb & Hs & Hr & _).
  destruct r as [sym|].
  - destruct (Hr ltac:(discriminate)) as [Hlt Ht1].
    destruct (maxv <? res * 10); [exact I|].
    destruct (into_digit sym); [|exact I].
    destruct (maxv <? res * 10 + n); [exact I|].
    assert (Hf1 : (length (rest s1) < f)%nat).
    { rewrite (rest_length s HI) in Hf. rewrite (rest_length s1 HI1). unfold Inv in *. rewrite Hb in *. lia. }
    specialize (IH maxv s1 (res * 10 + n) HI1 Ht1 Hf1).
    unfold TEnd in *. destruct (uint_loop f maxv true s1 (res * 10 + n)) as [[x s']| | |]; cbn [good snd] in *; auto.
    destruct IH as (A & B & C & D). split; [exact A|]. split; [lia|]. split; [congruence|]. left. lia.
  - destruct (next_symbol_end _ _ HI Ht E) as (Hn & _ & _ & _ & Hd). cbn [good]. unfold TEnd. cbn [fst snd].
    split.
    { split; [exact HI1|]. split; [exact Hn|].
      destruct Hd as [Hd | Hd]; [left; lia | right; split; [lia|exact Hd]]. }
    split; [lia|]. split; [exact Hb|]. exact Hd.
Qed.

Lemma scan_uint_good maxv s : PInv s -> good (fun rs => PInv (snd rs)) (scan_uint maxv true s).
Proof.
  intros (HI & H1 & Hfr). unfold scan_uint.
  destruct (require_token s) as [[]| | |] eqn:Erq; cbn [bind good]; auto;
    try (unfold require_token in Erq; destruct (scat s); discriminate).
  assert (Ht : is_token (scat s) = true) by (unfold require_token in Erq; destruct (scat s); try discriminate; reflexivity).
  assert (Hfu : (length (rest s) < fuel_of s)%nat) by (rewrite (rest_length s HI); unfold fuel_of; lia).
  eapply good_bind; [apply (uint_loop_good (fuel_of s) maxv s 0 HI Ht Hfu)|].
  intros [v s1] _ (HT & Hs1 & Hb1 & _). cbn [fst snd] in *.
  eapply good_bind; [apply next_item_after_token; exact HT|].
  intros s2 _ (HI2 & Hw2 & Hf2 & Hb2). cbn [good snd]. split; [exact HI2|]. split; [lia|exact Hf2].
Qed.

(* -------------------------------------------------------------- scan_octets *)

Lemma scan_octets_good s : PInv s -> good (fun rs => PInv (snd rs)) (scan_octets s).
Proof.
  intros (HI & H1 & Hfr). unfold scan_octets.
  destruct (require_token s) as [[]| | |] eqn:Erq; cbn [bind good]; auto;
    try (unfold require_token in Erq; destruct (scat s); discriminate).
  assert (Htok : is_token (scat s) = true).
  { unfold require_token in Erq. destruct (scat s); try discriminate; reflexivity. }
  pose proof (trim_to_spec s (start s) HI) as T. rewrite Nat.leb_refl in T.
  destruct T as (s0 & E0 & HI0 & Hst0 & Hr0 & Hc0 & _). rewrite E0. cbn [bind].
  rewrite Nat.sub_diag in Hst0.
  assert (Hfu : (length (rest s0) < fuel_of s0)%nat).
  { rewrite (rest_length s0 HI0). unfold fuel_of. lia. }
  destruct (ascii_loop_total (fuel_of s0) s0 0 HI0 Hfu) as (s1 & c & E1 & HI1 & Hs1 & Hb1 & Hc1).
  rewrite E1. cbn [bind fst].
  destruct (scat s1) eqn:Ec1.
  - destruct Hc1 as [Hc1 | (Q0 & _ & Hlt)].
    { rewrite Hc0 in Hc1. rewrite <- Hc1 in Htok. discriminate. }
    rewrite Q0. destruct (start s1) as [|k] eqn:Es1; [lia|]. cbn [bind].
    apply finish_split. split; [exact HI1|]. split; [rewrite Ec1; reflexivity|]. left. lia.
  - assert (Hfu1 : (length (rest s1) < fuel_of s1)%nat).
    { rewrite (rest_length s1 HI1). unfold fuel_of. lia. }
    eapply good_bind; [apply (write_loop_end into_octet (fuel_of s1) s1 (start s1) HI1 (le_n _)
                                 ltac:(rewrite Ec1; reflexivity) Hfu1)|].
    intros [s2 w] _ (HT & _). cbn [fst snd] in *. apply finish_split. exact HT.
  - assert (Hfu1 : (length (rest s1) < fuel_of s1)%nat).
    { rewrite (rest_length s1 HI1). unfold fuel_of. lia. }
    eapply good_bind; [apply (write_loop_end into_octet (fuel_of s1) s1 (start s1) HI1 (le_n _)
                                 ltac:(rewrite Ec1; reflexivity) Hfu1)|].
    intros [s2 w] _ (HT & _). cbn [fst snd] in *. apply finish_split. exact HT.
  - destruct Hc1 as [Hc1 | (_ & Q1 & _)]; [|congruence].
    rewrite Hc0 in Hc1. rewrite <- Hc1 in Htok. discriminate.
Qed.

(* ----------------------------------------------------------- scan_ascii_str *)

Lemma TEnd_weaken s w w' : (w' <= w)%nat -> TEnd s w -> TEnd s w'.
Proof.
  intros L (A & B & C). split; [exact A|]. split; [exact B|].
  destruct C as [C | (C & D)]; [left; lia | right; split; [lia|exact D]].
Qed.

Lemma ascii_loop_cnt : forall fuel s cnt s' c, Inv s -> ascii_loop fuel s cnt = Ok (s', c) ->
  (c + start s <= cnt + start s')%nat /\ (cnt <= c)%nat /\
  (scat s' <> scat s -> (c + start s < cnt + start s')%nat).
Proof.
  induction fuel as [|f IH]; intros s cnt s' c HI; cbn [ascii_loop]; [discriminate|].
  destruct (next_ascii_symbol s) as [r s1] eqn:E.
  pose proof (next_ascii_symbol_inv _ _ _ HI E) as (HI1 & _ & Hs & Hr).
  pose proof (next_ascii_symbol_cat _ _ _ E) as Hc.
  destruct r as [ch|].
  - destruct (Hr ltac:(discriminate)) as [Hst Hsc]. intros H. apply IH in H; [|exact HI1].
    destruct H as (A & B & C). split; [lia|]. split; [lia|]. intros D. rewrite <- Hsc in D.
    specialize (C D). lia.
  - intros H; injection H as <- <-. split; [lia|]. split; [lia|]. intros D.
    destruct Hc as [Hc | (_ & _ & Hc & _)]; [congruence|lia].
Qed.

Lemma scan_ascii_str_good {A} (op : list N -> outcome A) s :
  (forall l, no_panic (op l)) -> PInv s -> good (fun rs => PInv (snd rs)) (scan_ascii_str op s).
Proof.
  intros Hop (HI & H1 & Hfr). unfold scan_ascii_str.
  destruct (require_token s) as [[]| | |] eqn:Erq; cbn [bind good]; auto;
    try (unfold require_token in Erq; destruct (scat s); discriminate).
  assert (Htok : is_token (scat s) = true).
  { unfold require_token in Erq. destruct (scat s); try discriminate; reflexivity. }
  pose proof (trim_to_spec s (start s) HI) as T. rewrite Nat.leb_refl in T.
  destruct T as (s0 & E0 & HI0 & Hst0 & Hr0 & Hc0 & _). rewrite E0. cbn [bind].
  rewrite Nat.sub_diag in Hst0.
  assert (Hfu : (length (rest s0) < fuel_of s0)%nat).
  { rewrite (rest_length s0 HI0). unfold fuel_of. lia. }
  destruct (ascii_loop_total (fuel_of s0) s0 0 HI0 Hfu) as (s1 & c & E1 & HI1 & Hs1 & Hb1 & Hc1).
  pose proof (ascii_loop_cnt _ _ _ _ _ HI0 E1) as (Hcnt & _ & Hcnt2).
  rewrite E1. cbn [bind fst snd].
  assert (Tail : forall s2 w2, TEnd s2 w2 ->
     good (fun rs : A * sbuf => PInv (snd rs))
          (do r <- op (firstn w2 (buf s2)); do s3 <- next_item s2; Ok (r, s3))).
  { intros s2 w2 HT. specialize (Hop (firstn w2 (buf s2))).
    destruct (op (firstn w2 (buf s2))); cbn [bind good no_panic] in *; auto.
    eapply good_bind; [apply next_item_after_token; apply (TEnd_weaken s2 w2 0); [lia|exact HT]|].
    intros s3 _ (HI3 & Hw3 & Hf3 & _). cbn [good snd]. split; [exact HI3|]. split; [lia|exact Hf3]. }
  destruct (scat s1) eqn:Ec1; cbn [bind fst snd].
  - apply Tail. split; [exact HI1|]. split; [rewrite Ec1; reflexivity|].
    destruct Hc1 as [Hc1 | (Q0 & _ & Hlt)].
    { rewrite Hc0 in Hc1. rewrite <- Hc1 in Htok. discriminate. }
    left. assert (D : CNone <> scat s0) by congruence. specialize (Hcnt2 D). lia.
  - assert (Hfu1 : (length (rest s1) < fuel_of s1)%nat).
    { rewrite (rest_length s1 HI1). unfold fuel_of. lia. }
    eapply good_bind; [apply (write_loop_end into_ascii (fuel_of s1) s1 c HI1 ltac:(lia)
                                 ltac:(rewrite Ec1; reflexivity) Hfu1)|].
    intros [s2 w2] _ (HT & _). cbn [fst snd] in *. apply Tail. exact HT.
  - assert (Hfu1 : (length (rest s1) < fuel_of s1)%nat).
    { rewrite (rest_length s1 HI1). unfold fuel_of. lia. }
    eapply good_bind; [apply (write_loop_end into_ascii (fuel_of s1) s1 c HI1 ltac:(lia)
                                 ltac:(rewrite Ec1; reflexivity) Hfu1)|].
    intros [s2 w2] _ (HT & _). cbn [fst snd] in *. apply Tail. exact HT.
  - destruct Hc1 as [Hc1 | (_ & Q1 & _)]; [|congruence].
    rewrite Hc0 in Hc1. rewrite <- Hc1 in Htok. discriminate.
Qed.

(* the same with the buffer length, which gives strict progress: the token is
   gone and the read position is at least one octet into what is left *)
Lemma scan_ascii_str_good2 {A} (op : list N -> outcome A) s :
  (forall l, no_panic (op l)) -> PInv s ->
  good (fun rs => PInv (snd rs) /\ length (buf (snd rs)) = (length (buf s) - start s)%nat) (scan_ascii_str op s).
Proof.
  intros Hop (HI & H1 & Hfr). unfold scan_ascii_str.
  destruct (require_token s) as [[]| | |] eqn:Erq; cbn [bind good]; auto;
    try (unfold require_token in Erq; destruct (scat s); discriminate).
  assert (Htok : is_token (scat s) = true).
  { unfold require_token in Erq. destruct (scat s); try discriminate; reflexivity. }
  pose proof (trim_to_spec s (start s) HI) as T. rewrite Nat.leb_refl in T.
  destruct T as (s0 & E0 & HI0 & Hst0 & Hr0 & Hc0 & _). rewrite E0. cbn [bind].
  assert (HL0 : length (buf s0) = (length (buf s) - start s)%nat).
  { unfold trim_to in E0. rewrite Nat.leb_refl in E0. injection E0 as <-. cbn [buf]. apply skipn_length. }
  rewrite Nat.sub_diag in Hst0.
  assert (Hfu : (length (rest s0) < fuel_of s0)%nat).
  { rewrite (rest_length s0 HI0). unfold fuel_of. lia. }
  destruct (ascii_loop_total (fuel_of s0) s0 0 HI0 Hfu) as (s1 & c & E1 & HI1 & Hs1 & Hb1 & Hc1).
  pose proof (ascii_loop_cnt _ _ _ _ _ HI0 E1) as (Hcnt & _ & Hcnt2).
  rewrite E1. cbn [bind fst snd].
  assert (Tail : forall s2 w2, TEnd s2 w2 -> length (buf s2) = length (buf s0) ->
     good (fun rs : A * sbuf => PInv (snd rs) /\ length (buf (snd rs)) = (length (buf s) - start s)%nat)
          (do r <- op (firstn w2 (buf s2)); do s3 <- next_item s2; Ok (r, s3))).
  { intros s2 w2 HT HL2. specialize (Hop (firstn w2 (buf s2))).
    destruct (op (firstn w2 (buf s2))); cbn [bind good no_panic] in *; auto.
    eapply good_bind; [apply next_item_after_token; apply (TEnd_weaken s2 w2 0); [lia|exact HT]|].
    intros s3 _ (HI3 & Hw3 & Hf3 & Hb3). cbn [good snd]. split; [|rewrite Hb3, HL2; exact HL0].
    split; [exact HI3|]. split; [lia|exact Hf3]. }
  destruct (scat s1) eqn:Ec1; cbn [bind fst snd].
  - apply Tail; [|rewrite Hb1; reflexivity]. split; [exact HI1|]. split; [rewrite Ec1; reflexivity|].
    destruct Hc1 as [Hc1 | (Q0 & _ & Hlt)].
    { rewrite Hc0 in Hc1. rewrite <- Hc1 in Htok. discriminate. }
    left. assert (D : CNone <> scat s0) by congruence. specialize (Hcnt2 D). lia.
  - assert (Hfu1 : (length (rest s1) < fuel_of s1)%nat).
    { rewrite (rest_length s1 HI1). unfold fuel_of. lia. }
    eapply good_bind; [apply (write_loop_end into_ascii (fuel_of s1) s1 c HI1 ltac:(lia)
                                 ltac:(rewrite Ec1; reflexivity) Hfu1)|].
    intros [s2 w2] _ (HT & _ & _ & HL & _). cbn [fst snd] in *. apply Tail; [exact HT|rewrite HL, Hb1; reflexivity].
  - assert (Hfu1 : (length (rest s1) < fuel_of s1)%nat).
    { rewrite (rest_length s1 HI1). unfold fuel_of. lia. }
    eapply good_bind; [apply (write_loop_end into_ascii (fuel_of s1) s1 c HI1 ltac:(lia)
                                 ltac:(rewrite Ec1; reflexivity) Hfu1)|].
    intros [s2 w2] _ (HT & _ & _ & HL & _). cbn [fst snd] in *. apply Tail; [exact HT|rewrite HL, Hb1; reflexivity].
  - destruct Hc1 as [Hc1 | (_ & Q1 & _)]; [|congruence].
    rewrite Hc0 in Hc1. rewrite <- Hc1 in Htok. discriminate.
Qed.


Lemma scan_bitmap_good : forall fuel s bs, PInv s -> (length (buf s) - start s < fuel)%nat ->
  good (fun rs => PInv (snd rs)) (scan_bitmap fuel s bs).
Proof.
  induction fuel as [|f IH]; intros s bs HP Hf; [lia|].
  cbn [scan_bitmap]. destruct (is_token (scat s)); [|exact HP].
  eapply good_bind; [apply (scan_ascii_str_good2
     (fun str => match rtype_from_str str with Some t => Ok t | None => Err 35 end) s);
     [intros l; cbn beta; destruct (rtype_from_str l); exact I|exact HP]|].
  intros [r s1] _ (HP1 & HL). cbn [fst snd] in *. apply IH; [exact HP1|].
  destruct HP1 as (HI1 & H11 & _). unfold Inv in HI1. lia.
Qed.

Lemma while_ascii_good : forall fuel s, PInv s -> (length (buf s) - start s < fuel)%nat ->
  good PInv (while_ascii fuel s).
Proof.
  induction fuel as [|f IH]; intros s HP Hf; [lia|].
  cbn [while_ascii]. destruct (is_token (scat s)); [|exact HP].
  eapply good_bind; [apply (scan_ascii_str_good2 (fun _ : list N => Ok tt) s); [intros l; exact I|exact HP]|].
  intros [r s1] _ (HP1 & HL). cbn [snd] in *. apply IH; [exact HP1|].
  destruct HP1 as (HI1 & H11 & _). unfold Inv in HI1. lia.
Qed.

(* ------------------------------------------- skip_at_token, skip_unknown_marker *)

Lemma peek_token s sym : peek_symbol s = Some sym -> is_token (scat s) = true /\ exists n, sym_at (rest s) = SymOk sym n.
Proof.
  unfold peek_symbol. destruct (scat s); try discriminate;
  destruct (sym_at (rest s)) as [| |sy n] eqn:Es; try discriminate.
  - destruct (is_word_char sy); [|discriminate]. intros H; injection H as <-. eauto.
  - destruct (sym_eqb sy (SChar 34)); [discriminate|]. intros H; injection H as <-. eauto.
Qed.

Lemma skipn_sym_len l k s n : sym_at (skipn k l) = SymOk s n -> (k + n <= length l)%nat.
Proof. intros H. apply sym_at_len in H. rewrite skipn_length in H. lia. Qed.

Lemma skip_at_token_good s : PInv s ->
  good (fun bs => PInv (snd bs) /\ (fst bs = false -> snd bs = s)) (skip_at_token s).
Proof.
  intros (HI & H1 & Hfr). unfold skip_at_token.
  destruct (peek_symbol s) as [sy|] eqn:Ep; [|cbn; repeat split; auto].
  destruct sy as [c| |]; try solve [cbn; repeat split; auto].
  destruct (c =? 64) eqn:E64.
  2:{ destruct c as [|p]; [cbn; repeat split; auto|].
      repeat (destruct p as [p|p|]; try solve [cbn; repeat split; auto]). cbn in E64. discriminate. }
  apply N.eqb_eq in E64. subst c.
  destruct (peek_token _ _ Ep) as (Ht & n0 & Es0).
  destruct (sym_at (skipn 1 (rest s))) as [| |sym n] eqn:Es; cbn [good]; auto.
  pose proof (skipn_sym_len _ _ _ _ Es) as Ln.
  assert (Fin : forall k, (1 <= k <= length (rest s))%nat ->
     good (fun bs : bool * sbuf => PInv (snd bs) /\ (fst bs = false -> snd bs = s))
          (do s' <- next_item (set_cat (advance s k) CNone); Ok (true, s'))).
  { intros k Hk. eapply good_bind.
    - apply (next_item_after_token _ 0). split.
      + pose proof (advance_inv s k HI ltac:(lia)) as A. exact A.
      + split; [reflexivity|]. left. cbn. lia.
    - intros s' _ (A & B & C & _). cbn [good fst snd]. split; [|discriminate].
      split; [exact A|]. split; [lia|exact C]. }
  destruct (scat s) eqn:Ec; try discriminate.
  - destruct (negb (is_word_char sym)); [apply Fin; lia|cbn; repeat split; auto].
  - destruct (sym_eqb sym (SChar 34)); [apply Fin; lia|cbn; repeat split; auto].
Qed.

Lemma skip_unknown_marker_good s : PInv s ->
  good (fun bs => PInv (snd bs) /\ (fst bs = false -> snd bs = s)) (skip_unknown_marker s).
Proof.
  intros (HI & H1 & Hfr). unfold skip_unknown_marker.
  assert (Same : good (fun bs : bool * sbuf => PInv (snd bs) /\ (fst bs = false -> snd bs = s)) (Ok (false, s))).
  { cbn. repeat split; auto. }
  destruct (scat s) eqn:Ec; try exact Same.
  destruct (sym_at (rest s)) as [| |sy n1] eqn:Es1; try exact Same.
  destruct sy as [c|b|b]; try exact Same.
  destruct (b =? 35) eqn:E35.
  2:{ destruct b as [|p]; [exact Same|].
      repeat (destruct p as [p|p|]; try exact Same). cbn in E35. discriminate. }
  apply N.eqb_eq in E35. subst b.
  destruct (sym_at (skipn n1 (rest s))) as [| |sym n2] eqn:Es2; try exact Same.
  destruct (is_word_char sym); [exact Same|].
  pose proof (sym_at_len _ _ _ Es1) as L1. pose proof (skipn_sym_len _ _ _ _ Es2) as L2.
  eapply good_bind.
  - apply (next_item_after_token _ 0). split.
    + pose proof (advance_inv s (n1 + n2) HI ltac:(lia)) as A. exact A.
    + split; [reflexivity|]. left. cbn. lia.
  - intros s' _ (A & B & C & _). cbn [good fst snd]. split; [|discriminate].
    split; [exact A|]. split; [lia|exact C].
Qed.

(* ---------------------------------------------------------------- scan_name *)

Lemma store_behind s i v : Inv s -> (i < start s)%nat ->
  exists s', store s i v = Ok s' /\ Inv s' /\ start s' = start s /\ scat s' = scat s /\
             length (buf s') = length (buf s) /\ rest s' = rest s.
Proof.
  intros HI Hi. pose proof (store_spec s i v HI) as St.
  assert (Hin : Nat.ltb i (length (buf s)) = true) by (apply Nat.ltb_lt; unfold Inv in *; lia).
  rewrite Hin in St. destruct St as (s' & E & A & B & C & D & F). exists s'. repeat split; auto.
Qed.

Lemma TEnd_same s s' w : TEnd s w -> Inv s' -> start s' = start s -> scat s' = scat s -> rest s' = rest s ->
  TEnd s' w.
Proof.
  intros (A & B & C) HI Hs Hc Hr. split; [exact HI|]. split; [congruence|]. rewrite Hs, Hr. exact C.
Qed.

Definition lbl_post (s : sbuf) (x : lblres * sbuf * nat) : Prop :=
  let '(res, s', w') := x in
  length (buf s') = length (buf s) /\ (start s <= start s')%nat /\
  match res with
  | LDot => Inv s' /\ (w' < start s')%nat /\ is_token (scat s') = true /\ (start s < start s')%nat
  | _ => TEnd s' w'
  end.

Definition asc_post (s : sbuf) (st : nat) (x : option lblres * sbuf * nat) : Prop :=
  let '(r, s', w') := x in
  length (buf s') = length (buf s) /\ (start s <= start s')%nat /\
  match r with
  | Some LDot => Inv s' /\ (w' < start s')%nat /\ is_token (scat s') = true /\ (start s < start s')%nat
  | Some _ => False
  | None => Inv s' /\ (st < w')%nat /\ (w' <= start s')%nat /\
            (is_token (scat s') = true \/ (is_token (scat s') = false /\ (w' < start s')%nat))
  end.

Lemma label_ascii_loop_good : forall fuel s st w latest,
  Inv s -> (st < w)%nat -> w = start s -> is_token (scat s) = true -> (length (rest s) < fuel)%nat ->
  good (asc_post s st) (label_ascii_loop fuel s st w latest).
Proof.
  induction fuel as [|f IH]; intros s st w latest HI Hst Hw Ht Hf; [lia|].
  cbn [label_ascii_loop]. destruct (next_ascii_symbol s) as [r s1] eqn:E.
  pose proof (next_ascii_symbol_inv _ _ _ HI E) as (HI1 & Hb & Hs & Hr).
  pose proof (next_ascii_symbol_cat _ _ _ E) as Hc.
  destruct r as [ch|].
  - destruct (Hr ltac:(discriminate)) as [Hst1 Hsc].
    destruct (ch =? 46).
    + destruct (store_behind s1 st (len_octet w st) HI1 ltac:(lia)) as (s2 & E2 & A & B & C & D & F).
      rewrite E2. cbn [bind good asc_post]. repeat split; try lia; try congruence.
    + destruct (too_long (S w) latest label_latest_ge); [exact I|].
      assert (Hf1 : (length (rest s1) < f)%nat).
      { rewrite (rest_length s HI) in Hf. rewrite (rest_length s1 HI1). unfold Inv in *. rewrite Hb in *. lia. }
      specialize (IH s1 st (S w) latest HI1 ltac:(lia) ltac:(lia) ltac:(congruence) Hf1).
      destruct (label_ascii_loop f s1 st (S w) latest) as [[[r s'] w']| | |]; cbn [good asc_post] in *; auto.
      destruct IH as (A & B & C). split; [congruence|]. split; [lia|].
      destruct r as [[]|]; auto. destruct C as (C1 & C2 & C3 & C4). repeat split; auto. lia.
  - cbn [good asc_post]. split; [rewrite Hb; reflexivity|]. split; [exact Hs|].
    split; [exact HI1|]. split; [exact Hst|]. split; [lia|].
    destruct Hc as [Hc | (Q1 & Q2 & Q3 & _)].
    + left. congruence.
    + right. rewrite Q2. split; [reflexivity|lia].
Qed.

Lemma label_sym_loop_good : forall fuel s st w latest,
  Inv s -> (st < w)%nat -> (w <= start s)%nat ->
  (is_token (scat s) = true \/ (is_token (scat s) = false /\ (w < start s)%nat)) ->
  (length (rest s) < fuel)%nat ->
  good (lbl_post s) (label_sym_loop fuel s st w latest).
Proof.
  induction fuel as [|f IH]; intros s st w latest HI Hst Hw Ht Hf; [lia|].
  cbn [label_sym_loop].
  pose proof (next_symbol_gen_no_panic (fun _ => true) s) as NP. fold next_symbol in NP.
  destruct (next_symbol s) as [[r s1]| | |] eqn:E; cbn [bind good]; auto.
  pose proof (next_symbol_gen_inv _ _ _ _ HI E) as (HI1 & Hb & Hs & Hr & Hsame).
  destruct r as [sym|].
  - destruct (Hr ltac:(discriminate)) as [Hlt Ht1].
    destruct (sym_eqb sym (SChar 46)).
    + destruct (store_behind s1 st (len_octet w st) HI1 ltac:(lia)) as (s2 & E2 & A & B & C & D & F).
      rewrite E2. cbn [bind good lbl_post]. repeat split; try lia; try congruence.
    + destruct (into_octet sym) as [b|]; [|exact I].
      destruct (store_behind s1 w b HI1 ltac:(lia)) as (s2 & E2 & A & B & C & D & F).
      rewrite E2. cbn [bind].
      destruct (too_long (S w) latest label_latest_ge); [exact I|].
      assert (Hf2 : (length (rest s2) < f)%nat).
      { rewrite F. rewrite (rest_length s HI) in Hf. rewrite (rest_length s1 HI1). unfold Inv in *. rewrite Hb in *. lia. }
      specialize (IH s2 st (S w) latest A ltac:(lia) ltac:(lia) ltac:(left; congruence) Hf2).
      destruct (label_sym_loop f s2 st (S w) latest) as [[[res s'] w']| | |]; cbn [good lbl_post] in *; auto.
      destruct IH as (P1 & P2 & P3). split; [congruence|]. split; [lia|].
      destruct res; auto. destruct P3 as (C1 & C2 & C3 & C4). repeat split; auto. lia.
  - assert (HT : TEnd s1 w).
    { destruct Ht as [Ht | (Ht & Hlt)].
      - destruct (next_symbol_end _ _ HI Ht E) as (Hn & _ & _ & _ & Hd).
        split; [exact HI1|]. split; [exact Hn|].
        destruct Hd as [Hd | Hd]; [left; lia | right; split; [lia|exact Hd]].
      - rewrite (Hsame Ht). split; [exact HI|]. split; [exact Ht|]. left. exact Hlt. }
    destruct (Nat.ltb (st + 1) w).
    + destruct (store_behind s1 st (len_octet w st) HI1 ltac:(lia)) as (s2 & E2 & A & B & C & D & F).
      rewrite E2. cbn [bind good lbl_post]. split; [congruence|]. split; [lia|].
      eapply TEnd_same; eauto.
    + cbn [good lbl_post]. split; [congruence|]. split; [lia|]. apply (TEnd_weaken s1 w st); [lia|exact HT].
Qed.

Lemma convert_label_good s w : Inv s -> (w < start s)%nat -> is_token (scat s) = true ->
  good (lbl_post s) (convert_label s w).
Proof.
  intros HI Hw Ht. unfold convert_label.
  assert (Hfu : (length (rest s) < fuel_of s)%nat) by (rewrite (rest_length s HI); unfold fuel_of; lia).
  destruct (Nat.eqb (S w) (start s)) eqn:Ee.
  - apply Nat.eqb_eq in Ee.
    eapply good_bind; [apply (label_ascii_loop_good (fuel_of s) s w (S w) _ HI ltac:(lia) Ee Ht Hfu)|].
    intros [[r s1] w1] _ P. cbn [asc_post] in P. destruct P as (P1 & P2 & P3).
    destruct r as [[]|]; try contradiction.
    + cbn [good lbl_post]. split; [exact P1|]. split; [exact P2|exact P3].
    + destruct P3 as (HI1 & Q1 & Q2 & Q3).
      assert (Hfu1 : (length (rest s1) < fuel_of s1)%nat) by (rewrite (rest_length s1 HI1); unfold fuel_of; lia).
      pose proof (label_sym_loop_good (fuel_of s1) s1 w w1 (S w + label_latest) HI1 Q1 Q2 Q3 Hfu1) as G.
      destruct (label_sym_loop (fuel_of s1) s1 w w1 (S w + label_latest)) as [[[res s2] w2]| | |];
        cbn [good lbl_post] in *; auto.
      destruct G as (G1 & G2 & G3). split; [congruence|]. split; [lia|].
      destruct res; auto. destruct G3 as (C1 & C2 & C3 & C4). repeat split; auto. lia.
  - apply Nat.eqb_neq in Ee.
    apply (label_sym_loop_good (fuel_of s) s w (S w) _ HI ltac:(lia) ltac:(lia) (or_introl Ht) Hfu).
Qed.

Lemma chain_good rel o : no_panic (chain rel o).
Proof. unfold chain. destruct (Nat.ltb chain_max (length rel + length o)); exact I. Qed.

Lemma name_loop_good : forall fuel origin s w,
  Inv s -> (w < start s)%nat -> is_token (scat s) = true -> (length (rest s) < fuel)%nat ->
  good (fun rs => PInv (snd rs)) (name_loop fuel origin s w).
Proof.
  induction fuel as [|f IH]; intros origin s w HI Hw Ht Hf; [lia|].
  cbn [name_loop].
  eapply good_bind; [apply (convert_label_good s w HI Hw Ht)|].
  intros [[res s1] w1] _ P. cbn [lbl_post] in P. destruct P as (P1 & P2 & P3).
  assert (Split : forall s2 (K : list N * sbuf -> outcome (list N * sbuf)),
     (forall rs, PInv (snd rs) -> good (fun x : list N * sbuf => PInv (snd x)) (K rs)) ->
     Inv s2 -> (w1 < start s2)%nat -> fresh s2 ->
     good (fun rs : list N * sbuf => PInv (snd rs)) (do rs <- split_to s2 w1; K rs)).
  { intros s2 K HK HI2 Hw2 Hf2. pose proof (split_to_spec s2 w1 HI2) as Sp.
    assert (L : Nat.leb w1 (start s2) = true) by (apply Nat.leb_le; lia). rewrite L in Sp.
    destruct Sp as (r & s3 & E3 & HI3 & _ & Hs3). rewrite E3. cbn [bind].
    apply HK. cbn [snd]. split; [exact HI3|]. split; [lia|].
    unfold split_to in E3. rewrite L in E3. injection E3 as _ <-.
    intros Eu. cbn [scat] in Eu. destruct (Hf2 Eu) as (c & t & Hr & Hd). exists c, t. split; [|exact Hd].
    unfold rest in *. cbn [buf start]. rewrite skipn_add.
    replace (w1 + (start s2 - w1))%nat with (start s2) by lia. exact Hr. }
  destruct res.
  - (* LNone *)
    eapply good_bind; [apply next_item_after_token; exact P3|].
    intros s2 _ (HI2 & Hw2 & Hf2 & _).
    destruct (Nat.eqb w 0).
    + destruct origin as [o|]; cbn [get_origin bind good]; auto.
      pose proof (chain_good [] o) as Cg. destruct (chain [] o); cbn [bind good no_panic snd] in *; auto.
      split; [exact HI2|]. split; [lia|exact Hf2].
    + apply Split; auto. intros rs Hrs. pose proof (chain_good (fst rs) [0]) as Cg.
      destruct (chain (fst rs) [0]); cbn [bind good no_panic snd] in *; auto.
  - (* LDot *)
    destruct P3 as (HI1 & Hw1 & Ht1 & Hlt).
    destruct (Nat.eqb w1 1).
    + pose proof (next_symbol_gen_no_panic (fun _ => true) s1) as NP. fold next_symbol in NP.
      destruct (next_symbol s1) as [[r s2]| | |] eqn:E; cbn [bind good]; auto.
      destruct r; [exact I|].
      destruct (next_symbol_end _ _ HI1 Ht1 E) as (Hn & _ & Hs2 & HI2 & Hd).
      eapply good_bind; [apply (next_item_after_token s2 0)|].
      { split; [exact HI2|]. split; [exact Hn|]. left. lia. }
      intros s3 _ (HI3 & Hw3 & Hf3 & _). cbn [good snd]. split; [exact HI3|]. split; [lia|exact Hf3].
    + destruct (name_rejects_empty_label && Nat.eqb w1 (S w)); [exact I|].
      destruct (if name_max_ge then Nat.leb name_max w1 else Nat.ltb name_max w1); [exact I|].
      apply IH; auto.
      rewrite (rest_length s HI) in Hf. rewrite (rest_length s1 HI1). unfold Inv in *. rewrite P1. lia.
  - (* LEnd *)
    eapply good_bind; [apply next_item_after_token; exact P3|].
    intros s2 _ (HI2 & Hw2 & Hf2 & _).
    apply Split; auto. intros rs Hrs. destruct origin as [o|]; cbn [get_origin bind good]; auto.
    pose proof (chain_good (fst rs) o) as Cg.
    destruct (chain (fst rs) o); cbn [bind good no_panic snd] in *; auto.
Qed.

Lemma scan_name_good origin s : PInv s -> good (fun rs => PInv (snd rs)) (scan_name origin s).
Proof.
  intros HP. pose proof HP as (HI & H1 & Hfr). unfold scan_name.
  destruct (require_token s) as [[]| | |] eqn:Erq; cbn [bind good]; auto;
    try (unfold require_token in Erq; destruct (scat s); discriminate).
  assert (Htok : is_token (scat s) = true).
  { unfold require_token in Erq. destruct (scat s); try discriminate; reflexivity. }
  destruct reader_guards_present as (_ & _ & _ & _ & Hat). rewrite Hat.
  eapply good_bind; [apply skip_at_token_good; exact HP|].
  intros [b s1] _ (HP1 & Hsame). cbn [fst snd] in *.
  destruct b.
  - destruct origin as [o|]; cbn [get_origin bind good]; auto.
    pose proof (chain_good [] o) as Cg. destruct (chain [] o); cbn [bind good no_panic snd] in *; auto.
  - rewrite (Hsame eq_refl). destruct (start s) as [|k] eqn:Es; [lia|].
    pose proof (trim_to_spec s k HI) as T.
    assert (L : Nat.leb k (start s) = true) by (apply Nat.leb_le; lia). rewrite L in T.
    destruct T as (s0 & E0 & HI0 & Hst0 & Hr0 & Hc0 & _). rewrite E0. cbn [bind].
    apply name_loop_good; auto; try lia; try congruence.
    rewrite (rest_length s0 HI0). unfold fuel_of. lia.
Qed.

(* -------------------------------------------------------- scan_charstr_entry *)

Lemma split_to_PInv s w : Inv s -> (w < start s)%nat -> fresh s ->
  good (fun rs => PInv (snd rs)) (split_to s w).
Proof.
  intros HI Hw Hf. pose proof (split_to_spec s w HI) as Sp.
  assert (L : Nat.leb w (start s) = true) by (apply Nat.leb_le; lia). rewrite L in Sp.
  destruct Sp as (r & s3 & E3 & HI3 & _ & Hs3). rewrite E3. cbn [good snd].
  split; [exact HI3|]. split; [lia|].
  unfold split_to in E3. rewrite L in E3. injection E3 as _ <-.
  intros Eu. cbn [scat] in Eu. destruct (Hf Eu) as (c & t & Hr & Hd). exists c, t. split; [|exact Hd].
  unfold rest in *. cbn [buf start]. rewrite skipn_add.
  replace (w + (start s - w))%nat with (start s) by lia. exact Hr.
Qed.

Definition cs_asc_post (s : sbuf) (w : nat) (x : sbuf * nat) : Prop :=
  let '(s', w') := x in
  length (buf s') = length (buf s) /\ (start s <= start s')%nat /\ Inv s' /\ (w <= w')%nat /\
  (w' <= start s')%nat /\
  (is_token (scat s') = true \/ (is_token (scat s') = false /\ (w' < start s')%nat)).

Lemma charstr_ascii_loop_good : forall fuel s w latest,
  Inv s -> w = start s -> is_token (scat s) = true -> (length (rest s) < fuel)%nat ->
  good (cs_asc_post s w) (charstr_ascii_loop fuel s w latest).
Proof.
  induction fuel as [|f IH]; intros s w latest HI Hw Ht Hf; [lia|].
  cbn [charstr_ascii_loop]. destruct (next_ascii_symbol s) as [r s1] eqn:E.
  pose proof (next_ascii_symbol_inv _ _ _ HI E) as (HI1 & Hb & Hs & Hr).
  pose proof (next_ascii_symbol_cat _ _ _ E) as Hc.
  destruct r as [ch|].
  - destruct (Hr ltac:(discriminate)) as [Hst1 Hsc].
    destruct (too_long (S w) latest charstr_latest_ge); [exact I|].
    assert (Hf1 : (length (rest s1) < f)%nat).
    { rewrite (rest_length s HI) in Hf. rewrite (rest_length s1 HI1). unfold Inv in *. rewrite Hb in *. lia. }
    specialize (IH s1 (S w) latest HI1 ltac:(lia) ltac:(congruence) Hf1).
    destruct (charstr_ascii_loop f s1 (S w) latest) as [[s' w']| | |]; cbn [good cs_asc_post] in *; auto.
    destruct IH as (A & B & C & D & F & G). repeat split; auto; try lia; congruence.
  - cbn [good cs_asc_post]. split; [rewrite Hb; reflexivity|]. split; [exact Hs|].
    split; [exact HI1|]. split; [lia|]. split; [lia|].
    destruct Hc as [Hc | (Q1 & Q2 & Q3 & _)].
    + left. congruence.
    + right. rewrite Q2. split; [reflexivity|lia].
Qed.

Definition cs_post (s : sbuf) (w : nat) (x : sbuf * nat) : Prop :=
  let '(s', w') := x in
  Inv s' /\ (w' < start s')%nat /\ fresh s' /\ length (buf s') = length (buf s) /\ (w <= w')%nat.

Lemma charstr_sym_loop_good : forall fuel s st w latest,
  Inv s -> (st < w)%nat -> (w <= start s)%nat ->
  (is_token (scat s) = true \/ (is_token (scat s) = false /\ (w < start s)%nat)) ->
  (length (rest s) < fuel)%nat ->
  good (cs_post s w) (charstr_sym_loop fuel s st w latest).
Proof.
  induction fuel as [|f IH]; intros s st w latest HI Hst Hw Ht Hf; [lia|].
  cbn [charstr_sym_loop].
  pose proof (next_symbol_gen_no_panic (fun _ => true) s) as NP. fold next_symbol in NP.
  destruct (next_symbol s) as [[r s1]| | |] eqn:E; cbn [bind good]; auto.
  pose proof (next_symbol_gen_inv _ _ _ _ HI E) as (HI1 & Hb & Hs & Hr & Hsame).
  destruct r as [sym|].
  - destruct (Hr ltac:(discriminate)) as [Hlt Ht1].
    destruct (into_octet sym) as [b|]; [|exact I].
    destruct (store_behind s1 w b HI1 ltac:(lia)) as (s2 & E2 & A & B & C & D & F).
    rewrite E2. cbn [bind].
    destruct (too_long (S w) latest charstr_latest_ge); [exact I|].
    assert (Hf2 : (length (rest s2) < f)%nat).
    { rewrite F. rewrite (rest_length s HI) in Hf. rewrite (rest_length s1 HI1). unfold Inv in *. rewrite Hb in *. lia. }
    specialize (IH s2 st (S w) latest A ltac:(lia) ltac:(lia) ltac:(left; congruence) Hf2).
    destruct (charstr_sym_loop f s2 st (S w) latest) as [[s' w']| | |]; cbn [good cs_post] in *; auto.
    destruct IH as (P1 & P2 & P3 & P4 & P5). repeat split; auto; try lia; congruence.
  - assert (HT : TEnd s1 w).
    { destruct Ht as [Ht | (Ht & Hlt)].
      - destruct (next_symbol_end _ _ HI Ht E) as (Hn & _ & _ & _ & Hd).
        split; [exact HI1|]. split; [exact Hn|].
        destruct Hd as [Hd | Hd]; [left; lia | right; split; [lia|exact Hd]].
      - rewrite (Hsame Ht). split; [exact HI|]. split; [exact Ht|]. left. exact Hlt. }
    eapply good_bind; [apply next_item_after_token; exact HT|].
    intros s2 _ (HI2 & Hw2 & Hf2 & Hb2).
    destruct (store_behind s2 st (len_octet w st) HI2 ltac:(lia)) as (s3 & E3 & A & B & C & D & F).
    rewrite E3. cbn [bind good cs_post]. split; [exact A|]. split; [lia|]. split.
    + intros Eu. rewrite C in Eu. destruct (Hf2 Eu) as (c & t & Hr2 & Hd). exists c, t. rewrite F. auto.
    + split; [congruence|lia].
Qed.

Lemma convert_charstr_good s w : Inv s -> (w < start s)%nat -> fresh s ->
  good (fun x => cs_post s (S w) x) (convert_charstr s w).
Proof.
  intros HI Hw Hfr. unfold convert_charstr.
  destruct reader_guards_present as (_ & _ & _ & Hrt & _). rewrite Hrt.
  destruct (require_token s) as [[]| | |] eqn:Erq; cbn [bind good]; auto;
    try (unfold require_token in Erq; destruct (scat s); discriminate).
  assert (Ht : is_token (scat s) = true).
  { unfold require_token in Erq. destruct (scat s); try discriminate; reflexivity. }
  assert (Hfu : (length (rest s) < fuel_of s)%nat) by (rewrite (rest_length s HI); unfold fuel_of; lia).
  destruct (Nat.eqb (S w) (start s)) eqn:Ee.
  - apply Nat.eqb_eq in Ee.
    eapply good_bind; [apply (charstr_ascii_loop_good (fuel_of s) s (S w) _ HI Ee Ht Hfu)|].
    intros [s1 w1] _ P. cbn [cs_asc_post fst snd] in *. destruct P as (P1 & P2 & HI1 & P4 & P5 & P6).
    assert (Hfu1 : (length (rest s1) < fuel_of s1)%nat) by (rewrite (rest_length s1 HI1); unfold fuel_of; lia).
    pose proof (charstr_sym_loop_good (fuel_of s1) s1 w w1 (S w + charstr_latest) HI1 ltac:(lia) P5 P6 Hfu1) as G.
    destruct (charstr_sym_loop (fuel_of s1) s1 w w1 (S w + charstr_latest)) as [[s2 w2]| | |];
      cbn [good cs_post] in *; auto.
    destruct G as (G1 & G2 & G3 & G4 & G5). repeat split; auto; try lia; congruence.
  - apply Nat.eqb_neq in Ee. cbn [bind fst snd].
    apply (charstr_sym_loop_good (fuel_of s) s w (S w) _ HI ltac:(lia) ltac:(lia) (or_introl Ht) Hfu).
Qed.

Lemma charstr_entry_loop_good : forall fuel s w,
  Inv s -> (w < start s)%nat -> fresh s -> (length (buf s) - w < fuel)%nat ->
  good (fun x : sbuf * nat => Inv (fst x) /\ (snd x < start (fst x))%nat /\ fresh (fst x))
       (charstr_entry_loop fuel s w).
Proof.
  induction fuel as [|f IH]; intros s w HI Hw Hfr Hf; [lia|].
  cbn [charstr_entry_loop].
  eapply good_bind; [apply (convert_charstr_good s w HI Hw Hfr)|].
  intros [s1 w1] _ P. cbn [cs_post fst snd] in *. destruct P as (P1 & P2 & P3 & P4 & P5).
  destruct (is_line_feed s1).
  - cbn [good fst snd]. auto.
  - apply IH; auto. rewrite P4. unfold Inv in *. lia.
Qed.

Lemma scan_charstr_entry_good s : PInv s -> good (fun rs => PInv (snd rs)) (scan_charstr_entry s).
Proof.
  intros (HI & H1 & Hfr). unfold scan_charstr_entry.
  destruct (start s) as [|k] eqn:Es; [lia|].
  pose proof (trim_to_spec s k HI) as T.
  assert (L : Nat.leb k (start s) = true) by (apply Nat.leb_le; lia). rewrite L in T.
  destruct T as (s0 & E0 & HI0 & Hst0 & Hr0 & Hc0 & _). rewrite E0. cbn [bind].
  assert (Hf0 : fresh s0).
  { intros Eu. rewrite Hc0 in Eu. rewrite Hr0. apply Hfr. exact Eu. }
  eapply good_bind; [apply (charstr_entry_loop_good (S (fuel_of s0)) s0 0 HI0 ltac:(lia) Hf0)|].
  { unfold fuel_of. lia. }
  intros [s1 w1] _ (A & B & C). cbn [fst snd] in *. apply split_to_PInv; auto.
Qed.

(* ------------------------------------------------------------ convert_entry *)

Lemma store_list_good : forall l s w, Inv s -> (w + length l <= start s)%nat ->
  exists s', store_list s w l = Ok s' /\ Inv s' /\ start s' = start s /\ scat s' = scat s /\
             length (buf s') = length (buf s) /\ rest s' = rest s.
Proof.
  induction l as [|b t IH]; intros s w HI Hw; cbn [store_list length] in *.
  - exists s. repeat split; auto.
  - destruct (store_behind s w b HI ltac:(lia)) as (s1 & E1 & A & B & C & D & F). rewrite E1. cbn [bind].
    destruct (IH s1 (S w) A ltac:(lia)) as (s2 & E2 & A2 & B2 & C2 & D2 & F2).
    exists s2. repeat split; auto; congruence.
Qed.

Definition ad_post (s : sbuf) (x : sbuf * nat * option (list N)) : Prop :=
  let '(s', w', b') := x in
  Inv s' /\ start s' = start s /\ scat s' = scat s /\ rest s' = rest s /\
  length (buf s') = length (buf s) /\ (b' = None -> (w' <= start s')%nat).

Lemma append_data_good s data w b : Inv s -> (b = None -> (w <= start s)%nat) ->
  good (ad_post s) (append_data s data w b).
Proof.
  intros HI Hw. unfold append_data. destruct b as [bl|].
  - cbn [good ad_post]. repeat split; auto; discriminate.
  - specialize (Hw eq_refl). destruct (Nat.ltb (start s) (w + length data)) eqn:El.
    + assert (Lw : Nat.leb w (length (buf s)) = true) by (apply Nat.leb_le; unfold Inv in *; lia).
      rewrite Lw. cbn [good ad_post]. repeat split; auto; discriminate.
    + apply Nat.ltb_ge in El.
      destruct (store_list_good data s w HI El) as (s1 & E1 & A & B & C & D & F). rewrite E1.
      cbn [bind good ad_post]. repeat split; auto. intros _. lia.
Qed.

Section ConvGood.
Variable St : Type.
Variable process : St -> symbol -> outcome (St * list N).
Variable tail : St -> outcome unit.
(* an invariant of the converter state under which it never panics *)
Variable SI : St -> Prop.
Hypothesis Hproc : forall h sym, SI h -> good (fun x => SI (fst x)) (process h sym).
Hypothesis Htail : forall h, no_panic (tail h).

Definition ct_post (s : sbuf) (x : St * sbuf * nat * option (list N)) : Prop :=
  let '(h', s', w', b') := x in
  SI h' /\ Inv s' /\ is_token (scat s') = false /\ length (buf s') = length (buf s) /\
  ((start s < start s')%nat \/ next_symbol s = Ok (None, s')) /\ (start s <= start s')%nat /\
  (b' = None -> TEnd s' w').

Lemma convert_token_loop_good : forall fuel h s w b, SI h ->
  Inv s -> (b = None -> (w <= start s)%nat) -> is_token (scat s) = true ->
  (length (rest s) < fuel)%nat ->
  good (ct_post s) (convert_token_loop St process fuel h s w b).
Proof.
  induction fuel as [|f IH]; intros h s w b HS HI Hw Ht Hf; [lia|].
  cbn [convert_token_loop].
  pose proof (next_symbol_gen_no_panic (fun _ => true) s) as NP. fold next_symbol in NP.
  destruct (next_symbol s) as [[r s1]| | |] eqn:E; cbn [bind good]; auto.
  pose proof (next_symbol_gen_inv _ _ _ _ HI E) as (HI1 & Hb & Hs & Hr & _).
  destruct r as [sym|].
  - destruct (Hr ltac:(discriminate)) as [Hlt Ht1].
    assert (Hf1 : (length (rest s1) < f)%nat).
    { rewrite (rest_length s HI) in Hf. rewrite (rest_length s1 HI1). unfold Inv in *. rewrite Hb in *. lia. }
    pose proof (Hproc h sym HS) as Hproc1. destruct (process h sym) as [[h1 data]| | |]; cbn [bind good fst snd] in *; auto.
    assert (Rec : forall s2 w2 b2, Inv s2 -> start s2 = start s1 -> scat s2 = scat s1 -> rest s2 = rest s1 ->
              length (buf s2) = length (buf s1) -> (b2 = None -> (w2 <= start s2)%nat) ->
              good (ct_post s) (convert_token_loop St process f h1 s2 w2 b2)).
    { intros s2 w2 b2 A B C D F G.
      specialize (IH h1 s2 w2 b2 Hproc1 A G ltac:(congruence) ltac:(rewrite D; exact Hf1)).
      destruct (convert_token_loop St process f h1 s2 w2 b2) as [[[[h' s'] w'] b']| | |];
        cbn [good ct_post] in *; auto.
      destruct IH as (Q0 & Q1 & Q2 & Q3 & Q4 & Q5 & Q6). split; [exact Q0|]. split; [exact Q1|]. split; [exact Q2|].
      split; [congruence|]. split; [left; lia|]. split; [lia|exact Q6]. }
    destruct data as [|d0 dt].
    + apply Rec; auto. intros Eb. specialize (Hw Eb). lia.
    + eapply good_bind; [apply (append_data_good s1 (d0 :: dt) w b HI1)|].
      { intros Eb. specialize (Hw Eb). lia. }
      intros [[s2 w2] b2] _ P. cbn [ad_post] in P. destruct P as (A & B & C & D & F & G).
      apply Rec; auto.
  - destruct (next_symbol_end _ _ HI Ht E) as (Hn & _ & _ & _ & Hd).
    cbn [good ct_post]. split; [exact HS|]. split; [exact HI1|]. split; [exact Hn|]. split; [congruence|].
    split; [right; exact E|]. split; [exact Hs|]. intros Eb. specialize (Hw Eb).
    split; [exact HI1|]. split; [exact Hn|].
    destruct Hd as [Hd | Hd]; [left; lia | right; split; [lia|exact Hd]].
Qed.

Lemma fresh_first_symbol s s' : Inv s -> fresh s -> is_token (scat s) = true ->
  next_symbol s = Ok (None, s') -> (start s < start s')%nat.
Proof.
  intros HI Hfr Ht E. unfold next_symbol, next_symbol_gen in E. destruct (scat s) eqn:Ec; try discriminate.
  - destruct (Hfr Ec) as (c & t & Hr & Hd).
    destruct (sym_at (rest s)) as [| |sym n] eqn:Es; try discriminate.
    destruct (negb (is_word_char sym)) eqn:Ew; [|discriminate]. apply negb_true_iff in Ew.
    destruct (nonword_is_raw_delim _ _ _ guards_ov Es Ew) as (c' & t' & Hl & _ & _ & Hd').
    rewrite Hr in Hl. injection Hl as -> _. congruence.
  - destruct (sym_at (rest s)) as [| |sym n] eqn:Es; try discriminate. cbn in E.
    pose proof (sym_at_len _ _ _ Es). destruct (sym_eqb sym (SChar 34)); [|discriminate].
    injection E as <-. cbn. lia.
Qed.

Definition ce_post (x : St * sbuf * nat * option (list N)) : Prop :=
  let '(h', s', w', b') := x in
  SI h' /\ Inv s' /\ (1 <= start s')%nat /\ fresh s' /\ (b' = None -> (w' < start s')%nat).

Lemma convert_entry_loop_good : forall fuel h s w b, SI h ->
  Inv s -> (1 <= start s)%nat -> fresh s -> (b = None -> (w < start s)%nat) ->
  (length (rest s) < fuel)%nat ->
  good ce_post (convert_entry_loop St process fuel h s w b).
Proof.
  induction fuel as [|f IH]; intros h s w b HS HI H1 Hfr Hw Hf; [lia|].
  cbn [convert_entry_loop]. destruct (is_line_feed s).
  { cbn [good ce_post]. auto. }
  destruct (require_token s) as [[]| | |] eqn:Erq; cbn [bind good]; auto;
    try (unfold require_token in Erq; destruct (scat s); discriminate).
  assert (Ht : is_token (scat s) = true).
  { unfold require_token in Erq. destruct (scat s); try discriminate; reflexivity. }
  assert (Hfu : (length (rest s) < fuel_of s)%nat) by (rewrite (rest_length s HI); unfold fuel_of; lia).
  eapply good_bind; [apply (convert_token_loop_good (fuel_of s) h s w b HS HI)|]; auto.
  { intros Eb. specialize (Hw Eb). lia. }
  intros [[[h1 s1] w1] b1] _ P. cbn [ct_post] in P. destruct P as (HS1 & HI1 & Hn1 & Hl1 & Hp1 & Hs1 & HT1).
  assert (Hprog : (start s < start s1)%nat).
  { destruct Hp1 as [Hp1 | Hp1]; [exact Hp1|]. eapply fresh_first_symbol; eauto. }
  set (wz := match b1 with None => w1 | Some _ => 0%nat end).
  assert (HTz : TEnd s1 wz).
  { unfold wz. destruct b1; [|apply HT1; reflexivity].
    split; [exact HI1|]. split; [exact Hn1|]. left. lia. }
  eapply good_bind; [apply next_item_after_token; exact HTz|].
  intros s2 E2 (HI2 & Hw2 & Hf2 & Hb2). pose proof (next_item_mono _ _ E2) as Hm2.
  apply IH; auto; try lia.
  - intros Eb. subst b1. exact Hw2.
  - rewrite (rest_length s HI) in Hf. rewrite (rest_length s2 HI2). unfold Inv in *. rewrite Hb2, Hl1. lia.
Qed.

Lemma convert_entry_good init s : SI init -> PInv s ->
  good (fun rs => PInv (snd rs)) (convert_entry St process tail init s).
Proof.
  intros HS0 (HI & H1 & Hfr). unfold convert_entry.
  assert (Hfu : (length (rest s) < fuel_of s)%nat) by (rewrite (rest_length s HI); unfold fuel_of; lia).
  eapply good_bind; [apply (convert_entry_loop_good (fuel_of s) init s 0 None HS0 HI H1 Hfr ltac:(intros _; lia) Hfu)|].
  intros [[[h1 s1] w1] b1] _ P. cbn [ce_post] in P. destruct P as (_ & A & B & C & D).
  specialize (Htail h1). destruct (tail h1); cbn [bind good no_panic] in *; auto.
  destruct b1 as [bl|].
  - cbn [good snd]. split; [exact A|]. split; [exact B|exact C].
  - apply split_to_PInv; auto.
Qed.
End ConvGood.

(* ------------------------------------------------------------ convert_token *)

Definition ad_post2 (s : sbuf) (w : nat) (data : list N) (b : option (list N))
  (x : sbuf * nat * option (list N)) : Prop :=
  let '(s', w', b') := x in
  Inv s' /\ start s' = start s /\ scat s' = scat s /\ rest s' = rest s /\
  (b' = None -> b = None /\ w' = (w + length data)%nat).

Lemma append_data_good2 s data w b : Inv s -> (b = None -> (w <= start s)%nat) ->
  good (ad_post2 s w data b) (append_data s data w b).
Proof.
  intros HI Hw. unfold append_data. destruct b as [bl|].
  - cbn [good ad_post2]. repeat split; auto; discriminate.
  - specialize (Hw eq_refl). destruct (Nat.ltb (start s) (w + length data)) eqn:El.
    + assert (Lw : Nat.leb w (length (buf s)) = true) by (apply Nat.leb_le; unfold Inv in *; lia).
      rewrite Lw. cbn [good ad_post2]. repeat split; auto; discriminate.
    + apply Nat.ltb_ge in El.
      destruct (store_list_good data s w HI El) as (s1 & E1 & A & B & C & D & F). rewrite E1.
      cbn [bind good ad_post2]. repeat split; auto.
Qed.

Section ConvTokGood.
Variable St : Type.
Variable process : St -> symbol -> outcome (St * list N).
Variable tail_data : St -> outcome (list N).
Variable SI : St -> Prop.
(* symbols consumed whose output has not been handed out yet: the converter
   never hands out more octets than it has consumed symbols *)
Variable credit : St -> nat.
Hypothesis Hproc : forall h sym, SI h ->
  good (fun x => SI (fst x) /\ (credit (fst x) + length (snd x) <= credit h + 1)%nat) (process h sym).
Hypothesis Htail : forall h, SI h -> good (fun d => (length d <= credit h)%nat) (tail_data h).

Definition ct2_post (s : sbuf) (x : St * sbuf * nat * option (list N)) : Prop :=
  let '(h', s', w', b') := x in
  SI h' /\ Inv s' /\ is_token (scat s') = false /\ (start s <= start s')%nat /\
  (b' = None -> TEnd s' (w' + credit h')).

Lemma convert_token_loop_good2 : forall fuel h s w b, SI h ->
  Inv s -> (b = None -> (w + credit h <= start s)%nat) -> is_token (scat s) = true ->
  (length (rest s) < fuel)%nat ->
  good (ct2_post s) (convert_token_loop St process fuel h s w b).
Proof.
  induction fuel as [|f IH]; intros h s w b HS HI Hw Ht Hf; [lia|].
  cbn [convert_token_loop].
  pose proof (next_symbol_gen_no_panic (fun _ => true) s) as NP. fold next_symbol in NP.
  destruct (next_symbol s) as [[r s1]| | |] eqn:E; cbn [bind good]; auto.
  pose proof (next_symbol_gen_inv _ _ _ _ HI E) as (HI1 & Hb & Hs & Hr & _).
  destruct r as [sym|].
  - destruct (Hr ltac:(discriminate)) as [Hlt Ht1].
    assert (Hf1 : (length (rest s1) < f)%nat).
    { rewrite (rest_length s HI) in Hf. rewrite (rest_length s1 HI1). unfold Inv in *. rewrite Hb in *. lia. }
    pose proof (Hproc h sym HS) as Hp. destruct (process h sym) as [[h1 data]| | |]; cbn [bind good fst snd] in *; auto.
    destruct Hp as (HS1 & Hcr).
    assert (Rec : forall s2 w2 b2, Inv s2 -> start s2 = start s1 -> scat s2 = scat s1 -> rest s2 = rest s1 ->
              (b2 = None -> (w2 + credit h1 <= start s2)%nat) ->
              good (ct2_post s) (convert_token_loop St process f h1 s2 w2 b2)).
    { intros s2 w2 b2 A B C D G.
      specialize (IH h1 s2 w2 b2 HS1 A G ltac:(congruence) ltac:(rewrite D; exact Hf1)).
      destruct (convert_token_loop St process f h1 s2 w2 b2) as [[[[h' s'] w'] b']| | |];
        cbn [good ct2_post] in *; auto.
      destruct IH as (Q0 & Q1 & Q2 & Q3 & Q4). split; [exact Q0|]. split; [exact Q1|]. split; [exact Q2|].
      split; [lia|exact Q4]. }
    destruct data as [|d0 dt].
    + apply Rec; auto. intros Eb. specialize (Hw Eb). cbn [length] in Hcr. lia.
    + eapply good_bind; [apply (append_data_good2 s1 (d0 :: dt) w b HI1)|].
      { intros Eb. specialize (Hw Eb). lia. }
      intros [[s2 w2] b2] _ P. cbn [ad_post2] in P. destruct P as (A & B & C & D & G).
      apply Rec; auto. intros Eb. destruct (G Eb) as [Eb0 ->]. specialize (Hw Eb0). rewrite B. lia.
  - destruct (next_symbol_end _ _ HI Ht E) as (Hn & _ & _ & _ & Hd).
    cbn [good ct2_post]. split; [exact HS|]. split; [exact HI1|]. split; [exact Hn|].
    split; [exact Hs|]. intros Eb. specialize (Hw Eb).
    split; [exact HI1|]. split; [exact Hn|].
    destruct Hd as [Hd | Hd]; [left; lia | right; split; [lia|exact Hd]].
Qed.

Lemma convert_token_good init s : SI init -> credit init = 0%nat -> PInv s ->
  good (fun rs => PInv (snd rs)) (convert_token St process tail_data init s).
Proof.
  intros HS0 Hc0 (HI & H1 & Hfr). unfold convert_token.
  destruct (require_token s) as [[]| | |] eqn:Erq; cbn [bind good]; auto;
    try (unfold require_token in Erq; destruct (scat s); discriminate Erq).
  assert (Ht : is_token (scat s) = true).
  { unfold require_token in Erq. destruct (scat s); try discriminate Erq; reflexivity. }
  assert (Hfu : (length (rest s) < fuel_of s)%nat) by (rewrite (rest_length s HI); unfold fuel_of; lia).
  eapply good_bind; [apply (convert_token_loop_good2 (fuel_of s) init s 0 None HS0 HI ltac:(intros _; lia) Ht Hfu)|].
  intros [[[h1 s1] w1] b1] _ P. cbn [ct2_post] in P. destruct P as (HS1 & HI1 & Hn1 & Hs1 & HT1).
  set (wz := match b1 with None => (w1 + credit h1)%nat | Some _ => 0%nat end).
  assert (HTz : TEnd s1 wz).
  { unfold wz. destruct b1; [|apply HT1; reflexivity].
    split; [exact HI1|]. split; [exact Hn1|]. left. lia. }
  eapply good_bind; [apply next_item_after_token; exact HTz|].
  intros s2 _ (HI2 & Hw2 & Hf2 & _).
  eapply good_bind; [apply Htail; exact HS1|]. intros data _ Hd. cbn beta in Hd.
  assert (Fin : forall s3 w3 b3, Inv s3 -> start s3 = start s2 -> scat s3 = scat s2 -> rest s3 = rest s2 ->
            (b3 = None -> b1 = None /\ (w3 <= w1 + length data)%nat) ->
            good (fun rs : list N * sbuf => PInv (snd rs))
                 (match b3 with Some bl => Ok (bl, s3) | None => split_to s3 w3 end)).
  { intros s3 w3 b3 A B C D G.
    assert (Hf3 : fresh s3) by (intros Eu; rewrite C in Eu; rewrite D; apply Hf2; exact Eu).
    destruct b3 as [bl|].
    - cbn [good snd]. split; [exact A|]. split; [lia|exact Hf3].
    - destruct (G eq_refl) as [Eb Hle]. apply split_to_PInv; auto. unfold wz in Hw2. rewrite Eb in Hw2. cbn iota in Hw2. lia. }
  destruct data as [|d0 dt].
  - cbn [bind]. apply Fin; auto. intros Eb. split; [exact Eb|cbn; lia].
  - eapply good_bind; [apply (append_data_good2 s2 (d0 :: dt) w1 b1 HI2)|].
    { intros Eb. unfold wz in Hw2. rewrite Eb in Hw2. cbn iota in Hw2. lia. }
    intros [[s3 w3] b3] _ P. cbn [ad_post2] in P. destruct P as (A & B & C & D & G).
    apply Fin; auto. intros Eb. destruct (G Eb) as [Eb0 ->]. split; [exact Eb0|lia].
Qed.
End ConvTokGood.


Lemma b64_tail_total c : no_panic (b64_tail c).
Proof.
  unfold b64_tail, C18.Model.c64_process_tail, b64_err.
  destruct (N.land (C18.Model.c64_next c) C18.Gen.b64_conv_fin_mask =? 0); cbn; auto;
  repeat match goal with |- context [if ?b then _ else _] => destruct b end; cbn; auto.
Qed.

Lemma hex_process_total h sym : good (fun x : hexst * list N => True) (hex_process h sym).
Proof.
  unfold hex_process. destruct (into_char sym); [|exact I].
  destruct (hex_digit n); [|exact I]. destruct (h_pending h); exact I.
Qed.

Lemma hex_tail_total h : no_panic (hex_tail h).
Proof. unfold hex_tail. destruct (h_pending h); exact I. Qed.

Lemma convert_entry_hex_good s : PInv s -> good (fun rs => PInv (snd rs)) (convert_entry_hex s).
Proof.
  apply (convert_entry_good hexst hex_process hex_tail (fun _ => True)); auto.
  - intros h sym _. apply hex_process_total.
  - apply hex_tail_total.
Qed.

(* the Base 64 converter (C18 model): `next` stays below 4 or is the end marker,
   so the index into the four-octet group buffer is always in range *)
Definition b64_si (c : C18.Model.conv64) : Prop :=
  C18.Model.c64_next c < 4 \/ C18.Model.c64_next c = C18.Gen.b64_eof_marker.

Lemma b64_tab_total ch : ch <= 127 -> exists v, C18.Model.tab_get C18.Gen.b64_decode_tab ch = Ok v.
Proof.
  intros H. unfold C18.Model.tab_get.
  assert (L : length C18.Gen.b64_decode_tab = 128%nat) by (vm_compute; reflexivity).
  destruct (nth_error C18.Gen.b64_decode_tab (N.to_nat ch)) eqn:E; [eauto|].
  apply nth_error_None in E. lia.
Qed.

Lemma b64_process_total c sym : b64_si c -> good (fun x => b64_si (fst x)) (b64_process c sym).
Proof.
  intros HS. unfold b64_process. destruct (into_char sym) as [ch|]; [|exact I].
  unfold C18.Model.c64_process_char.
  destruct (C18.Model.c64_next c =? C18.Gen.b64_eof_marker) eqn:Ee; [cbn; exact I|].
  apply N.eqb_neq in Ee. destruct HS as [HS | HS]; [|congruence].
  assert (Cont : forall v, good (fun x : C18.Model.conv64 * list N => b64_si (fst x))
     (b64_err (do inp <- C18.Model.buf4_set (C18.Model.c64_input c) (C18.Model.c64_next c) v;
        let next' := C18.Model.c64_next c + 1 in
        if next' =? C18.Gen.b64_conv_group then
          let '(x0, x1, x2, x3) := inp in
          let o0 := C18.Gen.b64_conv_oct0 x0 x1 x2 x3 in
          if x2 =? C18.Gen.b64_pad_marker then
            if x3 =? C18.Gen.b64_pad_marker then Ok (C18.Model.mkc64 inp C18.Gen.b64_eof_marker, [o0])
            else Err C18.Model.E_CONV_ILLEGAL
          else
            let o1 := C18.Gen.b64_conv_oct1 x0 x1 x2 x3 in
            if x3 =? C18.Gen.b64_pad_marker then Ok (C18.Model.mkc64 inp C18.Gen.b64_eof_marker, [o0; o1])
            else Ok (C18.Model.mkc64 inp 0, [o0; o1; C18.Gen.b64_conv_oct2 x0 x1 x2 x3])
        else Ok (C18.Model.mkc64 inp next', [])))).
  { intros v. unfold C18.Model.buf4_set. destruct (C18.Model.c64_input c) as [[[b0 b1] b2] b3].
    assert (Hg : C18.Gen.b64_conv_group = 4) by reflexivity. rewrite Hg.
    destruct (N.eqb_spec (C18.Model.c64_next c) 0) as [E0|N0];
    [|destruct (N.eqb_spec (C18.Model.c64_next c) 1) as [E1|N1];
      [|destruct (N.eqb_spec (C18.Model.c64_next c) 2) as [E2|N2];
        [|destruct (N.eqb_spec (C18.Model.c64_next c) 3) as [E3|N3]; [|lia]]]].
    - rewrite E0. cbn. left. first [lia | reflexivity].
    - rewrite E1. cbn. left. first [lia | reflexivity].
    - rewrite E2. cbn. left. first [lia | reflexivity].
    - rewrite E3. cbn [bind N.add N.eqb Pos.eqb Pos.add Pos.succ].
      repeat match goal with |- context [if ?b then _ else _] => destruct b end;
        cbn; auto; unfold b64_si; cbn; auto; first [left; first [lia | reflexivity] | right; reflexivity]. }
  destruct (ch =? C18.Gen.b64_pad).
  - destruct (C18.Model.c64_next c <? C18.Gen.b64_conv_pad_min); [cbn; exact I|]. apply Cont.
  - destruct (C18.Gen.b64_conv_ascii_max <? ch) eqn:Ea; [cbn; exact I|].
    apply N.ltb_ge in Ea. assert (Ha : ch <= 127) by (unfold C18.Gen.b64_conv_ascii_max in Ea; exact Ea).
    destruct (b64_tab_total ch Ha) as (v & Ev). rewrite Ev. cbn [bind].
    destruct (v =? C18.Gen.b64_conv_illegal_val); [cbn; exact I|]. apply Cont.
Qed.

Lemma convert_entry_b64_good s : PInv s -> good (fun rs => PInv (snd rs)) (convert_entry_b64 s).
Proof.
  apply (convert_entry_good _ b64_process b64_tail b64_si).
  - intros h sym HS. apply b64_process_total. exact HS.
  - apply b64_tail_total.
  - left. cbn. lia.
Qed.

(* ------------------------------------------------ sequences of method calls *)

(* the two NSEC3 converters *)
Definition salt_credit (st : saltst) : nat :=
  match st with SaltHex h _ => if h_pending h then 1%nat else 0%nat | _ => 0%nat end.

Lemma hex_process_credit h sym :
  good (fun x : hexst * list N =>
          ((if h_pending (fst x) then 1 else 0) + length (snd x) <= (if h_pending h then 1 else 0) + 1)%nat)
       (hex_process h sym).
Proof.
  unfold hex_process. destruct (into_char sym); [|exact I].
  destruct (hex_digit n); [|exact I]. destruct (h_pending h); cbn; lia.
Qed.

Lemma salt_process_good st sym :
  good (fun x => True /\ (salt_credit (fst x) + length (snd x) <= salt_credit st + 1)%nat) (salt_process st sym).
Proof.
  assert (H : forall h len, good (fun x => True /\ (salt_credit (fst x) + length (snd x) <= (if h_pending h then 1 else 0) + 1)%nat)
                             (salt_hex h len sym)).
  { intros h len. unfold salt_hex. pose proof (hex_process_credit h sym) as C.
    destruct (hex_process h sym) as [[h1 d]| | |]; cbn [bind good fst snd] in *; auto.
    destruct (Nat.ltb 255 (len + length d)); cbn [good salt_credit fst snd]; auto. }
  destruct st as [| |h len]; cbn [salt_process salt_credit].
  - specialize (H (mkH false 0) 0%nat). cbn [h_pending] in H.
    destruct (into_char sym) as [c|]; [|exact H].
    destruct (N.eqb_spec c 45) as [->|Hne]; [cbn; split; [exact I|lia]|].
    destruct c as [|p]; [exact H|]. repeat (destruct p as [p|p|]; try exact H). congruence.
  - exact I.
  - apply H.
Qed.

Lemma salt_tail_good st : good (fun d : list N => (length d <= salt_credit st)%nat) (salt_tail st).
Proof.
  destruct st as [| |h len]; cbn [salt_tail good length]; try lia.
  unfold hex_tail. destruct (h_pending h); cbn; lia.
Qed.

Lemma convert_token_salt_good s : PInv s -> good (fun rs => PInv (snd rs)) (convert_token_salt s).
Proof.
  apply (convert_token_good saltst salt_process salt_tail (fun _ => True) salt_credit); auto.
  - intros h sym _. apply salt_process_good.
  - intros h _. apply salt_tail_good.
Qed.

Definition hash_si (st : C18.Model.conv32 * nat) : Prop := C18.Model.c32_next (fst st) < 8.
Definition hash_credit (st : C18.Model.conv32 * nat) : nat := N.to_nat (C18.Model.c32_next (fst st)).

Lemma b32_tab_total ch : ch <= 127 -> exists v, C18.Model.tab_get C18.Gen.b32_decode_tab ch = Ok v.
Proof.
  intros H. unfold C18.Model.tab_get.
  assert (L : length C18.Gen.b32_decode_tab = 128%nat) by (vm_compute; reflexivity).
  destruct (nth_error C18.Gen.b32_decode_tab (N.to_nat ch)) eqn:E; [eauto|].
  apply nth_error_None in E. lia.
Qed.

Lemma hash_process_good st sym : hash_si st ->
  good (fun x => hash_si (fst x) /\ (hash_credit (fst x) + length (snd x) <= hash_credit st + 1)%nat)
       (hash_process st sym).
Proof.
  destruct st as [c len]. unfold hash_si, hash_credit, hash_process. cbn [fst snd]. intros HS.
  destruct (into_char sym) as [ch|]; [|exact I].
  unfold C18.Model.c32_process_char.
  destruct (C18.Gen.b32_conv_ascii_max <? ch) eqn:Ea; [cbn; exact I|].
  apply N.ltb_ge in Ea. assert (Ha : ch <= 127) by (unfold C18.Gen.b32_conv_ascii_max in Ea; exact Ea).
  destruct (b32_tab_total ch Ha) as (v & Ev). rewrite Ev. cbn [bind].
  destruct (v =? C18.Gen.b32_conv_illegal_val); [cbn; exact I|].
  unfold C18.Model.buf8_set. destruct (C18.Model.c32_input c) as [[[[[[[b0 b1] b2] b3] b4] b5] b6] b7].
  assert (Hg : C18.Gen.b32_conv_group = 8) by reflexivity. rewrite Hg.
  set (n := C18.Model.c32_next c) in *.
  assert (Hn : n = 0 \/ n = 1 \/ n = 2 \/ n = 3 \/ n = 4 \/ n = 5 \/ n = 6 \/ n = 7) by lia.
  destruct Hn as [-> | [-> | [-> | [-> | [-> | [-> | [-> | ->]]]]]]]; cbn [N.eqb Pos.eqb bind b32_err N.add Pos.add Pos.succ];
    unfold hash_check; cbn [fst snd length];
    match goal with |- context [Nat.ltb 255 ?x] => destruct (Nat.ltb 255 x) end; cbn; auto; split; lia.
Qed.

Lemma hash_tail_good st : hash_si st -> good (fun d : list N => (length d <= hash_credit st)%nat) (hash_tail st).
Proof.
  destruct st as [c len]. unfold hash_si, hash_credit, hash_tail, C18.Model.c32_process_tail. cbn [fst snd]. intros HS.
  set (n := C18.Model.c32_next c) in *.
  assert (Hn : n = 0 \/ n = 1 \/ n = 2 \/ n = 3 \/ n = 4 \/ n = 5 \/ n = 6 \/ n = 7) by lia.
  destruct Hn as [-> | [-> | [-> | [-> | [-> | [-> | [-> | ->]]]]]]]; cbn; unfold hash_check; cbn [length];
    try match goal with |- context [Nat.ltb 255 ?x] => destruct (Nat.ltb 255 x) end; cbn; auto; lia.
Qed.

Lemma convert_token_hash_good s : PInv s -> good (fun rs => PInv (snd rs)) (convert_token_hash s).
Proof.
  apply (convert_token_good _ hash_process hash_tail hash_si hash_credit).
  - intros h sym HS. apply hash_process_good; exact HS.
  - intros h HS. apply hash_tail_good; exact HS.
  - unfold hash_si. cbn. lia.
  - reflexivity.
Qed.

(* ---------------------------------------------------------- scan_svcb_octets *)

Lemma finish_split_len s w : TEnd s w ->
  good (fun rs => PInv (snd rs) /\ (length (rest (snd rs)) < length (buf s))%nat)
       (do s1 <- next_item s; split_to s1 w).
Proof.
  intros HT. eapply good_bind; [apply next_item_after_token; exact HT|].
  intros s1 _ (HI1 & Hw1 & Hf1 & Hb1).
  pose proof (split_to_PInv s1 w HI1 Hw1 Hf1) as G.
  destruct (split_to s1 w) as [[r s2]| | |] eqn:E; cbn [good snd] in *; auto. split; [exact G|].
  unfold split_to in E. destruct (Nat.leb w (start s1)) eqn:L; [|discriminate E]. apply Nat.leb_le in L.
  injection E as _ <-. unfold rest. cbn [buf start]. rewrite skipn_add.
  replace (w + (start s1 - w))%nat with (start s1) by lia. rewrite skipn_length, <- Hb1.
  unfold Inv in HI1. lia.
Qed.

Lemma scan_svcb_octets_good s : PInv s ->
  good (fun rs => PInv (snd rs) /\ (length (rest (snd rs)) < length (rest s))%nat) (scan_svcb_octets s).
Proof.
  intros (HI & H1 & Hfr). unfold scan_svcb_octets.
  destruct (require_token s) as [[]| | |] eqn:Erq; cbn [bind good]; auto;
    try (unfold require_token in Erq; destruct (scat s); discriminate Erq).
  assert (Htok : is_token (scat s) = true).
  { unfold require_token in Erq. destruct (scat s); try discriminate Erq; reflexivity. }
  pose proof (trim_to_spec s (start s) HI) as T. rewrite Nat.leb_refl in T.
  destruct T as (s0 & E0 & HI0 & Hst0 & Hr0 & Hc0 & _). rewrite E0. cbn [bind].
  rewrite Nat.sub_diag in Hst0.
  assert (HL0 : length (buf s0) = length (rest s)).
  { rewrite <- Hr0. unfold rest. rewrite Hst0. reflexivity. }
  assert (Hfu : (length (rest s0) < fuel_of s0)%nat).
  { rewrite (rest_length s0 HI0). unfold fuel_of. lia. }
  destruct (ascii_loop_total (fuel_of s0) s0 0 HI0 Hfu) as (s1 & c & E1 & HI1 & Hs1 & Hb1 & Hc1).
  rewrite E1. cbn [bind fst].
  assert (Slow : good (fun rs : list N * sbuf => PInv (snd rs) /\ (length (rest (snd rs)) < length (rest s))%nat)
     (do sw <- write_loop into_octet (fuel_of s1) s1 (start s1);
      do s2 <- next_item (fst sw);
      if negb (hsp s2) && (match scat s2 with CQuo => true | _ => false end)
      then do sw2 <- write_loop into_octet (fuel_of s2) s2 (snd sw);
           do s3 <- next_item (fst sw2); split_to s3 (snd sw2)
      else split_to s2 (snd sw)) \/ is_token (scat s1) = false).
  { destruct (is_token (scat s1)) eqn:Ht1; [left|right; reflexivity].
    assert (Hfu1 : (length (rest s1) < fuel_of s1)%nat).
    { rewrite (rest_length s1 HI1). unfold fuel_of. lia. }
    eapply good_bind; [apply (write_loop_end into_octet (fuel_of s1) s1 (start s1) HI1 (le_n _) Ht1 Hfu1)|].
    intros [s2 w] _ (HT & _ & _ & HL2 & _). cbn [fst snd] in *.
    eapply good_bind; [apply next_item_after_token; exact HT|].
    intros s3 _ (HI3 & Hw3 & Hf3 & Hb3).
    assert (HL3 : length (buf s3) = length (rest s)) by (rewrite Hb3, HL2, Hb1; exact HL0).
    assert (Direct : good (fun rs : list N * sbuf => PInv (snd rs) /\ (length (rest (snd rs)) < length (rest s))%nat)
                          (split_to s3 w)).
    { pose proof (split_to_PInv s3 w HI3 Hw3 Hf3) as G.
      destruct (split_to s3 w) as [[r s4]| | |] eqn:E; cbn [good snd] in *; auto. split; [exact G|].
      unfold split_to in E. destruct (Nat.leb w (start s3)) eqn:L; [|discriminate E]. apply Nat.leb_le in L.
      injection E as _ <-. unfold rest at 1. cbn [buf start]. rewrite skipn_add.
      replace (w + (start s3 - w))%nat with (start s3) by lia. rewrite skipn_length, HL3.
      unfold Inv in HI3. lia. }
    destruct (negb (hsp s3) && match scat s3 with CQuo => true | _ => false end) eqn:Eq; [|exact Direct].
    assert (Ht3 : is_token (scat s3) = true).
    { apply andb_true_iff in Eq as [_ Eq]. destruct (scat s3); try discriminate Eq; reflexivity. }
    assert (Hfu3 : (length (rest s3) < fuel_of s3)%nat).
    { rewrite (rest_length s3 HI3). unfold fuel_of. lia. }
    eapply good_bind; [apply (write_loop_end into_octet (fuel_of s3) s3 w HI3 ltac:(lia) Ht3 Hfu3)|].
    intros [s4 w4] _ (HT4 & _ & _ & HL4 & _). cbn [fst snd] in *.
    pose proof (finish_split_len s4 w4 HT4) as G.
    destruct (do s5 <- next_item s4; split_to s5 w4) as [[r s6]| | |]; cbn [good snd] in *; auto.
    destruct G as [G1 G2]. split; [exact G1|]. rewrite HL4, HL3 in G2. exact G2. }
  destruct (scat s1) eqn:Ec1.
  - destruct Hc1 as [Hc1 | (Q0 & _ & Hlt)].
    { rewrite Hc0 in Hc1. rewrite <- Hc1 in Htok. discriminate Htok. }
    rewrite Q0. destruct (start s1) as [|k] eqn:Es1; [lia|]. cbn [bind].
    pose proof (finish_split_len s1 k) as G.
    assert (HT : TEnd s1 k) by (split; [exact HI1|]; split; [rewrite Ec1; reflexivity|left; lia]).
    specialize (G HT). destruct (do s2 <- next_item s1; split_to s2 k) as [[r s3]| | |]; cbn [good snd] in *; auto.
    destruct G as [G1 G2]. split; [exact G1|]. rewrite Hb1, HL0 in G2. exact G2.
  - destruct Slow as [Sl | Sl]; [exact Sl|discriminate Sl].
  - destruct Slow as [Sl | Sl]; [exact Sl|discriminate Sl].
  - destruct Hc1 as [Hc1 | (_ & Q1 & _)]; [|congruence].
    rewrite Hc0 in Hc1. rewrite <- Hc1 in Htok. discriminate Htok.
Qed.

Lemma while_svcb_good : forall fuel s, PInv s -> (length (rest s) < fuel)%nat -> good PInv (while_svcb fuel s).
Proof.
  induction fuel as [|f IH]; intros s HP Hf; [lia|].
  cbn [while_svcb]. destruct (is_token (scat s)); [|exact HP].
  eapply good_bind; [apply scan_svcb_octets_good; exact HP|].
  intros [r s1] _ (HP1 & HL). cbn [snd] in *. apply IH; [exact HP1|lia].
Qed.

Definition meth_ok (m : meth) : Prop := match m with MUint _ c => c = true | _ => True end.

Lemma good_drop {A} (o : outcome (A * sbuf)) :
  good (fun rs => PInv (snd rs)) o -> good PInv (do r <- o; Ok (snd r)).
Proof. destruct o as [[a s]| | |]; cbn; auto. Qed.

Theorem run_meth_good origin m s : meth_ok m -> PInv s -> good PInv (run_meth origin m s).
Proof.
  intros Hm HP. destruct m; cbn [run_meth meth_ok] in *.
  - apply good_drop. apply scan_name_good; exact HP.
  - apply good_drop. apply scan_octets_good; exact HP.
  - pose proof (scan_octets_good s HP) as G. destruct (scan_octets s) as [[r s1]| | |]; cbn [bind good fst snd] in *; auto.
    destruct (Nat.ltb 255 (length r)); cbn; auto.
  - apply good_drop. apply scan_ascii_str_good; [intros l; exact I|exact HP].
  - subst checked. apply good_drop. apply scan_uint_good; exact HP.
  - apply good_drop. apply scan_charstr_entry_good; exact HP.
  - apply good_drop. apply convert_entry_hex_good; exact HP.
  - apply good_drop. apply convert_entry_b64_good; exact HP.
  - apply while_ascii_good; [exact HP|lia].
  - apply good_drop. apply convert_token_salt_good; exact HP.
  - apply good_drop. apply convert_token_hash_good; exact HP.
  - apply while_svcb_good; [exact HP|]. destruct HP as (HI & _). rewrite (rest_length s HI). lia.
Qed.

Theorem run_meths_good origin ms : Forall meth_ok ms -> forall s, PInv s -> good PInv (run_meths origin ms s).
Proof.
  induction 1 as [|m ms Hm F IH]; intros s HP; cbn [run_meths]; [exact HP|].
  eapply good_bind; [apply run_meth_good; eauto|]. intros s1 _ HP1. apply IH. exact HP1.
Qed.

(* ZoneRecordData::scan of any type whose scan is a sequence of the modelled
   methods: from a protocol state, an error or a protocol state again *)
Theorem run_type_scan_good origin ms s : Forall meth_ok ms -> PInv s ->
  good PInv (run_type_scan origin ms s).
Proof.
  intros F HP. unfold run_type_scan.
  eapply good_bind; [apply skip_unknown_marker_good; exact HP|].
  intros [b s1] _ (HP1 & _). cbn [fst snd]. destruct b.
  - apply run_meths_good; [|exact HP1].
    repeat constructor; try (destruct reader_guards_present as (_ & E & _); exact E).
  - apply run_meths_good; assumption.
Qed.

(* what T1 read from the record types' scan functions *)
Lemma type_scans_decodable :
  forallb (fun x => match decode_meths (snd x) with Some _ => true | None => false end) type_scans = true.
Proof. vm_compute. reflexivity. Qed.

(* the hand-written field schemas of the model are the sequences in the source *)
Lemma schema_matches_source :
  forallb (fun x => match schema (fst x) with
                    | Some fs => if list_eq_dec N.eq_dec (map field_code fs) (snd x) then true else false
                    | None => true end) type_scans = true
  /\ forallb (fun rt => match schema rt with Some _ => existsb (fun x => fst x =? rt) type_scans | None => false end)
       [1; 2; 3; 4; 5; 6; 7; 8; 9; 12; 13; 14; 15; 16; 17; 33; 35; 39; 44; 47; 50; 51; 52; 61] = true.
Proof. vm_compute. split; reflexivity. Qed.

Lemma decode_meth_ok c m : decode_meth c = Some m -> meth_ok m.
Proof.
  destruct reader_guards_present as (_ & Ei & Et & _).
  unfold decode_meth. intros H.
  repeat match type of H with
  | (if ?c =? ?k then _ else _) = _ => destruct (N.eqb_spec c k); [injection H as <-; cbn; auto|]
  end; try discriminate H.
Qed.

Lemma decode_meths_ok : forall codes ms, decode_meths codes = Some ms -> Forall meth_ok ms.
Proof.
  induction codes as [|c t IH]; intros ms H; cbn [decode_meths] in H.
  - injection H as <-. constructor.
  - destruct (decode_meth c) as [m|] eqn:Em; [|discriminate H].
    destruct (decode_meths t) as [mt|] eqn:Et; [|discriminate H]. injection H as <-.
    constructor; [eapply decode_meth_ok; eauto | apply IH; reflexivity].
Qed.

(* every record type whose scan T1 resolves: its record data scan, started in
   a protocol state, ends in a protocol state or an error -- no assertion, no
   index panic, no underflow, no loop that runs out of fuel *)
Theorem type_scan_total rt codes ms origin s :
  In (rt, codes) type_scans -> decode_meths codes = Some ms ->
  PInv s -> good PInv (run_type_scan origin ms s).
Proof.
  intros _ Hd HP. apply run_type_scan_good; [|exact HP]. eapply decode_meths_ok; eauto.
Qed.

(* the state in which scan_entry hands over to the record data scan *)
Lemma init_PInv file : PInv (init_sbuf file).
Proof.
  unfold PInv, Inv, fresh, init_sbuf, init_start. cbn [buf start scat length]. repeat split; try lia. discriminate.
Qed.

Example run_meths_ex :
  run_meths (Some [0]) [MUint 65535 true; MName] (mkS [0; 49; 48; 32; 109; 46; 10] 1 CUnq false 0)
  = Ok (mkS [46; 10] 2 CLF false 0).
Proof. vm_compute. reflexivity. Qed.
