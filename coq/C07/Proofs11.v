(* C07 proofs, part 11: the accept / reject table of escape sequences in
   Symbol::from_slice_index as finite theorems, and the conversion loop of
   zonetree::parsed. *)
From Coq Require Import NArith ZArith List Bool Arith Lia ZifyN ZifyBool ZifyNat.
From DV Require Import Base.Outcome Base.Bytes C07.Gen C07.Model C07.Proofs C07.Proofs4 C07.Proofs6
  C07.Proofs8 C07.Proofs10.
Import ListNotations.
Local Open Scope N_scope.

Definition symres_eqb (a b : symres) : bool :=
  match a, b with
  | SymEnd, SymEnd | SymErr, SymErr => true
  | SymOk s n, SymOk s' n' => sym_eqb s s' && Nat.eqb n n'
  | _, _ => false
  end.

Lemma symres_eqb_eq a b : symres_eqb a b = true -> a = b.
Proof.
  destruct a as [| |s n], b as [| |s' n']; cbn; try discriminate; auto.
  intros H. apply andb_true_iff in H as [H1 H2]. apply Nat.eqb_eq in H2. subst n'.
  destruct s, s'; cbn in H1; try discriminate; apply N.eqb_eq in H1; subst; reflexivity.
Qed.

(* `\c`: rejected for control characters (and when nothing follows a digit),
   a simple escape for every other non-digit octet -- also beyond 0x7E *)
Definition escape2_spec (c : N) : symres :=
  if (c <? 32) || (c =? 127) then SymErr
  else if (48 <=? c) && (c <=? 57) then SymErr
  else SymOk (SSimple c) 2.

Lemma escape2_tbl : forallb (fun c => symres_eqb (sym_at [esc_char; c]) (escape2_spec c)) (upto 256) = true.
Proof. vm_compute. reflexivity. Qed.

Theorem escape2_table c t : c < 256 -> negb ((48 <=? c) && (c <=? 57)) = true ->
  sym_at (esc_char :: c :: t) = escape2_spec c.
Proof.
  intros Hc Hd. pose proof escape2_tbl as T. rewrite forallb_forall in T.
  specialize (T c (upto_in c 256 ltac:(lia))). apply symres_eqb_eq in T.
  unfold sym_at in *. rewrite N.eqb_refl in *. unfold escape2_spec in *.
  destruct (is_ascii_control c); [exact T|].
  unfold is_digit in *. apply negb_true_iff in Hd. rewrite Hd in *. cbn [negb] in *. exact T.
Qed.

(* `\DDD`: a decimal escape exactly when the value fits an octet *)
Definition digits3 : list (N * N * N) :=
  flat_map (fun a => flat_map (fun b => map (fun c => (a, b, c)) (upto 10)) (upto 10)) (upto 10).

Definition escape4_spec (a b c : N) : symres :=
  let v := a * 100 + b * 10 + c in if v <=? 255 then SymOk (SDec v) 4 else SymErr.

Lemma escape4_tbl :
  forallb (fun x => let '(a, b, c) := x in
     symres_eqb (sym_at [esc_char; 48 + a; 48 + b; 48 + c]) (escape4_spec a b c)) digits3 = true.
Proof. vm_compute. reflexivity. Qed.

Lemma digits3_in a b c : a < 10 -> b < 10 -> c < 10 -> In (a, b, c) digits3.
Proof.
  intros Ha Hb Hc. unfold digits3. apply in_flat_map. exists a. split; [apply upto_in; lia|].
  apply in_flat_map. exists b. split; [apply upto_in; lia|]. apply in_map_iff. exists c.
  split; [reflexivity|apply upto_in; lia].
Qed.

Theorem escape4_table a b c t : a < 10 -> b < 10 -> c < 10 ->
  sym_at (esc_char :: 48 + a :: 48 + b :: 48 + c :: t) = escape4_spec a b c.
Proof.
  intros Ha Hb Hc. pose proof escape4_tbl as T. rewrite forallb_forall in T.
  specialize (T _ (digits3_in a b c Ha Hb Hc)). cbn beta iota in T. apply symres_eqb_eq in T.
  unfold sym_at in *. rewrite N.eqb_refl in *.
  repeat match goal with
  | |- context [if is_ascii_control ?x then _ else _] => destruct (is_ascii_control x)
  | |- context [if negb (is_digit ?x) then _ else _] => destruct (negb (is_digit x))
  | |- context [if is_digit ?x then _ else _] => destruct (is_digit x)
  end; exact T.
Qed.

(* a digit must be followed by two more digits; one or two are not enough *)
Lemma escape_short_tbl :
  forallb (fun x => let '(a, b, c) := x in
     symres_eqb (sym_at [esc_char; 48 + a]) SymErr && symres_eqb (sym_at [esc_char; 48 + a; 48 + b]) SymErr
     && symres_eqb (sym_at [esc_char; 48 + a; 48 + b; 120]) SymErr
     && symres_eqb (sym_at [esc_char; 48 + a; 120; 48 + c]) SymErr) digits3 = true.
Proof. vm_compute. reflexivity. Qed.

(* --------------------------------------------------- zonetree::parsed loop *)

Lemma parsed_stops : parsed_stops_at_error = true.
Proof. vm_compute. reflexivity. Qed.

Lemma parsed_loop_is_read_loop : parsed_stops_at_error = true ->
  forall fuel zs s acc, parsed_loop fuel zs s acc = read_loop fuel zs s acc.
Proof.
  intros Hf. induction fuel as [|f IH]; intros zs s acc; cbn [parsed_loop read_loop]; [reflexivity|].
  destruct (scan_entry zs s) as [[[x zs1] s1]|e| |]; try reflexivity;
    try (rewrite Hf; reflexivity); destruct x; try reflexivity; apply IH.
Qed.

(* the conversion terminates on every byte string without a panic *)
Theorem parsed_total file : match snd (parsed_file file) with EEof | EErr _ => True | _ => False end.
Proof.
  unfold parsed_file. rewrite (parsed_loop_is_read_loop parsed_stops). apply (reader_total file).
Qed.

(* if the loop went on after an error: a stray `)` fails the same way for ever *)
Theorem parsed_reads_on_refuted : parsed_stops_at_error = false ->
  snd (parsed_file [41; 10]) = EFuel.
Proof. intros H. revert H. vm_compute. intros H; first [discriminate H | reflexivity]. Qed.

Example parsed_ex : parsed_file [41; 10] = ([], EErr 4).
Proof. vm_compute. reflexivity. Qed.

(* Zonefile::load hands the reader's octets to the buffer unchanged (io::copy
   into the BufMut writer): every way of filling the buffer reads alike, which
   the oracle compares on every input (classes constructor_dependent_...) *)
Lemma load_copies : load_copies_octets = true.
Proof. vm_compute. reflexivity. Qed.
