(* C07 proofs, part 12: value correctness of scan_octets, first steps.
   (1) An unquoted token of plain characters comes back as exactly its octets.
   (2) With escapes: the plain prefix followed by the octets of the remaining
       symbols (Symbol::into_octet), whatever the buffer held before.
   (3) The fast path accepts DEL (0x7F) which the slow path rejects. *)
From Coq Require Import NArith ZArith List Bool Arith Lia ZifyN ZifyBool ZifyNat.
From DV Require Import Base.Outcome Base.Bytes C07.Gen C07.Model C07.Proofs C07.Proofs2 C07.Proofs4
  C07.Proofs5 C07.Proofs6.
Import ListNotations.
Local Open Scope N_scope.

Definition plain (tok : list N) : Prop := Forall (fun c => asc_unq_ok c = true) tok.

Lemma rest_cons s c t : rest s = c :: t -> rest (advance s 1) = t.
Proof. intros H. rewrite rest_advance, H. reflexivity. Qed.

(* the fast loop walks over a plain prefix and stops at the first other octet *)
Lemma ascii_loop_plain : forall tok fuel s cnt d t,
  plain tok -> scat s = CUnq -> rest s = tok ++ d :: t -> asc_unq_ok d = false ->
  (length tok < fuel)%nat ->
  exists s', ascii_loop fuel s cnt = Ok (s', (cnt + length tok)%nat) /\ buf s' = buf s /\
    start s' = (start s + length tok)%nat /\ scat s' = CUnq /\ hsp s' = hsp s /\ par s' = par s.
Proof.
  induction tok as [|c tok IH]; intros fuel s cnt d t Hp Hc Hr Hd Hf.
  - destruct fuel as [|f]; [cbn in Hf; lia|]. cbn [ascii_loop]. unfold next_ascii_symbol. rewrite Hc.
    cbn [app] in Hr. rewrite Hr. unfold asc_unq_ok in Hd. apply negb_false_iff in Hd. rewrite Hd.
    exists s. cbn [length]. rewrite !Nat.add_0_r. repeat split; auto.
  - destruct fuel as [|f]; [cbn in Hf; lia|]. cbn [ascii_loop]. unfold next_ascii_symbol. rewrite Hc.
    cbn [app] in Hr. rewrite Hr. inversion Hp as [|? ? Hc1 Hp1]; subst.
    unfold asc_unq_ok in Hc1. apply negb_true_iff in Hc1. rewrite Hc1.
    destruct (IH f (advance s 1) (S cnt) d t Hp1 Hc (rest_cons _ _ _ Hr) Hd ltac:(cbn in Hf; lia))
      as (s' & E & A & B & C & D & F).
    exists s'. cbn [length]. replace (cnt + S (length tok))%nat with (S cnt + length tok)%nat by lia.
    split; [exact E|]. cbn [advance buf start hsp par] in *. repeat split; auto. lia.
Qed.

Lemma delim_not_plain d : is_delim d = true -> d < 128 -> asc_unq_ok d = false.
Proof.
  intros Hd H. destruct (asc_unq_ok d) eqn:E; [|reflexivity].
  destruct (asc_unq_ok_spec d E) as (_ & W & _). rewrite delims_agree in W by exact H.
  rewrite Hd in W. discriminate W.
Qed.

(* (1) a token of plain characters, followed by a delimiter, is returned as is *)
Theorem scan_octets_plain_value s tok d t r s2 :
  scat s = CUnq -> rest s = tok ++ d :: t -> plain tok ->
  is_delim d = true -> d < 128 -> d <> esc_char ->
  scan_octets s = Ok (r, s2) -> r = tok.
Proof.
  intros Hc Hr Hp Hd Hd128 Hde. pose proof (delim_not_plain d Hd Hd128) as Hdn.
  unfold scan_octets, require_token. rewrite Hc. cbn [bind].
  unfold trim_to. rewrite Nat.leb_refl. cbn [bind]. rewrite Nat.sub_diag, Hc.
  set (s0 := mkS (skipn (start s) (buf s)) 0 CUnq (hsp s) (par s)).
  assert (Hr0 : rest s0 = tok ++ d :: t) by (unfold rest, s0; cbn [buf start skipn]; exact Hr).
  assert (Hf0 : (length tok < fuel_of s0)%nat).
  { unfold fuel_of, s0. cbn [buf]. fold (rest s). rewrite Hr, app_length. cbn [length]. lia. }
  destruct (ascii_loop_plain tok (fuel_of s0) s0 0 d t Hp eq_refl Hr0 Hdn Hf0) as (s1 & E1 & B1 & S1 & C1 & _ & _).
  rewrite E1. cbn [bind fst snd]. rewrite C1.
  assert (Rs : rest s1 = d :: t).
  { unfold rest. rewrite B1, S1. cbn [s0 buf start Nat.add]. fold (rest s). rewrite Hr.
    rewrite skipn_app, skipn_all, Nat.sub_diag. reflexivity. }
  unfold fuel_of. cbn [write_loop]. unfold next_symbol, next_symbol_gen. rewrite C1, Rs.
  destruct (sym_at_delim d t Hd Hd128 Hde) as [Sd Wd]. rewrite Sd, Wd. cbn [negb bind fst snd].
  destruct (next_item (set_cat s1 CNone)) as [s3| | |] eqn:En; cbn [bind]; try discriminate.
  assert (B3 : buf s3 = rest s).
  { unfold next_item in En. cbn [set_cat scat is_token] in En.
    destruct (ni_loop _ _ _ _ _); [discriminate En|]. injection En as <-. cbn [buf set_cat]. rewrite B1. reflexivity. }
  unfold split_to. destruct (Nat.leb (start s1) (start s3)); [|discriminate].
  intros H; injection H as <- _. rewrite B3, Hr, S1. cbn [s0 start Nat.add]. apply (take_app_length tok (d :: t)).
Qed.

Example scan_octets_plain_value_ex :
  scan_octets (mkS [0; 9; 9; 97; 98; 99; 32; 100; 10] 3 CUnq true 0) = Ok ([97; 98; 99], mkS [32; 100; 10] 1 CUnq true 0)
  /\ plain [97; 98; 99].
Proof. split; [vm_compute; reflexivity|]. repeat constructor. Qed.

(* (3) DEL passes the fast path unchanged but is rejected by the slow path:
   `A<DEL>` is the octets 41 7F, `\065<DEL>` is "bad symbol" *)
Theorem del_fast_slow_differ :
  scan_octets (mkS [0; 65; 127; 10] 1 CUnq false 0) = Ok ([65; 127], mkS [10] 1 CLF false 0)
  /\ scan_octets (mkS [0; 92; 48; 54; 53; 127; 10] 1 CUnq false 0) = Err 1.
Proof. vm_compute. split; reflexivity. Qed.

(* (2) with escapes: what the slow loop writes is the octets of the symbols *)
Lemma set_byte_firstn : forall l w b l', set_byte l w b = Some l' -> firstn (S w) l' = firstn w l ++ [b].
Proof.
  induction l as [|x t IH]; intros [|j] b l'; cbn [set_byte]; try discriminate.
  - intros H; injection H as <-. reflexivity.
  - destruct (set_byte t j b) eqn:E; [|discriminate]. intros H; injection H as <-.
    cbn [firstn app]. f_equal. apply IH. exact E.
Qed.

Definition octets_of (syms : list symbol) (octs : list N) : Prop := map into_octet syms = map Some octs.

Lemma write_loop_value : forall syms l l', Toks false l syms l' ->
  forall octs fuel s w s' w', octets_of syms octs -> scat s = CUnq -> rest s = l -> (w <= start s)%nat ->
  write_loop into_octet fuel s w = Ok (s', w') ->
  w' = (w + length octs)%nat /\ firstn w' (buf s') = firstn w (buf s) ++ octs /\ rest s' = l' /\
  scat s' = CNone /\ (w' <= start s')%nat.
Proof.
  induction 1 as [l sym n Hq Hs Hw | l sym n Hq Hs He | l sym n syms l' Hs Hg HT IH];
    intros octs fuel s w s' w' Ho Hc Hr Hle Hwl; try discriminate.
  - destruct octs; [|discriminate Ho]. destruct fuel as [|f]; [discriminate Hwl|].
    cbn [write_loop] in Hwl. unfold next_symbol, next_symbol_gen in Hwl. rewrite Hc, Hr, Hs, Hw in Hwl.
    cbn [negb bind] in Hwl. injection Hwl as <- <-. cbn [length set_cat buf start]. rewrite Nat.add_0_r, app_nil_r.
    repeat split; auto.
  - destruct octs as [|b octs]; [discriminate Ho|]. unfold octets_of in Ho. cbn [map] in Ho.
    injection Ho as Hb Ho.
    destruct fuel as [|f]; [discriminate Hwl|].
    cbn [write_loop] in Hwl. unfold next_symbol, next_symbol_gen in Hwl. rewrite Hc, Hr, Hs in Hwl.
    unfold goes_on in Hg. rewrite Hg in Hwl. cbn [negb bind] in Hwl. rewrite Hb in Hwl.
    unfold store in Hwl. destruct (set_byte (buf (advance s n)) w b) as [bf|] eqn:Eb; [|discriminate Hwl].
    cbn [bind] in Hwl. pose proof (sym_at_len _ _ _ Hs) as Ln.
    assert (Hr2 : rest (with_buf (advance s n) bf) = skipn n l).
    { unfold rest. cbn [with_buf advance buf start] in *. rewrite (set_byte_skipn _ _ _ _ _ Eb) by lia.
      rewrite <- Hr. unfold rest. rewrite skipn_add. reflexivity. }
    destruct (IH octs f (with_buf (advance s n) bf) (S w) s' w' Ho Hc Hr2
                 ltac:(cbn [with_buf advance start]; lia) Hwl) as (A & B & C & D & F).
    split; [cbn [length]; lia|]. split; [|auto].
    rewrite B. cbn [with_buf buf]. rewrite (set_byte_firstn _ _ _ _ Eb). cbn [advance buf].
    rewrite <- app_assoc. reflexivity.
Qed.

(* a token = plain prefix p, then symbols (the first of them not plain: an
   escape or a non-ASCII character) up to the delimiter: scan_octets returns
   p followed by the octets of those symbols *)
Theorem scan_octets_value s p q syms octs d t r s2 :
  scat s = CUnq -> rest s = p ++ q -> plain p ->
  (exists c q', q = c :: q' /\ asc_unq_ok c = false) ->
  Toks false q syms (d :: t) -> octets_of syms octs ->
  scan_octets s = Ok (r, s2) -> r = p ++ octs.
Proof.
  intros Hc Hr Hp (c & q' & -> & Hcn) HT Ho.
  unfold scan_octets, require_token. rewrite Hc. cbn [bind].
  unfold trim_to. rewrite Nat.leb_refl. cbn [bind]. rewrite Nat.sub_diag, Hc.
  set (s0 := mkS (skipn (start s) (buf s)) 0 CUnq (hsp s) (par s)).
  assert (Hr0 : rest s0 = p ++ c :: q') by (unfold rest, s0; cbn [buf start skipn]; exact Hr).
  assert (Hf0 : (length p < fuel_of s0)%nat).
  { unfold fuel_of, s0. cbn [buf]. fold (rest s). rewrite Hr, app_length. cbn [length]. lia. }
  destruct (ascii_loop_plain p (fuel_of s0) s0 0 c q' Hp eq_refl Hr0 Hcn Hf0) as (s1 & E1 & B1 & S1 & C1 & _ & _).
  rewrite E1. cbn [bind fst snd]. rewrite C1.
  assert (Rs : rest s1 = c :: q').
  { unfold rest. rewrite B1, S1. cbn [s0 buf start Nat.add]. fold (rest s). rewrite Hr.
    rewrite skipn_app, skipn_all, Nat.sub_diag. reflexivity. }
  destruct (write_loop into_octet (fuel_of s1) s1 (start s1)) as [[s3 w3]| | |] eqn:Ew; cbn [bind]; try discriminate.
  destruct (write_loop_value _ _ _ HT octs _ _ _ _ _ Ho C1 Rs (le_n _) Ew) as (A & B & _ & D & F).
  cbn [fst snd].
  destruct (next_item s3) as [s4| | |] eqn:En; cbn [bind]; try discriminate.
  assert (B4 : buf s4 = buf s3).
  { unfold next_item in En. destruct (is_token (scat s3)); [discriminate En|].
    destruct (ni_loop _ _ _ _ _); [discriminate En|]. injection En as <-. reflexivity. }
  unfold split_to. destruct (Nat.leb w3 (start s4)); [|discriminate].
  intros H; injection H as <- _. rewrite B4, B, B1, S1. cbn [s0 buf start Nat.add]. fold (rest s). rewrite Hr.
  f_equal. apply (take_app_length p (c :: q')).
Qed.

Example scan_octets_value_ex :
  scan_octets (mkS [0; 97; 92; 48; 54; 53; 92; 32; 98; 10] 1 CUnq false 0)
    = Ok ([97; 65; 32; 98], mkS [53; 92; 32; 98; 10] 5 CLF false 0)
  /\ Toks false [92; 48; 54; 53; 92; 32; 98; 10] [SDec 65; SSimple 32; SChar 98] [10]
  /\ octets_of [SDec 65; SSimple 32; SChar 98] [65; 32; 98].
Proof.
  split; [vm_compute; reflexivity|]. split; [|vm_compute; reflexivity].
  eapply TkStep; [vm_compute; reflexivity|vm_compute; reflexivity|].
  eapply TkStep; [vm_compute; reflexivity|vm_compute; reflexivity|].
  eapply TkStep; [vm_compute; reflexivity|vm_compute; reflexivity|].
  eapply TkEndU; [reflexivity|vm_compute; reflexivity|vm_compute; reflexivity].
Qed.
