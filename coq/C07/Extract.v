From Coq Require Import Extraction ExtrOcamlBasic NArith.
From DV Require Import Base.Outcome C07.Gen C07.Model.
Extraction Language OCaml.
Extraction "../build/ml/C07/model.ml" c07_read c07_items c07_sym into_octet into_ascii into_char into_digit is_word_char.
