(* C07 proofs, part 9: parenthesised continuation as a whole-file statement.
   Two files are related through the paren depth: what the reader does inside
   "( ... )" at depth p+1 is what it does on "..." at depth p as long as no
   line ends in between; inside a group a line feed is no more than a blank. *)
From Coq Require Import NArith ZArith List Bool Arith Lia ZifyN ZifyBool ZifyNat.
From DV Require Import Base.Outcome Base.Bytes C07.Gen C07.Model C07.Proofs C07.Proofs2 C07.Proofs4 C07.Proofs5.
Import ListNotations.
Local Open Scope N_scope.

(* Lex looks at its input only through ni_view *)
Lemma Lex_first_step l1 p1 l2 p2 : ni_view l1 p1 false = ni_view l2 p2 false ->
  forall its e, Lex l1 p1 its e -> Lex l2 p2 its e.
Proof.
  intros V its e H. inversion H; subst.
  - apply LxParen. rewrite <- V. assumption.
  - eapply LxEof. rewrite <- V. eassumption.
  - eapply LxLF; [rewrite <- V; eassumption|assumption].
  - eapply LxTok; [rewrite <- V; eassumption| | |]; eassumption.
  - eapply LxTokErr; [rewrite <- V; eassumption| |]; eassumption.
Qed.

(* from any boundary the reader has a result (the model run, by items_loop_total) *)
Lemma Lex_total r p : exists its e, Lex r p its e.
Proof.
  pose proof (items_loop_total (proj1 reader_guards_present) (S (S (length r)))
                (mkS (0 :: r) 1 CNone false p) []) as Tt.
  assert (I0 : Inv (mkS (0 :: r) 1 CNone false p)) by (unfold Inv; cbn; lia).
  specialize (Tt I0 eq_refl ltac:(unfold rest; cbn; lia)).
  pose proof (items_loop_Lex (S (S (length r))) (mkS (0 :: r) 1 CNone false p) [] eq_refl) as Ll.
  destruct (snd (items_loop (S (S (length r))) (mkS (0 :: r) 1 CNone false p) [])); try contradiction;
    destruct Ll as (its & _ & F); eexists _, _; exact F.
Qed.

(* the general form of layout_whole_file: the two continuations only have to be
   read alike from the boundary at the depth reached there *)
Theorem layout_whole_file_gen pre r1 r2 its1 p1 :
  delim_head r1 -> delim_head r2 ->
  (forall its e, Lex r1 p1 its e -> Lex r2 p1 its e) ->
  Reach (pre ++ r1) 0 its1 r1 p1 ->
  items_of (pre ++ r1) = items_of (pre ++ r2).
Proof.
  intros D1 D2 HL HR.
  destruct (Reach_local r1 r2 D1 D2 _ _ _ _ _ HR pre eq_refl (le_n _)) as (u' & E & R2).
  assert (u' = []).
  { apply (f_equal (@length N)) in E. rewrite app_length in E. destruct u'; [reflexivity|cbn in E; lia]. }
  subst u'. cbn [app] in R2.
  pose proof (items_of_Lex (pre ++ r1)) as L1. pose proof (items_of_Lex (pre ++ r2)) as L2.
  destruct (Lex_total r1 p1) as (its2 & e & Lb).
  pose proof (Reach_Lex _ _ _ _ _ HR _ _ Lb) as A1.
  pose proof (Reach_Lex _ _ _ _ _ R2 _ _ (HL _ _ Lb)) as A2.
  destruct (Lex_det _ _ _ _ L1 _ _ A1) as [F1 E1]. destruct (Lex_det _ _ _ _ L2 _ _ A2) as [F2 E2].
  destruct (items_of (pre ++ r1)) as [a b], (items_of (pre ++ r2)) as [c d]. cbn [fst snd] in *. congruence.
Qed.

(* ------------------------------------------------------------ depth shift *)

Lemma ni_loop_depth l : forall incom p h n n' c p' h',
  ni_loop l incom p h n = NiOk n' c p' h' -> c <> CLF ->
  ni_loop l incom (S p) h n = NiOk n' c (S p') h'.
Proof.
  induction l as [|ch t IH]; intros incom p h n n' c p' h'; cbn [ni_loop].
  - intros H _; injection H as <- <- <- <-. reflexivity.
  - destruct (incom && negb (ch =? ni_comment_end)); [apply IH|].
    destruct (memN ch ni_space); [apply IH|].
    destruct (ch =? ni_cr_dead); [apply IH|].
    destruct (ch =? ni_open); [apply IH|].
    destruct (ch =? ni_close). { destruct p; [discriminate|]. apply IH. }
    destruct (ch =? ni_comment); [apply IH|].
    destruct (ch =? ni_newline).
    { destruct p; cbn [Nat.eqb]; [intros H Hc; injection H as _ <- _ _; congruence|apply IH]. }
    destruct (ch =? ni_quote); intros H _; injection H as <- <- <- <-; reflexivity.
Qed.

Lemma ni_view_depth l p h c p' h' l' : ni_view l p h = Some (c, p', h', l') -> c <> CLF ->
  ni_view l (S p) h = Some (c, S p', h', l').
Proof.
  unfold ni_view. destruct (ni_loop l false p h 0) as [|n c0 p0 h0] eqn:E; [discriminate|].
  intros H Hc; injection H as -> -> -> <-. rewrite (ni_loop_depth _ _ _ _ _ _ _ _ _ E Hc). reflexivity.
Qed.

Definition NoLF (its : list item) : Prop := Forall (fun i => i <> ILF) its.

(* a stretch of tokens without a line end is read alike one level deeper *)
Lemma Reach_depth l p its l' p' : Reach l p its l' p' -> NoLF its -> Reach l (S p) its l' (S p').
Proof.
  induction 1 as [l p | l p p' h l1 its l2 p2 V HR IH | l p c p' h l1 syms l1' its l2 p2 V Hc HT HR IH];
    intros HN.
  - apply RRefl.
  - inversion HN; subst. congruence.
  - inversion HN; subst. eapply RTok; eauto.
    apply ni_view_depth; [exact V|]. intros ->. discriminate.
Qed.

Lemma Reach_open x p its l' p' : Reach x (S p) its l' p' -> its <> [] ->
  Reach (ni_open :: x) p its l' p'.
Proof.
  intros H Hne. inversion H; subst; [congruence| |].
  - eapply RLF; [rewrite ni_view_open; eassumption|assumption].
  - eapply RTok; [rewrite ni_view_open; eassumption| | |]; eassumption.
Qed.

Lemma Reach_nil l p l' p' : Reach l p [] l' p' -> l = l' /\ p = p'.
Proof. inversion 1; auto. Qed.

(* Wrapping the fields of a line in parentheses.  File A reads
     pre  m  LF post      and file B      pre ( m ) LF post
   where the reader is at an item boundary after pre, m begins with a blank and
   holds the tokens up to the end of the line: the item streams are equal. *)
Theorem layout_parens_whole_file pre m post its1 its2 p1 :
  delim_head m ->
  Reach (pre ++ m ++ ni_newline :: post) 0 its1 (m ++ ni_newline :: post) p1 ->
  Reach (m ++ ni_newline :: post) p1 its2 (ni_newline :: post) p1 -> NoLF its2 ->
  items_of (pre ++ m ++ ni_newline :: post)
  = items_of (pre ++ ni_open :: m ++ ni_close :: ni_newline :: post).
Proof.
  intros Dm HR Hm HN.
  assert (Dnl : forall t, delim_head (ni_newline :: t)).
  { intros t. exists ni_newline, t. repeat split; vm_compute; congruence. }
  assert (Dcl : forall t, delim_head (ni_close :: t)).
  { intros t. exists ni_close, t. repeat split; vm_compute; congruence. }
  apply (layout_whole_file_gen pre (m ++ ni_newline :: post) (ni_open :: m ++ ni_close :: ni_newline :: post) its1 p1).
  - destruct Dm as (d & t & -> & A). exists d, (t ++ ni_newline :: post). split; [reflexivity|exact A].
  - exists ni_open, (m ++ ni_close :: ni_newline :: post). repeat split; vm_compute; congruence.
  - intros its e HL.
    (* decompose the run on file A at the end of the line *)
    destruct (Lex_total (ni_newline :: post) p1) as (its3 & e3 & Lb).
    pose proof (Reach_Lex _ _ _ _ _ Hm _ _ Lb) as A1.
    destruct (Lex_det _ _ _ _ HL _ _ A1) as [-> ->].
    (* the same tokens in front of `)` *)
    destruct (Reach_local (ni_newline :: post) (ni_close :: ni_newline :: post) (Dnl post) (Dcl _)
                _ _ _ _ _ Hm m eq_refl (le_n _)) as (u' & E & R2).
    assert (u' = []).
    { apply (f_equal (@length N)) in E. rewrite app_length in E. destruct u'; [reflexivity|cbn in E; lia]. }
    subst u'. cbn [app] in R2.
    (* one level deeper, behind `(` *)
    pose proof (Reach_depth _ _ _ _ _ R2 HN) as R3.
    assert (Hne : its2 <> []).
    { intros ->. destruct (Reach_nil _ _ _ _ Hm) as [Heq _].
      destruct Dm as (d & t & -> & _). apply (f_equal (@length N)) in Heq. cbn in Heq. rewrite app_length in Heq. cbn in Heq. lia. }
    pose proof (Reach_open _ _ _ _ _ R3 Hne) as R4.
    eapply Reach_Lex; [exact R4|].
    (* `)` closes the group: the rest is read as in file A *)
    eapply Lex_first_step; [|exact Lb]. symmetry. apply ni_view_close.
  - exact HR.
Qed.

(* inside a group a line feed (with or without blanks around it) can replace a
   run of blanks *)
Theorem layout_newline_in_group_whole_file pre ws ws1 ws2 t its1 p :
  Forall (fun c => is_space c = true) ws -> ws <> [] ->
  Forall (fun c => is_space c = true) ws1 -> ws1 <> [] ->
  Forall (fun c => is_space c = true) ws2 ->
  Reach (pre ++ ws ++ t) 0 its1 (ws ++ t) (S p) ->
  items_of (pre ++ ws ++ t) = items_of (pre ++ ws1 ++ ni_newline :: ws2 ++ t).
Proof.
  intros F N0 F1 N1 F2 HR.
  apply (layout_whole_file_gen pre (ws ++ t) (ws1 ++ ni_newline :: ws2 ++ t) its1 (S p)); auto.
  - destruct ws as [|c w]; [congruence|]. inversion F; subst.
    destruct (space_delim c H1) as (A & B & C). exists c, (w ++ t). auto.
  - destruct ws1 as [|c w]; [congruence|]. inversion F1; subst.
    destruct (space_delim c H1) as (A & B & C). exists c, (w ++ ni_newline :: ws2 ++ t). auto.
  - apply Lex_first_step.
    rewrite !ni_view_space_run by assumption. rewrite ni_view_newline_in_group.
    destruct ws2 as [|c w]; [reflexivity|]. symmetry. apply ni_view_space_run; [assumption|discriminate].
Qed.

Example layout_parens_whole_file_ex :
  items_of [97; 32; 49; 32; 50; 10; 98; 10] = items_of [97; 40; 32; 49; 32; 10; 50; 41; 10; 98; 10]
  /\ fst (items_of [97; 32; 49; 32; 50; 10; 98; 10]) =
     [ITok false false [SChar 97]; ITok false true [SChar 49]; ITok false true [SChar 50]; ILF;
      ITok false false [SChar 98]; ILF].
Proof. vm_compute. split; reflexivity. Qed.
