(* C07 proofs, part 14: value correctness of scan_octets for quoted tokens. *)
From Coq Require Import NArith ZArith List Bool Arith Lia ZifyN ZifyBool ZifyNat.
From DV Require Import Base.Outcome Base.Bytes C07.Gen C07.Model C07.Proofs C07.Proofs2 C07.Proofs4
  C07.Proofs5 C07.Proofs6 C07.Proofs12.
Import ListNotations.
Local Open Scope N_scope.

Definition plain_q (tok : list N) : Prop := Forall (fun c => asc_q_ok c = true) tok.

(* inside quotes the fast loop walks over plain characters; it stops at the
   closing quote (consumed, category None) or at any other octet (not consumed) *)
Lemma ascii_loop_plain_q : forall tok fuel s cnt d t,
  plain_q tok -> scat s = CQuo -> rest s = tok ++ d :: t -> asc_q_ok d = false ->
  (length tok < fuel)%nat ->
  exists s', ascii_loop fuel s cnt = Ok (s', (cnt + length tok)%nat) /\ buf s' = buf s /\
    (if d =? asc_q_end
     then start s' = (start s + length tok + 1)%nat /\ scat s' = CNone
     else start s' = (start s + length tok)%nat /\ scat s' = CQuo).
Proof.
  induction tok as [|c tok IH]; intros fuel s cnt d t Hp Hc Hr Hd Hf.
  - destruct fuel as [|f]; [cbn in Hf; lia|]. cbn [ascii_loop]. unfold next_ascii_symbol. rewrite Hc.
    cbn [app] in Hr. rewrite Hr. unfold asc_q_ok in Hd.
    destruct (d =? asc_q_end) eqn:Eq.
    + eexists. split; [cbn [length]; rewrite Nat.add_0_r; reflexivity|].
      cbn [set_cat advance buf start scat length]. repeat split; auto; lia.
    + cbn [negb andb] in Hd. apply negb_false_iff in Hd. rewrite Hd.
      exists s. cbn [length]. rewrite !Nat.add_0_r. repeat split; auto.
  - destruct fuel as [|f]; [cbn in Hf; lia|]. cbn [ascii_loop]. unfold next_ascii_symbol. rewrite Hc.
    cbn [app] in Hr. rewrite Hr. inversion Hp as [|? ? Hc1 Hp1]; subst.
    unfold asc_q_ok in Hc1. apply andb_true_iff in Hc1 as [Hq1 Hc1].
    apply negb_true_iff in Hq1, Hc1. rewrite Hq1, Hc1.
    destruct (IH f (advance s 1) (S cnt) d t Hp1 Hc (rest_cons _ _ _ Hr) Hd ltac:(cbn in Hf; lia))
      as (s' & E & A & B).
    exists s'. cbn [length]. replace (cnt + S (length tok))%nat with (S cnt + length tok)%nat by lia.
    split; [exact E|]. cbn [advance buf start] in *. split; [exact A|].
    destruct (d =? asc_q_end); destruct B as [B1 B2]; split; auto; lia.
Qed.

(* a quoted string of plain characters comes back as exactly those characters *)
Theorem scan_octets_quoted_plain_value s tok t r s2 :
  scat s = CQuo -> rest s = tok ++ asc_q_end :: t -> plain_q tok ->
  scan_octets s = Ok (r, s2) -> r = tok.
Proof.
  intros Hc Hr Hp.
  assert (Hdn : asc_q_ok asc_q_end = false) by (vm_compute; reflexivity).
  unfold scan_octets, require_token. rewrite Hc. cbn [bind].
  unfold trim_to. rewrite Nat.leb_refl. cbn [bind]. rewrite Nat.sub_diag, Hc.
  set (s0 := mkS (skipn (start s) (buf s)) 0 CQuo (hsp s) (par s)).
  assert (Hr0 : rest s0 = tok ++ asc_q_end :: t) by (unfold rest, s0; cbn [buf start skipn]; exact Hr).
  assert (Hf0 : (length tok < fuel_of s0)%nat).
  { unfold fuel_of, s0. cbn [buf]. fold (rest s). rewrite Hr, app_length. cbn [length]. lia. }
  destruct (ascii_loop_plain_q tok (fuel_of s0) s0 0 asc_q_end t Hp eq_refl Hr0 Hdn Hf0) as (s1 & E1 & B1 & Q).
  rewrite N.eqb_refl in Q. destruct Q as [S1 C1].
  rewrite E1. cbn [bind fst snd]. rewrite C1, S1. cbn [s0 start Nat.add].
  replace (length tok + 1)%nat with (S (length tok)) by lia.
  replace (match scat s0 with CQuo => true | _ => false end) with true by reflexivity. cbn [bind].
  destruct (next_item s1) as [s3| | |] eqn:En; cbn [bind]; try discriminate.
  assert (B3 : buf s3 = rest s).
  { unfold next_item in En. destruct (is_token (scat s1)); [discriminate En|].
    destruct (ni_loop _ _ _ _ _); [discriminate En|]. injection En as <-. cbn [buf]. rewrite B1. reflexivity. }
  unfold split_to. destruct (Nat.leb (length tok) (start s3)); [|discriminate].
  intros H; injection H as <- _. rewrite B3, Hr. apply (take_app_length tok (asc_q_end :: t)).
Qed.

Example scan_octets_quoted_plain_value_ex :
  scan_octets (mkS [0; 34; 97; 59; 98; 34; 10] 2 CQuo false 0) = Ok ([97; 59; 98], mkS [34; 10] 2 CLF false 0)
  /\ plain_q [97; 59; 98].
Proof. split; [vm_compute; reflexivity|]. repeat constructor. Qed.

(* the slow loop inside quotes *)
Lemma write_loop_value_q : forall syms l l', Toks true l syms l' ->
  forall octs fuel s w s' w', octets_of syms octs -> scat s = CQuo -> rest s = l -> (w <= start s)%nat ->
  write_loop into_octet fuel s w = Ok (s', w') ->
  w' = (w + length octs)%nat /\ firstn w' (buf s') = firstn w (buf s) ++ octs /\ rest s' = l' /\
  scat s' = CNone /\ (w' < start s')%nat.
Proof.
  induction 1 as [l sym n Hq Hs Hw | l sym n Hq Hs He | l sym n syms l' Hs Hg HT IH];
    intros octs fuel s w s' w' Ho Hc Hr Hle Hwl; unfold octets_of in Ho; try discriminate.
  - destruct octs; [|cbn in Ho; discriminate Ho]. destruct fuel as [|f]; [discriminate Hwl|].
    cbn [write_loop] in Hwl. unfold next_symbol, next_symbol_gen in Hwl. rewrite Hc, Hr, Hs, He in Hwl.
    cbn [bind] in Hwl. injection Hwl as <- <-. pose proof (sym_at_len _ _ _ Hs) as Ln.
    cbn [length set_cat advance buf start scat]. rewrite Nat.add_0_r, app_nil_r.
    repeat split; auto; try lia. rewrite <- Hr. unfold rest. cbn [buf start]. rewrite skipn_add. reflexivity.
  - destruct octs as [|b octs]; [cbn in Ho; discriminate Ho|]. cbn [map] in Ho. injection Ho as Hb Ho.
    destruct fuel as [|f]; [discriminate Hwl|].
    cbn [write_loop] in Hwl. unfold next_symbol, next_symbol_gen in Hwl. rewrite Hc, Hr, Hs in Hwl.
    unfold goes_on in Hg. rewrite Hg in Hwl. cbn [bind] in Hwl. rewrite Hb in Hwl.
    unfold store in Hwl. destruct (set_byte (buf (advance s n)) w b) as [bf|] eqn:Eb; [|discriminate Hwl].
    cbn [bind] in Hwl. pose proof (sym_at_len _ _ _ Hs) as Ln.
    assert (Hr2 : rest (with_buf (advance s n) bf) = skipn n l).
    { unfold rest. cbn [with_buf advance buf start] in *. rewrite (set_byte_skipn _ _ _ _ _ Eb) by lia.
      rewrite <- Hr. unfold rest. rewrite skipn_add. reflexivity. }
    destruct (IH octs f (with_buf (advance s n) bf) (S w) s' w' Ho Hc Hr2
                 ltac:(cbn [with_buf advance start]; lia) Hwl) as (A & B & C & D & F).
    split; [cbn [length]; lia|]. split; [|auto].
    rewrite B. cbn [with_buf buf]. rewrite (set_byte_firstn _ _ _ _ Eb). cbn [advance buf].
    rewrite <- app_assoc. reflexivity.
Qed.

(* a quoted string = plain prefix p, then symbols (the first octet of them is
   neither plain nor the closing quote) up to the closing quote *)
Theorem scan_octets_quoted_value s p q syms octs l' r s2 :
  scat s = CQuo -> rest s = p ++ q -> plain_q p ->
  (exists c q', q = c :: q' /\ asc_q_ok c = false /\ c <> asc_q_end) ->
  Toks true q syms l' -> octets_of syms octs ->
  scan_octets s = Ok (r, s2) -> r = p ++ octs.
Proof.
  intros Hc Hr Hp (c & q' & -> & Hcn & Hcq) HT Ho.
  unfold scan_octets, require_token. rewrite Hc. cbn [bind].
  unfold trim_to. rewrite Nat.leb_refl. cbn [bind]. rewrite Nat.sub_diag, Hc.
  set (s0 := mkS (skipn (start s) (buf s)) 0 CQuo (hsp s) (par s)).
  assert (Hr0 : rest s0 = p ++ c :: q') by (unfold rest, s0; cbn [buf start skipn]; exact Hr).
  assert (Hf0 : (length p < fuel_of s0)%nat).
  { unfold fuel_of, s0. cbn [buf]. fold (rest s). rewrite Hr, app_length. cbn [length]. lia. }
  destruct (ascii_loop_plain_q p (fuel_of s0) s0 0 c q' Hp eq_refl Hr0 Hcn Hf0) as (s1 & E1 & B1 & Q).
  assert (Eq : (c =? asc_q_end) = false) by (apply N.eqb_neq; exact Hcq). rewrite Eq in Q.
  destruct Q as [S1 C1]. rewrite E1. cbn [bind fst snd]. rewrite C1.
  assert (Rs : rest s1 = c :: q').
  { unfold rest. rewrite B1, S1. cbn [s0 buf start Nat.add]. fold (rest s). rewrite Hr.
    rewrite skipn_app, skipn_all, Nat.sub_diag. reflexivity. }
  destruct (write_loop into_octet (fuel_of s1) s1 (start s1)) as [[s3 w3]| | |] eqn:Ew; cbn [bind]; try discriminate.
  destruct (write_loop_value_q _ _ _ HT octs _ _ _ _ _ Ho C1 Rs (le_n _) Ew) as (A & B & _ & D & F).
  cbn [fst snd].
  destruct (next_item s3) as [s4| | |] eqn:En; cbn [bind]; try discriminate.
  assert (B4 : buf s4 = buf s3).
  { unfold next_item in En. destruct (is_token (scat s3)); [discriminate En|].
    destruct (ni_loop _ _ _ _ _); [discriminate En|]. injection En as <-. reflexivity. }
  unfold split_to. destruct (Nat.leb w3 (start s4)); [|discriminate].
  intros H; injection H as <- _. rewrite B4, B, B1, S1. cbn [s0 buf start Nat.add]. fold (rest s). rewrite Hr.
  f_equal. apply (take_app_length p (c :: q')).
Qed.

Example scan_octets_quoted_value_ex :
  scan_octets (mkS [0; 34; 97; 32; 92; 34; 98; 34; 10] 2 CQuo false 0)
    = Ok ([97; 32; 34; 98], mkS [98; 34; 10] 3 CLF false 0)
  /\ Toks true [32; 92; 34; 98; 34; 10] [SChar 32; SSimple 34; SChar 98] [10]
  /\ octets_of [SChar 32; SSimple 34; SChar 98] [32; 34; 98].
Proof.
  split; [vm_compute; reflexivity|]. split; [|vm_compute; reflexivity].
  eapply TkStep; [vm_compute; reflexivity|vm_compute; reflexivity|].
  eapply TkStep; [vm_compute; reflexivity|vm_compute; reflexivity|].
  eapply TkStep; [vm_compute; reflexivity|vm_compute; reflexivity|].
  eapply (TkEndQ true [34; 10] (SChar 34) 1); [reflexivity|vm_compute; reflexivity|vm_compute; reflexivity].
Qed.
