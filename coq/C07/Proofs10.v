(* C07 proofs, part 10: a bound on the outer entry loop.  rem s = octets not
   yet read.  Every operation of the model leaves rem unchanged or smaller, and
   a state at a line feed is only ever produced by consuming that line feed:
   every entry that next_entry goes on from has consumed at least one octet,
   so read_loop's fuel (length of the file + 2) is never exhausted. *)
From Coq Require Import NArith ZArith List Bool Arith Lia ZifyN ZifyBool ZifyNat.
From DV Require Import Base.Outcome Base.Bytes C07.Gen C07.Model C07.Proofs C07.Proofs2 C07.Proofs4
  C07.Proofs6 C07.Proofs7 C07.Proofs8.
Import ListNotations.
Local Open Scope N_scope.

Definition rem (s : sbuf) : nat := (length (buf s) - start s)%nat.

Definition MP (s s' : sbuf) : Prop :=
  (rem s' <= rem s)%nat /\ (scat s' = CLF -> scat s = CLF \/ (rem s' < rem s)%nat).

Lemma MP_refl s : MP s s.
Proof. split; [lia|auto]. Qed.

Lemma MP_trans a b c : MP a b -> MP b c -> MP a c.
Proof.
  intros (A1 & A2) (B1 & B2). split; [lia|]. intros Hc.
  destruct (B2 Hc) as [Hb | Hb]; [destruct (A2 Hb) as [Ha | Ha]; [left; exact Ha|right; lia]|right; lia].
Qed.

(* steps that keep rem and do not create a line feed state *)
Lemma MP_same s s' : rem s' = rem s -> (scat s' = CLF -> scat s = CLF) -> MP s s'.
Proof. intros A B. split; [lia|]. intros H. left. auto. Qed.

Definition mpo {A} (s : sbuf) (pr : A -> sbuf) (o : outcome A) : Prop :=
  match o with Ok a => MP s (pr a) | _ => True end.

Lemma mpo_bind {A B} s (pa : A -> sbuf) (pb : B -> sbuf) (o : outcome A) (f : A -> outcome B) :
  mpo s pa o -> (forall a, o = Ok a -> mpo (pa a) pb (f a)) -> mpo s pb (bind o f).
Proof.
  destruct o as [a| | |]; cbn; auto. intros H K. specialize (K a eq_refl).
  destruct (f a); cbn in *; auto. eapply MP_trans; eauto.
Qed.

Lemma mpo_pure {A B} s (pb : B -> sbuf) (o : outcome A) (f : A -> outcome B) :
  (forall a, o = Ok a -> mpo s pb (f a)) -> mpo s pb (bind o f).
Proof. destruct o as [a| | |]; cbn; auto. Qed.

(* ------------------------------------------------------------- primitives *)

Lemma mp_next_item s : mpo s (fun x => x) (next_item s).
Proof.
  unfold next_item. destruct (is_token (scat s)); [exact I|].
  destruct (ni_loop (rest s) false (par s) false 0) as [|n c p h] eqn:E; [exact I|].
  pose proof (ni_loop_bounds _ _ _ _ _ _ _ _ _ E) as B. unfold rest in B. rewrite skipn_length in B.
  cbn [mpo]. unfold MP, rem. cbn [buf start scat]. split; [lia|]. intros ->. right.
  pose proof (ni_loop_lf_quo _ _ _ _ _ _ _ _ _ E (or_introl eq_refl)). lia.
Qed.

Lemma next_item_strict s s' : next_item s = Ok s' -> (rem s' <= rem s)%nat /\ (scat s' = CLF -> (rem s' < rem s)%nat).
Proof.
  unfold next_item. destruct (is_token (scat s)); [discriminate|].
  destruct (ni_loop (rest s) false (par s) false 0) as [|n c p h] eqn:E; [discriminate|].
  intros H; injection H as <-.
  pose proof (ni_loop_bounds _ _ _ _ _ _ _ _ _ E) as B. unfold rest in B. rewrite skipn_length in B.
  unfold rem. cbn [buf start scat]. split; [lia|]. intros ->.
  pose proof (ni_loop_lf_quo _ _ _ _ _ _ _ _ _ E (or_introl eq_refl)). lia.
Qed.

Lemma mp_next_symbol_gen want s : mpo s snd (next_symbol_gen want s).
Proof.
  unfold next_symbol_gen. destruct (scat s) eqn:Ec; cbn [mpo snd]; try apply MP_refl;
  destruct (sym_at (rest s)) as [| |sym n]; cbn [mpo]; auto;
  repeat match goal with |- context [if ?b then _ else _] => destruct b end; cbn [mpo snd]; try apply MP_refl;
  (split; [unfold rem; cbn [advance set_cat buf start]; lia|]);
  cbn [advance set_cat scat]; intros H; try discriminate H; left; congruence.
Qed.

Lemma mp_next_symbol s : mpo s snd (next_symbol s).
Proof. apply mp_next_symbol_gen. Qed.

Lemma mp_next_ascii s : MP s (snd (next_ascii_symbol s)).
Proof.
  unfold next_ascii_symbol. destruct (scat s) eqn:Ec; cbn [snd]; try apply MP_refl;
  destruct (rest s); cbn [snd]; try apply MP_refl;
  repeat match goal with |- context [if ?b then _ else _] => destruct b end; cbn [snd]; try apply MP_refl;
  (split; [unfold rem; cbn [advance set_cat buf start]; lia|]);
  cbn [advance set_cat scat]; intros H; try discriminate H; left; congruence.
Qed.

Lemma mp_trim s a : mpo s (fun x => x) (trim_to s a).
Proof.
  unfold trim_to. destruct (Nat.leb a (start s)) eqn:E; [|exact I]. apply Nat.leb_le in E.
  cbn [mpo]. apply MP_same; [|auto]. unfold rem. cbn [buf start]. rewrite skipn_length. lia.
Qed.

Lemma mp_split s a : mpo s snd (split_to s a).
Proof.
  unfold split_to. destruct (Nat.leb a (start s)) eqn:E; [|exact I]. apply Nat.leb_le in E.
  cbn [mpo snd]. apply MP_same; [|auto]. unfold rem. cbn [buf start]. rewrite skipn_length. lia.
Qed.

Lemma mp_store s i v : mpo s (fun x => x) (store s i v).
Proof.
  unfold store. destruct (set_byte (buf s) i v) eqn:E; [|exact I]. cbn [mpo].
  apply MP_same; [|auto]. unfold rem. cbn [with_buf buf start]. rewrite (set_byte_length _ _ _ _ E). reflexivity.
Qed.

Lemma mp_store_list : forall l s w, mpo s (fun x => x) (store_list s w l).
Proof.
  induction l as [|b t IH]; intros s w; cbn [store_list]; [apply MP_refl|].
  eapply mpo_bind; [apply mp_store|]. intros s1 _. apply IH.
Qed.

Lemma mp_set_cat_advance s n : MP s (set_cat (advance s n) CNone).
Proof. split; [unfold rem; cbn; lia|]. cbn. discriminate. Qed.

(* ------------------------------------------------------------------ loops *)

Lemma mp_ascii_loop : forall fuel s c, mpo s fst (ascii_loop fuel s c).
Proof.
  induction fuel as [|f IH]; intros s c; cbn [ascii_loop]; [exact I|].
  pose proof (mp_next_ascii s) as M. destruct (next_ascii_symbol s) as [r s1]. cbn [snd] in M.
  destruct r; [|exact M]. specialize (IH s1 (S c)). destruct (ascii_loop f s1 (S c)); cbn [mpo] in *; auto.
  eapply MP_trans; eauto.
Qed.

Lemma mp_write_loop conv : forall fuel s w, mpo s fst (write_loop conv fuel s w).
Proof.
  induction fuel as [|f IH]; intros s w; cbn [write_loop]; [exact I|].
  eapply mpo_bind; [apply mp_next_symbol|]. intros [r s1] _. cbn [snd]. destruct r; [|apply MP_refl].
  destruct (conv s0); [|exact I]. eapply mpo_bind; [apply mp_store|]. intros s2 _. apply IH.
Qed.

Lemma mp_char_loop : forall fuel s, mpo s (fun x => x) (char_loop fuel s).
Proof.
  induction fuel as [|f IH]; intros s; cbn [char_loop]; [exact I|].
  eapply mpo_bind; [apply mp_next_symbol_gen|]. intros [r s1] _. cbn [snd]. destruct r; [apply IH|apply MP_refl].
Qed.

Lemma mp_string_loop : forall fuel s w, mpo s fst (string_loop fuel s w).
Proof.
  induction fuel as [|f IH]; intros s w; cbn [string_loop]; [exact I|].
  eapply mpo_bind; [apply mp_next_symbol|]. intros [r s1] _. cbn [snd]. destruct r; [|apply MP_refl].
  destruct (into_char s0); [|exact I].
  destruct (Nat.leb (w + length (encode_utf8 n)) (start s1)); [|exact I].
  eapply mpo_bind; [apply mp_store_list|]. intros s2 _. apply IH.
Qed.

Lemma mp_uint_loop : forall fuel maxv chk s res, mpo s snd (uint_loop fuel maxv chk s res).
Proof.
  induction fuel as [|f IH]; intros maxv chk s res; cbn [uint_loop]; [exact I|].
  eapply mpo_bind; [apply mp_next_symbol|]. intros [r s1] _. cbn [snd]. destruct r; [|apply MP_refl].
  destruct (maxv <? res * 10); [exact I|]. destruct (into_digit s0); [|exact I].
  destruct (maxv <? res * 10 + n); [destruct chk; exact I|]. apply IH.
Qed.

Definition p3 {A} (x : A * sbuf * nat) : sbuf := snd (fst x).

Lemma mp_label_ascii_loop : forall fuel s st w latest, mpo s p3 (label_ascii_loop fuel s st w latest).
Proof.
  induction fuel as [|f IH]; intros s st w latest; cbn [label_ascii_loop]; [exact I|].
  pose proof (mp_next_ascii s) as M. destruct (next_ascii_symbol s) as [r s1]. cbn [snd] in M.
  destruct r as [ch|]; [|exact M].
  destruct (ch =? 46).
  - pose proof (mp_store s1 st (len_octet w st)) as St. destruct (store s1 st (len_octet w st)); cbn [bind mpo p3 fst snd] in *; auto.
    eapply MP_trans; eauto.
  - destruct (too_long (S w) latest label_latest_ge); [exact I|].
    specialize (IH s1 st (S w) latest). destruct (label_ascii_loop f s1 st (S w) latest); cbn [mpo] in *; auto.
    eapply MP_trans; eauto.
Qed.

Lemma mp_label_sym_loop : forall fuel s st w latest, mpo s p3 (label_sym_loop fuel s st w latest).
Proof.
  induction fuel as [|f IH]; intros s st w latest; cbn [label_sym_loop]; [exact I|].
  eapply mpo_bind; [apply mp_next_symbol|]. intros [r s1] _. cbn [snd]. destruct r as [sym|].
  - destruct (sym_eqb sym (SChar 46)).
    + pose proof (mp_store s1 st (len_octet w st)) as St. destruct (store s1 st (len_octet w st)); cbn [bind mpo p3 fst snd] in *; auto.
    + destruct (into_octet sym); [|exact I]. eapply mpo_bind; [apply mp_store|]. intros s2 _.
      destruct (too_long (S w) latest label_latest_ge); [exact I|apply IH].
  - destruct (Nat.ltb (st + 1) w).
    + pose proof (mp_store s1 st (len_octet w st)) as St. destruct (store s1 st (len_octet w st)); cbn [bind mpo p3 fst snd] in *; auto.
    + cbn [mpo p3 fst snd]. apply MP_refl.
Qed.

Lemma mp_convert_label s w : mpo s p3 (convert_label s w).
Proof.
  unfold convert_label. destruct (Nat.eqb (S w) (start s)); [|apply mp_label_sym_loop].
  eapply mpo_bind; [apply mp_label_ascii_loop|]. intros [[r s1] w1] _. unfold p3. cbn [fst snd].
  destruct r; [cbn [mpo p3 fst snd]; apply MP_refl|apply mp_label_sym_loop].
Qed.

Lemma mp_chain_tail {A} s (o : outcome A) (s' : sbuf) : MP s s' -> mpo s snd (do n <- o; Ok (n, s')).
Proof. intros H. destruct o; cbn; auto. Qed.

Lemma mp_name_loop : forall fuel origin s w, mpo s snd (name_loop fuel origin s w).
Proof.
  induction fuel as [|f IH]; intros origin s w; cbn [name_loop]; [exact I|].
  eapply mpo_bind; [apply mp_convert_label|]. intros [[res s1] w1] _. unfold p3. cbn [fst snd].
  destruct res.
  - eapply mpo_bind; [apply mp_next_item|]. intros s2 _. cbn beta.
    destruct (Nat.eqb w 0).
    + destruct origin; cbn [get_origin bind mpo]; auto. apply mp_chain_tail. apply MP_refl.
    + eapply mpo_bind; [apply mp_split|]. intros [r s3] _. cbn [fst snd]. apply mp_chain_tail. apply MP_refl.
  - destruct (Nat.eqb w1 1).
    + eapply mpo_bind; [apply mp_next_symbol|]. intros [r s2] _. cbn [snd]. destruct r; [exact I|].
      eapply mpo_bind; [apply mp_next_item|]. intros s3 _. cbn [mpo snd]. apply MP_refl.
    + destruct (name_rejects_empty_label && Nat.eqb w1 (S w)); [exact I|].
      destruct (if name_max_ge then Nat.leb name_max w1 else Nat.ltb name_max w1); [exact I|apply IH].
  - eapply mpo_bind; [apply mp_next_item|]. intros s2 _. cbn beta.
    eapply mpo_bind; [apply mp_split|]. intros [r s3] _. cbn [fst snd].
    destruct origin; cbn [get_origin bind mpo]; auto. apply mp_chain_tail. apply MP_refl.
Qed.

Lemma mp_skip_at s : mpo s snd (skip_at_token s).
Proof.
  unfold skip_at_token.
  assert (Same : mpo s snd (Ok (false, s))) by (cbn; apply MP_refl).
  destruct (peek_symbol s) as [[c| |]|]; try exact Same.
  destruct c as [|p]; [exact Same|].
  repeat (destruct p as [p|p|]; try exact Same).
  destruct (sym_at (skipn 1 (rest s))) as [| |sym n]; try exact I.
  destruct (scat s); try exact I.
  - destruct (negb (is_word_char sym)); [|exact Same].
    pose proof (mp_next_item (set_cat (advance s 1) CNone)) as M.
    destruct (next_item (set_cat (advance s 1) CNone)); cbn [bind mpo snd] in *; auto.
    eapply MP_trans; [apply mp_set_cat_advance|exact M].
  - destruct (sym_eqb sym (SChar 34)); [|exact Same].
    pose proof (mp_next_item (set_cat (advance s (1 + n)) CNone)) as M.
    destruct (next_item (set_cat (advance s (1 + n)) CNone)); cbn [bind mpo snd] in *; auto.
    eapply MP_trans; [apply mp_set_cat_advance|exact M].
Qed.

Lemma mp_skip_marker s : mpo s snd (skip_unknown_marker s).
Proof.
  unfold skip_unknown_marker.
  assert (Same : mpo s snd (Ok (false, s))) by (cbn; apply MP_refl).
  destruct (scat s); try exact Same.
  destruct (sym_at (rest s)) as [| |sy n1]; try exact Same.
  destruct sy as [c|b|b]; try exact Same.
  destruct b as [|p]; [exact Same|].
  repeat (destruct p as [p|p|]; try exact Same).
  destruct (sym_at (skipn n1 (rest s))) as [| |sym n2]; try exact Same.
  destruct (is_word_char sym); [exact Same|].
  pose proof (mp_next_item (set_cat (advance s (n1 + n2)) CNone)) as M.
  destruct (next_item (set_cat (advance s (n1 + n2)) CNone)); cbn [bind mpo snd] in *; auto.
  eapply MP_trans; [apply mp_set_cat_advance|exact M].
Qed.

Lemma mp_scan_name origin s : mpo s snd (scan_name origin s).
Proof.
  unfold scan_name. apply mpo_pure. intros _ _.
  destruct scan_name_handles_at.
  - eapply mpo_bind; [apply mp_skip_at|]. intros [b s1] _. cbn [fst snd]. destruct b.
    + destruct origin; cbn [get_origin bind mpo]; auto. apply mp_chain_tail. apply MP_refl.
    + destruct (start s1); [exact I|]. eapply mpo_bind; [apply mp_trim|]. intros s2 _. apply mp_name_loop.
  - cbn [bind fst snd]. destruct (start s); [exact I|]. eapply mpo_bind; [apply mp_trim|]. intros s2 _. apply mp_name_loop.
Qed.

Lemma mp_finish s w : mpo s snd (do s1 <- next_item s; split_to s1 w).
Proof. eapply mpo_bind; [apply mp_next_item|]. intros s1 _. apply mp_split. Qed.

Lemma mp_scan_octets s : mpo s snd (scan_octets s).
Proof.
  unfold scan_octets. apply mpo_pure. intros _ _.
  eapply mpo_bind; [apply mp_trim|]. intros s0 _. cbn beta.
  eapply mpo_bind; [apply mp_ascii_loop|]. intros [s1 c] _. cbn [fst snd].
  destruct (scat s1).
  - apply mpo_pure. intros w _. apply mp_finish.
  - eapply mpo_bind; [apply mp_write_loop|]. intros [s2 w] _. cbn [fst snd]. apply mp_finish.
  - eapply mpo_bind; [apply mp_write_loop|]. intros [s2 w] _. cbn [fst snd]. apply mp_finish.
  - eapply mpo_bind; [apply mp_write_loop|]. intros [s2 w] _. cbn [fst snd]. apply mp_finish.
Qed.

Lemma mp_scan_ascii_str {A} (op : list N -> outcome A) s : mpo s snd (scan_ascii_str op s).
Proof.
  unfold scan_ascii_str. apply mpo_pure. intros _ _.
  eapply mpo_bind; [apply mp_trim|]. intros s0 _. cbn beta.
  eapply mpo_bind; [apply mp_ascii_loop|]. intros [s1 c] _. cbn [fst snd].
  eapply (mpo_bind s1 fst); [destruct (scat s1); try apply mp_write_loop; cbn; apply MP_refl|].
  intros [s2 w] _. cbn [fst snd]. apply mpo_pure. intros r _.
  eapply mpo_bind; [apply mp_next_item|]. intros s3 _. cbn [mpo snd]. apply MP_refl.
Qed.

Lemma mp_scan_string s : mpo s snd (scan_string s).
Proof.
  unfold scan_string. apply mpo_pure. intros _ _.
  eapply mpo_bind; [apply mp_trim|]. intros s0 _. cbn beta.
  eapply mpo_bind; [apply mp_char_loop|]. intros s1 _. cbn beta.
  eapply mpo_bind; [apply mp_string_loop|]. intros [s2 w] _. cbn [fst snd]. apply mp_finish.
Qed.

Lemma mp_scan_uint maxv chk s : mpo s snd (scan_uint maxv chk s).
Proof.
  unfold scan_uint. apply mpo_pure. intros _ _.
  eapply mpo_bind; [apply mp_uint_loop|]. intros [v s1] _. cbn [fst snd].
  eapply mpo_bind; [apply mp_next_item|]. intros s2 _. cbn [mpo snd]. apply MP_refl.
Qed.

Lemma mp_charstr_ascii_loop : forall fuel s w latest, mpo s fst (charstr_ascii_loop fuel s w latest).
Proof.
  induction fuel as [|f IH]; intros s w latest; cbn [charstr_ascii_loop]; [exact I|].
  pose proof (mp_next_ascii s) as M. destruct (next_ascii_symbol s) as [r s1]. cbn [snd] in M.
  destruct r; [|exact M]. destruct (too_long (S w) latest charstr_latest_ge); [exact I|].
  specialize (IH s1 (S w) latest). destruct (charstr_ascii_loop f s1 (S w) latest); cbn [mpo] in *; auto.
  eapply MP_trans; eauto.
Qed.

Lemma mp_charstr_sym_loop : forall fuel s st w latest, mpo s fst (charstr_sym_loop fuel s st w latest).
Proof.
  induction fuel as [|f IH]; intros s st w latest; cbn [charstr_sym_loop]; [exact I|].
  eapply mpo_bind; [apply mp_next_symbol|]. intros [r s1] _. cbn [snd]. destruct r as [sym|].
  - destruct (into_octet sym); [|exact I]. eapply mpo_bind; [apply mp_store|]. intros s2 _.
    destruct (too_long (S w) latest charstr_latest_ge); [exact I|apply IH].
  - eapply mpo_bind; [apply mp_next_item|]. intros s2 _. cbn beta.
    eapply mpo_bind; [apply mp_store|]. intros s3 _. cbn [mpo fst]. apply MP_refl.
Qed.

Lemma mp_convert_charstr s w : mpo s fst (convert_charstr s w).
Proof.
  unfold convert_charstr. apply mpo_pure. intros _ _.
  eapply (mpo_bind s fst); [destruct (Nat.eqb (S w) (start s)); [apply mp_charstr_ascii_loop|cbn; apply MP_refl]|].
  intros [s1 w1] _. cbn [fst snd]. apply mp_charstr_sym_loop.
Qed.

Lemma mp_charstr_entry_loop : forall fuel s w, mpo s fst (charstr_entry_loop fuel s w).
Proof.
  induction fuel as [|f IH]; intros s w; cbn [charstr_entry_loop]; [exact I|].
  eapply mpo_bind; [apply mp_convert_charstr|]. intros [s1 w1] _. cbn [fst snd].
  destruct (is_line_feed s1); [cbn; apply MP_refl|apply IH].
Qed.

Lemma mp_scan_charstr_entry s : mpo s snd (scan_charstr_entry s).
Proof.
  unfold scan_charstr_entry. destruct (start s); [exact I|].
  eapply mpo_bind; [apply mp_trim|]. intros s0 _. cbn beta.
  eapply mpo_bind; [apply mp_charstr_entry_loop|]. intros [s1 w] _. cbn [fst snd]. apply mp_split.
Qed.

Definition p4 {A B} (x : A * sbuf * nat * B) : sbuf := snd (fst (fst x)).

Lemma mp_append_data s data w b : mpo s (fun x => fst (fst x)) (append_data s data w b).
Proof.
  unfold append_data. destruct b; [cbn; apply MP_refl|].
  destruct (Nat.ltb (start s) (w + length data)).
  - destruct (Nat.leb w (length (buf s))); [cbn; apply MP_refl|exact I].
  - eapply mpo_bind; [apply mp_store_list|]. intros s1 _. cbn. apply MP_refl.
Qed.

Section ConvMP.
Variable St : Type.
Variable process : St -> symbol -> outcome (St * list N).
Variable tail : St -> outcome unit.

Lemma mp_convert_token_loop : forall fuel h s w b, mpo s p4 (convert_token_loop St process fuel h s w b).
Proof.
  induction fuel as [|f IH]; intros h s w b; cbn [convert_token_loop]; [exact I|].
  eapply mpo_bind; [apply mp_next_symbol|]. intros [r s1] _. cbn [snd]. destruct r as [sym|].
  - apply mpo_pure. intros [h1 data] _. cbn [fst snd]. destruct data as [|d0 dt]; [apply IH|].
    eapply mpo_bind; [apply mp_append_data|]. intros [[s2 w2] b2] _. cbn [fst snd]. apply IH.
  - cbn. apply MP_refl.
Qed.

Lemma mp_convert_entry_loop : forall fuel h s w b, mpo s p4 (convert_entry_loop St process fuel h s w b).
Proof.
  induction fuel as [|f IH]; intros h s w b; cbn [convert_entry_loop]; [exact I|].
  destruct (is_line_feed s); [cbn; apply MP_refl|].
  apply mpo_pure. intros _ _.
  eapply mpo_bind; [apply mp_convert_token_loop|]. intros [[[h1 s1] w1] b1] _. unfold p4. cbn [fst snd].
  eapply mpo_bind; [apply mp_next_item|]. intros s2 _. apply IH.
Qed.

Lemma mp_convert_entry init s : mpo s snd (convert_entry St process tail init s).
Proof.
  unfold convert_entry. eapply mpo_bind; [apply mp_convert_entry_loop|].
  intros [[[h1 s1] w1] b1] _. unfold p4. cbn [fst snd]. apply mpo_pure. intros _ _.
  destruct b1; [cbn; apply MP_refl|apply mp_split].
Qed.

Variable tail_data : St -> outcome (list N).
Lemma mp_convert_token init s : mpo s snd (convert_token St process tail_data init s).
Proof.
  unfold convert_token. apply mpo_pure. intros _ _.
  eapply mpo_bind; [apply mp_convert_token_loop|].
  intros [[[h1 s1] w1] b1] _. unfold p4. cbn [fst snd].
  eapply mpo_bind; [apply mp_next_item|]. intros s2 _. cbn beta.
  apply mpo_pure. intros data _.
  eapply (mpo_bind s2 (fun x : sbuf * nat * option (list N) => fst (fst x))).
  - destruct data; [cbn; apply MP_refl|apply mp_append_data].
  - intros [[s3 w3] b3] _. cbn [fst snd]. destruct b3; [cbn; apply MP_refl|apply mp_split].
Qed.
End ConvMP.

Lemma mp_scan_bitmap : forall fuel s bs, mpo s snd (scan_bitmap fuel s bs).
Proof.
  induction fuel as [|f IH]; intros s bs; cbn [scan_bitmap]; [exact I|].
  destruct (is_token (scat s)); [|cbn; apply MP_refl].
  eapply mpo_bind; [apply mp_scan_ascii_str|]. intros [r s1] _. cbn [fst snd]. apply IH.
Qed.

(* ------------------------------------------------------------- entry layer *)

Lemma mp_scan_field origin f s : mpo s snd (scan_field origin f s).
Proof.
  destruct f; cbn [scan_field].
  - apply mp_scan_name.
  - eapply mpo_bind; [apply mp_scan_uint|]. intros [v s1] _. cbn. apply MP_refl.
  - eapply mpo_bind; [apply mp_scan_uint|]. intros [v s1] _. cbn. apply MP_refl.
  - eapply mpo_bind; [apply mp_scan_uint|]. intros [v s1] _. cbn. apply MP_refl.
  - eapply mpo_bind; [apply mp_scan_octets|]. intros [v s1] _. cbn [fst snd].
    destruct (Nat.ltb 255 (length v)); cbn; [exact I|apply MP_refl].
  - apply mp_scan_charstr_entry.
  - eapply mpo_bind; [apply mp_scan_octets|]. intros [v s1] _. cbn [fst snd].
    destruct (parse_ipv4 v); cbn; [apply MP_refl|exact I].
  - eapply mpo_bind; [apply mp_scan_ascii_str|]. intros [v s1] _. cbn. apply MP_refl.
  - apply mp_convert_entry.
  - apply mp_convert_entry.
  - eapply mpo_bind; [apply mp_scan_uint|]. intros [v s1] _. cbn. apply MP_refl.
  - eapply mpo_bind; [apply mp_convert_token|]. intros [v s1] _. cbn. apply MP_refl.
  - eapply mpo_bind; [apply mp_convert_token|]. intros [v s1] _. cbn. apply MP_refl.
  - apply mp_scan_bitmap.
Qed.

Lemma mp_scan_fields origin : forall fs s acc, mpo s snd (scan_fields origin fs s acc).
Proof.
  induction fs as [|f t IH]; intros s acc; cbn [scan_fields]; [cbn; apply MP_refl|].
  eapply mpo_bind; [apply mp_scan_field|]. intros [r s1] _. cbn [fst snd]. apply IH.
Qed.

Lemma mp_scan_rdata origin rtype s : mpo s snd (scan_rdata origin rtype s).
Proof.
  unfold scan_rdata. eapply mpo_bind; [apply mp_skip_marker|]. intros [b s1] _. cbn [fst snd]. destruct b.
  - eapply mpo_bind; [apply mp_scan_uint|]. intros [v s2] _. cbn [fst snd].
    eapply mpo_bind; [apply mp_convert_entry|]. intros [d s3] _. cbn [fst snd].
    destruct (N.of_nat (length d) =? v); cbn; [apply MP_refl|exact I].
  - destruct (schema rtype); [apply mp_scan_fields|exact I].
Qed.

Definition pc (x : option N * option N * N * sbuf) : sbuf := snd x.

Lemma mp_scan_ctr s : mpo s pc (scan_ctr s).
Proof.
  unfold scan_ctr. eapply mpo_bind; [apply mp_scan_ascii_str|]. intros [c1 s1] _. cbn [snd].
  destruct c1 as [cls|ttl|r].
  - eapply mpo_bind; [apply mp_scan_ascii_str|]. intros [c2 s2] _. cbn [snd]. destruct c2 as [r|ttl].
    + cbn. apply MP_refl.
    + eapply mpo_bind; [apply mp_scan_ascii_str|]. intros [r s3] _. cbn. apply MP_refl.
  - eapply mpo_bind; [apply mp_scan_ascii_str|]. intros [c2 s2] _. cbn [snd]. destruct c2 as [r|cls].
    + cbn. apply MP_refl.
    + eapply mpo_bind; [apply mp_scan_ascii_str|]. intros [r s3] _. cbn. apply MP_refl.
  - cbn. apply MP_refl.
Qed.

Definition pe (x : scanned * zstate * sbuf) : sbuf := snd x.

Lemma mp_scan_owner_record zs s owner new_owner : mpo s pe (scan_owner_record zs s owner new_owner).
Proof.
  unfold scan_owner_record. eapply mpo_bind; [apply mp_scan_ctr|].
  intros [[[cls ttl] rtype] s1] _. unfold pc. cbn [snd]. apply mpo_pure. intros cz _.
  eapply mpo_bind; [apply mp_scan_rdata|]. intros [d s2] _. cbn [fst snd].
  apply mpo_pure. intros _ _. cbn. apply MP_refl.
Qed.

Lemma mp_scan_control zs s : mpo s pe (scan_control zs s).
Proof.
  unfold scan_control. eapply mpo_bind; [apply mp_scan_string|]. intros [ctrl s1] _. cbn [snd].
  destruct (eq_ci ctrl [36; 79; 82; 73; 71; 73; 78]).
  { eapply mpo_bind; [apply mp_scan_name|]. intros [n s2] _. cbn [fst snd]. apply mpo_pure. intros _ _. cbn. apply MP_refl. }
  destruct (eq_ci ctrl [36; 73; 78; 67; 76; 85; 68; 69]).
  { eapply mpo_bind; [apply mp_scan_string|]. intros [path s2] _. cbn [snd].
    destruct (negb (is_line_feed s2)); [|cbn; apply MP_refl].
    eapply mpo_bind; [apply mp_scan_name|]. intros [n s3] _. cbn [fst snd]. apply mpo_pure. intros _ _. cbn. apply MP_refl. }
  destruct (eq_ci ctrl [36; 84; 84; 76]); [|exact I].
  eapply mpo_bind; [apply mp_scan_uint|]. intros [t s2] _. cbn [fst snd]. apply mpo_pure. intros _ _. cbn. apply MP_refl.
Qed.

(* an entry either is the end of the file or has consumed at least one octet *)
Lemma scan_entry_consumes zs s x zs' s' : PInv s -> is_token (scat s) = false ->
  scan_entry zs s = Ok (x, zs', s') -> x = SEof \/ (rem s' < rem s)%nat.
Proof.
  intros HP Hc E. pose proof (scan_entry_good zs s string_quote_dropped HP Hc) as G.
  rewrite E in G. cbn [good entry_good] in G. destruct G as (_ & _ & [G | G]); [left; exact G|right].
  revert E. unfold scan_entry. destruct (next_item s) as [s1| | |] eqn:E1; cbn [bind]; try discriminate.
  destruct (next_item_strict _ _ E1) as (N1 & N2).
  assert (Rest : forall o : outcome (scanned * zstate * sbuf), mpo s1 pe o -> is_token (scat s1) = true ->
     o = Ok (x, zs', s') -> (rem s' < rem s)%nat).
  { intros o M Ht ->. cbn [mpo pe snd] in M. destruct M as (M1 & M2).
    destruct (M2 G) as [Hl | Hl]; [rewrite Hl in Ht; discriminate Ht|lia]. }
  assert (Tok : is_token (scat s1) = true ->
    (if hsp s1
     then match last_owner zs with Some o => scan_owner_record zs s1 o false | None => Err 5 end
     else match peek_symbol s1 with
          | Some (SChar 36) => scan_control zs s1
          | _ => do bs <- skip_at_token s1;
                 if fst bs then do o <- get_origin (origin zs); scan_owner_record zs (snd bs) o true
                 else do os <- scan_name (origin zs) (snd bs); scan_owner_record zs (snd os) (fst os) true
          end) = Ok (x, zs', s') -> (rem s' < rem s)%nat).
  { intros Ht. apply Rest; [|exact Ht].
    assert (Other : mpo s1 pe
         (do bs <- skip_at_token s1;
          if fst bs then do o <- get_origin (origin zs); scan_owner_record zs (snd bs) o true
          else do os <- scan_name (origin zs) (snd bs); scan_owner_record zs (snd os) (fst os) true)).
    { eapply mpo_bind; [apply mp_skip_at|]. intros [b s2] _. cbn [fst snd]. destruct b.
      - destruct (origin zs); cbn [get_origin bind mpo]; auto. apply mp_scan_owner_record.
      - eapply mpo_bind; [apply mp_scan_name|]. intros [n s3] _. cbn [fst snd]. apply mp_scan_owner_record. }
    destruct (hsp s1).
    - destruct (last_owner zs); [apply mp_scan_owner_record|exact I].
    - destruct (peek_symbol s1) as [[c| |]|]; try exact Other.
      destruct c as [|p]; [exact Other|].
      repeat (destruct p as [p|p|]; try exact Other). apply mp_scan_control. }
  destruct (scat s1) eqn:Ec.
  - intros H; injection H as _ _ <-. try rewrite Ec in G. discriminate G.
  - apply Tok. reflexivity.
  - apply Tok. reflexivity.
  - intros H; injection H as _ _ <-. apply N2. first [exact Ec | reflexivity].
Qed.

(* Zonefile::next_entry until the end or the first error terminates within the
   fuel read_file gives it: never a panic, never out of fuel *)
Lemma read_loop_total : forall fuel zs s acc, PInv s -> is_token (scat s) = false -> (rem s < fuel)%nat ->
  match snd (read_loop fuel zs s acc) with EEof | EErr _ => True | _ => False end.
Proof.
  induction fuel as [|f IH]; intros zs s acc HP Hc Hf; [lia|].
  cbn [read_loop]. pose proof (scan_entry_good zs s string_quote_dropped HP Hc) as G.
  destruct (scan_entry zs s) as [[[x zs1] s1]| | |] eqn:E; cbn [good entry_good] in G; try contradiction; try exact I.
  destruct G as (HP1 & Hc1 & _).
  destruct (scan_entry_consumes _ _ _ _ _ HP Hc E) as [-> | Hlt]; [exact I|].
  destruct x; try exact I; apply IH; auto; lia.
Qed.

Theorem reader_total file : match snd (read_file file) with EEof | EErr _ => True | _ => False end.
Proof.
  unfold read_file. apply read_loop_total; [apply init_PInv|reflexivity|].
  unfold rem, init_sbuf, init_start. cbn [buf start length]. lia.
Qed.

Example reader_total_ex :
  read_file [10; 59; 120; 10; 97; 46; 32; 49; 32; 73; 78; 32; 65; 32; 49; 46; 50; 46; 51; 46; 52; 10; 10]
  = ([ERecord [1; 97; 0] 1 1 1 [1; 2; 3; 4]], EEof).
Proof. vm_compute. reflexivity. Qed.
