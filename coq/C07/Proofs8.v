(* C07 proofs, part 8: the entry layer keeps the protocol invariant; reading a
   file with the model never panics and no inner loop runs out of fuel. *)
From Coq Require Import NArith ZArith List Bool Arith Lia ZifyN ZifyBool ZifyNat.
From DV Require Import Base.Outcome Base.Bytes C07.Gen C07.Model C07.Proofs C07.Proofs2 C07.Proofs4
  C07.Proofs6 C07.Proofs7.
Import ListNotations.
Local Open Scope N_scope.

Lemma guards_int : int_add_checked = true /\ ttl_add_checked = true.
Proof. destruct reader_guards_present as (_ & A & B & _). auto. Qed.

Lemma scan_field_good origin f s : PInv s -> good (fun rs => PInv (snd rs)) (scan_field origin f s).
Proof.
  intros HP. destruct guards_int as [Ei Et]. destruct f; cbn [scan_field]; try rewrite Ei; try rewrite Et.
  - apply scan_name_good; exact HP.
  - pose proof (scan_uint_good 65535 s HP) as G.
    destruct (scan_uint 65535 true s) as [[v s1]| | |]; cbn [bind good fst snd] in *; auto.
  - pose proof (scan_uint_good 4294967295 s HP) as G.
    destruct (scan_uint 4294967295 true s) as [[v s1]| | |]; cbn [bind good fst snd] in *; auto.
  - pose proof (scan_uint_good 4294967295 s HP) as G.
    destruct (scan_uint 4294967295 true s) as [[v s1]| | |]; cbn [bind good fst snd] in *; auto.
  - pose proof (scan_octets_good s HP) as G.
    destruct (scan_octets s) as [[r s1]| | |]; cbn [bind good fst snd] in *; auto.
    destruct (Nat.ltb 255 (length r)); cbn; auto.
  - apply scan_charstr_entry_good; exact HP.
  - pose proof (scan_octets_good s HP) as G.
    destruct (scan_octets s) as [[r s1]| | |]; cbn [bind good fst snd] in *; auto.
    destruct (parse_ipv4 r); cbn; auto.
  - pose proof (scan_ascii_str_good
        (fun str => match parse_uint 255 str with Some v => Ok v | None => Err err end) s
        ltac:(intros l; cbn beta; destruct (parse_uint 255 l); exact I) HP) as G.
    destruct (scan_ascii_str _ s) as [[v s1]| | |]; cbn [bind good fst snd] in *; auto.
  - apply convert_entry_hex_good; exact HP.
  - apply convert_entry_b64_good; exact HP.
  - pose proof (scan_uint_good 255 s HP) as G.
    destruct (scan_uint 255 true s) as [[v s1]| | |]; cbn [bind good fst snd] in *; auto.
  - pose proof (convert_token_salt_good s HP) as G.
    destruct (convert_token_salt s) as [[v s1]| | |]; cbn [bind good fst snd] in *; auto.
  - pose proof (convert_token_hash_good s HP) as G.
    destruct (convert_token_hash s) as [[v s1]| | |]; cbn [bind good fst snd] in *; auto.
  - apply scan_bitmap_good; [exact HP|lia].
Qed.

Lemma scan_fields_good origin : forall fs s acc, PInv s ->
  good (fun rs => PInv (snd rs)) (scan_fields origin fs s acc).
Proof.
  induction fs as [|f t IH]; intros s acc HP; cbn [scan_fields]; [exact HP|].
  eapply good_bind; [apply scan_field_good; exact HP|]. intros [r s1] _ HP1. apply IH. exact HP1.
Qed.

Lemma scan_rdata_good origin rtype s : PInv s -> good (fun rs => PInv (snd rs)) (scan_rdata origin rtype s).
Proof.
  intros HP. unfold scan_rdata. destruct guards_int as [Ei _]. rewrite Ei.
  eapply good_bind; [apply skip_unknown_marker_good; exact HP|].
  intros [b s1] _ (HP1 & _). cbn [fst snd]. destruct b.
  - eapply good_bind; [apply scan_uint_good; exact HP1|]. intros [v s2] _ HP2. cbn [fst snd] in *.
    eapply good_bind; [apply convert_entry_hex_good; exact HP2|]. intros [d s3] _ HP3. cbn [fst snd] in *.
    destruct (N.of_nat (length d) =? v); cbn; auto.
  - destruct (schema rtype); [apply scan_fields_good; exact HP1|exact I].
Qed.

Definition ctr_good (x : option N * option N * N * sbuf) : Prop :=
  let '(_, _, _, s') := x in PInv s'.

Lemma scan_ctr_good s : PInv s -> good ctr_good (scan_ctr s).
Proof.
  intros HP. unfold scan_ctr.
  assert (A : forall {T} (op : list N -> outcome T) s0, (forall l, no_panic (op l)) -> PInv s0 ->
              good (fun rs : T * sbuf => PInv (snd rs)) (scan_ascii_str op s0)).
  { intros T op s0 H0 H1. apply scan_ascii_str_good; assumption. }
  eapply good_bind; [apply A; [|exact HP]|].
  { intros l. cbn beta. destruct (parse_uint 4294967295 l); [exact I|].
    destruct (rtype_from_str l); [exact I|]. destruct (class_from_str l); exact I. }
  intros [c1 s1] _ HP1. cbn [snd] in HP1. destruct c1 as [cls|ttl|r].
  - eapply good_bind; [apply A; [|exact HP1]|].
    { intros l. cbn beta. destruct (parse_uint 4294967295 l); [exact I|]. destruct (rtype_from_str l); exact I. }
    intros [c2 s2] _ HP2. cbn [snd] in HP2. destruct c2 as [r|ttl].
    + cbn. exact HP2.
    + eapply good_bind; [apply A; [|exact HP2]|].
      { intros l. cbn beta. unfold expected_rtype. destruct (rtype_from_str l); exact I. }
      intros [r s3] _ HP3. cbn in *. exact HP3.
  - eapply good_bind; [apply A; [|exact HP1]|].
    { intros l. cbn beta. destruct (rtype_from_str l); [exact I|]. destruct (class_from_str l); exact I. }
    intros [c2 s2] _ HP2. cbn [snd] in HP2. destruct c2 as [r|cls].
    + cbn. exact HP2.
    + eapply good_bind; [apply A; [|exact HP2]|].
      { intros l. cbn beta. unfold expected_rtype. destruct (rtype_from_str l); exact I. }
      intros [r s3] _ HP3. cbn in *. exact HP3.
  - cbn. exact HP1.
Qed.

(* result of an entry: the state is a protocol state at a line feed (or the
   end of the buffer for Eof) *)
Definition entry_good (x : scanned * zstate * sbuf) : Prop :=
  let '(sc, _, s') := x in PInv s' /\ is_token (scat s') = false /\ (sc = SEof \/ scat s' = CLF).

Lemma lf_not_token s : require_line_feed s = Ok tt -> is_token (scat s) = false /\ scat s = CLF.
Proof. unfold require_line_feed, is_line_feed. destruct (scat s); try discriminate; split; reflexivity. Qed.

Lemma scan_owner_record_good zs s owner new_owner : PInv s ->
  good entry_good (scan_owner_record zs s owner new_owner).
Proof.
  intros HP. unfold scan_owner_record.
  eapply good_bind; [apply scan_ctr_good; exact HP|].
  intros [[[cls ttl] rtype] s1] _ HP1. cbn [ctr_good] in HP1.
  set (zs1 := if new_owner then set_owner zs owner else zs).
  assert (Rc : no_panic (resolve_class cls zs1)).
  { unfold resolve_class. destruct cls, (last_class zs1); cbn; auto. destruct (n =? n0); exact I. }
  destruct (resolve_class cls zs1) as [cz| | |]; cbn [bind good no_panic] in *; auto; try contradiction.
  eapply good_bind; [apply scan_rdata_good; exact HP1|].
  intros [d s2] _ HP2. cbn [fst snd] in *.
  destruct (require_line_feed s2) as [[]| | |] eqn:El; cbn [bind good]; auto;
    try (unfold require_line_feed in El; destruct (is_line_feed s2); discriminate El).
  destruct (lf_not_token _ El) as [L1 L2]. split; [exact HP2|]. split; [exact L1|right; exact L2].
Qed.

Lemma scan_control_good zs s : string_drops_quote = true -> PInv s -> good entry_good (scan_control zs s).
Proof.
  intros Hflag HP. unfold scan_control. destruct guards_int as [Ei _].
  eapply good_bind; [apply scan_string_good; assumption|].
  intros [ctrl s1] _ HP1. cbn [snd] in HP1.
  assert (LF : forall (x : scanned) s2, PInv s2 ->
     good entry_good (do _ <- require_line_feed s2; Ok (x, zs, s2))).
  { intros x s2 HP2. destruct (require_line_feed s2) as [[]| | |] eqn:El; cbn [bind good]; auto;
      try (unfold require_line_feed in El; destruct (is_line_feed s2); discriminate El).
    destruct (lf_not_token _ El) as [L1 L2]. split; [exact HP2|]. split; [exact L1|right; exact L2]. }
  destruct (eq_ci ctrl [36; 79; 82; 73; 71; 73; 78]).
  { eapply good_bind; [apply scan_name_good; exact HP1|]. intros [n s2] _ HP2. cbn [fst snd] in *. apply LF; exact HP2. }
  destruct (eq_ci ctrl [36; 73; 78; 67; 76; 85; 68; 69]).
  { eapply good_bind; [apply scan_string_good; assumption|]. intros [path s2] _ HP2. cbn [snd] in HP2.
    destruct (is_line_feed s2) eqn:El; cbn [negb].
    - cbn. split; [exact HP2|]. unfold is_line_feed in El. destruct (scat s2); try discriminate El; split; [reflexivity|right; reflexivity].
    - eapply good_bind; [apply scan_name_good; exact HP2|]. intros [n s3] _ HP3. cbn [fst snd] in *. apply LF; exact HP3. }
  destruct (eq_ci ctrl [36; 84; 84; 76]); [|exact I].
  unfold scan_uint_entry. rewrite Ei.
  eapply good_bind; [apply scan_uint_good; exact HP1|]. intros [t s2] _ HP2. cbn [fst snd] in *. apply LF; exact HP2.
Qed.

Lemma scan_entry_good zs s : string_drops_quote = true ->
  PInv s -> is_token (scat s) = false -> good entry_good (scan_entry zs s).
Proof.
  intros Hflag (HI & H1 & Hfr) Hc. unfold scan_entry.
  eapply good_bind; [apply (next_item_after_token s 0)|].
  { split; [exact HI|]. split; [exact Hc|]. left. lia. }
  intros s1 _ (HI1 & Hw1 & Hf1 & _).
  assert (HP1 : PInv s1) by (split; [exact HI1|]; split; [lia|exact Hf1]).
  destruct (scat s1) eqn:Ec.
  - cbn. split; [exact HP1|]. rewrite Ec. split; [reflexivity|left; reflexivity].
  - destruct (hsp s1).
    + destruct (last_owner zs); [apply scan_owner_record_good; exact HP1|exact I].
    + assert (Other : good entry_good
         (do bs <- skip_at_token s1;
          if fst bs then do o <- get_origin (origin zs); scan_owner_record zs (snd bs) o true
          else do os <- scan_name (origin zs) (snd bs); scan_owner_record zs (snd os) (fst os) true)).
      { eapply good_bind; [apply skip_at_token_good; exact HP1|].
        intros [b s2] _ (HP2 & _). cbn [fst snd] in *. destruct b.
        - destruct (origin zs); cbn [get_origin bind good]; auto. apply scan_owner_record_good; exact HP2.
        - eapply good_bind; [apply scan_name_good; exact HP2|]. intros [n s3] _ HP3. cbn [fst snd] in *.
          apply scan_owner_record_good; exact HP3. }
      destruct (peek_symbol s1) as [[c| |]|]; try exact Other.
      destruct (N.eqb_spec c 36) as [->|Hne]; [apply scan_control_good; assumption|].
      destruct c as [|p]; [exact Other|].
      repeat (destruct p as [p|p|]; try exact Other). congruence.
  - destruct (hsp s1).
    + destruct (last_owner zs); [apply scan_owner_record_good; exact HP1|exact I].
    + assert (Other : good entry_good
         (do bs <- skip_at_token s1;
          if fst bs then do o <- get_origin (origin zs); scan_owner_record zs (snd bs) o true
          else do os <- scan_name (origin zs) (snd bs); scan_owner_record zs (snd os) (fst os) true)).
      { eapply good_bind; [apply skip_at_token_good; exact HP1|].
        intros [b s2] _ (HP2 & _). cbn [fst snd] in *. destruct b.
        - destruct (origin zs); cbn [get_origin bind good]; auto. apply scan_owner_record_good; exact HP2.
        - eapply good_bind; [apply scan_name_good; exact HP2|]. intros [n s3] _ HP3. cbn [fst snd] in *.
          apply scan_owner_record_good; exact HP3. }
      destruct (peek_symbol s1) as [[c| |]|]; try exact Other.
      destruct (N.eqb_spec c 36) as [->|Hne]; [apply scan_control_good; assumption|].
      destruct c as [|p]; [exact Other|].
      repeat (destruct p as [p|p|]; try exact Other). congruence.
  - cbn. split; [exact HP1|]. rewrite Ec. split; [reflexivity|right; reflexivity].
Qed.

(* Zonefile::next_entry until the end or the first error: no panic, and no
   inner loop out of fuel (EFuel can only come from read_loop's own counter) *)
Lemma read_loop_no_panic : string_drops_quote = true ->
  forall fuel zs s acc, PInv s -> is_token (scat s) = false ->
  match snd (read_loop fuel zs s acc) with EPanic _ => False | _ => True end.
Proof.
  intros Hflag. induction fuel as [|f IH]; intros zs s acc HP Hc; [exact I|].
  cbn [read_loop]. pose proof (scan_entry_good zs s Hflag HP Hc) as G.
  destruct (scan_entry zs s) as [[[x zs1] s1]| | |]; cbn [good entry_good] in G; try contradiction; try exact I.
  destruct G as (HP1 & Hc1 & _). destruct x; try exact I; apply IH; assumption.
Qed.

Lemma inner_fuel_suffices : string_drops_quote = true ->
  forall zs s, PInv s -> is_token (scat s) = false -> scan_entry zs s <> OutOfFuel.
Proof.
  intros Hflag zs s HP Hc E. pose proof (scan_entry_good zs s Hflag HP Hc) as G. rewrite E in G. exact G.
Qed.

Theorem reader_no_panic : string_drops_quote = true ->
  forall file, match snd (read_file file) with EPanic _ => False | _ => True end.
Proof.
  intros Hflag file. unfold read_file. apply read_loop_no_panic; [exact Hflag|apply init_PInv|reflexivity].
Qed.

(* the same without a premise: as soon as T1 finds the scan_string correction
   in the source this is the full statement *)
Theorem reader_no_panic_now :
  if string_drops_quote
  then forall file, match snd (read_file file) with EPanic _ => False | _ => True end
  else True.
Proof.
  destruct string_drops_quote eqn:E; [|exact I]. intros file.
  pose proof reader_no_panic as R. rewrite E in R. exact (R eq_refl file).
Qed.

Example reader_no_panic_ex :
  read_file [97;46;32;49;32;73;78;32;84;88;84;32;34;102;111;111;34] = ([], EErr 12).
Proof. vm_compute. reflexivity. Qed.

(* the scan_string correction is in the source (84ed293): these hold only while
   T1 finds it *)
Lemma string_quote_dropped : string_drops_quote = true.
Proof. vm_compute. reflexivity. Qed.

Theorem reader_no_panic_all file : match snd (read_file file) with EPanic _ => False | _ => True end.
Proof. apply reader_no_panic. apply string_quote_dropped. Qed.
