(* C07 proofs, part 5: whole-file layout independence of the item stream.
   A fuel-free big-step description [Lex] of the item reader, soundness of the
   model's items_loop with respect to it, determinism, and locality: what the
   reader does before an item boundary does not depend on what follows the
   boundary, as long as that begins with a delimiter octet.  Together: a layout
   rewrite applied at an item boundary anywhere in a file leaves items_of
   unchanged. *)
From Coq Require Import NArith ZArith List Bool Arith Lia ZifyN ZifyBool ZifyNat.
From DV Require Import Base.Outcome Base.Bytes C07.Gen C07.Model C07.Proofs C07.Proofs2 C07.Proofs4.
Import ListNotations.
Local Open Scope N_scope.

Definition isq (c : cat) : bool := match c with CQuo => true | _ => false end.

Definition goes_on (q : bool) (sym : symbol) : Prop :=
  if q then sym_eqb sym (SChar 34) = false else is_word_char sym = true.

(* reading the symbols of one token *)
Inductive Toks (q : bool) : list N -> list symbol -> list N -> Prop :=
| TkEndU l sym n : q = false -> sym_at l = SymOk sym n -> is_word_char sym = false -> Toks q l [] l
| TkEndQ l sym n : q = true -> sym_at l = SymOk sym n -> sym_eqb sym (SChar 34) = true ->
    Toks q l [] (skipn n l)
| TkStep l sym n syms l' : sym_at l = SymOk sym n -> goes_on q sym ->
    Toks q (skipn n l) syms l' -> Toks q l (sym :: syms) l'.

Inductive TokErr (q : bool) : list N -> N -> Prop :=
| TeEnd l : sym_at l = SymEnd -> TokErr q l 12
| TeBad l : sym_at l = SymErr -> TokErr q l 1
| TeStep l sym n e : sym_at l = SymOk sym n -> goes_on q sym ->
    TokErr q (skipn n l) e -> TokErr q l e.

(* the item reader from an item boundary: octets, paren depth |- items, ending *)
Inductive Lex : list N -> nat -> list item -> ending -> Prop :=
| LxParen l p : ni_view l p false = None -> Lex l p [] (EErr 4)
| LxEof l p p' h l' : ni_view l p false = Some (CNone, p', h, l') -> Lex l p [] EEof
| LxLF l p p' h l' its e : ni_view l p false = Some (CLF, p', h, l') ->
    Lex l' p' its e -> Lex l p (ILF :: its) e
| LxTok l p c p' h l' syms l'' its e : ni_view l p false = Some (c, p', h, l') ->
    is_token c = true -> Toks (isq c) l' syms l'' -> Lex l'' p' its e ->
    Lex l p (ITok (isq c) h syms :: its) e
| LxTokErr l p c p' h l' e : ni_view l p false = Some (c, p', h, l') ->
    is_token c = true -> TokErr (isq c) l' e -> Lex l p [] (EErr e).

(* lexing from (l, p) emits items and arrives at the item boundary (l', p') *)
Inductive Reach : list N -> nat -> list item -> list N -> nat -> Prop :=
| RRefl l p : Reach l p [] l p
| RLF l p p' h l1 its l2 p2 : ni_view l p false = Some (CLF, p', h, l1) ->
    Reach l1 p' its l2 p2 -> Reach l p (ILF :: its) l2 p2
| RTok l p c p' h l1 syms l1' its l2 p2 : ni_view l p false = Some (c, p', h, l1) ->
    is_token c = true -> Toks (isq c) l1 syms l1' -> Reach l1' p' its l2 p2 ->
    Reach l p (ITok (isq c) h syms :: its) l2 p2.

Lemma Reach_Lex l p its1 l' p' : Reach l p its1 l' p' ->
  forall its2 e, Lex l' p' its2 e -> Lex l p (its1 ++ its2) e.
Proof.
  induction 1; intros its2 e0 HL; cbn [app]; [exact HL | |].
  - eapply LxLF; eauto.
  - eapply LxTok; eauto.
Qed.

(* ---------------------------------------------------------------- soundness *)

Lemma rest_advance s n : rest (advance s n) = skipn n (rest s).
Proof. unfold rest. cbn [advance buf start]. rewrite skipn_add. reflexivity. Qed.

Lemma syms_loop_Toks : forall fuel s acc, is_token (scat s) = true ->
  match syms_loop fuel s acc with
  | Ok (syms, s') => exists tl, syms = rev acc ++ tl /\ Toks (isq (scat s)) (rest s) tl (rest s') /\
                                scat s' = CNone /\ par s' = par s
  | Err e => TokErr (isq (scat s)) (rest s) e
  | _ => True
  end.
Proof.
  induction fuel as [|f IH]; intros s acc Ht; [exact I|].
  cbn [syms_loop]. unfold next_symbol, next_symbol_gen.
  destruct (scat s) eqn:Ec; try discriminate; cbn [isq].
  - destruct (sym_at (rest s)) as [| |sym n] eqn:Es; cbn [bind].
    + apply TeEnd; exact Es.
    + apply TeBad; exact Es.
    + destruct (is_word_char sym) eqn:Ew; cbn [negb bind].
      * specialize (IH (advance s n) (sym :: acc)). cbn [advance scat] in IH. rewrite Ec in IH.
        specialize (IH eq_refl). cbn [isq] in IH. rewrite rest_advance in IH.
        destruct (syms_loop f (advance s n) (sym :: acc)) as [[syms s']| | |]; auto.
        -- destruct IH as (tl & E1 & E2 & E3 & E4). exists (sym :: tl). cbn [rev] in E1.
           rewrite <- app_assoc in E1. split; [exact E1|]. split; [|auto].
           eapply TkStep; eauto.
        -- eapply TeStep; eauto.
      * exists []. rewrite app_nil_r. split; [reflexivity|]. split; [|auto].
        cbn [set_cat rest buf start]. eapply TkEndU; eauto.
  - destruct (sym_at (rest s)) as [| |sym n] eqn:Es; cbn [bind].
    + apply TeEnd; exact Es.
    + apply TeBad; exact Es.
    + destruct (sym_eqb sym (SChar 34)) eqn:Eq; cbn [bind].
      * exists []. rewrite app_nil_r. split; [reflexivity|]. split; [|auto].
        replace (rest (set_cat (advance s n) CNone)) with (skipn n (rest s)).
        { eapply TkEndQ; eauto. }
        rewrite <- rest_advance. reflexivity.
      * specialize (IH (advance s n) (sym :: acc)). cbn [advance scat] in IH. rewrite Ec in IH.
        specialize (IH eq_refl). cbn [isq] in IH. rewrite rest_advance in IH.
        destruct (syms_loop f (advance s n) (sym :: acc)) as [[syms s']| | |]; auto.
        -- destruct IH as (tl & E1 & E2 & E3 & E4). exists (sym :: tl). cbn [rev] in E1.
           rewrite <- app_assoc in E1. split; [exact E1|]. split; [|auto].
           eapply TkStep; eauto.
        -- eapply TeStep; eauto.
Qed.

Lemma items_loop_Lex : forall fuel s acc, is_token (scat s) = false ->
  match snd (items_loop fuel s acc) with
  | EEof | EErr _ => exists its, fst (items_loop fuel s acc) = rev acc ++ its /\
                                 Lex (rest s) (par s) its (snd (items_loop fuel s acc))
  | _ => True
  end.
Proof.
  induction fuel as [|f IH]; intros s acc Hc; [exact I|].
  cbn [items_loop]. unfold next_item. rewrite Hc.
  destruct (ni_loop (rest s) false (par s) false 0) as [|n c p h] eqn:En.
  - cbn [fst snd]. exists []. rewrite app_nil_r. split; [reflexivity|].
    apply LxParen. unfold ni_view. rewrite En. reflexivity.
  - assert (V : ni_view (rest s) (par s) false = Some (c, p, h, skipn n (rest s))).
    { unfold ni_view. rewrite En. reflexivity. }
    assert (R1 : forall c0, rest (mkS (buf s) (start s + n) c0 h p) = skipn n (rest s)).
    { intros c0. unfold rest. cbn [buf start]. rewrite skipn_add. reflexivity. }
    cbn [scat]. destruct c.
    + cbn [fst snd]. exists []. rewrite app_nil_r. split; [reflexivity|]. eapply LxEof; eauto.
    + set (s1 := mkS (buf s) (start s + n) CUnq h p). specialize (R1 CUnq). fold s1 in R1.
      pose proof (syms_loop_Toks (fuel_of s1) s1 [] eq_refl) as T.
      destruct (syms_loop (fuel_of s1) s1 []) as [[syms s2]| | |]; cbn [fst snd]; auto.
      * destruct T as (tl & E1 & E2 & E3 & E4). cbn [rev app] in E1. subst tl.
        assert (Hc2 : is_token (scat s2) = false) by (rewrite E3; reflexivity).
        specialize (IH s2 (ITok false (hsp s1) syms :: acc) Hc2).
        destruct (snd (items_loop f s2 (ITok false (hsp s1) syms :: acc))) eqn:Ee; auto.
        -- destruct IH as (its & F1 & F2). exists (ITok false h syms :: its). cbn [rev] in F1.
           rewrite <- app_assoc in F1. split; [exact F1|].
           rewrite E4 in F2. cbn [scat isq par] in *. rewrite R1 in E2.
           eapply (LxTok _ _ CUnq); eauto.
        -- destruct IH as (its & F1 & F2). exists (ITok false h syms :: its). cbn [rev] in F1.
           rewrite <- app_assoc in F1. split; [exact F1|].
           rewrite E4 in F2. cbn [scat isq par] in *. rewrite R1 in E2.
           eapply (LxTok _ _ CUnq); eauto.
      * exists []. rewrite app_nil_r. split; [reflexivity|]. cbn [scat isq] in T. rewrite R1 in T.
        eapply (LxTokErr _ _ CUnq); eauto.
    + set (s1 := mkS (buf s) (start s + n) CQuo h p). specialize (R1 CQuo). fold s1 in R1.
      pose proof (syms_loop_Toks (fuel_of s1) s1 [] eq_refl) as T.
      destruct (syms_loop (fuel_of s1) s1 []) as [[syms s2]| | |]; cbn [fst snd]; auto.
      * destruct T as (tl & E1 & E2 & E3 & E4). cbn [rev app] in E1. subst tl.
        assert (Hc2 : is_token (scat s2) = false) by (rewrite E3; reflexivity).
        specialize (IH s2 (ITok true (hsp s1) syms :: acc) Hc2).
        destruct (snd (items_loop f s2 (ITok true (hsp s1) syms :: acc))) eqn:Ee; auto.
        -- destruct IH as (its & F1 & F2). exists (ITok true h syms :: its). cbn [rev] in F1.
           rewrite <- app_assoc in F1. split; [exact F1|].
           rewrite E4 in F2. cbn [scat isq par] in *. rewrite R1 in E2.
           eapply (LxTok _ _ CQuo); eauto.
        -- destruct IH as (its & F1 & F2). exists (ITok true h syms :: its). cbn [rev] in F1.
           rewrite <- app_assoc in F1. split; [exact F1|].
           rewrite E4 in F2. cbn [scat isq par] in *. rewrite R1 in E2.
           eapply (LxTok _ _ CQuo); eauto.
      * exists []. rewrite app_nil_r. split; [reflexivity|]. cbn [scat isq] in T. rewrite R1 in T.
        eapply (LxTokErr _ _ CQuo); eauto.
    + set (s1 := mkS (buf s) (start s + n) CLF h p). specialize (R1 CLF). fold s1 in R1.
      assert (Hc1 : is_token (scat s1) = false) by reflexivity.
      specialize (IH s1 (ILF :: acc) Hc1).
      destruct (snd (items_loop f s1 (ILF :: acc))) eqn:Ee; auto.
      * destruct IH as (its & F1 & F2). exists (ILF :: its). cbn [rev] in F1.
        rewrite <- app_assoc in F1. split; [exact F1|]. rewrite R1 in F2. cbn [par s1] in F2.
        eapply LxLF; eauto.
      * destruct IH as (its & F1 & F2). exists (ILF :: its). cbn [rev] in F1.
        rewrite <- app_assoc in F1. split; [exact F1|]. rewrite R1 in F2. cbn [par s1] in F2.
        eapply LxLF; eauto.
Qed.

(* items_of is described by Lex (the guards make it total) *)
Theorem items_of_Lex file : Lex file 0 (fst (items_of file)) (snd (items_of file)).
Proof.
  pose proof (items_total_all file) as T. unfold items_of in *.
  pose proof (items_loop_Lex (S (S (length file))) (init_sbuf file) [] eq_refl) as L.
  destruct (snd (items_loop (S (S (length file))) (init_sbuf file) [])) eqn:E; try contradiction.
  - destruct L as (its & F1 & F2). cbn [rev app] in F1. rewrite F1.
    replace file with (rest (init_sbuf file)) at 1 by reflexivity. exact F2.
  - destruct L as (its & F1 & F2). cbn [rev app] in F1. rewrite F1.
    replace file with (rest (init_sbuf file)) at 1 by reflexivity. exact F2.
Qed.

(* -------------------------------------------------------------- determinism *)

Lemma sym_eqb_refl s : sym_eqb s s = true.
Proof. destruct s; cbn; apply N.eqb_refl. Qed.

Lemma goes_on_not_end q sym : goes_on q sym ->
  (q = false -> is_word_char sym = false -> False) /\ (q = true -> sym_eqb sym (SChar 34) = true -> False).
Proof. unfold goes_on. destruct q; split; intros; congruence. Qed.

Ltac same_sym :=
  repeat match goal with
  | A : sym_at ?l = SymOk _ _, B : sym_at ?l = SymOk _ _ |- _ =>
      rewrite A in B; injection B as ? ?; subst
  | A : sym_at ?l = SymOk _ _, B : sym_at ?l = SymEnd |- _ => rewrite A in B; discriminate B
  | A : sym_at ?l = SymOk _ _, B : sym_at ?l = SymErr |- _ => rewrite A in B; discriminate B
  | A : sym_at ?l = SymEnd, B : sym_at ?l = SymErr |- _ => rewrite A in B; discriminate B
  end.
Ltac clash :=
  solve [ match goal with
          | G : goes_on _ _ |- _ => destruct (goes_on_not_end _ _ G) as [? ?]; exfalso; eauto
          end ].

Lemma Toks_det q l s1 l1 : Toks q l s1 l1 -> forall s2 l2, Toks q l s2 l2 -> s1 = s2 /\ l1 = l2.
Proof.
  induction 1 as [l sym n Hq Hs Hw | l sym n Hq Hs He | l sym n syms l' Hs Hg HT IH]; intros s2 l2 H2;
    inversion H2; subst; same_sym; auto; try congruence; try clash.
  match goal with T : Toks _ (skipn _ _) _ _ |- _ => destruct (IH _ _ T) as [-> ->]; auto end.
Qed.

Lemma Toks_TokErr q l s l' : Toks q l s l' -> forall e, TokErr q l e -> False.
Proof.
  induction 1 as [l sym n Hq Hs Hw | l sym n Hq Hs He | l sym n syms l' Hs Hg HT IH]; intros e H2;
    inversion H2; subst; same_sym; try congruence; try clash; eauto.
Qed.

Lemma TokErr_det q l e1 : TokErr q l e1 -> forall e2, TokErr q l e2 -> e1 = e2.
Proof.
  induction 1 as [l Hs | l Hs | l sym n e Hs Hg HT IH]; intros e2 H2; inversion H2; subst; same_sym;
    try congruence; auto.
Qed.

Lemma Lex_det l p i1 e1 : Lex l p i1 e1 -> forall i2 e2, Lex l p i2 e2 -> i1 = i2 /\ e1 = e2.
Proof.
  induction 1 as [l p V | l p p' h l' V | l p p' h l' its e V HL IH
                  | l p c p' h l' syms l'' its e V Hc HT HL IH | l p c p' h l' e V Hc HT];
    intros i2 e2 H2; inversion H2; subst;
    try match goal with
    | A : ni_view ?l ?p false = _, B : ni_view ?l ?p false = _ |- _ => rewrite A in B; inversion B; subst
    end; try discriminate; auto.
  - match goal with L : Lex _ _ _ _ |- _ => destruct (IH _ _ L) as [-> ->]; auto end.
  - match goal with T : Toks _ _ _ _ |- _ => destruct (Toks_det _ _ _ _ HT _ _ T) as [-> ->] end.
    match goal with L : Lex _ _ _ _ |- _ => destruct (IH _ _ L) as [-> ->]; auto end.
  - exfalso. eapply Toks_TokErr; eauto.
  - exfalso. eapply Toks_TokErr; eauto.
  - match goal with T : TokErr _ _ _ |- _ => rewrite (TokErr_det _ _ _ HT _ T); auto end.
Qed.

(* ------------------------------------------------------------------ locality *)

Lemma sym_at_firstn l s n : sym_at l = SymOk s n -> forall r, sym_at (firstn n l ++ r) = SymOk s n.
Proof.
  unfold sym_at. destruct l as [|c1 t]; [discriminate|].
  destruct (c1 =? esc_char) eqn:E1.
  - destruct t as [|c2 t2]; [discriminate|].
    destruct (is_ascii_control c2) eqn:E2; [discriminate|].
    destruct (negb (is_digit c2)) eqn:E3.
    { intros H r; injection H as <- <-. cbn [firstn app]. rewrite E1, E2, E3. reflexivity. }
    destruct t2 as [|c3 t3]; [discriminate|].
    destruct (is_digit c3) eqn:E4; [|discriminate].
    destruct t3 as [|c4 t4]; [discriminate|].
    destruct (is_digit c4) eqn:E5; [|discriminate].
    match goal with |- context [if ?b then _ else _] => destruct b eqn:E6 end; [|discriminate].
    intros H r; injection H as <- <-. cbn [firstn app]. rewrite E1, E2, E3, E4, E5, E6. reflexivity.
  - destruct (c1 <? ascii_bound) eqn:E2.
    { intros H r; injection H as <- <-. cbn [firstn app]. rewrite E1, E2. reflexivity. }
    destruct (N.land c1 64 =? 0) eqn:E3; [discriminate|].
    destruct t as [|c2 t2]; [discriminate|].
    destruct (negb (cont c2)) eqn:E4; [discriminate|].
    destruct (N.land c1 32 =? 0) eqn:E5.
    { intros H r. pose proof (mkchar_ok _ _ _ _ _ H) as (-> & _ & _).
      cbn [firstn app]. rewrite E1, E2, E3, E4, E5. exact H. }
    destruct t2 as [|c3 t3]; [discriminate|].
    destruct (negb (cont c3)) eqn:E6; [discriminate|].
    destruct (N.land c1 16 =? 0) eqn:E7.
    { intros H r. pose proof (mkchar_ok _ _ _ _ _ H) as (-> & _ & _).
      cbn [firstn app]. rewrite E1, E2, E3, E4, E5, E6, E7. exact H. }
    destruct t3 as [|c4 t4]; [discriminate|].
    destruct (negb (cont c4)) eqn:E8; [discriminate|].
    intros H r. pose proof (mkchar_ok _ _ _ _ _ H) as (-> & _ & _).
    cbn [firstn app]. rewrite E1, E2, E3, E4, E5, E6, E7, E8. exact H.
Qed.

Lemma firstn_app_le {A} (u r : list A) n : (n <= length u)%nat -> firstn n (u ++ r) = firstn n u.
Proof.
  intros H. rewrite firstn_app. replace (n - length u)%nat with 0%nat by lia.
  cbn [firstn]. apply app_nil_r.
Qed.

Lemma skipn_app_le {A} (u r : list A) n : (n <= length u)%nat -> skipn n (u ++ r) = skipn n u ++ r.
Proof.
  intros H. rewrite skipn_app. replace (n - length u)%nat with 0%nat by lia. reflexivity.
Qed.

(* a symbol that lies inside u is read the same whatever follows u *)
Lemma sym_at_local u r1 r2 s n : sym_at (u ++ r1) = SymOk s n -> (n <= length u)%nat ->
  sym_at (u ++ r2) = SymOk s n.
Proof.
  intros H Hn. pose proof (sym_at_firstn _ _ _ H (skipn n u ++ r2)) as F.
  rewrite firstn_app_le in F by exact Hn. rewrite app_assoc, firstn_skipn in F. exact F.
Qed.

(* a delimiter octet in front: the symbol there is that octet, not a word char *)
Lemma sym_at_delim d t : is_delim d = true -> d < 128 -> d <> esc_char ->
  sym_at (d :: t) = SymOk (SChar d) 1 /\ is_word_char (SChar d) = false.
Proof.
  intros Hd H1 H2. split.
  - unfold sym_at. assert (Q : (d =? esc_char) = false) by (apply N.eqb_neq; exact H2). rewrite Q.
    assert (Q2 : (d <? ascii_bound) = true) by (rewrite ascii_bound_val; apply N.ltb_lt; exact H1).
    rewrite Q2. reflexivity.
  - rewrite delims_agree by exact H1. rewrite Hd. reflexivity.
Qed.

Lemma Toks_suffix q l syms l' : Toks q l syms l' -> (length l' <= length l)%nat.
Proof.
  induction 1 as [l sym n Hq Hs Hw | l sym n Hq Hs He | l sym n syms l' Hs Hg HT IH].
  - lia.
  - rewrite skipn_length. lia.
  - rewrite skipn_length in IH. lia.
Qed.

Definition delim_head (r : list N) : Prop :=
  exists d t, r = d :: t /\ is_delim d = true /\ d < 128 /\ d <> esc_char.

Lemma app_same_length {A} (a b c d : list A) : a ++ b = c ++ d -> length b = length d -> a = c /\ b = d.
Proof.
  intros H L. assert (La : length a = length c).
  { apply (f_equal (@length A)) in H. rewrite !app_length in H. lia. }
  revert c H La. induction a as [|x a IH]; intros [|y c] H La; cbn in *; try lia; auto.
  injection H as -> H. destruct (IH c H ltac:(lia)) as [-> ->]. auto.
Qed.

Lemma Toks_local q r1 r2 : delim_head r1 -> delim_head r2 ->
  forall l syms l', Toks q l syms l' -> forall u, l = u ++ r1 -> (length r1 <= length l')%nat ->
  exists u', l' = u' ++ r1 /\ Toks q (u ++ r2) syms (u' ++ r2).
Proof.
  intros (d1 & t1 & -> & Hd1 & H11 & H12) (d2 & t2 & -> & Hd2 & H21 & H22).
  induction 1 as [l sym n Hq Hs Hw | l sym n Hq Hs He | l sym n syms l' Hs Hg HT IH]; intros u -> Hl.
  - exists u. split; [reflexivity|]. destruct u as [|c u].
    + cbn [app]. destruct (sym_at_delim d2 t2 Hd2 H21 H22) as [A B]. eapply TkEndU; eauto.
    + destruct (nonword_is_raw_delim _ _ _ (proj1 reader_guards_present) Hs Hw) as (c' & t' & El & -> & -> & Hd).
      eapply TkEndU; eauto. eapply sym_at_local; [exact Hs|]. cbn [length]. lia.
  - pose proof (sym_at_len _ _ _ Hs) as Ln. rewrite skipn_length, app_length in Hl. rewrite app_length in Ln.
    assert (Hn : (n <= length u)%nat) by lia.
    exists (skipn n u). rewrite skipn_app_le by exact Hn. split; [reflexivity|].
    rewrite <- skipn_app_le by exact Hn. eapply TkEndQ; eauto. eapply sym_at_local; eauto.
  - pose proof (sym_at_len _ _ _ Hs) as Ln. pose proof (Toks_suffix _ _ _ _ HT) as Lt.
    rewrite skipn_length, app_length in Lt. rewrite app_length in Ln.
    assert (Hn : (n <= length u)%nat) by lia.
    destruct (IH (skipn n u) (skipn_app_le _ _ _ Hn) Hl) as (u' & -> & T').
    exists u'. split; [reflexivity|]. eapply TkStep; [eapply sym_at_local; eauto | exact Hg |].
    rewrite skipn_app_le by exact Hn. exact T'.
Qed.

(* next_item: a decision taken inside `a` is independent of what follows `a` *)
Lemma ni_loop_local r1 r2 : forall a incom p h n0 n c p' h',
  ni_loop (a ++ r1) incom p h n0 = NiOk n c p' h' -> (n - n0 <= length a)%nat ->
  c <> CNone -> (c = CUnq -> (n - n0 < length a)%nat) ->
  ni_loop (a ++ r2) incom p h n0 = NiOk n c p' h'.
Proof.
  induction a as [|ch a IH]; intros incom p h n0 n c p' h' H Hn Hc Hu.
  - cbn [app length] in *. exfalso. pose proof (ni_loop_bounds _ _ _ _ _ _ _ _ _ H) as B.
    destruct c; try congruence.
    + specialize (Hu eq_refl). lia.
    + pose proof (ni_loop_lf_quo _ _ _ _ _ _ _ _ _ H (or_intror eq_refl)). lia.
    + pose proof (ni_loop_lf_quo _ _ _ _ _ _ _ _ _ H (or_introl eq_refl)). lia.
  - cbn [app length ni_loop] in *.
    assert (Step : forall i p0 h0, ni_loop (a ++ r1) i p0 h0 (S n0) = NiOk n c p' h' ->
                   ni_loop (a ++ r2) i p0 h0 (S n0) = NiOk n c p' h').
    { intros i p0 h0 H0. pose proof (ni_loop_bounds _ _ _ _ _ _ _ _ _ H0) as B.
      apply IH; auto; try lia; intros Ec; specialize (Hu Ec); lia. }
    destruct (incom && negb (ch =? ni_comment_end)); [apply Step; exact H|].
    destruct (memN ch ni_space); [apply Step; exact H|].
    destruct (ch =? ni_cr_dead); [apply Step; exact H|].
    destruct (ch =? ni_open); [apply Step; exact H|].
    destruct (ch =? ni_close). { destruct p; [discriminate|]. apply Step; exact H. }
    destruct (ch =? ni_comment); [apply Step; exact H|].
    destruct (ch =? ni_newline). { destruct (Nat.eqb p 0); [exact H|]. apply Step; exact H. }
    destruct (ch =? ni_quote); exact H.
Qed.

Lemma ni_view_local r1 r2 u p c p' h' l1 :
  ni_view (u ++ r1) p false = Some (c, p', h', l1) -> (length r1 <= length l1)%nat ->
  c <> CNone -> delim_head r1 ->
  exists u1, l1 = u1 ++ r1 /\ ni_view (u ++ r2) p false = Some (c, p', h', u1 ++ r2).
Proof.
  unfold ni_view. intros H Hl Hc Hd.
  destruct (ni_loop (u ++ r1) false p false 0) as [|n c0 p0 h0] eqn:En; [discriminate|].
  injection H as -> -> -> <-.
  pose proof (ni_loop_bounds _ _ _ _ _ _ _ _ _ En) as B.
  rewrite skipn_length, app_length in Hl.
  assert (Hn : (n <= length u)%nat) by (rewrite app_length in B; lia).
  assert (Hu : c = CUnq -> (n - 0 < length u)%nat).
  { intros ->. destruct (ni_loop_unq _ _ _ _ _ _ _ _ En) as (x & t & Hs & Hx).
    rewrite Nat.sub_0_r in *. destruct (Nat.eq_dec n (length u)) as [E|E]; [|lia].
    exfalso. subst n. rewrite skipn_app_le in Hs by lia. rewrite skipn_all in Hs. cbn [app] in Hs.
    destruct Hd as (d & t' & -> & Hdd & _). injection Hs as -> _. congruence. }
  exists (skipn n u). split; [apply skipn_app_le; exact Hn|].
  rewrite (ni_loop_local r1 r2 u false p false 0 n c p' h' En); auto; try lia.
  rewrite skipn_app_le by exact Hn. reflexivity.
Qed.

Lemma Reach_suffix l p its l' p' : Reach l p its l' p' -> (length l' <= length l)%nat.
Proof.
  induction 1 as [l p | l p p' h l1 its l2 p2 V HR IH | l p c p' h l1 syms l1' its l2 p2 V Hc HT HR IH].
  - lia.
  - unfold ni_view in V. destruct (ni_loop l false p false 0) eqn:E; [discriminate|].
    injection V as _ _ _ <-. rewrite skipn_length in IH. lia.
  - unfold ni_view in V. destruct (ni_loop l false p false 0) eqn:E; [discriminate|].
    injection V as _ _ _ <-. pose proof (Toks_suffix _ _ _ _ HT) as T. rewrite skipn_length in T. lia.
Qed.

(* What the reader does up to an item boundary does not depend on what follows
   the boundary (both continuations beginning with a delimiter octet). *)
Lemma Reach_local r1 r2 : delim_head r1 -> delim_head r2 ->
  forall l p its l' p', Reach l p its l' p' -> forall u, l = u ++ r1 -> (length r1 <= length l')%nat ->
  exists u', l' = u' ++ r1 /\ Reach (u ++ r2) p its (u' ++ r2) p'.
Proof.
  intros D1 D2.
  induction 1 as [l p | l p p' h l1 its l2 p2 V HR IH | l p c p' h l1 syms l1' its l2 p2 V Hc HT HR IH];
    intros u -> Hl.
  - exists u. split; [reflexivity|apply RRefl].
  - pose proof (Reach_suffix _ _ _ _ _ HR) as S1.
    destruct (ni_view_local r1 r2 u p CLF p' h l1 V ltac:(lia) ltac:(discriminate) D1) as (u1 & -> & V2).
    destruct (IH u1 eq_refl Hl) as (u' & -> & R2). exists u'. split; [reflexivity|].
    eapply RLF; eauto.
  - pose proof (Reach_suffix _ _ _ _ _ HR) as S1. pose proof (Toks_suffix _ _ _ _ HT) as S2.
    assert (Hcn : c <> CNone) by (intros ->; discriminate).
    destruct (ni_view_local r1 r2 u p c p' h l1 V ltac:(lia) Hcn D1) as (u1 & -> & V2).
    destruct (Toks_local (isq c) r1 r2 D1 D2 _ _ _ HT u1 eq_refl ltac:(lia)) as (u1' & -> & T2).
    destruct (IH u1' eq_refl Hl) as (u' & -> & R2). exists u'. split; [reflexivity|].
    eapply RTok; eauto.
Qed.

(* ---------------------------------------------------- whole-file statements *)

(* r1 and r2 are equivalent continuations at an item boundary *)
Definition same_view (r1 r2 : list N) : Prop := forall p h, ni_view r1 p h = ni_view r2 p h.

Lemma same_view_Lex r1 r2 : same_view r1 r2 -> forall p its e, Lex r1 p its e -> Lex r2 p its e.
Proof.
  intros SV p its e H. inversion H; subst.
  - apply LxParen. rewrite <- SV. assumption.
  - eapply LxEof. rewrite <- SV. eassumption.
  - eapply LxLF; [rewrite <- SV; eassumption|assumption].
  - eapply LxTok; [rewrite <- SV; eassumption| | |]; eassumption.
  - eapply LxTokErr; [rewrite <- SV; eassumption| |]; eassumption.
Qed.

(* If the reader, working through pre ++ r1, is at an item boundary right after
   pre, then replacing r1 by an equivalent continuation r2 does not change the
   item stream of the file. *)
Theorem layout_whole_file pre r1 r2 its1 p1 :
  delim_head r1 -> delim_head r2 -> same_view r1 r2 ->
  Reach (pre ++ r1) 0 its1 r1 p1 ->
  items_of (pre ++ r1) = items_of (pre ++ r2).
Proof.
  intros D1 D2 SV HR.
  destruct (Reach_local r1 r2 D1 D2 _ _ _ _ _ HR pre eq_refl (le_n _)) as (u' & E & R2).
  assert (u' = []).
  { apply (f_equal (@length N)) in E. rewrite app_length in E. destruct u'; [reflexivity|cbn in E; lia]. }
  subst u'. cbn [app] in R2.
  pose proof (items_of_Lex (pre ++ r1)) as L1. pose proof (items_of_Lex (pre ++ r2)) as L2.
  (* decompose the run on pre ++ r1 at the boundary *)
  pose proof (items_of_Lex r1) as Lr.
  assert (T : exists its2 e, Lex r1 p1 its2 e).
  { (* the reader is total from any boundary: run the model on r1 at depth p1 *)
    pose proof (items_loop_total (proj1 reader_guards_present) (S (S (length r1)))
                  (mkS (0 :: r1) 1 CNone false p1) [] ) as Tt.
    assert (I0 : Inv (mkS (0 :: r1) 1 CNone false p1)) by (unfold Inv; cbn; lia).
    specialize (Tt I0 eq_refl ltac:(unfold rest; cbn; lia)).
    pose proof (items_loop_Lex (S (S (length r1))) (mkS (0 :: r1) 1 CNone false p1) [] eq_refl) as Ll.
    destruct (snd (items_loop (S (S (length r1))) (mkS (0 :: r1) 1 CNone false p1) [])); try contradiction;
      destruct Ll as (its & _ & F); eexists _, _; exact F. }
  destruct T as (its2 & e & Lb).
  pose proof (Reach_Lex _ _ _ _ _ HR _ _ Lb) as A1.
  pose proof (Reach_Lex _ _ _ _ _ R2 _ _ (same_view_Lex _ _ SV _ _ _ Lb)) as A2.
  destruct (Lex_det _ _ _ _ L1 _ _ A1) as [F1 E1]. destruct (Lex_det _ _ _ _ L2 _ _ A2) as [F2 E2].
  destruct (items_of (pre ++ r1)) as [a b], (items_of (pre ++ r2)) as [c d]. cbn [fst snd] in *. congruence.
Qed.

(* instances: the rewrites of Proofs2 anywhere in a file *)
Lemma space_delim c : is_space c = true -> is_delim c = true /\ c < 128 /\ c <> esc_char.
Proof.
  unfold is_space, memN. intros H. apply existsb_exists in H as (x & Hin & Hx). apply N.eqb_eq in Hx. subst x.
  assert (T : forallb (fun x => is_delim x && (x <? 128) && negb (x =? esc_char)) ni_space = true)
    by (vm_compute; reflexivity).
  rewrite forallb_forall in T. apply T in Hin.
  apply andb_true_iff in Hin as [Hin H3]. apply andb_true_iff in Hin as [H1 H2].
  apply negb_true_iff in H3. repeat split; auto; lia.
Qed.

Theorem layout_spacing_whole_file pre ws1 ws2 t its1 p1 :
  Forall (fun c => is_space c = true) ws1 -> ws1 <> [] ->
  Forall (fun c => is_space c = true) ws2 -> ws2 <> [] ->
  Reach (pre ++ ws1 ++ t) 0 its1 (ws1 ++ t) p1 ->
  items_of (pre ++ ws1 ++ t) = items_of (pre ++ ws2 ++ t).
Proof.
  intros F1 N1 F2 N2 HR. eapply layout_whole_file; eauto.
  - destruct ws1 as [|c w]; [congruence|]. inversion F1; subst.
    destruct (space_delim c H1) as (A & B & C). exists c, (w ++ t). auto.
  - destruct ws2 as [|c w]; [congruence|]. inversion F2; subst.
    destruct (space_delim c H1) as (A & B & C). exists c, (w ++ t). auto.
  - intros p h. apply layout_spacing; assumption.
Qed.

Theorem layout_comment_whole_file pre c t its1 p1 :
  Forall (fun x => x <> ni_comment_end) c ->
  Reach (pre ++ ni_newline :: t) 0 its1 (ni_newline :: t) p1 ->
  items_of (pre ++ ni_newline :: t) = items_of (pre ++ ni_comment :: c ++ ni_newline :: t).
Proof.
  intros F HR. eapply layout_whole_file; eauto.
  - exists ni_newline, t. repeat split; vm_compute; congruence.
  - exists ni_comment, (c ++ ni_newline :: t). repeat split; vm_compute; congruence.
  - intros p h. symmetry. apply layout_comment. exact F.
Qed.

Theorem layout_crlf_whole_file pre t its1 p1 :
  Reach (pre ++ 32 :: ni_newline :: t) 0 its1 (32 :: ni_newline :: t) p1 ->
  items_of (pre ++ 32 :: ni_newline :: t) = items_of (pre ++ 32 :: 13 :: ni_newline :: t).
Proof.
  intros HR. eapply layout_whole_file; eauto.
  - exists 32, (ni_newline :: t). repeat split; vm_compute; congruence.
  - exists 32, (13 :: ni_newline :: t). repeat split; vm_compute; congruence.
  - intros p h. rewrite (ni_view_space 32 (ni_newline :: t)), (ni_view_space 32 (13 :: ni_newline :: t))
      by (vm_compute; reflexivity). symmetry. apply layout_crlf.
Qed.

Example layout_whole_file_ex :
  Reach ([97; 46] ++ [32; 49; 10]) 0 [ITok false false [SChar 97; SChar 46]] [32; 49; 10] 0
  /\ items_of ([97; 46] ++ [32; 49; 10]) = items_of ([97; 46] ++ [9; 32; 13] ++ [49; 10]).
Proof.
  split; [|vm_compute; reflexivity].
  eapply (RTok _ _ CUnq 0 false [97; 46; 32; 49; 10]); [vm_compute; reflexivity|reflexivity| |apply RRefl].
  eapply TkStep; [vm_compute; reflexivity|vm_compute; reflexivity|].
  eapply TkStep; [vm_compute; reflexivity|vm_compute; reflexivity|].
  eapply TkEndU; [reflexivity|vm_compute; reflexivity|vm_compute; reflexivity].
Qed.
